(* C02loop — extraction followed by re-expansion preserves the loop (continued from ProofsExtract.v): the
   simulation between the original loop and the loop built from the analysis result, and the theorem. *)
From Coq Require Import ZArith NArith List Bool Lia Morphisms Setoid Permutation.
Import ListNotations.
From SV Require Import Common.Int32 C02.Kernels C02deep.Syntax C02deep.Sem C02deep.Passes C02deep.ProofsSem
  C02deep.ProofsScope C02deep.ProofsDceSets C02deep.ProofsDce C02deep.ProofsWf
  C02loop.Analysis C02loop.Algebraic C02loop.StrengthIv C02loop.Driver
  C02loop.ProofsBase C02loop.ProofsAnalysis C02loop.ProofsExpand C02loop.ProofsAlgebraic C02loop.ProofsXloop
  C02loop.ProofsScopeX C02loop.ProofsExtract C02loop.ProofsInv.
Open Scope Z_scope.

(* dead code elimination of a block with a live set, then the same kept statements from an environment that
   agrees on the part T of the scope that the kept statements read *)
Lemma dce_then_agree m w fuel rest S0 T s a1 a1' tr :
  scoped_l S0 rest = true -> pre (binders_l rest) (defs_l rest) S0 s ->
  (forall x, In x S0 -> In x (uses_l (fst (dce_stmts rest s)) []) -> In x T) ->
  agree w T a1 a1' ->
  let stmts := fst (dce_stmts rest s) in
  match exec_block m w fuel rest a1 tr with
  | RNext e1 t => exists am e2, exec_block m w fuel stmts a1 tr = RNext am t /\ exec_block m w fuel stmts a1' tr = RNext e2 t /\
                                agree_on s (defs_l rest ++ S0) e1 am /\ agree w (defs_l stmts ++ T) am e2
  | RBreak v e1 t => exists am e2, exec_block m w fuel stmts a1 tr = RBreak v am t /\ exec_block m w fuel stmts a1' tr = RBreak v e2 t /\
                                   agree_on s S0 e1 am /\ agree w T am e2
  | RStuck | ROvf => True
  | o => exec_block m w fuel stmts a1' tr = o
  end.
Proof.
  intros Hsc Hpre Huse Hag stmts.
  destruct (dce_sim m w fuel) as [_ HQ].
  specialize (HQ rest S0 s Hsc Hpre a1 a1 tr (fun x _ _ => eq_refl)). fold stmts in HQ.
  destruct dce_wf_all as [_ HW]. destruct (HW rest S0 S0 s Hsc Hpre (fun x _ H => H)) as (Hsc' & _ & _). fold stmts in Hsc'.
  pose proof (scoped_l_restrict stmts S0 T Hsc' Huse) as HscT.
  pose proof (proj2 (exec_agree_both m w fuel) stmts T a1 a1' tr (scoped_l_scopedc _ _ HscT) Hag) as HA.
  destruct (exec_block m w fuel rest a1 tr) as [e1 t|v e1 t|t|t| | |]; cbn [sim] in HQ; auto.
  - destruct HQ as (am & Em & Ham). rewrite Em in HA. cbn [res_agree] in HA. destruct HA as (e2 & E2 & Ha2). eauto 8.
  - destruct HQ as (am & Em & Ham). rewrite Em in HA. cbn [res_agree] in HA. destruct HA as (e2 & E2 & Ha2). eauto 8.
  - rewrite HQ in HA. exact HA.
  - rewrite HQ in HA. exact HA.
  - rewrite HQ in HA. exact HA.
Qed.


(* the loop variables are split into the basic induction variables and the others *)
Lemma extract_basic_loop_perm lvs rest ninv : forall bs os,
  extract_basic_loop lvs rest ninv = (bs, os) ->
  Permutation (map t_name lvs) (map gc_name bs ++ map t_name os).
Proof.
  induction lvs as [|lv r IH]; intros bs os H.
  - cbn in H. injection H as <- <-. constructor.
  - cbn [extract_basic_loop] in H. destruct (extract_basic_loop r rest ninv) as [bs0 os0].
    specialize (IH bs0 os0 eq_refl).
    destruct (match t_e2 lv with
              | EVar coll => match find_increment (t_name lv) coll rest ninv with
                             | Some inc => Some (mkgivc (t_name lv) (t_e1 lv) inc coll) | None => None end
              | _ => None end) as [b|] eqn:E.
    + injection H as <- <-. cbn [map app].
      assert (Eb : gc_name b = t_name lv).
      { destruct (t_e2 lv); try discriminate. destruct (find_increment _ _ _ _); [|discriminate]. now injection E as <-. }
      rewrite Eb. now constructor.
    + injection H as <- <-. cbn [map]. apply Permutation_cons_app. exact IH.
Qed.

Lemma in_filter_useful (o : owl) t : In t (filter (fun v => memb (t_name v) (useful_of o)) (o_others o)) ->
  In t (o_others o) /\ In (t_name t) (useful_of o).
Proof. intros H. apply filter_In in H. destruct H as [H1 H2]. split; auto. now apply memb_In. Qed.

(* names that are used as loop values of the other loop variables, by the break value or by the kept statements
   are useful *)
Lemma useful_spec o x :
  In x (useful_of o) <->
  In x (uses_l (o_stmts o) []) \/ (exists t, In t (o_others o) /\ t_e2 t = EVar x) \/ bv_of o = EVar x \/ x = bg_name (o_basic o).
Proof.
  unfold useful_of, useful_set. rewrite uses_l_spec.
  assert (G : forall l s, In x (fold_left (fun s v => use_expr (t_e2 v) s) l s) <-> (exists t, In t l /\ t_e2 t = EVar x) \/ In x s).
  { induction l as [|t r IH]; intros s; cbn.
    - split; [auto | intros [[t [[] _]]|H]; assumption].
    - rewrite IH, In_use_expr. split.
      + intros [[t' [Hi Hu]]|[H|H]]; eauto 6.
      + intros [[t' [[<-|Hi] Hu]]|H]; eauto. }
  rewrite G, In_use_expr. cbn. split.
  - intros [H|[H|[H|[H|[]]]]]; auto.
  - intros [H|[H|[H|H]]]; auto.
Qed.

Lemma collect_derived_names s colls rest x :
  In x (map dn_name (collect_derived s colls rest)) -> In x (binders_l rest).
Proof.
  induction rest as [|st r IH]; cbn; [contradiction|].
  destruct st as [y op a b| | | | | | | | | |]; try solve [intros H; apply in_or_app; right; auto].
  destruct (assoc y s); [|intros H; right; auto].
  destruct (memb y colls); [intros H; right; auto|].
  cbn. intros [<-|H]; [now left | right; auto].
Qed.
Lemma collect_derived_nodup s colls rest :
  NoDup (binders_l rest) -> NoDup (map dn_name (collect_derived s colls rest)).
Proof.
  induction rest as [|st r IH]; cbn; intros Hnd; [constructor|].
  assert (Hr : NoDup (binders_l r)) by (eapply nd_app_r; eauto).
  destruct st as [y op a b| | | | | | | | | |]; auto.
  destruct (assoc y s); auto. destruct (memb y colls); auto. cbn. constructor; auto.
  intros Hc. apply collect_derived_names in Hc. cbn in Hnd. inversion Hnd; auto.
Qed.


(* a derived induction variable is defined by a top-level binary statement *)
Lemma collect_derived_toplevel s colls rest d :
  In d (collect_derived s colls rest) -> exists op a b, In (SBin (dn_name d) op a b) rest.
Proof.
  induction rest as [|st r IH]; cbn; [contradiction|].
  assert (Hr : In d (collect_derived s colls r) -> exists op a b, st = SBin (dn_name d) op a b \/ In (SBin (dn_name d) op a b) r).
  { intros H. destruct (IH H) as (op & a & b & Hi). eauto 6. }
  destruct st as [y op a b| | | | | | | | | |]; auto.
  destruct (assoc y s) as [dd|]; auto. destruct (memb y colls); auto.
  intros [<-|H]; auto. cbn. eauto 6.
Qed.

(* every statement the dead code elimination keeps is the image of a statement of its input *)
Lemma dce_stmts_in ss : forall s st,
  In st (fst (dce_stmts ss s)) -> exists st0 s1, In st0 ss /\ fst (dce_stmt st0 s1) = Some st.
Proof.
  induction ss as [|s0 r IH]; intros s st H; [contradiction|].
  cbn [dce_stmts] in H. destruct (dce_stmts r s) as [r' s1] eqn:Er. destruct (dce_stmt s0 s1) as [o s2] eqn:Eo.
  cbn [fst] in H.
  assert (Hr : In st r' -> exists st0 s1, In st0 (s0 :: r) /\ fst (dce_stmt st0 s1) = Some st).
  { intros Hi. specialize (IH s st). rewrite Er in IH. destruct (IH Hi) as (st0 & s1' & A & B). exists st0, s1'. split; [now right | assumption]. }
  destruct o as [st'|]; [|auto]. destruct H as [<-|H]; [|auto].
  exists s0, s1. split; [now left|]. now rewrite Eo.
Qed.
Lemma dce_stmt_keeps_SBin x op a b s st : fst (dce_stmt (SBin x op a b) s) = Some st -> st = SBin x op a b.
Proof. cbn [dce_stmt]. destruct (negb (memb x s) && negb (is_divmod op)); cbn; [discriminate | now intros [= <-]]. Qed.

Lemma in_binders_l' x l : In x (binders_l l) <-> exists st, In st l /\ In x (binders st).
Proof.
  induction l as [|s r IH]; cbn [binders_l].
  - split; [intros [] | intros (st & [] & _)].
  - rewrite in_app_iff, IH. split.
    + intros [H|(st & Hs & H)]; [exists s; split; [now left | assumption] | exists st; split; [now right | assumption]].
    + intros (st & [<-|Hs] & H); [now left | right; eauto].
Qed.
Lemma nodup_binder_unique l : forall s1 s2 x,
  NoDup (binders_l l) -> In s1 l -> In s2 l -> In x (binders s1) -> In x (binders s2) -> s1 = s2.
Proof.
  induction l as [|s r IH]; intros s1 s2 x Hnd H1 H2 B1 B2; [contradiction|]. cbn [binders_l] in Hnd.
  destruct H1 as [<-|H1], H2 as [<-|H2]; auto.
  - exfalso. apply (nd_app_disj _ _ x Hnd); auto. apply in_binders_l'. eauto.
  - exfalso. apply (nd_app_disj _ _ x Hnd); auto. apply in_binders_l'. eauto.
  - eapply IH; eauto. eapply nd_app_r; eauto.
Qed.

Lemma bind_e2_in w l en t : NoDup (map t_name l) -> In t l -> lookup (t_name t) (bind_e2 w l en) = eval w en (t_e2 t).
Proof. intros Hnd Hi. unfold bind_e2. rewrite lookup_bind, (find_name_unique l t Hnd Hi). reflexivity. Qed.
Lemma bind_e1_in w l en en0 t : NoDup (map t_name l) -> In t l ->
  lookup (t_name t) (combine (map t_name l) (map (fun t => eval w en0 (t_e1 t)) l) ++ en) = eval w en0 (t_e1 t).
Proof. intros Hnd Hi. rewrite lookup_bind, (find_name_unique l t Hnd Hi). reflexivity. Qed.

Lemma as_var_some e y : as_var e = Some y -> e = EVar y.
Proof. destruct e; cbn; try discriminate. now intros [= ->]. Qed.
Lemma eval_nonvar w en1 en2 e : as_var e = None -> eval w en1 e = eval w en2 e.
Proof. destruct e; cbn; try discriminate; reflexivity. Qed.

Section Extract.
  Variables (w : world) (fuel : nat).
  Variables (S : list name) (lvs : list triple) (bc : option name) (ninv : set).
  Variables (cc0 : name) (op : binop) (ge : expr) (inv : bool) (e0 : expr) (rest : list stmt).
  Variables (g : lgs) (others : list triple) (all_basic : list givc) (gb : givc).
  Variables (coll cc : name) (ns ts : list name).

  Let i := lg_var g.
  Let ss := SBin cc0 op (EVar i) ge :: SSIf (EVar cc0) inv [SBreak e0] :: rest.
  Let o := owl_of g all_basic others gb rest ninv.
  Let LN := map t_name lvs.
  Let gcs := combine (kept_generals o) ns.
  Let XL := xlvs o coll gcs.
  Let KN := map t_name XL.
  Let S0 := cc0 :: LN ++ S.
  Let T := KN ++ S.
  Let live := live_of_others
    (filter (fun it => match as_var (t_e2 it) with Some v => negb (memb v (map dn_name (o_derived o))) | None => true end) others).
  Let stmts := o_stmts o.

  Hypothesis Hsc : scoped S (SWhile lvs ss bc) = true.
  Hypothesis Hnd : NoDup (LN ++ (cc0 :: binders_l rest) ++ opt_names bc).
  Hypothesis Hfr : forall x, In x (LN ++ (cc0 :: binders_l rest) ++ opt_names bc) -> ~ In x S.
  Hypothesis Hgop : get_guard_operator op inv = Some (lg_op g).
  Hypothesis Hginv : get_inv ge ninv = Some (lg_guard g).
  Hypothesis Hbc : lg_bc g = match bc with Some b => Some (b, e0) | None => None end.
  Hypothesis Hused : guard_name_used lvs ss g = false.
  Hypothesis Hnb : no_break_l rest = true.
  Hypothesis Hbasic : extract_basic_loop lvs rest ninv = (all_basic, others).
  Hypothesis Hfind : find (fun b => N.eqb (gc_name b) i) all_basic = Some gb.
  Hypothesis Hops : ops_stable ninv (binders_l rest) rest.
  (* the invariant operands of the analysis result come from the scope in front of the loop *)
  Hypothesis HinvS : forall v,
    lg_guard g = PVar v \/ (exists b, In b all_basic /\ gc_inc b = PVar v) \/
    (exists d, In d (o_derived o) /\ (dn_mult d = PVar v \/ dn_imm d = PVar v)) -> In v S.
  (* outside K_base_dropped *)
  Hypothesis Hbase : forall d, In d (o_derived o) -> In (dn_base d) (i :: map gi_name (kept_generals o)).
  (* the temporaries are new *)
  Hypothesis Hfnd : NoDup (coll :: cc :: ns ++ ts).
  Hypothesis Hfout : forall y, In y (coll :: cc :: ns ++ ts) ->
    ~ In y S /\ ~ In y (LN ++ (cc0 :: binders_l rest) ++ opt_names bc).
  Hypothesis Hlen_ns : length ns = length (kept_generals o).
  Hypothesis Hlen_ts : length ts = length (o_derived o).

  (* ---- names ---- *)
  Lemma gb_name : gc_name gb = i.
  Proof. apply find_some in Hfind. destruct Hfind as [_ H]. now apply N.eqb_eq in H. Qed.
  Lemma gb_in : In gb all_basic.
  Proof. apply find_some in Hfind. tauto. Qed.

  Lemma o_basic_eq : o_basic o = mkbivg (gc_name gb) (gc_init gb) (gc_inc gb) (lg_op g) (lg_guard g).
  Proof. reflexivity. Qed.
  Lemma o_name : bg_name (o_basic o) = i.
  Proof. cbn. apply gb_name. Qed.
  Lemma o_stmts_eq : stmts = fst (dce_stmts rest live).
  Proof. reflexivity. Qed.

  Lemma basic_facts b : In b all_basic ->
    In (gc_name b, gc_init b, EVar (gc_coll b)) lvs /\
    exists e2, In (SBin (gc_coll b) PLUS (EVar (gc_name b)) e2) rest /\ get_inv e2 ninv = Some (gc_inc b).
  Proof. intros Hb. destruct (extract_basic_loop_sound _ _ _ _ _ Hbasic) as (H1 & _). now apply H1. Qed.
  Lemma others_in t : In t others -> In t lvs.
  Proof. intros Ht. destruct (extract_basic_loop_sound _ _ _ _ _ Hbasic) as (_ & H2 & _). now apply H2. Qed.

  Lemma LN_nodup : NoDup LN.
  Proof. eapply nd_app_l; eauto. Qed.
  Lemma LN_not_bound x : In x LN -> x <> cc0 /\ ~ In x (binders_l rest).
  Proof.
    intros Hx. split.
    - intros ->. apply (nd_app_disj _ _ cc0 Hnd); auto. apply in_or_app. left. now left.
    - intros Hb. apply (nd_app_disj _ _ x Hnd); auto. apply in_or_app. left. now right.
  Qed.
  Lemma cc0_not_bound : ~ In cc0 (binders_l rest).
  Proof. apply nd_app_r in Hnd. apply nd_app_l in Hnd. now inversion Hnd. Qed.
  Lemma rest_nodup : NoDup (binders_l rest).
  Proof. apply nd_app_r in Hnd. apply nd_app_l in Hnd. now inversion Hnd. Qed.
  Lemma S_not_bound x : In x S -> ~ In x LN /\ x <> cc0 /\ ~ In x (binders_l rest).
  Proof.
    intros Hx. repeat split.
    - intros Hc. apply (Hfr x); auto. apply in_or_app. now left.
    - intros ->. apply (Hfr cc0); auto. apply in_or_app. right. apply in_or_app. left. now left.
    - intros Hc. apply (Hfr x); auto. apply in_or_app. right. apply in_or_app. left. now right.
  Qed.

  Lemma names_perm : Permutation LN (map gc_name all_basic ++ map t_name others).
  Proof. now apply (extract_basic_loop_perm lvs rest ninv). Qed.
  Lemma names_nodup : NoDup (map gc_name all_basic ++ map t_name others).
  Proof. eapply Permutation_NoDup; [apply names_perm | apply LN_nodup]. Qed.
  Lemma basic_in_LN b : In b all_basic -> In (gc_name b) LN.
  Proof.
    intros Hb. eapply Permutation_in; [apply Permutation_sym, names_perm|]. apply in_or_app. left. now apply in_map.
  Qed.
  Lemma other_in_LN t : In t others -> In (t_name t) LN.
  Proof. intros Ht. unfold LN. apply in_map. now apply others_in. Qed.

  (* ---- the loop variables of the expanded loop ---- *)
  Lemma map_gi_name_mk (l : list givc) :
    map gi_name (map (fun it => mkgiv (gc_name it) (gc_init it) (gc_inc it)) l) = map gc_name l.
  Proof. rewrite map_map. reflexivity. Qed.
  Lemma NoDup_map_filter {A B} (f : A -> B) (p : A -> bool) l : NoDup (map f l) -> NoDup (map f (filter p l)).
  Proof.
    induction l as [|a r IH]; cbn; intros H; [constructor|]. inversion H as [|? ? Hni Hnd']; subst.
    destruct (p a); cbn; auto. constructor; auto. intros Hi. apply Hni.
    apply in_map_iff in Hi. destruct Hi as (a' & E & Hi). apply filter_In in Hi. apply in_map_iff. exists a'. tauto.
  Qed.

  Lemma kept_general_inv v : In v (kept_generals o) ->
    exists b, In b all_basic /\ v = mkgiv (gc_name b) (gc_init b) (gc_inc b) /\ gc_name b <> i /\ In (gc_name b) (useful_of o).
  Proof.
    unfold kept_generals. intros H. apply filter_In in H. destruct H as [H Hu]. apply memb_In in Hu.
    cbn [o o_general owl_of] in H. apply in_map_iff in H. destruct H as (b & <- & Hb). apply filter_In in Hb.
    destruct Hb as [Hb Hn]. exists b. repeat split; auto. apply negb_true_iff in Hn. now apply N.eqb_neq in Hn.
  Qed.
  Lemma basic_names_nodup : NoDup (map gc_name all_basic).
  Proof. eapply nd_app_l. apply names_nodup. Qed.
  Lemma kept_general_names_nodup : NoDup (map gi_name (kept_generals o)).
  Proof.
    unfold kept_generals. apply NoDup_map_filter. cbn [o o_general owl_of]. rewrite map_gi_name_mk.
    apply NoDup_map_filter. apply basic_names_nodup.
  Qed.
  Lemma gcs_fst : map fst gcs = kept_generals o.
  Proof. unfold gcs. apply map_fst_combine. auto. Qed.
  Lemma gcs_snd : map snd gcs = ns.
  Proof. unfold gcs. apply map_snd_combine. auto. Qed.
  Lemma gcs_names : map (fun vn : giv * name => gi_name (fst vn)) gcs = map gi_name (kept_generals o).
  Proof. rewrite <- gcs_fst, map_map. reflexivity. Qed.

  Lemma KN_eq : KN = map t_name (filter (fun v => memb (t_name v) (useful_of o)) others) ++ i :: map gi_name (kept_generals o).
  Proof.
    unfold KN, XL, xlvs. rewrite !map_app. cbn [map t_name fst]. rewrite o_name, map_map. cbn [t_name fst].
    rewrite <- gcs_names. reflexivity.
  Qed.
  Lemma KN_in_LN x : In x KN -> In x LN.
  Proof.
    rewrite KN_eq, in_app_iff. intros [H|[<-|H]].
    - apply in_map_iff in H. destruct H as (t & <- & Ht). apply filter_In in Ht. apply other_in_LN. tauto.
    - rewrite <- gb_name. apply basic_in_LN, gb_in.
    - apply in_map_iff in H. destruct H as (v & <- & Hv). destruct (kept_general_inv v Hv) as (b & Hb & -> & _). cbn.
      now apply basic_in_LN.
  Qed.
  Lemma KN_nodup : NoDup KN.
  Proof.
    rewrite KN_eq. pose proof names_nodup as Hn. apply nd_app_intro.
    - apply NoDup_map_filter. eapply nd_app_r; eauto.
    - constructor.
      + intros H. apply in_map_iff in H. destruct H as (v & E & Hv). destruct (kept_general_inv v Hv) as (b & Hb & -> & Hne & _).
        cbn in E. congruence.
      + apply kept_general_names_nodup.
    - intros x H1 H2. apply in_map_iff in H1. destruct H1 as (t & <- & Ht). apply filter_In in Ht. destruct Ht as [Ht _].
      apply (nd_app_disj _ _ (t_name t) Hn); [|now apply in_map].
      destruct H2 as [<-|H2].
      + rewrite <- gb_name. apply in_map. apply gb_in.
      + apply in_map_iff in H2. destruct H2 as (v & E & Hv). destruct (kept_general_inv v Hv) as (b & Hb & -> & _).
        cbn in E. rewrite <- E. now apply in_map.
  Qed.

  (* ---- scoping facts ---- *)
  Lemma sc_parts :
    forallb (fun t => in_scope S (t_e1 t)) lvs = true /\
    in_scope (LN ++ S) (EVar i) = true /\ in_scope (LN ++ S) ge = true /\
    in_scope S0 e0 = true /\ scoped_l S0 rest = true /\
    forallb (fun t => in_scope (defs_l rest ++ S0) (t_e2 t)) lvs = true.
  Proof.
    pose proof Hsc as H. rewrite scoped_SWhile in H. fold LN in H.
    apply andb_prop in H. destruct H as [H Hl2]. apply andb_prop in H. destruct H as [Hl1 Hss].
    unfold ss in Hss. cbn [scoped_l scoped defs app] in Hss.
    apply andb_prop in Hss. destruct Hss as [Hc Hss]. apply andb_prop in Hc. destruct Hc as [Hci Hcg].
    apply andb_prop in Hss. destruct Hss as [Hif Hrest].
    change (scoped (cc0 :: LN ++ S) (SSIf (EVar cc0) inv [SBreak e0])) with
      (in_scope (cc0 :: LN ++ S) (EVar cc0) && scoped_l (cc0 :: LN ++ S) [SBreak e0]) in Hif.
    apply andb_prop in Hif. destruct Hif as [_ Hb]. cbn in Hb. rewrite andb_true_r in Hb.
    repeat split; auto.
    unfold ss in Hl2. cbn [defs_l defs app] in Hl2. rewrite app_nil_r, <- app_assoc in Hl2. exact Hl2.
  Qed.

  Lemma cc0_unused :
    ~ In cc0 (uses_l rest []) /\ (forall t, In t lvs -> t_e2 t <> EVar cc0) /\ (bc <> None -> e0 <> EVar cc0).
  Proof.
    pose proof Hused as H. unfold guard_name_used, ss in H. cbn [skipn] in H. apply memb_false in H.
    assert (G : forall l s x, In x (fold_left (fun s v => use_expr (t_e2 v) s) l s) <-> (exists t, In t l /\ t_e2 t = EVar x) \/ In x s).
    { induction l as [|t r IH]; intros s x; cbn.
      - split; [auto | intros [[t [[] _]]|H0]; assumption].
      - rewrite IH, In_use_expr. split.
        + intros [[t' [Hi Hu]]|[H0|H0]]; eauto 6.
        + intros [[t' [[<-|Hi] Hu]]|H0]; eauto. }
    repeat split.
    - intros Hc. apply H. destruct (lg_bc g) as [[b e]|]; [rewrite In_use_expr; right|]; apply G; auto.
    - intros t Ht E. apply H. destruct (lg_bc g) as [[b e]|]; [rewrite In_use_expr; right|]; apply G; left; eauto.
    - intros Hb E. apply H. rewrite Hbc. destruct bc as [b|]; [|congruence]. rewrite In_use_expr. auto.
  Qed.

  Lemma useful_LN_in_KN x : In x LN -> In x (useful_of o) -> In x KN.
  Proof.
    intros Hx Hu. rewrite KN_eq. apply in_or_app.
    apply (Permutation_in _ names_perm) in Hx. apply in_app_iff in Hx. destruct Hx as [Hx|Hx].
    - right. apply in_map_iff in Hx. destruct Hx as (b & <- & Hb).
      destruct (N.eq_dec (gc_name b) i) as [E|Ne]; [now left|]. right.
      apply in_map_iff. exists (mkgiv (gc_name b) (gc_init b) (gc_inc b)). split; [reflexivity|].
      unfold kept_generals. apply filter_In. split.
      + cbn [o o_general owl_of]. apply (in_map (fun it => mkgiv (gc_name it) (gc_init it) (gc_inc it))).
        apply filter_In. split; auto. apply negb_true_iff. now apply N.eqb_neq.
      + cbn. now apply memb_In.
    - left. apply in_map_iff in Hx. destruct Hx as (t & <- & Ht). apply in_map. apply filter_In. split; auto. now apply memb_In.
  Qed.

  (* ---- one iteration, the heads ---- *)
  Definition G (e : env) : bool := guard_holds (lg_op g) (wrap32 (lookup i e)) (pv w e (lg_guard g)).

  Lemma orig_head e tr : exists c : bool,
    let a1 := (cc0, b2z c) :: e in
    exec_block Wrap w fuel ss e tr =
    if G e then exec_block Wrap w fuel rest a1 tr else RBreak (eval w a1 e0) a1 tr.
  Proof.
    destruct (guard_sound Wrap w fuel cc0 op i ge inv [SBreak e0] (lg_op g) (lg_guard g) ninv e tr Hgop Hginv) as (c & _ & H).
    exists c. cbn zeta in *. unfold ss.
    change (SBin cc0 op (EVar i) ge :: SSIf (EVar cc0) inv [SBreak e0] :: rest)
      with ([SBin cc0 op (EVar i) ge; SSIf (EVar cc0) inv [SBreak e0]] ++ rest).
    rewrite exec_block_app, H. unfold G. destruct (guard_holds _ _ _); reflexivity.
  Qed.

  Lemma xloop_head e' tr : exists c' : bool,
    let a1' := (cc, b2z c') :: e' in
    exec_block Wrap w fuel (xbody o coll cc gcs ts) e' tr =
    if G e' then match exec_block Wrap w fuel stmts a1' tr with
                 | RNext a2 t => RNext (tail_env w o coll gcs ts a2) t
                 | r => r
                 end
    else RBreak (eval w a1' (bv_of o)) a1' tr.
  Proof.
    destruct (exec_guard_stmts Wrap w fuel (o_basic o) cc (bv_of o) e' tr) as (c' & H). exists c'. cbn zeta in *.
    rewrite xbody_split, exec_block_app, H. change (bg_op (o_basic o)) with (lg_op g). change (bg_guard (o_basic o)) with (lg_guard g).
    rewrite o_name. fold (G e'). destruct (G e'); [|reflexivity].
    rewrite exec_block_app. fold stmts. destruct (exec_block Wrap w fuel stmts _ tr); try reflexivity.
    apply exec_xtail.
  Qed.

  Lemma or_introl_T x : In x KN -> In x T. Proof. intros H. unfold T. apply in_or_app. now left. Qed.
  Lemma or_intror_T x : In x S -> In x T. Proof. intros H. unfold T. apply in_or_app. now right. Qed.
  Lemma i_in_KN : In i KN.
  Proof. rewrite KN_eq. apply in_or_app. right. now left. Qed.

  Lemma G_agree e e' : agree w T e e' -> G e = G e'.
  Proof.
    intros Ha. unfold G.
    assert (E1 : wrap32 (lookup i e) = wrap32 (lookup i e')).
    { rewrite <- !(eval_var w). apply Ha. apply in_or_app. left. apply i_in_KN. }
    assert (E2 : pv w e (lg_guard g) = pv w e' (lg_guard g)).
    { destruct (lg_guard g) as [z|v] eqn:Eg; [reflexivity|]. unfold pv. cbn [pli_expr]. apply Ha. apply in_or_app. right.
      apply HinvS. now left. }
    now rewrite E1, E2.
  Qed.

  (* ---- more names ---- *)
  Lemma fresh_facts y : In y (coll :: cc :: ns ++ ts) ->
    ~ In y S /\ ~ In y LN /\ y <> cc0 /\ ~ In y (binders_l rest).
  Proof.
    intros Hy. destruct (Hfout y Hy) as [H1 H2]. repeat split; auto.
    - intros Hc. apply H2. apply in_or_app. now left.
    - intros ->. apply H2. apply in_or_app. right. apply in_or_app. left. now left.
    - intros Hc. apply H2. apply in_or_app. right. apply in_or_app. left. now right.
  Qed.
  Lemma cc_fresh : In cc (coll :: cc :: ns ++ ts). Proof. right. now left. Qed.
  Lemma coll_fresh : In coll (coll :: cc :: ns ++ ts). Proof. now left. Qed.
  Lemma ns_fresh y : In y ns -> In y (coll :: cc :: ns ++ ts). Proof. intros H. right. right. apply in_or_app. now left. Qed.
  Lemma ts_fresh y : In y ts -> In y (coll :: cc :: ns ++ ts). Proof. intros H. right. right. apply in_or_app. now right. Qed.

  Lemma T_in x : In x T -> In x (LN ++ S).
  Proof. unfold T. rewrite !in_app_iff. intros [H|H]; auto. left. now apply KN_in_LN. Qed.
  Lemma T_not x : In x T -> x <> cc0 /\ x <> cc /\ ~ In x (binders_l rest).
  Proof.
    intros Hx. apply T_in in Hx. apply in_app_iff in Hx.
    destruct (fresh_facts cc cc_fresh) as (F1 & F2 & _).
    destruct Hx as [Hx|Hx].
    - destruct (LN_not_bound x Hx). repeat split; auto. intros ->. contradiction.
    - destruct (S_not_bound x Hx) as (_ & A & B). repeat split; auto. intros ->. contradiction.
  Qed.

  Lemma stmts_binders x : In x (binders_l stmts) -> In x (binders_l rest).
  Proof. rewrite o_stmts_eq. apply dce_stmts_binders. Qed.

  Lemma derived_in_rest d : In d (o_derived o) -> In (dn_name d) (defs_l rest) /\ In (dn_base d) (map gc_name all_basic).
  Proof.
    intros Hd. cbn [o o_derived owl_of] in Hd. unfold extract_derived in Hd.
    destruct (collect_derived_spec _ _ _ _ Hd) as (Ha & Hn & _). split; [assumption|].
    (* the base comes from the initial set *)
    revert Ha. generalize (dn_name d). intros x Ha.
    assert (G0 : forall s, (forall y dd, assoc y s = Some dd -> In (d_base dd) (map gc_name all_basic)) ->
                 forall rs y dd, assoc y (dset_run s rs ninv) = Some dd -> In (d_base dd) (map gc_name all_basic)).
    { intros s Hs rs. revert s Hs. induction rs as [|st r IH]; intros s Hs y dd Hy; [eauto|].
      unfold dset_run in Hy. cbn [fold_left] in Hy.
      fold (dset_run (match st with SBin x0 op0 a b => try_merge s ninv x0 op0 a b | _ => s end) r ninv) in Hy.
      eapply IH; [|exact Hy]. intros y0 d0 Hy0.
      destruct st as [x0 op0 a b| | | | | | | | | |]; eauto.
      unfold try_merge in Hy0.
      assert (Hns : forall a' b' s', try_merge_noswap s ninv x0 op0 a' b' = Some s' ->
                forall y1 d1, assoc y1 s' = Some d1 -> In (d_base d1) (map gc_name all_basic)).
      { intros a' b' s' H y1 d1 H1. unfold try_merge_noswap in H. destruct (dget a' s) as [ex|] eqn:Ea; [|discriminate].
        assert (Hex : In (d_base ex) (map gc_name all_basic)).
        { unfold dget in Ea. destruct (as_var a'); [|discriminate]. eauto. }
        destruct (match dget b' s with Some an => if is_plus op0 then merge_var_add ex an else None | None => None end) as [mg|] eqn:Em.
        - injection H as <-. cbn in H1. destruct (N.eqb y1 x0); [|eauto]. injection H1 as <-.
          destruct (dget b' s); [|discriminate]. destruct (is_plus op0); [|discriminate].
          unfold merge_var_add in Em. destruct (N.eqb _ _); [|discriminate].
          destruct (merge_add _ _); [|discriminate]. destruct (merge_add _ _); [|discriminate]. injection Em as <-. exact Hex.
        - destruct (get_inv b' ninv) as [p|]; [|discriminate]. destruct (is_plus_or_mul op0); [|discriminate].
          destruct (merge_const_op ex (is_plus op0) p) as [mg|] eqn:Ec; [|discriminate]. injection H as <-.
          cbn in H1. destruct (N.eqb y1 x0); [|eauto]. injection H1 as <-.
          destruct (merge_const_op_sound w [] _ _ _ _ 0 Ec) as [-> _]. exact Hex. }
      destruct (try_merge_noswap s ninv x0 op0 a b) as [s1|] eqn:E1; [eapply Hns; eauto|].
      destruct (is_plus_or_mul op0); [|eauto].
      destruct (try_merge_noswap s ninv x0 op0 b a) as [s2|] eqn:E2; [eapply Hns; eauto | eauto]. }
    change (dn_base d) with (d_base (mkdiv (dn_base d) (dn_mult d) (dn_imm d))).
    eapply G0; [|exact Ha]. intros y dd Hy. destruct (dset_init_spec _ _ _ Hy) as [-> Hi]. exact Hi.
  Qed.

  (* ---- the middle of the body: dead code elimination, then the same statements on the other side ---- *)
  Lemma live_spec y : In y live <->
    exists t, In t others /\ t_e2 t = EVar y /\ ~ In y (map dn_name (o_derived o)).
  Proof.
    unfold live, live_of_others.
    assert (G0 : forall l s, In y (fold_left (fun s v => match as_var (t_e2 v) with Some x => x :: s | None => s end) l s) <->
                 (exists t, In t l /\ t_e2 t = EVar y) \/ In y s).
    { induction l as [|t r IH]; intros s0; cbn.
      - split; [auto | intros [[t [[] _]]|H]; assumption].
      - rewrite IH. split.
        + intros [[t' [Hi Hu]]|H]; [eauto|]. destruct (t_e2 t) as [| | |x] eqn:E; cbn in H; auto.
          destruct H as [->|H]; auto. left. exists t. auto.
        + intros [[t' [[<-|Hi] Hu]]|H]; [|eauto|].
          * right. rewrite Hu. cbn. now left.
          * right. destruct (as_var (t_e2 t)); [now right | assumption]. }
    rewrite G0. split.
    - intros [[t [Ht Hu]]|[]]. apply filter_In in Ht. destruct Ht as [Ht Hf]. rewrite Hu in Hf. cbn in Hf.
      exists t. repeat split; auto. apply negb_true_iff in Hf. now apply memb_false in Hf.
    - intros (t & Ht & Hu & Hn). left. exists t. split; auto. apply filter_In. split; auto. rewrite Hu. cbn.
      apply negb_true_iff. now apply memb_false.
  Qed.

  Lemma loop_value_scope t y : In t lvs -> t_e2 t = EVar y ->
    (In y (defs_l rest) \/ In y LN \/ In y S) /\ y <> cc0.
  Proof.
    intros Ht Hy. destruct sc_parts as (_ & _ & _ & _ & _ & Hl2). rewrite forallb_forall in Hl2.
    specialize (Hl2 t Ht). rewrite Hy in Hl2. apply in_scope_var in Hl2.
    destruct cc0_unused as (_ & Hlv & _). assert (Hne : y <> cc0) by (intros ->; apply (Hlv t Ht); exact Hy).
    split; auto. unfold S0 in Hl2. rewrite !in_app_iff in Hl2. cbn in Hl2. rewrite in_app_iff in Hl2.
    destruct Hl2 as [H|[H|[H|H]]]; auto. congruence.
  Qed.

  Lemma pre_rest : pre (binders_l rest) (defs_l rest) S0 live.
  Proof.
    split; [apply rest_nodup|]. split.
    - intros x Hx. unfold S0. cbn. rewrite in_app_iff. intros [<-|[H|H]].
      + now apply cc0_not_bound.
      + now apply (LN_not_bound x H).
      + now apply (S_not_bound x H).
    - intros x Hx Hb. apply live_spec in Hx. destruct Hx as (t & Ht & Hy & _).
      destruct (loop_value_scope t x (others_in t Ht) Hy) as [[H|[H|H]] _]; auto.
      + exfalso. now apply (LN_not_bound x H).
      + exfalso. now apply (S_not_bound x H).
  Qed.

  Lemma uses_stmts_T x : In x S0 -> In x (uses_l stmts []) -> In x T.
  Proof.
    intros Hs Hu. unfold S0 in Hs. cbn in Hs. rewrite in_app_iff in Hs. destruct Hs as [<-|[H|H]].
    - exfalso. destruct cc0_unused as (Hc & _). apply Hc. rewrite o_stmts_eq in Hu. now apply dce_uses_sub in Hu.
    - unfold T. apply in_or_app. left. apply useful_LN_in_KN; auto. apply useful_spec. now left.
    - unfold T. apply in_or_app. now right.
  Qed.

  Lemma agree_heads e e' v v' : agree w T e e' -> agree w T ((cc0, v) :: e) ((cc, v') :: e').
  Proof.
    intros Ha x Hx. destruct (T_not x Hx) as (H1 & H2 & _). rewrite !eval_var, !lookup_cons_ne by assumption.
    rewrite <- !(eval_var w). now apply Ha.
  Qed.

  Lemma body_mid a1 a1' tr : agree w T a1 a1' ->
    match exec_block Wrap w fuel rest a1 tr with
    | RNext e1 t => exists am a2, exec_block Wrap w fuel stmts a1 tr = RNext am t /\ exec_block Wrap w fuel stmts a1' tr = RNext a2 t /\
                                  agree_on live (defs_l rest ++ S0) e1 am /\ agree w (defs_l stmts ++ T) am a2
    | RBreak _ _ _ => False
    | RStuck | ROvf => True
    | r => exec_block Wrap w fuel stmts a1' tr = r
    end.
  Proof.
    intros Ha. destruct sc_parts as (_ & _ & _ & _ & Hrest & _).
    pose proof (dce_then_agree Wrap w fuel rest S0 T live a1 a1' tr Hrest pre_rest) as H.
    cbn zeta in H. rewrite <- o_stmts_eq in H. specialize (H uses_stmts_T Ha).
    destruct (exec_block Wrap w fuel rest a1 tr) as [e1 t|v e1 t|t|t| | |] eqn:E; auto.
    exfalso. eapply (proj2 (no_break_not_break Wrap w fuel)); eauto.
  Qed.

  (* ---- the hypotheses of the lemmas about the tail ---- *)
  Lemma DN_in x : In x (map dn_name (o_derived o)) -> In x (binders_l rest).
  Proof. cbn [o o_derived owl_of]. unfold extract_derived. apply collect_derived_names. Qed.
  Lemma DN_nodup : NoDup (map dn_name (o_derived o)).
  Proof. cbn [o o_derived owl_of]. unfold extract_derived. apply collect_derived_nodup. apply rest_nodup. Qed.

  Lemma tl_nd1 : NoDup (coll :: map snd gcs).
  Proof.
    rewrite gcs_snd. inversion Hfnd as [|? ? Hn H]; subst. inversion H as [|? ? Hn2 H2]; subst. constructor.
    - intros Hc. apply Hn. right. apply in_or_app. now left.
    - eapply nd_app_l; eauto.
  Qed.
  Lemma tl_nd2 : NoDup (ts ++ map dn_name (o_derived o)).
  Proof.
    apply nd_app_intro.
    - inversion Hfnd as [|? ? _ H]; subst. inversion H as [|? ? _ H2]; subst. eapply nd_app_r; eauto.
    - apply DN_nodup.
    - intros x H1 H2. apply DN_in in H2. now apply (fresh_facts x (ts_fresh x H1)).
  Qed.
  Lemma tl_collts y : In y (coll :: map snd gcs) -> ~ In y ts.
  Proof.
    rewrite gcs_snd. inversion Hfnd as [|? ? Hn H]; subst. inversion H as [|? ? Hn2 H2]; subst.
    intros [<-|Hy] Hc.
    - apply Hn. right. apply in_or_app. now right.
    - eapply (nd_app_disj _ _ y H2); eauto.
  Qed.
  Lemma inv_var_not x : In x S -> forall y, In y (coll :: cc :: ns ++ ts) \/ In y (binders_l rest) \/ In y LN -> y <> x.
  Proof.
    intros Hx y [Hy|[Hy|Hy]] ->.
    - destruct (fresh_facts x Hy) as (F & _). contradiction.
    - destruct (S_not_bound x Hx) as (_ & _ & F). contradiction.
    - destruct (S_not_bound x Hx) as (F & _). contradiction.
  Qed.
  Lemma tl_fresh y : In y (coll :: map snd gcs ++ ts) ->
    y <> bg_name (o_basic o) /\ ~ In y (map (fun vn : giv * name => gi_name (fst vn)) gcs) /\
    ~ In y (map dn_name (o_derived o)) /\ bg_inc (o_basic o) <> PVar y /\
    (forall v n, In (v, n) gcs -> gi_inc v <> PVar y) /\
    (forall d, In d (o_derived o) -> y <> dn_base d /\ dn_mult d <> PVar y /\ dn_imm d <> PVar y).
  Proof.
    rewrite gcs_snd. intros Hy.
    assert (Hf : In y (coll :: cc :: ns ++ ts)).
    { destruct Hy as [<-|Hy]; [now left|]. right. right. exact Hy. }
    destruct (fresh_facts y Hf) as (F1 & F2 & F3 & F4).
    rewrite o_name, gcs_names. repeat split.
    - intros ->. apply F2. apply KN_in_LN, i_in_KN.
    - intros Hc. apply F2. apply KN_in_LN. rewrite KN_eq. apply in_or_app. right. now right.
    - intros Hc. apply F4. now apply DN_in.
    - cbn. intros E. apply F1. apply HinvS. right. left. exists gb. split; [apply gb_in | exact E].
    - intros v n Hvn E. apply F1. apply HinvS. right. left.
      assert (Hv : In v (kept_generals o)) by (rewrite <- gcs_fst; apply in_map_iff; exists (v, n); auto).
      destruct (kept_general_inv v Hv) as (b & Hb & -> & _). exists b. auto.
    - intros ->. apply F2. destruct (derived_in_rest d H) as [_ Hb]. apply in_map_iff in Hb. destruct Hb as (b & <- & Hb).
      now apply basic_in_LN.
    - intros E. apply F1. apply HinvS. right. right. exists d. auto.
    - intros E. apply F1. apply HinvS. right. right. exists d. auto.
  Qed.
  Lemma tl_dn y : In y (map dn_name (o_derived o)) -> forall d, In d (o_derived o) ->
    y <> dn_base d /\ dn_mult d <> PVar y /\ dn_imm d <> PVar y.
  Proof.
    intros Hy d Hd. apply DN_in in Hy. repeat split.
    - intros ->. destruct (derived_in_rest d Hd) as [_ Hb]. apply in_map_iff in Hb. destruct Hb as (b & E & Hb).
      apply (LN_not_bound (dn_base d)); auto. rewrite <- E. now apply basic_in_LN.
    - intros E. apply (S_not_bound y); auto. apply HinvS. right. right. exists d. auto.
    - intros E. apply (S_not_bound y); auto. apply HinvS. right. right. exists d. auto.
  Qed.

  Lemma get_inv_eval en a p : get_inv a ninv = Some p -> eval w en a = pv w en p.
  Proof.
    destruct a as [z| | |v]; cbn; try discriminate; [now intros [= <-]|].
    destruct (memb v ninv); [discriminate|]. now intros [= <-].
  Qed.
  Lemma get_inv_var v p : get_inv (EVar v) ninv = Some p -> ~ In v ninv.
  Proof. cbn. destruct (memb v ninv) eqn:M; [discriminate|]. intros _. now apply memb_false. Qed.

  (* ---- one iteration that runs to its end: the values of the loop variables at the next head ---- *)
  Section Iter.
    Variables (e e' : env) (c c' : bool) (tr t : trace) (e1 am a2 : env).
    Let a1 := (cc0, b2z c) :: e.
    Let a1' := (cc, b2z c') :: e'.
    Hypothesis Hinv : agree w T e e'.
    Hypothesis Hrun : exec_block Wrap w fuel rest a1 tr = RNext e1 t.
    Hypothesis Hrun1 : exec_block Wrap w fuel stmts a1 tr = RNext am t.
    Hypothesis Hrun2 : exec_block Wrap w fuel stmts a1' tr = RNext a2 t.
    Hypothesis Hdce : agree_on live (defs_l rest ++ S0) e1 am.
    Hypothesis Hag : agree w (defs_l stmts ++ T) am a2.
    Let e1' := tail_env w o coll gcs ts a2.

    Lemma st_a1 x : In x (LN ++ S) -> lookup x a1 = lookup x e.
    Proof.
      intros Hx. unfold a1. apply lookup_cons_ne. apply in_app_iff in Hx. destruct Hx as [Hx|Hx].
      - now apply (LN_not_bound x Hx).
      - now apply (S_not_bound x Hx).
    Qed.
    Lemma st_e1 x : In x (LN ++ S) -> lookup x e1 = lookup x e.
    Proof.
      intros Hx. rewrite <- (st_a1 x Hx). pose proof (frame_block Wrap w fuel rest a1 tr) as Hf. rewrite Hrun in Hf. cbn in Hf.
      apply Hf. apply in_app_iff in Hx. destruct Hx as [Hx|Hx].
      - now apply (LN_not_bound x Hx).
      - now apply (S_not_bound x Hx).
    Qed.
    Lemma st_a2 x : In x T -> lookup x a2 = lookup x e'.
    Proof.
      intros Hx. destruct (T_not x Hx) as (H1 & H2 & H3).
      pose proof (frame_block Wrap w fuel stmts a1' tr) as Hf. rewrite Hrun2 in Hf. cbn in Hf.
      rewrite Hf by (intros Hc; apply H3; now apply stmts_binders). unfold a1'. now apply lookup_cons_ne.
    Qed.
    Lemma cross x : In x T -> eval w a1 (EVar x) = eval w a2 (EVar x).
    Proof.
      intros Hx. rewrite !eval_var, (st_a1 x (T_in x Hx)), (st_a2 x Hx), <- !(eval_var w). now apply Hinv.
    Qed.
    Lemma cross_pv p : (forall v, p = PVar v -> In v S) -> pv w a1 p = pv w a2 p.
    Proof.
      intros Hp. destruct p as [z|v]; [reflexivity|]. unfold pv. cbn [pli_expr]. apply cross. unfold T. apply in_or_app. right. now apply Hp.
    Qed.
    Lemma st_e1' x : In x (LN ++ S) -> lookup x e1' = lookup x a2.
    Proof.
      intros Hx. unfold e1'. apply tail_outside.
      - intros ->. apply in_app_iff in Hx. destruct (fresh_facts coll coll_fresh) as (F1 & F2 & _). destruct Hx; contradiction.
      - rewrite gcs_snd. intros Hc. apply in_app_iff in Hx. destruct (fresh_facts x (ns_fresh x Hc)) as (F1 & F2 & _). destruct Hx; contradiction.
      - intros Hc. apply in_app_iff in Hx. destruct (fresh_facts x (ts_fresh x Hc)) as (F1 & F2 & _). destruct Hx; contradiction.
      - intros Hc. apply DN_in in Hc. apply in_app_iff in Hx. destruct Hx as [Hx|Hx].
        + now apply (LN_not_bound x Hx).
        + now apply (S_not_bound x Hx).
    Qed.

    (* the collector of a basic induction variable, in the original body *)
    Lemma orig_collector b : In b all_basic ->
      lookup (gc_coll b) e1 = wrap32 (eval w a1 (EVar (gc_name b)) + pv w a1 (gc_inc b)).
    Proof.
      intros Hb. destruct (basic_facts b Hb) as (Hl & e2 & Hst & Hgi).
      pose proof (toplevel_value Wrap w fuel rest a1 tr e1 t (gc_coll b) PLUS (EVar (gc_name b)) e2 rest_nodup Hst) as Hv.
      rewrite <- (get_inv_eval a1 e2 _ Hgi).
      assert (H1 : forall v, EVar (gc_name b) = EVar v -> ~ In v (binders_l rest)).
      { intros v [= <-]. apply (LN_not_bound _ (basic_in_LN b Hb)). }
      assert (H2 : forall v, e2 = EVar v -> ~ In v (binders_l rest)).
      { intros v ->. destruct (Hops _ _ _ _ Hst) as [_ Hs]. apply (Hs v eq_refl). eapply get_inv_var; eauto. }
      specialize (Hv H1 H2 Hrun). cbn in Hv. now injection Hv as <-.
    Qed.

    Lemma inc_in_S b v : In b all_basic -> gc_inc b = PVar v -> In v S.
    Proof. intros Hb E. apply HinvS. right. left. exists b. auto. Qed.

    (* a loop value that is a plain name: the same on both sides *)
    Lemma other_value k y : In k others -> In (t_name k) (useful_of o) -> t_e2 k = EVar y ->
      eval w e1 (EVar y) = eval w e1' (EVar y).
    Proof.
      intros Hk Hu Hy.
      destruct (loop_value_scope k y (others_in k Hk) Hy) as [Hscp Hne].
      destruct (in_dec N.eq_dec y (map dn_name (o_derived o))) as [Hd|Hndn].
      - (* a derived induction variable: recomputed by the tail *)
        apply in_map_iff in Hd. destruct Hd as (d & <- & Hd).
        assert (Hb : forall b, In b all_basic -> ~ In (gc_name b) (binders_l rest)).
        { intros b Hb. apply (LN_not_bound _ (basic_in_LN b Hb)). }
        destruct (derived_sound Wrap w fuel ninv all_basic rest a1 tr e1 t rest_nodup Hb Hops Hrun d Hd) as [_ Hv1].
        pose proof (tail_derived w o coll gcs ts a2 Hlen_ts tl_nd2 tl_fresh tl_dn d Hd) as Hv2. fold e1' in Hv2.
        rewrite !eval_var. apply eq32_wrap_eq. rewrite Hv1, Hv2.
        assert (Hbase' : In (dn_base d) T).
        { unfold T. apply in_or_app. left. rewrite KN_eq. apply in_or_app. right. now apply Hbase. }
        assert (Eb : eq32 (lookup (dn_base d) a1) (lookup (dn_base d) a2)).
        { apply eq32_intro. rewrite <- !(eval_var w). now apply cross. }
        rewrite Eb, (cross_pv (dn_mult d)), (cross_pv (dn_imm d)); [reflexivity| |];
          intros v E; apply HinvS; right; right; exists d; auto.
      - (* any other name: kept alive by the dead code elimination, computed by the same statements *)
        assert (Hlive : In y live) by (apply live_spec; exists k; auto).
        assert (Hscope : In y (defs_l rest ++ S0)).
        { unfold S0. rewrite in_app_iff. cbn. rewrite in_app_iff. tauto. }
        rewrite eval_var, (Hdce y Hlive Hscope), <- (eval_var w).
        assert (HyT : In y (defs_l stmts ++ T)).
        { destruct Hscp as [H|[H|H]].
          - destruct dce_wf_all as [_ HW]. destruct sc_parts as (_ & _ & _ & _ & Hrest & _).
            destruct (HW rest S0 S0 live Hrest pre_rest (fun x _ H0 => H0)) as (_ & H2 & _).
            rewrite <- o_stmts_eq in H2. specialize (H2 y Hlive Hscope). rewrite in_app_iff in *.
            destruct H2 as [H2|H2]; auto. right. unfold S0 in H2. cbn in H2. rewrite in_app_iff in H2.
            destruct H2 as [H2|[H2|H2]]; [congruence| |].
            + exfalso. apply (LN_not_bound y H2). now apply defs_l_in_binders.
            + unfold T. apply in_or_app. now right.
          - apply in_or_app. right. unfold T. apply in_or_app. left. apply useful_LN_in_KN; auto.
            apply useful_spec. right. left. exists k. auto.
          - apply in_or_app. right. unfold T. apply in_or_app. now right. }
        rewrite (Hag y HyT), !eval_var. f_equal. symmetry. unfold e1'. apply tail_outside.
        + intros ->. destruct (fresh_facts coll coll_fresh) as (F1 & F2 & F3 & F4). destruct Hscp as [H|[H|H]]; auto.
          apply F4. now apply defs_l_in_binders.
        + rewrite gcs_snd. intros Hc. destruct (fresh_facts y (ns_fresh y Hc)) as (F1 & F2 & F3 & F4). destruct Hscp as [H|[H|H]]; auto.
          apply F4. now apply defs_l_in_binders.
        + intros Hc. destruct (fresh_facts y (ts_fresh y Hc)) as (F1 & F2 & F3 & F4). destruct Hscp as [H|[H|H]]; auto.
          apply F4. now apply defs_l_in_binders.
        + exact Hndn.
    Qed.

    Lemma XL_cases t' : In t' XL ->
      (In t' others /\ In (t_name t') (useful_of o)) \/
      t' = (i, gc_init gb, EVar coll) \/
      exists b n, In b all_basic /\ gc_name b <> i /\ In (mkgiv (gc_name b) (gc_init b) (gc_inc b), n) gcs /\
                  t' = (gc_name b, gc_init b, EVar n).
    Proof.
      unfold XL, xlvs. rewrite !in_app_iff. intros [H|[H|H]].
      - left. apply (in_filter_useful o t' H).
      - right. left. destruct H as [<-|[]]. rewrite o_name. reflexivity.
      - right. right. apply in_map_iff in H. destruct H as ((v, n) & <- & Hvn). cbn [fst snd].
        assert (Hv : In v (kept_generals o)) by (rewrite <- gcs_fst; apply in_map_iff; exists (v, n); auto).
        destruct (kept_general_inv v Hv) as (b & Hb & -> & Hne & _). exists b, n. cbn. auto.
    Qed.

    Lemma next_agree : agree w T (bind_e2 w lvs e1) (bind_e2 w XL e1').
    Proof.
      intros x Hx. unfold T in Hx. apply in_app_iff in Hx. destruct Hx as [Hx|Hx].
      - (* a loop variable of the expanded loop *)
        unfold KN in Hx. apply in_map_iff in Hx. destruct Hx as (t' & <- & Ht').
        rewrite !eval_var. rewrite (bind_e2_in w XL e1' t' KN_nodup Ht').
        destruct (XL_cases t' Ht') as [[Hk Hu]|[->|(b & n & Hb & Hne & Hvn & ->)]].
        + rewrite (bind_e2_in w lvs e1 t' LN_nodup (others_in t' Hk)).
          destruct (t_e2 t') as [z|z|s0|y] eqn:Ey; try reflexivity.
          f_equal. exact (other_value t' y Hk Hu Ey).
        + pose proof (basic_facts gb gb_in) as (Hl & _). rewrite gb_name in Hl.
          change (t_name (i, gc_init gb, EVar coll)) with (t_name (i, gc_init gb, EVar (gc_coll gb))).
          rewrite (bind_e2_in w lvs e1 _ LN_nodup Hl). cbn [t_e2 snd]. rewrite !eval_var. do 2 f_equal.
          rewrite (orig_collector gb gb_in), gb_name.
          pose proof (tail_coll w o coll gcs ts a2 tl_nd1 tl_fresh tl_collts) as Hc. fold e1' in Hc. rewrite Hc, o_name.
          change (bg_inc (o_basic o)) with (gc_inc gb).
          rewrite (cross i (or_introl_T i i_in_KN)), (cross_pv (gc_inc gb)); [reflexivity|].
          intros v E. now apply (inc_in_S gb v gb_in).
        + pose proof (basic_facts b Hb) as (Hl & _).
          change (t_name (gc_name b, gc_init b, EVar n)) with (t_name (gc_name b, gc_init b, EVar (gc_coll b))).
          rewrite (bind_e2_in w lvs e1 _ LN_nodup Hl). cbn [t_e2 snd]. rewrite !eval_var. do 2 f_equal.
          rewrite (orig_collector b Hb).
          pose proof (tail_gcoll w o coll gcs ts a2 tl_nd1 tl_fresh tl_collts _ n Hvn) as Hc. fold e1' in Hc. rewrite Hc. cbn [gi_name gi_inc].
          assert (HbT : In (gc_name b) T).
          { unfold T. apply in_or_app. left. rewrite KN_eq. apply in_or_app. right. right.
            rewrite <- gcs_names. apply in_map_iff. exists (mkgiv (gc_name b) (gc_init b) (gc_inc b), n). auto. }
          rewrite (cross _ HbT), (cross_pv (gc_inc b)); [reflexivity|].
          intros v E. now apply (inc_in_S b v Hb).
      - (* a name of the scope in front of the loop *)
        assert (HxL : In x (LN ++ S)) by (apply in_or_app; now right).
        destruct (S_not_bound x Hx) as (HnL & _).
        rewrite !eval_var. unfold bind_e2. rewrite !lookup_bind_notin; [|intros Hc; apply HnL; now apply KN_in_LN | exact HnL].
        rewrite (st_e1 x HxL), (st_e1' x HxL), (st_a2 x (or_intror_T x Hx)), <- !(eval_var w).
        apply Hinv. unfold T. apply in_or_app. now right.
    Qed.
  End Iter.

  (* ---- one iteration ---- *)
  Lemma o_bc_eq : bc_of o = bc /\ (bc <> None -> bv_of o = e0).
  Proof.
    unfold bc_of, bv_of. cbn [o o_bc owl_of]. rewrite Hbc. destruct bc; split; auto; congruence.
  Qed.


  (* ---- bridge: the analysis result is internally consistent and reads what is in scope (used by the composition
     of the stage theorems; none of these depends on the temporaries) ---- *)
  Let KA := i :: map t_name (filter (fun v => memb (t_name v) (useful_of o)) others) ++ map gi_name (kept_generals o).
  Lemma useful_LN_in_KA x : In x LN -> In x (useful_of o) -> In x KA.
  Proof.
    intros Hx Hu. unfold KA.
    apply (Permutation_in _ names_perm) in Hx. apply in_app_iff in Hx. destruct Hx as [Hx|Hx].
    - apply in_map_iff in Hx. destruct Hx as (b & <- & Hb).
      destruct (N.eq_dec (gc_name b) i) as [E|Ne]; [now left|]. right. apply in_or_app. right.
      apply in_map_iff. exists (mkgiv (gc_name b) (gc_init b) (gc_inc b)). split; [reflexivity|].
      unfold kept_generals. apply filter_In. split.
      + cbn [o o_general owl_of]. apply (in_map (fun it => mkgiv (gc_name it) (gc_init it) (gc_inc it))).
        apply filter_In. split; auto. apply negb_true_iff. now apply N.eqb_neq.
      + cbn. now apply memb_In.
    - right. apply in_or_app. left. apply in_map_iff in Hx. destruct Hx as (t & <- & Ht). apply in_map. apply filter_In. split; auto. now apply memb_In.
  Qed.
  Lemma S0_useful_KA x : In x S0 -> x <> cc0 -> In x (useful_of o) -> In x (KA ++ S).
  Proof.
    intros Hs Hne Hu. unfold S0 in Hs. cbn in Hs. rewrite in_app_iff in Hs. apply in_or_app.
    destruct Hs as [E|[H|H]]; [congruence | left; now apply useful_LN_in_KA | now right].
  Qed.
  Lemma general_names : map gi_name (o_general o) = map gc_name (filter (fun it => negb (N.eqb (gc_name it) i)) all_basic).
  Proof. cbn [o o_general owl_of]. apply map_gi_name_mk. Qed.

  Lemma bridge_names :
    NoDup (i :: map gi_name (o_general o) ++ map t_name others) /\
    (forall x, In x (i :: map gi_name (o_general o) ++ map t_name others) -> In x LN) /\
    NoDup (map dn_name (o_derived o)) /\
    (forall x, In x (map dn_name (o_derived o) ++ binders_l stmts) -> In x (binders_l rest)) /\
    NoDup (binders_l stmts) /\
    (forall d, In d (o_derived o) -> In (dn_base d) (i :: map gi_name (o_general o))).
  Proof.
    pose proof names_nodup as Hn.
    split; [|split; [|split; [exact DN_nodup|split; [|split]]]].
    - rewrite general_names. constructor.
      + rewrite in_app_iff. intros [H|H].
        * apply in_map_iff in H. destruct H as (b & E & Hb). apply filter_In in Hb. destruct Hb as [_ Hb].
          apply negb_true_iff in Hb. apply N.eqb_neq in Hb. contradiction.
        * apply (nd_app_disj _ _ i Hn); auto. rewrite <- gb_name. apply in_map, gb_in.
      + apply nd_app_intro; [apply NoDup_map_filter, basic_names_nodup | eapply nd_app_r; eauto |].
        intros x H1 H2. apply (nd_app_disj _ _ x Hn); auto. apply in_map_iff in H1. destruct H1 as (b & <- & Hb).
        apply filter_In in Hb. apply in_map. tauto.
    - rewrite general_names. intros x [<-|H]; [rewrite <- gb_name; apply basic_in_LN, gb_in|].
      apply in_app_iff in H. destruct H as [H|H].
      + apply in_map_iff in H. destruct H as (b & <- & Hb). apply filter_In in Hb. apply basic_in_LN. tauto.
      + apply in_map_iff in H. destruct H as (t & <- & Ht). now apply other_in_LN.
    - intros x Hx. apply in_app_iff in Hx. destruct Hx as [Hx|Hx]; [now apply DN_in | now apply stmts_binders].
    - destruct dce_wf_all as [_ HW]. destruct (HW rest S0 S0 live (proj1 (proj2 (proj2 (proj2 (proj2 sc_parts))))) pre_rest (fun x _ H => H)) as (_ & _ & A3).
      exact A3.
    - intros d Hd. destruct (derived_in_rest d Hd) as [_ Hb]. rewrite general_names.
      apply in_map_iff in Hb. destruct Hb as (b & E & Hb). destruct (N.eq_dec (gc_name b) i) as [Ei|Ne]; [left; congruence|].
      right. rewrite <- E. apply in_map. apply filter_In. split; auto. apply negb_true_iff. now apply N.eqb_neq.
  Qed.

  Lemma bridge_reads :
    scoped_l (KA ++ S) stmts = true /\
    (forall k y, In k others -> t_e2 k = EVar y -> In y (defs_l stmts ++ map dn_name (o_derived o) ++ KA ++ S)) /\
    in_scope (KA ++ S) (bv_of o) = true /\
    (forall x, (bg_init (o_basic o) = EVar x \/ (exists v, In v (o_general o) /\ gi_init v = EVar x) \/
                (exists k, In k others /\ t_e1 k = EVar x)) -> In x S).
  Proof.
    destruct sc_parts as (Hl1 & _ & _ & He0 & Hrest & _).
    destruct dce_wf_all as [_ HW]. destruct (HW rest S0 S0 live Hrest pre_rest (fun x _ H => H)) as (A1 & A2 & _).
    change (fst (dce_stmts rest live)) with stmts in A1, A2.
    destruct cc0_unused as (Hc0 & _ & Hc2).
    split; [|split; [|split]].
    - apply (scoped_l_restrict stmts S0 (KA ++ S) A1). intros x Hs Hu.
      apply S0_useful_KA; auto.
      + intros ->. apply Hc0. rewrite o_stmts_eq in Hu. now apply dce_uses_sub in Hu.
      + apply useful_spec. now left.
    - intros k y Hk Hy. destruct (loop_value_scope k y (others_in k Hk) Hy) as [Hscy Hne].
      assert (Hu : In y (useful_of o)) by (apply useful_spec; right; left; exists k; auto).
      destruct (in_dec N.eq_dec y (map dn_name (o_derived o))) as [Hd|Hndd]; [rewrite !in_app_iff; tauto|].
      assert (Hlive : In y live) by (apply live_spec; eauto).
      assert (Hin : In y (defs_l rest ++ S0)).
      { unfold S0. rewrite in_app_iff. cbn. rewrite in_app_iff. tauto. }
      specialize (A2 y Hlive Hin). apply in_app_iff in A2. destruct A2 as [A2|A2]; [rewrite !in_app_iff; tauto|].
      pose proof (S0_useful_KA y A2 Hne Hu) as H. rewrite !in_app_iff in *. tauto.
    - unfold bv_of. cbn [o o_bc owl_of]. rewrite Hbc. destruct bc as [b|]; [|reflexivity].
      destruct (as_var e0) as [y|] eqn:Ey; [|destruct e0; try reflexivity; discriminate].
      apply as_var_some in Ey. subst e0. apply in_scope_var. apply in_scope_var in He0.
      apply S0_useful_KA; auto.
      + intros ->. apply Hc2; [discriminate | reflexivity].
      + apply useful_spec. right. right. left. unfold bv_of. cbn [o o_bc owl_of]. now rewrite Hbc.
    - rewrite forallb_forall in Hl1. intros x [H|[(v & Hv & H)|(k & Hk & H)]].
      + cbn [o o_basic owl_of bg_init] in H. destruct (basic_facts gb gb_in) as [Hi _]. specialize (Hl1 _ Hi).
        cbn [t_e1 fst snd] in Hl1. rewrite H in Hl1. now apply in_scope_var in Hl1.
      + cbn [o o_general owl_of] in Hv. apply in_map_iff in Hv. destruct Hv as (b & <- & Hb). apply filter_In in Hb.
        destruct (basic_facts b (proj1 Hb)) as [Hi _]. specialize (Hl1 _ Hi). cbn [t_e1 fst snd gi_init] in *.
        rewrite H in Hl1. now apply in_scope_var in Hl1.
      + specialize (Hl1 _ (others_in k Hk)). rewrite H in Hl1. now apply in_scope_var in Hl1.
  Qed.

  (* a statement of the body that binds a derived induction variable is its (top-level, binary) defining statement *)
  Lemma bridge_defs d st : In d (o_derived o) -> In st stmts -> In (dn_name d) (binders st) ->
    exists op1 a b, st = SBin (dn_name d) op1 a b.
  Proof.
    intros Hd Hst Hb. cbn [o o_derived owl_of] in Hd. unfold extract_derived in Hd.
    destruct (collect_derived_toplevel _ _ _ _ Hd) as (op1 & a & b & Hi).
    rewrite o_stmts_eq in Hst. destruct (dce_stmts_in _ _ _ Hst) as (st0 & s1 & Hi0 & Ek).
    assert (Hb0 : In (dn_name d) (binders st0)).
    { pose proof (proj1 dce_sets_both st0 s1) as (_ & _ & H3). apply H3. rewrite Ek. exact Hb. }
    assert (E : st0 = SBin (dn_name d) op1 a b).
    { apply (nodup_binder_unique rest st0 _ (dn_name d) rest_nodup Hi0 Hi Hb0). cbn. now left. }
    subst st0. apply dce_stmt_keeps_SBin in Ek. eauto.
  Qed.

  Definition Kbrk (v v' : Z) (e1 e1' : env) : Prop := (bc <> None -> v = v') /\ agree w S e1 e1'.

  Lemma step e e' tr : agree w T e e' ->
    match exec_block Wrap w fuel ss e tr with
    | RNext e1 t => exists e1', exec_block Wrap w fuel (xbody o coll cc gcs ts) e' tr = RNext e1' t /\
                                agree w T (bind_e2 w lvs e1) (bind_e2 w XL e1')
    | RBreak v e1 t => exists v' e1', exec_block Wrap w fuel (xbody o coll cc gcs ts) e' tr = RBreak v' e1' t /\ Kbrk v v' e1 e1'
    | RStuck | ROvf => True
    | r => exec_block Wrap w fuel (xbody o coll cc gcs ts) e' tr = r
    end.
  Proof.
    intros Ha. destruct (orig_head e tr) as (c & Ho). destruct (xloop_head e' tr) as (c' & Hx). cbn zeta in *.
    rewrite Ho, Hx, <- (G_agree e e' Ha).
    pose proof (agree_heads e e' (b2z c) (b2z c') Ha) as Ha1.
    destruct (G e).
    - pose proof (body_mid _ _ tr Ha1) as Hm.
      destruct (exec_block Wrap w fuel rest ((cc0, b2z c) :: e) tr) as [e1 t|v e1 t|t|t| | |] eqn:Er; auto.
      + destruct Hm as (am & a2 & E1 & E2 & Hd & Hg). rewrite E2. eexists. split; [reflexivity|].
        exact (next_agree e e' c c' tr t e1 am a2 Ha Er E2 Hd Hg).
      + contradiction.
      + now rewrite Hm.
      + now rewrite Hm.
      + now rewrite Hm.
    - eexists. eexists. split; [reflexivity|]. split.
      + intros Hb. destruct o_bc_eq as [_ Hbv]. rewrite (Hbv Hb).
        destruct sc_parts as (_ & _ & _ & He0 & _).
        destruct (as_var e0) as [y|] eqn:Ee; [|now apply eval_nonvar].
        pose proof (as_var_some _ _ Ee) as Ey. rewrite Ey in He0 |- *.
        apply Ha1. apply in_scope_var in He0. unfold S0 in He0. cbn in He0. rewrite in_app_iff in He0.
        destruct cc0_unused as (_ & _ & Hc). destruct He0 as [<-|[H|H]].
        * exfalso. now apply (Hc Hb).
        * apply or_introl_T. apply useful_LN_in_KN; auto. apply useful_spec. right. right. left. now rewrite (Hbv Hb).
        * now apply or_intror_T.
      + intros x Hx0. apply Ha1. now apply or_intror_T.
  Qed.

  (* ---- the loops ---- *)
  Theorem extract_expand_core en tr :
    match exec Wrap w fuel (SWhile lvs ss bc) en tr with
    | RNext e1 t => exists e1', exec Wrap w fuel (xloop o coll cc gcs ts) en tr = RNext e1' t /\
                                agree w (opt_names bc ++ S) e1 e1'
    | RBreak _ _ _ | RStuck | ROvf => True
    | r => exec Wrap w fuel (xloop o coll cc gcs ts) en tr = r
    end.
  Proof.
    unfold xloop. rewrite !exec_SWhile. fold XL. destruct o_bc_eq as [-> _].
    assert (Hinit : agree w T (bind_e1 w lvs en) (bind_e1 w XL en)).
    { intros x Hx. unfold T in Hx. apply in_app_iff in Hx. rewrite !eval_var. f_equal. unfold bind_e1. destruct Hx as [Hx|Hx].
      - unfold KN in Hx. apply in_map_iff in Hx. destruct Hx as (t' & <- & Ht').
        rewrite (bind_e1_in w XL en en t' KN_nodup Ht').
        destruct (XL_cases t' Ht') as [[Hk Hu]|[->|(b & n & Hb & Hne & Hvn & ->)]].
        + now rewrite (bind_e1_in w lvs en en t' LN_nodup (others_in t' Hk)).
        + pose proof (basic_facts gb gb_in) as (Hl & _). rewrite gb_name in Hl.
          change (t_name (i, gc_init gb, EVar coll)) with (t_name (i, gc_init gb, EVar (gc_coll gb))).
          now rewrite (bind_e1_in w lvs en en _ LN_nodup Hl).
        + pose proof (basic_facts b Hb) as (Hl & _).
          change (t_name (gc_name b, gc_init b, EVar n)) with (t_name (gc_name b, gc_init b, EVar (gc_coll b))).
          now rewrite (bind_e1_in w lvs en en _ LN_nodup Hl).
      - destruct (S_not_bound x Hx) as (HnL & _).
        rewrite !lookup_bind_notin; [reflexivity| |exact HnL]. intros Hc. apply HnL. now apply KN_in_LN. }
    pose proof (loop_sim3 (agree w T) Kbrk (exec_block Wrap w fuel ss) (exec_block Wrap w fuel (xbody o coll cc gcs ts))
                  (bind_e2 w lvs) (bind_e2 w XL) step fuel _ _ tr Hinit) as HL.
    destruct (loop (exec_block Wrap w fuel ss) (bind_e2 w lvs) fuel (bind_e1 w lvs en) tr) as [? ?|v e1 t|t|t| | |] eqn:EL; auto.
    - destruct HL as (v' & e1' & -> & Hv & Hs). eexists. split; [reflexivity|].
      destruct bc as [b|]; cbn [bind_opt opt_names app].
      + rewrite <- (Hv ltac:(discriminate)). now apply agree_cons.
      + exact Hs.
    - now rewrite HL.
    - now rewrite HL.
    - now rewrite HL.
  Qed.
End Extract.

(* outside K_nested_break: the statement under the guard's `if` is a Break *)
Definition plain_break (ss : list stmt) : Prop :=
  match ss with _ :: SSIf _ _ [SBreak _] :: _ => True | _ => False end.
(* outside K_base_dropped: a derived induction variable that stays derived is recomputed from an induction variable
   that the expanded loop keeps *)
Definition bases_kept (o : owl) : Prop :=
  forall d, In d (o_derived o) -> In (dn_base d) (bg_name (o_basic o) :: map gi_name (kept_generals o)).

Theorem extract_expand_sound w fuel S lvs ss bc ninv o coll cc ns ts en tr :
  extract lvs ss bc ninv = XOk o ->
  scoped S (SWhile lvs ss bc) = true ->
  NoDup (binders (SWhile lvs ss bc)) ->
  (forall x, In x (binders (SWhile lvs ss bc)) -> ~ In x S) ->
  (forall x, In x (map t_name lvs ++ defs_l ss) -> In x ninv) ->
  plain_break ss -> bases_kept o ->
  NoDup (coll :: cc :: ns ++ ts) ->
  (forall y, In y (coll :: cc :: ns ++ ts) -> ~ In y S /\ ~ In y (binders (SWhile lvs ss bc))) ->
  length ns = length (kept_generals o) -> length ts = length (o_derived o) ->
  match exec Wrap w fuel (SWhile lvs ss bc) en tr with
  | RNext e1 t => exists e1', exec Wrap w fuel (xloop o coll cc (combine (kept_generals o) ns) ts) en tr = RNext e1' t /\
                              agree w (opt_names bc ++ S) e1 e1'
  | RBreak _ _ _ | RStuck | ROvf => True
  | r => exec Wrap w fuel (xloop o coll cc (combine (kept_generals o) ns) ts) en tr = r
  end.
Proof.
  intros Hext Hsc Hnd Hfr Hcov Hpb Hbk Hfnd Hfout Hl1 Hl2.
  destruct (extract_inv _ _ _ _ _ Hext) as (g & others & all_basic & gb & Hg & Hused & Hbasic & Hfind & ->).
  destruct (extract_guard_shape _ _ _ _ Hg) as (cc0 & op & ge & inv & sis & rest & -> & Hgop & Hginv & Hlen & Hnb & Hbc).
  assert (Hsis : exists e0, sis = [SBreak e0]).
  { cbn in Hpb. destruct sis as [|[| | | | | |e0| | | |] [|]]; try contradiction. eauto. }
  destruct Hsis as [e0 ->]. cbn [skipn] in *.
  assert (Hbc' : lg_bc g = match bc with Some b => Some (b, e0) | None => None end).
  { destruct bc as [b|]; [|exact Hbc]. destruct Hbc as (e & [= <-] & E). exact E. }
  rewrite binders_SWhile in Hnd, Hfr, Hfout.
  change (binders_l (SBin cc0 op (EVar (lg_var g)) ge :: SSIf (EVar cc0) inv [SBreak e0] :: rest)) with (cc0 :: binders_l rest) in Hnd, Hfr, Hfout.
  (* scoping of the rest of the body *)
  assert (Hrest : scoped_l (cc0 :: map t_name lvs ++ S) rest = true /\ in_scope (map t_name lvs ++ S) ge = true).
  { rewrite scoped_SWhile in Hsc. apply andb_prop in Hsc. destruct Hsc as [Hsc _]. apply andb_prop in Hsc. destruct Hsc as [_ Hss].
    cbn [scoped_l scoped defs app] in Hss. apply andb_prop in Hss. destruct Hss as [Hc Hss]. apply andb_prop in Hc.
    destruct Hc as [_ Hcg]. apply andb_prop in Hss. destruct Hss as [_ Hr]. split; assumption. }
  destruct Hrest as [Hrest Hge].
  assert (Hcov' : forall x, In x (map t_name lvs) \/ x = cc0 \/ In x (defs_l rest) -> In x ninv).
  { intros x Hx. apply Hcov. rewrite in_app_iff. cbn [defs_l defs app]. rewrite !in_app_iff. cbn.
    destruct Hx as [H|[->|H]]; auto. }
  (* a name in scope inside the body that is outside the non-invariant set comes from S *)
  assert (HinS : forall v, In v (defs_l rest ++ cc0 :: map t_name lvs ++ S) -> ~ In v ninv -> In v S).
  { intros v Hv Hn. rewrite in_app_iff in Hv. cbn in Hv. rewrite in_app_iff in Hv.
    destruct Hv as [H|[H|[H|H]]]; auto; exfalso; apply Hn, Hcov'; auto. }
  assert (HSnb : forall v, In v S -> ~ In v (binders_l rest)).
  { intros v Hv Hb. apply (Hfr v); auto. apply in_or_app. right. apply in_or_app. left. now right. }
  assert (Hprov : forall v, prov ninv rest v -> In v S).
  { intros v (Hn & x & op0 & a & b & Hi & Hab). destruct (scoped_l_member rest _ _ _ _ _ Hrest Hi) as [Ha Hb].
    apply HinS; auto. destruct Hab as [->| ->]; now apply in_scope_var. }
  assert (Hops : ops_stable ninv (binders_l rest) rest).
  { intros x op0 a b Hi. split; intros v -> Hn; apply HSnb, Hprov; split; auto; exists x, op0; eauto 6. }
  eapply (extract_expand_core w fuel S lvs bc ninv cc0 op ge inv e0 rest g others all_basic gb coll cc ns ts); eauto.
  - (* the invariant operands come from S *)
    intros v [Hv|[(b & Hb & Hv)|(d & Hd & Hv)]].
    + destruct ge as [| | |x]; cbn in Hginv; try discriminate; [rewrite Hv in Hginv; discriminate|].
      destruct (memb x ninv) eqn:M; [discriminate|]. rewrite Hv in Hginv. injection Hginv as ->.
      apply memb_false in M. apply in_scope_var in Hge. apply in_app_iff in Hge. destruct Hge as [H|H]; auto.
      exfalso. apply M, Hcov'. auto.
    + destruct (extract_basic_loop_sound _ _ _ _ _ Hbasic) as (H1 & _). destruct (H1 b Hb) as (_ & e2 & Hi & Hgi).
      rewrite Hv in Hgi. destruct (get_inv_pvar _ _ _ Hgi) as [-> Hn]. apply Hprov. split; auto. eauto 8.
    + apply Hprov. exact (extract_derived_prov ninv rest all_basic d v Hd Hv).
  - intros d Hd. specialize (Hbk d Hd). cbn [owl_of o_basic bg_name] in Hbk.
    pose proof (find_some _ _ Hfind) as [_ E]. apply N.eqb_eq in E. now rewrite <- E.
Qed.
