(* C02loop — the invariant operands that the induction analysis records (increments, bound, multipliers, immediates)
   are operands of top-level binary statements of the body that lie outside the non-invariant set; with scoping
   they therefore come from the scope in front of the loop. *)
From Coq Require Import ZArith NArith List Bool Lia.
Import ListNotations.
From SV Require Import Common.Int32 C02.Kernels C02deep.Syntax C02deep.Sem C02deep.Passes C02deep.ProofsSem
  C02deep.ProofsScope C02deep.ProofsDceSets C02loop.Analysis C02loop.ProofsBase C02loop.ProofsAnalysis.
Open Scope Z_scope.

Lemma in_scope_weaken T T' e : in_scope T e = true -> (forall x, In x T -> In x T') -> in_scope T' e = true.
Proof. destruct e; try reflexivity. intros H Hi. apply in_scope_var. apply in_scope_var in H. auto. Qed.

(* the operands of a top-level binary statement are in scope at the end of the block *)
Lemma scoped_l_member ss : forall T x op a b,
  scoped_l T ss = true -> In (SBin x op a b) ss ->
  in_scope (defs_l ss ++ T) a = true /\ in_scope (defs_l ss ++ T) b = true.
Proof.
  induction ss as [|st r IH]; intros T x op a b Hsc Hi; [contradiction|].
  cbn [scoped_l] in Hsc. apply andb_prop in Hsc. destruct Hsc as [H1 H2]. cbn [defs_l].
  destruct Hi as [->|Hi].
  - cbn in H1. apply andb_prop in H1. destruct H1 as [Ha Hb].
    split; eapply in_scope_weaken; eauto; intros y Hy; rewrite !in_app_iff; auto.
  - destruct (IH _ _ _ _ _ H2 Hi) as [Ha Hb].
    split; eapply in_scope_weaken; eauto; intros y; rewrite !in_app_iff; tauto.
Qed.

(* where the variables of a merged constant come from *)
Lemma merge_add_pvar a b c v : merge_add a b = Some c -> c = PVar v -> a = PVar v \/ b = PVar v.
Proof.
  unfold merge_add. destruct a as [i1|x], b as [i2|y]; try discriminate.
  - intros [= <-]. discriminate.
  - destruct (i1 =? 0); [|discriminate]. intros [= <-]. auto.
  - destruct (i2 =? 0); [|discriminate]. intros [= <-]. auto.
Qed.
Definition div_pvar (d : div) (v : name) : Prop := d_mult d = PVar v \/ d_imm d = PVar v.
Lemma merge_const_op_pvar ex isp p d v :
  merge_const_op ex isp p = Some d -> div_pvar d v -> div_pvar ex v \/ p = PVar v.
Proof.
  unfold merge_const_op, div_pvar. destruct isp.
  - destruct (merge_add (d_imm ex) p) as [mi|] eqn:E; [|discriminate]. intros [= <-]. cbn. intros [H|H]; auto.
    destruct (merge_add_pvar _ _ _ _ E H); auto.
  - destruct p as [z|x].
    + destruct (z =? 1); [intros [= <-]; auto|].
      destruct (d_mult ex); [|discriminate]. destruct (d_imm ex); [|discriminate]. intros [= <-]. cbn. intros [H|H]; discriminate.
    + destruct (d_mult ex) as [m|]; [|discriminate]. destruct (d_imm ex) as [i|]; [|discriminate].
      destruct ((m =? 1) && (i =? 1)); [|discriminate]. intros [= <-]. cbn. intros [H|H]; auto.
Qed.
Lemma merge_var_add_pvar ex an d v :
  merge_var_add ex an = Some d -> div_pvar d v -> div_pvar ex v \/ div_pvar an v.
Proof.
  unfold merge_var_add, div_pvar. destruct (N.eqb _ _); [|discriminate].
  destruct (merge_add (d_mult ex) (d_mult an)) as [mm|] eqn:E1; [|discriminate].
  destruct (merge_add (d_imm ex) (d_imm an)) as [mi|] eqn:E2; [|discriminate]. intros [= <-]. cbn. intros [H|H].
  - destruct (merge_add_pvar _ _ _ _ E1 H); auto.
  - destruct (merge_add_pvar _ _ _ _ E2 H); auto.
Qed.

Section Prov.
  Variable ninv : set.
  Variable rest : list stmt.
  (* v is an operand of a top-level binary statement of the body and is outside the non-invariant set *)
  Definition prov (v : name) : Prop :=
    ~ In v ninv /\ exists x op a b, In (SBin x op a b) rest /\ (a = EVar v \/ b = EVar v).
  Definition dset_prov (s : dset) : Prop := forall y d v, assoc y s = Some d -> div_pvar d v -> prov v.

  Lemma get_inv_pvar e v : get_inv e ninv = Some (PVar v) -> e = EVar v /\ ~ In v ninv.
  Proof.
    destruct e as [| | |x]; cbn; try discriminate. destruct (memb x ninv) eqn:M; [discriminate|].
    intros [= ->]. split; auto. now apply memb_false.
  Qed.
  Lemma dget_assoc e s d : dget e s = Some d -> exists y, assoc y s = Some d.
  Proof. unfold dget. destruct (as_var e); [eauto | discriminate]. Qed.

  Lemma try_merge_noswap_prov s x op a b s' :
    dset_prov s -> In (SBin x op a b) rest \/ In (SBin x op b a) rest ->
    try_merge_noswap s ninv x op a b = Some s' -> dset_prov s'.
  Proof.
    intros Hs Hin. unfold try_merge_noswap. destruct (dget a s) as [ex|] eqn:Ea; [|discriminate].
    destruct (dget_assoc _ _ _ Ea) as [ya Hya].
    assert (Hadd : forall mg, (forall v, div_pvar mg v -> prov v) -> dset_prov ((x, mg) :: s)).
    { intros mg Hmg y d v Hy Hd. cbn in Hy. destruct (N.eqb y x); [injection Hy as <-; auto | eauto]. }
    destruct (match dget b s with Some an => if is_plus op then merge_var_add ex an else None | None => None end) as [mg|] eqn:Em.
    - intros [= <-]. apply Hadd. intros v Hv. destruct (dget b s) as [an|] eqn:Eb; [|discriminate].
      destruct (is_plus op); [|discriminate]. destruct (dget_assoc _ _ _ Eb) as [yb Hyb].
      destruct (merge_var_add_pvar _ _ _ _ Em Hv); eauto.
    - destruct (get_inv b ninv) as [p|] eqn:Eb; [|discriminate]. destruct (is_plus_or_mul op); [|discriminate].
      destruct (merge_const_op ex (is_plus op) p) as [mg|] eqn:Ec; [|discriminate]. intros [= <-]. apply Hadd. intros v Hv.
      destruct (merge_const_op_pvar _ _ _ _ _ Ec Hv) as [H | ->]; [eauto|].
      destruct (get_inv_pvar _ _ Eb) as [-> Hn]. split; [assumption|].
      destruct Hin as [Hin|Hin]; [exists x, op, a, (EVar v) | exists x, op, (EVar v), a]; auto.
  Qed.

  Lemma dset_run_prov rs : forall s, (forall st, In st rs -> In st rest) -> dset_prov s -> dset_prov (dset_run s rs ninv).
  Proof.
    induction rs as [|st r IH]; intros s Hsub Hs; [exact Hs|].
    unfold dset_run. cbn [fold_left].
    fold (dset_run (match st with SBin x op a b => try_merge s ninv x op a b | _ => s end) r ninv).
    apply IH; [intros st' H; apply Hsub; now right|].
    destruct st as [x op a b| | | | | | | | | |]; auto.
    assert (Hin : In (SBin x op a b) rest) by (apply Hsub; now left).
    unfold try_merge. destruct (try_merge_noswap s ninv x op a b) as [s1|] eqn:E1.
    - exact (try_merge_noswap_prov s x op a b s1 Hs (or_introl Hin) E1).
    - destruct (is_plus_or_mul op); auto. destruct (try_merge_noswap s ninv x op b a) as [s2|] eqn:E2; auto.
      exact (try_merge_noswap_prov s x op b a s2 Hs (or_intror Hin) E2).
  Qed.

  Lemma extract_derived_prov bs d v : In d (extract_derived bs rest ninv) ->
    dn_mult d = PVar v \/ dn_imm d = PVar v -> prov v.
  Proof.
    intros Hd Hv. unfold extract_derived in Hd. destruct (collect_derived_spec _ _ _ _ Hd) as (Ha & _).
    assert (H0 : dset_prov (dset_init bs)).
    { intros y dd v0 Hy Hdv. destruct (dset_init_spec _ _ _ Hy) as [-> _]. destruct Hdv as [H|H]; discriminate. }
    exact (dset_run_prov rest _ (fun st H => H) H0 _ _ v Ha Hv).
  Qed.
End Prov.
