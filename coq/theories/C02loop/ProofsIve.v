(* C02loop — induction-variable elimination outside the open class: the loop built from the rewritten analysis
   result, behind the prefix statements, behaves like the loop built from the original analysis result. *)
From Coq Require Import ZArith NArith List Bool Lia Morphisms Setoid.
Import ListNotations.
From SV Require Import Common.Int32 C02.Kernels C02.Proofs C02deep.Syntax C02deep.Sem C02deep.Passes C02deep.ProofsSem
  C02deep.ProofsScope C02deep.ProofsDceSets C02deep.ProofsDce
  C02loop.Analysis C02loop.Algebraic C02loop.StrengthIv C02loop.Driver
  C02loop.ProofsBase C02loop.ProofsAnalysis C02loop.ProofsExpand C02loop.ProofsAlgebraic C02loop.ProofsXloop
  C02loop.ProofsExtract C02loop.ProofsExtract2.
From SV Require Import C02loop.ProofsXstep.
Open Scope Z_scope.

Lemma merge_mul_pvar a b c v : merge_mul a b = Some c -> c = PVar v -> a = PVar v \/ b = PVar v.
Proof.
  unfold merge_mul. destruct a as [i1|x], b as [i2|y]; try discriminate.
  - intros [= <-]. discriminate.
  - destruct (i1 =? 1); [|discriminate]. intros [= <-]. auto.
  - destruct (i2 =? 1); [|discriminate]. intros [= <-]. auto.
Qed.

Lemma stmts_use_spec_both x :
  (forall st, stmt_uses x st = true <-> In x (uses st [])) /\
  (forall ss, stmts_use x ss = true <-> In x (uses_l ss [])).
Proof.
  assert (He : forall e s, expr_uses x e = true \/ In x s <-> In x (use_expr e s)).
  { intros e s. rewrite In_use_expr. destruct e as [| | |v]; cbn; try (split; [intros [H|H]; [discriminate | auto] | intros [H|H]; [discriminate | auto]]).
    rewrite N.eqb_eq. split; intros [H|H]; auto; [left; congruence | left; congruence]. }
  assert (He0 : forall e, expr_uses x e = true <-> In x (use_expr e [])).
  { intros e. rewrite <- He. cbn. tauto. }
  assert (Hes : forall es, existsb (expr_uses x) es = true <-> In x (use_exprs es [])).
  { intros es. rewrite In_use_exprs, existsb_exists. cbn. split.
    - intros (e & Hi & Hu). left. destruct e as [| | |v]; cbn in Hu; try discriminate. apply N.eqb_eq in Hu. now subst.
    - intros [Hi|[]]. exists (EVar x). split; auto. cbn. apply N.eqb_refl. }
  apply stmt_stmts_ind2.
  - intros y op e1 e2. cbn. rewrite orb_true_iff, <- !He. cbn. tauto.
  - intros y e. cbn. apply He0.
  - intros y p e. cbn. apply He0.
  - intros f args ret. cbn. apply Hes.
  - intros c s1 s2 fas H1 H2. rewrite uses_SIf, In_use_triples, (uses_l_spec s2), (uses_l_spec s1), <- He.
    change (stmt_uses x (SIf c s1 s2 fas)) with
      (expr_uses x c || stmts_use x s1 || stmts_use x s2 || existsb (fun fa => expr_uses x (t_e1 fa) || expr_uses x (t_e2 fa)) fas).
    rewrite !orb_true_iff, H1, H2, existsb_exists. unfold triple_uses. cbn. split.
    + intros [[[H|H]|H]|(t & Ht & Hu)]; auto. left. exists t. split; auto. apply orb_true_iff in Hu.
      destruct Hu as [Hu|Hu]; [left | right]; destruct (t_e1 t), (t_e2 t); cbn in Hu; try discriminate; apply N.eqb_eq in Hu; now subst.
    + intros [(t & Ht & Hu)|[H|[H|[H|[]]]]]; auto. right. exists t. split; auto. apply orb_true_iff.
      destruct Hu as [-> | ->]; cbn; rewrite N.eqb_refl; auto.
  - intros c inv ss H. rewrite uses_SSIf, (uses_l_spec ss), <- He.
    change (stmt_uses x (SSIf c inv ss)) with (expr_uses x c || stmts_use x ss). rewrite orb_true_iff, H. cbn. tauto.
  - intros e. cbn. apply He0.
  - intros lvs ss bc H. rewrite uses_SWhile, (uses_l_spec ss), In_use_triples.
    change (stmt_uses x (SWhile lvs ss bc)) with
      (existsb (fun lv => expr_uses x (t_e1 lv) || expr_uses x (t_e2 lv)) lvs || stmts_use x ss).
    rewrite orb_true_iff, H, existsb_exists. unfold triple_uses. cbn. split.
    + intros [(t & Ht & Hu)|Hs]; auto. right. left. exists t. split; auto. apply orb_true_iff in Hu.
      destruct Hu as [Hu|Hu]; [left | right]; destruct (t_e1 t), (t_e2 t); cbn in Hu; try discriminate; apply N.eqb_eq in Hu; now subst.
    + intros [Hs|[(t & Ht & Hu)|[]]]; auto. left. exists t. split; auto. apply orb_true_iff.
      destruct Hu as [-> | ->]; cbn; rewrite N.eqb_refl; auto.
  - intros y tn es. cbn. apply Hes.
  - intros y. cbn. split; [discriminate | contradiction].
  - intros y e. cbn. apply He0.
  - cbn. split; [discriminate | contradiction].
  - intros st r Hs Hr. cbn [stmts_use uses_l]. rewrite orb_true_iff, (uses_l_spec r), Hs, Hr. tauto.
Qed.

Lemma stmts_use_false x ss : stmts_use x ss = false -> ~ In x (uses_l ss []).
Proof. intros H Hc. apply (proj2 (stmts_use_spec_both x)) in Hc. congruence. Qed.

Lemma filter_ext_in' {A} (p q : A -> bool) l : (forall a, In a l -> p a = q a) -> filter p l = filter q l.
Proof.
  induction l as [|a r IH]; cbn; intros H; [reflexivity|]. rewrite (H a (or_introl eq_refl)), IH; auto.
Qed.

Section Ive.
  Variables (w : world) (fuel : nat) (T0 : list name) (o : owl) (only : divn) (added : pli).
  Variables (t1 t2 t3 t4 : name).
  Variables (collA ccA : name) (nsA tsA : list name) (collB ccB : name) (nsB tsB : list name).
  Variable en : env.

  Let b := o_basic o.
  Let i := o_i o.
  Let ds := dn_name only.
  Let stmts := o_stmts o.
  Let oB := mkowl (mkbivg ds (EVar t2) added GLT (PVar t4)) (o_general o) (o_others o)
                  (filter (fun v => negb (N.eqb (dn_name v) ds)) (o_derived o)) (o_stmts o) (o_bc o).
  Let pre := [bin_flex t1 MUL (pli_expr (dn_mult only)) (bg_init b);
              bin_flex t2 PLUS (pli_expr (dn_imm only)) (EVar t1);
              bin_flex t3 MUL (pli_expr (dn_mult only)) (pli_expr (bg_guard b));
              bin_flex t4 PLUS (pli_expr (dn_imm only)) (EVar t3)].
  Let TB := t4 :: t2 :: T0.
  Let FA := collA :: ccA :: nsA ++ tsA.
  Let FB := collB :: ccB :: nsB ++ tsB.
  Let PT := [t1; t2; t3; t4].

  Hypothesis HwfA : owl_wf T0 o.
  Hypothesis Honly : In only (o_derived o).
  Hypothesis Hbo : dn_base only = i.
  Hypothesis Hrel : forall d, In d (o_derived o) -> dn_base d = i -> d = only.
  Hypothesis Hmm : merge_mul (bg_inc b) (dn_mult only) = Some added.
  Hypothesis Huse : owl_uses_iv o = false.
  Hypothesis Hds : ~ In ds (binders_l stmts) /\ ~ In ds (uses_l stmts []).
  (* names *)
  Hypothesis HfA : NoDup FA /\ forall y, In y FA -> ~ In y T0 /\ ~ In y (o_LN o ++ o_DN o ++ binders_l stmts).
  Hypothesis HfB : NoDup FB /\ forall y, In y FB -> ~ In y (PT ++ T0) /\ ~ In y (o_LN o ++ o_DN o ++ binders_l stmts).
  Hypothesis HfP : NoDup PT /\ forall y, In y PT -> ~ In y T0 /\ ~ In y (o_LN o ++ o_DN o ++ binders_l stmts).
  Hypothesis HlenA : length nsA = length (kept_generals o) /\ length tsA = length (o_derived o).
  Hypothesis HlenB : length nsB = length (kept_generals oB) /\ length tsB = length (o_derived oB).
  (* the initial values read names of the scope in front of the loop only *)
  Hypothesis Hinit : forall x, (bg_init b = EVar x \/ (exists g, In g (o_general o) /\ gi_init g = EVar x) \/
                                (exists k, In k (o_others o) /\ t_e1 k = EVar x)) -> In x T0.

  (* ---- the rewritten analysis result is well formed ---- *)
  Lemma ds_in_DN : In ds (o_DN o).
  Proof. unfold o_DN, ds. now apply in_map. Qed.
  Lemma ds_not_LN : ~ In ds (o_LN o).
  Proof. destruct HwfA as (_ & _ & _ & H & _). apply H. apply in_or_app. left. apply ds_in_DN. Qed.

  Lemma oB_names : o_i oB = ds /\ o_GN oB = o_GN o /\ o_ON oB = o_ON o.
  Proof. repeat split. Qed.
  Lemma oB_DN x : In x (o_DN oB) -> In x (o_DN o) /\ x <> ds.
  Proof.
    unfold o_DN. cbn [oB o_derived]. intros H. apply in_map_iff in H. destruct H as (d & <- & Hd). apply filter_In in Hd.
    destruct Hd as [Hd Hn]. split; [now apply in_map|]. apply negb_true_iff in Hn. now apply N.eqb_neq in Hn.
  Qed.

  Lemma wfB : owl_wf TB oB.
  Proof.
    destruct HwfA as (Hnd & Hdn & Hout & Hdl & Hinv & Hbase). destruct HfP as [HndP HoutP].
    assert (Ht : forall y, In y [t4; t2] -> ~ In y (o_LN o ++ o_DN o ++ binders_l stmts)).
    { intros y Hy. apply HoutP. cbn in *. tauto. }
    unfold owl_wf. unfold o_LN. destruct oB_names as (-> & -> & ->). repeat split.
    - constructor; [|unfold o_LN in Hnd; now inversion Hnd]. intros Hc. apply ds_not_LN. unfold o_LN. now right.
    - unfold o_DN. cbn [oB o_derived]. now apply NoDup_map_filter.
    - intros x Hx Hc. unfold TB in Hc. cbn in Hc.
      assert (Hx' : In x (o_LN o ++ o_DN o ++ binders_l stmts)).
      { rewrite !in_app_iff in *. cbn in Hx. destruct Hx as [[<-|Hx]|[Hx|Hx]].
        - right. left. apply ds_in_DN.
        - left. unfold o_LN. now right.
        - right. left. now apply oB_DN.
        - right. right. exact Hx. }
      destruct Hc as [<-|[<-|Hc]].
      + apply (Ht t4); cbn; auto.
      + apply (Ht t2); cbn; auto.
      + now apply (Hout x).
    - intros x Hx [<-|Hc].
      + apply in_app_iff in Hx. destruct Hx as [Hx|Hx]; [now apply oB_DN in Hx | now apply (proj1 Hds)].
      + apply (Hdl x); [|unfold o_LN; now right]. apply in_app_iff in Hx. apply in_or_app. destruct Hx as [Hx|Hx]; [left; now apply oB_DN | now right].
    - intros v Hv. unfold o_invvar in Hv. cbn [oB o_basic bg_inc bg_guard o_general o_derived] in Hv. unfold TB.
      destruct Hv as [Hv|[Hv|[(g & Hg & Hv)|(d & Hd & Hv)]]].
      + right. right. apply Hinv. destruct (merge_mul_pvar _ _ _ _ Hmm Hv) as [H|H]; [now left|].
        right. right. right. exists only. auto.
      + injection Hv as <-. now left.
      + right. right. apply Hinv. right. right. left. eauto.
      + right. right. apply Hinv. right. right. right. exists d. apply filter_In in Hd. tauto.
    - intros d Hd. cbn [oB o_derived] in Hd. apply filter_In in Hd. destruct Hd as [Hd Hn].
      specialize (Hbase d Hd). destruct Hbase as [E|Hb]; [|now right].
      exfalso. apply negb_true_iff in Hn. apply N.eqb_neq in Hn. apply Hn. symmetry in E. now rewrite (Hrel d Hd E).
  Qed.

  (* ---- the side conditions (the complement of the open class) ---- *)
  Let mv := pv w en (dn_mult only).
  Let cv := pv w en (dn_imm only).
  Let gv := pv w en (bg_guard b).
  Let incv := pv w en (bg_inc b).
  Let i0v := eval w en (bg_init b).
  Variable Vis : Z -> Prop.          (* the values the induction variable takes at the heads of the iterations *)
  Hypothesis Hop : bg_op b = GLT.
  Hypothesis Hmv : mv > 0.
  Hypothesis HG : in32 (mv * gv + cv).
  Hypothesis HV0 : Vis i0v.
  Hypothesis HVstep : forall z, Vis z -> z < gv -> Vis (wrap32 (z + incv)).
  Hypothesis HVin : forall z, Vis z -> in32 (mv * z + cv).

  (* ---- what the body reads ---- *)
  Let C := map t_name (filter (fun v => memb (t_name v) (useful_of o)) (o_others o)) ++ map gi_name (kept_generals o).
  Hypothesis Hsc : scopedc_l (C ++ T0) stmts = true.
  Hypothesis Hlv : forall k y, In k (o_others o) -> t_e2 k = EVar y -> In y (defs_l stmts ++ o_DN o ++ C ++ T0).
  Hypothesis Hbv : in_scope (C ++ T0) (bv_of o) = true.
  Hypothesis HbaseK : forall d, In d (o_derived o) -> In (dn_base d) (i :: map gi_name (kept_generals o)).

  (* ---- the two loops keep the same loop variables, apart from i / ds ---- *)
  Lemma useful_same x : x <> i -> x <> ds -> (In x (useful_of o) <-> In x (useful_of oB)).
  Proof.
    intros H1 H2. rewrite !useful_spec. cbn [oB o_stmts o_others o_basic bg_name]. unfold bv_of. cbn [oB o_bc]. fold i. tauto.
  Qed.
  Lemma LN_parts : NoDup (o_GN o ++ o_ON o) /\ ~ In i (o_GN o ++ o_ON o).
  Proof. destruct HwfA as (Hnd & _). unfold o_LN in Hnd. fold i in Hnd. inversion Hnd; auto. Qed.
  Lemma kept_generals_same : kept_generals oB = kept_generals o.
  Proof.
    unfold kept_generals. cbn [oB o_general]. apply filter_ext_in'. intros g Hg.
    assert (Hn : In (gi_name g) (o_GN o)) by now apply in_map.
    assert (H1 : gi_name g <> i) by (intros E; apply (proj2 LN_parts); rewrite <- E; apply in_or_app; now left).
    assert (H2 : gi_name g <> ds) by (intros E; apply ds_not_LN; rewrite <- E; unfold o_LN; right; apply in_or_app; now left).
    destruct (memb (gi_name g) (useful_of o)) eqn:M1, (memb (gi_name g) (useful_of oB)) eqn:M2; auto.
    - apply memb_In in M1. apply (useful_same _ H1 H2) in M1. apply memb_In in M1. congruence.
    - apply memb_In in M2. apply (useful_same _ H1 H2) in M2. apply memb_In in M2. congruence.
  Qed.
  Lemma kept_others_same :
    filter (fun v => memb (t_name v) (useful_of oB)) (o_others oB) = filter (fun v => memb (t_name v) (useful_of o)) (o_others o).
  Proof.
    cbn [oB o_others]. apply filter_ext_in'. intros k Hk.
    assert (Hn : In (t_name k) (o_ON o)) by now apply in_map.
    assert (H1 : t_name k <> i) by (intros E; apply (proj2 LN_parts); rewrite <- E; apply in_or_app; now right).
    assert (H2 : t_name k <> ds) by (intros E; apply ds_not_LN; rewrite <- E; unfold o_LN; right; apply in_or_app; now right).
    destruct (memb (t_name k) (useful_of o)) eqn:M1, (memb (t_name k) (useful_of oB)) eqn:M2; auto.
    - apply memb_In in M1. apply (useful_same _ H1 H2) in M1. apply memb_In in M1. congruence.
    - apply memb_In in M2. apply (useful_same _ H1 H2) in M2. apply memb_In in M2. congruence.
  Qed.

  (* ---- invariant operands ---- *)
  Definition stab (e : env) : Prop := forall v, In v T0 -> lookup v e = lookup v en.
  Lemma pv_stab e p : stab e -> (forall v, p = PVar v -> In v T0) -> pv w e p = pv w en p.
  Proof. intros Hs Hp. destruct p as [z|v]; [reflexivity|]. rewrite !pv_var. f_equal. apply Hs. now apply Hp. Qed.
  Lemma inv_mult v : dn_mult only = PVar v -> In v T0.
  Proof. intros E. destruct HwfA as (_ & _ & _ & _ & Hinv & _). apply Hinv. right. right. right. exists only. auto. Qed.
  Lemma inv_imm v : dn_imm only = PVar v -> In v T0.
  Proof. intros E. destruct HwfA as (_ & _ & _ & _ & Hinv & _). apply Hinv. right. right. right. exists only. auto. Qed.
  Lemma inv_guard v : bg_guard b = PVar v -> In v T0.
  Proof. intros E. destruct HwfA as (_ & _ & _ & _ & Hinv & _). apply Hinv. right. now left. Qed.
  Lemma inv_inc v : bg_inc b = PVar v -> In v T0.
  Proof. intros E. destruct HwfA as (_ & _ & _ & _ & Hinv & _). apply Hinv. now left. Qed.
  Lemma stab_cons e x v : stab e -> ~ In x T0 -> stab ((x, v) :: e).
  Proof. intros Hs Hx y Hy. rewrite lookup_cons_ne; [now apply Hs|]. intros ->. contradiction. Qed.

  (* ---- the prefix statements ---- *)
  Lemma PT_T0 y : In y PT -> ~ In y T0.
  Proof. intros Hy. now apply (proj2 HfP y Hy). Qed.
  Lemma exec_pre tr : exists enp,
    exec_block Wrap w fuel pre en tr = RNext enp tr /\
    (forall y, ~ In y PT -> lookup y enp = lookup y en) /\
    eq32 (lookup t2 enp) (mv * i0v + cv) /\ eq32 (lookup t4 enp) (mv * gv + cv).
  Proof.
    unfold pre. rewrite exec_block_cons, exec_bin_flex, exec_mul_wrap.
    set (e1 := (t1, _) :: en). rewrite exec_block_cons, exec_bin_flex, exec_plus_wrap.
    set (e2 := (t2, _) :: e1). rewrite exec_block_cons, exec_bin_flex, exec_mul_wrap.
    set (e3 := (t3, _) :: e2). rewrite exec_block_single, exec_bin_flex, exec_plus_wrap.
    set (e4 := (t4, _) :: e3). exists e4. split; [reflexivity|].
    destruct HfP as [HndP _].
    assert (Hd : t1 <> t2 /\ t1 <> t3 /\ t1 <> t4 /\ t2 <> t3 /\ t2 <> t4 /\ t3 <> t4).
    { unfold PT in HndP. inversion HndP as [|? ? H1 R1]; subst. inversion R1 as [|? ? H2 R2]; subst. inversion R2 as [|? ? H3 R3]; subst.
      cbn in *. repeat split; intros E; subst; tauto. }
    destruct Hd as (D12 & D13 & D14 & D23 & D24 & D34).
    assert (S0 : stab en) by (intros v _; reflexivity).
    assert (S1 : stab e1) by (apply stab_cons; auto; apply PT_T0; cbn; auto).
    assert (S2 : stab e2) by (apply stab_cons; auto; apply PT_T0; cbn; auto).
    assert (S3 : stab e3) by (apply stab_cons; auto; apply PT_T0; cbn; auto).
    split; [|split].
    - intros y Hy. unfold e4, e3, e2, e1. rewrite !lookup_cons_ne; auto; intros ->; apply Hy; cbn; auto.
    - unfold e4, e3. rewrite !lookup_cons_ne by congruence. unfold e2. rewrite lookup_cons_eq, eq32_wrap.
      change (eval w e1 (pli_expr (dn_imm only))) with (pv w e1 (dn_imm only)). rewrite (pv_stab e1 _ S1 inv_imm).
      rewrite eval_var. unfold e1 at 1. rewrite lookup_cons_eq, !eq32_wrap.
      change (eval w en (pli_expr (dn_mult only))) with mv. fold i0v. fold cv. apply eq32_eq. ring.
    - unfold e4. rewrite lookup_cons_eq, eq32_wrap.
      change (eval w e3 (pli_expr (dn_imm only))) with (pv w e3 (dn_imm only)). rewrite (pv_stab e3 _ S3 inv_imm).
      rewrite eval_var. unfold e3 at 1. rewrite lookup_cons_eq, !eq32_wrap.
      change (eval w e2 (pli_expr (dn_mult only))) with (pv w e2 (dn_mult only)).
      change (eval w e2 (pli_expr (bg_guard b))) with (pv w e2 (bg_guard b)).
      rewrite (pv_stab e2 _ S2 inv_mult), (pv_stab e2 _ S2 inv_guard). fold mv. fold gv. fold cv. apply eq32_eq. ring.
  Qed.

  (* ---- the hypotheses of the lemmas about expanded loops, for both loops ---- *)
  Lemma HndA : NoDup (collA :: ccA :: nsA ++ tsA). Proof. apply HfA. Qed.
  Lemma HoutA y : In y (collA :: ccA :: nsA ++ tsA) -> ~ In y T0 /\ ~ In y (o_LN o ++ o_DN o ++ binders_l (o_stmts o)).
  Proof. apply HfA. Qed.
  Lemma HndB : NoDup (collB :: ccB :: nsB ++ tsB). Proof. apply HfB. Qed.
  Lemma LNB_in x : In x (o_LN oB ++ o_DN oB ++ binders_l (o_stmts oB)) -> In x (o_LN o ++ o_DN o ++ binders_l stmts).
  Proof.
    rewrite !in_app_iff. unfold o_LN. destruct oB_names as (-> & -> & ->). cbn [In]. intros [[<-|H]|[H|H]].
    - right. left. apply ds_in_DN.
    - left. now right.
    - right. left. now apply oB_DN.
    - right. right. exact H.
  Qed.
  Lemma HoutB y : In y (collB :: ccB :: nsB ++ tsB) -> ~ In y TB /\ ~ In y (o_LN oB ++ o_DN oB ++ binders_l (o_stmts oB)).
  Proof.
    intros Hy. destruct (proj2 HfB y Hy) as [H1 H2]. split.
    - unfold TB. intros [<-|[<-|Hc]]; apply H1; [cbn; auto 6 | cbn; auto 6 | apply in_or_app; now right].
    - intros Hc. apply H2. now apply LNB_in.
  Qed.

  Section Sim.
    Variable enp : env.
    Hypothesis Hp_out : forall y, ~ In y PT -> lookup y enp = lookup y en.
    Hypothesis Hp2 : eq32 (lookup t2 enp) (mv * i0v + cv).
    Hypothesis Hp4 : eq32 (lookup t4 enp) (mv * gv + cv).

    Definition stabB (eB : env) : Prop := forall v, In v TB -> lookup v eB = lookup v enp.
    Definition Inv (e eB : env) : Prop :=
      (forall x, In x C -> eval w e (EVar x) = eval w eB (EVar x)) /\
      eq32 (lookup ds eB) (mv * lookup i e + cv) /\
      stab e /\ stabB eB /\ Vis (wrap32 (lookup i e)).

    Lemma T0_TB v : In v T0 -> In v TB. Proof. intros H. unfold TB. now right; right. Qed.
    Lemma stab_both e eB v : stab e -> stabB eB -> In v T0 -> lookup v e = lookup v eB.
    Proof.
      intros Hs HsB Hv. rewrite (Hs v Hv), (HsB v (T0_TB v Hv)), Hp_out; [reflexivity|]. intros Hc. now apply (PT_T0 v Hc).
    Qed.
    Lemma Inv_agree e eB : Inv e eB -> agree w (C ++ T0) e eB.
    Proof.
      intros (Ha & _ & Hs & HsB & _) x Hx. apply in_app_iff in Hx. destruct Hx as [Hx|Hx]; [now apply Ha|].
      rewrite !eval_var. f_equal. now apply stab_both.
    Qed.

    Lemma guards_agree e eB : Inv e eB -> XG w oB eB = XG w o e.
    Proof.
      intros (_ & Hd & Hs & HsB & Hv). unfold XG. cbn [oB o_basic bg_op bg_guard o_i bg_name]. fold b. rewrite Hop. fold i.
      rewrite (pv_stab e _ Hs inv_guard). fold gv. cbn [guard_holds].
      assert (E4 : pv w eB (PVar t4) = mv * gv + cv).
      { rewrite pv_var, (HsB t4 ltac:(unfold TB; now left)). rewrite (eq32_wrap_eq _ _ Hp4). now apply wrap32_id. }
      assert (Ed : wrap32 (lookup ds eB) = mv * wrap32 (lookup i e) + cv).
      { rewrite (eq32_wrap_eq _ _ Hd). rewrite <- (wrap32_id (mv * wrap32 (lookup i e) + cv)) by now apply HVin.
        apply eq32_wrap_eq. rewrite eq32_wrap. reflexivity. }
      rewrite E4, Ed. symmetry. now apply iv_guard_lt.
    Qed.

    (* ---- one iteration that runs to its end ---- *)
    Section Iter.
      Variables (e eB : env) (c cB : bool) (tr t : trace) (a2 a2B : env).
      Let a := (ccA, b2z c) :: e.
      Let aB := (ccB, b2z cB) :: eB.
      Hypothesis HI : Inv e eB.
      Hypothesis HG1 : XG w o e = true.
      Hypothesis HrunA : exec_block Wrap w fuel stmts a tr = RNext a2 t.
      Hypothesis HrunB : exec_block Wrap w fuel stmts aB tr = RNext a2B t.
      Hypothesis Hag : agree w (defs_l stmts ++ C ++ T0) a2 a2B.
      Let nA := bind_e2 w (xlvs o collA (combine (kept_generals o) nsA)) (tail_env w o collA (combine (kept_generals o) nsA) tsA a2).
      Let nB := bind_e2 w (xlvs oB collB (combine (kept_generals oB) nsB)) (tail_env w oB collB (combine (kept_generals oB) nsB) tsB a2B).

      Lemma wf_parts :
        (forall x, In x (o_LN o ++ o_DN o ++ binders_l stmts) -> ~ In x T0) /\
        (forall x, In x (o_DN o ++ binders_l stmts) -> ~ In x (o_LN o)).
      Proof. destruct HwfA as (_ & _ & H1 & H2 & _). auto. Qed.
      Lemma FA_facts y : In y FA -> ~ In y T0 /\ ~ In y (o_LN o) /\ ~ In y (o_DN o) /\ ~ In y (binders_l stmts).
      Proof. intros Hy. destruct (HoutA y Hy) as [H1 H2]. repeat split; auto; intros Hc; apply H2; rewrite !in_app_iff; auto. Qed.
      Lemma FB_facts y : In y FB -> ~ In y T0 /\ ~ In y PT /\ ~ In y (o_LN o) /\ ~ In y (o_DN o) /\ ~ In y (binders_l stmts).
      Proof.
        intros Hy. destruct (proj2 HfB y Hy) as [H1 H2].
        repeat split; auto; intros Hc; try (apply H1; apply in_or_app; auto; fail); apply H2; rewrite !in_app_iff; auto.
      Qed.
      Lemma PT_facts y : In y PT -> ~ In y T0 /\ ~ In y (o_LN o) /\ ~ In y (o_DN o) /\ ~ In y (binders_l stmts).
      Proof. intros Hy. destruct (proj2 HfP y Hy) as [H1 H2]. repeat split; auto; intros Hc; apply H2; rewrite !in_app_iff; auto. Qed.
      Lemma ccA_in : In ccA FA. Proof. right. now left. Qed.
      Lemma ccB_in : In ccB FB. Proof. right. now left. Qed.

      Lemma frameA y : ~ In y (binders_l stmts) -> y <> ccA -> lookup y a2 = lookup y e.
      Proof.
        intros H1 H2. pose proof (frame_block Wrap w fuel stmts a tr) as Hf. rewrite HrunA in Hf. cbn in Hf.
        rewrite Hf by assumption. unfold a. now apply lookup_cons_ne.
      Qed.
      Lemma frameB y : ~ In y (binders_l stmts) -> y <> ccB -> lookup y a2B = lookup y eB.
      Proof.
        intros H1 H2. pose proof (frame_block Wrap w fuel stmts aB tr) as Hf. rewrite HrunB in Hf. cbn in Hf.
        rewrite Hf by assumption. unfold aB. now apply lookup_cons_ne.
      Qed.
      Lemma stab_a2 : stab a2.
      Proof.
        destruct HI as (_ & _ & Hs & _). intros v Hv. rewrite frameA; [now apply Hs| |].
        - intros Hc. apply (proj1 wf_parts v); auto. rewrite !in_app_iff. auto.
        - intros ->. destruct (FA_facts ccA ccA_in) as (F & _). contradiction.
      Qed.
      Lemma stabB_a2B : stabB a2B.
      Proof.
        destruct HI as (_ & _ & _ & HsB & _). intros v Hv. rewrite frameB; [now apply HsB| |].
        - intros Hc. unfold TB in Hv. destruct Hv as [E|[E|Hv]]; [subst v|subst v|].
          + apply (PT_facts t4); cbn; auto.
          + apply (PT_facts t2); cbn; auto.
          + apply (proj1 wf_parts v); auto. rewrite !in_app_iff. auto.
        - intros E0. subst v. destruct (FB_facts ccB ccB_in) as (F1 & F2 & _). unfold TB in Hv. destruct Hv as [E|[E|Hv]]; auto; apply F2; rewrite <- E; cbn; auto.
      Qed.
      Lemma i_a2 : lookup i a2 = lookup i e.
      Proof.
        apply frameA.
        - intros Hc. apply (proj2 wf_parts i); [apply in_or_app; now right | unfold o_LN; now left].
        - intros E. destruct (FA_facts ccA ccA_in) as (_ & F & _). apply F. rewrite <- E. unfold o_LN. now left.
      Qed.
      Lemma ds_a2B : lookup ds a2B = lookup ds eB.
      Proof.
        apply frameB; [apply Hds|]. intros E. destruct (FB_facts ccB ccB_in) as (_ & _ & _ & F & _). apply F. rewrite <- E. apply ds_in_DN.
      Qed.

      Lemma next_stab : stab nA.
      Proof.
        intros v Hv. unfold nA.
        assert (HnL : ~ In v (o_LN o)) by (intros Hc; apply (proj1 wf_parts v); auto; rewrite !in_app_iff; auto).
        rewrite (xnext_out w o collA nsA tsA (proj1 HlenA) a2 v HnL).
        rewrite (xtail_out w o collA ccA nsA tsA (proj1 HlenA) a2 v).
        - apply stab_a2; auto.
        - intros Hc. destruct (FA_facts v Hc) as (F & _). contradiction.
        - intros Hc. apply (proj1 wf_parts v); auto. rewrite !in_app_iff. auto.
      Qed.
      Lemma next_stabB : stabB nB.
      Proof.
        intros v Hv. unfold nB.
        assert (HnB : ~ In v (o_LN oB) /\ ~ In v (o_DN oB) /\ ~ In v FB).
        { unfold TB in Hv. destruct Hv as [E|[E|Hv]]; [subst v|subst v|].
          - destruct (PT_facts t4 ltac:(cbn; auto)) as (_ & P2 & P3 & _). repeat split.
            + intros Hc. unfold o_LN in Hc. destruct oB_names as (E1 & E2 & E3). rewrite E1, E2, E3 in Hc. destruct Hc as [E0|Hc]; [apply P3; rewrite <- E0; apply ds_in_DN | apply P2; unfold o_LN; now right].
            + intros Hc. apply P3. now apply oB_DN.
            + intros Hc. destruct (FB_facts t4 Hc) as (_ & F & _). apply F. cbn. auto.
          - destruct (PT_facts t2 ltac:(cbn; auto)) as (_ & P2 & P3 & _). repeat split.
            + intros Hc. unfold o_LN in Hc. destruct oB_names as (E1 & E2 & E3). rewrite E1, E2, E3 in Hc. destruct Hc as [E0|Hc]; [apply P3; rewrite <- E0; apply ds_in_DN | apply P2; unfold o_LN; now right].
            + intros Hc. apply P3. now apply oB_DN.
            + intros Hc. destruct (FB_facts t2 Hc) as (_ & F & _). apply F. cbn. auto.
          - repeat split.
            + intros Hc. unfold o_LN in Hc. destruct oB_names as (E1 & E2 & E3). rewrite E1, E2, E3 in Hc.
              apply (proj1 wf_parts v); auto. rewrite !in_app_iff. destruct Hc as [E0|Hc]; [right; left; rewrite <- E0; apply ds_in_DN | left; unfold o_LN; now right].
            + intros Hc. apply (proj1 wf_parts v); auto. rewrite !in_app_iff. right. left. now apply oB_DN.
            + intros Hc. destruct (FB_facts v Hc) as (F & _). contradiction. }
        destruct HnB as (N1 & N2 & N3).
        rewrite (xnext_out w oB collB nsB tsB (proj1 HlenB) a2B v N1).
        rewrite (xtail_out w oB collB ccB nsB tsB (proj1 HlenB) a2B v N3 N2).
        now apply stabB_a2B.
      Qed.

      Lemma pvA p : (forall v, p = PVar v -> In v T0) -> pv w a2 p = pv w en p.
      Proof. apply pv_stab, stab_a2. Qed.
      Lemma pvB p : (forall v, p = PVar v -> In v T0) -> pv w a2B p = pv w en p.
      Proof.
        intros Hp. destruct p as [z|v]; [reflexivity|]. rewrite !pv_var. f_equal.
        rewrite (stabB_a2B v (T0_TB v (Hp v eq_refl))). apply Hp_out. intros Hc. apply (PT_T0 v Hc). now apply Hp.
      Qed.
      Lemma inv_added v : added = PVar v -> In v T0.
      Proof. intros E. destruct (merge_mul_pvar _ _ _ _ Hmm E) as [H|H]; [now apply inv_inc | now apply inv_mult]. Qed.

      Lemma next_i_val : lookup i nA = wrap32 (wrap32 (lookup i e) + incv).
      Proof.
        unfold nA. unfold i at 1. rewrite (xnext_i w T0 o collA ccA nsA tsA HwfA HndA HoutA (proj1 HlenA) a2). fold i.
        rewrite eval_var, i_a2. fold b. rewrite (pvA _ inv_inc). fold incv. apply wrap32_idem.
      Qed.
      Lemma next_vis : Vis (wrap32 (lookup i nA)).
      Proof.
        destruct HI as (_ & _ & Hs & _ & Hv). rewrite next_i_val, wrap32_idem. apply HVstep; auto.
        unfold XG in HG1. fold b in HG1. rewrite Hop in HG1. fold i in HG1. rewrite (pv_stab e _ Hs inv_guard) in HG1. fold gv in HG1.
        cbn in HG1. now apply Z.ltb_lt.
      Qed.
      Lemma next_ds : eq32 (lookup ds nB) (mv * lookup i nA + cv).
      Proof.
        destruct HI as (_ & Hd & _).
        unfold nB. pose proof (xnext_i w TB oB collB ccB nsB tsB wfB HndB HoutB (proj1 HlenB) a2B) as H.
        change (o_i oB) with ds in H. rewrite H. cbn [oB o_basic bg_inc]. rewrite !eq32_wrap, eval_var, eq32_wrap, ds_a2B, Hd.
        rewrite (pvB _ inv_added), (merge_mul_sound w en _ _ _ Hmm). fold b. fold incv. fold mv.
        rewrite next_i_val, eq32_wrap, eq32_wrap. apply eq32_eq. ring.
      Qed.

      Lemma C_cases x : In x C ->
        (exists k, In k (o_others o) /\ In (t_name k) (useful_of o) /\ t_name k = x) \/
        (exists g, In g (kept_generals o) /\ gi_name g = x).
      Proof.
        unfold C. rewrite in_app_iff. intros [H|H].
        - left. apply in_map_iff in H. destruct H as (k & <- & Hk). apply filter_In in Hk. destruct Hk as [Hk Hu].
          exists k. repeat split; auto. now apply memb_In.
        - right. apply in_map_iff in H. destruct H as (g & <- & Hg). eauto.
      Qed.
      Lemma C_not x : In x C -> In x (o_LN o) /\ x <> i /\ x <> ds.
      Proof.
        intros Hx. assert (HL : In x (o_GN o ++ o_ON o)).
        { destruct (C_cases x Hx) as [(k & Hk & _ & <-)|(g & Hg & <-)]; apply in_or_app.
          - right. now apply in_map.
          - left. apply in_map. unfold kept_generals in Hg. apply filter_In in Hg. tauto. }
        repeat split.
        - unfold o_LN. now right.
        - intros ->. now apply (proj2 LN_parts).
        - intros ->. apply ds_not_LN. unfold o_LN. now right.
      Qed.

      Lemma agree2 y : In y (defs_l stmts ++ C ++ T0) -> eval w a2 (EVar y) = eval w a2B (EVar y).
      Proof. apply Hag. Qed.

      Lemma tail_plain y : In y (defs_l stmts ++ C ++ T0) -> ~ In y (o_DN o) ->
        eval w (tail_env w o collA (combine (kept_generals o) nsA) tsA a2) (EVar y) =
        eval w (tail_env w oB collB (combine (kept_generals oB) nsB) tsB a2B) (EVar y).
      Proof.
        intros Hy Hd.
        assert (Hy' : In y (o_LN o ++ o_DN o ++ binders_l stmts) \/ In y T0).
        { rewrite !in_app_iff in *. destruct Hy as [H|[H|H]]; auto.
          - left. right. right. now apply defs_l_in_binders.
          - left. left. now apply C_not. }
        rewrite !eval_var.
        rewrite (xtail_out w o collA ccA nsA tsA (proj1 HlenA) a2 y); [|intros Hc|exact Hd].
        2:{ destruct (HoutA y Hc) as [F1 F2]. destruct Hy'; contradiction. }
        rewrite (xtail_out w oB collB ccB nsB tsB (proj1 HlenB) a2B y); [|intros Hc|intros Hc; apply Hd; now apply oB_DN].
        2:{ destruct (proj2 HfB y Hc) as [F1 F2]. destruct Hy' as [H|H]; [contradiction|]. apply F1. apply in_or_app. now right. }
        rewrite <- !(eval_var w). now apply agree2.
      Qed.

      Lemma inv_derived d v : In d (o_derived o) -> dn_mult d = PVar v \/ dn_imm d = PVar v -> In v T0.
      Proof. intros Hd E. destruct HwfA as (_ & _ & _ & _ & Hinv & _). apply Hinv. right. right. right. exists d. auto. Qed.
      Lemma inv_ginc g v : In g (o_general o) -> gi_inc g = PVar v -> In v T0.
      Proof. intros Hg E. destruct HwfA as (_ & _ & _ & _ & Hinv & _). apply Hinv. right. right. left. exists g. auto. Qed.

      Lemma next_other k : In k (o_others o) -> In (t_name k) (useful_of o) ->
        eval w (tail_env w o collA (combine (kept_generals o) nsA) tsA a2) (t_e2 k) =
        eval w (tail_env w oB collB (combine (kept_generals oB) nsB) tsB a2B) (t_e2 k).
      Proof.
        intros Hk Hu. destruct (as_var (t_e2 k)) as [y|] eqn:Ey; [|now apply eval_nonvar].
        apply as_var_some in Ey. rewrite Ey. pose proof (Hlv k y Hk Ey) as Hy.
        destruct (in_dec N.eq_dec y (o_DN o)) as [Hd|Hnd].
        - unfold o_DN in Hd. apply in_map_iff in Hd. destruct Hd as (d & <- & Hd).
          pose proof (xtail_derived w T0 o collA ccA nsA tsA HwfA HndA HoutA (proj1 HlenA) (proj2 HlenA) a2 d Hd) as HvA.
          rewrite !eval_var. apply eq32_wrap_eq. rewrite HvA.
          rewrite (pvA (dn_mult d)), (pvA (dn_imm d)) by (intros v E; eapply inv_derived; eauto).
          destruct (N.eq_dec (dn_name d) ds) as [E|Ne].
          + (* the eliminated variable's twin: a loop variable on the other side *)
            assert (Ed : d = only).
            { destruct HwfA as (_ & Hdn & _). clear - Hd Honly E Hdn. unfold ds in E. unfold o_DN in Hdn.
              induction (o_derived o) as [|a r IH]; [contradiction|]. cbn in Hdn. inversion Hdn as [|? ? Hni Hr]; subst.
              destruct Hd as [->|Hd], Honly as [->|Ho]; auto.
              - exfalso. apply Hni. rewrite E. now apply in_map.
              - exfalso. apply Hni. rewrite <- E. now apply in_map. }
            subst d. rewrite Hbo, i_a2. fold mv. fold cv. fold ds.
            rewrite (xtail_out w oB collB ccB nsB tsB (proj1 HlenB) a2B ds).
            * rewrite ds_a2B. destruct HI as (_ & Hdd & _). now symmetry.
            * intros Hc. destruct (FB_facts ds Hc) as (_ & _ & _ & F & _). apply F, ds_in_DN.
            * intros Hc. now apply oB_DN in Hc.
          + assert (HdB : In d (o_derived oB)).
            { cbn [oB o_derived]. apply filter_In. split; auto. apply negb_true_iff. now apply N.eqb_neq. }
            pose proof (xtail_derived w TB oB collB ccB nsB tsB wfB HndB HoutB (proj1 HlenB) (proj2 HlenB) a2B d HdB) as HvB.
            rewrite HvB. rewrite (pvB (dn_mult d)), (pvB (dn_imm d)) by (intros v E; eapply inv_derived; eauto).
            assert (Hb : In (dn_base d) C).
            { destruct (HbaseK d Hd) as [E|Hb]; [|unfold C; apply in_or_app; now right].
              exfalso. apply Ne. symmetry in E. now rewrite (Hrel d Hd E). }
            assert (Eb : eq32 (lookup (dn_base d) a2) (lookup (dn_base d) a2B)).
            { apply eq32_intro. rewrite <- !(eval_var w). apply agree2. rewrite !in_app_iff. auto. }
            now rewrite Eb.
        - apply tail_plain; auto. rewrite !in_app_iff in *. tauto.
      Qed.

      Lemma next_C x : In x C -> eval w nA (EVar x) = eval w nB (EVar x).
      Proof.
        intros Hx. destruct (C_cases x Hx) as [(k & Hk & Hu & <-)|(g & Hg & <-)].
        - rewrite !eval_var. unfold nA, nB.
          rewrite (xnext_o w T0 o collA nsA tsA HwfA (proj1 HlenA) a2 k Hk Hu).
          assert (HuB : In (t_name k) (useful_of oB)).
          { destruct (C_not _ Hx) as (_ & H1 & H2). now apply (useful_same _ H1 H2). }
          rewrite (xnext_o w TB oB collB nsB tsB wfB (proj1 HlenB) a2B k Hk HuB).
          f_equal. now apply next_other.
        - destruct (in_combine_exists _ nsA g (eq_sym (proj1 HlenA)) Hg) as [na Hna].
          assert (HgB : In g (kept_generals oB)) by now rewrite kept_generals_same.
          destruct (in_combine_exists _ nsB g (eq_sym (proj1 HlenB)) HgB) as [nb Hnb].
          rewrite !eval_var. unfold nA, nB.
          rewrite (xnext_g w T0 o collA ccA nsA tsA HwfA HndA HoutA (proj1 HlenA) a2 g na Hna).
          rewrite (xnext_g w TB oB collB ccB nsB tsB wfB HndB HoutB (proj1 HlenB) a2B g nb Hnb).
          assert (Hgi : forall v, gi_inc g = PVar v -> In v T0).
          { intros v E. eapply inv_ginc; eauto. unfold kept_generals in Hg. apply filter_In in Hg. tauto. }
          rewrite (pvA _ Hgi), (pvB _ Hgi), (agree2 (gi_name g)); [reflexivity|]. rewrite !in_app_iff. auto.
      Qed.

      Lemma next_inv : Inv nA nB.
      Proof. repeat split; [apply next_C | apply next_ds | apply next_stab | apply next_stabB | apply next_vis]. Qed.
    End Iter.

    Definition Kb (v v' : Z) (e1 e1' : env) : Prop := v = v' /\ stab e1 /\ stabB e1'.

    Lemma C_T0_not_cc x : In x (C ++ T0) -> x <> ccA /\ x <> ccB.
    Proof.
      intros Hx. apply in_app_iff in Hx.
      assert (HA : In ccA FA) by (right; now left). assert (HB : In ccB FB) by (right; now left).
      destruct (HoutA ccA HA) as [A1 A2]. destruct (proj2 HfB ccB HB) as [B1 B2].
      destruct Hx as [Hx|Hx].
      - assert (HL : In x (o_LN o)).
        { unfold C in Hx. apply in_app_iff in Hx. unfold o_LN. right. apply in_or_app. destruct Hx as [Hx|Hx].
          - right. apply in_map_iff in Hx. destruct Hx as (k & <- & Hk). apply filter_In in Hk. apply in_map. tauto.
          - left. apply in_map_iff in Hx. destruct Hx as (g & <- & Hg). apply in_map. unfold kept_generals in Hg. apply filter_In in Hg. tauto. }
        split; intros ->; [apply A2 | apply B2]; apply in_or_app; now left.
      - split; intros ->; [contradiction | apply B1; apply in_or_app; now right].
    Qed.

    Lemma step e eB tr : Inv e eB ->
      match exec_block Wrap w fuel (xbody o collA ccA (combine (kept_generals o) nsA) tsA) e tr with
      | RNext e1 t => exists e1', exec_block Wrap w fuel (xbody oB collB ccB (combine (kept_generals oB) nsB) tsB) eB tr = RNext e1' t /\
                                  Inv (bind_e2 w (xlvs o collA (combine (kept_generals o) nsA)) e1)
                                      (bind_e2 w (xlvs oB collB (combine (kept_generals oB) nsB)) e1')
      | RBreak v e1 t => exists v' e1', exec_block Wrap w fuel (xbody oB collB ccB (combine (kept_generals oB) nsB) tsB) eB tr = RBreak v' e1' t /\
                                        Kb v v' e1 e1'
      | RStuck | ROvf => True
      | r => exec_block Wrap w fuel (xbody oB collB ccB (combine (kept_generals oB) nsB) tsB) eB tr = r
      end.
    Proof.
      intros HI. destruct (xbody_exec w fuel o collA ccA nsA tsA e tr) as (c & HA).
      destruct (xbody_exec w fuel oB collB ccB nsB tsB eB tr) as (cB & HB). cbn zeta in *.
      rewrite HA, HB, (guards_agree e eB HI). change (o_stmts oB) with stmts. fold stmts.
      assert (Hag0 : agree w (C ++ T0) ((ccA, b2z c) :: e) ((ccB, b2z cB) :: eB)).
      { intros x Hx. destruct (C_T0_not_cc x Hx) as [N1 N2]. rewrite !eval_var, !lookup_cons_ne by assumption.
        rewrite <- !(eval_var w). now apply (Inv_agree e eB HI). }
      destruct (XG w o e) eqn:EG.
      - pose proof (proj2 (exec_agree_both Wrap w fuel) stmts (C ++ T0) _ _ tr Hsc Hag0) as Hs.
        destruct (exec_block Wrap w fuel stmts ((ccA, b2z c) :: e) tr) as [a2 t|v a2 t|t|t| | |] eqn:Er; cbn [res_agree] in Hs.
        + destruct Hs as (a2B & ErB & Hag2). rewrite ErB. eexists. split; [reflexivity|].
          exact (next_inv e eB c cB tr t a2 a2B HI EG Er ErB Hag2).
        + destruct Hs as (a2B & ErB & Hag2). rewrite ErB. exists v, a2B. split; [reflexivity|]. split; [reflexivity|].
          destruct HI as (_ & _ & Hs1 & Hs2 & _).
          pose proof (frame_block Wrap w fuel stmts ((ccA, b2z c) :: e) tr) as F1. rewrite Er in F1. cbn [frame_res] in F1.
          pose proof (frame_block Wrap w fuel stmts ((ccB, b2z cB) :: eB) tr) as F2. rewrite ErB in F2. cbn [frame_res] in F2.
          destruct HwfA as (_ & _ & Hout & _).
          split.
          * intros x Hx. rewrite F1 by (intros Hc; apply (Hout x); auto; rewrite !in_app_iff; auto).
            rewrite lookup_cons_ne; [now apply Hs1|]. intros ->. assert (HA0 : In ccA FA) by (right; now left).
            destruct (HoutA ccA HA0). contradiction.
          * intros x Hx.
            assert (HxB : ~ In x (binders_l stmts) /\ x <> ccB).
            { assert (HB0 : In ccB FB) by (right; now left). destruct (proj2 HfB ccB HB0) as [B1 B2].
              unfold TB in Hx. destruct Hx as [E|[E|Hx]]; [subst x|subst x|].
              - destruct (proj2 HfP t4 ltac:(cbn; auto)) as [P1 P2]. split.
                + intros Hc. apply P2. rewrite !in_app_iff. auto.
                + intros E. apply B1. rewrite <- E. cbn. auto 6.
              - destruct (proj2 HfP t2 ltac:(cbn; auto)) as [P1 P2]. split.
                + intros Hc. apply P2. rewrite !in_app_iff. auto.
                + intros E. apply B1. rewrite <- E. cbn. auto 6.
              - split.
                + intros Hc. apply (Hout x); auto. rewrite !in_app_iff. auto.
                + intros ->. apply B1. apply in_or_app. now right. }
            rewrite F2 by tauto. rewrite lookup_cons_ne by tauto. now apply Hs2.
        + now rewrite Hs.
        + now rewrite Hs.
        + exact I.
        + exact I.
        + now rewrite Hs.
      - eexists. eexists. split; [reflexivity|]. destruct HI as (_ & _ & Hs1 & Hs2 & _). split; [|split].
        + change (bv_of oB) with (bv_of o). destruct (as_var (bv_of o)) as [y|] eqn:Ey; [|now apply eval_nonvar].
          apply as_var_some in Ey. rewrite Ey in Hbv |- *. apply Hag0. now apply in_scope_var.
        + apply stab_cons; auto. assert (HA0 : In ccA FA) by (right; now left). now apply (HoutA ccA HA0).
        + intros x Hx. assert (HB0 : In ccB FB) by (right; now left). destruct (proj2 HfB ccB HB0) as [B1 B2].
          rewrite lookup_cons_ne; [now apply Hs2|]. intros ->. apply B1. unfold TB in Hx.
          destruct Hx as [E|[E|Hx]]; [rewrite <- E; cbn; auto 6 | rewrite <- E; cbn; auto 6 | apply in_or_app; now right].
    Qed.
  End Sim.

  (* ---- the theorem ---- *)
  Theorem ive_core tr :
    match exec Wrap w fuel (xloop o collA ccA (combine (kept_generals o) nsA) tsA) en tr with
    | RNext e1 t => exists e1',
        exec_block Wrap w fuel (pre ++ [xloop oB collB ccB (combine (kept_generals oB) nsB) tsB]) en tr = RNext e1' t /\
        agree w (opt_names (bc_of o) ++ T0) e1 e1'
    | RBreak _ _ _ | RStuck | ROvf => True
    | r => exec_block Wrap w fuel (pre ++ [xloop oB collB ccB (combine (kept_generals oB) nsB) tsB]) en tr = r
    end.
  Proof.
    destruct (exec_pre tr) as (enp & Hpre & Hp_out & Hp2 & Hp4).
    rewrite exec_block_app, Hpre, exec_block_single. unfold xloop. rewrite !exec_SWhile.
    change (bc_of oB) with (bc_of o).
    set (XLA := xlvs o collA (combine (kept_generals o) nsA)).
    set (XLB := xlvs oB collB (combine (kept_generals oB) nsB)).
    pose proof (xs_XL_nodup T0 o collA nsA HwfA (proj1 HlenA)) as NdA. fold XLA in NdA.
    pose proof (xs_XL_nodup TB oB collB nsB wfB (proj1 HlenB)) as NdB. fold XLB in NdB.
    assert (HLA : forall x, In x (map t_name XLA) -> In x (o_LN o)) by (intros x; apply xs_XL_in_LN; apply HlenA).
    assert (HLB : forall x, In x (map t_name XLB) -> In x (o_LN oB)) by (intros x; apply xs_XL_in_LN; apply HlenB).
    assert (Hev : forall a, (forall x, a = EVar x -> In x T0) -> eval w enp a = eval w en a).
    { intros a Ha. destruct a as [| | |x]; try reflexivity. rewrite !eval_var. f_equal. apply Hp_out.
      intros Hc. apply (PT_T0 x Hc). now apply Ha. }
    assert (Hinit0 : Inv enp (bind_e1 w XLA en) (bind_e1 w XLB enp)).
    { repeat split.
      - intros x Hx. rewrite !eval_var. f_equal. unfold bind_e1.
        destruct (C_cases x Hx) as [(k & Hk & Hu & <-)|(g & Hg & <-)].
        + assert (HkA : In k XLA) by (unfold XLA, xlvs; apply in_or_app; left; apply filter_In; split; auto; now apply memb_In).
          assert (HkB : In k XLB).
          { unfold XLB, xlvs. apply in_or_app. left. rewrite kept_others_same. apply filter_In. split; auto. now apply memb_In. }
          rewrite (bind_e1_in w XLA en en k NdA HkA), (bind_e1_in w XLB enp enp k NdB HkB).
          symmetry. apply Hev. intros y Ey. apply Hinit. right. right. eauto.
        + destruct (in_combine_exists _ nsA g (eq_sym (proj1 HlenA)) Hg) as [na Hna].
          assert (HgB : In g (kept_generals oB)) by now rewrite kept_generals_same.
          destruct (in_combine_exists _ nsB g (eq_sym (proj1 HlenB)) HgB) as [nb Hnb].
          assert (HgA' : In (gi_name g, gi_init g, EVar na) XLA).
          { unfold XLA, xlvs. apply in_or_app. right. apply in_or_app. right. apply in_map_iff. exists (g, na). auto. }
          assert (HgB' : In (gi_name g, gi_init g, EVar nb) XLB).
          { unfold XLB, xlvs. apply in_or_app. right. apply in_or_app. right. apply in_map_iff. exists (g, nb). auto. }
          change (gi_name g) with (t_name (gi_name g, gi_init g, EVar na)) at 1.
          rewrite (bind_e1_in w XLA en en _ NdA HgA').
          change (gi_name g) with (t_name (gi_name g, gi_init g, EVar nb)).
          rewrite (bind_e1_in w XLB enp enp _ NdB HgB'). cbn [t_e1 fst snd].
          symmetry. apply Hev. intros y Ey. apply Hinit. right. left. exists g. split; auto.
          unfold kept_generals in Hg. apply filter_In in Hg. tauto.
      - assert (HiA : In (i, bg_init b, EVar collA) XLA).
        { unfold XLA, xlvs. apply in_or_app. right. apply in_or_app. left. now left. }
        assert (HdB : In (ds, EVar t2, EVar collB) XLB).
        { unfold XLB, xlvs. apply in_or_app. right. apply in_or_app. left. now left. }
        unfold bind_e1.
        change ds with (t_name (ds, EVar t2, EVar collB)) at 1. rewrite (bind_e1_in w XLB enp enp _ NdB HdB).
        change i with (t_name (i, bg_init b, EVar collA)). rewrite (bind_e1_in w XLA en en _ NdA HiA).
        cbn [t_e1 fst snd]. fold i0v. rewrite eval_var, wrap32_idem. exact (eq32_wrap_eq _ _ Hp2).
      - intros v Hv. unfold bind_e1. rewrite lookup_bind_notin; [reflexivity|]. intros Hc. apply HLA in Hc.
        destruct HwfA as (_ & _ & Hout & _). apply (Hout v); auto. apply in_or_app. now left.
      - intros v Hv. unfold bind_e1. rewrite lookup_bind_notin; [reflexivity|]. intros Hc. apply HLB in Hc.
        destruct wfB as (_ & _ & Hout & _). apply (Hout v); auto. apply in_or_app. now left.
      - unfold bind_e1. change i with (t_name (i, bg_init b, EVar collA)).
        assert (HiA : In (i, bg_init b, EVar collA) XLA).
        { unfold XLA, xlvs. apply in_or_app. right. apply in_or_app. left. now left. }
        rewrite (bind_e1_in w XLA en en _ NdA HiA). cbn [t_e1 fst snd]. fold i0v. unfold i0v. rewrite eval_wrap. exact HV0. }
    pose proof (loop_sim3 (Inv enp) (Kb enp) _ _ (bind_e2 w XLA) (bind_e2 w XLB) (step enp Hp_out Hp4) fuel _ _ tr Hinit0) as HL.
    destruct (loop _ (bind_e2 w XLA) fuel (bind_e1 w XLA en) tr) as [? ?|v e1 t|t|t| | |] eqn:EL; auto.
    - destruct HL as (v' & e1' & -> & <- & Hs1 & Hs2). eexists. split; [reflexivity|].
      apply agree_bind_opt. intros x Hx. rewrite !eval_var. f_equal. now apply (stab_both enp Hp_out e1 e1' x).
    - now rewrite HL.
    - now rewrite HL.
    - now rewrite HL.
  Qed.
End Ive.

(* ------------------------------------------------------------------ the statement in terms of StrengthIv.ive *)
Definition ive_pre (o : owl) (only : divn) (t1 t2 t3 t4 : name) : list stmt :=
  [bin_flex t1 MUL (pli_expr (dn_mult only)) (bg_init (o_basic o));
   bin_flex t2 PLUS (pli_expr (dn_imm only)) (EVar t1);
   bin_flex t3 MUL (pli_expr (dn_mult only)) (pli_expr (bg_guard (o_basic o)));
   bin_flex t4 PLUS (pli_expr (dn_imm only)) (EVar t3)].
Definition ive_owl (o : owl) (only : divn) (added : pli) (t2 t4 : name) : owl :=
  mkowl (mkbivg (dn_name only) (EVar t2) added GLT (PVar t4)) (o_general o) (o_others o)
        (filter (fun v => negb (N.eqb (dn_name v) (dn_name only))) (o_derived o)) (o_stmts o) (o_bc o).

(* what StrengthIv.ive returns *)
Lemma ive_inv o sup pre nb nd sup' :
  ive o sup = Some (pre, nb, nd, sup') ->
  exists only added t1 t2 t3 t4,
    owl_uses_iv o = false /\
    filter (fun v => N.eqb (dn_base v) (bg_name (o_basic o))) (o_derived o) = [only] /\
    merge_mul (bg_inc (o_basic o)) (dn_mult only) = Some added /\
    t1 = fst (alloc sup) /\ t2 = fst (alloc (snd (alloc sup))) /\
    t3 = fst (alloc (snd (alloc (snd (alloc sup))))) /\ t4 = fst (alloc (snd (alloc (snd (alloc (snd (alloc sup))))))) /\
    pre = ive_pre o only t1 t2 t3 t4 /\
    mkowl nb (o_general o) (o_others o) nd (o_stmts o) (o_bc o) = ive_owl o only added t2 t4.
Proof.
  unfold ive. destruct (owl_uses_iv o) eqn:Eu; [discriminate|].
  destruct (filter _ (o_derived o)) as [|only [|]] eqn:Ef; try discriminate.
  destruct (merge_mul (bg_inc (o_basic o)) (dn_mult only)) as [added|] eqn:Em; [|discriminate].
  destruct (alloc sup) as [t1 s1] eqn:E1. destruct (alloc s1) as [t2 s2] eqn:E2.
  destruct (alloc s2) as [t3 s3] eqn:E3. destruct (alloc s3) as [t4 s4] eqn:E4.
  intros [= <- <- <- <-]. exists only, added, t1, t2, t3, t4. cbn [fst snd]. rewrite E2. cbn [fst snd]. rewrite E3. cbn [fst snd]. rewrite E4.
  repeat split; auto.
Qed.

Lemma filter_single {A} (p : A -> bool) l x : filter p l = [x] ->
  In x l /\ p x = true /\ forall y, In y l -> p y = true -> In y [x].
Proof.
  intros H. assert (Hx : In x (filter p l)) by (rewrite H; now left). apply filter_In in Hx. destruct Hx as [H1 H2].
  repeat split; auto. intros y Hy Hp. rewrite <- H. apply filter_In. auto.
Qed.

(* the hypotheses, bundled *)
Definition fresh_for (T0 : list name) (o : owl) (names : list name) : Prop :=
  NoDup names /\ forall y, In y names -> ~ In y T0 /\ ~ In y (o_LN o ++ o_DN o ++ binders_l (o_stmts o)).
Definition kept_names (o : owl) : list name :=
  map t_name (filter (fun v => memb (t_name v) (useful_of o)) (o_others o)) ++ map gi_name (kept_generals o).
(* what the loop reads: the body statements, the loop values of the other loop variables and the break value
   read kept loop variables (never the guarded induction variable), names of T0, and names the body defines; the
   initial values read T0 only; every derived induction variable is recomputed from a kept induction variable *)
Definition owl_reads (T0 : list name) (o : owl) : Prop :=
  scopedc_l (kept_names o ++ T0) (o_stmts o) = true /\
  (forall k y, In k (o_others o) -> t_e2 k = EVar y -> In y (defs_l (o_stmts o) ++ o_DN o ++ kept_names o ++ T0)) /\
  in_scope (kept_names o ++ T0) (bv_of o) = true /\
  (forall d, In d (o_derived o) -> In (dn_base d) (o_i o :: map gi_name (kept_generals o))) /\
  (forall x, (bg_init (o_basic o) = EVar x \/ (exists g, In g (o_general o) /\ gi_init g = EVar x) \/
              (exists k, In k (o_others o) /\ t_e1 k = EVar x)) -> In x T0).
(* the side conditions = the complement of the open class C02-iv-elimination-guard, as a statement about the run:
   the replaced guard is `<`, the multiplier is positive, multiplier * bound + immediate is representable, and so
   is multiplier * z + immediate for every value z the induction variable takes at the head of an iteration
   (Vis: contains the initial value, closed under the step while the guard holds) - the last one included *)
Definition ive_side (w : world) (en : env) (o : owl) (only : divn) (Vis : Z -> Prop) : Prop :=
  let mv := pv w en (dn_mult only) in let cv := pv w en (dn_imm only) in
  let gv := pv w en (bg_guard (o_basic o)) in
  bg_op (o_basic o) = GLT /\ mv > 0 /\ in32 (mv * gv + cv) /\
  Vis (eval w en (bg_init (o_basic o))) /\
  (forall z, Vis z -> z < gv -> Vis (wrap32 (z + pv w en (bg_inc (o_basic o))))) /\
  (forall z, Vis z -> in32 (mv * z + cv)).

Theorem ive_sound w fuel T0 o only added t1 t2 t3 t4 collA ccA nsA tsA collB ccB nsB tsB en Vis tr :
  let oB := ive_owl o only added t2 t4 in
  filter (fun v => N.eqb (dn_base v) (bg_name (o_basic o))) (o_derived o) = [only] ->
  merge_mul (bg_inc (o_basic o)) (dn_mult only) = Some added ->
  owl_wf T0 o -> owl_reads T0 o ->
  ~ In (dn_name only) (binders_l (o_stmts o)) /\ ~ In (dn_name only) (uses_l (o_stmts o) []) ->
  fresh_for T0 o (collA :: ccA :: nsA ++ tsA) ->
  fresh_for ([t1; t2; t3; t4] ++ T0) o (collB :: ccB :: nsB ++ tsB) ->
  fresh_for T0 o [t1; t2; t3; t4] ->
  length nsA = length (kept_generals o) /\ length tsA = length (o_derived o) ->
  length nsB = length (kept_generals oB) /\ length tsB = length (o_derived oB) ->
  ive_side w en o only Vis ->
  match exec Wrap w fuel (xloop o collA ccA (combine (kept_generals o) nsA) tsA) en tr with
  | RNext e1 t => exists e1',
      exec_block Wrap w fuel (ive_pre o only t1 t2 t3 t4 ++ [xloop oB collB ccB (combine (kept_generals oB) nsB) tsB]) en tr = RNext e1' t /\
      agree w (opt_names (bc_of o) ++ T0) e1 e1'
  | RBreak _ _ _ | RStuck | ROvf => True
  | r => exec_block Wrap w fuel (ive_pre o only t1 t2 t3 t4 ++ [xloop oB collB ccB (combine (kept_generals oB) nsB) tsB]) en tr = r
  end.
Proof.
  intros oB Hf Hmm Hwf (R1 & R2 & R3 & R4 & R5) Hds HfA HfB HfP HlA HlB (S1 & S2 & S3 & S4 & S5 & S6).
  destruct (filter_single _ _ _ Hf) as (Ho & Hb & Hu). apply N.eqb_eq in Hb.
  apply (ive_core w fuel T0 o only added t1 t2 t3 t4 collA ccA nsA tsA collB ccB nsB tsB en) with (Vis := Vis); auto.
  intros d Hd E. specialize (Hu d Hd). rewrite E in Hu. unfold o_i in Hu. rewrite N.eqb_refl in Hu.
  destruct (Hu eq_refl) as [<-|[]]. reflexivity.
Qed.
