(* C02loop — loop-invariant code motion (Licm.licm, the code after fix 3d66ed3) preserves the loop exactly on the
   target semantics: same result kind, same value, same call trace, same trap, same fuel. *)
From Coq Require Import ZArith NArith List Bool Lia.
Import ListNotations.
From SV Require Import Common.Int32 C02.Kernels C02deep.Syntax C02deep.Sem C02deep.Passes C02deep.ProofsSem
  C02deep.ProofsScope C02deep.ProofsDceSets C02loop.Analysis C02loop.Licm C02loop.Classes C02loop.ProofsBase.
Open Scope Z_scope.

(* ------------------------------------------------------------------ the fold as a recursive split *)
Definition hoistable (st : stmt) (ninv : set) : bool :=
  match st with
  | SNot _ e | SPrim _ _ e => is_inv e ninv
  | SBin _ op e1 e2 => negb (is_divmod op) && is_inv e1 ninv && is_inv e2 ninv
  | SStruct _ _ es => forallb (fun e => is_inv e ninv) es
  | _ => false
  end.
Definition ninv_after (st : stmt) (ninv : set) : set :=
  match st with
  | SNot x _ | SPrim x _ _ | SBin x _ _ _ | SStruct x _ _ | SLateDecl x | SLateAssign x _ => x :: ninv
  | SCall _ _ ret => opt_names ret ++ ninv
  | SIf _ _ _ fas => rev (map t_name fas) ++ ninv
  | SSIf _ _ _ | SBreak _ => ninv
  | SWhile _ _ bc => opt_names bc ++ ninv
  end.
Lemma licm_step_eq h i ninv st :
  licm_step (h, i, ninv) st = if hoistable st ninv then (st :: h, i, ninv) else (h, st :: i, ninv_after st ninv).
Proof. unfold licm_step. destruct st; cbn; try reflexivity; repeat match goal with |- context [if ?c then _ else _] => destruct c end; reflexivity. Qed.

Fixpoint split (ss : list stmt) (ninv : set) : list stmt * list stmt * set :=
  match ss with
  | [] => ([], [], ninv)
  | st :: r =>
      if hoistable st ninv then let '(h, i, n) := split r ninv in (st :: h, i, n)
      else let '(h, i, n) := split r (ninv_after st ninv) in (h, st :: i, n)
  end.

Lemma fold_split ss : forall h0 i0 n0,
  fold_left licm_step ss (h0, i0, n0) = let '(h, i, n) := split ss n0 in (rev h ++ h0, rev i ++ i0, n).
Proof.
  induction ss as [|st r IH]; intros h0 i0 n0; [reflexivity|].
  cbn [fold_left split]. rewrite licm_step_eq. destruct (hoistable st n0).
  - rewrite IH. destruct (split r n0) as [[h i] n]. cbn. now rewrite <- app_assoc.
  - rewrite IH. destruct (split r (ninv_after st n0)) as [[h i] n]. cbn. now rewrite <- app_assoc.
Qed.
Lemma licm_split lvs ss : licm lvs ss = split ss (rev (map t_name lvs)).
Proof.
  unfold licm, licm_g. change (licm_step_g false) with licm_step. rewrite fold_split. destruct (split ss _) as [[h i] n]. now rewrite !app_nil_r, !rev_involutive.
Qed.

(* ------------------------------------------------------------------ pure statements *)
Definition pure_val (w : world) (en : env) (st : stmt) : option (name * Z) :=
  match st with
  | SBin x op a b => match rt_binop op (eval w en a) (eval w en b) with Val v => Some (x, v) | TrapArith => None end
  | SNot x e => Some (x, Z.lxor (eval w en e) 1)
  | SPrim x p e => Some (x, w_prim w p (eval w en e))
  | SStruct x tn es => Some (x, w_struct w tn (map (eval w en) es))
  | _ => None
  end.
Definition operands (st : stmt) : list expr :=
  match st with SBin _ _ a b => [a; b] | SNot _ e | SPrim _ _ e => [e] | SStruct _ _ es => es | _ => [] end.

Lemma pure_val_ext w e1 e2 st :
  (forall a, In a (operands st) -> eval w e1 a = eval w e2 a) -> pure_val w e1 st = pure_val w e2 st.
Proof.
  destruct st as [x op a b|x a|x p a| | | | | |x tn es| |]; cbn; intros H; try reflexivity.
  - rewrite (H a), (H b) by auto. reflexivity.
  - rewrite (H a) by auto. reflexivity.
  - rewrite (H a) by auto. reflexivity.
  - do 3 f_equal. apply map_ext_in. exact H.
Qed.
Lemma hoistable_defs st ninv : hoistable st ninv = true -> exists x, defs st = [x] /\ binders st = [x].
Proof. destruct st; cbn; try discriminate; eauto. Qed.
Lemma pure_val_name w en st x v : pure_val w en st = Some (x, v) -> defs st = [x].
Proof.
  destruct st; cbn; try discriminate.
  - destruct (rt_binop _ _ _); [|discriminate]. now intros [= -> _].
  - now intros [= -> _].
  - now intros [= -> _].
  - now intros [= -> _].
Qed.
Lemma exec_pure w fuel st ninv en tr :
  hoistable st ninv = true ->
  exec Wrap w fuel st en tr =
  match pure_val w en st with Some b => RNext (b :: en) tr | None => RTrap tr end.
Proof.
  destruct st; cbn; try discriminate; intros _; try reflexivity.
  destruct (rt_binop _ _ _); reflexivity.
Qed.
Lemma pure_nodiv w en st ninv : hoistable st ninv = true -> pure_val w en st <> None.
Proof.
  destruct st; cbn; try discriminate; intros H; try discriminate.
  apply andb_prop in H. destruct H as [H _]. apply andb_prop in H. destruct H as [H _].
  destruct op; cbn in *; try discriminate.
Qed.

(* operands of a hoistable statement: literals / constants, or variables outside the non-invariant set *)
Lemma hoistable_operands st ninv a :
  hoistable st ninv = true -> In a (operands st) -> is_inv a ninv = true.
Proof.
  destruct st; cbn; try discriminate; intros H Hi.
  - apply andb_prop in H. destruct H as [H H2]. apply andb_prop in H. destruct H as [_ H1].
    destruct Hi as [<-|[<-|[]]]; assumption.
  - destruct Hi as [<-|[]]; assumption.
  - destruct Hi as [<-|[]]; assumption.
  - rewrite forallb_forall in H. auto.
Qed.
Lemma scoped_operands S st ninv a :
  hoistable st ninv = true -> scoped S st = true -> In a (operands st) -> in_scope S a = true.
Proof.
  destruct st; cbn; try discriminate; intros _ H Hi.
  - apply andb_prop in H. destruct H. destruct Hi as [<-|[<-|[]]]; assumption.
  - destruct Hi as [<-|[]]; assumption.
  - destruct Hi as [<-|[]]; assumption.
  - rewrite forallb_forall in H. auto.
Qed.

(* every name a kept statement puts in scope is recorded as not invariant *)
Lemma defs_ninv_after st ninv x : hoistable st ninv = false -> In x (defs st) -> In x (ninv_after st ninv).
Proof.
  destruct st; cbn; intros _ H; try tauto.
  - rewrite in_app_iff. auto.
  - rewrite in_app_iff, <- in_rev. auto.
  - rewrite in_app_iff. auto.
Qed.
Lemma ninv_after_mono st ninv x : In x ninv -> In x (ninv_after st ninv).
Proof. destruct st; cbn; intros H; auto; rewrite in_app_iff; auto. Qed.

(* the environment after the hoisted statements (when none of them traps) *)
Fixpoint henv (w : world) (hs : list stmt) (en : env) : env :=
  match hs with
  | [] => en
  | st :: r => match pure_val w en st with Some b => henv w r (b :: en) | None => henv w r en end
  end.

Definition names_of (hs : list stmt) : list name := flat_map defs hs.

Lemma henv_outside w hs : forall en y, ~ In y (names_of hs) -> lookup y (henv w hs en) = lookup y en.
Proof.
  induction hs as [|st r IH]; intros en y Hy; [reflexivity|]. cbn in *.
  rewrite in_app_iff in Hy. destruct (pure_val w en st) as [[x v]|] eqn:E.
  - rewrite IH by tauto. apply lookup_cons_ne. intros ->. apply Hy. left.
    rewrite (pure_val_name _ _ _ _ _ E). now left.
  - apply IH. tauto.
Qed.

Section Licm.
  Variables (w : world) (fuel : nat).
  Notation exec := (exec Wrap w fuel).
  Notation exec_block := (exec_block Wrap w fuel).

  (* the value the hoisted run gives to the name of each hoisted statement is the value of the statement in the
     final environment: later hoisted statements do not rebind its operands or its name *)
  Definition hfix (eh : env) (st : stmt) : Prop :=
    exists x v, pure_val w eh st = Some (x, v) /\ lookup x eh = v.

  Fixpoint ops_ok (hs : list stmt) : Prop :=
    match hs with
    | [] => True
    | st :: r => (forall v, In (EVar v) (operands st) -> ~ In v (names_of (st :: r))) /\ ops_ok r
    end.

  Lemma eval_outside en en' a (N : list name) :
    (forall y, ~ In y N -> lookup y en' = lookup y en) ->
    (forall v, a = EVar v -> ~ In v N) -> eval w en' a = eval w en a.
  Proof. intros H Ha. destruct a; try reflexivity. unfold eval. f_equal. apply H. now apply Ha. Qed.

  Lemma henv_hfix hs : forall en,
    NoDup (names_of hs) -> ops_ok hs ->
    (forall st, In st hs -> pure_val w (henv w hs en) st <> None) ->
    forall st, In st hs -> hfix (henv w hs en) st.
  Proof.
    induction hs as [|s r IH]; intros en Hnd Hops Hnn st Hi; [contradiction|].
    cbn [ops_ok] in Hops. destruct Hops as [Hop Hops].
    cbn [names_of flat_map] in Hnd. fold (names_of r) in Hnd.
    assert (Hndr : NoDup (names_of r)) by (eapply nd_app_r; eauto).
    (* the operands of s are the same before and after the whole run *)
    assert (Hsame : pure_val w (henv w (s :: r) en) s = pure_val w en s).
    { apply pure_val_ext. intros a Ha. apply (eval_outside _ _ _ (names_of (s :: r))).
      - intros y Hy. now apply henv_outside.
      - intros v ->. now apply Hop. }
    destruct Hi as [<-|Hi].
    - pose proof (Hnn s (or_introl eq_refl)) as Hn. rewrite Hsame in Hn.
      destruct (pure_val w en s) as [[x v]|] eqn:E; [|contradiction].
      exists x, v. split; [now rewrite Hsame|]. cbn [henv]. rewrite E.
      rewrite henv_outside; [apply lookup_cons_eq|].
      intros Hx. apply (pure_val_name) in E. rewrite E in Hnd. cbn in Hnd. inversion Hnd; auto.
    - cbn [henv] in *. destruct (pure_val w en s) as [b|] eqn:E.
      + apply IH; auto. intros st' Hi'. apply Hnn. now right.
      + apply IH; auto. intros st' Hi'. apply Hnn. now right.
  Qed.

  (* ---- one iteration: the original body against the kept statements ---- *)
  Variable S0 : list name.               (* the scope in front of the loop *)
  Variable HS : list name.               (* names of all hoisted statements ++ S0 *)
  Variable eh : env.                     (* the environment after the hoisted statements *)
  Definition stable (e : env) : Prop := forall y, In y HS -> lookup y e = lookup y eh.

  Definition walk_res (Tn Tb : list name) (r r' : res) : Prop :=
    match r with
    | RNext e1 t => exists e1', r' = RNext e1' t /\ agree w Tn e1 e1' /\ stable e1'
    | RBreak v e1 t => exists e1', r' = RBreak v e1' t /\ agree w Tb e1 e1' /\ stable e1'
    | o => r' = o
    end.

  Lemma stable_frame bs e r :
    stable e -> (forall x, In x bs -> ~ In x HS) -> frame_res bs e r ->
    match r with RNext e1 _ | RBreak _ e1 _ => stable e1 | _ => True end.
  Proof.
    intros Hs Hd Hf. destruct r; cbn in *; auto; intros y Hy; rewrite Hf; auto; intros Hb; eapply Hd; eauto.
  Qed.

  Lemma walk ss : forall T ninv h i n e e' tr,
    split ss ninv = (h, i, n) ->
    scoped_l T ss = true ->
    (forall v, In v T -> ~ In v ninv -> In v HS) ->
    (forall st, In st h -> hfix eh st) ->
    (forall st, In st h -> forall x, In x (defs st) -> In x HS) ->
    (forall x, In x (binders_l i) -> ~ In x HS) ->
    agree w T e e' -> stable e' ->
    walk_res (defs_l ss ++ T) T (exec_block ss e tr) (exec_block i e' tr).
  Proof.
    induction ss as [|st r IH]; intros T ninv h i n e e' tr Hsp Hsc Hinv Hfix Hhs Hbi Hag Hst.
    - cbn in Hsp. injection Hsp as <- <- <-. cbn. eauto.
    - cbn [split] in Hsp. cbn [scoped_l] in Hsc. apply andb_prop in Hsc. destruct Hsc as [Hsc1 Hsc2].
      destruct (hoistable st ninv) eqn:Hh.
      + (* hoisted: the original computes the value the hoisted run left in eh *)
        destruct (split r ninv) as [[h' i'] n'] eqn:Er. injection Hsp as <- <- <-.
        destruct (Hfix st (or_introl eq_refl)) as (x & v & Hpv & Hlx).
        assert (Hsame : pure_val w e st = pure_val w eh st).
        { apply pure_val_ext. intros a Ha.
          pose proof (hoistable_operands _ _ _ Hh Ha) as Hi. pose proof (scoped_operands _ _ _ _ Hh Hsc1 Ha) as Hs.
          destruct a as [z|z|s|v0]; try reflexivity.
          cbn in Hi, Hs. apply negb_true_iff, memb_false in Hi. apply memb_In in Hs.
          rewrite (Hag v0 Hs). unfold eval. f_equal. apply Hst. auto. }
        rewrite exec_block_cons, (exec_pure w fuel st ninv e tr Hh), Hsame, Hpv.
        pose proof (pure_val_name _ _ _ _ _ Hpv) as Hd. cbn [defs_l]. rewrite Hd.
        assert (HxHS : In x HS) by (apply (Hhs st (or_introl eq_refl)); rewrite Hd; now left).
        assert (Hag' : agree w (x :: T) ((x, v) :: e) e').
        { intros y Hy. destruct (N.eq_dec y x) as [->|Ne].
          - rewrite !eval_var, lookup_cons_eq, (Hst x HxHS), Hlx. reflexivity.
          - rewrite <- (Hag y) by (destruct Hy; [congruence|assumption]). rewrite !eval_var. now rewrite lookup_cons_ne. }
        specialize (IH (x :: T) ninv h' i' n' ((x, v) :: e) e' tr Er).
        rewrite Hd in Hsc2. specialize (IH Hsc2).
        assert (Hinv' : forall v0, In v0 (x :: T) -> ~ In v0 ninv -> In v0 HS).
        { intros v0 [<-|Hv] Hn; auto. }
        specialize (IH Hinv' (fun s Hs => Hfix s (or_intror Hs)) (fun s Hs => Hhs s (or_intror Hs)) Hbi Hag' Hst).
        destruct (exec_block r ((x, v) :: e) tr) as [e1 t|v1 e1 t|t|t| | |]; cbn [walk_res] in *; auto.
        * destruct IH as (e1' & -> & Ha & Hs). exists e1'. split; [reflexivity|]. split; [|assumption].
          eapply agree_sub; eauto. intros y. rewrite !in_app_iff. cbn. tauto.
        * destruct IH as (e1' & -> & Ha & Hs). exists e1'. split; [reflexivity|]. split; [|assumption].
          eapply agree_sub; eauto. intros y Hy. now right.
      + (* kept: both sides run the same statement *)
        destruct (split r (ninv_after st ninv)) as [[h' i'] n'] eqn:Er. injection Hsp as <- <- <-.
        rewrite !exec_block_cons.
        pose proof (proj1 (exec_agree_both Wrap w fuel) st T e e' tr (proj1 scoped_scopedc_both st T Hsc1) Hag) as Hs.
        pose proof (frame_stmt Wrap w fuel st e' tr) as Hfr.
        assert (Hbst : forall x, In x (binders st) -> ~ In x HS).
        { intros x Hx. apply Hbi. cbn [binders_l]. apply in_or_app. now left. }
        pose proof (stable_frame _ _ _ Hst Hbst Hfr) as Hst1.
        destruct (exec st e tr) as [e1 t|v1 e1 t|t|t| | |] eqn:Ee; cbn [res_agree] in Hs.
        * destruct Hs as (e1' & Ee' & Ha1). rewrite Ee' in *. cbn in Hst1.
          assert (Hinv' : forall v0, In v0 (defs st ++ T) -> ~ In v0 (ninv_after st ninv) -> In v0 HS).
          { intros v0 Hv Hn. rewrite in_app_iff in Hv. destruct Hv as [Hv|Hv].
            - exfalso. apply Hn. now apply defs_ninv_after.
            - apply Hinv; auto. intros Hc. apply Hn. now apply ninv_after_mono. }
          assert (Hbi' : forall x, In x (binders_l i') -> ~ In x HS).
          { intros x Hx. apply Hbi. cbn [binders_l]. apply in_or_app. now right. }
          specialize (IH (defs st ++ T) (ninv_after st ninv) h' i' n' e1 e1' t Er Hsc2 Hinv' Hfix Hhs Hbi' Ha1 Hst1).
          destruct (exec_block r e1 t) as [e2 t2|v2 e2 t2|t2|t2| | |]; cbn [walk_res defs_l] in *; auto.
          -- destruct IH as (e2' & -> & Ha & Hs2). exists e2'. split; [reflexivity|]. split; [|assumption].
             eapply agree_sub; eauto. intros y. rewrite !in_app_iff. tauto.
          -- destruct IH as (e2' & -> & Ha & Hs2). exists e2'. split; [reflexivity|]. split; [|assumption].
             eapply agree_sub; eauto. intros y Hy. apply in_or_app. now right.
        * destruct Hs as (e1' & Ee' & Ha1). rewrite Ee' in *. cbn in Hst1. cbn. eauto.
        * now rewrite Hs.
        * now rewrite Hs.
        * now rewrite Hs.
        * now rewrite Hs.
        * now rewrite Hs.
  Qed.
End Licm.

(* ------------------------------------------------------------------ facts about the split *)
Lemma split_facts ss : forall T ninv h i n,
  split ss ninv = (h, i, n) -> scoped_l T ss = true -> NoDup (binders_l ss) ->
  (forall x, In x (binders_l ss) -> ~ In x T) ->
  Forall (fun st => exists nv, hoistable st nv = true) h /\
  (forall x, In x (names_of h) -> In x (binders_l ss)) /\
  (forall x, In x (binders_l i) -> In x (binders_l ss)) /\
  NoDup (names_of h) /\
  (forall x, In x (names_of h) -> ~ In x (binders_l i)) /\
  ops_ok h.
Proof.
  induction ss as [|st r IH]; intros T ninv h i n Hsp Hsc Hnd Hfr.
  - cbn in Hsp. injection Hsp as <- <- <-. cbn. repeat split; auto; try constructor; intros; contradiction.
  - cbn [split] in Hsp. cbn [scoped_l] in Hsc. apply andb_prop in Hsc. destruct Hsc as [Hsc1 Hsc2].
    cbn [binders_l] in *.
    assert (Hndr : NoDup (binders_l r)) by (eapply nd_app_r; eauto).
    assert (Hfr' : forall x, In x (binders_l r) -> ~ In x (defs st ++ T)).
    { intros x Hx. rewrite in_app_iff. intros [Hd|Ht].
      - apply (nd_app_disj _ _ x Hnd); auto. now apply defs_in_binders.
      - apply (Hfr x); auto. apply in_or_app. now right. }
    destruct (hoistable st ninv) eqn:Hh.
    + destruct (split r ninv) as [[h' i'] n'] eqn:Er. injection Hsp as <- <- <-.
      destruct (hoistable_defs _ _ Hh) as (x & Hd & Hb). rewrite Hb in *. rewrite Hd in *.
      destruct (IH (x :: T) ninv h' i' n' Er Hsc2 Hndr Hfr') as (F & Hn & Hi & Hnn & Hdj & Hop).
      cbn [names_of flat_map]. fold (names_of h'). rewrite Hd. cbn [app].
      split; [constructor; eauto|]. split; [intros y [<-|Hy]; [now left | right; auto]|].
      split; [intros y Hy; right; auto|].
      split; [constructor; auto; intros Hx; apply Hn in Hx; inversion Hnd; auto|].
      split.
      * intros y [<-|Hy]; [|auto]. intros Hx. apply Hi in Hx. inversion Hnd; auto.
      * cbn [ops_ok]. split; [|assumption]. intros v Hv. cbn [names_of flat_map]. fold (names_of h'). rewrite Hd. cbn [app].
        pose proof (scoped_operands _ _ _ _ Hh Hsc1 Hv) as Hs. cbn in Hs. apply memb_In in Hs.
        intros [<-|Hy].
        -- apply (Hfr x); auto. now left.
        -- apply (Hfr v); auto. right. auto.
    + destruct (split r (ninv_after st ninv)) as [[h' i'] n'] eqn:Er. injection Hsp as <- <- <-.
      destruct (IH (defs st ++ T) (ninv_after st ninv) h' i' n' Er Hsc2 Hndr Hfr') as (F & Hn & Hi & Hnn & Hdj & Hop).
      split; [assumption|]. split; [intros y Hy; apply in_or_app; right; auto|].
      split; [cbn [binders_l]; intros y Hy; rewrite in_app_iff in *; destruct Hy; auto|].
      split; [assumption|]. split; [|assumption].
      intros y Hy. cbn [binders_l]. rewrite in_app_iff. intros [Hb|Hb]; [|eapply Hdj; eauto].
      apply (nd_app_disj _ _ y Hnd); auto.
Qed.

Lemma loop_sim2 (Iv K : env -> env -> Prop) b b' next next' :
  (forall e e' tr, Iv e e' ->
     match b e tr with
     | RNext e1 t => exists e1', b' e' tr = RNext e1' t /\ Iv (next e1) (next' e1')
     | RBreak v e1 t => exists e1', b' e' tr = RBreak v e1' t /\ K e1 e1'
     | o => b' e' tr = o
     end) ->
  forall n e e' tr, Iv e e' ->
    match loop b next n e tr with
    | RBreak v e1 t => exists e1', loop b' next' n e' tr = RBreak v e1' t /\ K e1 e1'
    | RNext _ _ => True
    | o => loop b' next' n e' tr = o
    end.
Proof.
  intros Hs. induction n as [|n IH]; intros e e' tr HI; cbn; [reflexivity|].
  specialize (Hs e e' tr HI). destruct (b e tr) as [e1 t|v e1 t|t|t| | |].
  - destruct Hs as [e1' [-> HI']]. apply IH. exact HI'.
  - destruct Hs as [e1' [-> HK]]. eauto.
  - now rewrite Hs.
  - now rewrite Hs.
  - now rewrite Hs.
  - now rewrite Hs.
  - now rewrite Hs.
Qed.


Lemma hoisted_run' w fuel hs : forall en tr,
  Forall (fun st => exists nv, hoistable st nv = true) hs ->
  exec_block Wrap w fuel hs en tr = RNext (henv w hs en) tr.
Proof.
  induction hs as [|st r IH]; intros en tr F; [reflexivity|].
  inversion F as [|? ? [nv Hh] F']; subst.
  rewrite exec_block_cons, (exec_pure w fuel st nv en tr Hh). cbn [henv].
  destruct (pure_val w en st) as [b|] eqn:E; [|exfalso; eapply pure_nodiv; eauto]. now apply IH.
Qed.

(* ------------------------------------------------------------------ the theorem *)
Theorem licm_sound w fuel S lvs ss bc hoisted inner ninv en tr :
  licm lvs ss = (hoisted, inner, ninv) ->
  scoped S (SWhile lvs ss bc) = true ->
  NoDup (binders (SWhile lvs ss bc)) ->
  (forall x, In x (binders (SWhile lvs ss bc)) -> ~ In x S) ->
  match exec Wrap w fuel (SWhile lvs ss bc) en tr with
  | RNext e1 t => exists e1', exec_block Wrap w fuel (hoisted ++ [SWhile lvs inner bc]) en tr = RNext e1' t /\
                              agree w (opt_names bc ++ S) e1 e1'
  | o => exec_block Wrap w fuel (hoisted ++ [SWhile lvs inner bc]) en tr = o
  end.
Proof.
  intros Hl Hsc Hnd Hfr. rewrite licm_split in Hl.
  rewrite scoped_SWhile in Hsc. apply andb_prop in Hsc. destruct Hsc as [Hsc Hl2]. apply andb_prop in Hsc. destruct Hsc as [Hl1 Hss].
  rewrite binders_SWhile in Hnd, Hfr. set (LN := map t_name lvs) in *.
  assert (HndB : NoDup (binders_l ss)) by (eapply nd_app_l; eapply nd_app_r; eauto).
  assert (HfrB : forall x, In x (binders_l ss) -> ~ In x (LN ++ S)).
  { intros x Hx. rewrite in_app_iff. intros [H|H].
    - apply (nd_app_disj _ _ x Hnd); auto. apply in_or_app. now left.
    - apply (Hfr x); auto. apply in_or_app. right. apply in_or_app. now left. }
  destruct (split_facts ss (LN ++ S) (rev LN) hoisted inner ninv Hl Hss HndB HfrB) as (F & Hn & Hi & Hnn & Hdj & Hop).
  set (eh := henv w hoisted en). set (HS := names_of hoisted ++ S).
  (* the hoisted statements run first *)
  assert (Hrun : exec_block Wrap w fuel hoisted en tr = RNext eh tr) by (apply hoisted_run'; auto).
  rewrite exec_block_app, Hrun, exec_block_single.
  assert (Hfix : forall st, In st hoisted -> hfix w eh st).
  { apply henv_hfix; auto. intros st Hi'. rewrite Forall_forall in F. destruct (F st Hi') as [nv Hh].
    eapply pure_nodiv; eauto. }
  assert (HnLN : forall y, In y HS -> ~ In y LN).
  { intros y Hy Hl'. unfold HS in Hy. rewrite in_app_iff in Hy. destruct Hy as [Hy|Hy].
    - apply Hn in Hy. apply (nd_app_disj _ _ y Hnd); auto. apply in_or_app. now left.
    - apply (Hfr y); auto. apply in_or_app. now left. }
  assert (HSen : forall x, In x S -> lookup x eh = lookup x en).
  { intros x Hx. apply henv_outside. intros Hc. apply Hn in Hc. apply (Hfr x); auto.
    apply in_or_app. right. apply in_or_app. now left. }
  rewrite !exec_SWhile.
  pose (Iv := fun e e' : env => agree w (LN ++ S) e e' /\ stable HS eh e').
  pose proof (loop_sim2 Iv (agree w (LN ++ S)) (exec_block Wrap w fuel ss) (exec_block Wrap w fuel inner)
                (bind_e2 w lvs) (bind_e2 w lvs)) as HL.
  assert (Hstep : forall e e' t0, Iv e e' ->
            match exec_block Wrap w fuel ss e t0 with
            | RNext e1 t => exists e1', exec_block Wrap w fuel inner e' t0 = RNext e1' t /\ Iv (bind_e2 w lvs e1) (bind_e2 w lvs e1')
            | RBreak v e1 t => exists e1', exec_block Wrap w fuel inner e' t0 = RBreak v e1' t /\ agree w (LN ++ S) e1 e1'
            | o => exec_block Wrap w fuel inner e' t0 = o
            end).
  { intros e e' t0 [Ha Hs].
    pose proof (walk w fuel HS eh ss (LN ++ S) (rev LN) hoisted inner ninv e e' t0 Hl Hss) as HW.
    assert (H1 : forall v, In v (LN ++ S) -> ~ In v (rev LN) -> In v HS).
    { intros v Hv Hnv. rewrite in_app_iff in Hv. destruct Hv as [Hv|Hv]; [exfalso; apply Hnv; now apply -> in_rev|].
      unfold HS. apply in_or_app. now right. }
    assert (H2 : forall st, In st hoisted -> forall x, In x (defs st) -> In x HS).
    { intros st Hs' x Hx. unfold HS. apply in_or_app. left. unfold names_of. apply in_flat_map. eauto. }
    assert (H3 : forall x, In x (binders_l inner) -> ~ In x HS).
    { intros x Hx. unfold HS. rewrite in_app_iff. intros [Hc|Hc].
      - eapply Hdj; eauto.
      - apply (Hfr x); auto. apply in_or_app. right. apply in_or_app. left. auto. }
    specialize (HW H1 Hfix H2 H3 Ha Hs).
    destruct (exec_block Wrap w fuel ss e t0) as [e1 t|v e1 t|t|t| | |]; cbn [walk_res] in HW; auto.
    - destruct HW as (e1' & -> & Ha1 & Hs1). exists e1'. split; [reflexivity|]. split.
      + unfold bind_e2. rewrite forallb_forall in Hl2.
        apply (agree_bind w t_e2 lvs S (defs_l ss ++ LN ++ S)); auto.
        eapply agree_sub; eauto. intros x Hx. rewrite !in_app_iff. auto.
      + intros y Hy. unfold bind_e2. rewrite lookup_bind_notin by (now apply HnLN). now apply Hs1.
    - destruct HW as (e1' & -> & Ha1 & Hs1). eauto. }
  assert (Hinit : Iv (bind_e1 w lvs en) (bind_e1 w lvs eh)).
  { split.
    - unfold bind_e1. rewrite forallb_forall in Hl1. apply (agree_bind w t_e1 lvs S S); auto.
      + intros x Hx. rewrite !eval_var. f_equal. symmetry. now apply HSen.
      + intros x Hx. rewrite !eval_var. f_equal. symmetry. now apply HSen.
    - intros y Hy. unfold bind_e1. now rewrite lookup_bind_notin by (now apply HnLN). }
  specialize (HL Hstep fuel _ _ tr Hinit).
  destruct (loop (exec_block Wrap w fuel ss) (bind_e2 w lvs) fuel (bind_e1 w lvs en) tr) as [? ?|v e1 t|t|t| | |] eqn:EL;
    try (now rewrite HL).
  - exfalso. eapply loop_never_next; eauto.
  - destruct HL as (e1' & -> & Ha1). eexists. split; [reflexivity|].
    apply agree_bind_opt. eapply agree_sub; eauto. intros x Hx. apply in_or_app. now right.
Qed.
