(* C02loop — bridge: what loop-invariant code motion leaves is again a well-scoped single-assignment loop *)
From Coq Require Import ZArith NArith List Bool Lia.
Import ListNotations.
From SV Require Import Common.Int32 C02.Kernels C02deep.Syntax C02deep.Sem C02deep.Passes C02deep.ProofsSem
  C02deep.ProofsScope C02deep.ProofsDceSets C02deep.ProofsCcpRel C02deep.ProofsCcpFull
  C02loop.Analysis C02loop.Licm C02loop.Classes C02loop.ProofsBase C02loop.ProofsLicm.
Open Scope Z_scope.

Lemma in_binders_l x l : In x (binders_l l) <-> exists st, In st l /\ In x (binders st).
Proof.
  induction l as [|s r IH]; cbn [binders_l].
  - split; [intros [] | intros (st & [] & _)].
  - rewrite in_app_iff, IH. split.
    + intros [H|(st & Hs & H)]; [exists s; split; [now left | assumption] | exists st; split; [now right | assumption]].
    + intros (st & [<-|Hs] & H); [now left | right; eauto].
Qed.

Lemma split_wf ss : forall T ninv h i n,
  split ss ninv = (h, i, n) -> scoped_l T ss = true -> NoDup (binders_l ss) ->
  scoped_l (names_of h ++ T) i = true /\ NoDup (binders_l i) /\
  (forall x, In x (defs_l ss) -> In x (defs_l i ++ names_of h)) /\
  (forall x, In x ninv \/ In x (defs_l i) -> In x n) /\
  (forall st, In st i -> In st ss).
Proof.
  induction ss as [|st r IH]; intros T ninv h i n Hsp Hsc Hnd.
  - cbn in Hsp. injection Hsp as <- <- <-. cbn. repeat split; auto; try constructor; intros; tauto.
  - cbn [split] in Hsp. cbn [scoped_l] in Hsc. apply andb_prop in Hsc. destruct Hsc as [Hsc1 Hsc2].
    cbn [binders_l] in Hnd.
    assert (Hndr : NoDup (binders_l r)) by (eapply nd_app_r; eauto).
    destruct (hoistable st ninv) eqn:Hh.
    + destruct (split r ninv) as [[h' i'] n'] eqn:Er. injection Hsp as <- <- <-.
      destruct (hoistable_defs _ _ Hh) as (x & Hd & Hb). rewrite Hd in *.
      destruct (IH (x :: T) ninv h' i' n' Er Hsc2 Hndr) as (A1 & A2 & A3 & A4 & A5).
      cbn [names_of flat_map]. fold (names_of h'). rewrite Hd. cbn [app].
      split; [|split; [assumption|split; [|split; [assumption|]]]].
      * eapply scoped_l_mono; [|exact A1]. inc.
      * intros y Hy. cbn [defs_l] in Hy. rewrite Hd in Hy. apply in_app_iff in Hy. rewrite in_app_iff. cbn [In].
        destruct Hy as [Hy|[<-|[]]]; [|tauto]. apply A3 in Hy. apply in_app_iff in Hy. tauto.
      * intros s0 Hs0. right. auto.
    + destruct (split r (ninv_after st ninv)) as [[h' i'] n'] eqn:Er. injection Hsp as <- <- <-.
      destruct (IH (defs st ++ T) (ninv_after st ninv) h' i' n' Er Hsc2 Hndr) as (A1 & A2 & A3 & A4 & A5).
      split; [|split; [|split; [|split]]].
      * cbn [scoped_l]. apply andb_true_intro. split.
        -- eapply scoped_mono; [|exact Hsc1]. inc.
        -- eapply scoped_l_mono; [|exact A1]. inc.
      * cbn [binders_l]. apply nd_app_intro; [eapply nd_app_l; eauto | exact A2 |].
        intros y Hy1 Hy2. apply (nd_app_disj _ _ y Hnd); auto.
        apply in_binders_l in Hy2. destruct Hy2 as (s0 & Hs0 & Hy2). apply in_binders_l. exists s0. split; auto.
      * intros y Hy. cbn [defs_l] in Hy |- *. rewrite !in_app_iff in *. destruct Hy as [Hy|Hy]; [|tauto].
        apply A3 in Hy. rewrite in_app_iff in Hy. tauto.
      * intros y [Hy|Hy].
        -- apply A4. left. now apply ninv_after_mono.
        -- cbn [defs_l] in Hy. apply in_app_iff in Hy. destruct Hy as [Hy|Hy]; [apply A4; now right|].
           apply A4. left. now apply defs_ninv_after.
      * intros s0 [<-|Hs0]; [now left | right; auto].
Qed.

Lemma licm_inner_wf S lvs ss bc hoisted inner ninv :
  licm lvs ss = (hoisted, inner, ninv) ->
  scoped S (SWhile lvs ss bc) = true ->
  NoDup (binders (SWhile lvs ss bc)) ->
  (forall x, In x (binders (SWhile lvs ss bc)) -> ~ In x S) ->
  scoped (names_of hoisted ++ S) (SWhile lvs inner bc) = true /\
  NoDup (binders (SWhile lvs inner bc)) /\
  (forall x, In x (binders (SWhile lvs inner bc)) -> ~ In x (names_of hoisted ++ S)) /\
  (forall x, In x (map t_name lvs ++ defs_l inner) -> In x ninv) /\
  (forall x, In x (binders (SWhile lvs inner bc)) -> In x (binders (SWhile lvs ss bc))) /\
  (forall x, In x (names_of hoisted) -> In x (binders_l ss)) /\
  NoDup (names_of hoisted).
Proof.
  intros Hl Hsc Hnd Hfr. rewrite licm_split in Hl.
  rewrite scoped_SWhile in Hsc. apply andb_prop in Hsc. destruct Hsc as [Hsc Hl2]. apply andb_prop in Hsc. destruct Hsc as [Hl1 Hss].
  rewrite binders_SWhile in Hnd, Hfr. set (LN := map t_name lvs) in *.
  assert (HndB : NoDup (binders_l ss)) by (eapply nd_app_l; eapply nd_app_r; eauto).
  assert (HfrB : forall x, In x (binders_l ss) -> ~ In x (LN ++ S)).
  { intros x Hx. rewrite in_app_iff. intros [H|H].
    - apply (nd_app_disj _ _ x Hnd); auto. apply in_or_app. now left.
    - apply (Hfr x); auto. apply in_or_app. right. apply in_or_app. now left. }
  destruct (split_facts ss (LN ++ S) (rev LN) hoisted inner ninv Hl Hss HndB HfrB) as (F & Hn & Hi & Hnn & Hdj & Hop).
  destruct (split_wf ss (LN ++ S) (rev LN) hoisted inner ninv Hl Hss HndB) as (A1 & A2 & A3 & A4 & A5).
  assert (Hsub : forall x, In x (LN ++ binders_l inner ++ opt_names bc) -> In x (LN ++ binders_l ss ++ opt_names bc)).
  { intros x. rewrite !in_app_iff. intros [H|[H|H]]; auto. }
  split; [|split; [|split; [|split; [|split; [|split]]]]].
  - rewrite scoped_SWhile. apply andb_true_intro. split; [apply andb_true_intro; split|].
    + rewrite forallb_forall in *. intros t Ht. eapply in_scope_mono; [|apply Hl1; exact Ht]. inc.
    + eapply scoped_l_mono; [|exact A1]. fold LN. inc.
    + rewrite forallb_forall in *. intros t Ht. eapply in_scope_mono; [|apply Hl2; exact Ht]. fold LN.
      intros z Hz. rewrite !in_app_iff in Hz. rewrite !in_app_iff. destruct Hz as [Hz|[Hz|Hz]]; auto.
      apply A3 in Hz. rewrite in_app_iff in Hz. tauto.
  - rewrite binders_SWhile. fold LN. apply nd_app_intro; [eapply nd_app_l; eauto | apply nd_app_intro; [exact A2 | eapply nd_app_r; eapply nd_app_r; eauto |] |].
    + intros x H1 H2. apply (nd_app_disj _ _ x (nd_app_r _ _ Hnd)); auto.
    + intros x H1 H2. apply (nd_app_disj _ _ x Hnd); auto. rewrite in_app_iff in *. destruct H2; auto.
  - rewrite binders_SWhile. fold LN. intros x Hx Hc. apply in_app_iff in Hc. destruct Hc as [Hc|Hc]; [|apply (Hfr x); auto].
    rewrite !in_app_iff in Hx. destruct Hx as [Hx|[Hx|Hx]].
    + apply (nd_app_disj _ _ x Hnd); auto. apply in_or_app. left. auto.
    + apply (Hdj x Hc Hx).
    + apply (nd_app_disj _ _ x (nd_app_r _ _ Hnd)); auto.
  - intros x Hx. apply A4. apply in_app_iff in Hx. destruct Hx as [Hx|Hx]; [left; rewrite <- in_rev; exact Hx | now right].
  - rewrite !binders_SWhile. exact Hsub.
  - exact Hn.
  - exact Hnn.
Qed.
