(* C02loop — composition for one loop: the whole of optimize_while_statement_with_all_loop_optimizations *)
From Coq Require Import ZArith NArith List Bool Lia Morphisms Setoid Permutation.
Import ListNotations.
From SV Require Import Common.Int32 C02.Kernels C02.Proofs C02deep.Syntax C02deep.Sem C02deep.Passes C02deep.ProofsSem
  C02deep.ProofsScope C02deep.ProofsDceSets C02deep.ProofsDce
  C02loop.Analysis C02loop.Licm C02loop.Algebraic C02loop.StrengthIv C02loop.Driver
  C02loop.ProofsBase C02loop.ProofsLicm C02loop.ProofsAnalysis C02loop.ProofsExpand C02loop.ProofsAlgebraic C02loop.ProofsXloop
  C02loop.ProofsScopeX C02loop.ProofsInv C02loop.ProofsExtract C02loop.ProofsExtract2 C02loop.ProofsXstep C02loop.ProofsIve C02loop.ProofsSr
  C02loop.ProofsDefs C02loop.ProofsSrG C02loop.ProofsSupply C02loop.ProofsLicmWf.
From SV Require Import C02loop.ProofsBridge C02loop.ProofsChainSr C02loop.ProofsChainAlg.
Open Scope Z_scope.

(* the loop is outside the named classes (all clauses are static):
     - K_nested_break: the statement under the guard's `if` is a Break            (plain_break)
     - K_base_dropped: the bases of the derived induction variables stay loop variables, for the analysis
       result and for the one that reaches expand_optimizable_while_loop          (bases_kept)
     - C02-iv-elimination-guard (open finding): induction-variable elimination does not fire
     - the closed form is used only when the literals are 32-bit literals and the value with which the loop is
       left is representable (alg_lits, alg_exit_in32: otherwise the unoptimised loop overflows) *)
Definition o3_of (o2 : owl) : owl :=
  mkowl (o_basic o2) (o_general o2) (o_others o2) (o_derived o2)
        (filter (fun s => negb (is_handled (map gi_name (o_general o2)) s)) (o_stmts o2)) (o_bc o2).
Definition loop_outside (lvs : list triple) (ss : list stmt) (bc : option name) (sup : list name) : Prop :=
  let '(hoisted, inner, ninv) := licm lvs ss in
  match extract lvs inner bc ninv with
  | XOk o =>
      plain_break inner /\ bases_kept o /\
      match alg o sup with
      | Some _ => alg_lits o /\ alg_exit_in32 o
      | None =>
          ive o sup = None /\
          match sr o sup with
          | Some (_, o2, _) => bases_kept (o3_of o2)
          | None => True
          end
      end
  | _ => True
  end.

Lemma exec_block_app_next m w fuel a b en tr e1 t :
  exec_block m w fuel (a ++ b) en tr = RNext e1 t ->
  exists eh th, exec_block m w fuel a en tr = RNext eh th /\ exec_block m w fuel b eh th = RNext e1 t.
Proof. rewrite exec_block_app. destruct (exec_block m w fuel a en tr) as [eh th| | | | | |]; try discriminate. eauto. Qed.

Theorem loop_while_sound w fuel S lvs ss bc sup out sup' fl en en' tr :
  loop_while lvs ss bc sup = Some (out, sup', fl) -> sup' <> [] ->
  scoped S (SWhile lvs ss bc) = true ->
  NoDup (binders (SWhile lvs ss bc)) ->
  (forall x, In x (binders (SWhile lvs ss bc)) -> ~ In x S) ->
  NoDup sup -> (forall y, In y sup -> ~ In y S /\ ~ In y (binders (SWhile lvs ss bc))) ->
  loop_outside lvs ss bc sup ->
  agree w S en en' ->
  match exec Wrap w fuel (SWhile lvs ss bc) en tr with
  | RNext e1 t => exists e1', exec_block Wrap w fuel out en' tr = RNext e1' t /\ agree w (opt_names bc ++ S) e1 e1'
  | _ => True
  end.
Proof.
  intros Hlw Hne Hsc Hnd Hfr Hsnd Hsfr Hout Hag.
  (* the original loop from the other environment *)
  pose proof (proj1 (exec_agree_both Wrap w fuel) (SWhile lvs ss bc) S en en' tr (proj1 scoped_scopedc_both _ _ Hsc) Hag) as H0.
  destruct (exec Wrap w fuel (SWhile lvs ss bc) en tr) as [e1 t| | | | | |] eqn:E0; auto.
  cbn [res_agree defs] in H0. destruct H0 as (e1b & E0b & Ag0).
  assert (Goal' : exists e1', exec_block Wrap w fuel out en' tr = RNext e1' t /\ agree w (opt_names bc ++ S) e1b e1').
  2:{ destruct Goal' as (e1' & E & A). exists e1'. split; [exact E|]. eapply agree_trans; eauto. }
  clear E0 Ag0 Hag e1 en. rename E0b into E0.
  unfold loop_while, loop_while_v in Hlw. cbn [current fst snd] in Hlw.
  change (licm_g false) with licm in Hlw. change (extract_g false) with extract in Hlw.
  unfold loop_outside in Hout.
  destruct (licm lvs ss) as [[hoisted inner] ninv] eqn:El.
  pose proof (licm_sound w fuel S lvs ss bc hoisted inner ninv en' tr El Hsc Hnd Hfr) as HL. rewrite E0 in HL.
  destruct HL as (eL & EL & AgL).
  destruct (exec_block_app_next _ _ _ _ _ _ _ _ _ EL) as (eh & th & Eh & Ein). rewrite exec_block_single in Ein.
  destruct (licm_inner_wf S lvs ss bc hoisted inner ninv El Hsc Hnd Hfr) as (Hsc' & Hnd' & Hfr' & Hcov' & Hsubb & Hhn & _).
  set (S' := names_of hoisted ++ S) in *.
  assert (Hsfr' : forall y, In y sup -> ~ In y S' /\ ~ In y (binders (SWhile lvs inner bc))).
  { intros y Hy. destruct (Hsfr y Hy) as [A B]. split.
    - unfold S'. rewrite in_app_iff. intros [Hc|Hc]; [|contradiction]. apply B. rewrite binders_SWhile. apply in_or_app. right.
      apply in_or_app. left. now apply Hhn.
    - intros Hc. apply B. now apply Hsubb. }
  assert (Hsub : forall x, In x (opt_names bc ++ S) -> In x (opt_names bc ++ S')).
  { intros x. unfold S'. rewrite !in_app_iff. tauto. }
  destruct (extract lvs inner bc ninv) as [o| |] eqn:Ee; [| |discriminate].
  2:{ injection Hlw as <- <- <-. exists eL. split; [exact EL|]. exact AgL. }
  destruct Hout as (Hpb & Hbk & Hout).
  destruct (alg o sup) as [[stmts s1]|] eqn:Ea.
  - injection Hlw as <- <- <-. destruct Hout as [Hlits Hexit].
    destruct (chain_alg w fuel S' lvs inner bc ninv o sup stmts s1 eh th eL t Ee Hsc' Hnd' Hfr' Hcov' Hpb Ea Hlits Hexit Hne Hsfr' Ein)
      as (e2 & E2 & Ag2).
    exists e2. split.
    + rewrite exec_block_app, Eh. exact E2.
    + eapply agree_trans; [exact AgL|]. eapply agree_sub; eauto.
  - destruct Hout as [Hive Hout]. rewrite Hive in Hlw.
    destruct (sr o sup) as [[[pre2 o2] sup2]|] eqn:Es; [|discriminate].
    destruct (expand _ sup2) as [wl sup3] eqn:Ex. injection Hlw as <- <- <-.
    fold (o3_of o2) in Ex.
    pose proof (chain_sr w fuel S' lvs inner bc ninv o sup pre2 o2 sup2 eh th Ee Hsc' Hnd' Hfr' Hcov' Hpb Hbk Es) as HC.
    cbv zeta in HC. fold (o3_of o2) in HC. rewrite Ex in HC. cbn [fst snd] in HC.
    specialize (HC Hout Hne Hsnd Hsfr'). rewrite Ein in HC. destruct HC as (e2 & E2 & Ag2).
    exists e2. split.
    + cbn [app]. rewrite exec_block_app, Eh. exact E2.
    + eapply agree_trans; [exact AgL|]. eapply agree_sub; eauto.
Qed.
