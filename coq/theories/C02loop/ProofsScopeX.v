(* C02loop — two facts about scoping and use sets that the extraction theorem needs:
   - dead code elimination does not invent reads: the reads of its output are reads of its input;
   - a block stays well scoped when names that it never reads are removed from the scope. *)
From Coq Require Import ZArith NArith List Bool Lia.
Import ListNotations.
From SV Require Import Common.Int32 C02deep.Syntax C02deep.Sem C02deep.Passes C02deep.ProofsSem
  C02deep.ProofsDceSets.
Open Scope Z_scope.

Definition uses_opt (o : option stmt) : list name := match o with Some st => uses st [] | None => [] end.

Lemma dce_uses_sub_both :
  (forall st s x, In x (uses_opt (fst (dce_stmt st s))) -> In x (uses st [])) /\
  (forall ss s x, In x (uses_l (fst (dce_stmts ss s)) []) -> In x (uses_l ss [])).
Proof.
  apply stmt_stmts_ind2.
  - intros y op e1 e2 s x. cbn [dce_stmt]. destruct (negb (memb y s) && negb (is_divmod op)); cbn; auto. contradiction.
  - intros y e s x. cbn [dce_stmt]. destruct (negb (memb y s)); cbn; auto. contradiction.
  - intros y p e s x. cbn [dce_stmt]. destruct (negb (memb y s)); cbn; auto. contradiction.
  - intros f args ret s x. cbn. auto.
  - intros c s1 s2 fas H1 H2 s x. rewrite dce_SIf.
    destruct (dce_fas fas s) as [fas' sa] eqn:Ef. specialize (H1 sa x). destruct (dce_stmts s1 sa) as [s1' sb].
    specialize (H2 sb x). destruct (dce_stmts s2 sb) as [s2' sc]. cbn [fst] in *.
    destruct (is_nil s1' && is_nil s2' && is_nil fas'); cbn [fst uses_opt]; [contradiction|].
    rewrite !uses_SIf, !In_use_triples, (uses_l_spec s2'), (uses_l_spec s2), (uses_l_spec s1'), (uses_l_spec s1), !In_use_expr.
    destruct (dce_fas_spec _ _ _ _ Ef) as (_ & I2 & _).
    intros [[t [Ht Hu]]|[H|[H|[H|[]]]]]; eauto 6.
  - intros c inv ss H s x. rewrite dce_SSIf. specialize (H s x). destruct (dce_stmts ss s) as [ss' sa]. cbn [fst] in *.
    destruct (is_nil ss'); cbn [fst uses_opt]; [contradiction|].
    rewrite !uses_SSIf, (uses_l_spec ss'), (uses_l_spec ss), !In_use_expr. intros [Hx|Hx]; auto.
  - intros e s x. cbn. auto.
  - intros lvs ss bc H s x. rewrite dce_SWhile. cbn zeta.
    set (lvs1 := filter (fun t => memb (t_name t) (uses_l ss (use_triples lvs []))) lvs).
    specialize (H (use_e2s lvs1 s) x). destruct (dce_stmts ss (use_e2s lvs1 s)) as [ss' sb]. cbn [fst] in *.
    destruct (dce_lvs lvs1 sb) as [lvs2 sc] eqn:El. cbn [fst uses_opt].
    rewrite !uses_SWhile, (uses_l_spec ss'), (uses_l_spec ss), !In_use_triples.
    destruct (dce_lvs_spec _ _ _ _ El) as (_ & I2 & _).
    intros [Hx|[[t [Ht Hu]]|[]]]; auto. right. left. exists t. split; auto.
    specialize (I2 t Ht). unfold lvs1 in I2. apply filter_In in I2. tauto.
  - intros y tn es s x. cbn [dce_stmt]. destruct (negb (memb y s)); cbn; auto. contradiction.
  - intros y s x. cbn [dce_stmt]. destruct (negb (memb y s)); cbn; auto.
  - intros y e s x. cbn [dce_stmt]. destruct (negb (memb y s)); cbn; auto. contradiction.
  - intros s x. cbn. auto.
  - intros st r Hs Hr s x. cbn [dce_stmts]. specialize (Hr s x). destruct (dce_stmts r s) as [r' s1].
    specialize (Hs s1 x). destruct (dce_stmt st s1) as [o s2]. cbn [fst] in *.
    cbn [uses_l]. rewrite (uses_l_spec r). destruct o as [st'|]; cbn [uses_opt] in Hs.
    + cbn [uses_l]. rewrite (uses_l_spec r'). intros [Hx|Hx]; auto.
    + intros Hx. auto.
Qed.
Lemma dce_uses_sub ss s x : In x (uses_l (fst (dce_stmts ss s)) []) -> In x (uses_l ss []).
Proof. apply dce_uses_sub_both. Qed.

(* ---- removing unused names from the scope ---- *)
Lemma in_scope_restrict S S' e :
  in_scope S e = true -> (forall x, e = EVar x -> In x S -> In x S') -> in_scope S' e = true.
Proof. destruct e; try reflexivity. intros H Hi. apply in_scope_var. apply in_scope_var in H. auto. Qed.

Lemma forallb_in_scope_restrict S S' es :
  forallb (in_scope S) es = true -> (forall x, In (EVar x) es -> In x S -> In x S') -> forallb (in_scope S') es = true.
Proof.
  rewrite !forallb_forall. intros H Hi e He. eapply in_scope_restrict; eauto. intros x ->. auto.
Qed.

Lemma scoped_restrict_both :
  (forall st S S', scoped S st = true -> (forall x, In x S -> In x (uses st []) -> In x S') -> scoped S' st = true) /\
  (forall ss S S', scoped_l S ss = true -> (forall x, In x S -> In x (uses_l ss []) -> In x S') -> scoped_l S' ss = true).
Proof.
  apply stmt_stmts_ind2.
  - intros y op e1 e2 S S' H Hi. cbn in *. apply andb_prop in H. destruct H as [H1 H2].
    rewrite (in_scope_restrict S S' e1 H1), (in_scope_restrict S S' e2 H2); auto;
      intros x -> Hx; apply Hi; auto; rewrite !In_use_expr; auto.
  - intros y e S S' H Hi. cbn in *. eapply in_scope_restrict; eauto. intros x -> Hx. apply Hi; auto. rewrite In_use_expr. auto.
  - intros y p e S S' H Hi. cbn in *. eapply in_scope_restrict; eauto. intros x -> Hx. apply Hi; auto. rewrite In_use_expr. auto.
  - intros f args ret S S' H Hi. cbn in *. eapply forallb_in_scope_restrict; eauto. intros x Hx Hs. apply Hi; auto.
    rewrite In_use_exprs. auto.
  - intros c s1 s2 fas H1 H2 S S' H Hi. rewrite scoped_SIf in *.
    apply andb_prop in H. destruct H as [H Hf]. apply andb_prop in H. destruct H as [H Hb2].
    apply andb_prop in H. destruct H as [Hc Hb1].
    assert (Hu : forall x, In x (uses (SIf c s1 s2 fas) []) <->
                  (exists t, In t fas /\ triple_uses x t) \/ In x (uses_l s2 []) \/ In x (uses_l s1 []) \/ c = EVar x).
    { intros x. rewrite uses_SIf, In_use_triples, (uses_l_spec s2), (uses_l_spec s1), In_use_expr. cbn. tauto. }
    rewrite (in_scope_restrict S S' c Hc) by (intros x -> Hx; apply Hi; auto; apply Hu; auto).
    rewrite (H1 S S' Hb1) by (intros x Hx Hux; apply Hi; auto; apply Hu; auto).
    rewrite (H2 S S' Hb2) by (intros x Hx Hux; apply Hi; auto; apply Hu; auto).
    cbn [andb]. rewrite forallb_forall in *. intros t Ht. specialize (Hf t Ht). apply andb_prop in Hf. destruct Hf as [Hf1 Hf2].
    apply andb_true_intro. split.
    + eapply in_scope_restrict; eauto. intros x Ex Hx. rewrite in_app_iff in *. destruct Hx as [Hx|Hx]; auto.
      right. apply Hi; auto. apply Hu. left. exists t. unfold triple_uses. auto.
    + eapply in_scope_restrict; eauto. intros x Ex Hx. rewrite in_app_iff in *. destruct Hx as [Hx|Hx]; auto.
      right. apply Hi; auto. apply Hu. left. exists t. unfold triple_uses. auto.
  - intros c inv ss H S S' Hs Hi. rewrite scoped_SSIf in *. apply andb_prop in Hs. destruct Hs as [Hc Hs].
    assert (Hu : forall x, In x (uses (SSIf c inv ss) []) <-> In x (uses_l ss []) \/ c = EVar x).
    { intros x. rewrite uses_SSIf, (uses_l_spec ss), In_use_expr. cbn. tauto. }
    rewrite (in_scope_restrict S S' c Hc) by (intros x -> Hx; apply Hi; auto; apply Hu; auto).
    rewrite (H S S' Hs) by (intros x Hx Hux; apply Hi; auto; apply Hu; auto). reflexivity.
  - intros e S S' H Hi. cbn in *. eapply in_scope_restrict; eauto. intros x -> Hx. apply Hi; auto. rewrite In_use_expr. auto.
  - intros lvs ss bc H S S' Hs Hi. rewrite scoped_SWhile in *.
    apply andb_prop in Hs. destruct Hs as [Hs Hl2]. apply andb_prop in Hs. destruct Hs as [Hl1 Hss].
    assert (Hu : forall x, In x (uses (SWhile lvs ss bc) []) <-> In x (uses_l ss []) \/ exists t, In t lvs /\ triple_uses x t).
    { intros x. rewrite uses_SWhile, (uses_l_spec ss), In_use_triples. cbn. tauto. }
    apply andb_true_intro. split; [apply andb_true_intro; split|].
    + rewrite forallb_forall in *. intros t Ht. eapply in_scope_restrict; eauto. intros x Ex Hx. apply Hi; auto.
      apply Hu. right. exists t. unfold triple_uses. auto.
    + apply (H (map t_name lvs ++ S)); auto. intros x Hx Hux. rewrite in_app_iff in *. destruct Hx as [Hx|Hx]; auto.
      right. apply Hi; auto. apply Hu. auto.
    + rewrite forallb_forall in *. intros t Ht. eapply in_scope_restrict; eauto. intros x Ex Hx.
      rewrite !in_app_iff in *. destruct Hx as [Hx|[Hx|Hx]]; auto. right. right. apply Hi; auto.
      apply Hu. right. exists t. unfold triple_uses. auto.
  - intros y tn es S S' H Hi. cbn in *. eapply forallb_in_scope_restrict; eauto. intros x Hx Hs. apply Hi; auto.
    rewrite In_use_exprs. auto.
  - intros y S S' H _. cbn in *. discriminate || exact H.
  - intros y e S S' H _. cbn in *. discriminate || exact H.
  - intros S S' _ _. reflexivity.
  - intros st r Hs Hr S S' H Hi. cbn [scoped_l] in *. apply andb_prop in H. destruct H as [H1 H2].
    assert (Hu : forall x, In x (uses_l (st :: r) []) <-> In x (uses_l r []) \/ In x (uses st [])).
    { intros x. cbn [uses_l]. rewrite (uses_l_spec r). tauto. }
    rewrite (Hs S S' H1) by (intros x Hx Hux; apply Hi; auto; apply Hu; auto).
    rewrite (Hr (defs st ++ S) (defs st ++ S') H2); [reflexivity|].
    intros x Hx Hux. rewrite in_app_iff in *. destruct Hx as [Hx|Hx]; auto. right. apply Hi; auto. apply Hu. auto.
Qed.
Lemma scoped_l_restrict ss S S' :
  scoped_l S ss = true -> (forall x, In x S -> In x (uses_l ss []) -> In x S') -> scoped_l S' ss = true.
Proof. apply scoped_restrict_both. Qed.
