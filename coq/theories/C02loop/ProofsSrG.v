(* C02loop — strength reduction, general case: the body may still bind reduced variables (a reader kept the
   defining statement alive through the dead code elimination); the driver deletes those statements and the readers
   read the new loop variables. *)
From Coq Require Import ZArith NArith List Bool Lia Morphisms Setoid.
Import ListNotations.
From SV Require Import Common.Int32 C02.Kernels C02.Proofs C02deep.Syntax C02deep.Sem C02deep.Passes C02deep.ProofsSem
  C02deep.ProofsScope C02deep.ProofsDceSets C02deep.ProofsDce
  C02loop.Analysis C02loop.Algebraic C02loop.StrengthIv C02loop.Driver
  C02loop.ProofsBase C02loop.ProofsAnalysis C02loop.ProofsExpand C02loop.ProofsAlgebraic C02loop.ProofsXloop
  C02loop.ProofsScopeX C02loop.ProofsInv C02loop.ProofsExtract C02loop.ProofsExtract2 C02loop.ProofsXstep C02loop.ProofsIve C02loop.ProofsSr.
From SV Require Import C02loop.ProofsDefs.
Open Scope Z_scope.

(* ---- facts about the filter of the driver ---- *)
Definition filterh (H : set) (l : list stmt) : list stmt := filter (fun s => negb (is_handled H s)) l.
Lemma filterh_in H l st : In st (filterh H l) -> In st l /\ is_handled H st = false.
Proof. unfold filterh. intros Hi. apply filter_In in Hi. destruct Hi as [A B]. split; auto. now apply negb_true_iff in B. Qed.
Lemma filterh_binders H l x : In x (binders_l (filterh H l)) -> In x (binders_l l).
Proof.
  induction l as [|st r IH]; cbn; [auto|]. destruct (negb (is_handled H st)); cbn; rewrite !in_app_iff; [intros [A|A]; auto | auto].
Qed.
Lemma filterh_uses H l x : In x (uses_l (filterh H l) []) -> In x (uses_l l []).
Proof.
  induction l as [|st r IH]; cbn [filterh filter uses_l]; [auto|]. fold (filterh H r).
  rewrite (uses_l_spec r). destruct (negb (is_handled H st)); cbn [uses_l]; [rewrite (uses_l_spec (filterh H r))|]; intros; intuition.
Qed.
Lemma filterh_uses_in H l st x : In st (filterh H l) -> In x (uses st []) -> In x (uses_l (filterh H l) []).
Proof.
  induction (filterh H l) as [|s0 r IH]; [contradiction|]. cbn [uses_l]. rewrite (uses_l_spec r).
  intros [->|Hi] Hu; auto.
Qed.
Lemma filterh_defs H l x : In x (defs_l l) -> (forall st, In st l -> is_handled H st = true -> ~ In x (defs st)) -> In x (defs_l (filterh H l)).
Proof.
  induction l as [|st r IH]; cbn [defs_l filterh filter]; [auto|]. fold (filterh H r). rewrite in_app_iff. intros Hx Hh.
  assert (Hr : forall st0, In st0 r -> is_handled H st0 = true -> ~ In x (defs st0)) by (intros s0 A B; apply Hh; [now right | exact B]).
  destruct (is_handled H st) eqn:E; cbn [negb defs_l].
  - destruct Hx as [Hx|Hx]; [now apply IH|]. exfalso. apply (Hh st); auto. now left.
  - rewrite in_app_iff. destruct Hx as [Hx|Hx]; [left; now apply IH | now right].
Qed.
Lemma binders_l_app' a b : binders_l (a ++ b) = binders_l a ++ binders_l b.
Proof. induction a; cbn; auto. now rewrite IHa, app_assoc. Qed.
Lemma filterh_app H a b : filterh H (a ++ b) = filterh H a ++ filterh H b.
Proof. unfold filterh. induction a; cbn; auto. destruct (negb (is_handled H a)); cbn; now rewrite IHa. Qed.

(* the reading hypotheses for the general case: `scoped` instead of the relaxed `scopedc` for the body *)
Definition owl_reads_s (T0 : list name) (o : owl) : Prop :=
  scoped_l (kept_all o ++ T0) (o_stmts o) = true /\
  (forall k y, In k (o_others o) -> t_e2 k = EVar y -> In y (defs_l (o_stmts o) ++ o_DN o ++ kept_all o ++ T0)) /\
  in_scope (kept_all o ++ T0) (bv_of o) = true /\
  (forall d, In d (o_derived o) -> In (dn_base d) (o_i o :: map gi_name (kept_generals o))) /\
  (forall x, (bg_init (o_basic o) = EVar x \/ (exists g, In g (o_general o) /\ gi_init g = EVar x) \/
              (exists k, In k (o_others o) /\ t_e1 k = EVar x)) -> In x T0).

(* every defining statement of a reduced variable that is still in the body computes multiplier * base + immediate
   (base, multiplier, immediate read where the body starts): the analysis fact C02loop_derived_sound, for the body
   after the dead code elimination *)
Definition reduced_defs_affine (w : world) (fuel : nat) (o : owl) (ss : list srd) : Prop :=
  forall p d op x y q s a0 tr0 a1 t,
    o_stmts o = p ++ SBin d op x y :: q -> In s ss -> d = dn_name (sd_d s) ->
    exec_block Wrap w fuel p a0 tr0 = RNext a1 t ->
    exists v, rt_binop op (eval w a1 x) (eval w a1 y) = Val v /\
              eq32 v (pv w a0 (dn_mult (sd_d s)) * lookup (dn_base (sd_d s)) a0 + pv w a0 (dn_imm (sd_d s))).

Section SrG.
  Variables (w : world) (fuel : nat) (T0 : list name) (o : owl) (ss : list srd) (rem : list divn).
  Variables (collA ccA : name) (nsA tsA : list name) (collB ccB : name) (nsB tsB : list name).
  Variable en : env.

  Let i := o_i o.
  Let stmts := o_stmts o.
  Let oB := sr_owl o ss rem.
  Let HN := map gi_name (o_general o ++ map sd_giv ss).
  Let stmtsB := filterh HN stmts.
  Let pre := flat_map sd_pre ss.
  Let PT := flat_map (fun s => [sd_t1 s; sd_t2 s]) ss.
  Let TB := map sd_t2 ss ++ T0.
  Let SN := map (fun s => dn_name (sd_d s)) ss.
  Let FA := collA :: ccA :: nsA ++ tsA.
  Let FB := collB :: ccB :: nsB ++ tsB.

  Hypothesis Hrel : sr_rel (sr_bmap o) (o_derived o) ss rem.
  Hypothesis HwfA : owl_wf T0 o.
  Hypothesis Hreads : owl_reads_s T0 o.
  (* after the filter no statement binds a reduced variable any more (they were bound by top-level binary
     statements only) *)
  Hypothesis Hnb : forall x, In x SN -> ~ In x (binders_l stmtsB).
  (* the remaining derived variables are recomputed from induction variables that the reduced loop keeps *)
  Hypothesis HbaseB : forall d, In d rem -> In (dn_base d) (o_i oB :: map gi_name (kept_generals oB)).
  Hypothesis Hdef : reduced_defs_affine w fuel o ss.
  Hypothesis HfA : fresh_for T0 o FA.
  Hypothesis HfB : fresh_for (PT ++ T0) o FB.
  Hypothesis HfP : fresh_for T0 o PT.
  Hypothesis HlenA : length nsA = length (kept_generals o) /\ length tsA = length (o_derived o).
  Hypothesis HlenB : length nsB = length (kept_generals oB) /\ length tsB = length (o_derived oB).

  Lemma oB_stmts : o_stmts oB = stmtsB. Proof. reflexivity. Qed.
  Lemma stmtsB_binders x : In x (binders_l stmtsB) -> In x (binders_l stmts).
  Proof. apply filterh_binders. Qed.

  (* ---- names ---- *)
  Lemma ss_d s : In s ss -> In (sd_d s) (o_derived o) /\ assoc (dn_base (sd_d s)) (sr_bmap o) = Some (sd_base s) /\
                            merge_mul (gi_inc (sd_base s)) (dn_mult (sd_d s)) = Some (sd_added s).
  Proof. apply (sr_rel_ss _ _ _ _ Hrel). Qed.
  Lemma SN_in_DN x : In x SN -> In x (o_DN o).
  Proof. unfold SN. intros H. apply in_map_iff in H. destruct H as (s & <- & Hs). unfold o_DN. apply in_map. now apply ss_d. Qed.
  Lemma rem_in d : In d rem -> In d (o_derived o).
  Proof. apply (sr_rel_rem _ _ _ _ Hrel). Qed.
  Lemma DN_nodup : NoDup (map dn_name (o_derived o)). Proof. destruct HwfA as (_ & H & _). exact H. Qed.
  Lemma SN_nodup : NoDup SN. Proof. apply (sr_rel_nodup _ _ _ _ Hrel DN_nodup). Qed.
  Lemma rem_nodup : NoDup (map dn_name rem). Proof. apply (sr_rel_nodup _ _ _ _ Hrel DN_nodup). Qed.
  Lemma SN_rem x : In x SN -> ~ In x (map dn_name rem).
  Proof.
    intros H Hc. unfold SN in H. apply in_map_iff in H. destruct H as (s & <- & Hs).
    apply in_map_iff in Hc. destruct Hc as (d & E & Hd).
    destruct (sr_rel_nodup _ _ _ _ Hrel DN_nodup) as (_ & _ & N3). now apply (N3 s d Hs Hd).
  Qed.
  Lemma sd_base_facts s : In s ss ->
    gi_name (sd_base s) = dn_base (sd_d s) /\
    (In (sd_base s) (o_general o) \/ (sd_base s = as_giv (o_basic o) /\ dn_base (sd_d s) = i)).
  Proof.
    intros Hs. destruct (ss_d s Hs) as (Hd & Ha & _). destruct (sr_bmap_spec _ _ _ Ha) as [E [Hg|[Hb Hn]]]; split; auto.
    right. split; auto. rewrite Hb in E. cbn in E. symmetry. exact E.
  Qed.

  Lemma wf_out x : In x (o_LN o ++ o_DN o ++ binders_l stmts) -> ~ In x T0.
  Proof. destruct HwfA as (_ & _ & H & _). apply H. Qed.
  Lemma wf_dl x : In x (o_DN o ++ binders_l stmts) -> ~ In x (o_LN o).
  Proof. destruct HwfA as (_ & _ & _ & H & _). apply H. Qed.
  Lemma wf_inv v : o_invvar o v -> In v T0.
  Proof. destruct HwfA as (_ & _ & _ & _ & H & _). apply H. Qed.
  Lemma PT_facts y : In y PT -> ~ In y T0 /\ ~ In y (o_LN o) /\ ~ In y (o_DN o) /\ ~ In y (binders_l stmts).
  Proof. intros Hy. destruct (proj2 HfP y Hy) as [H1 H2]. repeat split; auto; intros Hc; apply H2; rewrite !in_app_iff; auto. Qed.
  Lemma t2_PT s : In s ss -> In (sd_t2 s) PT /\ In (sd_t1 s) PT.
  Proof. intros Hs. unfold PT. split; apply in_flat_map; exists s; cbn; auto. Qed.
  Lemma TB_cases v : In v TB -> In v PT \/ In v T0.
  Proof.
    unfold TB. rewrite in_app_iff. intros [H|H]; auto. left. apply in_map_iff in H. destruct H as (s & <- & Hs). now apply t2_PT.
  Qed.

  Lemma oB_LN x : In x (o_LN oB) <-> In x (o_LN o) \/ In x SN.
  Proof.
    unfold o_LN, o_GN, o_ON, o_i. unfold oB, sr_owl; cbn [o_basic o_general o_others o_derived o_stmts o_bc]. rewrite map_app, map_map. cbn [sd_giv gi_name].
    fold SN. cbn [In]. rewrite !in_app_iff. tauto.
  Qed.

  Lemma wfB : owl_wf TB oB.
  Proof.
    destruct HwfA as (Hnd & Hdn & Hout & Hdl & Hinv & Hbase).
    unfold owl_wf. repeat split.
    - (* loop variable names *)
      unfold o_LN, o_GN, o_ON, o_i in *. unfold oB, sr_owl; cbn [o_basic o_general o_others o_derived o_stmts o_bc]. rewrite map_app, map_map. cbn [sd_giv gi_name]. fold SN.
      inversion Hnd as [|? ? Hni Hnd']; subst. constructor.
      + rewrite !in_app_iff. intros [[H|H]|H].
        * apply Hni. apply in_or_app. now left.
        * apply (wf_dl (bg_name (o_basic o))); [apply in_or_app; left; now apply SN_in_DN | unfold o_LN; now left].
        * apply Hni. apply in_or_app. now right.
      + rewrite <- app_assoc. apply nd_app_intro; [eapply nd_app_l; eauto| |].
        * apply nd_app_intro; [apply SN_nodup | eapply nd_app_r; eauto|].
          intros x H1 H2. apply (wf_dl x); [apply in_or_app; left; now apply SN_in_DN|]. unfold o_LN. right. apply in_or_app. now right.
        * intros x H1 H2. apply in_app_iff in H2. destruct H2 as [H2|H2].
          -- apply (wf_dl x); [apply in_or_app; left; now apply SN_in_DN|]. unfold o_LN. right. apply in_or_app. now left.
          -- apply (nd_app_disj _ _ x Hnd'); auto.
    - exact rem_nodup.
    - intros x Hx Hc. apply TB_cases in Hc.
      assert (Hx' : In x (o_LN o ++ o_DN o ++ binders_l stmts)).
      { rewrite !in_app_iff in *. destruct Hx as [Hx|[Hx|Hx]].
        - apply oB_LN in Hx. destruct Hx as [Hx|Hx]; [now left | right; left; now apply SN_in_DN].
        - right. left. unfold o_DN in *. unfold oB, sr_owl in Hx; cbn [o_basic o_general o_others o_derived o_stmts o_bc] in Hx. apply in_map_iff in Hx. destruct Hx as (d & <- & Hd).
          apply in_map. now apply rem_in.
        - right. right. now apply stmtsB_binders. }
      destruct Hc as [Hc|Hc]; [|now apply (Hout x)].
      destruct (proj2 HfP x Hc) as [_ H2]. contradiction.
    - intros x Hx Hc. apply oB_LN in Hc. apply in_app_iff in Hx. destruct Hx as [Hx|Hx].
      + unfold o_DN in Hx. unfold oB, sr_owl in Hx; cbn [o_basic o_general o_others o_derived o_stmts o_bc] in Hx. destruct Hc as [Hc|Hc].
        * apply (Hdl x); auto. apply in_or_app. left. apply in_map_iff in Hx. destruct Hx as (d & <- & Hd). unfold o_DN. apply in_map. now apply rem_in.
        * now apply (SN_rem x Hc).
      + destruct Hc as [Hc|Hc]; [apply (Hdl x); auto; apply in_or_app; right; now apply stmtsB_binders | now apply (Hnb x Hc)].
    - intros v Hv. unfold TB. apply in_or_app. right. unfold o_invvar in Hv. unfold oB, sr_owl in Hv; cbn [o_basic o_general o_others o_derived o_stmts o_bc] in Hv.
      destruct Hv as [Hv|[Hv|[(g & Hg & Hv)|(d & Hd & Hv)]]].
      + apply Hinv. now left.
      + apply Hinv. right. now left.
      + apply in_app_iff in Hg. destruct Hg as [Hg|Hg]; [apply Hinv; right; right; left; eauto|].
        apply in_map_iff in Hg. destruct Hg as (s & <- & Hs). cbn in Hv. destruct (ss_d s Hs) as (Hd & Ha & Hm).
        destruct (merge_mul_pvar _ _ _ _ Hm Hv) as [H|H].
        * destruct (sd_base_facts s Hs) as [_ [Hg|[Hb _]]].
          -- apply Hinv. right. right. left. eauto.
          -- apply Hinv. left. rewrite Hb in H. exact H.
        * apply Hinv. right. right. right. eauto.
      + apply Hinv. right. right. right. exists d. split; auto. now apply rem_in.
    - intros d Hd. unfold oB, sr_owl in Hd; cbn [o_basic o_general o_others o_derived o_stmts o_bc] in Hd. specialize (Hbase d (rem_in d Hd)).
      unfold o_i, o_GN in *. unfold oB, sr_owl; cbn [o_basic o_general o_others o_derived o_stmts o_bc]. rewrite map_app. destruct Hbase as [E|Hb]; [now left|]. right. apply in_or_app. now left.
  Qed.

  (* ---- the reduced loop keeps fewer of the old loop variables, plus the useful reduced ones ---- *)
  Lemma bv_B : bv_of oB = bv_of o. Proof. reflexivity. Qed.
  Lemma useful_B_spec x :
    In x (useful_of oB) <->
    In x (uses_l stmtsB []) \/ (exists t, In t (o_others o) /\ t_e2 t = EVar x) \/ bv_of o = EVar x \/ x = i.
  Proof. rewrite useful_spec. reflexivity. Qed.
  Lemma useful_B_sub x : In x (useful_of oB) -> In x (useful_of o).
  Proof.
    rewrite useful_B_spec, useful_spec. fold i. intros [H|H]; [left; now apply (filterh_uses HN) | now right].
  Qed.
  Lemma filter_app' {A} (p : A -> bool) l1 l2 : filter p (l1 ++ l2) = filter p l1 ++ filter p l2.
  Proof. induction l1; cbn; auto. destruct (p a); cbn; now rewrite IHl1. Qed.
  Let keptO := filter (fun v => memb (t_name v) (useful_of oB)) (o_others o).
  Let keptG := filter (fun v => memb (gi_name v) (useful_of oB)) (o_general o).
  Let keptN := filter (fun v => memb (gi_name v) (useful_of oB)) (map sd_giv ss).
  Lemma kept_generals_B : kept_generals oB = keptG ++ keptN.
  Proof. unfold kept_generals. unfold oB at 2, sr_owl. cbn [o_general]. apply filter_app'. Qed.
  Lemma keptG_A g : In g keptG -> In g (kept_generals o).
  Proof.
    unfold keptG, kept_generals. intros H. apply filter_In in H. destruct H as [H1 H2]. apply filter_In. split; auto.
    apply memb_In. apply useful_B_sub. now apply memb_In.
  Qed.
  Lemma keptO_A k : In k keptO -> In k (o_others o) /\ In (t_name k) (useful_of o) /\ In (t_name k) (useful_of oB).
  Proof.
    unfold keptO. intros H. apply filter_In in H. destruct H as [H1 H2]. apply memb_In in H2. repeat split; auto. now apply useful_B_sub.
  Qed.

  (* ---- invariant operands ---- *)
  Definition stab (e : env) : Prop := forall v, In v T0 -> lookup v e = lookup v en.
  Lemma pv_stab e p : stab e -> (forall v, p = PVar v -> In v T0) -> pv w e p = pv w en p.
  Proof. intros Hs Hp. destruct p as [z|v]; [reflexivity|]. rewrite !pv_var. f_equal. apply Hs. now apply Hp. Qed.
  Lemma ev_stab e a : stab e -> (forall v, a = EVar v -> In v T0) -> eval w e a = eval w en a.
  Proof. intros Hs Hp. destruct a as [| | |v]; try reflexivity. rewrite !eval_var. f_equal. apply Hs. now apply Hp. Qed.
  Lemma stab_cons e x v : stab e -> ~ In x T0 -> stab ((x, v) :: e).
  Proof. intros Hs Hx y Hy. rewrite lookup_cons_ne; [now apply Hs|]. intros ->. contradiction. Qed.

  Lemma inv_d d v : In d (o_derived o) -> dn_mult d = PVar v \/ dn_imm d = PVar v -> In v T0.
  Proof. intros Hd E. apply wf_inv. right. right. right. exists d. auto. Qed.
  Lemma inv_base_inc s v : In s ss -> gi_inc (sd_base s) = PVar v -> In v T0.
  Proof.
    intros Hs E. apply wf_inv. destruct (sd_base_facts s Hs) as [_ [Hg|[Hb _]]].
    - right. right. left. eauto.
    - left. rewrite Hb in E. exact E.
  Qed.
  Lemma inv_base_init s v : In s ss -> gi_init (sd_base s) = EVar v -> In v T0.
  Proof.
    intros Hs E. destruct Hreads as (_ & _ & _ & _ & Hin). apply Hin. destruct (sd_base_facts s Hs) as [_ [Hg|[Hb _]]].
    - right. left. eauto.
    - left. rewrite Hb in E. exact E.
  Qed.
  Lemma inv_added s v : In s ss -> sd_added s = PVar v -> In v T0.
  Proof.
    intros Hs E. destruct (ss_d s Hs) as (Hd & _ & Hm). destruct (merge_mul_pvar _ _ _ _ Hm E) as [H|H].
    - eapply inv_base_inc; eauto.
    - eapply inv_d; eauto.
  Qed.

  (* ---- the prefix statements ---- *)
  Fixpoint penv (l : list srd) (e : env) : env :=
    match l with
    | [] => e
    | s :: r =>
        let e1 := (sd_t1 s, wrap32 (eval w e (pli_expr (dn_mult (sd_d s))) * eval w e (gi_init (sd_base s)))) :: e in
        penv r ((sd_t2 s, wrap32 (eval w e1 (pli_expr (dn_imm (sd_d s))) + eval w e1 (EVar (sd_t1 s)))) :: e1)
    end.
  Lemma exec_pre_list l : forall e tr, exec_block Wrap w fuel (flat_map sd_pre l) e tr = RNext (penv l e) tr.
  Proof.
    induction l as [|s r IH]; intros e tr; [reflexivity|]. cbn [flat_map sd_pre app].
    rewrite exec_block_cons, exec_bin_flex, exec_mul_wrap, exec_block_cons, exec_bin_flex, exec_plus_wrap. apply IH.
  Qed.
  Lemma penv_out l : forall e y, ~ In y (flat_map (fun s => [sd_t1 s; sd_t2 s]) l) -> lookup y (penv l e) = lookup y e.
  Proof.
    induction l as [|s r IH]; intros e y Hy; [reflexivity|]. cbn [penv]. cbn in Hy.
    rewrite IH by tauto. rewrite !lookup_cons_ne; [reflexivity| |]; intros ->; tauto.
  Qed.
  Lemma penv_t2 l : forall e s,
    (forall s0, In s0 l -> In s0 ss) -> NoDup (flat_map (fun s => [sd_t1 s; sd_t2 s]) l) ->
    stab e -> In s l ->
    eq32 (lookup (sd_t2 s) (penv l e))
         (pv w en (dn_mult (sd_d s)) * eval w en (gi_init (sd_base s)) + pv w en (dn_imm (sd_d s))).
  Proof.
    induction l as [|s0 r IH]; intros e s Hsub Hnd Hs Hi; [contradiction|]. cbn [penv].
    cbn [flat_map app] in Hnd. inversion Hnd as [|? ? Hn1 Hnd1]; subst. inversion Hnd1 as [|? ? Hn2 Hnd2]; subst.
    assert (Hs0 : In s0 ss) by (apply Hsub; now left).
    destruct (t2_PT s0 Hs0) as [P2 P1]. destruct (PT_facts _ P1) as (F1 & _). destruct (PT_facts _ P2) as (F2 & _).
    set (e1 := (sd_t1 s0, _) :: e). set (e2 := (sd_t2 s0, _) :: e1).
    assert (S1 : stab e1) by (apply stab_cons; auto). assert (S2 : stab e2) by (apply stab_cons; auto).
    destruct Hi as [->|Hi].
    - rewrite penv_out by assumption. unfold e2. rewrite lookup_cons_eq, eq32_wrap.
      destruct (ss_d s Hs0) as (Hd & _).
      change (eval w e1 (pli_expr (dn_imm (sd_d s)))) with (pv w e1 (dn_imm (sd_d s))).
      rewrite (pv_stab e1 _ S1) by (intros v E; eapply inv_d; eauto).
      rewrite eval_var. unfold e1 at 1. rewrite lookup_cons_eq, !eq32_wrap.
      change (eval w e (pli_expr (dn_mult (sd_d s)))) with (pv w e (dn_mult (sd_d s))).
      rewrite (pv_stab e _ Hs) by (intros v E; eapply inv_d; eauto).
      rewrite (ev_stab e _ Hs) by (intros v E; eapply inv_base_init; eauto). apply eq32_eq. ring.
    - apply IH; auto. intros s1 H1. apply Hsub. now right.
  Qed.

  Let C := i :: map t_name keptO ++ map gi_name keptG.
  Let enp := penv ss en.
  Let mS (s : srd) := pv w en (dn_mult (sd_d s)).
  Let cS (s : srd) := pv w en (dn_imm (sd_d s)).

  Lemma HndA : NoDup (collA :: ccA :: nsA ++ tsA). Proof. apply HfA. Qed.
  Lemma HoutA y : In y (collA :: ccA :: nsA ++ tsA) -> ~ In y T0 /\ ~ In y (o_LN o ++ o_DN o ++ binders_l (o_stmts o)).
  Proof. apply HfA. Qed.
  Lemma HndB : NoDup (collB :: ccB :: nsB ++ tsB). Proof. apply HfB. Qed.
  Lemma LNB_in x : In x (o_LN oB ++ o_DN oB ++ binders_l (o_stmts oB)) -> In x (o_LN o ++ o_DN o ++ binders_l stmts).
  Proof.
    rewrite !in_app_iff. intros [H|[H|H]].
    - apply oB_LN in H. destruct H as [H|H]; [now left | right; left; now apply SN_in_DN].
    - right. left. unfold o_DN in *. unfold oB, sr_owl in H; cbn [o_derived] in H. apply in_map_iff in H. destruct H as (d & <- & Hd). apply in_map. now apply rem_in.
    - right. right. now apply stmtsB_binders.
  Qed.
  Lemma HoutB y : In y (collB :: ccB :: nsB ++ tsB) -> ~ In y TB /\ ~ In y (o_LN oB ++ o_DN oB ++ binders_l (o_stmts oB)).
  Proof.
    intros Hy. destruct (proj2 HfB y Hy) as [H1 H2]. split.
    - intros Hc. apply TB_cases in Hc. apply H1. apply in_or_app. tauto.
    - intros Hc. apply H2. now apply LNB_in.
  Qed.
  Lemma FA_facts y : In y FA -> ~ In y T0 /\ ~ In y (o_LN o) /\ ~ In y (o_DN o) /\ ~ In y (binders_l stmts).
  Proof. intros Hy. destruct (HoutA y Hy) as [H1 H2]. repeat split; auto; intros Hc; apply H2; rewrite !in_app_iff; auto. Qed.
  Lemma FB_facts y : In y FB -> ~ In y T0 /\ ~ In y PT /\ ~ In y (o_LN o) /\ ~ In y (o_DN o) /\ ~ In y (binders_l stmts).
  Proof.
    intros Hy. destruct (proj2 HfB y Hy) as [H1 H2].
    repeat split; auto; intros Hc; try (apply H1; apply in_or_app; auto; fail); apply H2; rewrite !in_app_iff; auto.
  Qed.
  Lemma ccA_in : In ccA FA. Proof. right. now left. Qed.
  Lemma ccB_in : In ccB FB. Proof. right. now left. Qed.

  Lemma C_LN x : In x C -> In x (o_LN o).
  Proof.
    unfold C, o_LN. intros [<-|H]; [now left|]. right. apply in_app_iff in H. apply in_or_app. destruct H as [H|H].
    - right. apply in_map_iff in H. destruct H as (k & <- & Hk). apply filter_In in Hk. apply in_map. tauto.
    - left. apply in_map_iff in H. destruct H as (g & <- & Hg). apply in_map. apply filter_In in Hg. tauto.
  Qed.
  Lemma C_T0_not_cc x : In x (C ++ T0) -> x <> ccA /\ x <> ccB.
  Proof.
    intros Hx. apply in_app_iff in Hx. destruct (FA_facts ccA ccA_in) as (A1 & A2 & _). destruct (FB_facts ccB ccB_in) as (B1 & _ & B2 & _).
    destruct Hx as [Hx|Hx]; [apply C_LN in Hx|]; split; intros ->; contradiction.
  Qed.

  Definition stabB (eB : env) : Prop := forall v, In v TB -> lookup v eB = lookup v enp.
  Definition Inv (e eB : env) : Prop :=
    (forall x, In x C -> eval w e (EVar x) = eval w eB (EVar x)) /\
    (forall s, In s ss -> In (sd_giv s) (kept_generals oB) ->
               eq32 (lookup (dn_name (sd_d s)) eB) (mS s * lookup (dn_base (sd_d s)) e + cS s)) /\
    stab e /\ stabB eB.

  Lemma enp_out y : ~ In y PT -> lookup y enp = lookup y en.
  Proof. apply penv_out. Qed.
  Lemma T0_TB v : In v T0 -> In v TB. Proof. intros H. unfold TB. apply in_or_app. now right. Qed.
  Lemma T0_PT v : In v T0 -> ~ In v PT. Proof. intros H Hc. destruct (PT_facts v Hc) as (F & _). contradiction. Qed.
  Lemma stab_both e eB v : stab e -> stabB eB -> In v T0 -> lookup v e = lookup v eB.
  Proof. intros Hs HsB Hv. rewrite (Hs v Hv), (HsB v (T0_TB v Hv)), enp_out; [reflexivity | now apply T0_PT]. Qed.
  Lemma Inv_agree e eB : Inv e eB -> agree w (C ++ T0) e eB.
  Proof.
    intros (Ha & _ & Hs & HsB) x Hx. apply in_app_iff in Hx. destruct Hx as [Hx|Hx]; [now apply Ha|].
    rewrite !eval_var. f_equal. now apply stab_both.
  Qed.
  Lemma pvB eB p : stabB eB -> (forall v, p = PVar v -> In v T0) -> pv w eB p = pv w en p.
  Proof.
    intros HsB Hp. destruct p as [z|v]; [reflexivity|]. rewrite !pv_var. f_equal.
    rewrite (HsB v (T0_TB v (Hp v eq_refl))). apply enp_out. apply T0_PT. now apply Hp.
  Qed.
  Lemma inv_guard v : bg_guard (o_basic o) = PVar v -> In v T0.
  Proof. intros E. apply wf_inv. right. now left. Qed.
  Lemma inv_inc v : bg_inc (o_basic o) = PVar v -> In v T0.
  Proof. intros E. apply wf_inv. now left. Qed.
  Lemma inv_ginc g v : In g (o_general o) -> gi_inc g = PVar v -> In v T0.
  Proof. intros Hg E. apply wf_inv. right. right. left. eauto. Qed.

  Lemma i_in_C : In i C. Proof. unfold C. now left. Qed.
  Lemma guards_agree e eB : Inv e eB -> XG w oB eB = XG w o e.
  Proof.
    intros (Ha & _ & Hs & HsB). unfold XG. change (o_basic oB) with (o_basic o). change (o_i oB) with (o_i o). fold i.
    rewrite (pv_stab e _ Hs inv_guard), (pvB eB _ HsB inv_guard). f_equal.
    rewrite <- !(eval_var w). symmetry. apply Ha. apply i_in_C.
  Qed.

  Lemma giv_unique (l : list giv) a g : NoDup (map gi_name l) -> In a l -> In g l -> gi_name a = gi_name g -> a = g.
  Proof.
    induction l as [|x r IH]; cbn; intros Hnd Ha Hg E; [contradiction|]. inversion Hnd as [|? ? Hni Hr]; subst.
    destruct Ha as [->|Ha], Hg as [->|Hg]; auto.
    - exfalso. apply Hni. rewrite E. now apply in_map.
    - exfalso. apply Hni. rewrite <- E. now apply in_map.
  Qed.
  Lemma LN_nodup : NoDup (o_GN o) /\ ~ In i (o_GN o ++ o_ON o).
  Proof. destruct HwfA as (Hnd & _). unfold o_LN in Hnd. fold i in Hnd. inversion Hnd as [|? ? H1 H2]; subst. split; auto. eapply nd_app_l; eauto. Qed.

  (* ---- the set on which the two runs agree: everything in scope except loop variables / reduced variables that
     the reduced loop does not keep ---- *)
  Let NL := o_LN o ++ SN.
  Definition keepb (x : name) : bool := negb (memb x NL) || memb x (useful_of oB).
  Definition keepf (T : list name) : list name := filter keepb T.
  Lemma keepf_in x T : In x (keepf T) <-> In x T /\ (~ In x NL \/ In x (useful_of oB)).
  Proof.
    unfold keepf, keepb. rewrite filter_In, orb_true_iff, negb_true_iff. split; intros [A B]; split; auto.
    - destruct B as [B|B]; [left; now apply memb_false | right; now apply memb_In].
    - destruct B as [B|B]; [left; now apply memb_false | right; now apply memb_In].
  Qed.

  Lemma handled_SN st : In st stmts -> is_handled HN st = true ->
    exists d op x y s, st = SBin d op x y /\ In s ss /\ d = dn_name (sd_d s).
  Proof.
    intros Hi Hh. destruct st as [d op x y| | | | | | | | | |]; try discriminate. cbn in Hh. apply memb_In in Hh.
    unfold HN in Hh. rewrite map_app, map_map in Hh. cbn [sd_giv gi_name] in Hh. apply in_app_iff in Hh.
    assert (Hb : In d (binders_l stmts)).
    { clear - Hi. induction stmts as [|s0 r IH]; [contradiction|]. cbn. apply in_or_app. destruct Hi as [->|Hi]; [left; now left | right; auto]. }
    destruct Hh as [Hh|Hh].
    - exfalso. apply (wf_dl d); [apply in_or_app; now right|]. unfold o_LN. right. apply in_or_app. now left.
    - apply in_map_iff in Hh. destruct Hh as (s & E & Hs). exists d, op, x, y, s. auto.
  Qed.
  Lemma kept_of_useful s : In s ss -> In (dn_name (sd_d s)) (useful_of oB) -> In (sd_giv s) (kept_generals oB).
  Proof.
    intros Hs Hu. rewrite kept_generals_B. apply in_or_app. right. unfold keptN. apply filter_In. split; [now apply in_map|].
    cbn [sd_giv gi_name]. now apply memb_In.
  Qed.

  Section Iter.
    Variables (e eB : env) (c cB : bool) (tr0 : trace).
    Let a0 := (ccA, b2z c) :: e.
    Let aB0 := (ccB, b2z cB) :: eB.
    Hypothesis HI : Inv e eB.

    Lemma stab_a0 : stab a0.
    Proof. destruct HI as (_ & _ & Hs & _). apply stab_cons; auto. now apply (FA_facts ccA ccA_in). Qed.

    Lemma walk l : forall p T a aB tr,
      stmts = p ++ l ->
      exec_block Wrap w fuel p a0 tr0 = RNext a tr ->
      exec_block Wrap w fuel (filterh HN p) aB0 tr0 = RNext aB tr ->
      scoped_l T l = true ->
      agree w (keepf T) a aB ->
      match exec_block Wrap w fuel l a tr with
      | RNext a' t => exists aB', exec_block Wrap w fuel (filterh HN l) aB tr = RNext aB' t /\
                                  agree w (keepf (defs_l l ++ T)) a' aB'
      | RBreak v a' t => exists aB', exec_block Wrap w fuel (filterh HN l) aB tr = RBreak v aB' t
      | RStuck | ROvf => True
      | r => exec_block Wrap w fuel (filterh HN l) aB tr = r
      end.
    Proof.
      induction l as [|st r IH]; intros p T a aB tr Hst Hp HpB Hsc Hag.
      - cbn. eauto.
      - cbn [scoped_l] in Hsc. apply andb_prop in Hsc. destruct Hsc as [Hsc1 Hsc2].
        assert (Hin : In st stmts) by (rewrite Hst; apply in_or_app; right; now left).
        assert (Hst' : stmts = (p ++ [st]) ++ r) by (rewrite <- app_assoc; exact Hst).
        rewrite exec_block_cons.
        destruct (is_handled HN st) eqn:Eh.
        + (* a deleted defining statement: the reduced loop has the value in a loop variable *)
          destruct (handled_SN st Hin Eh) as (d & op & x & y & s & -> & Hs & Ed).
          destruct (Hdef p d op x y r s a0 tr0 a tr Hst Hs Ed Hp) as (v & Hv & Hval).
          rewrite exec_SBin. cbn [chk andb]. rewrite Hv.
          assert (HfB' : filterh HN (SBin d op x y :: r) = filterh HN r).
          { unfold filterh. cbn [filter]. unfold filterh in *. now rewrite Eh. }
          rewrite HfB'.
          assert (Hp' : exec_block Wrap w fuel (p ++ [SBin d op x y]) a0 tr0 = RNext ((d, v) :: a) tr).
          { rewrite exec_block_app, Hp, exec_block_single, exec_SBin. cbn [chk andb]. now rewrite Hv. }
          assert (HpB' : exec_block Wrap w fuel (filterh HN (p ++ [SBin d op x y])) aB0 tr0 = RNext aB tr).
          { rewrite filterh_app. unfold filterh at 2. cbn [filter]. unfold filterh in Eh. rewrite Eh. cbn [negb]. now rewrite app_nil_r. }
          assert (Hag' : agree w (keepf (d :: T)) ((d, v) :: a) aB).
          { intros z Hz. apply keepf_in in Hz. destruct Hz as [Hz Hk]. destruct (N.eq_dec z d) as [->|Ne].
            - (* the reduced variable itself *)
              assert (HdNL : In d NL) by (unfold NL; apply in_or_app; right; subst d; unfold SN; apply in_map_iff; eauto).
              destruct Hk as [Hk|Hk]; [contradiction|].
              assert (Hkept : In (sd_giv s) (kept_generals oB)) by (apply kept_of_useful; auto; now rewrite <- Ed).
              destruct HI as (_ & Hd & Hs1 & _).
              rewrite !eval_var, lookup_cons_eq.
              pose proof (frame_block Wrap w fuel (filterh HN p) aB0 tr0) as Hf. rewrite HpB in Hf. cbn [frame_res] in Hf.
              rewrite Hf.
              2:{ intros Hc. apply (Hnb d); [subst d; unfold SN; apply in_map_iff; eauto|].
                  unfold stmtsB. rewrite Hst, filterh_app, binders_l_app'. apply in_or_app. now left. }
              unfold aB0. rewrite lookup_cons_ne.
              2:{ intros E. destruct (FB_facts ccB ccB_in) as (_ & _ & _ & F & _). apply F. rewrite <- E. apply SN_in_DN.
                  subst d. unfold SN. apply in_map_iff. eauto. }
              apply eq32_wrap_eq. rewrite Hval. subst d. rewrite (Hd s Hs Hkept).
              destruct (ss_d s Hs) as (Hdd & _).
              rewrite (pv_stab a0 _ stab_a0) by (intros v0 E; eapply inv_d; eauto).
              rewrite (pv_stab a0 _ stab_a0) by (intros v0 E; eapply inv_d; eauto).
              unfold a0. rewrite lookup_cons_ne; [reflexivity|].
              intros E. destruct (FA_facts ccA ccA_in) as (_ & F & _). apply F. rewrite <- E.
              destruct (sd_base_facts s Hs) as [En [Hg|[_ Hb]]].
              + rewrite <- En. unfold o_LN. right. apply in_or_app. left. now apply in_map.
              + rewrite Hb. unfold o_LN. now left.
            - rewrite eval_var, lookup_cons_ne by assumption. rewrite <- (eval_var w). apply Hag. apply keepf_in. split; auto.
              destruct Hz; [congruence | assumption]. }
          specialize (IH (p ++ [SBin d op x y]) (d :: T) ((d, v) :: a) aB tr Hst' Hp' HpB' Hsc2 Hag').
          destruct (exec_block Wrap w fuel r ((d, v) :: a) tr) as [a' t|v' a' t|t|t| | |]; auto.
          destruct IH as (aB' & E & Ha). exists aB'. split; auto. eapply agree_sub; eauto.
          intros z Hz. apply keepf_in in Hz. apply keepf_in. destruct Hz as [Hz Hk]. split; auto.
          cbn [defs_l defs] in Hz. rewrite !in_app_iff in *. cbn in *. tauto.
        + (* a kept statement: the same on both sides *)
          assert (HfB' : filterh HN (st :: r) = st :: filterh HN r).
          { unfold filterh. cbn [filter]. unfold filterh in Eh. now rewrite Eh. }
          rewrite HfB', exec_block_cons.
          assert (HstB : In st stmtsB).
          { unfold stmtsB, filterh. apply filter_In. split; auto. unfold filterh in Eh. now rewrite Eh. }
          assert (Hsc1' : scoped (keepf T) st = true).
          { apply (proj1 scoped_restrict_both st T (keepf T) Hsc1). intros z Hz Hu. apply keepf_in. split; auto. right.
            apply useful_B_spec. left. eapply filterh_uses_in; eauto. }
          pose proof (proj1 (exec_agree_both Wrap w fuel) st (keepf T) a aB tr (proj1 scoped_scopedc_both st _ Hsc1') Hag) as Hs.
          destruct (exec Wrap w fuel st a tr) as [a1 t1|v1 a1 t1|t1|t1| | |] eqn:Es; cbn [res_agree] in Hs.
          * destruct Hs as (aB1 & EB & Ha1). rewrite EB.
            assert (Hp' : exec_block Wrap w fuel (p ++ [st]) a0 tr0 = RNext a1 t1) by (now rewrite exec_block_app, Hp, exec_block_single).
            assert (HpB' : exec_block Wrap w fuel (filterh HN (p ++ [st])) aB0 tr0 = RNext aB1 t1).
            { rewrite filterh_app. unfold filterh at 2. cbn [filter]. unfold filterh in Eh. rewrite Eh. cbn [negb].
              fold (filterh HN p). now rewrite exec_block_app, HpB, exec_block_single. }
            assert (Hag' : agree w (keepf (defs st ++ T)) a1 aB1).
            { eapply agree_sub; eauto. intros z Hz. apply keepf_in in Hz. destruct Hz as [Hz Hk]. rewrite in_app_iff in *.
              destruct Hz as [Hz|Hz]; [now left | right; apply keepf_in; auto]. }
            specialize (IH (p ++ [st]) (defs st ++ T) a1 aB1 t1 Hst' Hp' HpB' Hsc2 Hag').
            destruct (exec_block Wrap w fuel r a1 t1) as [a' t|v' a' t|t|t| | |]; auto.
            destruct IH as (aB' & E & Ha). exists aB'. split; auto. eapply agree_sub; eauto.
            intros z Hz. apply keepf_in in Hz. apply keepf_in. destruct Hz as [Hz Hk]. split; auto.
            cbn [defs_l] in Hz. rewrite !in_app_iff in *. tauto.
          * destruct Hs as (aB1 & EB & Ha1). rewrite EB. eauto.
          * now rewrite Hs.
          * now rewrite Hs.
          * exact I.
          * exact I.
          * now rewrite Hs.
    Qed.
  End Iter.
  Lemma kept_all_LN x : In x (kept_all o) -> In x (o_LN o).
  Proof.
    unfold kept_all, kept_names, o_LN. fold i. intros [<-|H]; [now left|]. right. apply in_app_iff in H. apply in_or_app. destruct H as [H|H].
    - right. apply in_map_iff in H. destruct H as (k & <- & Hk). apply filter_In in Hk. apply in_map. tauto.
    - left. apply in_map_iff in H. destruct H as (g & <- & Hg). apply in_map. unfold kept_generals in Hg. apply filter_In in Hg. tauto.
  Qed.
  Lemma C_kept x : In x C -> In x (kept_all o) /\ In x (useful_of oB).
  Proof.
    unfold C, kept_all, kept_names. fold i. intros [<-|H].
    - split; [now left|]. apply useful_B_spec. right. right. now right.
    - apply in_app_iff in H. destruct H as [H|H].
      + apply in_map_iff in H. destruct H as (k & <- & Hk). destruct (keptO_A k Hk) as (A1 & A2 & A3). split; auto.
        right. apply in_or_app. left. apply in_map. apply filter_In. split; auto. now apply memb_In.
      + apply in_map_iff in H. destruct H as (g & <- & Hg). split.
        * right. apply in_or_app. right. apply in_map. now apply keptG_A.
        * unfold keptG in Hg. apply filter_In in Hg. now apply memb_In.
  Qed.
  Lemma kept_useful_C x : In x (kept_all o) -> In x (useful_of oB) -> In x C.
  Proof.
    unfold C, kept_all, kept_names. fold i. intros [<-|H] Hu; [now left|]. right. apply in_app_iff in H. apply in_or_app. destruct H as [H|H].
    - left. apply in_map_iff in H. destruct H as (k & <- & Hk). apply filter_In in Hk. apply in_map. apply filter_In. split; [tauto|]. now apply memb_In.
    - right. apply in_map_iff in H. destruct H as (g & <- & Hg). apply in_map. apply filter_In. split; [|now apply memb_In].
      unfold kept_generals in Hg. apply filter_In in Hg. tauto.
  Qed.
  Lemma SN_NL x : In x SN -> In x NL. Proof. intros H. unfold NL. apply in_or_app. now right. Qed.

  (* ---- one iteration that runs to its end ---- *)
  Section Iter2.
    Variables (e eB : env) (c cB : bool) (tr t : trace) (a2 a2B : env).
    Let a := (ccA, b2z c) :: e.
    Let aB := (ccB, b2z cB) :: eB.
    Let Tinit := kept_all o ++ T0.
    Hypothesis HI : Inv e eB.
    Hypothesis HrunA : exec_block Wrap w fuel stmts a tr = RNext a2 t.
    Hypothesis HrunB : exec_block Wrap w fuel stmtsB aB tr = RNext a2B t.
    Hypothesis Hag : agree w (keepf (defs_l stmts ++ Tinit)) a2 a2B.
    Let nA := bind_e2 w (xlvs o collA (combine (kept_generals o) nsA)) (tail_env w o collA (combine (kept_generals o) nsA) tsA a2).
    Let nB := bind_e2 w (xlvs oB collB (combine (kept_generals oB) nsB)) (tail_env w oB collB (combine (kept_generals oB) nsB) tsB a2B).

    Lemma frameA y : ~ In y (binders_l stmts) -> y <> ccA -> lookup y a2 = lookup y e.
    Proof.
      intros H1 H2. pose proof (frame_block Wrap w fuel stmts a tr) as Hf. rewrite HrunA in Hf. cbn [frame_res] in Hf.
      rewrite Hf by assumption. unfold a. now apply lookup_cons_ne.
    Qed.
    Lemma frameB y : ~ In y (binders_l stmtsB) -> y <> ccB -> lookup y a2B = lookup y eB.
    Proof.
      intros H1 H2. pose proof (frame_block Wrap w fuel stmtsB aB tr) as Hf. rewrite HrunB in Hf. cbn [frame_res] in Hf.
      rewrite Hf by assumption. unfold aB. now apply lookup_cons_ne.
    Qed.
    Lemma stab_a2 : stab a2.
    Proof.
      destruct HI as (_ & _ & Hs & _). intros v Hv. rewrite frameA; [now apply Hs| |].
      - intros Hc. apply (wf_out v); auto. rewrite !in_app_iff. auto.
      - intros E. subst v. destruct (FA_facts ccA ccA_in) as (F & _). contradiction.
    Qed.
    Lemma stabB_a2B : stabB a2B.
    Proof.
      destruct HI as (_ & _ & _ & HsB). intros v Hv. rewrite frameB; [now apply HsB| |].
      - intros Hc. apply stmtsB_binders in Hc. apply TB_cases in Hv. destruct Hv as [Hv|Hv].
        + now apply (PT_facts v Hv).
        + apply (wf_out v); auto. rewrite !in_app_iff. auto.
      - intros E. subst v. destruct (FB_facts ccB ccB_in) as (F1 & F2 & _). apply TB_cases in Hv. tauto.
    Qed.
    Lemma LN_a2 x : In x (o_LN o) -> lookup x a2 = lookup x e.
    Proof.
      intros Hx. apply frameA.
      - intros Hc. apply (wf_dl x); auto. apply in_or_app. now right.
      - intros E. subst x. destruct (FA_facts ccA ccA_in) as (_ & F & _). contradiction.
    Qed.
    Lemma SN_a2B x : In x SN -> lookup x a2B = lookup x eB.
    Proof.
      intros Hx. apply frameB; [now apply Hnb|]. intros E. subst x. destruct (FB_facts ccB ccB_in) as (_ & _ & _ & F & _).
      apply F. now apply SN_in_DN.
    Qed.
    Lemma pvA p : (forall v, p = PVar v -> In v T0) -> pv w a2 p = pv w en p.
    Proof. apply pv_stab, stab_a2. Qed.
    Lemma pvB2 p : (forall v, p = PVar v -> In v T0) -> pv w a2B p = pv w en p.
    Proof. apply pvB, stabB_a2B. Qed.

    Lemma next_stab : stab nA.
    Proof.
      intros v Hv. unfold nA.
      assert (HnL : ~ In v (o_LN o)) by (intros Hc; apply (wf_out v); auto; rewrite !in_app_iff; auto).
      rewrite (xnext_out w o collA nsA tsA (proj1 HlenA) a2 v HnL).
      rewrite (xtail_out w o collA ccA nsA tsA (proj1 HlenA) a2 v).
      - apply stab_a2; auto.
      - intros Hc. destruct (FA_facts v Hc) as (F & _). contradiction.
      - intros Hc. apply (wf_out v); auto. rewrite !in_app_iff. auto.
    Qed.
    Lemma next_stabB : stabB nB.
    Proof.
      intros v Hv. unfold nB.
      assert (HnB : ~ In v (o_LN oB) /\ ~ In v (o_DN oB) /\ ~ In v FB).
      { destruct wfB as (_ & _ & Hout & _). repeat split.
        - intros Hc. apply (Hout v); auto. apply in_or_app. now left.
        - intros Hc. apply (Hout v); auto. apply in_or_app. right. apply in_or_app. now left.
        - intros Hc. destruct (HoutB v Hc) as [F _]. contradiction. }
      destruct HnB as (N1 & N2 & N3).
      rewrite (xnext_out w oB collB nsB tsB (proj1 HlenB) a2B v N1).
      rewrite (xtail_out w oB collB ccB nsB tsB (proj1 HlenB) a2B v N3 N2).
      now apply stabB_a2B.
    Qed.


    Lemma agree2 y : In y (defs_l stmts ++ Tinit) -> ~ In y NL \/ In y (useful_of oB) -> eval w a2 (EVar y) = eval w a2B (EVar y).
    Proof. intros H1 H2. apply Hag. apply keepf_in. auto. Qed.
    Lemma agreeC y : In y C -> eval w a2 (EVar y) = eval w a2B (EVar y).
    Proof.
      intros H. destruct (C_kept y H) as [H1 H2]. apply agree2; [|now right]. unfold Tinit. rewrite !in_app_iff. auto.
    Qed.

    Lemma tail_plain y : In y (defs_l stmts ++ Tinit) -> ~ In y NL \/ In y (useful_of oB) -> ~ In y (o_DN o) ->
      eval w (tail_env w o collA (combine (kept_generals o) nsA) tsA a2) (EVar y) =
      eval w (tail_env w oB collB (combine (kept_generals oB) nsB) tsB a2B) (EVar y).
    Proof.
      intros Hy Hk Hd.
      assert (Hy' : In y (o_LN o ++ o_DN o ++ binders_l stmts) \/ In y T0).
      { unfold Tinit in Hy. rewrite !in_app_iff in *. destruct Hy as [H|[H|H]]; auto.
        - left. right. right. now apply defs_l_in_binders.
        - left. left. now apply kept_all_LN. }
      rewrite !eval_var.
      rewrite (xtail_out w o collA ccA nsA tsA (proj1 HlenA) a2 y); [|intros Hc|exact Hd].
      2:{ destruct (HoutA y Hc) as [F1 F2]. destruct Hy'; contradiction. }
      rewrite (xtail_out w oB collB ccB nsB tsB (proj1 HlenB) a2B y); [|intros Hc|].
      2:{ destruct (proj2 HfB y Hc) as [F1 F2]. destruct Hy' as [H|H]; [contradiction|]. apply F1. apply in_or_app. now right. }
      2:{ intros Hc. apply Hd. unfold o_DN in *. unfold oB, sr_owl in Hc; cbn [o_derived] in Hc. apply in_map_iff in Hc. destruct Hc as (d & <- & Hdr). apply in_map. now apply rem_in. }
      rewrite <- !(eval_var w). now apply agree2.
    Qed.

    (* the value of a reduced variable that survives as a loop variable *)
    Lemma sr_value s : In s ss -> In (sd_giv s) (kept_generals oB) ->
      eq32 (lookup (dn_name (sd_d s)) a2B) (mS s * lookup (dn_base (sd_d s)) a2 + cS s).
    Proof.
      intros Hs Hk. destruct HI as (_ & Hd & _). rewrite (SN_a2B (dn_name (sd_d s))).
      - rewrite (Hd s Hs Hk). rewrite LN_a2; [reflexivity|].
        destruct (sd_base_facts s Hs) as [E [Hg|[_ Hb]]].
        + rewrite <- E. unfold o_LN. right. apply in_or_app. left. now apply in_map.
        + rewrite Hb. unfold o_LN. now left.
      - unfold SN. apply in_map_iff. eauto.
    Qed.

    Lemma R2 k y : In k (o_others o) -> t_e2 k = EVar y -> In y (defs_l stmts ++ o_DN o ++ kept_all o ++ T0).
    Proof. destruct Hreads as (_ & H & _). apply H. Qed.
    Lemma R4 d : In d (o_derived o) -> In (dn_base d) (kept_all o).
    Proof.
      intros Hd. destruct Hreads as (_ & _ & _ & H & _). specialize (H d Hd). unfold kept_all, kept_names.
      destruct H as [<-|H]; [now left|]. right. apply in_or_app. now right.
    Qed.
    Lemma R4B d : In d rem -> In (dn_base d) C.
    Proof.
      intros Hd. specialize (HbaseB d Hd). change (o_i oB) with i in HbaseB. unfold C. destruct HbaseB as [<-|H]; [now left|]. right.
      rewrite kept_generals_B, map_app in H. apply in_app_iff in H. apply in_or_app. right. destruct H as [H|H]; [exact H|].
      (* a base is a basic induction variable, never a reduced variable *)
      exfalso. apply in_map_iff in H. destruct H as (g & E & Hg). unfold keptN in Hg. apply filter_In in Hg. destruct Hg as [Hg _].
      apply in_map_iff in Hg. destruct Hg as (s & <- & Hs). cbn [sd_giv gi_name] in E.
      destruct HwfA as (_ & _ & _ & Hdl & _ & Hb). specialize (Hb d (rem_in d Hd)).
      apply (Hdl (dn_base d)); [apply in_or_app; left; rewrite <- E; apply SN_in_DN; unfold SN; apply in_map_iff; eauto|].
      unfold o_LN. destruct Hb as [<-|Hb]; [now left | right; apply in_or_app; now left].
    Qed.
    Lemma derived_unique d1 d2 : In d1 (o_derived o) -> In d2 (o_derived o) -> dn_name d1 = dn_name d2 -> d1 = d2.
    Proof.
      pose proof DN_nodup as Hnd. revert Hnd. generalize (o_derived o). induction l as [|x r IH]; cbn; intros Hnd H1 H2 E; [contradiction|].
      inversion Hnd as [|? ? Hni Hr]; subst. destruct H1 as [->|H1], H2 as [->|H2]; auto.
      - exfalso. apply Hni. rewrite E. now apply in_map.
      - exfalso. apply Hni. rewrite <- E. now apply in_map.
    Qed.


    Lemma next_other k : In k keptO ->
      eval w (tail_env w o collA (combine (kept_generals o) nsA) tsA a2) (t_e2 k) =
      eval w (tail_env w oB collB (combine (kept_generals oB) nsB) tsB a2B) (t_e2 k).
    Proof.
      intros Hk0. destruct (keptO_A k Hk0) as (Hk & Hu & HuB).
      destruct (as_var (t_e2 k)) as [y|] eqn:Ey; [|now apply eval_nonvar].
      apply as_var_some in Ey. rewrite Ey. pose proof (R2 k y Hk Ey) as Hy.
      assert (HyU : In y (useful_of oB)) by (apply useful_B_spec; right; left; eauto).
      destruct (in_dec N.eq_dec y (o_DN o)) as [Hd|Hnd].
      - unfold o_DN in Hd. apply in_map_iff in Hd. destruct Hd as (d & <- & Hd).
        pose proof (xtail_derived w T0 o collA ccA nsA tsA HwfA HndA HoutA (proj1 HlenA) (proj2 HlenA) a2 d Hd) as HvA.
        rewrite !eval_var. apply eq32_wrap_eq. rewrite HvA.
        rewrite (pvA (dn_mult d)), (pvA (dn_imm d)) by (intros v E; eapply inv_d; eauto).
        destruct (sr_rel_split _ _ _ _ Hrel d Hd) as [Hr|(s0 & Hs0 & Es)].
        + assert (HdB : In d (o_derived oB)) by exact Hr.
          pose proof (xtail_derived w TB oB collB ccB nsB tsB wfB HndB HoutB (proj1 HlenB) (proj2 HlenB) a2B d HdB) as HvB.
          rewrite HvB, (pvB2 (dn_mult d)), (pvB2 (dn_imm d)) by (intros v E; eapply inv_d; eauto).
          assert (Eb : eq32 (lookup (dn_base d) a2) (lookup (dn_base d) a2B)).
          { apply eq32_intro. rewrite <- !(eval_var w). apply agreeC. now apply R4B. }
          now rewrite Eb.
        + subst d.
          assert (Hkept : In (sd_giv s0) (kept_generals oB)) by now apply kept_of_useful.
          rewrite (xtail_out w oB collB ccB nsB tsB (proj1 HlenB) a2B (dn_name (sd_d s0))).
          * rewrite (sr_value s0 Hs0 Hkept). reflexivity.
          * intros Hc. destruct (FB_facts _ Hc) as (_ & _ & _ & F & _). apply F. unfold o_DN. now apply in_map.
          * apply SN_rem. unfold SN. apply in_map_iff. eauto.
      - apply tail_plain; auto. unfold Tinit. rewrite !in_app_iff in *. tauto.
    Qed.

    Lemma C_cases x : In x C ->
      x = i \/ (exists k, In k keptO /\ t_name k = x) \/ (exists g, In g keptG /\ gi_name g = x).
    Proof.
      unfold C. intros [<-|H]; [now left|]. right. apply in_app_iff in H. destruct H as [H|H].
      - left. apply in_map_iff in H. destruct H as (k & <- & Hk). eauto.
      - right. apply in_map_iff in H. destruct H as (g & <- & Hg). eauto.
    Qed.
    Lemma KA_cases x : In x (kept_all o) ->
      x = i \/ (exists k, In k (o_others o) /\ t_name k = x) \/ (exists g, In g (kept_generals o) /\ gi_name g = x).
    Proof.
      unfold kept_all, kept_names. fold i. intros [<-|H]; [now left|]. right. apply in_app_iff in H. destruct H as [H|H].
      - left. apply in_map_iff in H. destruct H as (k & <- & Hk). apply filter_In in Hk. exists k. tauto.
      - right. apply in_map_iff in H. destruct H as (g & <- & Hg). eauto.
    Qed.

    Lemma next_i : eval w nA (EVar i) = eval w nB (EVar i).
    Proof.
      rewrite !eval_var. unfold nA, nB, i.
      rewrite (xnext_i w T0 o collA ccA nsA tsA HwfA HndA HoutA (proj1 HlenA) a2).
      pose proof (xnext_i w TB oB collB ccB nsB tsB wfB HndB HoutB (proj1 HlenB) a2B) as H. change (o_i oB) with (o_i o) in H. rewrite H.
      change (o_basic oB) with (o_basic o). rewrite (pvA _ inv_inc), (pvB2 _ inv_inc). fold i. now rewrite (agreeC i i_in_C).
    Qed.
    Lemma next_g g : In g keptG -> eval w nA (EVar (gi_name g)) = eval w nB (EVar (gi_name g)).
    Proof.
      intros Hg0. pose proof (keptG_A g Hg0) as Hg.
      destruct (in_combine_exists _ nsA g (eq_sym (proj1 HlenA)) Hg) as [na Hna].
      assert (HgB : In g (kept_generals oB)) by (rewrite kept_generals_B; apply in_or_app; now left).
      destruct (in_combine_exists _ nsB g (eq_sym (proj1 HlenB)) HgB) as [nb Hnbb].
      rewrite !eval_var. unfold nA, nB.
      rewrite (xnext_g w T0 o collA ccA nsA tsA HwfA HndA HoutA (proj1 HlenA) a2 g na Hna).
      rewrite (xnext_g w TB oB collB ccB nsB tsB wfB HndB HoutB (proj1 HlenB) a2B g nb Hnbb).
      assert (Hgi : forall v, gi_inc g = PVar v -> In v T0).
      { intros v E. eapply inv_ginc; eauto. unfold kept_generals in Hg. apply filter_In in Hg. tauto. }
      rewrite (pvA _ Hgi), (pvB2 _ Hgi), (agreeC (gi_name g)); [reflexivity|].
      unfold C. right. apply in_or_app. right. now apply in_map.
    Qed.
    Lemma next_C x : In x C -> eval w nA (EVar x) = eval w nB (EVar x).
    Proof.
      intros Hx. destruct (C_cases x Hx) as [->|[(k & Hk0 & <-)|(g & Hg & <-)]].
      - apply next_i.
      - destruct (keptO_A k Hk0) as (Hk & Hu & HuB). rewrite !eval_var. unfold nA, nB.
        rewrite (xnext_o w T0 o collA nsA tsA HwfA (proj1 HlenA) a2 k Hk Hu).
        rewrite (xnext_o w TB oB collB nsB tsB wfB (proj1 HlenB) a2B k Hk HuB).
        f_equal. now apply next_other.
      - now apply next_g.
    Qed.

    (* the base of a reduced variable: its next value on the original side *)
    Lemma base_next s : In s ss ->
      eq32 (lookup (dn_base (sd_d s)) nA) (lookup (dn_base (sd_d s)) a2 + pv w en (gi_inc (sd_base s))).
    Proof.
      intros Hs. destruct (ss_d s Hs) as (Hd & _). pose proof (R4 _ Hd) as Hb.
      destruct (sd_base_facts s Hs) as [En Hcase].
      destruct (KA_cases _ Hb) as [Ei|[(k & Hk & Ek)|(g & Hg & Eg)]].
      - assert (Ea : gi_inc (sd_base s) = bg_inc (o_basic o)).
        { destruct Hcase as [Hgen|[-> _]]; [|reflexivity]. exfalso. apply (proj2 LN_nodup). rewrite <- Ei, <- En.
          apply in_or_app. left. now apply in_map. }
        rewrite Ei, Ea. unfold nA, i.
        rewrite (xnext_i w T0 o collA ccA nsA tsA HwfA HndA HoutA (proj1 HlenA) a2).
        rewrite !eq32_wrap, eval_var, eq32_wrap, (pvA _ inv_inc). reflexivity.
      - exfalso. destruct Hcase as [Hgen|[_ Hbi]].
        + destruct HwfA as (Hnd & _). unfold o_LN in Hnd. inversion Hnd as [|? ? _ Hnd']; subst.
          apply (nd_app_disj _ _ (dn_base (sd_d s)) Hnd'); [rewrite <- En; now apply in_map | rewrite <- Ek; now apply in_map].
        + apply (proj2 LN_nodup). fold i in Hbi. rewrite <- Hbi, <- Ek. apply in_or_app. right. now apply in_map.
      - assert (Hgg : In g (o_general o)) by (unfold kept_generals in Hg; apply filter_In in Hg; tauto).
        assert (Ea : sd_base s = g).
        { destruct Hcase as [Hgen|[_ Hbi]].
          - apply (giv_unique (o_general o)); auto; [apply LN_nodup | congruence].
          - exfalso. apply (proj2 LN_nodup). fold i in Hbi. rewrite <- Hbi, <- Eg. apply in_or_app. left. now apply in_map. }
        rewrite Ea, <- Eg.
        destruct (in_combine_exists _ nsA g (eq_sym (proj1 HlenA)) Hg) as [na Hna]. unfold nA.
        rewrite (xnext_g w T0 o collA ccA nsA tsA HwfA HndA HoutA (proj1 HlenA) a2 g na Hna).
        rewrite !eq32_wrap, eval_var, eq32_wrap, (pvA (gi_inc g)); [reflexivity|].
        intros v E. eapply inv_ginc; eauto.
    Qed.

    Lemma next_sr s : In s ss -> In (sd_giv s) (kept_generals oB) ->
      eq32 (lookup (dn_name (sd_d s)) nB) (mS s * lookup (dn_base (sd_d s)) nA + cS s).
    Proof.
      intros Hs Hk. destruct (in_combine_exists _ nsB _ (eq_sym (proj1 HlenB)) Hk) as [nb Hnbb]. unfold nB.
      pose proof (xnext_g w TB oB collB ccB nsB tsB wfB HndB HoutB (proj1 HlenB) a2B (sd_giv s) nb Hnbb) as H.
      cbn [sd_giv gi_name gi_inc] in H. rewrite H.
      rewrite !eq32_wrap, eval_var, eq32_wrap, (sr_value s Hs Hk), (pvB2 (sd_added s)) by (intros v E; eapply inv_added; eauto).
      destruct (ss_d s Hs) as (_ & _ & Hm). rewrite (merge_mul_sound w en _ _ _ Hm), (base_next s Hs).
      unfold mS, cS. apply eq32_eq. ring.
    Qed.

    Lemma next_inv : Inv nA nB.
    Proof. split; [apply next_C|]. split; [apply next_sr|]. split; [apply next_stab | apply next_stabB]. Qed.
  End Iter2.

  Definition Kb (v v' : Z) (e1 e1' : env) : Prop := v = v' /\ stab e1 /\ stabB e1'.

  Lemma step e eB tr : Inv e eB ->
    match exec_block Wrap w fuel (xbody o collA ccA (combine (kept_generals o) nsA) tsA) e tr with
    | RNext e1 t => exists e1', exec_block Wrap w fuel (xbody oB collB ccB (combine (kept_generals oB) nsB) tsB) eB tr = RNext e1' t /\
                                Inv (bind_e2 w (xlvs o collA (combine (kept_generals o) nsA)) e1)
                                    (bind_e2 w (xlvs oB collB (combine (kept_generals oB) nsB)) e1')
    | RBreak v e1 t => exists v' e1', exec_block Wrap w fuel (xbody oB collB ccB (combine (kept_generals oB) nsB) tsB) eB tr = RBreak v' e1' t /\
                                      Kb v v' e1 e1'
    | RStuck | ROvf => True
    | r => exec_block Wrap w fuel (xbody oB collB ccB (combine (kept_generals oB) nsB) tsB) eB tr = r
    end.
  Proof.
    intros HI. destruct (xbody_exec w fuel o collA ccA nsA tsA e tr) as (c & HA).
    destruct (xbody_exec w fuel oB collB ccB nsB tsB eB tr) as (cB & HB). cbn zeta in *.
    rewrite HA, HB, (guards_agree e eB HI). rewrite oB_stmts. fold stmts. fold stmtsB.
    assert (Hag0 : agree w (keepf (kept_all o ++ T0)) ((ccA, b2z c) :: e) ((ccB, b2z cB) :: eB)).
    { intros x Hx. apply keepf_in in Hx. destruct Hx as [Hx Hk].
      assert (HxC : In x (C ++ T0)).
      { apply in_app_iff in Hx. apply in_or_app. destruct Hx as [Hx|Hx]; [left|now right].
        apply kept_useful_C; auto. destruct Hk as [Hk|Hk]; auto. exfalso. apply Hk. unfold NL. apply in_or_app. left. now apply kept_all_LN. }
      destruct (C_T0_not_cc x HxC) as [N1 N2]. rewrite !eval_var, !lookup_cons_ne by assumption.
      rewrite <- !(eval_var w). now apply (Inv_agree e eB HI). }
    destruct Hreads as (Hsc & _ & Hbv & _).
    pose proof HI as HI0.
    destruct HI as (HIa & HIb & Hs1 & Hs2).
    assert (HsA : stab ((ccA, b2z c) :: e)).
    { apply stab_cons; auto. now apply (FA_facts ccA ccA_in). }
    assert (HsB : stabB ((ccB, b2z cB) :: eB)).
    { intros x Hx. rewrite lookup_cons_ne; [now apply Hs2|]. intros ->. destruct (FB_facts ccB ccB_in) as (B1 & B2 & _).
      apply TB_cases in Hx. tauto. }
    destruct (XG w o e) eqn:EG.
    - pose proof (walk e eB c cB tr HI0 stmts [] (kept_all o ++ T0) _ _ tr eq_refl eq_refl eq_refl Hsc Hag0) as Hs.
      change (filterh HN stmts) with stmtsB in Hs.
      destruct (exec_block Wrap w fuel stmts ((ccA, b2z c) :: e) tr) as [a2 t|v a2 t|t|t| | |] eqn:Er.
      + destruct Hs as (a2B & ErB & Hag2). rewrite ErB. eexists. split; [reflexivity|].
        exact (next_inv e eB c cB tr t a2 a2B HI0 Er ErB Hag2).
      + destruct Hs as (a2B & ErB). rewrite ErB. exists v, a2B. split; [reflexivity|]. split; [reflexivity|].
        pose proof (frame_block Wrap w fuel stmts ((ccA, b2z c) :: e) tr) as F1. rewrite Er in F1. cbn [frame_res] in F1.
        pose proof (frame_block Wrap w fuel stmtsB ((ccB, b2z cB) :: eB) tr) as F2. rewrite ErB in F2. cbn [frame_res] in F2.
        split.
        * intros x Hx. rewrite F1; [now apply HsA|]. intros Hc. apply (wf_out x); auto. rewrite !in_app_iff; auto.
        * intros x Hx. rewrite F2; [now apply HsB|]. intros Hc. apply stmtsB_binders in Hc. apply TB_cases in Hx. destruct Hx as [Hx|Hx].
          -- now apply (PT_facts x Hx).
          -- apply (wf_out x); auto. rewrite !in_app_iff; auto.
      + now rewrite Hs.
      + now rewrite Hs.
      + exact I.
      + exact I.
      + now rewrite Hs.
    - eexists. eexists. split; [reflexivity|]. split; [|split; assumption].
      rewrite bv_B. destruct (as_var (bv_of o)) as [y|] eqn:Ey; [|now apply eval_nonvar].
      apply as_var_some in Ey. rewrite Ey in Hbv |- *. apply Hag0. apply keepf_in. split; [now apply in_scope_var|].
      right. apply useful_B_spec. right. right. now left.
  Qed.

  (* ---- the theorem ---- *)
  Theorem sr_core_g tr :
    match exec Wrap w fuel (xloop o collA ccA (combine (kept_generals o) nsA) tsA) en tr with
    | RNext e1 t => exists e1',
        exec_block Wrap w fuel (pre ++ [xloop oB collB ccB (combine (kept_generals oB) nsB) tsB]) en tr = RNext e1' t /\
        agree w (opt_names (bc_of o) ++ T0) e1 e1'
    | RBreak _ _ _ | RStuck | ROvf => True
    | r => exec_block Wrap w fuel (pre ++ [xloop oB collB ccB (combine (kept_generals oB) nsB) tsB]) en tr = r
    end.
  Proof.
    unfold pre. rewrite exec_block_app, exec_pre_list, exec_block_single. fold enp. unfold xloop. rewrite !exec_SWhile.
    change (bc_of oB) with (bc_of o).
    set (XLA := xlvs o collA (combine (kept_generals o) nsA)).
    set (XLB := xlvs oB collB (combine (kept_generals oB) nsB)).
    pose proof (xs_XL_nodup T0 o collA nsA HwfA (proj1 HlenA)) as NdA. fold XLA in NdA.
    pose proof (xs_XL_nodup TB oB collB nsB wfB (proj1 HlenB)) as NdB. fold XLB in NdB.
    assert (HLA : forall x, In x (map t_name XLA) -> In x (o_LN o)) by (intros x; apply xs_XL_in_LN; apply HlenA).
    assert (HLB : forall x, In x (map t_name XLB) -> In x (o_LN oB)) by (intros x; apply xs_XL_in_LN; apply HlenB).
    assert (Hev : forall a, (forall x, a = EVar x -> In x T0) -> eval w enp a = eval w en a).
    { intros a Ha. destruct a as [| | |x]; try reflexivity. rewrite !eval_var. f_equal. apply enp_out. apply T0_PT. now apply Ha. }
    destruct Hreads as (_ & _ & _ & _ & Hinit).
    assert (HiA : In (i, bg_init (o_basic o), EVar collA) XLA).
    { unfold XLA, xlvs. apply in_or_app. right. apply in_or_app. left. now left. }
    assert (HiB : In (i, bg_init (o_basic o), EVar collB) XLB).
    { unfold XLB, xlvs. apply in_or_app. right. apply in_or_app. left. now left. }
    assert (HgA : forall g na, In (g, na) (combine (kept_generals o) nsA) -> In (gi_name g, gi_init g, EVar na) XLA).
    { intros g na H. unfold XLA, xlvs. apply in_or_app. right. apply in_or_app. right. apply in_map_iff. exists (g, na). auto. }
    assert (HgB : forall g nb, In (g, nb) (combine (kept_generals oB) nsB) -> In (gi_name g, gi_init g, EVar nb) XLB).
    { intros g nb H. unfold XLB, xlvs. apply in_or_app. right. apply in_or_app. right. apply in_map_iff. exists (g, nb). auto. }
    assert (Hinit0 : Inv (bind_e1 w XLA en) (bind_e1 w XLB enp)).
    { split; [|split; [|split]].
      - intros x Hx. rewrite !eval_var. f_equal. unfold bind_e1.
        destruct (C_cases x Hx) as [->|[(k & Hk0 & <-)|(g & Hg0 & <-)]].
        + change i with (t_name (i, bg_init (o_basic o), EVar collA)) at 1. rewrite (bind_e1_in w XLA en en _ NdA HiA).
          change i with (t_name (i, bg_init (o_basic o), EVar collB)). rewrite (bind_e1_in w XLB enp enp _ NdB HiB).
          cbn [t_e1 fst snd]. symmetry. apply Hev. intros y Ey. apply Hinit. now left.
        + destruct (keptO_A k Hk0) as (Hk & Hu & HuB).
          assert (HkA : In k XLA) by (unfold XLA, xlvs; apply in_or_app; left; apply filter_In; split; auto; now apply memb_In).
          assert (HkB : In k XLB) by (unfold XLB, xlvs; apply in_or_app; left; apply filter_In; split; auto; now apply memb_In).
          rewrite (bind_e1_in w XLA en en k NdA HkA), (bind_e1_in w XLB enp enp k NdB HkB).
          symmetry. apply Hev. intros y Ey. apply Hinit. right. right. eauto.
        + pose proof (keptG_A g Hg0) as Hg.
          destruct (in_combine_exists _ nsA g (eq_sym (proj1 HlenA)) Hg) as [na Hna].
          assert (HgB0 : In g (kept_generals oB)) by (rewrite kept_generals_B; apply in_or_app; now left).
          destruct (in_combine_exists _ nsB g (eq_sym (proj1 HlenB)) HgB0) as [nb Hnbb].
          change (gi_name g) with (t_name (gi_name g, gi_init g, EVar na)) at 1.
          rewrite (bind_e1_in w XLA en en _ NdA (HgA g na Hna)).
          change (gi_name g) with (t_name (gi_name g, gi_init g, EVar nb)).
          rewrite (bind_e1_in w XLB enp enp _ NdB (HgB g nb Hnbb)). cbn [t_e1 fst snd].
          symmetry. apply Hev. intros y Ey. apply Hinit. right. left. exists g. split; auto.
          unfold kept_generals in Hg. apply filter_In in Hg. tauto.
      - intros s Hs Hk. destruct (in_combine_exists _ nsB _ (eq_sym (proj1 HlenB)) Hk) as [nb Hnbb]. unfold bind_e1.
        pose proof (HgB _ _ Hnbb) as Ht. cbn [sd_giv gi_name gi_init] in Ht.
        change (dn_name (sd_d s)) with (t_name (dn_name (sd_d s), EVar (sd_t2 s), EVar nb)) at 1.
        rewrite (bind_e1_in w XLB enp enp _ NdB Ht). cbn [t_e1 fst snd]. rewrite eval_var, eq32_wrap.
        unfold enp. rewrite (penv_t2 ss en s (fun s0 H => H) (proj1 HfP) (fun v _ => eq_refl) Hs).
        (* the base on the original side starts at its initial value *)
        destruct (ss_d s Hs) as (Hd & _). destruct (sd_base_facts s Hs) as [En Hcase].
        assert (Eb : lookup (dn_base (sd_d s)) (combine (map t_name XLA) (map (fun t => eval w en (t_e1 t)) XLA) ++ en)
                     = eval w en (gi_init (sd_base s))).
        { destruct Hcase as [Hgen|[Hb Hbi]].
          - assert (Hgk : In (sd_base s) (kept_generals o)).
            { pose proof (R4 _ Hd) as Hc. rewrite <- En in Hc. destruct (KA_cases _ Hc) as [Ei|[(k & Hk0 & Ek)|(g & Hg & Eg)]].
              - exfalso. apply (proj2 LN_nodup). rewrite <- Ei. apply in_or_app. left. now apply in_map.
              - exfalso. destruct HwfA as (Hnd & _). unfold o_LN in Hnd. inversion Hnd as [|? ? _ Hnd']; subst.
                apply (nd_app_disj _ _ (gi_name (sd_base s)) Hnd'); [now apply in_map | rewrite <- Ek; now apply in_map].
              - assert (Hgg : In g (o_general o)) by (unfold kept_generals in Hg; apply filter_In in Hg; tauto).
                rewrite (giv_unique (o_general o) (sd_base s) g (proj1 LN_nodup) Hgen Hgg (eq_sym Eg)). exact Hg. }
            destruct (in_combine_exists _ nsA _ (eq_sym (proj1 HlenA)) Hgk) as [na Hna].
            rewrite <- En. change (gi_name (sd_base s)) with (t_name (gi_name (sd_base s), gi_init (sd_base s), EVar na)).
            now rewrite (bind_e1_in w XLA en en _ NdA (HgA _ _ Hna)).
          - fold i in Hbi. rewrite Hbi, Hb. change i with (t_name (i, bg_init (o_basic o), EVar collA)).
            now rewrite (bind_e1_in w XLA en en _ NdA HiA). }
        rewrite Eb. unfold mS, cS. reflexivity.
      - intros v Hv. unfold bind_e1. rewrite lookup_bind_notin; [reflexivity|]. intros Hc. apply HLA in Hc.
        apply (wf_out v); auto. apply in_or_app. now left.
      - intros v Hv. unfold bind_e1. rewrite lookup_bind_notin; [reflexivity|]. intros Hc. apply HLB in Hc.
        destruct wfB as (_ & _ & Hout & _). apply (Hout v); auto. apply in_or_app. now left. }
    pose proof (loop_sim3 Inv Kb _ _ (bind_e2 w XLA) (bind_e2 w XLB) step fuel _ _ tr Hinit0) as HL.
    destruct (loop _ (bind_e2 w XLA) fuel (bind_e1 w XLA en) tr) as [? ?|v e1 t|t|t| | |] eqn:EL; auto.
    - destruct HL as (v' & e1' & -> & <- & Hs1 & Hs2). eexists. split; [reflexivity|].
      apply agree_bind_opt. intros x Hx. rewrite !eval_var. f_equal. now apply (stab_both e1 e1' x).
    - now rewrite HL.
    - now rewrite HL.
    - now rewrite HL.
  Qed.
End SrG.

(* ------------------------------------------------------------------ the statement in terms of the driver *)
Theorem sr_sound_g w fuel T0 o ss rem collA ccA nsA tsA collB ccB nsB tsB en tr :
  let PT := flat_map (fun s => [sd_t1 s; sd_t2 s]) ss in
  let oB := sr_owl o ss rem in
  sr_rel (sr_bmap o) (o_derived o) ss rem ->
  owl_wf T0 o -> owl_reads_s T0 o ->
  (forall s, In s ss -> ~ In (dn_name (sd_d s)) (binders_l (o_stmts oB))) ->
  (forall d, In d rem -> In (dn_base d) (bg_name (o_basic oB) :: map gi_name (kept_generals oB))) ->
  reduced_defs_affine w fuel o ss ->
  fresh_for T0 o (collA :: ccA :: nsA ++ tsA) ->
  fresh_for (PT ++ T0) o (collB :: ccB :: nsB ++ tsB) ->
  fresh_for T0 o PT ->
  length nsA = length (kept_generals o) /\ length tsA = length (o_derived o) ->
  length nsB = length (kept_generals oB) /\ length tsB = length (o_derived oB) ->
  match exec Wrap w fuel (xloop o collA ccA (combine (kept_generals o) nsA) tsA) en tr with
  | RNext e1 t => exists e1',
      exec_block Wrap w fuel (flat_map sd_pre ss ++ [xloop oB collB ccB (combine (kept_generals oB) nsB) tsB]) en tr = RNext e1' t /\
      agree w (opt_names (bc_of o) ++ T0) e1 e1'
  | RBreak _ _ _ | RStuck | ROvf => True
  | r => exec_block Wrap w fuel (flat_map sd_pre ss ++ [xloop oB collB ccB (combine (kept_generals oB) nsB) tsB]) en tr = r
  end.
Proof.
  intros PT oB Hrel Hwf Hreads Hnb Hbase Hdef HfA HfB HfP HlA HlB.
  apply (sr_core_g w fuel T0 o ss rem collA ccA nsA tsA collB ccB nsB tsB en); auto.
  intros x Hx. apply in_map_iff in Hx. destruct Hx as (s & <- & Hs). exact (Hnb s Hs).
Qed.

(* the premise reduced_defs_affine holds for what Analysis.extract returns (and for the analysis result after the
   induction-variable elimination, which has the same statements and fewer derived variables) *)
Lemma reduced_defs_affine_same w fuel o o1 ss :
  o_stmts o1 = o_stmts o -> reduced_defs_affine w fuel o ss -> reduced_defs_affine w fuel o1 ss.
Proof. intros E H p d op x y q s a0 tr0 a1 t Hsp. rewrite E in Hsp. exact (H p d op x y q s a0 tr0 a1 t Hsp). Qed.

Theorem extract_defs_affine w fuel S lvs ss bc ninv o srs :
  extract lvs ss bc ninv = XOk o ->
  scoped S (SWhile lvs ss bc) = true ->
  NoDup (binders (SWhile lvs ss bc)) ->
  (forall x, In x (binders (SWhile lvs ss bc)) -> ~ In x S) ->
  (forall x, In x (map t_name lvs ++ defs_l ss) -> In x ninv) ->
  (forall s, In s srs -> In (sd_d s) (o_derived o)) ->
  reduced_defs_affine w fuel o srs.
Proof.
  intros Hext Hsc Hnd Hfr Hcov Hsub.
  destruct (extract_inv _ _ _ _ _ Hext) as (g & others & all_basic & gb & Hg & Hused & Hbasic & Hfind & ->).
  destruct (extract_guard_shape _ _ _ _ Hg) as (cc0 & op & ge & inv & sis & rest & -> & Hgop & Hginv & Hlen & Hnb & Hbc).
  cbn [skipn] in *.
  rewrite binders_SWhile in Hnd, Hfr.
  change (binders_l (SBin cc0 op (EVar (lg_var g)) ge :: SSIf (EVar cc0) inv sis :: rest))
    with (cc0 :: binders_l (SSIf (EVar cc0) inv sis :: rest)) in Hnd, Hfr.
  cbn [binders_l] in Hnd, Hfr. rewrite binders_SSIf in Hnd, Hfr.
  assert (Hrest : scoped_l (defs (SSIf (EVar cc0) inv sis) ++ cc0 :: map t_name lvs ++ S) rest = true).
  { rewrite scoped_SWhile in Hsc. apply andb_prop in Hsc. destruct Hsc as [Hsc _]. apply andb_prop in Hsc. destruct Hsc as [_ Hss].
    cbn [scoped_l] in Hss. apply andb_prop in Hss. destruct Hss as [_ Hss]. apply andb_prop in Hss. destruct Hss as [_ Hr]. exact Hr. }
  assert (Hcov' : forall x, In x (map t_name lvs) \/ x = cc0 \/ In x (defs (SSIf (EVar cc0) inv sis)) \/ In x (defs_l rest) -> In x ninv).
  { intros x Hx. apply Hcov. rewrite in_app_iff. cbn [defs_l]. rewrite !in_app_iff. cbn [defs In].
    destruct Hx as [H|[->|[H|H]]]; auto. }
  assert (HSnb : forall v, In v S -> ~ In v (binders_l rest)).
  { intros v Hv Hb. apply (Hfr v); auto. apply in_or_app. right. apply in_or_app. left. right. apply in_or_app. now right. }
  assert (Hops : ops_stable ninv (binders_l rest) rest).
  { intros x op0 a b Hi. destruct (scoped_l_member rest _ _ _ _ _ Hrest Hi) as [Ha Hb].
    split; intros v -> Hn; apply HSnb.
    - apply in_scope_var in Ha. rewrite !in_app_iff in Ha. cbn [In] in Ha. rewrite in_app_iff in Ha.
      destruct Ha as [H|[H|[H|[H|H]]]]; auto; exfalso; apply Hn, Hcov'; auto.
    - apply in_scope_var in Hb. rewrite !in_app_iff in Hb. cbn [In] in Hb. rewrite in_app_iff in Hb.
      destruct Hb as [H|[H|[H|[H|H]]]]; auto; exfalso; apply Hn, Hcov'; auto. }
  intros p d op0 x y q s a0 tr0 a1 t Hsp Hs -> Hex. cbn [owl_of o_stmts] in Hsp. unfold remove_dead_code in Hsp.
  specialize (Hsub s Hs). cbn [owl_of o_derived] in Hsub.
  refine (derived_defs_affine Wrap w fuel ninv all_basic rest _ a0 _ _ Hops p (dn_name (sd_d s)) op0 x y q (sd_d s) tr0 a1 t Hsp Hsub eq_refl Hex).
  - apply nd_app_r in Hnd. apply nd_app_l in Hnd. apply (nd_app_r [cc0]) in Hnd. now apply nd_app_r in Hnd.
  - intros b Hb Hc. destruct (extract_basic_loop_sound _ _ _ _ _ Hbasic) as (H1 & _). destruct (H1 b Hb) as (Hl & _).
    apply (in_map t_name) in Hl. cbn [t_name fst] in Hl.
    apply (nd_app_disj _ _ (gc_name b) Hnd); [exact Hl|]. apply in_or_app. left. right. apply in_or_app. now right.
Qed.
