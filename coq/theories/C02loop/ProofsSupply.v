(* C02loop — bridge: the names the sub-passes take from the supply *)
From Coq Require Import ZArith NArith List Bool Lia.
Import ListNotations.
From SV Require Import Common.Int32 C02.Kernels C02deep.Syntax C02deep.Sem C02deep.Passes
  C02loop.Analysis C02loop.Algebraic C02loop.StrengthIv C02loop.Driver
  C02loop.ProofsBase C02loop.ProofsAnalysis C02loop.ProofsExpand C02loop.ProofsAlgebraic C02loop.ProofsSr.
Open Scope Z_scope.

(* a supply that is not exhausted afterwards was long enough *)
Lemma alloc_sup sup x s1 : alloc sup = (x, s1) -> s1 <> [] -> sup = x :: s1.
Proof. destruct sup as [|y r]; cbn; intros [= <- <-]; [congruence | reflexivity]. Qed.
Lemma alloc_nil : alloc [] = (0%N, []). Proof. reflexivity. Qed.

Lemma alloc_each_nil {A} (l : list A) : snd (alloc_each l []) = [].
Proof. induction l as [|v r IH]; cbn; [reflexivity|]. destruct (alloc_each r []) as [r' s2]. exact IH. Qed.
Lemma alloc_each_sup {A} (l : list A) : forall sup gcs s2,
  alloc_each l sup = (gcs, s2) -> s2 <> [] -> sup = map snd gcs ++ s2.
Proof.
  induction l as [|v r IH]; intros sup gcs s2 H Hne; cbn in H.
  - injection H as <- <-. reflexivity.
  - destruct (alloc sup) as [n s1] eqn:Ea. destruct (alloc_each r s1) as [r' s2'] eqn:Er. injection H as <- <-.
    assert (Hs1 : s1 <> []).
    { intros ->. pose proof (alloc_each_nil r) as Hn. rewrite Er in Hn. cbn in Hn. contradiction. }
    rewrite (alloc_sup _ _ _ Ea Hs1), (IH _ _ _ Er Hne). reflexivity.
Qed.

Lemma expand_derived_nil ds : snd (expand_derived ds []) = [].
Proof. induction ds as [|v r IH]; cbn; [reflexivity|]. destruct (expand_derived r []) as [r' s2]. exact IH. Qed.
Lemma expand_derived_sup ds : forall sup,
  snd (expand_derived ds sup) <> [] ->
  exists ts, fst (expand_derived ds sup) = derived_stmts ds ts /\ length ts = length ds /\
             sup = ts ++ snd (expand_derived ds sup).
Proof.
  induction ds as [|d r IH]; intros sup Hne; cbn in *; [exists []; auto|].
  destruct (alloc sup) as [t s1] eqn:Ea. destruct (expand_derived r s1) as [r' s2] eqn:Er. cbn [fst snd] in *.
  assert (Hs1 : s1 <> []).
  { intros ->. pose proof (expand_derived_nil r) as Hn. rewrite Er in Hn. cbn in Hn. contradiction. }
  specialize (IH s1). rewrite Er in IH. cbn [fst snd] in IH. destruct (IH Hne) as (ts & E & L & Es).
  exists (t :: ts). cbn. rewrite E, L. repeat split; auto. rewrite (alloc_sup _ _ _ Ea Hs1). now rewrite Es at 1.
Qed.

(* expand builds an xloop from the first names of the supply *)
Lemma expand_xloop_sup o sup :
  snd (expand o sup) <> [] ->
  exists coll cc ns ts,
    fst (expand o sup) = xloop o coll cc (combine (kept_generals o) ns) ts /\
    length ns = length (kept_generals o) /\ length ts = length (o_derived o) /\
    sup = coll :: ns ++ cc :: ts ++ snd (expand o sup).
Proof.
  unfold expand. destruct (alloc sup) as [coll s1] eqn:E1.
  fold (bv_of o). fold (useful_of o). fold (kept_generals o).
  destruct (alloc_each_spec (kept_generals o) s1) as (ns & E & L).
  destruct (alloc_each (kept_generals o) s1) as [gcs s2] eqn:E2. cbn [fst] in E. subst gcs.
  destruct (alloc s2) as [cc s3] eqn:E3.
  destruct (expand_derived (o_derived o) s3) as [dstmts s4] eqn:E4. cbn [fst snd]. intros Hne.
  assert (H3 : s3 <> []).
  { intros ->. pose proof (expand_derived_nil (o_derived o)) as Hn. rewrite E4 in Hn. cbn in Hn. contradiction. }
  assert (H2 : s2 <> []) by (intros ->; cbn in E3; injection E3 as _ <-; contradiction).
  assert (H1 : s1 <> []).
  { intros ->. pose proof (alloc_each_nil (kept_generals o)) as Hn. rewrite E2 in Hn. cbn in Hn. contradiction. }
  pose proof (expand_derived_sup (o_derived o) s3) as Hd. rewrite E4 in Hd. cbn [fst snd] in Hd.
  destruct (Hd Hne) as (ts & Et & Lt & Es). subst dstmts.
  exists coll, cc, ns, ts. split; [reflexivity|]. split; [auto|]. split; [auto|].
  rewrite (alloc_sup _ _ _ E1 H1), (alloc_each_sup _ _ _ _ E2 H2), (alloc_sup _ _ _ E3 H3).
  rewrite map_snd_combine by auto. cbn [app]. f_equal. f_equal. cbn [app]. f_equal. exact Es.
Qed.

(* strength reduction takes two names per reduced variable *)
Lemma sr_loop_nil bmap ds : forall pre gs rem s', sr_loop bmap ds [] = Some (pre, gs, rem, s') -> s' = [].
Proof.
  induction ds as [|d r IH]; intros pre gs rem s' H; cbn [sr_loop] in H.
  - now injection H as _ _ _ <-.
  - destruct (assoc (dn_base d) bmap) as [a|]; [|discriminate].
    destruct (merge_mul (gi_inc a) (dn_mult d)) as [added|].
    + cbn [alloc] in H. destruct (sr_loop bmap r []) as [[[[pre0 gs0] rem0] s3]|] eqn:Er; [|discriminate].
      injection H as _ _ _ <-. eapply IH; eauto.
    + destruct (sr_loop bmap r []) as [[[[pre0 gs0] rem0] s3]|] eqn:Er; [|discriminate].
      injection H as _ _ _ <-. eapply IH; eauto.
Qed.
Lemma sr_loop_sup bmap ds : forall sup pre gs rem sup',
  sr_loop bmap ds sup = Some (pre, gs, rem, sup') -> sup' <> [] ->
  exists ss, sr_rel bmap ds ss rem /\ pre = flat_map sd_pre ss /\ gs = map sd_giv ss /\
             sup = flat_map (fun s => [sd_t1 s; sd_t2 s]) ss ++ sup'.
Proof.
  induction ds as [|d r IH]; intros sup pre gs rem sup' H Hne.
  - cbn in H. injection H as <- <- <- <-. exists []. repeat split. constructor.
  - cbn [sr_loop] in H. destruct (assoc (dn_base d) bmap) as [a|] eqn:Ea; [|discriminate].
    destruct (merge_mul (gi_inc a) (dn_mult d)) as [added|] eqn:Em.
    + destruct (alloc sup) as [t1 s1] eqn:E1. destruct (alloc s1) as [t2 s2] eqn:E2.
      destruct (sr_loop bmap r s2) as [[[[pre0 gs0] rem0] s3]|] eqn:Er; [|discriminate]. injection H as <- <- <- <-.
      assert (H2 : s2 <> []) by (intros ->; apply Hne; eapply sr_loop_nil; eauto).
      assert (H1 : s1 <> []) by (intros ->; cbn in E2; injection E2 as _ <-; contradiction).
      destruct (IH _ _ _ _ _ Er Hne) as (ss & Hr & -> & -> & Es).
      exists (mksrd d a added t1 t2 :: ss). repeat split; [now apply sr_yes|].
      cbn [flat_map sd_t1 sd_t2 app]. rewrite (alloc_sup _ _ _ E1 H1), (alloc_sup _ _ _ E2 H2). now rewrite Es at 1.
    + destruct (sr_loop bmap r sup) as [[[[pre0 gs0] rem0] s3]|] eqn:Er; [|discriminate]. injection H as <- <- <- <-.
      destruct (IH _ _ _ _ _ Er Hne) as (ss & Hr & -> & -> & Es).
      exists ss. repeat split; auto. now apply (sr_no bmap d r a).
Qed.
Lemma sr_inv_sup o sup pre o2 sup' :
  sr o sup = Some (pre, o2, sup') -> sup' <> [] ->
  exists ss rem, sr_rel (sr_bmap o) (o_derived o) ss rem /\ pre = flat_map sd_pre ss /\
    o2 = mkowl (o_basic o) (o_general o ++ map sd_giv ss) (o_others o) rem (o_stmts o) (o_bc o) /\
    sup = flat_map (fun s => [sd_t1 s; sd_t2 s]) ss ++ sup'.
Proof.
  unfold sr. fold (sr_bmap o). destruct (sr_loop (sr_bmap o) (o_derived o) sup) as [[[[pre0 gs] rem] s']|] eqn:E; [|discriminate].
  intros [= <- <- <-] Hne. destruct (sr_loop_sup _ _ _ _ _ _ _ E Hne) as (ss & Hr & -> & -> & Es). eauto 8.
Qed.
