(* C02loop — closed witnesses (vm_compute): the behaviours of the code before the repairs that followed the
   findings of this check, the necessity of the side conditions, non-vacuity of the theorems. *)
From Coq Require Import ZArith NArith List Bool Lia.
Import ListNotations.
From SV Require Import Common.Int32 C02.Kernels C02deep.Syntax C02deep.Sem C02deep.Passes
  C02loop.Analysis C02loop.Licm C02loop.Algebraic C02loop.StrengthIv C02loop.Driver C02loop.Classes.
Open Scope Z_scope.

(* split conjunctions only (a plain `split` on an equation would try to convert both sides lazily) *)
Ltac splits := repeat match goal with |- _ /\ _ => split end.
(* one goal at a time: an earlier goal instantiates the existential variables of the later ones *)
Ltac vmr := vm_compute; reflexivity.
Ltac chain := lazymatch goal with |- _ /\ _ => split; [vmr | chain] | |- _ => vmr end.

(* a world whose calls return their first argument + 1 and never fail *)
Definition ww : world :=
  mkworld (fun _ _ vs => Some (wrap32 (hd 0 vs + 1))) (fun s => Z.of_N s) (fun z => z) (fun _ v => v) (fun _ _ => 0).
Definition sup0 : list name := [101; 102; 103; 104; 105; 106; 107; 108; 109; 110; 111; 112]%N.

(* ---- loop-invariant code motion before fix 3d66ed3: a division by an invariant is hoisted in front of the loop.
   i from a to 3; each iteration calls f0(i), then computes 10 / d and calls f1 with it. *)
Definition f_licm_div : func :=
  mkfunc [1%N; 2%N]
    [SWhile [(3%N, EVar 1%N, EVar 6%N)]
       [SBin 4%N GE (EVar 3%N) (EInt 3);
        SSIf (EVar 4%N) false [SBreak (EVar 3%N)];
        SCall 0%N [EVar 3%N] None;
        SBin 5%N DIV (EInt 10) (EVar 2%N);
        SCall 1%N [EVar 5%N] None;
        SBin 6%N PLUS (EVar 3%N) (EInt 1)]
       (Some 7%N)]
    (EVar 7%N).

Lemma licm_old_refuted :
  exists f f' fl,
    wf_func f = true /\ loop_pass_v (true, false) sup0 f = Some (f', fl) /\
    (* a loop that is left at once: no division in the original run, a trap in the optimised one *)
    sem All ww f [5; 0] 10 = Done 5 [] /\ sem Wrap ww f' [5; 0] 10 = Trap [] /\
    (* a run that traps: the call in front of the division is lost *)
    sem Wrap ww f [0; 0] 10 = Trap [(0%N, [0])] /\ sem Wrap ww f' [0; 0] 10 = Trap [].
Proof. exists f_licm_div. eexists. eexists. chain. Qed.

Lemma licm_repaired_on_old_witness :
  exists f' fl,
    loop_pass sup0 f_licm_div = Some (f', fl) /\ f_licm fl = 0%N /\ f_extract fl = 1%N /\
    sem Wrap ww f' [5; 0] 10 = Done 5 [] /\ sem Wrap ww f' [0; 0] 10 = Trap [(0%N, [0])] /\
    sem Wrap ww f' [1; 2] 10 = Done 3 [(1%N, [5]); (0%N, [2]); (1%N, [5]); (0%N, [1])] /\
    sem Wrap ww f_licm_div [1; 2] 10 = Done 3 [(1%N, [5]); (0%N, [2]); (1%N, [5]); (0%N, [1])].
Proof. eexists. eexists. chain. Qed.

(* ---- the induction analysis before fix 8c133db: the guard comparison is dropped although its name is still
   read by the body (here: passed to a call) *)
Definition f_guard_used : func :=
  mkfunc [1%N]
    [SWhile [(2%N, EVar 1%N, EVar 5%N)]
       [SBin 3%N LT (EVar 2%N) (EInt 3);
        SSIf (EVar 3%N) true [SBreak (EVar 2%N)];
        SCall 0%N [EVar 3%N] None;
        SBin 5%N PLUS (EVar 2%N) (EInt 1)]
       (Some 6%N)]
    (EVar 6%N).

Lemma guard_name_old_refuted :
  exists f f' fl,
    wf_func f = true /\ loop_pass_v (false, true) sup0 f = Some (f', fl) /\ wf_func f' = false /\
    sem All ww f [1] 10 = Done 3 [(0%N, [1]); (0%N, [1])] /\
    sem Wrap ww f' [1] 10 = Done 3 [(0%N, [0]); (0%N, [0])].
Proof. exists f_guard_used. eexists. eexists. chain. Qed.

Lemma guard_name_repaired_on_old_witness :
  exists fl, loop_pass sup0 f_guard_used = Some (f_guard_used, fl) /\ f_extract fl = 0%N.
Proof. eexists. split; vm_compute; reflexivity. Qed.

(* ---- induction-variable elimination (open finding C02-iv-elimination-guard): every side condition is needed.
   g(i, last) = if i op bound { g(i + inc, i * m) } else { last } *)
Definition f_iv (op : binop) (inv : bool) (inc m bound : Z) : func :=
  mkfunc [1%N; 2%N]
    [SWhile [(3%N, EVar 1%N, EVar 6%N); (4%N, EVar 2%N, EVar 7%N)]
       [SBin 5%N op (EVar 3%N) (EInt bound);
        SSIf (EVar 5%N) inv [SBreak (EVar 4%N)];
        SBin 6%N PLUS (EVar 3%N) (EInt inc);
        SBin 7%N MUL (EVar 3%N) (EInt m)]
       (Some 8%N)]
    (EVar 8%N).

(* (a) the replaced guard is not `<`: `if i > 10 { last } else { g(i + 1, i * 3) }` from 0 is 30, optimised 27 *)
Lemma ive_guard_operator_refuted :
  exists f f' fl,
    wf_func f = true /\ loop_pass sup0 f = Some (f', fl) /\ f_ive fl = 1%N /\
    sem All ww f [0; 0] 40 = Done 30 [] /\ sem Wrap ww f' [0; 0] 40 = Done 27 [].
Proof. exists (f_iv GT false 1 3 10). eexists. eexists. chain. Qed.

(* (b) `<` and a negative multiplier *)
Lemma ive_negative_multiplier_refuted :
  exists f f' fl,
    wf_func f = true /\ loop_pass sup0 f = Some (f', fl) /\ f_ive fl = 1%N /\
    sem All ww f [0; 7] 40 = Done (-18) [] /\ sem Wrap ww f' [0; 7] 40 = Done 7 [].
Proof. exists (f_iv LT true 1 (-2) 10). eexists. eexists. chain. Qed.

(* (c) `<`, positive constant multiplier, but multiplier * bound is not representable: 3 * 715827883 wraps *)
Lemma ive_bound_overflow_refuted :
  exists f f' fl,
    wf_func f = true /\ loop_pass sup0 f = Some (f', fl) /\ f_ive fl = 1%N /\
    sem All ww f [715827880; 0] 40 = Done 2147483646 [] /\ sem Wrap ww f' [715827880; 0] 40 = Done 0 [].
Proof. exists (f_iv LT true 1 3 715827883). eexists. eexists. chain. Qed.

(* (d) multiplier * initial value is not representable, on a loop that is left at once (the original never
   multiplies): the optimised loop keeps running *)
Lemma ive_initial_overflow_refuted :
  exists f f' fl,
    wf_func f = true /\ loop_pass sup0 f = Some (f', fl) /\ f_ive fl = 1%N /\
    sem All ww f [1000000000; 77] 40 = Done 77 [] /\ sem Wrap ww f' [1000000000; 77] 40 = OutOfFuel.
Proof. exists (f_iv LT true 1 3 5). eexists. eexists. chain. Qed.

(* (e) all of bound, initial value and their products fine, but the product at the value with which the loop is
   left (406 = 0 + 7 * 58, above the bound 400) is not: 5368709 * 406 wraps *)
Lemma ive_exit_overflow_refuted :
  exists f f' fl,
    wf_func f = true /\ loop_pass sup0 f = Some (f', fl) /\ f_ive fl = 1%N /\
    in32 (5368709 * 400) /\ in32 (5368709 * 0) /\
    sem All ww f [0; 0] 100 = Done 2142114891 [] /\ sem Wrap ww f' [0; 0] 100 = OutOfFuel.
Proof.
  exists (f_iv LT true 7 5368709 400). eexists. eexists.
  split; [vmr|]. split; [vmr|]. split; [vmr|]. split; [vm_compute; split; intros H; discriminate H|].
  split; [vm_compute; split; intros H; discriminate H|]. chain.
Qed.

(* ---- the closed form: the side condition "the exit value is representable" is needed.  i from 2^30+5 by 2^30+1
   while i < 2^30+10, j counts the iterations: the closed form says 1, the wrapping loop takes 8 *)
Definition o_alg_wrap : owl :=
  mkowl (mkbivg 1%N (EInt 1073741829) (PInt 1073741825) GLT (PInt 1073741834))
        [mkgiv 2%N (EInt 0) (PInt 1)] [] [] [] (Some (9%N, EVar 2%N)).
Lemma alg_exit_condition_needed :
  exists stmts sup' W,
    alg o_alg_wrap sup0 = Some (stmts, sup') /\ fst (expand o_alg_wrap sup0) = W /\
    trip GLT 1073741829 1073741825 1073741834 = Some 1 /\ ~ in32 (1073741829 + 1073741825 * 1) /\
    (exists e1, exec Wrap ww 40 W [] [] = RNext e1 [] /\ lookup 9%N e1 = 8) /\
    (exists e2, exec_block Wrap ww 40 stmts [] [] = RNext e2 [] /\ lookup 9%N e2 = 1).
Proof.
  eexists. eexists. eexists. split; [vm_compute; reflexivity|]. split; [reflexivity|]. split; [vm_compute; reflexivity|].
  split; [vm_compute; intros [_ H]; apply H; reflexivity|].
  split; eexists; chain.
Qed.

(* ---- non-vacuity: a loop on which every sub-pass does something, in the current code.
   for i from a while i < 20 step 2: k = i * 3 + 1 (derived, strength-reduced), j += 5 (second basic induction
   variable), q = a * 7 (invariant: hoisted), acc = acc + k; f0(j) is called *)
Definition f_all : func :=
  mkfunc [1%N]
    [SWhile [(2%N, EVar 1%N, EVar 10%N); (3%N, EInt 0, EVar 11%N); (4%N, EInt 0, EVar 9%N)]
       [SBin 5%N GE (EVar 2%N) (EInt 20);
        SSIf (EVar 5%N) false [SBreak (EVar 4%N)];
        SBin 6%N MUL (EVar 1%N) (EInt 7);
        SBin 7%N MUL (EVar 2%N) (EInt 3);
        SBin 8%N PLUS (EVar 7%N) (EInt 1);
        SCall 0%N [EVar 3%N; EVar 6%N] None;
        SBin 9%N PLUS (EVar 4%N) (EVar 8%N);
        SBin 10%N PLUS (EVar 2%N) (EInt 2);
        SBin 11%N PLUS (EVar 3%N) (EInt 5)]
       (Some 12%N)]
    (EVar 12%N).
Lemma loop_pass_nonvacuous :
  exists f' fl,
    wf_func f_all = true /\ loop_pass sup0 f_all = Some (f', fl) /\
    f_licm fl = 1%N /\ f_extract fl = 1%N /\ f_sr fl = 1%N /\ f' <> f_all /\
    classes_func f_all = [0; 0; 0; 0; 0; 0; 0; 1]%N /\
    sem All ww f_all [14] 20 = sem Wrap ww f' [14] 20 /\
    sem All ww f_all [14] 20 = Done 147 [(0%N, [10; 98]); (0%N, [5; 98]); (0%N, [0; 98])].
Proof.
  eexists. eexists. split; [vm_compute; reflexivity|]. split; [vm_compute; reflexivity|].
  split; [vmr|]. split; [vmr|]. split; [vmr|]. split; [intros H; discriminate H|]. chain.
Qed.

(* a counting loop with literal bounds is replaced by its closed form *)
Definition f_count : func :=
  mkfunc []
    [SWhile [(2%N, EInt 3, EVar 5%N); (3%N, EInt 100, EVar 6%N)]
       [SBin 4%N LE (EVar 2%N) (EInt (-10));
        SSIf (EVar 4%N) false [SBreak (EVar 3%N)];
        SBin 5%N PLUS (EVar 2%N) (EInt (-4));
        SBin 6%N PLUS (EVar 3%N) (EInt 7)]
       (Some 7%N)]
    (EVar 7%N).
Lemma alg_nonvacuous :
  exists f' fl,
    wf_func f_count = true /\ loop_pass sup0 f_count = Some (f', fl) /\ f_alg fl = 1%N /\
    f_body f' = [SBin 101%N MUL (EInt 7) (EInt 4); SBin 7%N PLUS (EVar 101%N) (EInt 100)] /\
    sem All ww f_count [] 20 = Done 128 [] /\ sem Wrap ww f' [] 20 = Done 128 [].
Proof. eexists. eexists. chain. Qed.
