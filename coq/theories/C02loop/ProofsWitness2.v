(* C02loop — witnesses for the function-level theorem *)
From Coq Require Import ZArith NArith List Bool.
Import ListNotations.
From SV Require Import Common.Int32 C02deep.Syntax C02deep.Sem C02deep.ProofsSem C02deep.ProofsCcp C02loop.Driver C02loop.Classes C02loop.ProofsWitness
  C02loop.Cover C02loop.ProofsCompose C02loop.ProofsCover.
Open Scope Z_scope.

Ltac vmr := vm_compute; reflexivity.
Ltac chain := lazymatch goal with |- _ /\ _ => split; [vmr | chain] | |- _ => vmr end.

(* the function-level theorem is not vacuous: strength reduction with a kept defining statement (f_all), the closed
   form (f_count) *)
Lemma loop_pass_covered_nonvacuous :
  wf_func f_all = true /\ loop_pass_covered sup0 f_all = true /\
  wf_func f_count = true /\ loop_pass_covered sup0 f_count = true /\
  nth 7 (classes_func f_all) 0%N = 1%N.
Proof. chain. Qed.

(* the loop pass does NOT preserve "no + / - overflow" (C02deep.refines_add): strength reduction advances the reduced
   variable once more than the original loop computes it, and that last (unused) value may not be representable.
   d = i * 10^9 for i = 0, 1, 2 is representable; the reduced loop also computes 2 * 10^9 + 10^9.  So the loop pass
   composes with the other passes only as the last stage (refines_add_then_loop), or the passes after it have to
   be proved on the wrapping semantics. *)
Definition f_sr_add : func :=
  mkfunc [1%N]
    [SWhile [(2%N, EVar 1%N, EVar 6%N); (3%N, EInt 0, EVar 7%N)]
       [SBin 4%N GE (EVar 2%N) (EInt 3);
        SSIf (EVar 4%N) false [SBreak (EVar 3%N)];
        SBin 5%N MUL (EVar 2%N) (EInt 1000000000);
        SCall 0%N [EVar 5%N; EVar 2%N] None;
        SBin 6%N PLUS (EVar 2%N) (EInt 1);
        SBin 7%N PLUS (EVar 3%N) (EInt 1)]
       (Some 8%N)]
    (EVar 8%N).
Lemma loop_pass_add_refuted :
  exists f f' fl,
    wf_func f = true /\ loop_pass_covered sup0 f = true /\ loop_pass sup0 f = Some (f', fl) /\ f_sr fl = 1%N /\
    sem All ww f [0] 40 = Done 3 [(0%N, [2000000000; 2]); (0%N, [1000000000; 1]); (0%N, [0; 0])] /\
    sem Wrap ww f' [0] 40 = Done 3 [(0%N, [2000000000; 2]); (0%N, [1000000000; 1]); (0%N, [0; 0])] /\
    sem Add ww f' [0] 40 = Overflow.
Proof. exists f_sr_add. eexists. eexists. chain. Qed.
Lemma loop_pass_not_refines_add :
  exists f f' fl, wf_func f = true /\ loop_pass sup0 f = Some (f', fl) /\ ~ refines_add ww f' f.
Proof.
  destruct loop_pass_add_refuted as (f & f' & fl & H1 & _ & H2 & _ & H3 & _ & H4).
  exists f, f', fl. split; [exact H1|]. split; [exact H2|]. intros R.
  assert (Ha : sem Add ww f [0] 40 = Done 3 [(0%N, [2000000000; 2]); (0%N, [1000000000; 1]); (0%N, [0; 0])]).
  { apply (sem_weaken Add All); [apply mode_le_All | exact H3]. }
  apply R in Ha. rewrite H4 in Ha. discriminate.
Qed.
