(* C02loop — one iteration of the loop that Driver.expand builds (ProofsExpand.xloop), described once: the
   guard, the body statements, and the tail (collector statements of the basic induction variables, statements
   that recompute the derived induction variables), with the values the loop variables get for the next
   iteration.  Used by the theorems about the rewrites between expanded loops. *)
From Coq Require Import ZArith NArith List Bool Lia Morphisms Setoid.
Import ListNotations.
From SV Require Import Common.Int32 C02.Kernels C02deep.Syntax C02deep.Sem C02deep.Passes C02deep.ProofsSem
  C02deep.ProofsScope C02loop.Analysis C02loop.Algebraic C02loop.StrengthIv C02loop.Driver
  C02loop.ProofsBase C02loop.ProofsAnalysis C02loop.ProofsExpand C02loop.ProofsAlgebraic.
Open Scope Z_scope.

Section Tail.
  Variables (w : world) (fuel : nat).
  Notation exec_block := (exec_block Wrap w fuel).

  (* the environment after the statements that recompute the derived induction variables *)
  Fixpoint denv (ds : list divn) (ts : list name) (e : env) : env :=
    match ds, ts with
    | d :: r, t :: tr =>
        let e1 := (t, wrap32 (eval w e (EVar (dn_base d)) * pv w e (dn_mult d))) :: e in
        denv r tr ((dn_name d, wrap32 (eval w e1 (EVar t) + pv w e1 (dn_imm d))) :: e1)
    | _, _ => e
    end.
  Lemma exec_derived ds : forall ts e tr, exec_block (derived_stmts ds ts) e tr = RNext (denv ds ts e) tr.
  Proof.
    induction ds as [|d r IH]; intros [|t tr'] e tr; try reflexivity.
    cbn [derived_stmts denv]. rewrite exec_block_cons, exec_bin_flex, exec_mul_wrap, exec_block_cons, exec_bin_flex, exec_plus_wrap.
    apply IH.
  Qed.

  (* names bound by the tail *)
  Definition dnames (ds : list divn) (ts : list name) : list name := firstn (length ds) ts ++ map dn_name ds.
  Lemma denv_outside ds : forall ts e y,
    ~ In y ts -> ~ In y (map dn_name ds) -> lookup y (denv ds ts e) = lookup y e.
  Proof.
    induction ds as [|d r IH]; intros [|t tr'] e y Ht Hd; try reflexivity. cbn [denv]. cbn in Ht, Hd.
    rewrite IH by tauto. rewrite !lookup_cons_ne; [reflexivity| |]; intros ->; tauto.
  Qed.

  (* the value of a recomputed derived induction variable: multiplier * base + immediate, read in front of the tail,
     provided the tail binds nothing that the statement reads (fresh temporaries, names distinct) *)
  Lemma denv_value ds : forall ts e d,
    length ts = length ds -> NoDup (ts ++ map dn_name ds) -> In d ds ->
    (forall y, In y (ts ++ map dn_name ds) -> forall d0, In d0 ds ->
               y <> dn_base d0 /\ dn_mult d0 <> PVar y /\ dn_imm d0 <> PVar y) ->
    eq32 (lookup (dn_name d) (denv ds ts e)) (pv w e (dn_mult d) * lookup (dn_base d) e + pv w e (dn_imm d)).
  Proof.
    induction ds as [|d0 r IH]; intros [|t tr'] e d Hlen Hnd Hi Hfr; try contradiction; try discriminate.
    cbn [denv]. cbn [map app] in Hnd, Hfr. inversion Hnd as [|? ? Hnt Hnd']; subst.
    assert (Hnd_r : NoDup (tr' ++ map dn_name r)).
    { apply NoDup_remove_1 in Hnd'. exact Hnd'. }
    assert (Hd0 : ~ In (dn_name d0) (tr' ++ map dn_name r)).
    { apply NoDup_remove_2 in Hnd'. exact Hnd'. }
    set (e1 := (t, wrap32 (eval w e (EVar (dn_base d0)) * pv w e (dn_mult d0))) :: e).
    set (e2 := (dn_name d0, wrap32 (eval w e1 (EVar t) + pv w e1 (dn_imm d0))) :: e1).
    assert (Hpv : forall p, p <> PVar t -> p <> PVar (dn_name d0) -> pv w e2 p = pv w e p).
    { intros [z|x] H1 H2; [reflexivity|]. rewrite !pv_var. f_equal. unfold e2, e1.
      rewrite !lookup_cons_ne; auto; intros ->; congruence. }
    destruct Hi as [->|Hi].
    - (* the first one: later statements do not touch it *)
      rewrite denv_outside.
      + unfold e2. rewrite lookup_cons_eq, eq32_wrap. unfold e1. rewrite eval_var, lookup_cons_eq, !eq32_wrap.
        assert (E : pv w ((t, wrap32 (eval w e (EVar (dn_base d)) * pv w e (dn_mult d))) :: e) (dn_imm d) = pv w e (dn_imm d)).
        { destruct (dn_imm d) as [z|x] eqn:Ei; [reflexivity|]. rewrite !pv_var. f_equal. apply lookup_cons_ne.
          intros ->. destruct (Hfr t (or_introl eq_refl) d (or_introl eq_refl)) as (_ & _ & H). congruence. }
        rewrite E, eval_var, !eq32_wrap. apply eq32_eq. ring.
      + intros Hc. apply Hd0. apply in_or_app. now left.
      + intros Hc. apply Hd0. apply in_or_app. now right.
    - assert (Hlen' : length tr' = length r) by (cbn in Hlen; lia).
      assert (Hfr' : forall y, In y (tr' ++ map dn_name r) -> forall d1, In d1 r ->
                       y <> dn_base d1 /\ dn_mult d1 <> PVar y /\ dn_imm d1 <> PVar y).
      { intros y Hy d1 Hd1. apply Hfr; [|now right]. right. rewrite in_app_iff in *. cbn. tauto. }
      rewrite (IH tr' e2 d Hlen' Hnd_r Hi Hfr').
      assert (Hy : forall y, y = t \/ y = dn_name d0 -> In y (t :: tr' ++ dn_name d0 :: map dn_name r)).
      { intros y [-> | ->]; [now left | right; apply in_or_app; right; now left]. }
      destruct (Hfr t (Hy t (or_introl eq_refl)) d (or_intror Hi)) as (Hb1 & Hm1 & Hi1).
      destruct (Hfr (dn_name d0) (Hy _ (or_intror eq_refl)) d (or_intror Hi)) as (Hb2 & Hm2 & Hi2).
      rewrite !Hpv by congruence. unfold e2, e1. rewrite !lookup_cons_ne by congruence. reflexivity.
  Qed.
End Tail.
