(* C02loop — one iteration of the loop that Driver.expand builds (ProofsExpand.xloop), described once: the
   guard, the body statements, and the tail (collector statements of the basic induction variables, statements
   that recompute the derived induction variables), with the values the loop variables get for the next
   iteration.  Used by the theorems about the rewrites between expanded loops. *)
From Coq Require Import ZArith NArith List Bool Lia Morphisms Setoid.
Import ListNotations.
From SV Require Import Common.Int32 C02.Kernels C02deep.Syntax C02deep.Sem C02deep.Passes C02deep.ProofsSem
  C02deep.ProofsScope C02loop.Analysis C02loop.Algebraic C02loop.StrengthIv C02loop.Driver
  C02loop.ProofsBase C02loop.ProofsAnalysis C02loop.ProofsExpand C02loop.ProofsAlgebraic.
Open Scope Z_scope.

Section Tail.
  Variables (w : world) (fuel : nat).
  Notation exec_block := (exec_block Wrap w fuel).

  (* the environment after the statements that recompute the derived induction variables *)
  Fixpoint denv (ds : list divn) (ts : list name) (e : env) : env :=
    match ds, ts with
    | d :: r, t :: tr =>
        let e1 := (t, wrap32 (eval w e (EVar (dn_base d)) * pv w e (dn_mult d))) :: e in
        denv r tr ((dn_name d, wrap32 (eval w e1 (EVar t) + pv w e1 (dn_imm d))) :: e1)
    | _, _ => e
    end.
  Lemma exec_derived ds : forall ts e tr, exec_block (derived_stmts ds ts) e tr = RNext (denv ds ts e) tr.
  Proof.
    induction ds as [|d r IH]; intros [|t tr'] e tr; try reflexivity.
    cbn [derived_stmts denv]. rewrite exec_block_cons, exec_bin_flex, exec_mul_wrap, exec_block_cons, exec_bin_flex, exec_plus_wrap.
    apply IH.
  Qed.

  (* names bound by the tail *)
  Definition dnames (ds : list divn) (ts : list name) : list name := firstn (length ds) ts ++ map dn_name ds.
  Lemma denv_outside ds : forall ts e y,
    ~ In y ts -> ~ In y (map dn_name ds) -> lookup y (denv ds ts e) = lookup y e.
  Proof.
    induction ds as [|d r IH]; intros [|t tr'] e y Ht Hd; try reflexivity. cbn [denv]. cbn in Ht, Hd.
    rewrite IH by tauto. rewrite !lookup_cons_ne; [reflexivity| |]; intros ->; tauto.
  Qed.

  (* the value of a recomputed derived induction variable: multiplier * base + immediate, read in front of the tail,
     provided the tail binds nothing that the statement reads (fresh temporaries, names distinct) *)
  Lemma denv_value ds : forall ts e d,
    length ts = length ds -> NoDup (ts ++ map dn_name ds) -> In d ds ->
    (forall y, In y (ts ++ map dn_name ds) -> forall d0, In d0 ds ->
               y <> dn_base d0 /\ dn_mult d0 <> PVar y /\ dn_imm d0 <> PVar y) ->
    eq32 (lookup (dn_name d) (denv ds ts e)) (pv w e (dn_mult d) * lookup (dn_base d) e + pv w e (dn_imm d)).
  Proof.
    induction ds as [|d0 r IH]; intros [|t tr'] e d Hlen Hnd Hi Hfr; try contradiction; try discriminate.
    cbn [denv]. cbn [map app] in Hnd, Hfr. inversion Hnd as [|? ? Hnt Hnd']; subst.
    assert (Hnd_r : NoDup (tr' ++ map dn_name r)).
    { apply NoDup_remove_1 in Hnd'. exact Hnd'. }
    assert (Hd0 : ~ In (dn_name d0) (tr' ++ map dn_name r)).
    { apply NoDup_remove_2 in Hnd'. exact Hnd'. }
    set (e1 := (t, wrap32 (eval w e (EVar (dn_base d0)) * pv w e (dn_mult d0))) :: e).
    set (e2 := (dn_name d0, wrap32 (eval w e1 (EVar t) + pv w e1 (dn_imm d0))) :: e1).
    assert (Hpv : forall p, p <> PVar t -> p <> PVar (dn_name d0) -> pv w e2 p = pv w e p).
    { intros [z|x] H1 H2; [reflexivity|]. rewrite !pv_var. f_equal. unfold e2, e1.
      rewrite !lookup_cons_ne; auto; intros ->; congruence. }
    destruct Hi as [->|Hi].
    - (* the first one: later statements do not touch it *)
      rewrite denv_outside.
      + unfold e2. rewrite lookup_cons_eq, eq32_wrap. unfold e1. rewrite eval_var, lookup_cons_eq, !eq32_wrap.
        assert (E : pv w ((t, wrap32 (eval w e (EVar (dn_base d)) * pv w e (dn_mult d))) :: e) (dn_imm d) = pv w e (dn_imm d)).
        { destruct (dn_imm d) as [z|x] eqn:Ei; [reflexivity|]. rewrite !pv_var. f_equal. apply lookup_cons_ne.
          intros ->. destruct (Hfr t (or_introl eq_refl) d (or_introl eq_refl)) as (_ & _ & H). congruence. }
        rewrite E, eval_var, !eq32_wrap. apply eq32_eq. ring.
      + intros Hc. apply Hd0. apply in_or_app. now left.
      + intros Hc. apply Hd0. apply in_or_app. now right.
    - assert (Hlen' : length tr' = length r) by (cbn in Hlen; lia).
      assert (Hfr' : forall y, In y (tr' ++ map dn_name r) -> forall d1, In d1 r ->
                       y <> dn_base d1 /\ dn_mult d1 <> PVar y /\ dn_imm d1 <> PVar y).
      { intros y Hy d1 Hd1. apply Hfr; [|now right]. right. rewrite in_app_iff in *. cbn. tauto. }
      rewrite (IH tr' e2 d Hlen' Hnd_r Hi Hfr').
      assert (Hy : forall y, y = t \/ y = dn_name d0 -> In y (t :: tr' ++ dn_name d0 :: map dn_name r)).
      { intros y [-> | ->]; [now left | right; apply in_or_app; right; now left]. }
      destruct (Hfr t (Hy t (or_introl eq_refl)) d (or_intror Hi)) as (Hb1 & Hm1 & Hi1).
      destruct (Hfr (dn_name d0) (Hy _ (or_intror eq_refl)) d (or_intror Hi)) as (Hb2 & Hm2 & Hi2).
      rewrite !Hpv by congruence. unfold e2, e1. rewrite !lookup_cons_ne by congruence. reflexivity.
  Qed.

  (* ---- the whole tail of an expanded loop ---- *)
  Definition xtail (o : owl) (coll : name) (gcs : list (giv * name)) (ts : list name) : list stmt :=
    [coll_stmt coll (bg_name (o_basic o)) (bg_inc (o_basic o))] ++ gcoll_stmts gcs ++ derived_stmts (o_derived o) ts.
  Definition tail_env (o : owl) (coll : name) (gcs : list (giv * name)) (ts : list name) (a : env) : env :=
    denv (o_derived o) ts
      (colls_env w gcs ((coll, wrap32 (eval w a (EVar (bg_name (o_basic o))) + pv w a (bg_inc (o_basic o)))) :: a)).
  Lemma exec_xtail o coll gcs ts a tr :
    exec_block (xtail o coll gcs ts) a tr = RNext (tail_env o coll gcs ts a) tr.
  Proof.
    unfold xtail, tail_env. rewrite exec_block_app, exec_block_single, exec_coll_stmt, exec_block_app, exec_gcolls.
    apply exec_derived.
  Qed.

  (* the body of an expanded loop: guard, statements, tail *)
  Lemma xbody_split o coll cc gcs ts :
    xbody o coll cc gcs ts = guard_stmts (o_basic o) cc (bv_of o) ++ o_stmts o ++ xtail o coll gcs ts.
  Proof. reflexivity. Qed.

  Section TailValues.
    Variables (o : owl) (coll : name) (gcs : list (giv * name)) (ts : list name) (a : env).
    Let i := bg_name (o_basic o).
    Let CN := map snd gcs.
    Let DN := map dn_name (o_derived o).
    Hypothesis Hlen : length ts = length (o_derived o).
    Hypothesis Hnd1 : NoDup (coll :: CN).
    Hypothesis Hnd2 : NoDup (ts ++ DN).
    (* the temporaries are new *)
    Hypothesis Hfresh : forall y, In y (coll :: CN ++ ts) ->
      y <> i /\ ~ In y (map (fun vn => gi_name (fst vn)) gcs) /\ ~ In y DN /\
      bg_inc (o_basic o) <> PVar y /\
      (forall v n, In (v, n) gcs -> gi_inc v <> PVar y) /\
      (forall d, In d (o_derived o) -> y <> dn_base d /\ dn_mult d <> PVar y /\ dn_imm d <> PVar y).
    (* a recomputed derived variable is not read by the recomputation of another one *)
    Hypothesis Hdn : forall y, In y DN -> forall d, In d (o_derived o) ->
      y <> dn_base d /\ dn_mult d <> PVar y /\ dn_imm d <> PVar y.
    Hypothesis Hcoll_ts : forall y, In y (coll :: CN) -> ~ In y ts.

    Let e0 := (coll, wrap32 (eval w a (EVar i) + pv w a (bg_inc (o_basic o)))) :: a.
    Let e1 := colls_env w gcs e0.

    Lemma tail_coll : lookup coll (tail_env o coll gcs ts a) = wrap32 (eval w a (EVar i) + pv w a (bg_inc (o_basic o))).
    Proof.
      unfold tail_env. fold i. fold e0. fold e1.
      destruct (Hfresh coll (or_introl eq_refl)) as (_ & _ & Hd & _).
      rewrite denv_outside; [|apply Hcoll_ts; now left|exact Hd].
      unfold e1. rewrite colls_env_outside by (inversion Hnd1; assumption). unfold e0. apply lookup_cons_eq.
    Qed.

    Lemma tail_gcoll v n : In (v, n) gcs ->
      lookup n (tail_env o coll gcs ts a) = wrap32 (eval w a (EVar (gi_name v)) + pv w a (gi_inc v)).
    Proof.
      intros Hi. unfold tail_env. fold i. fold e0. fold e1.
      assert (HnC : In n CN) by (unfold CN; apply in_map_iff; exists (v, n); auto).
      assert (HnF : In n (coll :: CN ++ ts)) by (right; apply in_or_app; now left).
      destruct (Hfresh n HnF) as (_ & _ & Hd & _).
      rewrite denv_outside; [|apply Hcoll_ts; now right|exact Hd].
      unfold e1. rewrite (colls_env_value w gcs e0 v n); [| inversion Hnd1; assumption | exact Hi | |].
      - assert (Hcf : In coll (coll :: CN ++ ts)) by now left.
        destruct (Hfresh coll Hcf) as (_ & Hg & _ & _ & Hinc & _).
        assert (E1 : eval w e0 (EVar (gi_name v)) = eval w a (EVar (gi_name v))).
        { rewrite !eval_var. f_equal. unfold e0. apply lookup_cons_ne. intros E. apply Hg. rewrite <- E.
          apply in_map_iff. exists (v, n). auto. }
        assert (E2 : pv w e0 (gi_inc v) = pv w a (gi_inc v)).
        { destruct (gi_inc v) as [z|x] eqn:Ei; [reflexivity|]. rewrite !pv_var. f_equal. unfold e0. apply lookup_cons_ne.
          intros E. apply (Hinc v n Hi). now rewrite Ei, E. }
        now rewrite E1, E2.
      - intros y Hy E. assert (HyF : In y (coll :: CN ++ ts)) by (right; apply in_or_app; now left).
        destruct (Hfresh y HyF) as (_ & Hg & _). apply Hg. rewrite E. apply in_map_iff. exists (v, n). auto.
      - intros y x Hy Ex E. assert (HyF : In y (coll :: CN ++ ts)) by (right; apply in_or_app; now left).
        destruct (Hfresh y HyF) as (_ & _ & _ & _ & Hinc & _). apply (Hinc v n Hi). now rewrite Ex, E.
    Qed.

    Lemma tail_outside y : y <> coll -> ~ In y CN -> ~ In y ts -> ~ In y DN ->
      lookup y (tail_env o coll gcs ts a) = lookup y a.
    Proof.
      intros H1 H2 H3 H4. unfold tail_env. fold i. fold e0. fold e1. rewrite denv_outside by assumption.
      unfold e1. rewrite colls_env_outside by assumption. unfold e0. now apply lookup_cons_ne.
    Qed.

    Lemma tail_derived d : In d (o_derived o) ->
      eq32 (lookup (dn_name d) (tail_env o coll gcs ts a)) (pv w a (dn_mult d) * lookup (dn_base d) a + pv w a (dn_imm d)).
    Proof.
      intros Hd. unfold tail_env. fold i. fold e0. fold e1.
      rewrite (denv_value (o_derived o) ts e1 d Hlen Hnd2 Hd).
      - assert (Hout : forall y, y <> coll -> ~ In y CN -> lookup y e1 = lookup y a).
        { intros y H1 H2. unfold e1. rewrite colls_env_outside by assumption. unfold e0. now apply lookup_cons_ne. }
        assert (Hne : forall y, In y (coll :: CN) -> y <> dn_base d /\ dn_mult d <> PVar y /\ dn_imm d <> PVar y).
        { intros y Hy. assert (HyF : In y (coll :: CN ++ ts)) by (destruct Hy; [now left | right; apply in_or_app; now left]).
          destruct (Hfresh y HyF) as (_ & _ & _ & _ & _ & H). now apply H. }
        assert (Hpv : forall p, (forall y, In y (coll :: CN) -> p <> PVar y) -> pv w e1 p = pv w a p).
        { intros [z|x] Hp; [reflexivity|]. rewrite !pv_var. f_equal. apply Hout.
          - intros E. apply (Hp coll); [now left | now rewrite E].
          - intros Hc. apply (Hp x); [now right | reflexivity]. }
        rewrite !Hpv by (intros y Hy; apply (Hne y Hy)). rewrite Hout; [reflexivity| |].
        + intros E. destruct (Hne coll (or_introl eq_refl)) as (H & _). congruence.
        + intros Hc. destruct (Hne (dn_base d) (or_intror Hc)) as (H & _). congruence.
      - intros y Hy d0 Hd0. rewrite in_app_iff in Hy. destruct Hy as [Hy|Hy].
        + assert (HyF : In y (coll :: CN ++ ts)) by (right; apply in_or_app; now right).
          destruct (Hfresh y HyF) as (_ & _ & _ & _ & _ & H). now apply H.
        + now apply Hdn.
    Qed.
  End TailValues.
End Tail.
