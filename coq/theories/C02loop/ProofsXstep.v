(* C02loop — expanded loops of well-formed analysis results: one iteration and the values at the next head *)
From Coq Require Import ZArith NArith List Bool Lia Morphisms Setoid.
Import ListNotations.
From SV Require Import Common.Int32 C02.Kernels C02deep.Syntax C02deep.Sem C02deep.Passes C02deep.ProofsSem
  C02deep.ProofsScope C02deep.ProofsDceSets C02deep.ProofsDce
  C02loop.Analysis C02loop.Algebraic C02loop.StrengthIv C02loop.Driver
  C02loop.ProofsBase C02loop.ProofsAnalysis C02loop.ProofsExpand C02loop.ProofsAlgebraic C02loop.ProofsXloop
  C02loop.ProofsExtract C02loop.ProofsExtract2.
Open Scope Z_scope.

(* the names an analysis result talks about *)
Definition o_i (o : owl) : name := bg_name (o_basic o).
Definition o_GN (o : owl) : list name := map gi_name (o_general o).
Definition o_ON (o : owl) : list name := map t_name (o_others o).
Definition o_DN (o : owl) : list name := map dn_name (o_derived o).
Definition o_LN (o : owl) : list name := o_i o :: o_GN o ++ o_ON o.

(* v is one of the invariant operands recorded in the analysis result *)
Definition o_invvar (o : owl) (v : name) : Prop :=
  bg_inc (o_basic o) = PVar v \/ bg_guard (o_basic o) = PVar v \/
  (exists g, In g (o_general o) /\ gi_inc g = PVar v) \/
  (exists d, In d (o_derived o) /\ (dn_mult d = PVar v \/ dn_imm d = PVar v)).

(* internal consistency of an analysis result with respect to the names T0 that no loop built from it binds *)
Definition owl_wf (T0 : list name) (o : owl) : Prop :=
  NoDup (o_LN o) /\ NoDup (o_DN o) /\
  (forall x, In x (o_LN o ++ o_DN o ++ binders_l (o_stmts o)) -> ~ In x T0) /\
  (forall x, In x (o_DN o ++ binders_l (o_stmts o)) -> ~ In x (o_LN o)) /\
  (forall v, o_invvar o v -> In v T0) /\
  (forall d, In d (o_derived o) -> In (dn_base d) (o_i o :: o_GN o)).

Section XS.
  Variables (w : world) (fuel : nat) (T0 : list name) (o : owl).
  Variables (coll cc : name) (ns ts : list name).
  Let gcs := combine (kept_generals o) ns.
  Let XL := xlvs o coll gcs.
  Let stmts := o_stmts o.

  Hypothesis Hwf : owl_wf T0 o.
  Hypothesis Hfnd : NoDup (coll :: cc :: ns ++ ts).
  Hypothesis Hfout : forall y, In y (coll :: cc :: ns ++ ts) ->
    ~ In y T0 /\ ~ In y (o_LN o ++ o_DN o ++ binders_l (o_stmts o)).
  Hypothesis Hlen_ns : length ns = length (kept_generals o).
  Hypothesis Hlen_ts : length ts = length (o_derived o).

  Lemma xs_gcs_fst : map fst gcs = kept_generals o. Proof. unfold gcs. now apply map_fst_combine. Qed.
  Lemma xs_gcs_snd : map snd gcs = ns. Proof. unfold gcs. now apply map_snd_combine. Qed.
  Lemma xs_gcs_names : map (fun vn : giv * name => gi_name (fst vn)) gcs = map gi_name (kept_generals o).
  Proof. rewrite <- xs_gcs_fst, map_map. reflexivity. Qed.

  Lemma kept_general_in v : In v (kept_generals o) -> In v (o_general o).
  Proof. unfold kept_generals. intros H. apply filter_In in H. tauto. Qed.
  Lemma kept_GN x : In x (map gi_name (kept_generals o)) -> In x (o_GN o).
  Proof. intros H. apply in_map_iff in H. destruct H as (v & <- & Hv). apply in_map. now apply kept_general_in. Qed.

  Lemma xs_fresh y : In y (coll :: cc :: ns ++ ts) ->
    ~ In y T0 /\ ~ In y (o_LN o) /\ ~ In y (o_DN o) /\ ~ In y (binders_l stmts).
  Proof.
    intros Hy. destruct (Hfout y Hy) as [H1 H2]. repeat split; auto; intros Hc; apply H2; rewrite !in_app_iff; auto.
  Qed.

  Lemma xs_nd1 : NoDup (coll :: map snd gcs).
  Proof.
    rewrite xs_gcs_snd. inversion Hfnd as [|? ? Hn H]; subst. inversion H as [|? ? Hn2 H2]; subst. constructor.
    - intros Hc. apply Hn. right. apply in_or_app. now left.
    - eapply nd_app_l; eauto.
  Qed.
  Lemma xs_nd2 : NoDup (ts ++ map dn_name (o_derived o)).
  Proof.
    destruct Hwf as (_ & Hd & _). apply nd_app_intro; auto.
    - inversion Hfnd as [|? ? _ H]; subst. inversion H as [|? ? _ H2]; subst. eapply nd_app_r; eauto.
    - intros x H1 H2. assert (Hf : In x (coll :: cc :: ns ++ ts)) by (right; right; apply in_or_app; now right).
      destruct (xs_fresh x Hf) as (_ & _ & F & _). now apply F.
  Qed.
  Lemma xs_collts y : In y (coll :: map snd gcs) -> ~ In y ts.
  Proof.
    rewrite xs_gcs_snd. inversion Hfnd as [|? ? Hn H]; subst. inversion H as [|? ? Hn2 H2]; subst.
    intros [<-|Hy] Hc.
    - apply Hn. right. apply in_or_app. now right.
    - eapply (nd_app_disj _ _ y H2); eauto.
  Qed.
  Lemma xs_tlfresh y : In y (coll :: map snd gcs ++ ts) ->
    y <> bg_name (o_basic o) /\ ~ In y (map (fun vn : giv * name => gi_name (fst vn)) gcs) /\
    ~ In y (map dn_name (o_derived o)) /\ bg_inc (o_basic o) <> PVar y /\
    (forall v n, In (v, n) gcs -> gi_inc v <> PVar y) /\
    (forall d, In d (o_derived o) -> y <> dn_base d /\ dn_mult d <> PVar y /\ dn_imm d <> PVar y).
  Proof.
    rewrite xs_gcs_snd. intros Hy.
    assert (Hf : In y (coll :: cc :: ns ++ ts)) by (destruct Hy as [<-|Hy]; [now left | right; right; exact Hy]).
    destruct (xs_fresh y Hf) as (F1 & F2 & F3 & F4).
    destruct Hwf as (_ & _ & _ & _ & Hinv & Hbase).
    rewrite xs_gcs_names. repeat split.
    - intros ->. apply F2. now left.
    - intros Hc. apply F2. right. apply in_or_app. left. now apply kept_GN.
    - exact F3.
    - intros E. apply F1, Hinv. now left.
    - intros v n Hvn E. apply F1, Hinv. right. right. left. exists v. split; auto.
      apply kept_general_in. rewrite <- xs_gcs_fst. apply in_map_iff. exists (v, n). auto.
    - intros ->. apply F2. specialize (Hbase d H). destruct Hbase as [<-|Hb]; [now left|]. right. apply in_or_app. now left.
    - intros E. apply F1, Hinv. right. right. right. exists d. auto.
    - intros E. apply F1, Hinv. right. right. right. exists d. auto.
  Qed.
  Lemma xs_tldn y : In y (map dn_name (o_derived o)) -> forall d, In d (o_derived o) ->
    y <> dn_base d /\ dn_mult d <> PVar y /\ dn_imm d <> PVar y.
  Proof.
    intros Hy d Hd. destruct Hwf as (_ & _ & Hout & Hdl & Hinv & Hbase). repeat split.
    - intros ->. apply (Hdl (dn_base d)); [apply in_or_app; now left|].
      specialize (Hbase d Hd). destruct Hbase as [<-|Hb]; [now left|]. right. apply in_or_app. now left.
    - intros E. apply (Hout y); [rewrite !in_app_iff; auto|]. apply Hinv. right. right. right. exists d. auto.
    - intros E. apply (Hout y); [rewrite !in_app_iff; auto|]. apply Hinv. right. right. right. exists d. auto.
  Qed.

  (* the loop variables of the expanded loop *)
  Lemma xs_XL_names : map t_name XL =
    map t_name (filter (fun v => memb (t_name v) (useful_of o)) (o_others o)) ++ o_i o :: map gi_name (kept_generals o).
  Proof.
    unfold XL, xlvs. rewrite !map_app. cbn [map t_name fst]. rewrite map_map. cbn [t_name fst].
    rewrite <- xs_gcs_names. reflexivity.
  Qed.
  Lemma xs_XL_in_LN x : In x (map t_name XL) -> In x (o_LN o).
  Proof.
    rewrite xs_XL_names, in_app_iff. unfold o_LN. intros [H|[<-|H]].
    - right. apply in_or_app. right. apply in_map_iff in H. destruct H as (t & <- & Ht). apply filter_In in Ht. apply in_map. tauto.
    - now left.
    - right. apply in_or_app. left. now apply kept_GN.
  Qed.
  Lemma xs_XL_nodup : NoDup (map t_name XL).
  Proof.
    rewrite xs_XL_names. destruct Hwf as (Hnd & _). unfold o_LN in Hnd. inversion Hnd as [|? ? Hni Hnd']; subst.
    apply nd_app_intro.
    - apply NoDup_map_filter. eapply nd_app_r; eauto.
    - constructor.
      + intros Hc. apply Hni. apply in_or_app. left. now apply kept_GN.
      + unfold kept_generals. apply NoDup_map_filter. eapply nd_app_l; eauto.
    - intros x H1 [<-|H2].
      + apply Hni. apply in_or_app. right. apply in_map_iff in H1. destruct H1 as (t & <- & Ht). apply filter_In in Ht. apply in_map. tauto.
      + apply (nd_app_disj _ _ x Hnd'); [now apply kept_GN|].
        apply in_map_iff in H1. destruct H1 as (t & <- & Ht). apply filter_In in Ht. apply in_map. tauto.
  Qed.

  (* one iteration of the expanded loop *)
  Definition XG (e : env) : bool :=
    guard_holds (bg_op (o_basic o)) (wrap32 (lookup (o_i o) e)) (pv w e (bg_guard (o_basic o))).
  Lemma xbody_exec e tr : exists c : bool,
    let a := (cc, b2z c) :: e in
    exec_block Wrap w fuel (xbody o coll cc gcs ts) e tr =
    if XG e then match exec_block Wrap w fuel stmts a tr with
                 | RNext a2 t => RNext (tail_env w o coll gcs ts a2) t
                 | r => r
                 end
    else RBreak (eval w a (bv_of o)) a tr.
  Proof.
    destruct (exec_guard_stmts Wrap w fuel (o_basic o) cc (bv_of o) e tr) as (c & H). exists c. cbn zeta in *.
    rewrite xbody_split, exec_block_app, H. fold (o_i o). fold (XG e). destruct (XG e); [|reflexivity].
    rewrite exec_block_app. fold stmts. destruct (exec_block Wrap w fuel stmts _ tr); try reflexivity.
    apply exec_xtail.
  Qed.

  (* the values at the next head, a2 the environment after the body statements *)
  Lemma xnext_i a2 :
    lookup (o_i o) (bind_e2 w XL (tail_env w o coll gcs ts a2)) =
    wrap32 (wrap32 (eval w a2 (EVar (o_i o)) + pv w a2 (bg_inc (o_basic o)))).
  Proof.
    assert (Hin : In (o_i o, bg_init (o_basic o), EVar coll) XL).
    { unfold XL, xlvs. apply in_or_app. right. apply in_or_app. left. now left. }
    change (o_i o) with (t_name (o_i o, bg_init (o_basic o), EVar coll)) at 1.
    rewrite (bind_e2_in w XL _ _ xs_XL_nodup Hin). cbn [t_e2 snd]. rewrite eval_var.
    now rewrite (tail_coll w o coll gcs ts a2 xs_nd1 xs_tlfresh xs_collts).
  Qed.
  Lemma xnext_g a2 v n : In (v, n) gcs ->
    lookup (gi_name v) (bind_e2 w XL (tail_env w o coll gcs ts a2)) =
    wrap32 (wrap32 (eval w a2 (EVar (gi_name v)) + pv w a2 (gi_inc v))).
  Proof.
    intros Hvn.
    assert (Hin : In (gi_name v, gi_init v, EVar n) XL).
    { unfold XL, xlvs. apply in_or_app. right. apply in_or_app. right. apply in_map_iff. exists (v, n). auto. }
    change (gi_name v) with (t_name (gi_name v, gi_init v, EVar n)) at 1.
    rewrite (bind_e2_in w XL _ _ xs_XL_nodup Hin). cbn [t_e2 snd]. rewrite eval_var.
    now rewrite (tail_gcoll w o coll gcs ts a2 xs_nd1 xs_tlfresh xs_collts v n Hvn).
  Qed.
  Lemma xnext_o a2 k : In k (o_others o) -> In (t_name k) (useful_of o) ->
    lookup (t_name k) (bind_e2 w XL (tail_env w o coll gcs ts a2)) = eval w (tail_env w o coll gcs ts a2) (t_e2 k).
  Proof.
    intros Hk Hu. apply bind_e2_in; [apply xs_XL_nodup|]. unfold XL, xlvs. apply in_or_app. left. apply filter_In. split; auto.
    now apply memb_In.
  Qed.
  Lemma xnext_out a2 y : ~ In y (o_LN o) ->
    lookup y (bind_e2 w XL (tail_env w o coll gcs ts a2)) = lookup y (tail_env w o coll gcs ts a2).
  Proof. intros Hy. unfold bind_e2. apply lookup_bind_notin. intros Hc. apply Hy. now apply xs_XL_in_LN. Qed.

  (* the tail leaves everything else alone *)
  Lemma xtail_out a2 y : ~ In y (coll :: cc :: ns ++ ts) -> ~ In y (o_DN o) ->
    lookup y (tail_env w o coll gcs ts a2) = lookup y a2.
  Proof.
    intros Hy Hd. apply tail_outside; auto.
    - intros ->. apply Hy. now left.
    - rewrite xs_gcs_snd. intros Hc. apply Hy. right. right. apply in_or_app. now left.
    - intros Hc. apply Hy. right. right. apply in_or_app. now right.
  Qed.
  Lemma xtail_derived a2 d : In d (o_derived o) ->
    eq32 (lookup (dn_name d) (tail_env w o coll gcs ts a2)) (pv w a2 (dn_mult d) * lookup (dn_base d) a2 + pv w a2 (dn_imm d)).
  Proof. apply (tail_derived w o coll gcs ts a2 Hlen_ts xs_nd2 xs_tlfresh xs_tldn). Qed.
End XS.
