(* C02loop — property theorems (being written) *)
From Coq Require Import ZArith NArith List Bool.
Import ListNotations.
From SV Require Import Common.Int32 C02deep.Syntax C02deep.Sem C02loop.Driver.
Open Scope Z_scope.
