(* C02loop — property theorems for the "loop" pass of the optimizer (loop_optimizations.rs and the five files it
   drives), over the MIR fragment and semantics of C02deep (Syntax.v / Sem.v).  The models (Analysis.v, Licm.v,
   Algebraic.v, StrengthIv.v, Driver.v) mirror the Rust code statement by statement and are compared with the real
   pass on every run of the check (Corr.v, checks/c02_loop.py). *)
From Coq Require Import ZArith NArith List Bool.
Import ListNotations.
From SV Require Import Common.Int32 C02.Kernels C02deep.Syntax C02deep.Sem C02deep.Passes C02deep.ProofsScope
  C02deep.ProofsCcp C02deep.ProofsCseStatic
  C02loop.Analysis C02loop.Licm C02loop.Algebraic C02loop.StrengthIv C02loop.Driver C02loop.Classes
  C02loop.ProofsBase C02loop.ProofsLicm C02loop.ProofsAnalysis C02loop.ProofsExpand C02loop.ProofsAlgebraic
  C02loop.ProofsExtract C02loop.ProofsExtract2 C02loop.ProofsXstep C02loop.ProofsIve C02loop.ProofsSr C02loop.ProofsDefs C02loop.ProofsSrG C02loop.ProofsDriver C02loop.ProofsWitness
  C02loop.Cover C02loop.ProofsLicmWf C02loop.ProofsBridge C02loop.ProofsLoopWhile C02loop.ProofsCompose
  C02loop.ProofsCover C02loop.ProofsWitness2.
Open Scope Z_scope.

(* ================================================================== (2) loop-invariant code motion *)
(* The code after fix 3d66ed3.  For every loop whose binders are pairwise distinct and new with respect to the
   scope S in front of it (single assignment) and whose reads are in scope: running the hoisted statements and
   then the loop with the remaining body gives EXACTLY the result of the original loop on the target semantics:
   the same normal end in an environment that agrees on everything in scope afterwards, the same trap, the same
   abort of a callee, the same call trace, the same use of fuel. *)
Theorem C02loop_licm_preserves : forall w fuel S lvs ss bc hoisted inner ninv en tr,
  licm lvs ss = (hoisted, inner, ninv) ->
  scoped S (SWhile lvs ss bc) = true ->
  NoDup (binders (SWhile lvs ss bc)) ->
  (forall x, In x (binders (SWhile lvs ss bc)) -> ~ In x S) ->
  match exec Wrap w fuel (SWhile lvs ss bc) en tr with
  | RNext e1 t => exists e1', exec_block Wrap w fuel (hoisted ++ [SWhile lvs inner bc]) en tr = RNext e1' t /\
                              agree w (opt_names bc ++ S) e1 e1'
  | o => exec_block Wrap w fuel (hoisted ++ [SWhile lvs inner bc]) en tr = o
  end.
Proof. exact licm_sound. Qed.

(* the code before that fix hoisted divisions: a trap on a run that never divides, a call lost in front of a trap *)
Theorem C02loop_licm_old_refuted :
  exists f f' fl,
    wf_func f = true /\ loop_pass_v (true, false) sup0 f = Some (f', fl) /\
    sem All ww f [5; 0] 10 = Done 5 [] /\ sem Wrap ww f' [5; 0] 10 = Trap [] /\
    sem Wrap ww f [0; 0] 10 = Trap [(0%N, [0])] /\ sem Wrap ww f' [0; 0] 10 = Trap [].
Proof. exact licm_old_refuted. Qed.
Theorem C02loop_licm_repaired_on_old_witness :
  exists f' fl,
    loop_pass sup0 f_licm_div = Some (f', fl) /\ f_licm fl = 0%N /\ f_extract fl = 1%N /\
    sem Wrap ww f' [5; 0] 10 = Done 5 [] /\ sem Wrap ww f' [0; 0] 10 = Trap [(0%N, [0])] /\
    sem Wrap ww f' [1; 2] 10 = Done 3 [(1%N, [5]); (0%N, [2]); (1%N, [5]); (0%N, [1])] /\
    sem Wrap ww f_licm_div [1; 2] 10 = Done 3 [(1%N, [5]); (0%N, [2]); (1%N, [5]); (0%N, [1])].
Proof. exact licm_repaired_on_old_witness. Qed.

(* the driver itself (optimize_while_statement_with_all_loop_optimizations) on a loop that the induction analysis
   does not accept: it returns the hoisted statements and the loop with the remaining body, allocates no temporary,
   and that is exactly the original loop (end to end for this path of Driver.loop_while) *)
Theorem C02loop_loop_while_rejected_preserves : forall w fuel S lvs ss bc sup out sup' fl en tr,
  loop_while lvs ss bc sup = Some (out, sup', fl) -> f_extract fl = 0%N ->
  scoped S (SWhile lvs ss bc) = true ->
  NoDup (binders (SWhile lvs ss bc)) ->
  (forall x, In x (binders (SWhile lvs ss bc)) -> ~ In x S) ->
  sup' = sup /\
  match exec Wrap w fuel (SWhile lvs ss bc) en tr with
  | RNext e1 t => exists e1', exec_block Wrap w fuel out en tr = RNext e1' t /\ agree w (opt_names bc ++ S) e1 e1'
  | o => exec_block Wrap w fuel out en tr = o
  end.
Proof. exact loop_while_rejected. Qed.

(* ================================================================== (1) the induction analysis is sound *)
(* the shape extract_loop_guard_structure accepts *)
Theorem C02loop_guard_shape : forall ss bc ninv g,
  extract_guard ss bc ninv = XOk g ->
  exists cc op ge inv sis rest,
    ss = SBin cc op (EVar (lg_var g)) ge :: SSIf (EVar cc) inv sis :: rest /\
    get_guard_operator op inv = Some (lg_op g) /\ get_inv ge ninv = Some (lg_guard g) /\
    length sis = 1%nat /\ no_break_l rest = true /\
    match bc with
    | Some b => exists e, sis = [SBreak e] /\ lg_bc g = Some (b, e)
    | None => lg_bc g = None
    end.
Proof. exact extract_guard_shape. Qed.

(* ... and its meaning: in every checking mode, from every environment, the first two statements of the body go
   on to the rest of the body exactly when the extracted guard `i op g` holds (i the guarded variable, g the
   invariant bound), and otherwise run the statement under the `if` (the Break) *)
Theorem C02loop_guard_sound : forall m w fuel cc op iv ge inv sis g p ninv en tr,
  get_guard_operator op inv = Some g -> get_inv ge ninv = Some p ->
  exists c : bool,
    let en' := (cc, b2z c) :: en in
    guard_holds g (wrap32 (lookup iv en)) (pv w en p) = negb (xorb c inv) /\
    exec_block m w fuel [SBin cc op (EVar iv) ge; SSIf (EVar cc) inv sis] en tr =
    if guard_holds g (wrap32 (lookup iv en)) (pv w en p) then RNext en' tr
    else exec_block m w fuel sis en' tr.
Proof. exact guard_sound. Qed.

(* every recognised basic induction variable is a loop variable whose loop value is a collector computed by a
   top-level statement `collector = variable + increment` with an invariant increment; the other loop variables
   are kept as they are; every loop variable is one or the other *)
Theorem C02loop_basic_sound : forall lvs rest ninv bs os,
  extract_basic_loop lvs rest ninv = (bs, os) ->
  (forall b, In b bs -> In (gc_name b, gc_init b, EVar (gc_coll b)) lvs /\
                        exists e2, In (SBin (gc_coll b) PLUS (EVar (gc_name b)) e2) rest /\ get_inv e2 ninv = Some (gc_inc b)) /\
  (forall o, In o os -> In o lvs) /\
  (forall lv, In lv lvs -> In lv os \/ exists b, In b bs /\ gc_name b = t_name lv).
Proof. exact extract_basic_loop_sound. Qed.

(* every recognised derived induction variable d = (base, multiplier, immediate): base is a basic induction
   variable, and at the end of EVERY iteration that runs to its end (in every checking mode), d holds
   multiplier * base + immediate modulo 2^32, with base, multiplier and immediate read at the head of the iteration.
   Hypotheses: the binders of the body are pairwise distinct, none of them is a basic induction variable, and an
   operand of a top-level binary statement that is outside the non-invariant set is not bound in the body
   (ops_stable: true of the set computed by loop-invariant code motion on well-scoped single-assignment code:
   such an operand comes from the scope in front of the loop). *)
Theorem C02loop_derived_sound : forall m w fuel ninv bs rest e0 tr e1 t,
  NoDup (binders_l rest) ->
  (forall b, In b bs -> ~ In (gc_name b) (binders_l rest)) ->
  ops_stable ninv (binders_l rest) rest ->
  exec_block m w fuel rest e0 tr = RNext e1 t ->
  forall d, In d (extract_derived bs rest ninv) ->
    In (dn_base d) (map gc_name bs) /\
    eq32 (lookup (dn_name d) e1)
         (pv w e0 (dn_mult d) * lookup (dn_base d) e0 + pv w e0 (dn_imm d)).
Proof. exact derived_sound. Qed.

(* the analysis before fix 8c133db accepted loops in which the name of the dropped guard comparison is still
   read: the output reads a name that is defined nowhere *)
Theorem C02loop_guard_name_old_refuted :
  exists f f' fl,
    wf_func f = true /\ loop_pass_v (false, true) sup0 f = Some (f', fl) /\ wf_func f' = false /\
    sem All ww f [1] 10 = Done 3 [(0%N, [1]); (0%N, [1])] /\
    sem Wrap ww f' [1] 10 = Done 3 [(0%N, [0]); (0%N, [0])].
Proof. exact guard_name_old_refuted. Qed.
Theorem C02loop_guard_name_repaired_on_old_witness :
  exists fl, loop_pass sup0 f_guard_used = Some (f_guard_used, fl) /\ f_extract fl = 0%N.
Proof. exact guard_name_repaired_on_old_witness. Qed.

(* ================================================================== the loop that is built from the analysis *)
(* Driver.expand builds ProofsExpand.xloop, with the temporaries it allocates as parameters *)
Theorem C02loop_expand_shape : forall o sup,
  exists coll cc ns ts,
    fst (expand o sup) = xloop o coll cc (combine (kept_generals o) ns) ts /\
    length ns = length (kept_generals o) /\ length ts = length (o_derived o).
Proof. exact expand_xloop. Qed.

(* ================================================================== extraction and re-expansion preserve the loop *)
(* For every loop that extract_optimizable_while_loop accepts (code after fix 8c133db): the loop that
   expand_optimizable_while_loop builds from the analysis result - new guard comparison under a fresh name, the
   body after the dead code elimination inside the loop, the useless loop variables dropped, the collectors of the
   basic induction variables and the derived induction variables recomputed at the end of the body - behaves like
   the original loop on the target semantics: same normal end in an environment that agrees on everything in
   scope afterwards, same trap, same abort, same call trace, same use of fuel.
   Hypotheses: single assignment and scoping as for loop-invariant code motion; the non-invariant set covers the
   loop variables and the top-level names of the body (true of the set computed by loop-invariant code motion);
   the temporaries are new; and the loop is outside the two MIR-level classes in which the statement is false:
   plain_break (K_nested_break: the statement under the guard's `if` is a Break) and bases_kept (K_base_dropped:
   every derived induction variable is recomputed from an induction variable that the new loop keeps). *)
Theorem C02loop_extract_expand_preserves : forall w fuel S lvs ss bc ninv o coll cc ns ts en tr,
  extract lvs ss bc ninv = XOk o ->
  scoped S (SWhile lvs ss bc) = true ->
  NoDup (binders (SWhile lvs ss bc)) ->
  (forall x, In x (binders (SWhile lvs ss bc)) -> ~ In x S) ->
  (forall x, In x (map t_name lvs ++ defs_l ss) -> In x ninv) ->
  plain_break ss -> bases_kept o ->
  NoDup (coll :: cc :: ns ++ ts) ->
  (forall y, In y (coll :: cc :: ns ++ ts) -> ~ In y S /\ ~ In y (binders (SWhile lvs ss bc))) ->
  length ns = length (kept_generals o) -> length ts = length (o_derived o) ->
  match exec Wrap w fuel (SWhile lvs ss bc) en tr with
  | RNext e1 t => exists e1', exec Wrap w fuel (xloop o coll cc (combine (kept_generals o) ns) ts) en tr = RNext e1' t /\
                              agree w (opt_names bc ++ S) e1 e1'
  | RBreak _ _ _ | RStuck | ROvf => True
  | r => exec Wrap w fuel (xloop o coll cc (combine (kept_generals o) ns) ts) en tr = r
  end.
Proof. exact extract_expand_sound. Qed.

(* ================================================================== (3) the closed form of counting loops *)
(* If loop_algebraic_optimization replaces the loop by `stmts`, then every run of the loop (target semantics) that
   ends normally is reproduced by `stmts`: same trace, same value of the break collector, every other name
   untouched - PROVIDED the value with which the guarded induction variable leaves the loop, i0 + inc * K with K
   the trip count (C02.Kernels.trip, proved exact in C02/Props.v), is representable (alg_exit_in32; the code
   checks it itself when that value is the result).  Then every intermediate value is representable too; the
   other induction variables are computed modulo 2^32 on both sides, so no other side condition is needed. *)
Theorem C02loop_alg_closed_form : forall w fuel fuel' o sup stmts sup' coll cc ns en tr e1 t,
  alg o sup = Some (stmts, sup') ->
  alg_lits o -> alg_exit_in32 o -> alg_names o coll cc ns (fst (alloc sup)) ->
  exec Wrap w fuel (xloop o coll cc (combine (kept_generals o) ns) []) en tr = RNext e1 t ->
  exists e2,
    exec_block Wrap w fuel' stmts en tr = RNext e2 t /\
    (forall n, bc_of o = Some n -> wrap32 (lookup n e1) = wrap32 (lookup n e2)) /\
    (forall y, ~ In y (bg_name (o_basic o) :: map gi_name (kept_generals o) ++ coll :: cc :: ns) ->
               ~ In y (opt_names (bc_of o)) -> y <> fst (alloc sup) -> lookup y e1 = lookup y e2).
Proof. exact alg_sound. Qed.

(* the side condition is needed: a loop whose exit value is not representable wraps around and runs 8 times where
   the closed form says once (an excluded run: it overflows) *)
Theorem C02loop_alg_exit_condition_needed :
  exists stmts sup' W,
    alg o_alg_wrap sup0 = Some (stmts, sup') /\ fst (expand o_alg_wrap sup0) = W /\
    trip GLT 1073741829 1073741825 1073741834 = Some 1 /\ ~ in32 (1073741829 + 1073741825 * 1) /\
    (exists e1, exec Wrap ww 40 W [] [] = RNext e1 [] /\ lookup 9%N e1 = 8) /\
    (exists e2, exec_block Wrap ww 40 stmts [] [] = RNext e2 [] /\ lookup 9%N e2 = 1).
Proof. exact alg_exit_condition_needed. Qed.


(* ================================================================== (4) strength reduction *)
(* what loop_strength_reduction::optimize returns: for every derived induction variable d = m * b + c whose step
   inc_b * m merges to one invariant operand: two prefix statements (t1 = m * init_b, t2 = c + t1) and a new general
   induction variable (d, t2, inc_b * m); the others stay derived *)
Theorem C02loop_sr_shape : forall o sup pre o2 sup',
  sr o sup = Some (pre, o2, sup') ->
  exists ss rem, sr_rel (sr_bmap o) (o_derived o) ss rem /\ pre = flat_map sd_pre ss /\
    o2 = mkowl (o_basic o) (o_general o ++ map sd_giv ss) (o_others o) rem (o_stmts o) (o_bc o).
Proof. exact sr_inv. Qed.

(* The prefix statements followed by the loop built from the reduced analysis result (sr_owl: with the filter of
   the driver, which deletes the top-level binary statements that bind a reduced variable) behave like the loop
   built from the original analysis result - no arithmetic side condition: the reduced variables are computed
   modulo 2^32 on both sides (ring identities).  The body may still contain the defining statement of a reduced
   variable (the dead code elimination inside extract keeps it when another statement reads it): the driver
   deletes it and the readers read the new loop variable, which holds the same value because the deleted statement
   computed multiplier * base + immediate (reduced_defs_affine, a THEOREM for what extract returns:
   C02loop_sr_defs_affine below).  Hypotheses: owl_wf / fresh_for as for the induction-variable elimination;
   owl_reads_s (reads of the body, of the loop variables and of the break value are in scope; the guarded induction
   variable may be read); after the filter no statement binds a reduced variable (they were bound by top-level
   binary statements only); the base of every variable that stays derived is a loop variable of the reduced loop
   (the MIR-level class K_base_dropped, here for the reduced analysis result). *)
Theorem C02loop_sr_preserves : forall w fuel T0 o ss rem collA ccA nsA tsA collB ccB nsB tsB en tr,
  let PT := flat_map (fun s => [sd_t1 s; sd_t2 s]) ss in
  let oB := sr_owl o ss rem in
  sr_rel (sr_bmap o) (o_derived o) ss rem ->
  owl_wf T0 o -> owl_reads_s T0 o ->
  (forall s, In s ss -> ~ In (dn_name (sd_d s)) (binders_l (o_stmts oB))) ->
  (forall d, In d rem -> In (dn_base d) (bg_name (o_basic oB) :: map gi_name (kept_generals oB))) ->
  reduced_defs_affine w fuel o ss ->
  fresh_for T0 o (collA :: ccA :: nsA ++ tsA) ->
  fresh_for (PT ++ T0) o (collB :: ccB :: nsB ++ tsB) ->
  fresh_for T0 o PT ->
  length nsA = length (kept_generals o) /\ length tsA = length (o_derived o) ->
  length nsB = length (kept_generals oB) /\ length tsB = length (o_derived oB) ->
  match exec Wrap w fuel (xloop o collA ccA (combine (kept_generals o) nsA) tsA) en tr with
  | RNext e1 t => exists e1',
      exec_block Wrap w fuel (flat_map sd_pre ss ++ [xloop oB collB ccB (combine (kept_generals oB) nsB) tsB]) en tr = RNext e1' t /\
      agree w (opt_names (bc_of o) ++ T0) e1 e1'
  | RBreak _ _ _ | RStuck | ROvf => True
  | r => exec_block Wrap w fuel (flat_map sd_pre ss ++ [xloop oB collB ccB (combine (kept_generals oB) nsB) tsB]) en tr = r
  end.
Proof. exact sr_sound_g. Qed.

(* The premise reduced_defs_affine is a theorem for every analysis result that Analysis.extract returns (same
   hypotheses on the loop as C02loop_extract_expand_preserves: well scoped, single assignment, the non-invariant set
   covers the loop variables and the body's definitions): in the body AFTER the dead code elimination, whenever the
   statements in front of a kept `d = x op y` (d a derived induction variable) have run from the head of an
   iteration, x op y does not trap and equals multiplier * base + immediate modulo 2^32 (base, multiplier and
   immediate read at the head of the iteration).  It only speaks about the statements, so it carries over to the
   analysis result after the induction-variable elimination (same statements, fewer derived variables). *)
Theorem C02loop_sr_defs_affine : forall w fuel S lvs ss bc ninv o srs,
  extract lvs ss bc ninv = XOk o ->
  scoped S (SWhile lvs ss bc) = true ->
  NoDup (binders (SWhile lvs ss bc)) ->
  (forall x, In x (binders (SWhile lvs ss bc)) -> ~ In x S) ->
  (forall x, In x (map t_name lvs ++ defs_l ss) -> In x ninv) ->
  (forall s, In s srs -> In (sd_d s) (o_derived o)) ->
  reduced_defs_affine w fuel o srs.
Proof. exact extract_defs_affine. Qed.
Theorem C02loop_sr_defs_affine_same_stmts : forall w fuel o o1 ss,
  o_stmts o1 = o_stmts o -> reduced_defs_affine w fuel o ss -> reduced_defs_affine w fuel o1 ss.
Proof. exact reduced_defs_affine_same. Qed.

(* The special case "no reduced variable is still bound by a body statement" (the filter of the driver removes
   nothing) under the weaker scoping premise owl_reads_i and without the premise on the bases. *)
Theorem C02loop_sr_preserves_no_kept_defs : forall w fuel T0 o ss rem collA ccA nsA tsA collB ccB nsB tsB en tr,
  let PT := flat_map (fun s => [sd_t1 s; sd_t2 s]) ss in
  let oB := sr_owl o ss rem in
  sr_rel (sr_bmap o) (o_derived o) ss rem ->
  owl_wf T0 o -> owl_reads_i T0 o ->
  (forall s, In s ss -> ~ In (dn_name (sd_d s)) (binders_l (o_stmts o))) ->
  fresh_for T0 o (collA :: ccA :: nsA ++ tsA) ->
  fresh_for (PT ++ T0) o (collB :: ccB :: nsB ++ tsB) ->
  fresh_for T0 o PT ->
  length nsA = length (kept_generals o) /\ length tsA = length (o_derived o) ->
  length nsB = length (kept_generals oB) /\ length tsB = length (o_derived oB) ->
  match exec Wrap w fuel (xloop o collA ccA (combine (kept_generals o) nsA) tsA) en tr with
  | RNext e1 t => exists e1',
      exec_block Wrap w fuel (flat_map sd_pre ss ++ [xloop oB collB ccB (combine (kept_generals oB) nsB) tsB]) en tr = RNext e1' t /\
      agree w (opt_names (bc_of o) ++ T0) e1 e1'
  | RBreak _ _ _ | RStuck | ROvf => True
  | r => exec_block Wrap w fuel (flat_map sd_pre ss ++ [xloop oB collB ccB (combine (kept_generals oB) nsB) tsB]) en tr = r
  end.
Proof. exact sr_sound. Qed.

(* ================================================================== (4) induction-variable elimination *)
(* what loop_induction_variable_elimination::optimize returns: the four prefix statements and the analysis result
   with the derived variable as the new guarded induction variable, guard always `<` *)
Theorem C02loop_ive_shape : forall o sup pre nb nd sup',
  ive o sup = Some (pre, nb, nd, sup') ->
  exists only added t1 t2 t3 t4,
    owl_uses_iv o = false /\
    filter (fun v => N.eqb (dn_base v) (bg_name (o_basic o))) (o_derived o) = [only] /\
    merge_mul (bg_inc (o_basic o)) (dn_mult only) = Some added /\
    t1 = fst (alloc sup) /\ t2 = fst (alloc (snd (alloc sup))) /\
    t3 = fst (alloc (snd (alloc (snd (alloc sup))))) /\ t4 = fst (alloc (snd (alloc (snd (alloc (snd (alloc sup))))))) /\
    pre = ive_pre o only t1 t2 t3 t4 /\
    mkowl nb (o_general o) (o_others o) nd (o_stmts o) (o_bc o) = ive_owl o only added t2 t4.
Proof. exact ive_inv. Qed.

(* OUTSIDE the open class C02-iv-elimination-guard the rewrite is correct: if the replaced guard is `<`, the
   multiplier is positive, multiplier * bound + immediate is representable, and multiplier * z + immediate is
   representable for every value z that the eliminated induction variable takes at the head of an iteration -
   including the value with which the loop is left (ive_side; Vis is any set of values that contains the initial
   value and is closed under the step while the guard holds) - then the prefix statements followed by the loop built
   from the rewritten analysis result behave like the loop built from the original analysis result: same normal
   end in an environment that agrees on the break collector and on T0, same trap, abort, call trace and fuel.
   owl_wf / owl_reads / fresh_for: the analysis result is internally consistent (distinct names, invariant operands
   in T0, bases are induction variables), its statements and loop values read kept loop variables, T0 and names the
   body defines, and the temporaries are new.  The five C02loop_ive_*_refuted theorems below show that every clause
   of ive_side is needed, each on a source-reachable loop. *)
Theorem C02loop_ive_preserves : forall w fuel T0 o only added t1 t2 t3 t4 collA ccA nsA tsA collB ccB nsB tsB en Vis tr,
  let oB := ive_owl o only added t2 t4 in
  filter (fun v => N.eqb (dn_base v) (bg_name (o_basic o))) (o_derived o) = [only] ->
  merge_mul (bg_inc (o_basic o)) (dn_mult only) = Some added ->
  owl_wf T0 o -> owl_reads T0 o ->
  ~ In (dn_name only) (binders_l (o_stmts o)) /\ ~ In (dn_name only) (uses_l (o_stmts o) []) ->
  fresh_for T0 o (collA :: ccA :: nsA ++ tsA) ->
  fresh_for ([t1; t2; t3; t4] ++ T0) o (collB :: ccB :: nsB ++ tsB) ->
  fresh_for T0 o [t1; t2; t3; t4] ->
  length nsA = length (kept_generals o) /\ length tsA = length (o_derived o) ->
  length nsB = length (kept_generals oB) /\ length tsB = length (o_derived oB) ->
  ive_side w en o only Vis ->
  match exec Wrap w fuel (xloop o collA ccA (combine (kept_generals o) nsA) tsA) en tr with
  | RNext e1 t => exists e1',
      exec_block Wrap w fuel (ive_pre o only t1 t2 t3 t4 ++ [xloop oB collB ccB (combine (kept_generals oB) nsB) tsB]) en tr = RNext e1' t /\
      agree w (opt_names (bc_of o) ++ T0) e1 e1'
  | RBreak _ _ _ | RStuck | ROvf => True
  | r => exec_block Wrap w fuel (ive_pre o only t1 t2 t3 t4 ++ [xloop oB collB ccB (combine (kept_generals oB) nsB) tsB]) en tr = r
  end.
Proof. exact ive_sound. Qed.

(* INSIDE the class the rewrite is wrong: open finding C02-iv-elimination-guard, the rewritten guard is always `<` on
   wrapped products.  Each clause of ive_side is needed (the first two are the class as first registered): *)
Theorem C02loop_ive_guard_operator_refuted :
  exists f f' fl,
    wf_func f = true /\ loop_pass sup0 f = Some (f', fl) /\ f_ive fl = 1%N /\
    sem All ww f [0; 0] 40 = Done 30 [] /\ sem Wrap ww f' [0; 0] 40 = Done 27 [].
Proof. exact ive_guard_operator_refuted. Qed.
Theorem C02loop_ive_negative_multiplier_refuted :
  exists f f' fl,
    wf_func f = true /\ loop_pass sup0 f = Some (f', fl) /\ f_ive fl = 1%N /\
    sem All ww f [0; 7] 40 = Done (-18) [] /\ sem Wrap ww f' [0; 7] 40 = Done 7 [].
Proof. exact ive_negative_multiplier_refuted. Qed.
Theorem C02loop_ive_bound_overflow_refuted :
  exists f f' fl,
    wf_func f = true /\ loop_pass sup0 f = Some (f', fl) /\ f_ive fl = 1%N /\
    sem All ww f [715827880; 0] 40 = Done 2147483646 [] /\ sem Wrap ww f' [715827880; 0] 40 = Done 0 [].
Proof. exact ive_bound_overflow_refuted. Qed.
Theorem C02loop_ive_initial_overflow_refuted :
  exists f f' fl,
    wf_func f = true /\ loop_pass sup0 f = Some (f', fl) /\ f_ive fl = 1%N /\
    sem All ww f [1000000000; 77] 40 = Done 77 [] /\ sem Wrap ww f' [1000000000; 77] 40 = OutOfFuel.
Proof. exact ive_initial_overflow_refuted. Qed.
Theorem C02loop_ive_exit_overflow_refuted :
  exists f f' fl,
    wf_func f = true /\ loop_pass sup0 f = Some (f', fl) /\ f_ive fl = 1%N /\
    in32 (5368709 * 400) /\ in32 (5368709 * 0) /\
    sem All ww f [0; 0] 100 = Done 2142114891 [] /\ sem Wrap ww f' [0; 0] 100 = OutOfFuel.
Proof. exact ive_exit_overflow_refuted. Qed.

(* ================================================================== (5) composition: the whole pass *)
(* What loop-invariant code motion leaves is again a well-scoped single-assignment loop in the scope extended by the
   hoisted names, and the non-invariant set covers its loop variables and definitions: the hypotheses of the later
   stage theorems hold for it. *)
Theorem C02loop_licm_leaves_wf_loop : forall S lvs ss bc hoisted inner ninv,
  licm lvs ss = (hoisted, inner, ninv) ->
  scoped S (SWhile lvs ss bc) = true ->
  NoDup (binders (SWhile lvs ss bc)) ->
  (forall x, In x (binders (SWhile lvs ss bc)) -> ~ In x S) ->
  scoped (names_of hoisted ++ S) (SWhile lvs inner bc) = true /\
  NoDup (binders (SWhile lvs inner bc)) /\
  (forall x, In x (binders (SWhile lvs inner bc)) -> ~ In x (names_of hoisted ++ S)) /\
  (forall x, In x (map t_name lvs ++ defs_l inner) -> In x ninv) /\
  (forall x, In x (binders (SWhile lvs inner bc)) -> In x (binders (SWhile lvs ss bc))) /\
  (forall x, In x (names_of hoisted) -> In x (binders_l ss)) /\
  NoDup (names_of hoisted).
Proof. exact licm_inner_wf. Qed.

(* What Analysis.extract returns for such a loop satisfies the structural hypotheses of the stage theorems (owl_wf,
   owl_reads_s given bases_kept), its body has pairwise distinct binders, and a body statement that binds a derived
   induction variable is that variable's top-level binary defining statement. *)
Theorem C02loop_extract_result_wf : forall (w : world) S lvs ss bc ninv o coll cc,
  extract lvs ss bc ninv = XOk o ->
  scoped S (SWhile lvs ss bc) = true ->
  NoDup (binders (SWhile lvs ss bc)) ->
  (forall x, In x (binders (SWhile lvs ss bc)) -> ~ In x S) ->
  (forall x, In x (map t_name lvs ++ defs_l ss) -> In x ninv) ->
  plain_break ss ->
  (forall y, In y [coll; cc] -> ~ In y S /\ ~ In y (binders (SWhile lvs ss bc))) ->
  owl_wf S o /\ (bases_kept o -> owl_reads_s S o) /\ NoDup (binders_l (o_stmts o)) /\
  (forall d st, In d (o_derived o) -> In st (o_stmts o) -> In (dn_name d) (binders st) ->
                exists op a b, st = SBin (dn_name d) op a b) /\
  (forall x, In x (o_LN o ++ o_DN o ++ binders_l (o_stmts o)) -> In x (binders (SWhile lvs ss bc))) /\
  bc_of o = bc.
Proof. exact extract_bridge. Qed.

(* ONE LOOP.  optimize_while_statement_with_all_loop_optimizations (Driver.loop_while: invariant code motion, then
   extract, then the closed form, or strength reduction and re-expansion) on a well-scoped single-assignment loop,
   with a supply of pairwise distinct new names of which something is left afterwards, outside the named classes
   (loop_outside: K_nested_break, K_base_dropped, no induction-variable elimination = the open class
   C02-iv-elimination-guard, closed form only with a representable exit value): every run of the loop that ends
   normally is reproduced by the statements the pass returns, from any environment that agrees on the scope, with the
   same call trace and the same use of fuel, in an environment that agrees on the scope and on the break collector. *)
Theorem C02loop_loop_while_preserves : forall w fuel S lvs ss bc sup out sup' fl en en' tr,
  loop_while lvs ss bc sup = Some (out, sup', fl) -> sup' <> [] ->
  scoped S (SWhile lvs ss bc) = true ->
  NoDup (binders (SWhile lvs ss bc)) ->
  (forall x, In x (binders (SWhile lvs ss bc)) -> ~ In x S) ->
  NoDup sup -> (forall y, In y sup -> ~ In y S /\ ~ In y (binders (SWhile lvs ss bc))) ->
  loop_outside lvs ss bc sup ->
  agree w S en en' ->
  match exec Wrap w fuel (SWhile lvs ss bc) en tr with
  | RNext e1 t => exists e1', exec_block Wrap w fuel out en' tr = RNext e1' t /\ agree w (opt_names bc ++ S) e1 e1'
  | _ => True
  end.
Proof. exact loop_while_sound. Qed.

(* THE FUNCTION.  Driver.loop_pass (optimize_function: every loop outside loop bodies, through IfElse / SingleIf) on a
   well-formed function (C02deep.wf_func) with a fresh supply (C02deep.fresh_for) in the decidable domain
   Cover.loop_pass_covered (something is left of the supply; every loop outside the named classes, the supply threaded
   as the pass threads it): every run that ends normally on the target (wrapping) semantics is reproduced exactly -
   same value, same calls in the same order, same fuel. *)
Theorem C02loop_pass_preserves : forall w sup f f' fl,
  wf_func f = true -> ProofsCseStatic.fresh_for sup f -> loop_pass_covered sup f = true ->
  loop_pass sup f = Some (f', fl) ->
  refines_wrap w f' f.
Proof. exact loop_pass_preserves. Qed.
(* the same with the freshness of the supply as a boolean: the form the tie evaluates on every real function *)
Theorem C02loop_pass_preserves_decidable : forall w sup f f' fl,
  wf_func f = true -> fresh_for_b sup f = true -> loop_pass_covered sup f = true ->
  loop_pass sup f = Some (f', fl) -> refines_wrap w f' f.
Proof. exact loop_pass_preserves_b. Qed.
(* ... and with the domain as a proposition (loop_outside for every loop) *)
Theorem C02loop_pass_refines : forall w sup f body sup' fl,
  wf_func f = true -> ProofsCseStatic.fresh_for sup f ->
  loop_stmts current (f_body f) sup = Some (body, sup', fl) -> sup' <> [] ->
  outside_stmts (f_body f) sup ->
  loop_pass sup f = Some (mkfunc (f_params f) body (f_ret f), fl) /\
  refines_wrap w (mkfunc (f_params f) body (f_ret f)) f.
Proof. exact loop_pass_refines. Qed.

(* Composition with the other passes (C02deep.pipeline_preserves gives refines_add for ccp / cse / lvn / dce): the loop
   pass as the LAST stage gives the property's `refines`. *)
Theorem C02loop_after_pipeline : forall w f f1 f2,
  refines_add w f1 f -> refines_wrap w f2 f1 -> refines w f2 f.
Proof. exact refines_add_then_loop. Qed.
(* It cannot be an inner stage of that chain: the loop pass does not preserve "no + / - overflow".  Strength reduction
   advances the reduced variable once more than the original loop computes it; that last, unused value need not be
   representable (d = i * 10^9 for i = 0, 1, 2; the reduced loop also computes 2 * 10^9 + 10^9). *)
Theorem C02loop_pass_add_refuted :
  exists f f' fl,
    wf_func f = true /\ loop_pass_covered sup0 f = true /\ loop_pass sup0 f = Some (f', fl) /\ f_sr fl = 1%N /\
    sem All ww f [0] 40 = Done 3 [(0%N, [2000000000; 2]); (0%N, [1000000000; 1]); (0%N, [0; 0])] /\
    sem Wrap ww f' [0] 40 = Done 3 [(0%N, [2000000000; 2]); (0%N, [1000000000; 1]); (0%N, [0; 0])] /\
    sem Add ww f' [0] 40 = Overflow.
Proof. exact loop_pass_add_refuted. Qed.
Theorem C02loop_pass_not_refines_add :
  exists f f' fl, wf_func f = true /\ loop_pass sup0 f = Some (f', fl) /\ ~ refines_add ww f' f.
Proof. exact loop_pass_not_refines_add. Qed.
(* the domain of the function-level theorem contains functions on which strength reduction deletes a kept defining
   statement (f_all, class K_sr_defs) and on which the closed form fires (f_count) *)
Example C02loop_pass_covered_nonvacuous :
  wf_func f_all = true /\ loop_pass_covered sup0 f_all = true /\
  wf_func f_count = true /\ loop_pass_covered sup0 f_count = true /\
  nth 7 (classes_func f_all) 0%N = 1%N.
Proof. exact loop_pass_covered_nonvacuous. Qed.

(* ================================================================== non-vacuity *)
Example C02loop_nonvacuous :
  exists f' fl,
    wf_func f_all = true /\ loop_pass sup0 f_all = Some (f', fl) /\
    f_licm fl = 1%N /\ f_extract fl = 1%N /\ f_sr fl = 1%N /\ f' <> f_all /\
    classes_func f_all = [0; 0; 0; 0; 0; 0; 0; 1]%N /\
    sem All ww f_all [14] 20 = sem Wrap ww f' [14] 20 /\
    sem All ww f_all [14] 20 = Done 147 [(0%N, [10; 98]); (0%N, [5; 98]); (0%N, [0; 98])].
Proof. exact loop_pass_nonvacuous. Qed.
Example C02loop_alg_nonvacuous :
  exists f' fl,
    wf_func f_count = true /\ loop_pass sup0 f_count = Some (f', fl) /\ f_alg fl = 1%N /\
    f_body f' = [SBin 101%N MUL (EInt 7) (EInt 4); SBin 7%N PLUS (EVar 101%N) (EInt 100)] /\
    sem All ww f_count [] 20 = Done 128 [] /\ sem Wrap ww f' [] 20 = Done 128 [].
Proof. exact alg_nonvacuous. Qed.

Print Assumptions C02loop_licm_preserves.
Print Assumptions C02loop_licm_old_refuted.
Print Assumptions C02loop_licm_repaired_on_old_witness.
Print Assumptions C02loop_loop_while_rejected_preserves.
Print Assumptions C02loop_guard_shape.
Print Assumptions C02loop_guard_sound.
Print Assumptions C02loop_basic_sound.
Print Assumptions C02loop_derived_sound.
Print Assumptions C02loop_guard_name_old_refuted.
Print Assumptions C02loop_guard_name_repaired_on_old_witness.
Print Assumptions C02loop_expand_shape.
Print Assumptions C02loop_extract_expand_preserves.
Print Assumptions C02loop_alg_closed_form.
Print Assumptions C02loop_alg_exit_condition_needed.
Print Assumptions C02loop_sr_shape.
Print Assumptions C02loop_sr_preserves.
Print Assumptions C02loop_sr_defs_affine.
Print Assumptions C02loop_sr_defs_affine_same_stmts.
Print Assumptions C02loop_sr_preserves_no_kept_defs.
Print Assumptions C02loop_ive_shape.
Print Assumptions C02loop_ive_preserves.
Print Assumptions C02loop_ive_guard_operator_refuted.
Print Assumptions C02loop_ive_negative_multiplier_refuted.
Print Assumptions C02loop_ive_bound_overflow_refuted.
Print Assumptions C02loop_ive_initial_overflow_refuted.
Print Assumptions C02loop_ive_exit_overflow_refuted.
Print Assumptions C02loop_licm_leaves_wf_loop.
Print Assumptions C02loop_extract_result_wf.
Print Assumptions C02loop_loop_while_preserves.
Print Assumptions C02loop_pass_preserves.
Print Assumptions C02loop_pass_preserves_decidable.
Print Assumptions C02loop_pass_refines.
Print Assumptions C02loop_after_pipeline.
Print Assumptions C02loop_pass_add_refuted.
Print Assumptions C02loop_pass_not_refines_add.
