(* C02loop — Gallina models of loop_induction_variable_elimination.rs and loop_strength_reduction.rs.
   Definitions only.  The induction-variable elimination is modelled AS IT IS (open finding
   C02-iv-elimination-guard: the new guard operator is always `<`). *)
From Coq Require Import ZArith NArith List Bool.
Import ListNotations.
From SV Require Import Common.Int32 C02.Kernels C02deep.Syntax C02deep.Passes C02loop.Analysis C02loop.Algebraic.
Open Scope Z_scope.

(* ------------------------------------------------------------ loop_induction_variable_elimination.rs *)

(* expr_uses_basic_induction_var *)
Definition expr_uses (x : name) (e : expr) : bool :=
  match e with EVar v => N.eqb v x | _ => false end.

(* stmt_uses_basic_induction_var / stmts_uses_basic_induction_var *)
Fixpoint stmt_uses (x : name) (st : stmt) : bool :=
  let fix go (ss : list stmt) : bool :=
    match ss with [] => false | s :: r => stmt_uses x s || go r end in
  match st with
  | SBin _ _ e1 e2 => expr_uses x e1 || expr_uses x e2
  | SNot _ e | SPrim _ _ e | SBreak e | SLateAssign _ e => expr_uses x e
  | SLateDecl _ => false
  | SCall _ args _ | SStruct _ _ args => existsb (expr_uses x) args
  | SIf c s1 s2 fas =>
      expr_uses x c || go s1 || go s2 || existsb (fun fa => expr_uses x (t_e1 fa) || expr_uses x (t_e2 fa)) fas
  | SSIf c _ ss => expr_uses x c || go ss
  | SWhile lvs ss _ =>
      existsb (fun lv => expr_uses x (t_e1 lv) || expr_uses x (t_e2 lv)) lvs || go ss
  end.
Definition stmts_use (x : name) : list stmt -> bool :=
  fix go (ss : list stmt) : bool :=
    match ss with [] => false | s :: r => stmt_uses x s || go r end.

(* optimizable_while_loop_uses_induction_var *)
Definition owl_uses_iv (o : owl) : bool :=
  let x := bg_name (o_basic o) in
  stmts_use x (o_stmts o)
  || existsb (fun v => expr_uses x (t_e2 v)) (o_others o)
  || match o_bc o with Some (_, e) => expr_uses x e | None => false end.

(* optimize: (prefix_statements, new_basic_induction_variable_with_loop_guard, new_derived_induction_variables) *)
Definition ive (o : owl) (sup : list name) : option (list stmt * bivg * list divn * list name) :=
  if owl_uses_iv o then None
  else
    let b := o_basic o in
    match filter (fun v => N.eqb (dn_base v) (bg_name b)) (o_derived o) with
    | [only] =>
        match merge_mul (bg_inc b) (dn_mult only) with
        | None => None
        | Some added =>
            let '(t1, s1) := alloc sup in
            let '(t2, s2) := alloc s1 in
            let '(t3, s3) := alloc s2 in
            let '(t4, s4) := alloc s3 in
            let prefix :=
              [bin_flex t1 MUL (pli_expr (dn_mult only)) (bg_init b);
               bin_flex t2 PLUS (pli_expr (dn_imm only)) (EVar t1);
               bin_flex t3 MUL (pli_expr (dn_mult only)) (pli_expr (bg_guard b));
               bin_flex t4 PLUS (pli_expr (dn_imm only)) (EVar t3)] in
            Some (prefix,
                  mkbivg (dn_name only) (EVar t2) added GLT (PVar t4),
                  filter (fun v => negb (N.eqb (dn_name v) (dn_name only))) (o_derived o),
                  s4)
        end
    | _ => None
    end.

(* ------------------------------------------------------------ loop_strength_reduction.rs *)

(* the `for derived_induction_variable in derived_induction_variables` loop;
   None: `basic_induction_variable_map.get(..).unwrap()` panics *)
Fixpoint sr_loop (bmap : list (name * giv)) (ds : list divn) (sup : list name)
  : option (list stmt * list giv * list divn * list name) :=
  match ds with
  | [] => Some ([], [], [], sup)
  | d :: r =>
      match assoc (dn_base d) bmap with
      | None => None
      | Some a =>
          match merge_mul (gi_inc a) (dn_mult d) with
          | Some added =>
              let '(t1, s1) := alloc sup in
              let '(t2, s2) := alloc s1 in
              match sr_loop bmap r s2 with
              | None => None
              | Some (pre, gs, rem, s3) =>
                  Some (bin_flex t1 MUL (pli_expr (dn_mult d)) (gi_init a)
                        :: bin_flex t2 PLUS (pli_expr (dn_imm d)) (EVar t1) :: pre,
                        mkgiv (dn_name d) (EVar t2) added :: gs, rem, s3)
              end
          | None =>
              match sr_loop bmap r sup with
              | None => None
              | Some (pre, gs, rem, s3) => Some (pre, gs, d :: rem, s3)
              end
          end
      end
  end.

(* optimize *)
Definition sr (o : owl) (sup : list name) : option (list stmt * owl * list name) :=
  let bmap := fold_left (fun m v => (gi_name v, v) :: m) (o_general o)
                        [(bg_name (o_basic o), as_giv (o_basic o))] in
  match sr_loop bmap (o_derived o) sup with
  | None => None
  | Some (pre, gs, rem, s') =>
      Some (pre, mkowl (o_basic o) (o_general o ++ gs) (o_others o) rem (o_stmts o) (o_bc o), s')
  end.
