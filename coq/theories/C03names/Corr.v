(* C03names - evaluation glue for layer B (checks/c03_names.py, `vh names-dump`).  Definitions only; the soundness
   of the structural comparison (`*_eqb a b = true -> a = b`) is in ProofsEqb.v.

   The harness prints the real program BEFORE a pass as a term of Syntax.v and, for the two eliminations, the NAMES of
   the definitions that survive (it checks itself, text against text, that the real output is the sub-vector of
   `before` selected by those names: "sub_vector").  A case evaluates, inside coqc:
     * tie: the names kept by the Gallina pass on the real `before` = the names the real pass kept (all vectors, in order);
     * the closure property evaluated DIRECTLY on the real output (`*_rel_closed before after`: every name a kept
       definition mentions that was defined before is still defined) and the absolute validators `*_no_dangling`;
     * the side conditions of the MIR theorem (`m_names_wf`) on the real input;
     * for deduplication: the Gallina `dedup` on the real `before` = the real `after`, term for term. *)
From Coq Require Import ZArith NArith List Bool.
Import ListNotations.
From SV Require Import Common.Int32 C03names.Syntax C03names.Elim C03names.Dedup C03names.Spec.
Open Scope N_scope.

Definition b2n (b : bool) : N := if b then 1%N else 0%N.
Definition len {A} (l : list A) : N := N.of_nat (length l).
Definition leqN : list N -> list N -> bool := list_eqb N.eqb.

(* the hypotheses of the theorems (distinct names), decidable: ProofsTop.wf_decidable *)
Fixpoint nodupN (l : list N) : bool := match l with [] => true | x :: r => negb (memN x r) && nodupN r end.
Definition m_wf_b (P : msources) : bool :=
  nodupN (m_fn_names_def P) && nodupN (map cd_name (ms_closures P) ++ map td_name (ms_typedefs P)).
(* sub-type names have no definition of their own in MIR (hypothesis of ProofsDedup.dedup_funcs_closed) *)
Definition m_subs_undefined (P : msources) : bool :=
  forallb (fun e => negb (memN (fst e) (m_ty_names_def P))) (ms_subs P).
Definition l_wf_b (P : lsources) : bool := nodupN (l_fn_names_def P) && nodupN (l_ty_names_def P).

(* ------------------------------------------------------------------ MIR elimination *)
Definition msel (g c t f : list N) (B : msources) : msources :=
  mkms (filter (fun s => memN s g) (ms_globals B))
       (filter (fun d => memN (cd_name d) c) (ms_closures B))
       (filter (fun d => memN (td_name d) t) (ms_typedefs B))
       (ms_mains B)
       (filter (fun x => memN (fn_id (mfn_name x)) f) (ms_funcs B))
       (ms_subs B).

Definition m_names (P : msources) : list N * list N * list N * list N :=
  (ms_globals P, map cd_name (ms_closures P), map td_name (ms_typedefs P), m_fn_names_def P).

Definition implb_list (p q : N -> bool) (l : list N) : bool := forallb (fun n => implb (p n) (q n)) l.

(* property (a) on a real output A of input B *)
Definition mir_rel_closed (B A : msources) : bool :=
  implb_list (m_ty_defined B) (m_ty_defined A) (mm_prog_tys A)
  && implb_list (fun s => memN s (ms_globals B)) (fun s => memN s (ms_globals A)) (mm_prog_strs A)
  && implb_list (fun f => memN f (m_fn_names_def B)) (fun f => memN f (m_fn_names_def A)) (map fn_id (mm_prog_fns A))
  && implb_list (fun f => memN f (m_fn_names_def B)) (fun f => memN f (m_fn_names_def A)) (map fn_id (ms_mains A)).

(* [tie; rel_closed(real); no_dangling(before); no_dangling(real after); names_wf(before);
    deleted functions; deleted types; deleted globals; m_wf(before)] *)
Definition mir_elim_case (B : msources) (g c t f : list N) : list N :=
  let M := mir_elim B in
  let A := msel g c t f B in
  let '(mg, mc, mt, mf) := m_names M in
  [ b2n (leqN mg g && leqN mc c && leqN mt t && leqN mf f);
    b2n (mir_rel_closed B A);
    b2n (mir_no_dangling B);
    b2n (mir_no_dangling A);
    b2n (m_names_wf B);
    len (ms_funcs B) - len f;
    len (ms_typedefs B) + len (ms_closures B) - len t - len c;
    len (ms_globals B) - len g;
    b2n (m_wf_b B) ].

(* ------------------------------------------------------------------ LIR elimination *)
Definition lsel (g t f : list N) (B : lsources) : lsources :=
  mkls (filter (fun s => memN s g) (ls_globals B))
       (filter (fun d => memN (ltd_name d) t) (ls_typedefs B))
       (ls_mains B)
       (filter (fun x => memN (fn_id (lfn_name x)) f) (ls_funcs B)).

Definition l_names (P : lsources) : list N * list N * list N :=
  (ls_globals P, l_ty_names_def P, l_fn_names_def P).

Definition l_ty_defined (P : lsources) (n : tname) : bool := memN n (l_ty_names_def P) || builtin_ty n.

Definition lir_rel_closed (B A : lsources) : bool :=
  implb_list (l_ty_defined B) (l_ty_defined A) (lm_prog_tys A)
  && implb_list (fun s => memN s (ls_globals B)) (fun s => memN s (ls_globals A)) (lm_prog_strs A)
  && implb_list (fun f => memN f (l_fn_names_def B)) (fun f => memN f (l_fn_names_def A))
                (map fn_id (lm_prog_fnvals A ++ lm_prog_callees A ++ ls_mains A)).

Definition l_same_names (v : ver) (B : lsources) (g t f : list N) : bool :=
  let '(mg, mt, mf) := l_names (lir_elim v B) in leqN mg g && leqN mt t && leqN mf f.

(* [tie; rel_closed(real); no_dangling(before); no_dangling(real after) = the validator on the final LIR;
    real = seeded variant C03-6; real = the tree before b69b06c; deleted functions; types; globals] *)
Definition lir_elim_case (B : lsources) (g t f : list N) : list N :=
  let A := lsel g t f B in
  [ b2n (l_same_names VNow B g t f);
    b2n (lir_rel_closed B A);
    b2n (lir_no_dangling B);
    b2n (lir_no_dangling A);
    b2n (l_same_names VSeedC036 B g t f);
    b2n (l_same_names VPreB69 B g t f);
    len (ls_funcs B) - len f;
    len (ls_typedefs B) - len t;
    len (ls_globals B) - len g;
    b2n (l_wf_b B) ].

(* the validator alone, on a real final LIR (no hook needed): [ok; number of dangling references of each kind] *)
Definition lir_final_case (A : lsources) : list N :=
  let '(ts, ss, fv, fc, mn) := lir_dangling A in
  [ b2n (lir_no_dangling A); len ts; len ss; len fv; len fc; len mn;
    len (ls_funcs A); len (ls_typedefs A); len (ls_globals A) ].

(* the program right after generics specialisation: [ok; dangling types; strings; function values; callees; entry points]
   followed by the numbers of the dangling callees, function values and types (for the message; their counts are in the
   header) *)
Definition mir_spec_case (B : msources) (ext : list N) : list N :=
  let xf := fun f => memN (fn_id f) ext in
  let '(ts, ss, fv, fc, mn) := mir_dangling_ext xf builtin_ty B in
  [ b2n (mir_no_dangling_ext xf builtin_ty B); len ts; len ss; len fv; len fc; len mn; len (ms_funcs B); b2n (m_wf_b B) ]
  ++ fc ++ fv ++ ts.

(* ------------------------------------------------------------------ structural equality of MIR *)
Definition mexpr_eqb (a b : mexpr) : bool :=
  match a, b with
  | MEInt x, MEInt y | MEI31 x, MEI31 y => Z.eqb x y
  | MEStr x, MEStr y => N.eqb x y
  | MEVar x t, MEVar y u => N.eqb x y && mty_eqb t u
  | _, _ => false
  end.
Definition fname_eqb (a b : fname) : bool := N.eqb (fn_id a) (fn_id b) && N.eqb (fn_cls a) (fn_cls b).
Definition mcallee_eqb (a b : mcallee) : bool :=
  match a, b with
  | MCFn f t, MCFn g u => fname_eqb f g && mfty_eqb t u
  | MCVar x t, MCVar y u => N.eqb x y && mty_eqb t u
  | _, _ => false
  end.
Definition mquad_eqb (a b : mquad) : bool :=
  N.eqb (mq_name a) (mq_name b) && mty_eqb (mq_ty a) (mq_ty b) && mexpr_eqb (mq_e1 a) (mq_e1 b) && mexpr_eqb (mq_e2 a) (mq_e2 b).
Definition binop_eqb (a b : binop) : bool :=
  match a, b with
  | MUL, MUL | DIV, DIV | MOD, MOD | PLUS, PLUS | MINUS, MINUS | LAND, LAND | LOR, LOR | SHL, SHL
  | SHR, SHR | XOR, XOR | LT, LT | LE, LE | GT, GT | GE, GE | EQ, EQ | NE, NE => true
  | _, _ => false
  end.
Definition opt_eqb {A} (eqb : A -> A -> bool) (a b : option A) : bool :=
  match a, b with None, None => true | Some x, Some y => eqb x y | _, _ => false end.
Definition mbc_eqb (a b : vname * mty) : bool := N.eqb (fst a) (fst b) && mty_eqb (snd a) (snd b).

Fixpoint mstmt_eqb (a b : mstmt) : bool :=
  let fix go (x y : list mstmt) : bool :=
    match x, y with
    | [], [] => true
    | s :: r, t :: u => mstmt_eqb s t && go r u
    | _, _ => false
    end in
  match a, b with
  | MIsPointer x p e, MIsPointer y q g => N.eqb x y && N.eqb p q && mexpr_eqb e g
  | MNot x e, MNot y g => N.eqb x y && mexpr_eqb e g
  | MBinary x o e1 e2, MBinary y p g1 g2 => N.eqb x y && binop_eqb o p && mexpr_eqb e1 g1 && mexpr_eqb e2 g2
  | MIndexedAccess x t e i, MIndexedAccess y u g j => N.eqb x y && mty_eqb t u && mexpr_eqb e g && N.eqb i j
  | MCall c xs t r, MCall d ys u q => mcallee_eqb c d && list_eqb mexpr_eqb xs ys && mty_eqb t u && opt_eqb N.eqb r q
  | MIfElse c s1 s2 fs, MIfElse d t1 t2 gs => mexpr_eqb c d && go s1 t1 && go s2 t2 && list_eqb mquad_eqb fs gs
  | MSingleIf c i ss, MSingleIf d j ts => mexpr_eqb c d && Bool.eqb i j && go ss ts
  | MBreak e, MBreak g => mexpr_eqb e g
  | MWhile ls ss bc, MWhile ms ts bd => list_eqb mquad_eqb ls ms && go ss ts && opt_eqb mbc_eqb bc bd
  | MCast x t e, MCast y u g => N.eqb x y && mty_eqb t u && mexpr_eqb e g
  | MLateInitDeclaration x t, MLateInitDeclaration y u => N.eqb x y && mty_eqb t u
  | MLateInitAssignment x e, MLateInitAssignment y g => N.eqb x y && mexpr_eqb e g
  | MStructInit x t es, MStructInit y u gs => N.eqb x y && N.eqb t u && list_eqb mexpr_eqb es gs
  | MClosureInit x c f t e, MClosureInit y d g u h => N.eqb x y && N.eqb c d && fname_eqb f g && mfty_eqb t u && mexpr_eqb e h
  | _, _ => false
  end.
Definition mstmts_eqb : list mstmt -> list mstmt -> bool := list_eqb mstmt_eqb.

Definition mfunc_eqb (a b : mfunc) : bool :=
  fname_eqb (mfn_name a) (mfn_name b) && leqN (mfn_params a) (mfn_params b) && mfty_eqb (mfn_ty a) (mfn_ty b)
  && mstmts_eqb (mfn_body a) (mfn_body b) && mexpr_eqb (mfn_ret a) (mfn_ret b).
Definition mtypedef_eqb (a b : mtypedef) : bool := N.eqb (td_name a) (td_name b) && mmappings_eqb (td_map a) (td_map b).
Definition mclosuredef_eqb (a b : mclosuredef) : bool := N.eqb (cd_name a) (cd_name b) && mfty_eqb (cd_fty a) (cd_fty b).

(* ------------------------------------------------------------------ deduplication *)
Definition derive_of (tbl : list (N * N * N)) (p tag : N) : tname :=
  match find (fun e => N.eqb (fst (fst e)) p && N.eqb (snd (fst e)) tag) tbl with
  | Some e => snd e
  | None => 0%N
  end.

Definition mir_rel_closed_rn (r : tname -> tname) (B A : msources) : bool :=
  forallb (fun n => implb (m_ty_defined B n) (m_ty_defined A (r n))) (mm_prog_tys B).

(* [status 0 = model = real, 1 = differs, 2 = model is None (real did not panic);
    closures equal; typedefs equal; functions equal; parents of the real table agree; no_dangling(before);
    no_dangling(real after); merged closure types; merged type definitions; sub-types renamed;
    two kept definitions with equal bodies AFTER renaming (the pass is not a fixpoint)] *)
Definition dup_after {A} (eqb : A -> A -> bool) (l : list A) : N :=
  len (filter (fun p => match p with (i, x) =>
                 existsb (fun q => match q with (j, y) => Nat.ltb j i && eqb x y end) (combine (seq 0 (length l)) l) end)
              (combine (seq 0 (length l)) l)).

Definition dedup_case (B A : msources) (tbl : list (N * N * N)) (parents : list (N * N)) : list N :=
  match dedup (derive_of tbl) B with
  | None => [2; 0; 0; 0; 0; b2n (mir_no_dangling B); b2n (mir_no_dangling A); 0; 0; 0; 0; b2n (m_wf_b B && m_subs_undefined B)]%N
  | Some M =>
      let c := list_eqb mclosuredef_eqb (ms_closures M) (ms_closures A) in
      let t := list_eqb mtypedef_eqb (ms_typedefs M) (ms_typedefs A) in
      let f := list_eqb mfunc_eqb (ms_funcs M) (ms_funcs A) in
      let p := forallb (fun e => match parent_of (ms_subs M) (fst e) with Some q => N.eqb q (snd e) | None => false end) parents in
      let g := leqN (ms_globals M) (ms_globals A) && list_eqb fname_eqb (ms_mains M) (ms_mains A) in
      [ (if c && t && f && p && g then 0 else 1); b2n c; b2n t; b2n f; b2n p;
        b2n (mir_no_dangling B); b2n (mir_no_dangling A);
        len (ms_closures B) - len (ms_closures A);
        len (ms_typedefs B) - len (ms_typedefs A);
        len (subtype_remap (derive_of tbl) (let '(_, _, st) := dedup_maps B in st) (ms_subs B));
        dup_after mmappings_eqb (map td_map (ms_typedefs A)) + dup_after mfty_eqb (map cd_fty (ms_closures A));
        b2n (m_wf_b B && m_subs_undefined B) ]%N
  end.
