(* C03names - Gallina mirror of crates/samlang-compiler/src/mir_type_deduplication.rs.  Definitions only.

   deduplicate(sources):
     state : HashMap<TypeNameId, TypeNameId>                      -> association list read with get_last
     closure_type_def_mapping : HashMap<FunctionType, TypeNameId> -> association list keyed by mfty_eqb, first stays
     type_def_mapping : HashMap<TypeDefinitionMappings, TypeNameId> -> likewise with mmappings_eqb
   Two definitions are merged when their bodies are equal AS WRITTEN (before any renaming): one pass, no fixpoint.
   The kept definitions are rewritten with the state and sorted by name; the symbol table re-parents the sub-types
   (`E$_Sub<tag>`) of merged enums, those renamings join the state, and then every function is rewritten.
   rewrite_stmt panics on SingleIf / Break / While ("should not appear before tailrec optimization"): `dedup` is None
   exactly when one of the three forms occurs in a function body.

   `derive p tag` is SymbolTable::derived_type_name_with_subtype_tag: the (interned) name of sub-type `tag` of `p`. *)
From Coq Require Import ZArith NArith List Bool.
Import ListNotations.
From SV Require Import Common.Int32 C03names.Syntax.

Fixpoint list_eqb {A} (eqb : A -> A -> bool) (a b : list A) : bool :=
  match a, b with
  | [], [] => true
  | x :: r, y :: s => eqb x y && list_eqb eqb r s
  | _, _ => false
  end.

Definition mty_eqb (a b : mty) : bool :=
  match a, b with
  | MInt32, MInt32 | MInt31, MInt31 => true
  | MId x, MId y => N.eqb x y
  | _, _ => false
  end.
Definition mfty_eqb (a b : mfty) : bool :=
  list_eqb mty_eqb (mf_args a) (mf_args b) && mty_eqb (mf_ret a) (mf_ret b).
Definition mvariant_eqb (a b : mvariant) : bool :=
  match a, b with
  | VBoxed x, VBoxed y => list_eqb mty_eqb x y
  | VUnboxed x, VUnboxed y => N.eqb x y
  | VInt31, VInt31 => true
  | _, _ => false
  end.
Definition mmappings_eqb (a b : mmappings) : bool :=
  match a, b with
  | MStruct x, MStruct y => list_eqb mty_eqb x y
  | MEnum x, MEnum y => list_eqb mvariant_eqb x y
  | _, _ => false
  end.

Definition state := list (N * N).

(* rewrite_id_type_name *)
Definition rn (st : state) (n : tname) : tname := match get_last n st with Some m => m | None => n end.

Definition rn_ty (st : state) (t : mty) : mty := match t with MId n => MId (rn st n) | _ => t end.
Definition rn_fty (st : state) (ft : mfty) : mfty := mkmfty (map (rn_ty st) (mf_args ft)) (rn_ty st (mf_ret ft)).
Definition rn_expr (st : state) (e : mexpr) : mexpr := match e with MEVar x t => MEVar x (rn_ty st t) | _ => e end.
Definition rn_quad (st : state) (q : mquad) : mquad :=
  mkmq (mq_name q) (rn_ty st (mq_ty q)) (rn_expr st (mq_e1 q)) (rn_expr st (mq_e2 q)).
Definition rn_callee (st : state) (c : mcallee) : mcallee :=
  match c with MCFn f ft => MCFn f (rn_fty st ft) | MCVar x t => MCVar x (rn_ty st t) end.
Definition rn_bc (st : state) (bc : option (vname * mty)) : option (vname * mty) :=
  match bc with Some (x, t) => Some (x, rn_ty st t) | None => None end.

(* rewrite_stmt on every form (the three forms on which the real function panics are rewritten the obvious way; `dedup`
   never gets there) *)
Fixpoint rn_stmt (st : state) (s : mstmt) : mstmt :=
  let fix go (ss : list mstmt) : list mstmt := match ss with [] => [] | s :: r => rn_stmt st s :: go r end in
  match s with
  | MIsPointer x pt e => MIsPointer x (rn st pt) (rn_expr st e)
  | MNot x e => MNot x (rn_expr st e)
  | MBinary x op e1 e2 => MBinary x op (rn_expr st e1) (rn_expr st e2)
  | MIndexedAccess x t e i => MIndexedAccess x (rn_ty st t) (rn_expr st e) i
  | MCall c args rty ret => MCall (rn_callee st c) (map (rn_expr st) args) (rn_ty st rty) ret
  | MIfElse c s1 s2 fas => MIfElse (rn_expr st c) (go s1) (go s2) (map (rn_quad st) fas)
  | MSingleIf c inv ss => MSingleIf (rn_expr st c) inv (go ss)
  | MBreak e => MBreak (rn_expr st e)
  | MWhile lvs ss bc => MWhile (map (rn_quad st) lvs) (go ss) (rn_bc st bc)
  | MCast x t e => MCast x (rn_ty st t) (rn_expr st e)
  | MLateInitDeclaration x t => MLateInitDeclaration x (rn_ty st t)
  | MLateInitAssignment x e => MLateInitAssignment x (rn_expr st e)
  | MStructInit x tn es => MStructInit x (rn st tn) (map (rn_expr st) es)
  | MClosureInit x ctn f ft e => MClosureInit x (rn st ctn) f (rn_fty st ft) (rn_expr st e)
  end.
Definition rn_stmts (st : state) (ss : list mstmt) : list mstmt := map (rn_stmt st) ss.

(* rewrite_function: the name of the function (and the class inside it) is not touched *)
Definition rn_func (st : state) (f : mfunc) : mfunc :=
  mkmfunc (mfn_name f) (mfn_params f) (rn_fty st (mfn_ty f)) (rn_stmts st (mfn_body f)) (rn_expr st (mfn_ret f)).

Definition rn_variant (st : state) (v : mvariant) : mvariant :=
  match v with VBoxed ts => VBoxed (map (rn_ty st) ts) | VUnboxed t => VUnboxed (rn st t) | VInt31 => VInt31 end.
Definition rn_mappings (st : state) (m : mmappings) : mmappings :=
  match m with MStruct ts => MStruct (map (rn_ty st) ts) | MEnum vs => MEnum (map (rn_variant st) vs) end.

(* the three forms rewrite_stmt panics on *)
Fixpoint has_loop_form (s : mstmt) : bool :=
  let fix go (ss : list mstmt) : bool := match ss with [] => false | s :: r => has_loop_form s || go r end in
  match s with
  | MSingleIf _ _ _ | MBreak _ | MWhile _ _ _ => true
  | MIfElse _ s1 s2 _ => go s1 || go s2
  | _ => false
  end.
Definition panics (P : msources) : bool := existsb (fun f => existsb has_loop_form (mfn_body f)) (ms_funcs P).

Fixpoint find_key {K} (eqb : K -> K -> bool) (k : K) (l : list (K * N)) : option N :=
  match l with
  | [] => None
  | (k', v) :: r => if eqb k k' then Some v else find_key eqb k r
  end.

(* for closure_type in closure_types { .. } : (closure_type_def_mapping, state) *)
Fixpoint closure_pass (cs : list mclosuredef) (cmap : list (mfty * N)) (st : state) : list (mfty * N) * state :=
  match cs with
  | [] => (cmap, st)
  | c :: r =>
      match find_key mfty_eqb (cd_fty c) cmap with
      | Some id => closure_pass r cmap (st ++ [(cd_name c, id)])
      | None => closure_pass r (cmap ++ [(cd_fty c, cd_name c)]) (st ++ [(cd_name c, cd_name c)])
      end
  end.

(* for type_def in type_definitions { .. } *)
Fixpoint typedef_pass (ds : list mtypedef) (tmap : list (mmappings * N)) (st : state) : list (mmappings * N) * state :=
  match ds with
  | [] => (tmap, st)
  | d :: r =>
      match find_key mmappings_eqb (td_map d) tmap with
      | Some id => typedef_pass r tmap (st ++ [(td_name d, id)])
      | None => typedef_pass r (tmap ++ [(td_map d, td_name d)]) (st ++ [(td_name d, td_name d)])
      end
  end.

(* sorted_by_key(|d| d.name): stable insertion sort *)
Fixpoint insert_by {A} (key : A -> N) (x : A) (l : list A) : list A :=
  match l with
  | [] => [x]
  | y :: r => if N.ltb (key x) (key y) then x :: l else y :: insert_by key x r
  end.
Definition sort_by {A} (key : A -> N) (l : list A) : list A := fold_right (insert_by key) [] l.

(* SymbolTable::remap_subtypes_for_deduplication: (old sub-type, its new name) for every sub-type whose parent is
   renamed *)
Definition subtype_remap (derive : tname -> N -> tname) (st : state) (subs : list (tname * (tname * N))) : state :=
  flat_map (fun e => let '(sub, (par, tag)) := e in
                     match get_last par st with
                     | Some c => if N.eqb c par then [] else [(sub, derive c tag)]
                     | None => []
                     end) subs.

Definition subs_after (derive : tname -> N -> tname) (st : state) (subs : list (tname * (tname * N)))
  : list (tname * (tname * N)) :=
  map (fun e => let '(sub, (par, tag)) := e in (sub, (rn st par, tag))) subs
  ++ flat_map (fun e => let '(sub, (par, tag)) := e in
                        match get_last par st with
                        | Some c => if N.eqb c par then [] else [(derive c tag, (c, tag))]
                        | None => []
                        end) subs.

(* the state after the two definition loops, and the two mappings *)
Definition dedup_maps (P : msources) : list (mfty * N) * list (mmappings * N) * state :=
  let '(cmap, st1) := closure_pass (ms_closures P) [] [] in
  let '(tmap, st2) := typedef_pass (ms_typedefs P) [] st1 in
  (cmap, tmap, st2).

Definition dedup_state (derive : tname -> N -> tname) (P : msources) : state :=
  let '(_, _, st2) := dedup_maps P in st2 ++ subtype_remap derive st2 (ms_subs P).

Definition dedup (derive : tname -> N -> tname) (P : msources) : option msources :=
  if panics P then None else
  let '(cmap, tmap, st2) := dedup_maps P in
  let st3 := st2 ++ subtype_remap derive st2 (ms_subs P) in
  Some (mkms (ms_globals P)
             (sort_by cd_name (map (fun e => mkmcd (snd e) (rn_fty st2 (fst e))) cmap))
             (sort_by td_name (map (fun e => mkmtd (snd e) (rn_mappings st2 (fst e))) tmap))
             (ms_mains P)
             (map (rn_func st3) (ms_funcs P))
             (subs_after derive st2 (ms_subs P))).
