(* C03names - Gallina mirrors of the two unused-name eliminations.  Definitions only.

     mir_elim : msources -> msources          samlang-optimization/src/unused_name_elimination.rs  optimize_sources
     lir_elim : ver -> lsources -> lsources   samlang-compiler/src/lir_unused_name_elimination.rs
                                              optimize_lir_sources_by_eliminating_unused_ones

   HashSet<T> is a list (membership is all that is ever asked of it), HashMap<K,V> an association list read with
   `get_last` (insert replaces).  The real code iterates hash tables where the model iterates lists; the order only
   decides the order in which the work lists are filled, never the SET that is computed (ProofsReach: both work
   lists compute the reachable set, which does not mention an order), and the output is `retain` / `filter` of the
   input vectors by membership, so model and code give the same vectors.

   Work lists carry explicit fuel; `*_fuel` is a bound computed from the program that is proved sufficient
   (ProofsReach.wl_push_total / wl_pop_total), so `mir_elim` and `lir_elim` are total functions. *)
From Coq Require Import ZArith NArith List Bool.
Import ListNotations.
From SV Require Import Common.Int32 C03names.Syntax.

(* ------------------------------------------------------------------ the two work-list disciplines *)
(* `for y in l { if used.insert(y) { stack.push(y) } }` - the head of `stack` is the top *)
Fixpoint push_new (l used stack : list N) : list N * list N :=
  match l with
  | [] => (used, stack)
  | y :: r => if memN y used then push_new r used stack else push_new r (y :: used) (y :: stack)
  end.

(* mark on push:  while let Some(x) = stack.pop() { for y in succ(x) { if used.insert(y) { stack.push(y) } } }
   returns the final set and the elements in the order in which they were popped *)
Fixpoint wl_push (fuel : nat) (succ : N -> list N) (used stack popped : list N) : option (list N * list N) :=
  match stack with
  | [] => Some (used, popped)
  | x :: rest =>
      match fuel with
      | O => None
      | S k => let '(u', s') := push_new (succ x) used rest in wl_push k succ u' s' (x :: popped)
      end
  end.

(* mark on pop:  while let Some(x) = stack.pop() { if used.insert(x) { for y in succ(x) { stack.push(y) } } } *)
Fixpoint wl_pop (fuel : nat) (succ : N -> list N) (used stack : list N) : option (list N) :=
  match stack with
  | [] => Some used
  | x :: rest =>
      match fuel with
      | O => None
      | S k => if memN x used then wl_pop k succ used rest
               else wl_pop k succ (x :: used) (rev (succ x) ++ rest)
      end
  end.

(* fuel that always suffices when every element that can enter the stack is in U *)
Definition push_fuel (U stack : list N) : nat := S (2 * length U + length stack).
Definition pop_fuel (succ : N -> list N) (U stack : list N) : nat :=
  S (length stack + length U + length (flat_map succ U)).

Definition from_opt {A} (d : A) (o : option A) : A := match o with Some x => x | None => d end.

(* what one function uses: (strings, functions, types) *)
Record used3 := mku3 { u_strs : list sname; u_fns : list N; u_tys : list tname }.

Definition succ_fns (M : list (N * used3)) (x : N) : list N :=
  match get_last x M with Some u => u_fns u | None => [] end.
Definition strs_of (M : list (N * used3)) (x : N) : list sname :=
  match get_last x M with Some u => u_strs u | None => [] end.
Definition tys_of (M : list (N * used3)) (x : N) : list tname :=
  match get_last x M with Some u => u_tys u | None => [] end.

(* every function name that can enter the function work list *)
Definition fn_universe (M : list (N * used3)) (roots : list N) : list N :=
  roots ++ flat_map (fun e => u_fns (snd e)) M.

(* the function work list of both passes:
     used_fn_names = entry_points as a set;  stack = entry_points as a vector (pop takes the LAST)
   returns (used_fn_names, names in the order popped) *)
Definition reach_fns (M : list (N * used3)) (roots : list N) : list N * list N :=
  from_opt (roots, [])
    (wl_push (push_fuel (fn_universe M roots) roots) (succ_fns M) roots (rev roots) []).

(* ------------------------------------------------------------------ MIR: collect_used_names_* *)
Definition m_ty_names (t : mty) : list tname := match t with MId n => [n] | _ => [] end.
Definition m_tys_names (ts : list mty) : list tname := flat_map m_ty_names ts.
Definition m_expr_strs (e : mexpr) : list sname := match e with MEStr s => [s] | _ => [] end.
Definition m_expr_tys (e : mexpr) : list tname := match e with MEVar _ t => m_ty_names t | _ => [] end.
Definition m_quad_strs (q : mquad) : list sname := m_expr_strs (mq_e1 q) ++ m_expr_strs (mq_e2 q).
Definition m_quad_tys (q : mquad) : list tname :=
  m_ty_names (mq_ty q) ++ m_expr_tys (mq_e1 q) ++ m_expr_tys (mq_e2 q).
Definition m_bc_tys (bc : option (vname * mty)) : list tname :=
  match bc with Some (_, t) => m_ty_names t | None => [] end.

Fixpoint m_stmt_strs (s : mstmt) : list sname :=
  let fix go (ss : list mstmt) : list sname := match ss with [] => [] | s :: r => m_stmt_strs s ++ go r end in
  match s with
  | MIsPointer _ _ e | MNot _ e | MIndexedAccess _ _ e _ | MBreak e | MCast _ _ e | MLateInitAssignment _ e
  | MClosureInit _ _ _ _ e => m_expr_strs e
  | MBinary _ _ e1 e2 => m_expr_strs e1 ++ m_expr_strs e2
  | MCall _ args _ _ => flat_map m_expr_strs args
  | MIfElse c s1 s2 fas => m_expr_strs c ++ go s1 ++ go s2 ++ flat_map m_quad_strs fas
  | MSingleIf c _ ss => m_expr_strs c ++ go ss
  | MWhile lvs ss _ => flat_map m_quad_strs lvs ++ go ss
  | MLateInitDeclaration _ _ => []
  | MStructInit _ _ es => flat_map m_expr_strs es
  end.
Fixpoint m_stmts_strs (ss : list mstmt) : list sname :=
  match ss with [] => [] | s :: r => m_stmt_strs s ++ m_stmts_strs r end.

Fixpoint m_stmt_fns (s : mstmt) : list N :=
  let fix go (ss : list mstmt) : list N := match ss with [] => [] | s :: r => m_stmt_fns s ++ go r end in
  match s with
  | MCall (MCFn f _) _ _ _ => [fn_id f]
  | MClosureInit _ _ f _ _ => [fn_id f]
  | MIfElse _ s1 s2 _ => go s1 ++ go s2
  | MSingleIf _ _ ss | MWhile _ ss _ => go ss
  | _ => []
  end.
Fixpoint m_stmts_fns (ss : list mstmt) : list N :=
  match ss with [] => [] | s :: r => m_stmt_fns s ++ m_stmts_fns r end.

(* NOT collected by the real code (and so not here): the type of a LateInitDeclaration, the FunctionType attached to
   a function name (callee of a Call, function of a ClosureInit) *)
Fixpoint m_stmt_tys (s : mstmt) : list tname :=
  let fix go (ss : list mstmt) : list tname := match ss with [] => [] | s :: r => m_stmt_tys s ++ go r end in
  match s with
  | MIsPointer _ pt e => pt :: m_expr_tys e
  | MNot _ e | MBreak e | MLateInitAssignment _ e => m_expr_tys e
  | MBinary _ _ e1 e2 => m_expr_tys e1 ++ m_expr_tys e2
  | MIndexedAccess _ t e _ => m_expr_tys e ++ m_ty_names t
  | MCall c args rty _ =>
      (match c with MCFn f _ => [fn_cls f] | MCVar _ t => m_ty_names t end)
      ++ flat_map m_expr_tys args ++ m_ty_names rty
  | MIfElse c s1 s2 fas => m_expr_tys c ++ go s1 ++ go s2 ++ flat_map m_quad_tys fas
  | MSingleIf c _ ss => m_expr_tys c ++ go ss
  | MWhile lvs ss bc => flat_map m_quad_tys lvs ++ go ss ++ m_bc_tys bc
  | MCast _ t e => m_ty_names t ++ m_expr_tys e
  | MLateInitDeclaration _ _ => []
  | MStructInit _ tn es => tn :: flat_map m_expr_tys es
  | MClosureInit _ ctn f _ e => fn_cls f :: m_expr_tys e ++ [ctn]
  end.
Fixpoint m_stmts_tys (ss : list mstmt) : list tname :=
  match ss with [] => [] | s :: r => m_stmt_tys s ++ m_stmts_tys r end.

Definition remove_N (x : N) (l : list N) : list N := filter (fun y => negb (N.eqb y x)) l.

(* get_other_functions_used_by_given_function *)
Definition m_fn_used (f : mfunc) : used3 :=
  mku3 (m_stmts_strs (mfn_body f) ++ m_expr_strs (mfn_ret f))
       (remove_N (fn_id (mfn_name f)) (m_stmts_fns (mfn_body f)))
       (m_stmts_tys (mfn_body f) ++ m_tys_names (mf_args (mfn_ty f)) ++ m_ty_names (mf_ret (mfn_ty f))
        ++ m_expr_tys (mfn_ret f)).

Definition m_used_map (fs : list mfunc) : list (N * used3) :=
  map (fun f => (fn_id (mfn_name f), m_fn_used f)) fs.

Definition m_variant_names (v : mvariant) : list tname :=
  match v with VBoxed ts => m_tys_names ts | VUnboxed t => [t] | VInt31 => [] end.
Definition m_mappings_names (m : mmappings) : list tname :=
  match m with MStruct ts => m_tys_names ts | MEnum vs => flat_map m_variant_names vs end.
Definition m_fty_names (ft : mfty) : list tname := m_tys_names (mf_args ft) ++ m_ty_names (mf_ret ft).

(* type_def_map: closure types first, then type definitions (a type definition with the name of a closure type
   would replace it) *)
Definition m_typedef_map (P : msources) : list (N * list tname) :=
  map (fun d => (cd_name d, m_fty_names (cd_fty d))) (ms_closures P)
  ++ map (fun d => (td_name d, m_mappings_names (td_map d))) (ms_typedefs P).

Definition succ_tys (T : list (N * list tname)) (t : N) : list tname :=
  match get_last t T with Some l => l | None => [] end.

(* the pushes that fill used_types_worklist_stack, in push order *)
Definition m_type_seeds (M : list (N * used3)) (T : list (N * list tname)) (used_fns : list N) : list tname :=
  flat_map (fun f => flat_map (fun t => t :: succ_tys T t) (tys_of M f)) used_fns.

Definition ty_universe (T : list (N * list tname)) (seeds : list tname) : list tname :=
  seeds ++ flat_map (fun e => fst e :: snd e) T.

(* analyze_all_used_names *)
Definition m_analyze (P : msources) : list sname * list N * list tname :=
  let M := m_used_map (ms_funcs P) in
  let T := m_typedef_map P in
  let roots := map fn_id (ms_mains P) in
  let '(used_fns, popped) := reach_fns M roots in
  let used_strs := flat_map (strs_of M) (rev popped) in
  let seeds := m_type_seeds M T used_fns in
  let stack := rev seeds in
  let used_tys := from_opt [] (wl_pop (pop_fuel (succ_tys T) (ty_universe T seeds) stack) (succ_tys T) [] stack) in
  (used_strs, used_fns, used_tys).

Definition parent_of (subs : list (tname * (tname * N))) (t : tname) : option tname :=
  match get_first t subs with Some (p, _) => Some p | None => None end.

(* "When a subtype is used, ensure its parent type is also marked as used." *)
Definition m_add_parents (subs : list (tname * (tname * N))) (used_tys : list tname) : list tname :=
  flat_map (fun t => match parent_of subs t with Some p => [p] | None => [] end) used_tys ++ used_tys.

Definition m_kept (P : msources) : list sname * list N * list tname :=
  let '(s, f, t) := m_analyze P in (s, f, m_add_parents (ms_subs P) t).

Definition mir_elim (P : msources) : msources :=
  let '(used_strs, used_fns, used_tys) := m_kept P in
  mkms (filter (fun s => memN s used_strs) (ms_globals P))
       (filter (fun d => memN (cd_name d) used_tys) (ms_closures P))
       (filter (fun d => memN (td_name d) used_tys) (ms_typedefs P))
       (ms_mains P)
       (filter (fun f => memN (fn_id (mfn_name f)) used_fns) (ms_funcs P))
       (ms_subs P).

(* ------------------------------------------------------------------ LIR *)
(* versions of the LIR pass: the pinned tree, the seeded change C03-6 (IsPointer's pointer_type is not collected),
   and the tree before fix b69b06c (used types were not closed under the fields / parent of their definitions) *)
Inductive ver := VNow | VSeedC036 | VPreB69.

Fixpoint l_ty_names (t : lty) : list tname :=
  let fix go (ts : list lty) : list tname := match ts with [] => [] | t :: r => l_ty_names t ++ go r end in
  match t with
  | LId n => [n]
  | LFn args ret => go args ++ l_ty_names ret
  | LInt32 | LInt31 | LAny => []
  end.
Fixpoint l_tys_names (ts : list lty) : list tname :=
  match ts with [] => [] | t :: r => l_ty_names t ++ l_tys_names r end.

Definition l_expr_strs (e : lexpr) : list sname := match e with LEStr s => [s] | _ => [] end.
Definition l_expr_fns (e : lexpr) : list N := match e with LEFn f _ _ => [fn_id f] | _ => [] end.
Definition l_expr_tys (e : lexpr) : list tname :=
  match e with
  | LEVar _ t => l_ty_names t
  | LEFn f args ret => fn_cls f :: l_tys_names args ++ l_ty_names ret
  | _ => []
  end.
Definition l_quad_strs (q : lquad) : list sname := l_expr_strs (lq_e1 q) ++ l_expr_strs (lq_e2 q).
Definition l_quad_fns (q : lquad) : list N := l_expr_fns (lq_e1 q) ++ l_expr_fns (lq_e2 q).
Definition l_quad_tys (q : lquad) : list tname :=
  l_ty_names (lq_ty q) ++ l_expr_tys (lq_e1 q) ++ l_expr_tys (lq_e2 q).
Definition l_bc_tys (bc : option (vname * lty)) : list tname :=
  match bc with Some (_, t) => l_ty_names t | None => [] end.

Fixpoint l_stmt_strs (s : lstmt) : list sname :=
  let fix go (ss : list lstmt) : list sname := match ss with [] => [] | s :: r => l_stmt_strs s ++ go r end in
  match s with
  | LIsPointer _ _ e | LNot _ e | LIndexedAccess _ _ e _ | LBreak e | LCast _ _ e | LLateInitAssignment _ e => l_expr_strs e
  | LBinary _ _ e1 e2 => l_expr_strs e1 ++ l_expr_strs e2
  | LCall c args _ _ => l_expr_strs c ++ flat_map l_expr_strs args
  | LIfElse c s1 s2 fas => l_expr_strs c ++ go s1 ++ go s2 ++ flat_map l_quad_strs fas
  | LSingleIf c _ ss => l_expr_strs c ++ go ss
  | LWhile lvs ss _ => flat_map l_quad_strs lvs ++ go ss
  | LLateInitDeclaration _ _ => []
  | LStructInit _ _ es => flat_map l_expr_strs es
  end.
Fixpoint l_stmts_strs (ss : list lstmt) : list sname :=
  match ss with [] => [] | s :: r => l_stmt_strs s ++ l_stmts_strs r end.

Fixpoint l_stmt_fns (s : lstmt) : list N :=
  let fix go (ss : list lstmt) : list N := match ss with [] => [] | s :: r => l_stmt_fns s ++ go r end in
  match s with
  | LIsPointer _ _ e | LNot _ e | LIndexedAccess _ _ e _ | LBreak e | LCast _ _ e | LLateInitAssignment _ e => l_expr_fns e
  | LBinary _ _ e1 e2 => l_expr_fns e1 ++ l_expr_fns e2
  | LCall c args _ _ => l_expr_fns c ++ flat_map l_expr_fns args
  | LIfElse c s1 s2 fas => l_expr_fns c ++ go s1 ++ go s2 ++ flat_map l_quad_fns fas
  | LSingleIf c _ ss => l_expr_fns c ++ go ss
  | LWhile lvs ss _ => flat_map l_quad_fns lvs ++ go ss
  | LLateInitDeclaration _ _ => []
  | LStructInit _ _ es => flat_map l_expr_fns es
  end.
Fixpoint l_stmts_fns (ss : list lstmt) : list N :=
  match ss with [] => [] | s :: r => l_stmt_fns s ++ l_stmts_fns r end.

Section Ver.
  Variable v : ver.

  Fixpoint l_stmt_tys (s : lstmt) : list tname :=
    let fix go (ss : list lstmt) : list tname := match ss with [] => [] | s :: r => l_stmt_tys s ++ go r end in
    match s with
    | LIsPointer _ pt e => (match v with VSeedC036 => [] | _ => [pt] end) ++ l_expr_tys e
    | LNot _ e | LBreak e | LLateInitAssignment _ e => l_expr_tys e
    | LBinary _ _ e1 e2 => l_expr_tys e1 ++ l_expr_tys e2
    | LIndexedAccess _ t e _ => l_expr_tys e ++ l_ty_names t
    | LCall c args rty _ => l_expr_tys c ++ flat_map l_expr_tys args ++ l_ty_names rty
    | LIfElse c s1 s2 fas => l_expr_tys c ++ go s1 ++ go s2 ++ flat_map l_quad_tys fas
    | LSingleIf c _ ss => l_expr_tys c ++ go ss
    | LWhile lvs ss bc => flat_map l_quad_tys lvs ++ go ss ++ l_bc_tys bc
    | LLateInitDeclaration _ t => l_ty_names t
    | LCast _ t e => l_ty_names t ++ l_expr_tys e
    | LStructInit _ t es => l_ty_names t ++ flat_map l_expr_tys es
    end.
  Fixpoint l_stmts_tys (ss : list lstmt) : list tname :=
    match ss with [] => [] | s :: r => l_stmt_tys s ++ l_stmts_tys r end.
End Ver.

Definition l_fn_used (v : ver) (f : lfunc) : used3 :=
  mku3 (l_stmts_strs (lfn_body f) ++ l_expr_strs (lfn_ret f))
       (remove_N (fn_id (lfn_name f)) (l_stmts_fns (lfn_body f) ++ l_expr_fns (lfn_ret f)))
       (l_stmts_tys v (lfn_body f) ++ l_tys_names (lfn_args f) ++ l_ty_names (lfn_rty f) ++ l_expr_tys (lfn_ret f)).

Definition l_used_map (v : ver) (fs : list lfunc) : list (N * used3) :=
  map (fun f => (fn_id (lfn_name f), l_fn_used v f)) fs.

Definition opt_list {A} (o : option A) : list A := match o with Some x => [x] | None => [] end.

(* what a type definition mentions: `for t in &d.mappings { collect }` then `mentioned.extend(d.parent_type)` *)
Definition l_typedef_names (d : ltypedef) : list tname := l_tys_names (ltd_map d) ++ opt_list (ltd_parent d).
Definition l_typedef_map (ds : list ltypedef) : list (N * list tname) :=
  map (fun d => (ltd_name d, l_typedef_names d)) ds.

(* analyze_used_function_names_and_type_names + the type-definition work list of the caller *)
Definition l_kept (v : ver) (P : lsources) : list sname * list N * list tname :=
  let M := l_used_map v (ls_funcs P) in
  let roots := map fn_id (ls_mains P) in
  let '(used_fns, popped) := reach_fns M roots in
  let used_strs := flat_map (strs_of M) (rev popped) in
  let tys0 := flat_map (tys_of M) used_fns in
  let T := l_typedef_map (ls_typedefs P) in
  let used_tys :=
    match v with
    | VPreB69 => tys0
    | _ => fst (from_opt (tys0, [])
                  (wl_push (push_fuel (ty_universe T tys0) tys0) (succ_tys T) tys0 (rev tys0) []))
    end in
  (used_strs, used_fns, used_tys).

Definition lir_elim (v : ver) (P : lsources) : lsources :=
  let '(used_strs, used_fns, used_tys) := l_kept v P in
  mkls (filter (fun s => memN s used_strs) (ls_globals P))
       (filter (fun d => memN (ltd_name d) used_tys) (ls_typedefs P))
       (ls_mains P)
       (filter (fun f => memN (fn_id (lfn_name f)) used_fns) (ls_funcs P)).
