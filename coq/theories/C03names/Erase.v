(* C03names - the MIR part of Syntax.v mapped onto C01mir.Syntax, so that C01mir.Sem gives it a meaning.
   Definitions only.

   C01mir keeps types as opaque numbers and its semantics hands them to the world uninterpreted (field loads, pointer
   tests, casts, allocations); here a type is encoded as 0 (Int32), 1 (Int31), n + 2 (Id n), a type NAME n as n + 2 as
   well (IsPointer, StructInit, ClosureInit).  The FunctionType attached to a ClosureInit is ignored by the semantics and
   erased to 0.  Function names are their numbers. *)
From Coq Require Import ZArith NArith List Bool.
Import ListNotations.
From SV Require Import Common.Int32 C01mir.Syntax C01mir.Sem C03names.Syntax.
Open Scope N_scope.

Definition enc_id (n : tname) : ty := n + 2.
Definition enc_ty (t : mty) : ty := match t with MInt32 => 0 | MInt31 => 1 | MId n => enc_id n end.

Definition er_expr (e : mexpr) : expr :=
  match e with
  | MEInt z => EInt z
  | MEI31 z => EI31 z
  | MEStr s => EStr s
  | MEVar x t => EVar x (enc_ty t)
  end.
Definition er_quad (q : mquad) : quad := mkq (mq_name q) (enc_ty (mq_ty q)) (er_expr (mq_e1 q)) (er_expr (mq_e2 q)).
Definition er_callee (c : mcallee) : callee :=
  match c with
  | MCFn f ft => CFn (fn_id f) (map enc_ty (mf_args ft)) (enc_ty (mf_ret ft))
  | MCVar x t => CVar x (enc_ty t)
  end.
Definition er_bc (bc : option (vname * mty)) : option (name * ty) :=
  match bc with Some (x, t) => Some (x, enc_ty t) | None => None end.

Fixpoint er_stmt (s : mstmt) : stmt :=
  let fix go (ss : list mstmt) : list stmt := match ss with [] => [] | s :: r => er_stmt s :: go r end in
  match s with
  | MIsPointer x pt e => SPrim x (PIsPtr (enc_id pt)) (er_expr e)
  | MNot x e => SNot x (er_expr e)
  | MBinary x op e1 e2 => SBin x op (er_expr e1) (er_expr e2)
  | MIndexedAccess x t e i => SPrim x (PIdx (enc_ty t) i) (er_expr e)
  | MCall c args rty ret => SCall (er_callee c) (map er_expr args) (enc_ty rty) ret
  | MIfElse c s1 s2 fas => SIf (er_expr c) (go s1) (go s2) (map er_quad fas)
  | MSingleIf c inv ss => SSIf (er_expr c) inv (go ss)
  | MBreak e => SBreak (er_expr e)
  | MWhile lvs ss bc => SWhile (map er_quad lvs) (go ss) (er_bc bc)
  | MCast x t e => SPrim x (PCast (enc_ty t)) (er_expr e)
  | MLateInitDeclaration x t => SDecl x (enc_ty t)
  | MLateInitAssignment x e => SAssign x (er_expr e)
  | MStructInit x tn es => SStruct x (enc_id tn) (map er_expr es)
  | MClosureInit x ctn f _ e => SClosure x (enc_id ctn) (fn_id f) 0 (er_expr e)
  end.
Fixpoint er_stmts (ss : list mstmt) : list stmt :=
  match ss with [] => [] | s :: r => er_stmt s :: er_stmts r end.

Definition er_func (f : mfunc) : func :=
  mkfunc (fn_id (mfn_name f)) (mfn_params f) (map enc_ty (mf_args (mfn_ty f))) (enc_ty (mf_ret (mfn_ty f)))
         (er_stmts (mfn_body f)) (er_expr (mfn_ret f)).

Definition erase (P : msources) : program := map er_func (ms_funcs P).

(* every function name a C01mir statement refers to: direct callees and functions made into closures *)
Fixpoint fn_refs (s : stmt) : list N :=
  let fix go (ss : list stmt) : list N := match ss with [] => [] | s :: r => fn_refs s ++ go r end in
  match s with
  | SCall (CFn f _ _) _ _ _ => [f]
  | SClosure _ _ f _ _ => [f]
  | SIf _ s1 s2 _ => go s1 ++ go s2
  | SSIf _ _ ss | SWhile _ ss _ => go ss
  | _ => []
  end.
Fixpoint fn_refs_l (ss : list stmt) : list N :=
  match ss with [] => [] | s :: r => fn_refs s ++ fn_refs_l r end.

(* a world whose closure values only denote functions that a ClosureInit of the run so far made into a closure *)
Definition honest (w : world) : Prop :=
  forall tr v f cx, w_clo w tr v = Some (f, cx) -> exists t vs, In (KClosure t f, vs) tr.
