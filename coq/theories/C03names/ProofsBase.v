(* C03names - association lists, the function work list of both eliminations, unfolding equations of the traversals. *)
From Coq Require Import ZArith NArith List Bool Lia.
Import ListNotations.
From SV Require Import Common.Int32 C03names.Syntax C03names.Elim C03names.Spec C03names.ProofsReach.
Open Scope nat_scope.

(* ---------------- get_last / get_first ---------------- *)
Lemma get_last_In : forall A (k : N) (l : list (N * A)) v, get_last k l = Some v -> In (k, v) l.
Proof.
  induction l as [|[k' w] l IH]; simpl; intros v H; [discriminate|].
  destruct (get_last k l) as [u|] eqn:E.
  - inversion H; subst. right. apply IH. reflexivity.
  - destruct (N.eqb k k') eqn:Ek; [|discriminate]. apply N.eqb_eq in Ek. inversion H; subst. left. reflexivity.
Qed.

Lemma get_last_None : forall A (k : N) (l : list (N * A)), get_last k l = None -> ~ In k (map fst l).
Proof.
  induction l as [|[k' w] l IH]; simpl; intros H; [tauto|].
  destruct (get_last k l) eqn:E; [discriminate|].
  destruct (N.eqb k k') eqn:Ek; [discriminate|]. apply N.eqb_neq in Ek.
  intros [Heq|Hin]; [congruence | exact (IH eq_refl Hin)].
Qed.

Lemma get_last_nodup : forall A (k : N) (l : list (N * A)) v,
    NoDup (map fst l) -> In (k, v) l -> get_last k l = Some v.
Proof.
  induction l as [|[k' w] l IH]; simpl; intros v Hnd Hin; [contradiction|].
  inversion Hnd as [|? ? Hn Hnd']; subst. destruct Hin as [Heq|Hin].
  - inversion Heq; subst. destruct (get_last k l) eqn:E.
    + apply get_last_In in E. exfalso. apply Hn. apply in_map_iff. exists (k, a). split; auto.
    + rewrite N.eqb_refl. reflexivity.
  - rewrite (IH v Hnd' Hin). reflexivity.
Qed.

Lemma get_first_In : forall A (k : N) (l : list (N * A)) v, get_first k l = Some v -> In (k, v) l.
Proof.
  induction l as [|[k' w] l IH]; simpl; intros v H; [discriminate|].
  destruct (N.eqb k k') eqn:Ek.
  - apply N.eqb_eq in Ek. inversion H; subst. left. reflexivity.
  - right. apply IH. exact H.
Qed.

(* ---------------- the function work list ---------------- *)
Lemma succ_fns_universe : forall M roots x y, In y (succ_fns M x) -> In y (fn_universe M roots).
Proof.
  intros M roots x y H. unfold succ_fns in H. destruct (get_last x M) as [u|] eqn:E; [|contradiction].
  apply get_last_In in E. unfold fn_universe. apply in_or_app. right.
  apply in_flat_map. exists (x, u). split; assumption.
Qed.

Theorem reach_fns_spec : forall M roots used popped,
    reach_fns M roots = (used, popped) ->
    (forall x, In x used <-> reach (succ_fns M) roots x) /\ (forall x, In x popped <-> In x used).
Proof.
  intros M roots used popped H. unfold reach_fns in H.
  destruct (push_fuel_enough (succ_fns M) (fn_universe M roots) roots (rev roots) []) as [[u p] E].
  { intros x y. apply succ_fns_universe. }
  assert (Hf : push_fuel (fn_universe M roots) (rev roots) = push_fuel (fn_universe M roots) roots).
  { unfold push_fuel. rewrite rev_length. reflexivity. }
  rewrite <- Hf, E in H. simpl in H. inversion H; subst.
  eapply wl_push_reach; [|exact E]. intros x. symmetry. apply in_rev.
Qed.

Lemma succ_tys_universe : forall T seeds x y, In y (succ_tys T x) -> In y (ty_universe T seeds).
Proof.
  intros T seeds x y H. unfold succ_tys in H. destruct (get_last x T) as [l|] eqn:E; [|contradiction].
  apply get_last_In in E. unfold ty_universe. apply in_or_app. right.
  apply in_flat_map. exists (x, l). split; [assumption | right; assumption].
Qed.

(* the type work list of the LIR pass *)
Theorem reach_tys_push_spec : forall T tys0 x,
    In x (fst (from_opt (tys0, []) (wl_push (push_fuel (ty_universe T tys0) tys0) (succ_tys T) tys0 (rev tys0) [])))
    <-> reach (succ_tys T) tys0 x.
Proof.
  intros T tys0 x.
  destruct (push_fuel_enough (succ_tys T) (ty_universe T tys0) tys0 (rev tys0) []) as [[u p] E].
  { intros a b. apply succ_tys_universe. }
  assert (Hf : push_fuel (ty_universe T tys0) (rev tys0) = push_fuel (ty_universe T tys0) tys0).
  { unfold push_fuel. rewrite rev_length. reflexivity. }
  rewrite <- Hf, E. simpl.
  assert (Hr : forall y, In y (rev tys0) <-> In y tys0) by (intros y; symmetry; apply in_rev).
  destruct (wl_push_reach (succ_tys T) tys0 (rev tys0) _ u p Hr E) as [H1 _]. apply H1.
Qed.

(* the type work list of the MIR pass *)
Theorem reach_tys_pop_spec : forall T seeds x,
    In x (from_opt [] (wl_pop (pop_fuel (succ_tys T) (ty_universe T seeds) (rev seeds)) (succ_tys T) [] (rev seeds)))
    <-> reach (succ_tys T) seeds x.
Proof.
  intros T seeds x.
  destruct (pop_fuel_enough (succ_tys T) (ty_universe T seeds) (rev seeds)) as [u E].
  { intros y Hy. apply in_rev in Hy. unfold ty_universe. apply in_or_app. left. exact Hy. }
  { intros a b. apply succ_tys_universe. }
  rewrite E. simpl. rewrite (wl_pop_reach (succ_tys T) (rev seeds) _ u E x).
  split; apply reach_incl; intros y Hy; apply reach_root.
  - apply in_rev. exact Hy.
  - apply in_rev in Hy. exact Hy.
Qed.

Lemma in_remove_N : forall x y l, In y (remove_N x l) <-> In y l /\ y <> x.
Proof.
  intros x y l. unfold remove_N. rewrite filter_In. split; intros [H1 H2]; split; auto.
  - intros ->. rewrite N.eqb_refl in H2. discriminate.
  - destruct (N.eqb y x) eqn:E; [apply N.eqb_eq in E; contradiction | reflexivity].
Qed.

(* ---------------- unfolding equations (the local `go` of each traversal is the list version) ---------------- *)
Lemma l_stmt_tys_if : forall v c s1 s2 fas, l_stmt_tys v (LIfElse c s1 s2 fas) =
  l_expr_tys c ++ l_stmts_tys v s1 ++ l_stmts_tys v s2 ++ flat_map l_quad_tys fas.
Proof. reflexivity. Qed.
Lemma l_stmt_tys_sif : forall v c i ss, l_stmt_tys v (LSingleIf c i ss) = l_expr_tys c ++ l_stmts_tys v ss.
Proof. reflexivity. Qed.
Lemma l_stmt_tys_while : forall v lvs ss bc, l_stmt_tys v (LWhile lvs ss bc) =
  flat_map l_quad_tys lvs ++ l_stmts_tys v ss ++ l_bc_tys bc.
Proof. reflexivity. Qed.

Lemma l_stmt_fns_if : forall c s1 s2 fas, l_stmt_fns (LIfElse c s1 s2 fas) =
  l_expr_fns c ++ l_stmts_fns s1 ++ l_stmts_fns s2 ++ flat_map l_quad_fns fas.
Proof. reflexivity. Qed.
Lemma l_stmt_fns_sif : forall c i ss, l_stmt_fns (LSingleIf c i ss) = l_expr_fns c ++ l_stmts_fns ss.
Proof. reflexivity. Qed.
Lemma l_stmt_fns_while : forall lvs ss bc, l_stmt_fns (LWhile lvs ss bc) = flat_map l_quad_fns lvs ++ l_stmts_fns ss.
Proof. reflexivity. Qed.

Lemma lm_stmt_tys_if : forall c s1 s2 fas, lm_stmt_tys (LIfElse c s1 s2 fas) =
  lm_expr_tys c ++ lm_stmts_tys s1 ++ lm_stmts_tys s2 ++ flat_map lm_quad_tys fas.
Proof. reflexivity. Qed.
Lemma lm_stmt_tys_sif : forall c i ss, lm_stmt_tys (LSingleIf c i ss) = lm_expr_tys c ++ lm_stmts_tys ss.
Proof. reflexivity. Qed.
Lemma lm_stmt_tys_while : forall lvs ss bc, lm_stmt_tys (LWhile lvs ss bc) =
  flat_map lm_quad_tys lvs ++ lm_stmts_tys ss ++ l_bc_tys bc.
Proof. reflexivity. Qed.

Lemma lm_stmt_fnvals_if : forall c s1 s2 fas, lm_stmt_fnvals (LIfElse c s1 s2 fas) =
  lm_expr_fns c ++ lm_stmts_fnvals s1 ++ lm_stmts_fnvals s2 ++ flat_map lm_quad_fns fas.
Proof. reflexivity. Qed.
Lemma lm_stmt_fnvals_sif : forall c i ss, lm_stmt_fnvals (LSingleIf c i ss) = lm_expr_fns c ++ lm_stmts_fnvals ss.
Proof. reflexivity. Qed.
Lemma lm_stmt_fnvals_while : forall lvs ss bc, lm_stmt_fnvals (LWhile lvs ss bc) =
  flat_map lm_quad_fns lvs ++ lm_stmts_fnvals ss.
Proof. reflexivity. Qed.

Lemma lm_stmt_callees_if : forall c s1 s2 fas, lm_stmt_callees (LIfElse c s1 s2 fas) =
  lm_stmts_callees s1 ++ lm_stmts_callees s2.
Proof. reflexivity. Qed.
Lemma lm_stmt_callees_sif : forall c i ss, lm_stmt_callees (LSingleIf c i ss) = lm_stmts_callees ss.
Proof. reflexivity. Qed.
Lemma lm_stmt_callees_while : forall lvs ss bc, lm_stmt_callees (LWhile lvs ss bc) = lm_stmts_callees ss.
Proof. reflexivity. Qed.

Lemma m_stmt_tys_if : forall c s1 s2 fas, m_stmt_tys (MIfElse c s1 s2 fas) =
  m_expr_tys c ++ m_stmts_tys s1 ++ m_stmts_tys s2 ++ flat_map m_quad_tys fas.
Proof. reflexivity. Qed.
Lemma m_stmt_tys_sif : forall c i ss, m_stmt_tys (MSingleIf c i ss) = m_expr_tys c ++ m_stmts_tys ss.
Proof. reflexivity. Qed.
Lemma m_stmt_tys_while : forall lvs ss bc, m_stmt_tys (MWhile lvs ss bc) =
  flat_map m_quad_tys lvs ++ m_stmts_tys ss ++ m_bc_tys bc.
Proof. reflexivity. Qed.

Lemma m_stmt_fns_if : forall c s1 s2 fas, m_stmt_fns (MIfElse c s1 s2 fas) = m_stmts_fns s1 ++ m_stmts_fns s2.
Proof. reflexivity. Qed.
Lemma m_stmt_fns_sif : forall c i ss, m_stmt_fns (MSingleIf c i ss) = m_stmts_fns ss.
Proof. reflexivity. Qed.
Lemma m_stmt_fns_while : forall lvs ss bc, m_stmt_fns (MWhile lvs ss bc) = m_stmts_fns ss.
Proof. reflexivity. Qed.

Lemma mm_stmt_tys_if : forall c s1 s2 fas, mm_stmt_tys (MIfElse c s1 s2 fas) =
  m_expr_tys c ++ mm_stmts_tys s1 ++ mm_stmts_tys s2 ++ flat_map m_quad_tys fas.
Proof. reflexivity. Qed.
Lemma mm_stmt_tys_sif : forall c i ss, mm_stmt_tys (MSingleIf c i ss) = m_expr_tys c ++ mm_stmts_tys ss.
Proof. reflexivity. Qed.
Lemma mm_stmt_tys_while : forall lvs ss bc, mm_stmt_tys (MWhile lvs ss bc) =
  flat_map m_quad_tys lvs ++ mm_stmts_tys ss ++ m_bc_tys bc.
Proof. reflexivity. Qed.

Lemma mm_stmt_fns_if : forall c s1 s2 fas, mm_stmt_fns (MIfElse c s1 s2 fas) = mm_stmts_fns s1 ++ mm_stmts_fns s2.
Proof. reflexivity. Qed.
Lemma mm_stmt_fns_sif : forall c i ss, mm_stmt_fns (MSingleIf c i ss) = mm_stmts_fns ss.
Proof. reflexivity. Qed.
Lemma mm_stmt_fns_while : forall lvs ss bc, mm_stmt_fns (MWhile lvs ss bc) = mm_stmts_fns ss.
Proof. reflexivity. Qed.

Lemma mg_stmt_tys_if : forall c s1 s2 fas, mg_stmt_tys (MIfElse c s1 s2 fas) = mg_stmts_tys s1 ++ mg_stmts_tys s2.
Proof. reflexivity. Qed.
Lemma mg_stmt_tys_sif : forall c i ss, mg_stmt_tys (MSingleIf c i ss) = mg_stmts_tys ss.
Proof. reflexivity. Qed.
Lemma mg_stmt_tys_while : forall lvs ss bc, mg_stmt_tys (MWhile lvs ss bc) = mg_stmts_tys ss.
Proof. reflexivity. Qed.

(* membership in concatenations *)
Ltac inapp := repeat rewrite in_app_iff in *.
