(* C03names - (d) type deduplication: the state is a function from the old names onto representatives whose definitions
   are equal to the originals' (as written, hence also after renaming); the kept definitions are pairwise different as
   written; renaming twice is renaming once; the mentions of the output are the images of the mentions of the input. *)
From Coq Require Import ZArith NArith List Bool Lia.
Import ListNotations.
From SV Require Import Common.Int32 C03names.Syntax C03names.Elim C03names.Dedup C03names.Spec C03names.ProofsReach
  C03names.ProofsBase C03names.ProofsElimMir.
Open Scope nat_scope.

(* ---------------- the structural equalities decide equality ---------------- *)
Lemma list_eqb_eq : forall A (eqb : A -> A -> bool), (forall a b, eqb a b = true <-> a = b) ->
    forall l m, list_eqb eqb l m = true <-> l = m.
Proof.
  intros A eqb H. induction l as [|a l IH]; destruct m as [|b m]; simpl; split; intros E; try reflexivity; try discriminate.
  - apply andb_true_iff in E. destruct E as [E1 E2]. apply H in E1. apply IH in E2. subst. reflexivity.
  - inversion E; subst. apply andb_true_iff. split; [apply H | apply IH]; reflexivity.
Qed.

Lemma mty_eqb_eq : forall a b, mty_eqb a b = true <-> a = b.
Proof.
  intros [| |x] [| |y]; simpl; split; intros E; try reflexivity; try discriminate.
  - apply N.eqb_eq in E. subst. reflexivity.
  - inversion E. apply N.eqb_refl.
Qed.

Lemma mfty_eqb_eq : forall a b, mfty_eqb a b = true <-> a = b.
Proof.
  intros [a1 a2] [b1 b2]. unfold mfty_eqb. simpl. rewrite andb_true_iff, (list_eqb_eq _ _ mty_eqb_eq), mty_eqb_eq.
  split; [intros [-> ->]; reflexivity | intros E; inversion E; auto].
Qed.

Lemma mvariant_eqb_eq : forall a b, mvariant_eqb a b = true <-> a = b.
Proof.
  intros [x|x|] [y|y|]; simpl; split; intros E; try reflexivity; try discriminate.
  - apply (list_eqb_eq _ _ mty_eqb_eq) in E. subst. reflexivity.
  - inversion E. apply (list_eqb_eq _ _ mty_eqb_eq). reflexivity.
  - apply N.eqb_eq in E. subst. reflexivity.
  - inversion E. apply N.eqb_refl.
Qed.

Lemma mmappings_eqb_eq : forall a b, mmappings_eqb a b = true <-> a = b.
Proof.
  intros [x|x] [y|y]; simpl; split; intros E; try discriminate.
  - apply (list_eqb_eq _ _ mty_eqb_eq) in E. subst. reflexivity.
  - inversion E. apply (list_eqb_eq _ _ mty_eqb_eq). reflexivity.
  - apply (list_eqb_eq _ _ mvariant_eqb_eq) in E. subst. reflexivity.
  - inversion E. apply (list_eqb_eq _ _ mvariant_eqb_eq). reflexivity.
Qed.

Lemma NoDup_snoc : forall A (l : list A) x, NoDup l -> ~ In x l -> NoDup (l ++ [x]).
Proof.
  induction l as [|a l IH]; simpl; intros x Hnd Hn.
  - constructor; [intros [] | constructor].
  - inversion Hnd as [|? ? Ha Hl]; subst. constructor.
    + intro Hin. apply in_app_or in Hin. destruct Hin as [Hin|[<-|[]]]; [contradiction|]. apply Hn. left. reflexivity.
    + apply IH; auto.
Qed.

Lemma NoDup_app_right : forall A (l1 l2 : list A), NoDup (l1 ++ l2) -> NoDup l2.
Proof. induction l1 as [|a l1 IH]; simpl; intros l2 H; [exact H|]. inversion H; subst. apply IH. assumption. Qed.

Lemma NoDup_map_inj : forall A B (f : A -> B) l a b, NoDup (map f l) -> In a l -> In b l -> f a = f b -> a = b.
Proof.
  induction l as [|x l IH]; simpl; intros a b Hnd Ha Hb E; [contradiction|].
  inversion Hnd as [|? ? Hx Hl]; subst. destruct Ha as [->|Ha]; destruct Hb as [->|Hb]; try reflexivity.
  - exfalso. apply Hx. rewrite E. apply in_map. exact Hb.
  - exfalso. apply Hx. rewrite <- E. apply in_map. exact Ha.
  - apply IH; auto.
Qed.

(* ---------------- one "insert unless present" loop, for both kinds of definition ---------------- *)
Section Pass.
  Variables K D : Type.
  Variable eqb : K -> K -> bool.
  Hypothesis eqb_eq : forall a b, eqb a b = true <-> a = b.
  Variable key : D -> K.
  Variable name : D -> N.

  Fixpoint gpass (ds : list D) (kmap : list (K * N)) (st : state) : list (K * N) * state :=
    match ds with
    | [] => (kmap, st)
    | d :: r =>
        match find_key eqb (key d) kmap with
        | Some id => gpass r kmap (st ++ [(name d, id)])
        | None => gpass r (kmap ++ [(key d, name d)]) (st ++ [(name d, name d)])
        end
    end.

  Lemma find_key_In : forall k l v, find_key eqb k l = Some v -> In (k, v) l.
  Proof.
    induction l as [|[k' v'] l IH]; simpl; intros v H; [discriminate|].
    destruct (eqb k k') eqn:E.
    - apply eqb_eq in E. inversion H; subst. left. reflexivity.
    - right. apply IH. exact H.
  Qed.

  Lemma find_key_None : forall k l, find_key eqb k l = None -> ~ In k (map fst l).
  Proof.
    induction l as [|[k' v'] l IH]; simpl; intros H; [tauto|].
    destruct (eqb k k') eqn:E; [discriminate|]. intros [Heq|Hin].
    - subst. assert (eqb k k = true) by (apply eqb_eq; reflexivity). congruence.
    - exact (IH H Hin).
  Qed.

  Lemma find_key_app : forall k l1 l2 v, find_key eqb k l1 = Some v -> find_key eqb k (l1 ++ l2) = Some v.
  Proof.
    induction l1 as [|[k' v'] l1 IH]; simpl; intros l2 v H; [discriminate|].
    destruct (eqb k k'); [exact H | apply IH; exact H].
  Qed.

  Lemma find_key_app_new : forall k l v, find_key eqb k l = None -> find_key eqb k (l ++ [(k, v)]) = Some v.
  Proof.
    induction l as [|[k' v'] l IH]; simpl; intros v H.
    - assert (E : eqb k k = true) by (apply eqb_eq; reflexivity). rewrite E. reflexivity.
    - destruct (eqb k k'); [discriminate | apply IH; exact H].
  Qed.

  (* what the loop establishes, relative to where it started *)
  Record pass_spec (ds : list D) (kmap : list (K * N)) (st : state) (kmap' : list (K * N)) (st' : state) : Prop := {
    ps_mono : forall k v, find_key eqb k kmap = Some v -> find_key eqb k kmap' = Some v;
    ps_found : forall d, In d ds -> exists r, find_key eqb (key d) kmap' = Some r;
    ps_state : st' = st ++ map (fun d => (name d, match find_key eqb (key d) kmap' with Some r => r | None => 0%N end)) ds;
    ps_entries : forall k n, In (k, n) kmap' -> In (k, n) kmap \/ exists d, In d ds /\ k = key d /\ n = name d /\ In (n, n) st';
    ps_nodup : NoDup (map fst kmap) -> NoDup (map fst kmap') }.

  Lemma gpass_spec : forall ds kmap st kmap' st', gpass ds kmap st = (kmap', st') -> pass_spec ds kmap st kmap' st'.
  Proof.
    induction ds as [|d r IH]; simpl; intros kmap st kmap' st' H.
    - inversion H; subst. constructor.
      + auto.
      + intros d [].
      + rewrite app_nil_r. reflexivity.
      + auto.
      + auto.
    - destruct (find_key eqb (key d) kmap) as [id|] eqn:E.
      + apply IH in H. destruct H as [H1 H2 H3 H4 H5]. constructor.
        * exact H1.
        * intros d0 [<-|Hd]; [exists id; apply H1; exact E | apply H2; exact Hd].
        * rewrite H3. simpl. rewrite (H1 _ _ E). rewrite <- app_assoc. reflexivity.
        * intros k n Hin. destruct (H4 k n Hin) as [?|[d0 [? ?]]]; auto. right. exists d0. simpl. tauto.
        * exact H5.
      + apply IH in H. destruct H as [H1 H2 H3 H4 H5].
        assert (En : find_key eqb (key d) kmap' = Some (name d)) by (apply H1; apply find_key_app_new; exact E).
        constructor.
        * intros k v Hk. apply H1. apply find_key_app. exact Hk.
        * intros d0 [<-|Hd]; [exists (name d); exact En | apply H2; exact Hd].
        * rewrite H3. simpl. rewrite En. rewrite <- app_assoc. reflexivity.
        * intros k n Hin. destruct (H4 k n Hin) as [Ha|[d0 [Hd0 Hr]]].
          -- apply in_app_or in Ha. destruct Ha as [Ha|[Ha|[]]]; auto. injection Ha as Hk Hn. rewrite <- Hk, <- Hn.
             right. exists d. split; [left; reflexivity|]. split; [reflexivity|]. split; [reflexivity|].
             rewrite H3. apply in_or_app. left. apply in_or_app. right. left. reflexivity.
          -- right. exists d0. simpl. tauto.
        * intros Hnd. apply H5. rewrite map_app. simpl. apply find_key_None in E.
          apply NoDup_snoc; assumption.
  Qed.
End Pass.

Lemma closure_pass_gpass : forall cs cmap st,
    closure_pass cs cmap st = gpass mfty mclosuredef mfty_eqb cd_fty cd_name cs cmap st.
Proof.
  induction cs as [|c r IH]; simpl; intros cmap st; [reflexivity|].
  destruct (find_key mfty_eqb (cd_fty c) cmap); apply IH.
Qed.

Lemma typedef_pass_gpass : forall ds tmap st,
    typedef_pass ds tmap st = gpass mmappings mtypedef mmappings_eqb td_map td_name ds tmap st.
Proof.
  induction ds as [|d r IH]; simpl; intros tmap st; [reflexivity|].
  destruct (find_key mmappings_eqb (td_map d) tmap); apply IH.
Qed.

Lemma in_insert_by : forall A (key : A -> N) x y l, In x (insert_by key y l) <-> x = y \/ In x l.
Proof.
  induction l as [|a l IH]; simpl; [intuition|].
  destruct (N.ltb (key y) (key a)); simpl; [intuition | rewrite IH; intuition].
Qed.

Lemma in_sort_by : forall A (key : A -> N) x l, In x (sort_by key l) <-> In x l.
Proof.
  induction l as [|a l IH]; simpl; [tauto|]. rewrite in_insert_by, IH. intuition.
Qed.

(* the state after the two definition loops *)
Definition dstate (P : msources) : state := let '(_, _, st) := dedup_maps P in st.
Definition dcmap (P : msources) : list (mfty * N) := let '(c, _, _) := dedup_maps P in c.
Definition dtmap (P : msources) : list (mmappings * N) := let '(_, t, _) := dedup_maps P in t.

Definition d_wf (P : msources) : Prop := NoDup (map cd_name (ms_closures P) ++ map td_name (ms_typedefs P)).

Section DedupFacts.
  Variable P : msources.
  Hypothesis Hwf : d_wf P.

  Let st := dstate P.
  Let cmap := dcmap P.
  Let tmap := dtmap P.

  Definition crep (d : mclosuredef) : N := match find_key mfty_eqb (cd_fty d) cmap with Some r => r | None => 0%N end.
  Definition trep (d : mtypedef) : N := match find_key mmappings_eqb (td_map d) tmap with Some r => r | None => 0%N end.

  Lemma dedup_maps_spec :
    exists st1,
      pass_spec mfty mclosuredef mfty_eqb cd_fty cd_name (ms_closures P) [] [] cmap st1 /\
      pass_spec mmappings mtypedef mmappings_eqb td_map td_name (ms_typedefs P) [] st1 tmap st.
  Proof.
    unfold st, cmap, tmap, dstate, dcmap, dtmap, dedup_maps.
    destruct (closure_pass (ms_closures P) [] []) as [c st1] eqn:E1.
    destruct (typedef_pass (ms_typedefs P) [] st1) as [t st2] eqn:E2.
    exists st1. split.
    - apply (gpass_spec _ _ _ mfty_eqb_eq). rewrite <- closure_pass_gpass. exact E1.
    - apply (gpass_spec _ _ _ mmappings_eqb_eq). rewrite <- typedef_pass_gpass. exact E2.
  Qed.

  Lemma st_shape : st = map (fun d => (cd_name d, crep d)) (ms_closures P) ++ map (fun d => (td_name d, trep d)) (ms_typedefs P).
  Proof.
    destruct dedup_maps_spec as [st1 [S1 S2]]. rewrite (ps_state _ _ _ _ _ _ _ _ _ _ S2), (ps_state _ _ _ _ _ _ _ _ _ _ S1).
    reflexivity.
  Qed.

  Lemma st_keys : map fst st = map cd_name (ms_closures P) ++ map td_name (ms_typedefs P).
  Proof. rewrite st_shape, map_app, !map_map. reflexivity. Qed.

  Lemma rn_typedef : forall d, In d (ms_typedefs P) -> rn st (td_name d) = trep d /\ In (td_map d, trep d) tmap.
  Proof.
    intros d Hd. split.
    - unfold rn. rewrite (get_last_nodup _ (td_name d) st (trep d)); [reflexivity | rewrite st_keys; exact Hwf |].
      rewrite st_shape. apply in_or_app. right. apply in_map_iff. exists d. auto.
    - destruct dedup_maps_spec as [st1 [S1 S2]]. destruct (ps_found _ _ _ _ _ _ _ _ _ _ S2 d Hd) as [r Hr].
      unfold trep. fold tmap in Hr. rewrite Hr. apply (find_key_In _ _ mmappings_eqb_eq). exact Hr.
  Qed.

  Lemma rn_closure : forall d, In d (ms_closures P) -> rn st (cd_name d) = crep d /\ In (cd_fty d, crep d) cmap.
  Proof.
    intros d Hd. split.
    - unfold rn. rewrite (get_last_nodup _ (cd_name d) st (crep d)); [reflexivity | rewrite st_keys; exact Hwf |].
      rewrite st_shape. apply in_or_app. left. apply in_map_iff. exists d. auto.
    - destruct dedup_maps_spec as [st1 [S1 S2]]. destruct (ps_found _ _ _ _ _ _ _ _ _ _ S1 d Hd) as [r Hr].
      unfold crep. fold cmap in Hr. rewrite Hr. apply (find_key_In _ _ mfty_eqb_eq). exact Hr.
  Qed.

  (* an entry of either mapping is an original definition that is its own representative *)
  Lemma tmap_entry : forall m n, In (m, n) tmap -> exists d, In d (ms_typedefs P) /\ td_map d = m /\ td_name d = n /\ rn st n = n.
  Proof.
    intros m n Hin. destruct dedup_maps_spec as [st1 [S1 S2]].
    destruct (ps_entries _ _ _ _ _ _ _ _ _ _ S2 m n Hin) as [[]|[d [Hd [-> [-> Hs]]]]].
    exists d. repeat split; auto. unfold rn. fold st in Hs.
    rewrite (get_last_nodup _ _ st _ (eq_ind_r (fun l => NoDup l) Hwf st_keys) Hs). reflexivity.
  Qed.

  Lemma cmap_entry : forall m n, In (m, n) cmap -> exists d, In d (ms_closures P) /\ cd_fty d = m /\ cd_name d = n /\ rn st n = n.
  Proof.
    intros m n Hin. destruct dedup_maps_spec as [st1 [S1 S2]].
    destruct (ps_entries _ _ _ _ _ _ _ _ _ _ S1 m n Hin) as [[]|[d [Hd [-> [-> Hs]]]]].
    exists d. repeat split; auto. unfold rn.
    assert (Hs2 : In (cd_name d, cd_name d) st).
    { rewrite (ps_state _ _ _ _ _ _ _ _ _ _ S2). apply in_or_app. left. exact Hs. }
    rewrite (get_last_nodup _ _ st _ (eq_ind_r (fun l => NoDup l) Hwf st_keys) Hs2). reflexivity.
  Qed.

  (* renaming twice is renaming once *)
  Lemma rn_value_fixed : forall n r, get_last n st = Some r -> rn st r = r.
  Proof.
    intros n r E. apply get_last_In in E. rewrite st_shape in E. apply in_app_or in E.
    destruct E as [E|E]; apply in_map_iff in E; destruct E as [d [Heq Hd]]; inversion Heq; subst.
    - destruct (rn_closure d Hd) as [_ Hin]. destruct (cmap_entry _ _ Hin) as [d0 [_ [_ [_ H]]]]. exact H.
    - destruct (rn_typedef d Hd) as [_ Hin]. destruct (tmap_entry _ _ Hin) as [d0 [_ [_ [_ H]]]]. exact H.
  Qed.

  Theorem rn_idempotent : forall n, rn st (rn st n) = rn st n.
  Proof.
    intros n. destruct (get_last n st) as [r|] eqn:E.
    - assert (Hn : rn st n = r) by (unfold rn; rewrite E; reflexivity). rewrite Hn. eapply rn_value_fixed. exact E.
    - assert (Hn : rn st n = n) by (unfold rn; rewrite E; reflexivity). rewrite Hn. exact Hn.
  Qed.

  (* the kept definitions are pairwise different AS WRITTEN *)
  Theorem kept_distinct_as_written : NoDup (map fst cmap) /\ NoDup (map fst tmap).
  Proof.
    destruct dedup_maps_spec as [st1 [S1 S2]]. split.
    - apply (ps_nodup _ _ _ _ _ _ _ _ _ _ S1). constructor.
    - apply (ps_nodup _ _ _ _ _ _ _ _ _ _ S2). constructor.
  Qed.
End DedupFacts.

Lemma m_tys_names_rn : forall s ts, m_tys_names (map (rn_ty s) ts) = map (rn s) (m_tys_names ts).
Proof.
  intros s ts. induction ts as [|t ts IH]; simpl; [reflexivity|]. rewrite map_app, IH.
  destruct t; reflexivity.
Qed.

Lemma m_ty_names_rn : forall s t, m_ty_names (rn_ty s t) = map (rn s) (m_ty_names t).
Proof. intros s []; reflexivity. Qed.

Lemma m_fty_names_rn : forall s ft, m_fty_names (rn_fty s ft) = map (rn s) (m_fty_names ft).
Proof. intros s ft. unfold m_fty_names, rn_fty. simpl. rewrite map_app, m_tys_names_rn, m_ty_names_rn. reflexivity. Qed.

Lemma m_mappings_names_rn : forall s m, m_mappings_names (rn_mappings s m) = map (rn s) (m_mappings_names m).
Proof.
  intros s [ts|vs]; simpl; [apply m_tys_names_rn|].
  induction vs as [|v vs IH]; simpl; [reflexivity|]. rewrite map_app, IH. f_equal.
  destruct v; simpl; [apply m_tys_names_rn | reflexivity | reflexivity].
Qed.

(* ---------------- the output of the pass ---------------- *)
Theorem dedup_output : forall derive P Q, dedup derive P = Some Q ->
    panics P = false /\
    ms_closures Q = sort_by cd_name (map (fun e => mkmcd (snd e) (rn_fty (dstate P) (fst e))) (dcmap P)) /\
    ms_typedefs Q = sort_by td_name (map (fun e => mkmtd (snd e) (rn_mappings (dstate P) (fst e))) (dtmap P)) /\
    ms_funcs Q = map (rn_func (dedup_state derive P)) (ms_funcs P) /\
    ms_globals Q = ms_globals P /\ ms_mains Q = ms_mains P.
Proof.
  intros derive P Q H. unfold dedup in H. destruct (panics P) eqn:Ep; [discriminate|].
  unfold dstate, dcmap, dtmap, dedup_state. destruct (dedup_maps P) as [[c t] s]. inversion H; subst. simpl.
  repeat split; reflexivity.
Qed.

Section DedupThm.
  Variables (derive : tname -> N -> tname) (P Q : msources).
  Hypothesis Hwf : d_wf P.
  Hypothesis HQ : dedup derive P = Some Q.

  (* every original definition has a representative in the output whose definition equals the original's after renaming *)
  Theorem dedup_typedef_rep : forall d, In d (ms_typedefs P) ->
      In (mkmtd (rn (dstate P) (td_name d)) (rn_mappings (dstate P) (td_map d))) (ms_typedefs Q).
  Proof.
    intros d Hd. destruct (dedup_output _ _ _ HQ) as [_ [_ [Ht _]]]. rewrite Ht. apply in_sort_by.
    destruct (rn_typedef P Hwf d Hd) as [Hr Hin]. rewrite Hr.
    apply in_map_iff. exists (td_map d, trep P d). split; [reflexivity | exact Hin].
  Qed.

  Theorem dedup_closure_rep : forall d, In d (ms_closures P) ->
      In (mkmcd (rn (dstate P) (cd_name d)) (rn_fty (dstate P) (cd_fty d))) (ms_closures Q).
  Proof.
    intros d Hd. destruct (dedup_output _ _ _ HQ) as [_ [Hc _]]. rewrite Hc. apply in_sort_by.
    destruct (rn_closure P Hwf d Hd) as [Hr Hin]. rewrite Hr.
    apply in_map_iff. exists (cd_fty d, crep P d). split; [reflexivity | exact Hin].
  Qed.

  (* every kept definition is an original definition that is its own representative, renamed *)
  Theorem dedup_typedef_origin : forall d', In d' (ms_typedefs Q) ->
      exists d, In d (ms_typedefs P) /\ rn (dstate P) (td_name d) = td_name d /\
                d' = mkmtd (td_name d) (rn_mappings (dstate P) (td_map d)).
  Proof.
    intros d' Hd'. destruct (dedup_output _ _ _ HQ) as [_ [_ [Ht _]]]. rewrite Ht in Hd'. apply in_sort_by in Hd'.
    apply in_map_iff in Hd'. destruct Hd' as [[m n] [<- Hin]]. simpl.
    destruct (tmap_entry P Hwf m n Hin) as [d [Hd [<- [<- Hr]]]]. exists d. auto.
  Qed.

  Theorem dedup_closure_origin : forall d', In d' (ms_closures Q) ->
      exists d, In d (ms_closures P) /\ rn (dstate P) (cd_name d) = cd_name d /\
                d' = mkmcd (cd_name d) (rn_fty (dstate P) (cd_fty d)).
  Proof.
    intros d' Hd'. destruct (dedup_output _ _ _ HQ) as [_ [Hc _]]. rewrite Hc in Hd'. apply in_sort_by in Hd'.
    apply in_map_iff in Hd'. destruct Hd' as [[m n] [<- Hin]]. simpl.
    destruct (cmap_entry P Hwf m n Hin) as [d [Hd [<- [<- Hr]]]]. exists d. auto.
  Qed.

  (* a kept definition only mentions representatives (or names the pass does not know) *)
  Theorem dedup_defs_mention_reps :
    (forall d' n, In d' (ms_typedefs Q) -> In n (m_mappings_names (td_map d')) -> rn (dstate P) n = n) /\
    (forall d' n, In d' (ms_closures Q) -> In n (m_fty_names (cd_fty d')) -> rn (dstate P) n = n).
  Proof.
    split; intros d' n Hd' Hn.
    - destruct (dedup_typedef_origin d' Hd') as [d [_ [_ ->]]]. simpl in Hn. rewrite m_mappings_names_rn in Hn.
      apply in_map_iff in Hn. destruct Hn as [n0 [<- _]]. apply (rn_idempotent P Hwf).
    - destruct (dedup_closure_origin d' Hd') as [d [_ [_ ->]]]. simpl in Hn. rewrite m_fty_names_rn in Hn.
      apply in_map_iff in Hn. destruct Hn as [n0 [<- _]]. apply (rn_idempotent P Hwf).
  Qed.

  (* two original definitions get the same representative exactly when they are equal as written *)
  Theorem dedup_merge_iff : forall d1 d2, In d1 (ms_typedefs P) -> In d2 (ms_typedefs P) ->
      (rn (dstate P) (td_name d1) = rn (dstate P) (td_name d2) <-> td_map d1 = td_map d2).
  Proof.
    intros d1 d2 H1 H2. destruct (rn_typedef P Hwf d1 H1) as [R1 I1]. destruct (rn_typedef P Hwf d2 H2) as [R2 I2].
    rewrite R1, R2. split.
    - intros E. rewrite E in I1.
      destruct (tmap_entry P Hwf _ _ I1) as [a [Ha [Ea [Na _]]]]. destruct (tmap_entry P Hwf _ _ I2) as [b [Hb [Eb [Nb _]]]].
      assert (Hab : a = b).
      { apply (NoDup_map_inj _ _ td_name (ms_typedefs P)); auto; [|congruence].
        unfold d_wf in Hwf. eapply NoDup_app_right. exact Hwf. }
      subst. congruence.
    - intros E. unfold trep. rewrite E. reflexivity.
  Qed.
End DedupThm.

(* ---------------- every mention is renamed: the mentions of a rewritten function are the images of its mentions ---------------- *)
Lemma m_expr_tys_rn : forall s e, m_expr_tys (rn_expr s e) = map (rn s) (m_expr_tys e).
Proof. intros s []; simpl; try reflexivity. apply m_ty_names_rn. Qed.

Lemma flat_map_rn : forall A (f : A -> list N) (g : A -> A) s l,
    (forall a, f (g a) = map (rn s) (f a)) -> flat_map f (map g l) = map (rn s) (flat_map f l).
Proof.
  intros A f g s l H. induction l as [|a l IH]; simpl; [reflexivity|]. rewrite map_app, H, IH. reflexivity.
Qed.

Lemma m_quad_tys_rn : forall s q, m_quad_tys (rn_quad s q) = map (rn s) (m_quad_tys q).
Proof.
  intros s q. unfold m_quad_tys, rn_quad. simpl. rewrite !map_app, m_ty_names_rn, !m_expr_tys_rn. reflexivity.
Qed.

Lemma mm_stmt_tys_rn : forall st,
  (forall s, mm_stmt_tys (rn_stmt st s) = map (rn st) (mm_stmt_tys s)) /\
  (forall ss, mm_stmts_tys (map (rn_stmt st) ss) = map (rn st) (mm_stmts_tys ss)).
Proof.
  intros st. apply mstmt_mstmts_ind2.
  - intros x pt e. simpl. rewrite m_expr_tys_rn. reflexivity.
  - intros x e. simpl. apply m_expr_tys_rn.
  - intros x op e1 e2. simpl. rewrite map_app, !m_expr_tys_rn. reflexivity.
  - intros x t e i. simpl. rewrite map_app, m_expr_tys_rn, m_ty_names_rn. reflexivity.
  - intros c args rty ret. simpl. rewrite !map_app, m_ty_names_rn, (flat_map_rn _ _ _ _ _ (m_expr_tys_rn st)).
    f_equal. destruct c as [f ft | y t]; simpl; [apply m_fty_names_rn | apply m_ty_names_rn].
  - intros c s1 s2 fas IH1 IH2.
    change (mm_stmt_tys (rn_stmt st (MIfElse c s1 s2 fas))) with
      (m_expr_tys (rn_expr st c) ++ mm_stmts_tys (map (rn_stmt st) s1) ++ mm_stmts_tys (map (rn_stmt st) s2)
       ++ flat_map m_quad_tys (map (rn_quad st) fas)).
    rewrite mm_stmt_tys_if, !map_app, IH1, IH2, m_expr_tys_rn, (flat_map_rn _ _ _ _ _ (m_quad_tys_rn st)). reflexivity.
  - intros c inv ss IH.
    change (mm_stmt_tys (rn_stmt st (MSingleIf c inv ss))) with (m_expr_tys (rn_expr st c) ++ mm_stmts_tys (map (rn_stmt st) ss)).
    rewrite mm_stmt_tys_sif, map_app, IH, m_expr_tys_rn. reflexivity.
  - intros e. simpl. apply m_expr_tys_rn.
  - intros lvs ss bc IH.
    change (mm_stmt_tys (rn_stmt st (MWhile lvs ss bc))) with
      (flat_map m_quad_tys (map (rn_quad st) lvs) ++ mm_stmts_tys (map (rn_stmt st) ss) ++ m_bc_tys (rn_bc st bc)).
    rewrite mm_stmt_tys_while, !map_app, IH, (flat_map_rn _ _ _ _ _ (m_quad_tys_rn st)). f_equal. f_equal.
    destruct bc as [[x t]|]; simpl; [apply m_ty_names_rn | reflexivity].
  - intros x t e. simpl. rewrite map_app, m_expr_tys_rn, m_ty_names_rn. reflexivity.
  - intros x t. simpl. apply m_ty_names_rn.
  - intros x e. simpl. apply m_expr_tys_rn.
  - intros x tn es. simpl. rewrite (flat_map_rn _ _ _ _ _ (m_expr_tys_rn st)). reflexivity.
  - intros x ctn f ft e. simpl. rewrite map_app, m_fty_names_rn, m_expr_tys_rn. reflexivity.
  - reflexivity.
  - intros s u IHs IHu. simpl. rewrite map_app, IHs, IHu. reflexivity.
Qed.

Theorem mm_func_tys_rn : forall st f, mm_func_tys (rn_func st f) = map (rn st) (mm_func_tys f).
Proof.
  intros st f. unfold mm_func_tys, rn_func, rn_stmts. simpl.
  rewrite !map_app, m_fty_names_rn, (proj2 (mm_stmt_tys_rn st)), m_expr_tys_rn. reflexivity.
Qed.

(* the type mentions of the functions of the output are exactly the renamed mentions of the functions of the input *)
Theorem dedup_funcs_mentions : forall derive P Q, dedup derive P = Some Q ->
    flat_map mm_func_tys (ms_funcs Q) = map (rn (dedup_state derive P)) (flat_map mm_func_tys (ms_funcs P)).
Proof.
  intros derive P Q H. destruct (dedup_output _ _ _ H) as [_ [_ [_ [Hf _]]]]. rewrite Hf.
  apply flat_map_rn. intros a. apply mm_func_tys_rn.
Qed.

(* ---------------- deduplication leaves no dangling reference to a definition ---------------- *)
Lemma get_last_app : forall A (k : N) (l1 l2 : list (N * A)),
    get_last k (l1 ++ l2) = match get_last k l2 with Some v => Some v | None => get_last k l1 end.
Proof.
  induction l1 as [|[k' v'] l1 IH]; simpl; intros l2.
  - destruct (get_last k l2); reflexivity.
  - rewrite IH. destruct (get_last k l2); [reflexivity|]. reflexivity.
Qed.

Lemma subtype_remap_keys : forall derive st subs k v,
    In (k, v) (subtype_remap derive st subs) -> In k (map fst subs).
Proof.
  intros derive st subs k v H. unfold subtype_remap in H. apply in_flat_map in H.
  destruct H as [[sub [par tag]] [Hin Hk]]. destruct (get_last par st) as [c|]; [|contradiction].
  destruct (N.eqb c par); [contradiction|]. destruct Hk as [Hk|[]]. inversion Hk; subst.
  apply in_map_iff. exists (k, (par, tag)). auto.
Qed.

Section DedupClosed.
  Variables (derive : tname -> N -> tname) (P Q : msources).
  Hypothesis Hwf : d_wf P.
  Hypothesis HQ : dedup derive P = Some Q.

  Lemma defined_rep : forall n0, In n0 (m_ty_names_def P) -> In (rn (dstate P) n0) (m_ty_names_def Q).
  Proof.
    intros n0 H. unfold m_ty_names_def in *. apply in_app_or in H. apply in_or_app.
    destruct H as [H|H]; apply in_map_iff in H; destruct H as [d [<- Hd]]; [left|right].
    - apply in_map_iff. eexists. split; [|exact (dedup_typedef_rep derive P Q Hwf HQ d Hd)]. reflexivity.
    - apply in_map_iff. eexists. split; [|exact (dedup_closure_rep derive P Q Hwf HQ d Hd)]. reflexivity.
  Qed.

  (* what a kept definition mentions is the representative of what the original mentioned; defined stays defined *)
  Theorem dedup_defs_closed :
    (forall d' n, In d' (ms_typedefs Q) -> In n (m_mappings_names (td_map d')) ->
       exists d n0, In d (ms_typedefs P) /\ In n0 (m_mappings_names (td_map d)) /\ n = rn (dstate P) n0 /\
                    (In n0 (m_ty_names_def P) -> In n (m_ty_names_def Q))) /\
    (forall d' n, In d' (ms_closures Q) -> In n (m_fty_names (cd_fty d')) ->
       exists d n0, In d (ms_closures P) /\ In n0 (m_fty_names (cd_fty d)) /\ n = rn (dstate P) n0 /\
                    (In n0 (m_ty_names_def P) -> In n (m_ty_names_def Q))).
  Proof.
    split; intros d' n Hd' Hn.
    - destruct (dedup_typedef_origin derive P Q Hwf HQ d' Hd') as [d [Hd [_ ->]]]. simpl in Hn.
      rewrite m_mappings_names_rn in Hn. apply in_map_iff in Hn. destruct Hn as [n0 [<- Hn0]].
      exists d, n0. repeat split; auto. apply defined_rep.
    - destruct (dedup_closure_origin derive P Q Hwf HQ d' Hd') as [d [Hd [_ ->]]]. simpl in Hn.
      rewrite m_fty_names_rn in Hn. apply in_map_iff in Hn. destruct Hn as [n0 [<- Hn0]].
      exists d, n0. repeat split; auto. apply defined_rep.
  Qed.

  (* functions: a mention of a DEFINED name is rewritten to the representative, which is defined, provided no
     definition carries a sub-type name (sub-type names have no definition of their own in MIR) *)
  Hypothesis Hsubs : forall s, In s (map fst (ms_subs P)) -> ~ In s (m_ty_names_def P).

  Lemma rn_state_defined : forall n0, In n0 (m_ty_names_def P) -> rn (dedup_state derive P) n0 = rn (dstate P) n0.
  Proof.
    intros n0 H. unfold dedup_state, dstate. destruct (dedup_maps P) as [[c t] st2]. unfold rn. rewrite get_last_app.
    destruct (get_last n0 (subtype_remap derive st2 (ms_subs P))) as [v|] eqn:E; [|reflexivity].
    apply get_last_In in E. apply subtype_remap_keys in E. exfalso. exact (Hsubs n0 E H).
  Qed.

  Theorem dedup_funcs_closed : forall n, In n (flat_map mm_func_tys (ms_funcs Q)) ->
      exists n0, In n0 (flat_map mm_func_tys (ms_funcs P)) /\ n = rn (dedup_state derive P) n0 /\
                 (In n0 (m_ty_names_def P) -> In n (m_ty_names_def Q)).
  Proof.
    intros n Hn. rewrite (dedup_funcs_mentions derive P Q HQ) in Hn. apply in_map_iff in Hn.
    destruct Hn as [n0 [<- Hn0]]. exists n0. repeat split; auto. intros Hd.
    rewrite (rn_state_defined n0 Hd). apply defined_rep. exact Hd.
  Qed.
End DedupClosed.
