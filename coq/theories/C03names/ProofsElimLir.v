(* C03names - the LIR unused-name elimination: the collectors see every mention, the kept sets are exactly the
   reachable sets, no reference is left dangling, the validator decides the declarative statement. *)
From Coq Require Import ZArith NArith List Bool Lia.
Import ListNotations.
From SV Require Import Common.Int32 C03names.Syntax C03names.Elim C03names.Spec C03names.ProofsReach C03names.ProofsBase.
Open Scope nat_scope.

Lemma flat_map_incl : forall A B (f g : A -> list B) l n,
    (forall a, In a l -> In n (f a) -> In n (g a)) -> In n (flat_map f l) -> In n (flat_map g l).
Proof.
  intros A B f g l n H Hin. apply in_flat_map in Hin. destruct Hin as [a [Ha Hn]].
  apply in_flat_map. exists a. split; auto.
Qed.

(* ---------------- the collectors of the pinned pass see every mention ---------------- *)
Lemma lm_expr_tys_sub : forall e n, In n (lm_expr_tys e) -> In n (l_expr_tys e).
Proof. intros [] n H; simpl in *; auto. Qed.

Lemma lm_quad_tys_sub : forall q n, In n (lm_quad_tys q) -> In n (l_quad_tys q).
Proof.
  intros q n. unfold lm_quad_tys, l_quad_tys. inapp.
  intros [H|[H|H]]; auto using lm_expr_tys_sub.
Qed.

Lemma lm_stmt_tys_sub :
  (forall s n, In n (lm_stmt_tys s) -> In n (l_stmt_tys VNow s)) /\
  (forall ss n, In n (lm_stmts_tys ss) -> In n (l_stmts_tys VNow ss)).
Proof.
  apply lstmt_lstmts_ind2.
  - intros x pt e n H. simpl in *. destruct H as [H|H]; auto. right. apply lm_expr_tys_sub. exact H.
  - intros x e n H. simpl in *. apply lm_expr_tys_sub. exact H.
  - intros x op e1 e2 n H. simpl in *. inapp. destruct H; auto using lm_expr_tys_sub.
  - intros x t e i n H. simpl in *. inapp. destruct H; auto using lm_expr_tys_sub.
  - intros c args rty ret n H. simpl in *. inapp. destruct H as [H|[H|H]]; auto using lm_expr_tys_sub.
    right. left. eapply flat_map_incl; [|exact H]. intros a _. apply lm_expr_tys_sub.
  - intros c s1 s2 fas IH1 IH2 n H. rewrite lm_stmt_tys_if in H. rewrite l_stmt_tys_if. inapp.
    destruct H as [H|[H|[H|H]]]; auto using lm_expr_tys_sub.
    right. right. right. eapply flat_map_incl; [|exact H]. intros a _. apply lm_quad_tys_sub.
  - intros c inv ss IH n H. rewrite lm_stmt_tys_sif in H. rewrite l_stmt_tys_sif. inapp.
    destruct H; auto using lm_expr_tys_sub.
  - intros e n H. simpl in *. apply lm_expr_tys_sub. exact H.
  - intros lvs ss bc IH n H. rewrite lm_stmt_tys_while in H. rewrite l_stmt_tys_while. inapp.
    destruct H as [H|[H|H]]; auto.
    left. eapply flat_map_incl; [|exact H]. intros a _. apply lm_quad_tys_sub.
  - intros x t e n H. simpl in *. inapp. destruct H; auto using lm_expr_tys_sub.
  - intros x t n H. exact H.
  - intros x e n H. simpl in *. apply lm_expr_tys_sub. exact H.
  - intros x t es n H. simpl in *. inapp. destruct H as [H|H]; auto.
    right. eapply flat_map_incl; [|exact H]. intros a _. apply lm_expr_tys_sub.
  - intros n [].
  - intros s r IHs IHr n H. simpl in *. inapp. destruct H; auto.
Qed.

Lemma lm_expr_fns_sub : forall e f, In f (lm_expr_fns e) -> In (fn_id f) (l_expr_fns e).
Proof. intros e g H. destruct e; simpl in *; try contradiction. destruct H as [<-|[]]. left. reflexivity. Qed.

Lemma lm_quad_fns_sub : forall q f, In f (lm_quad_fns q) -> In (fn_id f) (l_quad_fns q).
Proof. intros q f. unfold lm_quad_fns, l_quad_fns. inapp. intros [H|H]; auto using lm_expr_fns_sub. Qed.

Lemma flat_map_incl_fn : forall A (f : A -> list fname) (g : A -> list N) l x,
    (forall a, In a l -> In x (f a) -> In (fn_id x) (g a)) -> In x (flat_map f l) -> In (fn_id x) (flat_map g l).
Proof.
  intros A f g l x H Hin. apply in_flat_map in Hin. destruct Hin as [a [Ha Hn]].
  apply in_flat_map. exists a. split; auto.
Qed.

Lemma lm_stmt_fns_sub :
  (forall s f, In f (lm_stmt_fnvals s ++ lm_stmt_callees s) -> In (fn_id f) (l_stmt_fns s)) /\
  (forall ss f, In f (lm_stmts_fnvals ss ++ lm_stmts_callees ss) -> In (fn_id f) (l_stmts_fns ss)).
Proof.
  apply lstmt_lstmts_ind2.
  - intros x pt e f H. simpl in *. rewrite app_nil_r in H. apply lm_expr_fns_sub. exact H.
  - intros x e f H. simpl in *. rewrite app_nil_r in H. apply lm_expr_fns_sub. exact H.
  - intros x op e1 e2 f H. simpl in *. rewrite app_nil_r in H. inapp. destruct H; auto using lm_expr_fns_sub.
  - intros x t e i f H. simpl in *. rewrite app_nil_r in H. apply lm_expr_fns_sub. exact H.
  - intros c args rty ret f H. simpl in *. inapp. destruct H as [H|H]; auto using lm_expr_fns_sub.
    right. eapply flat_map_incl_fn; [|exact H]. intros a _. apply lm_expr_fns_sub.
  - intros c s1 s2 fas IH1 IH2 f H.
    rewrite lm_stmt_fnvals_if, lm_stmt_callees_if in H. rewrite l_stmt_fns_if. inapp.
    destruct H as [[H|[H|[H|H]]]|[H|H]]; auto using lm_expr_fns_sub.
    + right. left. apply IH1. inapp. auto.
    + right. right. left. apply IH2. inapp. auto.
    + right. right. right. eapply flat_map_incl_fn; [|exact H]. intros a _. apply lm_quad_fns_sub.
    + right. left. apply IH1. inapp. auto.
    + right. right. left. apply IH2. inapp. auto.
  - intros c inv ss IH f H. rewrite lm_stmt_fnvals_sif, lm_stmt_callees_sif in H. rewrite l_stmt_fns_sif. inapp.
    destruct H as [[H|H]|H]; auto using lm_expr_fns_sub; right; apply IH; inapp; auto.
  - intros e f H. simpl in *. rewrite app_nil_r in H. apply lm_expr_fns_sub. exact H.
  - intros lvs ss bc IH f H. rewrite lm_stmt_fnvals_while, lm_stmt_callees_while in H. rewrite l_stmt_fns_while. inapp.
    destruct H as [[H|H]|H].
    + left. eapply flat_map_incl_fn; [|exact H]. intros a _. apply lm_quad_fns_sub.
    + right. apply IH. inapp. auto.
    + right. apply IH. inapp. auto.
  - intros x t e f H. simpl in *. rewrite app_nil_r in H. apply lm_expr_fns_sub. exact H.
  - intros x t f H. simpl in H. contradiction.
  - intros x e f H. simpl in *. rewrite app_nil_r in H. apply lm_expr_fns_sub. exact H.
  - intros x t es f H. simpl in *. rewrite app_nil_r in H.
    eapply flat_map_incl_fn; [|exact H]. intros a _. apply lm_expr_fns_sub.
  - intros f H. simpl in H. contradiction.
  - intros s r IHs IHr f H. simpl in *. inapp. destruct H as [[H|H]|[H|H]].
    + left. apply IHs. inapp. auto.
    + right. apply IHr. inapp. auto.
    + left. apply IHs. inapp. auto.
    + right. apply IHr. inapp. auto.
Qed.

(* ---------------- conversely: whatever is collected is a mention, or the class of a mentioned function name ---------------- *)
Lemma l_expr_tys_sup : forall e n,
    In n (l_expr_tys e) -> In n (lm_expr_tys e) \/ In n (map fn_cls (lm_expr_fns e)).
Proof.
  intros [] n H; simpl in *; auto. destruct H as [H|H]; auto.
Qed.

Lemma l_quad_tys_sup : forall q n,
    In n (l_quad_tys q) -> In n (lm_quad_tys q) \/ In n (map fn_cls (lm_quad_fns q)).
Proof.
  intros q n. unfold l_quad_tys, lm_quad_tys, lm_quad_fns. rewrite map_app. inapp.
  intros [H|[H|H]]; auto; apply l_expr_tys_sup in H; tauto.
Qed.

Lemma flat_map_sup : forall A (f g : A -> list N) (h : A -> list fname) l n,
    (forall a, In n (f a) -> In n (g a) \/ In n (map fn_cls (h a))) ->
    In n (flat_map f l) -> In n (flat_map g l) \/ In n (map fn_cls (flat_map h l)).
Proof.
  intros A f g h l n H Hin. apply in_flat_map in Hin. destruct Hin as [a [Ha Hn]].
  destruct (H a Hn) as [H1|H1].
  - left. apply in_flat_map. exists a. auto.
  - right. apply in_map_iff in H1. destruct H1 as [x [Hx1 Hx2]]. apply in_map_iff. exists x. split; auto.
    apply in_flat_map. exists a. auto.
Qed.

Definition lm_stmt_cls (s : lstmt) : list tname := map fn_cls (lm_stmt_fnvals s ++ lm_stmt_callees s).
Definition lm_stmts_cls (ss : list lstmt) : list tname := map fn_cls (lm_stmts_fnvals ss ++ lm_stmts_callees ss).

Lemma in_cls_l : forall n (a b : list fname), In n (map fn_cls a) -> In n (map fn_cls (a ++ b)).
Proof. intros. rewrite map_app. apply in_or_app. auto. Qed.
Lemma in_cls_r : forall n (a b : list fname), In n (map fn_cls b) -> In n (map fn_cls (a ++ b)).
Proof. intros. rewrite map_app. apply in_or_app. auto. Qed.

Lemma l_stmt_tys_sup :
  (forall s n, In n (l_stmt_tys VNow s) -> In n (lm_stmt_tys s) \/ In n (lm_stmt_cls s)) /\
  (forall ss n, In n (l_stmts_tys VNow ss) -> In n (lm_stmts_tys ss) \/ In n (lm_stmts_cls ss)).
Proof.
  unfold lm_stmt_cls, lm_stmts_cls. apply lstmt_lstmts_ind2.
  - intros x pt e n H. simpl in *. rewrite app_nil_r. destruct H as [H|H]; auto.
    apply l_expr_tys_sup in H. tauto.
  - intros x e n H. simpl in *. rewrite app_nil_r. apply l_expr_tys_sup. exact H.
  - intros x op e1 e2 n H. simpl in *. rewrite app_nil_r, map_app. inapp.
    destruct H as [H|H]; apply l_expr_tys_sup in H; tauto.
  - intros x t e i n H. simpl in *. rewrite app_nil_r. inapp. destruct H as [H|H]; auto.
    apply l_expr_tys_sup in H. tauto.
  - intros c args rty ret n H. simpl in *. rewrite map_app. inapp. destruct H as [H|[H|H]]; auto.
    + apply l_expr_tys_sup in H. tauto.
    + apply (flat_map_sup _ _ lm_expr_tys lm_expr_fns) in H; [tauto|]. intros a. apply l_expr_tys_sup.
  - intros c s1 s2 fas IH1 IH2 n H.
    rewrite l_stmt_tys_if in H. rewrite lm_stmt_tys_if, lm_stmt_fnvals_if, lm_stmt_callees_if.
    repeat rewrite map_app. repeat rewrite map_app in IH1, IH2. inapp.
    destruct H as [H|[H|[H|H]]].
    + apply l_expr_tys_sup in H. tauto.
    + apply IH1 in H. inapp. tauto.
    + apply IH2 in H. inapp. tauto.
    + apply (flat_map_sup _ _ lm_quad_tys lm_quad_fns) in H; [tauto|]. intros a. apply l_quad_tys_sup.
  - intros c inv ss IH n H.
    rewrite l_stmt_tys_sif in H. rewrite lm_stmt_tys_sif, lm_stmt_fnvals_sif, lm_stmt_callees_sif.
    repeat rewrite map_app. repeat rewrite map_app in IH. inapp. destruct H as [H|H].
    + apply l_expr_tys_sup in H. tauto.
    + apply IH in H. inapp. tauto.
  - intros e n H. simpl in *. rewrite app_nil_r. apply l_expr_tys_sup. exact H.
  - intros lvs ss bc IH n H.
    rewrite l_stmt_tys_while in H. rewrite lm_stmt_tys_while, lm_stmt_fnvals_while, lm_stmt_callees_while.
    repeat rewrite map_app. repeat rewrite map_app in IH. inapp. destruct H as [H|[H|H]]; auto.
    + apply (flat_map_sup _ _ lm_quad_tys lm_quad_fns) in H; [tauto|]. intros a. apply l_quad_tys_sup.
    + apply IH in H. inapp. tauto.
  - intros x t e n H. simpl in *. rewrite app_nil_r. inapp. destruct H as [H|H]; auto.
    apply l_expr_tys_sup in H. tauto.
  - intros x t n H. simpl in *. auto.
  - intros x e n H. simpl in *. rewrite app_nil_r. apply l_expr_tys_sup. exact H.
  - intros x t es n H. simpl in *. rewrite app_nil_r. inapp. destruct H as [H|H]; auto.
    apply (flat_map_sup _ _ lm_expr_tys lm_expr_fns) in H; [tauto|]. intros a. apply l_expr_tys_sup.
  - intros n [].
  - intros s r IHs IHr n H. simpl in *. repeat rewrite map_app. repeat rewrite map_app in IHs, IHr. inapp.
    destruct H as [H|H]; [apply IHs in H | apply IHr in H]; inapp; tauto.
Qed.

Lemma l_expr_fns_sup : forall e x, In x (l_expr_fns e) -> In x (map fn_id (lm_expr_fns e)).
Proof. intros e y H. destruct e; simpl in *; auto. Qed.

Lemma l_quad_fns_sup : forall q x, In x (l_quad_fns q) -> In x (map fn_id (lm_quad_fns q)).
Proof.
  intros q x. unfold l_quad_fns, lm_quad_fns. rewrite map_app. inapp.
  intros [H|H]; auto using l_expr_fns_sup.
Qed.

Lemma flat_map_sup_fn : forall A (f : A -> list N) (h : A -> list fname) l x,
    (forall a, In x (f a) -> In x (map fn_id (h a))) -> In x (flat_map f l) -> In x (map fn_id (flat_map h l)).
Proof.
  intros A f h l x H Hin. apply in_flat_map in Hin. destruct Hin as [a [Ha Hn]].
  apply H in Hn. apply in_map_iff in Hn. destruct Hn as [g [Hg1 Hg2]].
  apply in_map_iff. exists g. split; auto. apply in_flat_map. exists a. auto.
Qed.

Lemma l_stmt_fns_sup :
  (forall s x, In x (l_stmt_fns s) -> In x (map fn_id (lm_stmt_fnvals s ++ lm_stmt_callees s))) /\
  (forall ss x, In x (l_stmts_fns ss) -> In x (map fn_id (lm_stmts_fnvals ss ++ lm_stmts_callees ss))).
Proof.
  apply lstmt_lstmts_ind2.
  - intros x pt e y H. simpl in *. rewrite app_nil_r. apply l_expr_fns_sup. exact H.
  - intros x e y H. simpl in *. rewrite app_nil_r. apply l_expr_fns_sup. exact H.
  - intros x op e1 e2 y H. simpl in *. rewrite app_nil_r, map_app. inapp. destruct H; auto using l_expr_fns_sup.
  - intros x t e i y H. simpl in *. rewrite app_nil_r. apply l_expr_fns_sup. exact H.
  - intros c args rty ret y H. simpl in *. rewrite map_app. inapp. destruct H as [H|H]; auto using l_expr_fns_sup.
    left. eapply flat_map_sup_fn; [|exact H]. intros a. apply l_expr_fns_sup.
  - intros c s1 s2 fas IH1 IH2 y H.
    rewrite l_stmt_fns_if in H. rewrite lm_stmt_fnvals_if, lm_stmt_callees_if.
    repeat rewrite map_app. repeat rewrite map_app in IH1, IH2. inapp.
    destruct H as [H|[H|[H|H]]].
    + apply l_expr_fns_sup in H. tauto.
    + apply IH1 in H. inapp. tauto.
    + apply IH2 in H. inapp. tauto.
    + left. right. right. right. eapply flat_map_sup_fn; [|exact H]. intros a. apply l_quad_fns_sup.
  - intros c inv ss IH y H. rewrite l_stmt_fns_sif in H. rewrite lm_stmt_fnvals_sif, lm_stmt_callees_sif.
    repeat rewrite map_app. repeat rewrite map_app in IH. inapp. destruct H as [H|H].
    + apply l_expr_fns_sup in H. tauto.
    + apply IH in H. inapp. tauto.
  - intros e y H. simpl in *. rewrite app_nil_r. apply l_expr_fns_sup. exact H.
  - intros lvs ss bc IH y H. rewrite l_stmt_fns_while in H. rewrite lm_stmt_fnvals_while, lm_stmt_callees_while.
    repeat rewrite map_app. repeat rewrite map_app in IH. inapp. destruct H as [H|H].
    + left. left. eapply flat_map_sup_fn; [|exact H]. intros a. apply l_quad_fns_sup.
    + apply IH in H. inapp. tauto.
  - intros x t e y H. simpl in *. rewrite app_nil_r. apply l_expr_fns_sup. exact H.
  - intros x t y H. simpl in H. contradiction.
  - intros x e y H. simpl in *. rewrite app_nil_r. apply l_expr_fns_sup. exact H.
  - intros x t es y H. simpl in *. rewrite app_nil_r.
    eapply flat_map_sup_fn; [|exact H]. intros a. apply l_expr_fns_sup.
  - intros y [].
  - intros s r IHs IHr y H. simpl in *. repeat rewrite map_app. repeat rewrite map_app in IHs, IHr. inapp.
    destruct H as [H|H]; [apply IHs in H | apply IHr in H]; inapp; tauto.
Qed.

(* the class of every mentioned function name is collected as a type *)
Lemma lm_expr_cls_sub : forall e g, In g (lm_expr_fns e) -> In (fn_cls g) (l_expr_tys e).
Proof. intros e g H. destruct e; simpl in *; try contradiction. destruct H as [<-|[]]. left. reflexivity. Qed.

Lemma lm_quad_cls_sub : forall q g, In g (lm_quad_fns q) -> In (fn_cls g) (l_quad_tys q).
Proof. intros q g. unfold lm_quad_fns, l_quad_tys. inapp. intros [H|H]; auto using lm_expr_cls_sub. Qed.

Lemma flat_map_incl_cls : forall A (f : A -> list fname) (g : A -> list N) l x,
    (forall a, In a l -> In x (f a) -> In (fn_cls x) (g a)) -> In x (flat_map f l) -> In (fn_cls x) (flat_map g l).
Proof.
  intros A f g l x H Hin. apply in_flat_map in Hin. destruct Hin as [a [Ha Hn]].
  apply in_flat_map. exists a. split; auto.
Qed.

Lemma lm_stmt_cls_sub :
  (forall s g, In g (lm_stmt_fnvals s ++ lm_stmt_callees s) -> In (fn_cls g) (l_stmt_tys VNow s)) /\
  (forall ss g, In g (lm_stmts_fnvals ss ++ lm_stmts_callees ss) -> In (fn_cls g) (l_stmts_tys VNow ss)).
Proof.
  apply lstmt_lstmts_ind2.
  - intros x pt e g H. simpl in *. rewrite app_nil_r in H. right. apply lm_expr_cls_sub. exact H.
  - intros x e g H. simpl in *. rewrite app_nil_r in H. apply lm_expr_cls_sub. exact H.
  - intros x op e1 e2 g H. simpl in *. rewrite app_nil_r in H. inapp. destruct H; auto using lm_expr_cls_sub.
  - intros x t e i g H. simpl in *. rewrite app_nil_r in H. inapp. left. apply lm_expr_cls_sub. exact H.
  - intros c args rty ret g H. simpl in *. inapp. destruct H as [H|H]; auto using lm_expr_cls_sub.
    right. left. eapply flat_map_incl_cls; [|exact H]. intros a _. apply lm_expr_cls_sub.
  - intros c s1 s2 fas IH1 IH2 g H.
    rewrite lm_stmt_fnvals_if, lm_stmt_callees_if in H. rewrite l_stmt_tys_if. inapp.
    destruct H as [[H|[H|[H|H]]]|[H|H]]; auto using lm_expr_cls_sub.
    + right. left. apply IH1. inapp. auto.
    + right. right. left. apply IH2. inapp. auto.
    + right. right. right. eapply flat_map_incl_cls; [|exact H]. intros a _. apply lm_quad_cls_sub.
    + right. left. apply IH1. inapp. auto.
    + right. right. left. apply IH2. inapp. auto.
  - intros c inv ss IH g H. rewrite lm_stmt_fnvals_sif, lm_stmt_callees_sif in H. rewrite l_stmt_tys_sif. inapp.
    destruct H as [[H|H]|H]; auto using lm_expr_cls_sub; right; apply IH; inapp; auto.
  - intros e g H. simpl in *. rewrite app_nil_r in H. apply lm_expr_cls_sub. exact H.
  - intros lvs ss bc IH g H. rewrite lm_stmt_fnvals_while, lm_stmt_callees_while in H. rewrite l_stmt_tys_while. inapp.
    destruct H as [[H|H]|H].
    + left. eapply flat_map_incl_cls; [|exact H]. intros a _. apply lm_quad_cls_sub.
    + right. left. apply IH. inapp. auto.
    + right. left. apply IH. inapp. auto.
  - intros x t e g H. simpl in *. rewrite app_nil_r in H. inapp. right. apply lm_expr_cls_sub. exact H.
  - intros x t g H. simpl in H. contradiction.
  - intros x e g H. simpl in *. rewrite app_nil_r in H. apply lm_expr_cls_sub. exact H.
  - intros x t es g H. simpl in *. rewrite app_nil_r in H. inapp. right.
    eapply flat_map_incl_cls; [|exact H]. intros a _. apply lm_expr_cls_sub.
  - intros g H. simpl in H. contradiction.
  - intros s r IHs IHr g H. simpl in *. inapp. destruct H as [[H|H]|[H|H]].
    + left. apply IHs. inapp. auto.
    + right. apply IHr. inapp. auto.
    + left. apply IHs. inapp. auto.
    + right. apply IHr. inapp. auto.
Qed.

(* ---------------- what is live in a LIR program (declarative) ---------------- *)
Definition lm_func_fns (f : lfunc) : list fname := lm_func_fnvals f ++ lm_func_callees f.

Inductive l_fn_live (P : lsources) : N -> Prop :=
| lfl_main : forall f, In f (ls_mains P) -> l_fn_live P (fn_id f)
| lfl_ref : forall f g, In f (ls_funcs P) -> l_fn_live P (fn_id (lfn_name f)) -> In g (lm_func_fns f) ->
                        l_fn_live P (fn_id g).

Inductive l_ty_live (P : lsources) : tname -> Prop :=
| ltl_fn : forall f n, In f (ls_funcs P) -> l_fn_live P (fn_id (lfn_name f)) -> In n (lm_func_tys f) -> l_ty_live P n
| ltl_cls : forall f g, In f (ls_funcs P) -> l_fn_live P (fn_id (lfn_name f)) -> In g (lm_func_fns f) ->
                        l_ty_live P (fn_cls g)
| ltl_def : forall d n, In d (ls_typedefs P) -> l_ty_live P (ltd_name d) -> In n (lm_typedef_tys d) -> l_ty_live P n.

Definition l_str_live (P : lsources) (s : sname) : Prop :=
  exists f, In f (ls_funcs P) /\ l_fn_live P (fn_id (lfn_name f)) /\ In s (lm_func_strs f).

Definition l_wf (P : lsources) : Prop := NoDup (l_fn_names_def P) /\ NoDup (l_ty_names_def P).

Section LirElim.
  Variable P : lsources.
  Hypothesis Hwf : l_wf P.

  Let M := l_used_map VNow (ls_funcs P).
  Let T := l_typedef_map (ls_typedefs P).
  Let roots := map fn_id (ls_mains P).

  Lemma l_map_fst : map fst M = l_fn_names_def P.
  Proof. unfold M, l_used_map, l_fn_names_def. rewrite map_map. reflexivity. Qed.

  Lemma l_get_def : forall f, In f (ls_funcs P) -> get_last (fn_id (lfn_name f)) M = Some (l_fn_used VNow f).
  Proof.
    intros f Hf. apply get_last_nodup.
    - rewrite l_map_fst. apply Hwf.
    - unfold M, l_used_map. apply in_map_iff. exists f. auto.
  Qed.

  Lemma l_get_inv : forall x u, get_last x M = Some u -> exists f, In f (ls_funcs P) /\ fn_id (lfn_name f) = x /\ u = l_fn_used VNow f.
  Proof.
    intros x u H. apply get_last_In in H. unfold M, l_used_map in H. apply in_map_iff in H.
    destruct H as [f [Hf1 Hf2]]. inversion Hf1; subst. exists f. auto.
  Qed.

  Lemma lT_fst : map fst T = l_ty_names_def P.
  Proof. unfold T, l_typedef_map, l_ty_names_def. rewrite map_map. reflexivity. Qed.

  Lemma lT_get_def : forall d, In d (ls_typedefs P) -> get_last (ltd_name d) T = Some (lm_typedef_tys d).
  Proof.
    intros d Hd. apply get_last_nodup.
    - rewrite lT_fst. apply Hwf.
    - unfold T, l_typedef_map. apply in_map_iff. exists d. auto.
  Qed.

  Lemma lT_get_inv : forall x l, get_last x T = Some l -> exists d, In d (ls_typedefs P) /\ ltd_name d = x /\ l = lm_typedef_tys d.
  Proof.
    intros x l H. apply get_last_In in H. unfold T, l_typedef_map in H. apply in_map_iff in H.
    destruct H as [d [Hd1 Hd2]]. inversion Hd1; subst. exists d. auto.
  Qed.

  (* mentions of a function, in terms of the collectors *)
  Lemma l_func_fns_sub : forall f g, In g (lm_func_fns f) ->
      In (fn_id g) (l_stmts_fns (lfn_body f) ++ l_expr_fns (lfn_ret f)).
  Proof.
    intros f g H. unfold lm_func_fns, lm_func_fnvals, lm_func_callees in H. inapp.
    destruct H as [[H|H]|H].
    - left. apply (proj2 lm_stmt_fns_sub). inapp. auto.
    - right. apply lm_expr_fns_sub. exact H.
    - left. apply (proj2 lm_stmt_fns_sub). inapp. auto.
  Qed.

  Lemma l_func_fns_sup : forall f x, In x (l_stmts_fns (lfn_body f) ++ l_expr_fns (lfn_ret f)) ->
      exists g, In g (lm_func_fns f) /\ fn_id g = x.
  Proof.
    intros f x H. inapp. unfold lm_func_fns, lm_func_fnvals, lm_func_callees. destruct H as [H|H].
    - apply (proj2 l_stmt_fns_sup) in H. apply in_map_iff in H. destruct H as [g [Hg1 Hg2]].
      exists g. split; auto. inapp. tauto.
    - apply l_expr_fns_sup in H. apply in_map_iff in H. destruct H as [g [Hg1 Hg2]].
      exists g. split; auto. inapp. tauto.
  Qed.

  Lemma l_func_tys_sub : forall f n, In n (lm_func_tys f) -> In n (u_tys (l_fn_used VNow f)).
  Proof.
    intros f n H. unfold lm_func_tys in H. simpl. inapp. destruct H as [H|[H|[H|H]]]; auto.
    - left. apply (proj2 lm_stmt_tys_sub). exact H.
    - right. right. right. apply lm_expr_tys_sub. exact H.
  Qed.

  Lemma l_func_cls_sub : forall f g, In g (lm_func_fns f) -> In (fn_cls g) (u_tys (l_fn_used VNow f)).
  Proof.
    intros f g H. unfold lm_func_fns, lm_func_fnvals, lm_func_callees in H. simpl. inapp.
    destruct H as [[H|H]|H].
    - left. apply (proj2 lm_stmt_cls_sub). inapp. auto.
    - right. right. right. apply lm_expr_cls_sub. exact H.
    - left. apply (proj2 lm_stmt_cls_sub). inapp. auto.
  Qed.

  Lemma l_func_tys_sup : forall f n, In n (u_tys (l_fn_used VNow f)) ->
      In n (lm_func_tys f) \/ exists g, In g (lm_func_fns f) /\ fn_cls g = n.
  Proof.
    intros f n H. simpl in H. unfold lm_func_tys, lm_func_fns, lm_func_fnvals, lm_func_callees. inapp.
    destruct H as [H|[H|[H|H]]]; auto.
    - apply (proj2 l_stmt_tys_sup) in H. destruct H as [H|H]; auto.
      right. unfold lm_stmts_cls in H. apply in_map_iff in H. destruct H as [g [Hg1 Hg2]].
      exists g. split; auto. inapp. tauto.
    - apply l_expr_tys_sup in H. destruct H as [H|H]; auto.
      right. apply in_map_iff in H. destruct H as [g [Hg1 Hg2]]. exists g. split; auto. inapp. tauto.
  Qed.

  (* ---- functions ---- *)
  Lemma l_reach_live : forall x, reach (succ_fns M) roots x -> l_fn_live P x.
  Proof.
    intros x H. induction H as [x Hx | x y Hx IH Hy].
    - unfold roots in Hx. apply in_map_iff in Hx. destruct Hx as [f [<- Hf]]. apply lfl_main. exact Hf.
    - unfold succ_fns in Hy. destruct (get_last x M) as [u|] eqn:E; [|contradiction].
      apply l_get_inv in E. destruct E as [f [Hf [<- ->]]]. simpl in Hy.
      apply in_remove_N in Hy. destruct Hy as [Hy _]. apply l_func_fns_sup in Hy.
      destruct Hy as [g [Hg <-]]. eapply lfl_ref; eauto.
  Qed.

  Lemma l_live_reach : forall x, l_fn_live P x -> reach (succ_fns M) roots x.
  Proof.
    intros x H. induction H as [f Hf | f g Hf Hl IH Hg].
    - apply reach_root. unfold roots. apply in_map. exact Hf.
    - destruct (N.eq_dec (fn_id g) (fn_id (lfn_name f))) as [->|Hne]; [exact IH|].
      eapply reach_step; [exact IH|]. unfold succ_fns. rewrite (l_get_def f Hf). simpl.
      apply in_remove_N. split; [|exact Hne]. apply l_func_fns_sub. exact Hg.
  Qed.

  Variables (strs : list sname) (fns : list N) (tys : list tname).
  Hypothesis Hk : l_kept VNow P = (strs, fns, tys).

  Lemma l_kept_unfold :
    (forall x, In x fns <-> reach (succ_fns M) roots x) /\
    (forall s, In s strs <-> exists x, In x fns /\ In s (strs_of M x)) /\
    (forall t, In t tys <-> reach (succ_tys T) (flat_map (tys_of M) fns) t).
  Proof.
    unfold l_kept in Hk. fold M roots T in Hk.
    destruct (reach_fns M roots) as [u p] eqn:E. apply reach_fns_spec in E. destruct E as [E1 E2].
    inversion Hk; subst. split; [exact E1|]. split.
    - intros s. rewrite in_flat_map. split.
      + intros [x [Hx Hs]]. exists x. split; auto. apply E2. apply (proj2 (in_rev p x)). exact Hx.
      + intros [x [Hx Hs]]. exists x. split; auto. apply (proj1 (in_rev p x)). apply E2. exact Hx.
    - intros t. apply reach_tys_push_spec.
  Qed.

  Theorem l_kept_fns : forall x, In x fns <-> l_fn_live P x.
  Proof.
    intros x. destruct l_kept_unfold as [H _]. rewrite H. split; [apply l_reach_live | apply l_live_reach].
  Qed.

  Theorem l_kept_strs : forall s, In s strs <-> l_str_live P s.
  Proof.
    intros s. destruct l_kept_unfold as [_ [H _]]. rewrite H. split.
    - intros [x [Hx Hs]]. unfold strs_of in Hs. destruct (get_last x M) as [u|] eqn:E; [|contradiction].
      apply l_get_inv in E. destruct E as [f [Hf [<- ->]]]. exists f. split; auto. split.
      + apply l_kept_fns. exact Hx.
      + exact Hs.
    - intros [f [Hf [Hl Hs]]]. exists (fn_id (lfn_name f)). split.
      + apply l_kept_fns. exact Hl.
      + unfold strs_of. rewrite (l_get_def f Hf). exact Hs.
  Qed.

  Lemma l_tys_reach_live : forall t, reach (succ_tys T) (flat_map (tys_of M) fns) t -> l_ty_live P t.
  Proof.
    intros t H. induction H as [t Ht | t' t Ht' IH Ht].
    - apply in_flat_map in Ht. destruct Ht as [x [Hx Ht]]. unfold tys_of in Ht.
      destruct (get_last x M) as [u|] eqn:E; [|contradiction].
      apply l_get_inv in E. destruct E as [f [Hf [<- ->]]]. apply l_kept_fns in Hx.
      apply l_func_tys_sup in Ht. destruct Ht as [Ht|[g [Hg <-]]].
      + eapply ltl_fn; eauto.
      + eapply ltl_cls; eauto.
    - unfold succ_tys in Ht. destruct (get_last t' T) as [l|] eqn:E; [|contradiction].
      apply lT_get_inv in E. destruct E as [d [Hd [<- ->]]]. eapply ltl_def; eauto.
  Qed.

  Lemma l_tys_live_reach : forall t, l_ty_live P t -> reach (succ_tys T) (flat_map (tys_of M) fns) t.
  Proof.
    intros t H. induction H as [f n Hf Hl Hn | f g Hf Hl Hg | d n Hd Hl IH Hn].
    - apply reach_root. apply in_flat_map. exists (fn_id (lfn_name f)). split.
      + apply l_kept_fns. exact Hl.
      + unfold tys_of. rewrite (l_get_def f Hf). apply l_func_tys_sub. exact Hn.
    - apply reach_root. apply in_flat_map. exists (fn_id (lfn_name f)). split.
      + apply l_kept_fns. exact Hl.
      + unfold tys_of. rewrite (l_get_def f Hf). apply l_func_cls_sub. exact Hg.
    - eapply reach_step; [exact IH|]. unfold succ_tys. rewrite (lT_get_def d Hd). exact Hn.
  Qed.

  Theorem l_kept_tys : forall t, In t tys <-> l_ty_live P t.
  Proof.
    intros t. destruct l_kept_unfold as [_ [_ H]]. rewrite H. split; [apply l_tys_reach_live | apply l_tys_live_reach].
  Qed.
End LirElim.

(* ---------------- the pass keeps exactly what is live ---------------- *)
Theorem lir_elim_exact : forall P, l_wf P ->
    (forall f, In f (ls_funcs (lir_elim VNow P)) <-> In f (ls_funcs P) /\ l_fn_live P (fn_id (lfn_name f))) /\
    (forall d, In d (ls_typedefs (lir_elim VNow P)) <-> In d (ls_typedefs P) /\ l_ty_live P (ltd_name d)) /\
    (forall s, In s (ls_globals (lir_elim VNow P)) <-> In s (ls_globals P) /\ l_str_live P s) /\
    ls_mains (lir_elim VNow P) = ls_mains P.
Proof.
  intros P Hwf. unfold lir_elim. destruct (l_kept VNow P) as [[strs fns] tys] eqn:Hk. simpl.
  split; [|split; [|split; [|reflexivity]]].
  - intros f. rewrite filter_In, memN_In, (l_kept_fns P Hwf strs fns tys Hk). tauto.
  - intros d. rewrite filter_In, memN_In, (l_kept_tys P Hwf strs fns tys Hk). tauto.
  - intros s. rewrite filter_In, memN_In, (l_kept_strs P Hwf strs fns tys Hk). tauto.
Qed.

Lemma in_l_fn_names_def : forall P x, In x (l_fn_names_def P) <-> exists f, In f (ls_funcs P) /\ fn_id (lfn_name f) = x.
Proof.
  intros P x. unfold l_fn_names_def. rewrite in_map_iff. split; intros [f [H1 H2]]; exists f; auto.
Qed.

Lemma in_l_ty_names_def : forall P x, In x (l_ty_names_def P) <-> exists d, In d (ls_typedefs P) /\ ltd_name d = x.
Proof.
  intros P x. unfold l_ty_names_def. rewrite in_map_iff. split; intros [f [H1 H2]]; exists f; auto.
Qed.

(* (a) no reference is left dangling: whatever a kept definition mentions and the input defined, the output defines *)
Theorem lir_elim_closed : forall P, l_wf P ->
    (forall n, In n (lm_prog_tys (lir_elim VNow P)) -> In n (l_ty_names_def P) -> In n (l_ty_names_def (lir_elim VNow P))) /\
    (forall s, In s (lm_prog_strs (lir_elim VNow P)) -> In s (ls_globals P) -> In s (ls_globals (lir_elim VNow P))) /\
    (forall g, In g (lm_prog_fnvals (lir_elim VNow P) ++ lm_prog_callees (lir_elim VNow P) ++ ls_mains (lir_elim VNow P)) ->
               In (fn_id g) (l_fn_names_def P) -> In (fn_id g) (l_fn_names_def (lir_elim VNow P))).
Proof.
  intros P Hwf. destruct (lir_elim_exact P Hwf) as [Ef [Et [Es Em]]].
  set (Q := lir_elim VNow P) in *. split; [|split].
  - intros n Hn Hd. apply in_l_ty_names_def in Hd. destruct Hd as [d [Hd <-]].
    apply in_l_ty_names_def. exists d. split; auto. apply Et. split; auto.
    unfold lm_prog_tys in Hn. apply in_app_or in Hn. destruct Hn as [Hn|Hn]; apply in_flat_map in Hn.
    + destruct Hn as [f [Hf Hn]]. apply Ef in Hf. destruct Hf as [Hf Hl]. exact (ltl_fn P f _ Hf Hl Hn).
    + destruct Hn as [d' [Hd' Hn]]. apply Et in Hd'. destruct Hd' as [Hd' Hl]. exact (ltl_def P d' _ Hd' Hl Hn).
  - intros s Hs Hg. apply Es. split; auto.
    unfold lm_prog_strs in Hs. apply in_flat_map in Hs. destruct Hs as [f [Hf Hs]].
    apply Ef in Hf. destruct Hf as [Hf Hl]. exists f. auto.
  - intros g Hg Hd. apply in_l_fn_names_def in Hd. destruct Hd as [f [Hf Hid]].
    apply in_l_fn_names_def. exists f. split; auto. apply Ef. split; auto. rewrite Hid.
    apply in_app_or in Hg. destruct Hg as [Hg|Hg]; [|apply in_app_or in Hg; destruct Hg as [Hg|Hg]].
    + unfold lm_prog_fnvals in Hg. apply in_flat_map in Hg. destruct Hg as [h [Hh Hg]].
      apply Ef in Hh. destruct Hh as [Hh Hl]. apply (lfl_ref P h g Hh Hl). unfold lm_func_fns. apply in_or_app. left. exact Hg.
    + unfold lm_prog_callees in Hg. apply in_flat_map in Hg. destruct Hg as [h [Hh Hg]].
      apply Ef in Hh. destruct Hh as [Hh Hl]. apply (lfl_ref P h g Hh Hl). unfold lm_func_fns. apply in_or_app. right. exact Hg.
    + rewrite Em in Hg. apply lfl_main. exact Hg.
Qed.

(* ---------------- the validator ---------------- *)
Theorem lir_no_dangling_correct : forall P, lir_no_dangling P = true <-> LirClosed P.
Proof.
  intros P. unfold lir_no_dangling. repeat rewrite andb_true_iff. repeat rewrite forallb_forall. split.
  - intros [[[[H1 H2] H3] H4] H5]. constructor.
    + intros n Hn. specialize (H1 n Hn). apply orb_true_iff in H1. destruct H1 as [H1|H1].
      * left. apply memN_In. exact H1.
      * right. unfold builtin_ty in H1. apply orb_true_iff in H1. destruct H1 as [H1|H1]; apply N.eqb_eq in H1; auto.
    + intros s Hs. apply memN_In. apply H2. exact Hs.
    + intros f Hf. apply memN_In. apply H3. exact Hf.
    + intros f Hf. specialize (H4 f Hf). apply orb_true_iff in H4. destruct H4 as [H4|H4].
      * left. apply memN_In. exact H4.
      * right. unfold builtin_cls in H4. apply N.leb_le. exact H4.
    + intros f Hf. apply memN_In. apply H5. exact Hf.
  - intros [H1 H2 H3 H4 H5]. repeat split.
    + intros n Hn. apply orb_true_iff. destruct (H1 n Hn) as [H|[->| ->]].
      * left. apply memN_In. exact H.
      * right. reflexivity.
      * right. reflexivity.
    + intros s Hs. apply memN_In. apply H2. exact Hs.
    + intros f Hf. apply memN_In. apply H3. exact Hf.
    + intros f Hf. apply orb_true_iff. destruct (H4 f Hf) as [H|H].
      * left. apply memN_In. exact H.
      * right. unfold builtin_cls. apply N.leb_le. exact H.
    + intros f Hf. apply memN_In. apply H5. exact Hf.
Qed.

Lemma flat_map_mono : forall A B (f : A -> list B) (l1 l2 : list A) x,
    (forall a, In a l1 -> In a l2) -> In x (flat_map f l1) -> In x (flat_map f l2).
Proof.
  intros A B f l1 l2 x H Hin. apply in_flat_map in Hin. destruct Hin as [a [Ha Hx]].
  apply in_flat_map. exists a. auto.
Qed.

(* the elimination preserves "no dangling reference" *)
Theorem lir_elim_preserves_closed : forall P, l_wf P -> LirClosed P -> LirClosed (lir_elim VNow P).
Proof.
  intros P Hwf [H1 H2 H3 H4 H5].
  destruct (lir_elim_exact P Hwf) as [Ef [Et [Es Em]]]. destruct (lir_elim_closed P Hwf) as [C1 [C2 C3]].
  set (Q := lir_elim VNow P) in *.
  assert (Sf : forall f, In f (ls_funcs Q) -> In f (ls_funcs P)) by (intros f Hf; apply Ef in Hf; tauto).
  assert (St : forall d, In d (ls_typedefs Q) -> In d (ls_typedefs P)) by (intros d Hd; apply Et in Hd; tauto).
  constructor.
  - intros n Hn. assert (Hp : In n (lm_prog_tys P)).
    { unfold lm_prog_tys in *. apply in_app_or in Hn. apply in_or_app.
      destruct Hn as [Hn|Hn]; [left|right]; eapply flat_map_mono; eauto. }
    destruct (H1 n Hp) as [Hd|Hb]; auto.
  - intros s Hs. apply C2; auto. apply H2. unfold lm_prog_strs in *. eapply flat_map_mono; eauto.
  - intros f Hf. apply C3.
    + apply in_or_app. auto.
    + apply H3. unfold lm_prog_fnvals in *. eapply flat_map_mono; eauto.
  - intros f Hf. assert (Hp : In f (lm_prog_callees P)) by (unfold lm_prog_callees in *; eapply flat_map_mono; eauto).
    destruct (H4 f Hp) as [Hd|Hb]; auto. left. apply C3; auto. apply in_or_app. right. apply in_or_app. auto.
  - intros f Hf. apply C3.
    + apply in_or_app. right. apply in_or_app. auto.
    + apply H5. rewrite Em in Hf. exact Hf.
Qed.
