(* C03names - the MIR unused-name elimination: what it keeps (exactly), and that no reference is left dangling when
   the three blind spots of its collectors are covered (Spec.m_names_wf, evaluated on every real input). *)
From Coq Require Import ZArith NArith List Bool Lia.
Import ListNotations.
From SV Require Import Common.Int32 C03names.Syntax C03names.Elim C03names.Spec C03names.ProofsReach C03names.ProofsBase
  C03names.ProofsElimLir.
Open Scope nat_scope.

(* ---------------- collectors vs mentions ---------------- *)
Lemma in_mg_tag : forall o ns e, In e (mg_tag o ns) <-> fst e = o /\ In (snd e) ns.
Proof.
  intros o ns [o' n]. unfold mg_tag. rewrite in_map_iff. simpl. split.
  - intros [x [Hx Hin]]. inversion Hx; subst. auto.
  - intros [-> Hin]. exists n. auto.
Qed.

Lemma in_snd_mg_tag : forall o ns n, In n ns -> In n (map snd (mg_tag o ns)).
Proof. intros o ns n H. unfold mg_tag. rewrite map_map. simpl. rewrite map_id. exact H. Qed.

Lemma mm_stmt_tys_sub :
  (forall s n, In n (mm_stmt_tys s) -> In n (m_stmt_tys s) \/ In n (map snd (mg_stmt_tys s))) /\
  (forall ss n, In n (mm_stmts_tys ss) -> In n (m_stmts_tys ss) \/ In n (map snd (mg_stmts_tys ss))).
Proof.
  apply mstmt_mstmts_ind2.
  - intros x pt e n H. left. exact H.
  - intros x e n H. left. exact H.
  - intros x op e1 e2 n H. left. exact H.
  - intros x t e i n H. left. simpl in *. inapp. tauto.
  - intros c args rty ret n H. destruct c as [f ft | y t]; simpl in *; inapp.
    + destruct H as [H|[H|H]]; auto. right. apply in_snd_mg_tag. exact H.
    + left. tauto.
  - intros c s1 s2 fas IH1 IH2 n H. rewrite mm_stmt_tys_if in H. rewrite m_stmt_tys_if, mg_stmt_tys_if, map_app. inapp.
    destruct H as [H|[H|[H|H]]]; auto.
    + apply IH1 in H. tauto.
    + apply IH2 in H. tauto.
  - intros c inv ss IH n H. rewrite mm_stmt_tys_sif in H. rewrite m_stmt_tys_sif, mg_stmt_tys_sif. inapp.
    destruct H as [H|H]; auto. apply IH in H. tauto.
  - intros e n H. left. exact H.
  - intros lvs ss bc IH n H. rewrite mm_stmt_tys_while in H. rewrite m_stmt_tys_while, mg_stmt_tys_while. inapp.
    destruct H as [H|[H|H]]; auto. apply IH in H. tauto.
  - intros x t e n H. left. exact H.
  - intros x t n H. right. simpl in *. apply in_snd_mg_tag. exact H.
  - intros x e n H. left. exact H.
  - intros x tn es n H. left. exact H.
  - intros x ctn f ft e n H. simpl in *. inapp. destruct H as [H|[H|H]].
    + left. right. inapp. right. simpl. auto.
    + right. apply in_snd_mg_tag. exact H.
    + left. right. inapp. auto.
  - intros n [].
  - intros s r IHs IHr n H. simpl in *. rewrite map_app. inapp.
    destruct H as [H|H]; [apply IHs in H | apply IHr in H]; tauto.
Qed.

Lemma mm_stmt_fns_sub :
  (forall s f, In f (mm_stmt_fns s) -> In (fn_id f) (m_stmt_fns s)) /\
  (forall ss f, In f (mm_stmts_fns ss) -> In (fn_id f) (m_stmts_fns ss)).
Proof.
  apply mstmt_mstmts_ind2; try (intros; simpl in *; contradiction).
  - intros c args rty ret f H. destruct c; simpl in *; [|contradiction]. destruct H as [<-|[]]. left. reflexivity.
  - intros c s1 s2 fas IH1 IH2 f H. rewrite mm_stmt_fns_if in H. rewrite m_stmt_fns_if. inapp. destruct H; auto.
  - intros c inv ss IH f H. rewrite mm_stmt_fns_sif in H. rewrite m_stmt_fns_sif. auto.
  - intros lvs ss bc IH f H. rewrite mm_stmt_fns_while in H. rewrite m_stmt_fns_while. auto.
  - intros x ctn g ft e f H. simpl in *. destruct H as [<-|[]]. left. reflexivity.
  - intros s r IHs IHr f H. simpl in *. inapp. destruct H; auto.
Qed.

Lemma m_stmt_fns_sup :
  (forall s x, In x (m_stmt_fns s) -> In x (map fn_id (mm_stmt_fns s))) /\
  (forall ss x, In x (m_stmts_fns ss) -> In x (map fn_id (mm_stmts_fns ss))).
Proof.
  apply mstmt_mstmts_ind2; try (intros; simpl in *; contradiction).
  - intros c args rty ret x H. destruct c; simpl in *; [|contradiction]. exact H.
  - intros c s1 s2 fas IH1 IH2 x H. rewrite m_stmt_fns_if in H. rewrite mm_stmt_fns_if, map_app. inapp. destruct H; auto.
  - intros c inv ss IH x H. rewrite m_stmt_fns_sif in H. rewrite mm_stmt_fns_sif. auto.
  - intros lvs ss bc IH x H. rewrite m_stmt_fns_while in H. rewrite mm_stmt_fns_while. auto.
  - intros x ctn g ft e y H. simpl in *. exact H.
  - intros s r IHs IHr x H. simpl in *. rewrite map_app. inapp. destruct H; auto.
Qed.

(* the function named at a blind spot is a mentioned function *)
Lemma mg_stmt_callee :
  (forall s g n, In (Some g, n) (mg_stmt_tys s) -> In g (map fn_id (mm_stmt_fns s))) /\
  (forall ss g n, In (Some g, n) (mg_stmts_tys ss) -> In g (map fn_id (mm_stmts_fns ss))).
Proof.
  apply mstmt_mstmts_ind2; try (intros; simpl in *; contradiction).
  - intros c args rty ret g n H. destruct c; simpl in *; [|contradiction].
    apply in_mg_tag in H. simpl in H. destruct H as [H _]. inversion H. left. reflexivity.
  - intros c s1 s2 fas IH1 IH2 g n H. rewrite mg_stmt_tys_if in H. rewrite mm_stmt_fns_if, map_app. inapp.
    destruct H; eauto.
  - intros c inv ss IH g n H. rewrite mg_stmt_tys_sif in H. rewrite mm_stmt_fns_sif. eauto.
  - intros lvs ss bc IH g n H. rewrite mg_stmt_tys_while in H. rewrite mm_stmt_fns_while. eauto.
  - intros x t g n H. simpl in H. apply in_mg_tag in H. simpl in H. destruct H as [H _]. discriminate.
  - intros x ctn f ft e g n H. simpl in *. apply in_mg_tag in H. simpl in H. destruct H as [H _]. inversion H. left. reflexivity.
  - intros s r IHs IHr g n H. simpl in *. rewrite map_app. inapp. destruct H; eauto.
Qed.

(* ---------------- what is live in a MIR program ---------------- *)
Inductive m_fn_live (P : msources) : N -> Prop :=
| mfl_main : forall f, In f (ms_mains P) -> m_fn_live P (fn_id f)
| mfl_ref : forall f g, In f (ms_funcs P) -> m_fn_live P (fn_id (mfn_name f)) -> In g (mm_func_fns f) ->
                        m_fn_live P (fn_id g).

(* types the pass SEES as used: named at a place of a live function that its collector looks at (Elim.m_fn_used),
   or mentioned by the definition of such a type *)
Inductive m_ty_seen (P : msources) : tname -> Prop :=
| mts_fn : forall f n, In f (ms_funcs P) -> m_fn_live P (fn_id (mfn_name f)) -> In n (u_tys (m_fn_used f)) -> m_ty_seen P n
| mts_td : forall d n, In d (ms_typedefs P) -> m_ty_seen P (td_name d) -> In n (m_mappings_names (td_map d)) -> m_ty_seen P n
| mts_cd : forall d n, In d (ms_closures P) -> m_ty_seen P (cd_name d) -> In n (m_fty_names (cd_fty d)) -> m_ty_seen P n.

(* .. and the parent of a seen sub-type (the last step of optimize_sources, not closed any further) *)
Definition m_ty_kept (P : msources) (n : tname) : Prop :=
  m_ty_seen P n \/ exists t, m_ty_seen P t /\ parent_of (ms_subs P) t = Some n.

Definition m_str_live (P : msources) (s : sname) : Prop :=
  exists f, In f (ms_funcs P) /\ m_fn_live P (fn_id (mfn_name f)) /\ In s (mm_func_strs f).

(* distinct names: functions; type definitions and closure types together *)
Definition m_wf (P : msources) : Prop := NoDup (m_fn_names_def P) /\ NoDup (map cd_name (ms_closures P) ++ map td_name (ms_typedefs P)).

Section MirElim.
  Variable P : msources.
  Hypothesis Hwf : m_wf P.

  Let M := m_used_map (ms_funcs P).
  Let T := m_typedef_map P.
  Let roots := map fn_id (ms_mains P).

  Lemma m_map_fst : map fst M = m_fn_names_def P.
  Proof. unfold M, m_used_map, m_fn_names_def. rewrite map_map. reflexivity. Qed.

  Lemma m_get_def : forall f, In f (ms_funcs P) -> get_last (fn_id (mfn_name f)) M = Some (m_fn_used f).
  Proof.
    intros f Hf. apply get_last_nodup.
    - rewrite m_map_fst. apply Hwf.
    - unfold M, m_used_map. apply in_map_iff. exists f. auto.
  Qed.

  Lemma m_get_inv : forall x u, get_last x M = Some u -> exists f, In f (ms_funcs P) /\ fn_id (mfn_name f) = x /\ u = m_fn_used f.
  Proof.
    intros x u H. apply get_last_In in H. unfold M, m_used_map in H. apply in_map_iff in H.
    destruct H as [f [Hf1 Hf2]]. inversion Hf1; subst. exists f. auto.
  Qed.

  Lemma mT_fst : map fst T = map cd_name (ms_closures P) ++ map td_name (ms_typedefs P).
  Proof. unfold T, m_typedef_map. rewrite map_app, !map_map. reflexivity. Qed.

  Lemma mT_get_td : forall d, In d (ms_typedefs P) -> get_last (td_name d) T = Some (m_mappings_names (td_map d)).
  Proof.
    intros d Hd. apply get_last_nodup.
    - rewrite mT_fst. apply Hwf.
    - unfold T, m_typedef_map. apply in_or_app. right. apply in_map_iff. exists d. auto.
  Qed.

  Lemma mT_get_cd : forall d, In d (ms_closures P) -> get_last (cd_name d) T = Some (m_fty_names (cd_fty d)).
  Proof.
    intros d Hd. apply get_last_nodup.
    - rewrite mT_fst. apply Hwf.
    - unfold T, m_typedef_map. apply in_or_app. left. apply in_map_iff. exists d. auto.
  Qed.

  Lemma mT_get_inv : forall x l, get_last x T = Some l ->
      (exists d, In d (ms_typedefs P) /\ td_name d = x /\ l = m_mappings_names (td_map d)) \/
      (exists d, In d (ms_closures P) /\ cd_name d = x /\ l = m_fty_names (cd_fty d)).
  Proof.
    intros x l H. apply get_last_In in H. unfold T, m_typedef_map in H. apply in_app_or in H.
    destruct H as [H|H]; apply in_map_iff in H; destruct H as [d [Hd1 Hd2]]; inversion Hd1; subst; [right|left]; exists d; auto.
  Qed.

  (* ---- functions ---- *)
  Lemma m_reach_live : forall x, reach (succ_fns M) roots x -> m_fn_live P x.
  Proof.
    intros x H. induction H as [x Hx | x y Hx IH Hy].
    - unfold roots in Hx. apply in_map_iff in Hx. destruct Hx as [f [<- Hf]]. apply mfl_main. exact Hf.
    - unfold succ_fns in Hy. destruct (get_last x M) as [u|] eqn:E; [|contradiction].
      apply m_get_inv in E. destruct E as [f [Hf [<- ->]]]. simpl in Hy.
      apply in_remove_N in Hy. destruct Hy as [Hy _]. apply (proj2 m_stmt_fns_sup) in Hy.
      apply in_map_iff in Hy. destruct Hy as [g [<- Hg]]. exact (mfl_ref P f g Hf IH Hg).
  Qed.

  Lemma m_live_reach : forall x, m_fn_live P x -> reach (succ_fns M) roots x.
  Proof.
    intros x H. induction H as [f Hf | f g Hf Hl IH Hg].
    - apply reach_root. unfold roots. apply in_map. exact Hf.
    - destruct (N.eq_dec (fn_id g) (fn_id (mfn_name f))) as [->|Hne]; [exact IH|].
      eapply reach_step; [exact IH|]. unfold succ_fns. rewrite (m_get_def f Hf). simpl.
      apply in_remove_N. split; [|exact Hne]. apply (proj2 mm_stmt_fns_sub). exact Hg.
  Qed.

  Variables (strs : list sname) (fns : list N) (tys : list tname).
  Hypothesis Hk : m_analyze P = (strs, fns, tys).

  Lemma m_analyze_unfold :
    (forall x, In x fns <-> reach (succ_fns M) roots x) /\
    (forall s, In s strs <-> exists x, In x fns /\ In s (strs_of M x)) /\
    (forall t, In t tys <-> reach (succ_tys T) (m_type_seeds M T fns) t).
  Proof.
    unfold m_analyze in Hk. fold M roots T in Hk.
    destruct (reach_fns M roots) as [u p] eqn:E. apply reach_fns_spec in E. destruct E as [E1 E2].
    inversion Hk; subst. split; [exact E1|]. split.
    - intros s. rewrite in_flat_map. split.
      + intros [x [Hx Hs]]. exists x. split; auto. apply E2. apply (proj2 (in_rev p x)). exact Hx.
      + intros [x [Hx Hs]]. exists x. split; auto. apply (proj1 (in_rev p x)). apply E2. exact Hx.
    - intros t. apply reach_tys_pop_spec.
  Qed.

  Theorem m_kept_fns : forall x, In x fns <-> m_fn_live P x.
  Proof.
    intros x. destruct m_analyze_unfold as [H _]. rewrite H. split; [apply m_reach_live | apply m_live_reach].
  Qed.

  Theorem m_kept_strs : forall s, In s strs <-> m_str_live P s.
  Proof.
    intros s. destruct m_analyze_unfold as [_ [H _]]. rewrite H. split.
    - intros [x [Hx Hs]]. unfold strs_of in Hs. destruct (get_last x M) as [u|] eqn:E; [|contradiction].
      apply m_get_inv in E. destruct E as [f [Hf [<- ->]]]. exists f. split; auto. split.
      + apply m_kept_fns. exact Hx.
      + exact Hs.
    - intros [f [Hf [Hl Hs]]]. exists (fn_id (mfn_name f)). split.
      + apply m_kept_fns. exact Hl.
      + unfold strs_of. rewrite (m_get_def f Hf). exact Hs.
  Qed.

  Lemma m_seeds_seen : forall t, In t (m_type_seeds M T fns) -> m_ty_seen P t.
  Proof.
    intros t Ht. unfold m_type_seeds in Ht. apply in_flat_map in Ht. destruct Ht as [x [Hx Ht]].
    apply in_flat_map in Ht. destruct Ht as [t0 [Ht0 Ht]]. unfold tys_of in Ht0.
    destruct (get_last x M) as [u|] eqn:E; [|contradiction].
    apply m_get_inv in E. destruct E as [f [Hf [<- ->]]]. apply m_kept_fns in Hx.
    assert (H0 : m_ty_seen P t0) by exact (mts_fn P f t0 Hf Hx Ht0).
    destruct Ht as [<-|Ht]; [exact H0|].
    unfold succ_tys in Ht. destruct (get_last t0 T) as [l|] eqn:E; [|contradiction].
    apply mT_get_inv in E. destruct E as [[d [Hd [<- ->]]]|[d [Hd [<- ->]]]].
    - exact (mts_td P d t Hd H0 Ht).
    - exact (mts_cd P d t Hd H0 Ht).
  Qed.

  Lemma m_tys_reach_seen : forall t, reach (succ_tys T) (m_type_seeds M T fns) t -> m_ty_seen P t.
  Proof.
    intros t H. induction H as [t Ht | t' t Ht' IH Ht].
    - apply m_seeds_seen. exact Ht.
    - unfold succ_tys in Ht. destruct (get_last t' T) as [l|] eqn:E; [|contradiction].
      apply mT_get_inv in E. destruct E as [[d [Hd [<- ->]]]|[d [Hd [<- ->]]]].
      + exact (mts_td P d t Hd IH Ht).
      + exact (mts_cd P d t Hd IH Ht).
  Qed.

  Lemma m_tys_seen_reach : forall t, m_ty_seen P t -> reach (succ_tys T) (m_type_seeds M T fns) t.
  Proof.
    intros t H. induction H as [f n Hf Hl Hn | d n Hd Hl IH Hn | d n Hd Hl IH Hn].
    - apply reach_root. unfold m_type_seeds. apply in_flat_map. exists (fn_id (mfn_name f)). split.
      + apply m_kept_fns. exact Hl.
      + apply in_flat_map. exists n. split; [|left; reflexivity].
        unfold tys_of. rewrite (m_get_def f Hf). exact Hn.
    - eapply reach_step; [exact IH|]. unfold succ_tys. rewrite (mT_get_td d Hd). exact Hn.
    - eapply reach_step; [exact IH|]. unfold succ_tys. rewrite (mT_get_cd d Hd). exact Hn.
  Qed.

  Theorem m_analyze_tys : forall t, In t tys <-> m_ty_seen P t.
  Proof.
    intros t. destruct m_analyze_unfold as [_ [_ H]]. rewrite H. split; [apply m_tys_reach_seen | apply m_tys_seen_reach].
  Qed.

  Theorem m_kept_tys : forall t, In t (m_add_parents (ms_subs P) tys) <-> m_ty_kept P t.
  Proof.
    intros t. unfold m_add_parents, m_ty_kept. rewrite in_app_iff, in_flat_map. split.
    - intros [[t0 [Ht0 Hp]]|H].
      + right. exists t0. split; [apply m_analyze_tys; exact Ht0|].
        destruct (parent_of (ms_subs P) t0) as [p|]; [|contradiction]. destruct Hp as [<-|[]]. reflexivity.
      + left. apply m_analyze_tys. exact H.
    - intros [H|[t0 [Ht0 Hp]]].
      + right. apply m_analyze_tys. exact H.
      + left. exists t0. split; [apply m_analyze_tys; exact Ht0|]. rewrite Hp. left. reflexivity.
  Qed.
End MirElim.

(* ---------------- (b) the pass keeps exactly: live functions, live strings, the types it sees + parents ---------------- *)
Theorem mir_elim_exact : forall P, m_wf P ->
    (forall f, In f (ms_funcs (mir_elim P)) <-> In f (ms_funcs P) /\ m_fn_live P (fn_id (mfn_name f))) /\
    (forall d, In d (ms_typedefs (mir_elim P)) <-> In d (ms_typedefs P) /\ m_ty_kept P (td_name d)) /\
    (forall d, In d (ms_closures (mir_elim P)) <-> In d (ms_closures P) /\ m_ty_kept P (cd_name d)) /\
    (forall s, In s (ms_globals (mir_elim P)) <-> In s (ms_globals P) /\ m_str_live P s) /\
    ms_mains (mir_elim P) = ms_mains P /\ ms_subs (mir_elim P) = ms_subs P.
Proof.
  intros P Hwf. unfold mir_elim, m_kept. destruct (m_analyze P) as [[strs fns] tys] eqn:Hk. simpl.
  split; [|split; [|split; [|split; [|split; reflexivity]]]].
  - intros f. rewrite filter_In, memN_In, (m_kept_fns P Hwf strs fns tys Hk). tauto.
  - intros d. rewrite filter_In, memN_In, (m_kept_tys P Hwf strs fns tys Hk). tauto.
  - intros d. rewrite filter_In, memN_In, (m_kept_tys P Hwf strs fns tys Hk). tauto.
  - intros s. rewrite filter_In, memN_In, (m_kept_strs P Hwf strs fns tys Hk). tauto.
Qed.

(* ---------------- (a) no dangling reference ---------------- *)
Lemma find_typedef_some : forall n ds d, find_typedef n ds = Some d -> In d ds /\ td_name d = n.
Proof.
  induction ds as [|a ds IH]; simpl; intros d H; [discriminate|].
  destruct (N.eqb (td_name a) n) eqn:E.
  - inversion H; subst. apply N.eqb_eq in E. auto.
  - destruct (IH d H). auto.
Qed.

Lemma find_typedef_filter : forall keep n ds d,
    find_typedef n ds = Some d -> keep d = true -> find_typedef n (filter keep ds) = Some d.
Proof.
  induction ds as [|a ds IH]; simpl; intros d H Hk; [discriminate|].
  destruct (N.eqb (td_name a) n) eqn:E.
  - inversion H; subst. rewrite Hk. simpl. rewrite E. reflexivity.
  - destruct (keep a); simpl; [rewrite E|]; apply IH; auto.
Qed.

Lemma in_m_fn_names_def : forall P x, In x (m_fn_names_def P) <-> exists f, In f (ms_funcs P) /\ fn_id (mfn_name f) = x.
Proof.
  intros P x. unfold m_fn_names_def. rewrite in_map_iff. split; intros [f [H1 H2]]; exists f; auto.
Qed.

Section MirClosed.
  Variable P : msources.
  Hypothesis Hwf : m_wf P.
  Hypothesis Hnw : m_names_wf P = true.

  Lemma wf_gap : forall f, In f (ms_funcs P) -> m_gap_free_func (m_used_map (ms_funcs P)) f = true.
  Proof.
    intros f Hf. unfold m_names_wf in Hnw. apply andb_true_iff in Hnw. destruct Hnw as [H _].
    apply andb_true_iff in H. destruct H as [H _]. rewrite forallb_forall in H. apply H. exact Hf.
  Qed.

  Lemma wf_parents : forall f, In f (ms_funcs P) -> m_parents_seen_func (ms_subs P) f = true.
  Proof.
    intros f Hf. unfold m_names_wf in Hnw. apply andb_true_iff in Hnw. destruct Hnw as [H _].
    apply andb_true_iff in H. destruct H as [_ H]. rewrite forallb_forall in H. apply H. exact Hf.
  Qed.

  Lemma wf_no_subs : forall n, In n (flat_map (fun e => snd e) (m_typedef_map P)) -> parent_of (ms_subs P) n = None.
  Proof.
    intros n Hn. unfold m_names_wf in Hnw. apply andb_true_iff in Hnw. destruct Hnw as [_ H].
    unfold m_defs_no_subs in H. rewrite forallb_forall in H. specialize (H n Hn).
    destruct (parent_of (ms_subs P) n); [discriminate | reflexivity].
  Qed.

  (* the parent of a seen sub-type is itself seen *)
  Lemma seen_parent : forall t p, m_ty_seen P t -> parent_of (ms_subs P) t = Some p -> m_ty_seen P p.
  Proof.
    intros t p H Hp. destruct H as [f n Hf Hl Hn | d n Hd Hl Hn | d n Hd Hl Hn].
    - pose proof (wf_parents f Hf) as W. unfold m_parents_seen_func in W. rewrite forallb_forall in W.
      specialize (W n Hn). rewrite Hp in W. apply memN_In in W. exact (mts_fn P f p Hf Hl W).
    - rewrite wf_no_subs in Hp; [discriminate|]. apply in_flat_map.
      exists (td_name d, m_mappings_names (td_map d)). split; [|exact Hn].
      unfold m_typedef_map. apply in_or_app. right. apply in_map_iff. exists d. auto.
    - rewrite wf_no_subs in Hp; [discriminate|]. apply in_flat_map.
      exists (cd_name d, m_fty_names (cd_fty d)). split; [|exact Hn].
      unfold m_typedef_map. apply in_or_app. left. apply in_map_iff. exists d. auto.
  Qed.

  Lemma kept_seen : forall t, m_ty_kept P t -> m_ty_seen P t.
  Proof. intros t [H|[t0 [H0 Hp]]]; [exact H | eapply seen_parent; eauto]. Qed.

  (* everything a live function mentions is seen by the pass, or is a built-in *)
  Lemma live_func_mentions_seen : forall f n,
      In f (ms_funcs P) -> m_fn_live P (fn_id (mfn_name f)) -> In n (mm_func_tys f) ->
      m_ty_seen P n \/ builtin_ty n = true.
  Proof.
    intros f n Hf Hl Hn. unfold mm_func_tys in Hn. apply in_app_or in Hn. destruct Hn as [Hn|Hn].
    { left. apply (mts_fn P f n Hf Hl). simpl. unfold m_fty_names in Hn. inapp. tauto. }
    apply in_app_or in Hn. destruct Hn as [Hn|Hn].
    2:{ left. apply (mts_fn P f n Hf Hl). simpl. inapp. tauto. }
    apply (proj2 mm_stmt_tys_sub) in Hn. destruct Hn as [Hn|Hn].
    { left. apply (mts_fn P f n Hf Hl). simpl. inapp. tauto. }
    apply in_map_iff in Hn. destruct Hn as [[o n'] [Heq Hg]]. simpl in Heq. subst n'.
    pose proof (wf_gap f Hf) as W. unfold m_gap_free_func in W. rewrite forallb_forall in W.
    specialize (W (o, n) Hg). simpl in W. apply orb_true_iff in W. destruct W as [W|W].
    - apply orb_true_iff in W. destruct W as [W|W]; [|right; exact W].
      left. apply memN_In in W. exact (mts_fn P f n Hf Hl W).
    - destruct o as [g|]; [|discriminate]. apply memN_In in W. unfold tys_of in W.
      destruct (get_last g (m_used_map (ms_funcs P))) as [u|] eqn:E; [|contradiction].
      apply (m_get_inv P) in E. destruct E as [h [Hh [Hid ->]]].
      apply (proj2 mg_stmt_callee) in Hg. apply in_map_iff in Hg. destruct Hg as [g' [Hg1 Hg2]].
      left. apply (mts_fn P h n Hh); [|exact W]. rewrite Hid, <- Hg1. exact (mfl_ref P f g' Hf Hl Hg2).
  Qed.

  Theorem mir_elim_closed :
    (forall n, In n (mm_prog_tys (mir_elim P)) -> m_ty_defined P n = true -> m_ty_defined (mir_elim P) n = true) /\
    (forall s, In s (mm_prog_strs (mir_elim P)) -> In s (ms_globals P) -> In s (ms_globals (mir_elim P))) /\
    (forall g, In g (mm_prog_fns (mir_elim P) ++ ms_mains (mir_elim P)) -> In (fn_id g) (m_fn_names_def P) ->
               In (fn_id g) (m_fn_names_def (mir_elim P))).
  Proof.
    destruct (mir_elim_exact P Hwf) as [Ef [Et [Ec [Es [Em Eu]]]]].
    assert (Hseen : forall n, In n (mm_prog_tys (mir_elim P)) -> m_ty_seen P n \/ builtin_ty n = true).
    { intros n Hn. unfold mm_prog_tys in Hn. apply in_app_or in Hn. destruct Hn as [Hn|Hn].
      - apply in_flat_map in Hn. destruct Hn as [f [Hf Hn]]. apply Ef in Hf. destruct Hf as [Hf Hl].
        eapply live_func_mentions_seen; eauto.
      - left. apply in_app_or in Hn. destruct Hn as [Hn|Hn]; apply in_flat_map in Hn; destruct Hn as [d [Hd Hn]].
        + apply Et in Hd. destruct Hd as [Hd Hk]. apply kept_seen in Hk. exact (mts_td P d n Hd Hk Hn).
        + apply Ec in Hd. destruct Hd as [Hd Hk]. apply kept_seen in Hk. exact (mts_cd P d n Hd Hk Hn). }
    split; [|split].
    - intros n Hn Hd. destruct (Hseen n Hn) as [Hs|Hb].
      2:{ unfold m_ty_defined. rewrite Hb. rewrite orb_true_r. reflexivity. }
      unfold m_ty_defined in *. apply orb_true_iff in Hd. destruct Hd as [Hd|Hd].
      + apply orb_true_iff in Hd. destruct Hd as [Hd|Hd]; [|rewrite Hd, orb_true_r; reflexivity].
        apply orb_true_iff. left. apply orb_true_iff. left. apply memN_In. apply memN_In in Hd.
        unfold m_ty_names_def in *. apply in_app_or in Hd. apply in_or_app.
        destruct Hd as [Hd|Hd]; apply in_map_iff in Hd; destruct Hd as [d [<- Hd]]; [left|right]; apply in_map.
        * apply Et. split; auto. left. exact Hs.
        * apply Ec. split; auto. left. exact Hs.
      + apply orb_true_iff. right. unfold m_sub_defined in *. rewrite Eu.
        destruct (get_first n (ms_subs P)) as [[p tag]|] eqn:Eg; [|discriminate].
        destruct (find_typedef p (ms_typedefs P)) as [d|] eqn:Ed; [|discriminate].
        assert (Hd' : In d (ms_typedefs (mir_elim P))).
        { destruct (find_typedef_some _ _ _ Ed) as [Hin Hname]. apply Et. split; auto.
          right. exists n. split; auto. unfold parent_of. rewrite Eg, Hname. reflexivity. }
        unfold mir_elim, m_kept in *. destruct (m_analyze P) as [[s0 f0] t0]. simpl in *.
        apply filter_In in Hd'. destruct Hd' as [_ Hk].
        rewrite (find_typedef_filter _ _ _ _ Ed Hk). exact Hd.
    - intros s Hs Hg. apply Es. split; auto.
      unfold mm_prog_strs in Hs. apply in_flat_map in Hs. destruct Hs as [f [Hf Hs]].
      apply Ef in Hf. destruct Hf as [Hf Hl]. exists f. auto.
    - intros g Hg Hd. apply in_m_fn_names_def in Hd. destruct Hd as [f [Hf Hid]].
      apply in_m_fn_names_def. exists f. split; auto. apply Ef. split; auto. rewrite Hid.
      apply in_app_or in Hg. destruct Hg as [Hg|Hg].
      + unfold mm_prog_fns in Hg. apply in_flat_map in Hg. destruct Hg as [h [Hh Hg]].
        apply Ef in Hh. destruct Hh as [Hh Hl]. exact (mfl_ref P h g Hh Hl Hg).
      + rewrite Em in Hg. apply mfl_main. exact Hg.
  Qed.
End MirClosed.

(* ---------------- the elimination preserves the validator's verdict ---------------- *)
Lemma mm_stmt_fnvals_if : forall c s1 s2 fas, mm_stmt_fnvals (MIfElse c s1 s2 fas) = mm_stmts_fnvals s1 ++ mm_stmts_fnvals s2.
Proof. reflexivity. Qed.
Lemma mm_stmt_fnvals_sif : forall c i ss, mm_stmt_fnvals (MSingleIf c i ss) = mm_stmts_fnvals ss.
Proof. reflexivity. Qed.
Lemma mm_stmt_fnvals_while : forall lvs ss bc, mm_stmt_fnvals (MWhile lvs ss bc) = mm_stmts_fnvals ss.
Proof. reflexivity. Qed.

Lemma mm_fnvals_sub :
  (forall s f, In f (mm_stmt_fnvals s) -> In f (mm_stmt_fns s)) /\
  (forall ss f, In f (mm_stmts_fnvals ss) -> In f (mm_stmts_fns ss)).
Proof.
  apply mstmt_mstmts_ind2; try (intros; simpl in *; contradiction).
  - intros c s1 s2 fas IH1 IH2 f H. rewrite mm_stmt_fnvals_if in H. rewrite mm_stmt_fns_if. inapp. destruct H; auto.
  - intros c inv ss IH f H. rewrite mm_stmt_fnvals_sif in H. rewrite mm_stmt_fns_sif. auto.
  - intros lvs ss bc IH f H. rewrite mm_stmt_fnvals_while in H. rewrite mm_stmt_fns_while. auto.
  - intros x ctn g ft e f H. exact H.
  - intros s r IHs IHr f H. simpl in *. inapp. destruct H; auto.
Qed.

Theorem mir_elim_preserves_no_dangling : forall P, m_wf P -> m_names_wf P = true ->
    mir_no_dangling P = true -> mir_no_dangling (mir_elim P) = true.
Proof.
  intros P Hwf Hnw H. destruct (mir_elim_exact P Hwf) as [Ef [Et [Ec [Es [Em Eu]]]]].
  destruct (mir_elim_closed P Hwf Hnw) as [C1 [C2 C3]].
  set (Q := mir_elim P) in *.
  assert (Sf : forall f, In f (ms_funcs Q) -> In f (ms_funcs P)) by (intros f Hf; apply Ef in Hf; tauto).
  assert (St : forall d, In d (ms_typedefs Q) -> In d (ms_typedefs P)) by (intros d Hd; apply Et in Hd; tauto).
  assert (Sc : forall d, In d (ms_closures Q) -> In d (ms_closures P)) by (intros d Hd; apply Ec in Hd; tauto).
  unfold mir_no_dangling in *. repeat rewrite andb_true_iff in *. repeat rewrite forallb_forall in *.
  destruct H as [[[[H1 H2] H3] H4] H5]. repeat split.
  - intros n Hn. apply C1; auto. apply H1. unfold mm_prog_tys in *. inapp.
    destruct Hn as [Hn|[Hn|Hn]]; [left|right; left|right; right]; eapply flat_map_mono; eauto.
  - intros s Hs. apply memN_In. apply C2; auto. apply memN_In. apply H2. unfold mm_prog_strs in *. eapply flat_map_mono; eauto.
  - intros f Hf. apply memN_In. apply C3.
    + apply in_or_app. left. unfold mm_prog_fnvals, mm_prog_fns in *. apply in_flat_map in Hf.
      destruct Hf as [g [Hg Hf]]. apply in_flat_map. exists g. split; auto. apply (proj2 mm_fnvals_sub). exact Hf.
    + apply memN_In. apply H3. unfold mm_prog_fnvals in *. eapply flat_map_mono; eauto.
  - intros f Hf. assert (Hp : In f (mm_prog_fns P)) by (unfold mm_prog_fns in *; eapply flat_map_mono; eauto).
    specialize (H4 f Hp). apply orb_true_iff in H4. apply orb_true_iff. destruct H4 as [H4|H4]; auto.
    left. apply memN_In. apply C3; [apply in_or_app; auto | apply memN_In; exact H4].
  - intros f Hf. apply memN_In. apply C3.
    + apply in_or_app. right. exact Hf.
    + apply memN_In. apply H5. rewrite Em in Hf. exact Hf.
Qed.
