(* C03names - the structural comparisons of Corr.v (used by the deduplication tie) only say `true` on equal terms. *)
From Coq Require Import ZArith NArith List Bool Lia.
Import ListNotations.
From SV Require Import Common.Int32 C03names.Syntax C03names.Elim C03names.Dedup C03names.Spec C03names.Corr
  C03names.ProofsDedup.

Lemma list_eqb_sound : forall A (eqb : A -> A -> bool), (forall a b, eqb a b = true -> a = b) ->
    forall l m, list_eqb eqb l m = true -> l = m.
Proof.
  intros A eqb H. induction l as [|a l IH]; destruct m as [|b m]; simpl; intros E; try reflexivity; try discriminate.
  apply andb_true_iff in E. destruct E as [E1 E2]. apply H in E1. apply IH in E2. subst. reflexivity.
Qed.

Lemma mexpr_eqb_sound : forall a b, mexpr_eqb a b = true -> a = b.
Proof.
  intros [x|x|x|x t] [y|y|y|y u]; simpl; intros E; try discriminate.
  - apply Z.eqb_eq in E. subst. reflexivity.
  - apply Z.eqb_eq in E. subst. reflexivity.
  - apply N.eqb_eq in E. subst. reflexivity.
  - apply andb_true_iff in E. destruct E as [E1 E2]. apply N.eqb_eq in E1. apply mty_eqb_eq in E2. subst. reflexivity.
Qed.

Lemma fname_eqb_sound : forall a b, fname_eqb a b = true -> a = b.
Proof.
  intros [i c] [j d]. unfold fname_eqb. simpl. intros E. apply andb_true_iff in E. destruct E as [E1 E2].
  apply N.eqb_eq in E1. apply N.eqb_eq in E2. subst. reflexivity.
Qed.

Lemma mcallee_eqb_sound : forall a b, mcallee_eqb a b = true -> a = b.
Proof.
  intros [f t|x t] [g u|y u]; simpl; intros E; try discriminate; apply andb_true_iff in E; destruct E as [E1 E2].
  - apply fname_eqb_sound in E1. apply mfty_eqb_eq in E2. subst. reflexivity.
  - apply N.eqb_eq in E1. apply mty_eqb_eq in E2. subst. reflexivity.
Qed.

Lemma mquad_eqb_sound : forall a b, mquad_eqb a b = true -> a = b.
Proof.
  intros [n t e1 e2] [m u g1 g2]. unfold mquad_eqb. simpl. intros E.
  repeat (apply andb_true_iff in E; destruct E as [E ?]).
  apply N.eqb_eq in E. apply mty_eqb_eq in H1. apply mexpr_eqb_sound in H0. apply mexpr_eqb_sound in H. subst. reflexivity.
Qed.

Lemma binop_eqb_sound : forall a b, binop_eqb a b = true -> a = b.
Proof. intros [] []; simpl; intros E; try discriminate; reflexivity. Qed.

Lemma opt_eqb_sound : forall A (eqb : A -> A -> bool), (forall a b, eqb a b = true -> a = b) ->
    forall a b, opt_eqb eqb a b = true -> a = b.
Proof. intros A eqb H [x|] [y|]; simpl; intros E; try discriminate; [apply H in E; subst|]; reflexivity. Qed.

Lemma mbc_eqb_sound : forall a b, mbc_eqb a b = true -> a = b.
Proof.
  intros [x t] [y u]. unfold mbc_eqb. simpl. intros E. apply andb_true_iff in E. destruct E as [E1 E2].
  apply N.eqb_eq in E1. apply mty_eqb_eq in E2. subst. reflexivity.
Qed.

Lemma N_eqb_sound : forall a b : N, N.eqb a b = true -> a = b.
Proof. intros a b. apply N.eqb_eq. Qed.

Definition go_eqb := fix go (x y : list mstmt) : bool :=
  match x, y with
  | [], [] => true
  | s :: r, t :: u => mstmt_eqb s t && go r u
  | _, _ => false
  end.

Lemma go_eqb_list : forall x y, go_eqb x y = mstmts_eqb x y.
Proof. induction x as [|s r IH]; destruct y as [|t u]; simpl; try reflexivity. rewrite IH. reflexivity. Qed.

Ltac split_and E := repeat (let H := fresh "E" in apply andb_true_iff in E; destruct E as [E H]).

Lemma mstmt_eqb_sound_both :
  (forall a b, mstmt_eqb a b = true -> a = b) /\ (forall x y, go_eqb x y = true -> x = y).
Proof.
  apply mstmt_mstmts_ind2.
  - intros x pt e [] E; simpl in E; try discriminate. split_and E.
    apply N.eqb_eq in E. apply N.eqb_eq in E1. apply mexpr_eqb_sound in E0. subst. reflexivity.
  - intros x e [] E; simpl in E; try discriminate. split_and E.
    apply N.eqb_eq in E. apply mexpr_eqb_sound in E0. subst. reflexivity.
  - intros x op e1 e2 [] E; simpl in E; try discriminate. split_and E.
    apply N.eqb_eq in E. apply binop_eqb_sound in E2. apply mexpr_eqb_sound in E1. apply mexpr_eqb_sound in E0. subst. reflexivity.
  - intros x t e i [] E; simpl in E; try discriminate. split_and E.
    apply N.eqb_eq in E. apply mty_eqb_eq in E2. apply mexpr_eqb_sound in E1. apply N.eqb_eq in E0. subst. reflexivity.
  - intros c args rty ret [] E; simpl in E; try discriminate. split_and E.
    apply mcallee_eqb_sound in E. apply (list_eqb_sound _ _ mexpr_eqb_sound) in E2. apply mty_eqb_eq in E1.
    apply (opt_eqb_sound _ _ N_eqb_sound) in E0. subst. reflexivity.
  - intros c s1 s2 fas IH1 IH2 [] E; simpl in E; try discriminate. split_and E.
    apply mexpr_eqb_sound in E. apply IH1 in E2. apply IH2 in E1. apply (list_eqb_sound _ _ mquad_eqb_sound) in E0.
    subst. reflexivity.
  - intros c inv ss IH [] E; simpl in E; try discriminate. split_and E.
    apply mexpr_eqb_sound in E. apply Bool.eqb_prop in E1. apply IH in E0. subst. reflexivity.
  - intros e [] E; simpl in E; try discriminate. apply mexpr_eqb_sound in E. subst. reflexivity.
  - intros lvs ss bc IH [] E; simpl in E; try discriminate. split_and E.
    apply (list_eqb_sound _ _ mquad_eqb_sound) in E. apply IH in E1. apply (opt_eqb_sound _ _ mbc_eqb_sound) in E0.
    subst. reflexivity.
  - intros x t e [] E; simpl in E; try discriminate. split_and E.
    apply N.eqb_eq in E. apply mty_eqb_eq in E1. apply mexpr_eqb_sound in E0. subst. reflexivity.
  - intros x t [] E; simpl in E; try discriminate. split_and E.
    apply N.eqb_eq in E. apply mty_eqb_eq in E0. subst. reflexivity.
  - intros x e [] E; simpl in E; try discriminate. split_and E.
    apply N.eqb_eq in E. apply mexpr_eqb_sound in E0. subst. reflexivity.
  - intros x tn es [] E; simpl in E; try discriminate. split_and E.
    apply N.eqb_eq in E. apply N.eqb_eq in E1. apply (list_eqb_sound _ _ mexpr_eqb_sound) in E0. subst. reflexivity.
  - intros x ctn f ft e [] E; simpl in E; try discriminate. split_and E.
    apply N.eqb_eq in E. apply N.eqb_eq in E3. apply fname_eqb_sound in E2. apply mfty_eqb_eq in E1.
    apply mexpr_eqb_sound in E0. subst. reflexivity.
  - intros [] E; simpl in E; [reflexivity | discriminate].
  - intros s r IHs IHr [|t u] E; simpl in E; [discriminate|]. split_and E.
    apply IHs in E. apply IHr in E0. subst. reflexivity.
Qed.

Theorem mfunc_eqb_sound : forall a b, mfunc_eqb a b = true -> a = b.
Proof.
  intros a b E. unfold mfunc_eqb in E.
  apply andb_true_iff in E. destruct E as [E E5]. apply andb_true_iff in E. destruct E as [E E4].
  apply andb_true_iff in E. destruct E as [E E3]. apply andb_true_iff in E. destruct E as [E1 E2].
  apply fname_eqb_sound in E1. apply (list_eqb_sound _ _ N_eqb_sound) in E2. apply mfty_eqb_eq in E3.
  rewrite <- (go_eqb_list (mfn_body a) (mfn_body b)) in E4.
  apply (proj2 mstmt_eqb_sound_both) in E4. apply mexpr_eqb_sound in E5.
  destruct a, b. simpl in *. subst. reflexivity.
Qed.

Theorem mtypedef_eqb_sound : forall a b, mtypedef_eqb a b = true -> a = b.
Proof.
  intros [n m] [n' m']. unfold mtypedef_eqb. simpl. intros E. apply andb_true_iff in E. destruct E as [E1 E2].
  apply N.eqb_eq in E1. apply mmappings_eqb_eq in E2. subst. reflexivity.
Qed.

Theorem mclosuredef_eqb_sound : forall a b, mclosuredef_eqb a b = true -> a = b.
Proof.
  intros [n m] [n' m']. unfold mclosuredef_eqb. simpl. intros E. apply andb_true_iff in E. destruct E as [E1 E2].
  apply N.eqb_eq in E1. apply mfty_eqb_eq in E2. subst. reflexivity.
Qed.
