(* C03names - the two work-list disciplines of Elim.v compute the reachable set, for every order in which a hash table
   could have filled them, and the fuel computed by `push_fuel` / `pop_fuel` always suffices. *)
From Coq Require Import ZArith NArith List Bool Lia.
Import ListNotations.
From SV Require Import Common.Int32 C03names.Syntax C03names.Elim.
Open Scope nat_scope.

Lemma memN_In : forall x l, memN x l = true <-> In x l.
Proof.
  intros x l. unfold memN. rewrite existsb_exists. split.
  - intros [y [Hy He]]. apply N.eqb_eq in He. subst. exact Hy.
  - intros H. exists x. split; [exact H | apply N.eqb_refl].
Qed.

Lemma memN_false : forall x l, memN x l = false <-> ~ In x l.
Proof.
  intros x l. split.
  - intros H Hin. apply memN_In in Hin. congruence.
  - intros H. destruct (memN x l) eqn:E; [apply memN_In in E; contradiction | reflexivity].
Qed.

Lemma memN_cons : forall x y l, memN x (y :: l) = N.eqb x y || memN x l.
Proof. reflexivity. Qed.

Section Reach.
  Variable succ : N -> list N.

  Inductive reach (roots : list N) : N -> Prop :=
  | reach_root : forall x, In x roots -> reach roots x
  | reach_step : forall x y, reach roots x -> In y (succ x) -> reach roots y.

  Lemma reach_incl : forall r1 r2 x, (forall y, In y r1 -> reach r2 y) -> reach r1 x -> reach r2 x.
  Proof.
    intros r1 r2 x H Hr. induction Hr.
    - apply H; assumption.
    - eapply reach_step; eassumption.
  Qed.

  (* a set that holds the roots and is closed under succ holds everything reachable *)
  Lemma reach_closed : forall roots (S : N -> Prop),
      (forall x, In x roots -> S x) -> (forall x y, S x -> In y (succ x) -> S y) ->
      forall x, reach roots x -> S x.
  Proof. intros roots S Hr Hc x H. induction H; eauto. Qed.

  (* ---------------- counting what is not yet in the set ---------------- *)
  Variable U : list N.

  Definition cnt (used : list N) : nat := length (filter (fun u => negb (memN u used)) U).

  Lemma filter_len_le : forall (p q : N -> bool) (l : list N),
      (forall x, q x = true -> p x = true) -> length (filter q l) <= length (filter p l).
  Proof.
    intros p q l H. induction l as [|a l IH]; simpl; [lia|].
    destruct (q a) eqn:Eq.
    - rewrite (H a Eq). simpl. lia.
    - destruct (p a); simpl; lia.
  Qed.

  Lemma filter_len_lt : forall (p q : N -> bool) (l : list N) y,
      (forall x, q x = true -> p x = true) -> In y l -> p y = true -> q y = false ->
      S (length (filter q l)) <= length (filter p l).
  Proof.
    intros p q l y H. induction l as [|a l IH]; simpl; intros Hin Hp Hq; [contradiction|].
    destruct Hin as [-> | Hin].
    - rewrite Hp, Hq. simpl. pose proof (filter_len_le p q l H). lia.
    - specialize (IH Hin Hp Hq). destruct (q a) eqn:Eq.
      + rewrite (H a Eq). simpl. lia.
      + destruct (p a); simpl; lia.
  Qed.

  Lemma cnt_cons_le : forall y used, cnt (y :: used) <= cnt used.
  Proof.
    intros y used. unfold cnt. apply filter_len_le. intros x Hx.
    rewrite memN_cons in Hx. destruct (memN x used); [rewrite orb_true_r in Hx; discriminate | reflexivity].
  Qed.

  Lemma cnt_cons_lt : forall y used, In y U -> memN y used = false -> S (cnt (y :: used)) <= cnt used.
  Proof.
    intros y used Hin Hm. unfold cnt. apply filter_len_lt with (y := y); auto.
    - intros x Hx. rewrite memN_cons in Hx. destruct (memN x used); [rewrite orb_true_r in Hx; discriminate | reflexivity].
    - rewrite Hm. reflexivity.
    - rewrite memN_cons, N.eqb_refl. reflexivity.
  Qed.

  (* ---------------- push_new ---------------- *)
  Lemma push_new_used : forall l used stack u' s',
      push_new l used stack = (u', s') -> forall x, In x u' <-> In x used \/ In x l.
  Proof.
    induction l as [|y r IH]; simpl; intros used stack u' s' H x.
    - inversion H; subst. tauto.
    - destruct (memN y used) eqn:E.
      + rewrite (IH _ _ _ _ H x). apply memN_In in E. split; [tauto|]. intros [?|[->|?]]; auto.
      + rewrite (IH _ _ _ _ H x). simpl. split; [intros [[->|?]|?]; auto | intros [?|[->|?]]; auto].
  Qed.

  Lemma push_new_stack : forall l used stack u' s',
      push_new l used stack = (u', s') ->
      forall x, In x s' <-> In x stack \/ (In x l /\ ~ In x used).
  Proof.
    induction l as [|y r IH]; simpl; intros used stack u' s' H x.
    - inversion H; subst. tauto.
    - destruct (memN y used) eqn:E.
      + rewrite (IH _ _ _ _ H x). apply memN_In in E. split.
        * intros [?|[? ?]]; auto.
        * intros [?|[[->|?] Hn]]; auto. contradiction.
      + rewrite (IH _ _ _ _ H x). apply memN_false in E. simpl. split.
        * intros [[->|?]|[Hr Hn]]; auto. right. split; auto.
        * intros [?|[[->|Hr] Hn]]; auto.
          destruct (N.eq_dec x y) as [->|Hne]; auto.
          right. split; auto. intros [?|?]; [congruence | contradiction].
  Qed.

  Lemma push_new_measure : forall l used stack u' s',
      (forall y, In y l -> In y U) -> push_new l used stack = (u', s') ->
      2 * cnt u' + length s' <= 2 * cnt used + length stack.
  Proof.
    induction l as [|y r IH]; simpl; intros used stack u' s' HU H.
    - inversion H; subst. lia.
    - destruct (memN y used) eqn:E.
      + apply IH in H; auto.
      + apply IH in H; auto. simpl in H.
        pose proof (cnt_cons_lt y used (HU y (or_introl eq_refl)) E). lia.
  Qed.

  (* ---------------- mark on push ---------------- *)
  Theorem wl_push_total : forall fuel used stack popped,
      (forall x y, In y (succ x) -> In y U) ->
      2 * cnt used + length stack < fuel ->
      exists r, wl_push fuel succ used stack popped = Some r.
  Proof.
    induction fuel as [|k IH]; intros used stack popped HU Hm; [lia|].
    destruct stack as [|x rest]; simpl; [eexists; reflexivity|].
    destruct (push_new (succ x) used rest) as [u' s'] eqn:E.
    apply IH; auto.
    pose proof (push_new_measure _ _ _ _ _ (HU x) E). simpl in Hm. lia.
  Qed.

  Record inv_push (roots used stack popped : list N) : Prop := mkinvp {
    ip_roots : forall x, In x roots -> In x used;
    ip_reach : forall x, In x used -> reach roots x;
    ip_where : forall x, In x used -> In x stack \/ In x popped;
    ip_done : forall x, In x popped -> In x used /\ forall y, In y (succ x) -> In y used;
    ip_stack : forall x, In x stack -> In x used }.

  Lemma wl_push_inv : forall roots fuel used stack popped used' popped',
      wl_push fuel succ used stack popped = Some (used', popped') ->
      inv_push roots used stack popped -> inv_push roots used' [] popped'.
  Proof.
    intros roots. induction fuel as [|k IH]; intros used stack popped used' popped' H I.
    - destruct stack; simpl in H; [|discriminate]. inversion H; subst. exact I.
    - destruct stack as [|x rest]; simpl in H; [inversion H; subst; exact I|].
      destruct (push_new (succ x) used rest) as [u' s'] eqn:E.
      apply IH in H; auto. destruct I as [I1 I2 I3 I4 I5].
      pose proof (push_new_used _ _ _ _ _ E) as HU. pose proof (push_new_stack _ _ _ _ _ E) as HS.
      constructor.
      + intros y Hy. apply HU. left. auto.
      + intros y Hy. apply HU in Hy. destruct Hy as [Hy|Hy]; [auto|].
        eapply reach_step; [apply I2, I5; left; reflexivity | exact Hy].
      + intros y Hy. apply HU in Hy. destruct Hy as [Hy|Hy].
        * destruct (I3 y Hy) as [[->|Hr]|Hp].
          -- right. left. reflexivity.
          -- left. apply HS. left. exact Hr.
          -- right. right. exact Hp.
        * destruct (in_dec N.eq_dec y used) as [Hin|Hn].
          -- destruct (I3 y Hin) as [[->|Hr]|Hp].
             ++ right. left. reflexivity.
             ++ left. apply HS. left. exact Hr.
             ++ right. right. exact Hp.
          -- left. apply HS. right. split; assumption.
      + intros y [<-|Hy].
        * split.
          -- apply HU. left. apply I5. left. reflexivity.
          -- intros z Hz. apply HU. right. exact Hz.
        * destruct (I4 y Hy) as [Ha Hb]. split.
          -- apply HU. left. exact Ha.
          -- intros z Hz. apply HU. left. apply Hb. exact Hz.
      + intros y Hy. apply HS in Hy. destruct Hy as [Hy|[Hy _]].
        * apply HU. left. apply I5. right. exact Hy.
        * apply HU. right. exact Hy.
  Qed.

  (* the result of a run that starts with `used` = the roots and all of them on the stack *)
  Theorem wl_push_reach : forall roots stack fuel used' popped',
      (forall x, In x stack <-> In x roots) ->
      wl_push fuel succ roots stack [] = Some (used', popped') ->
      (forall x, In x used' <-> reach roots x) /\ (forall x, In x popped' <-> In x used').
  Proof.
    intros roots stack fuel used' popped' Hs H.
    assert (I : inv_push roots roots stack []).
    { constructor; auto.
      - intros x Hx. apply reach_root. exact Hx.
      - intros x Hx. left. apply Hs. exact Hx.
      - intros x [].
      - intros x Hx. apply Hs. exact Hx. }
    apply (wl_push_inv roots) in H; auto. destruct H as [I1 I2 I3 I4 I5]. split.
    - intros x. split; [apply I2|].
      apply (reach_closed roots (fun y => In y used')); auto.
      intros a b Ha Hb. destruct (I3 a Ha) as [[]|Hp]. destruct (I4 a Hp) as [_ Hc]. apply Hc. exact Hb.
    - intros x. split.
      + intros Hx. destruct (I4 x Hx) as [Ha _]. exact Ha.
      + intros Hx. destruct (I3 x Hx) as [[]|Hp]. exact Hp.
  Qed.

  (* ---------------- mark on pop ---------------- *)
  Definition weight (u : N) : nat := S (length (succ u)).
  Definition wsum (used : list N) : nat :=
    list_sum (map weight (filter (fun u => negb (memN u used)) U)).

  Lemma list_sum_cons_w : forall a l, list_sum (a :: l) = a + list_sum l.
  Proof. reflexivity. Qed.

  Lemma wsum_filter_le : forall (p q : N -> bool) (l : list N),
      (forall x, q x = true -> p x = true) ->
      list_sum (map weight (filter q l)) <= list_sum (map weight (filter p l)).
  Proof.
    intros p q l H. induction l as [|a l IH]; simpl; [lia|].
    destruct (q a) eqn:Eq.
    - rewrite (H a Eq). simpl. lia.
    - destruct (p a); simpl; lia.
  Qed.

  Lemma wsum_filter_lt : forall (p q : N -> bool) (l : list N) y,
      (forall x, q x = true -> p x = true) -> In y l -> p y = true -> q y = false ->
      weight y + list_sum (map weight (filter q l)) <= list_sum (map weight (filter p l)).
  Proof.
    intros p q l y H. induction l as [|a l IH]; intros Hin Hp Hq; [contradiction|].
    cbn [filter]. destruct Hin as [-> | Hin].
    - rewrite Hp, Hq. cbn [map]; rewrite ?list_sum_cons_w. pose proof (wsum_filter_le p q l H). lia.
    - specialize (IH Hin Hp Hq). destruct (q a) eqn:Eq.
      + rewrite (H a Eq). cbn [map]; rewrite ?list_sum_cons_w. lia.
      + destruct (p a); cbn [map]; rewrite ?list_sum_cons_w; lia.
  Qed.

  Lemma wsum_cons_lt : forall y used, In y U -> memN y used = false -> weight y + wsum (y :: used) <= wsum used.
  Proof.
    intros y used Hin Hm. unfold wsum. apply wsum_filter_lt; auto.
    - intros x Hx. rewrite memN_cons in Hx. destruct (memN x used); [rewrite orb_true_r in Hx; discriminate | reflexivity].
    - rewrite Hm. reflexivity.
    - rewrite memN_cons, N.eqb_refl. reflexivity.
  Qed.

  Theorem wl_pop_total : forall fuel used stack,
      (forall x, In x stack -> In x U) ->
      (forall x y, In y (succ x) -> In y U) ->
      length stack + wsum used < fuel ->
      exists r, wl_pop fuel succ used stack = Some r.
  Proof.
    induction fuel as [|k IH]; intros used stack HS HU Hm; [lia|].
    destruct stack as [|x rest]; simpl; [eexists; reflexivity|].
    destruct (memN x used) eqn:E.
    - apply IH; auto.
      + intros y Hy. apply HS. right. exact Hy.
      + simpl in Hm. lia.
    - apply IH; auto.
      + intros y Hy. apply in_app_or in Hy. destruct Hy as [Hy|Hy].
        * apply in_rev in Hy. eapply HU. exact Hy.
        * apply HS. right. exact Hy.
      + pose proof (wsum_cons_lt x used (HS x (or_introl eq_refl)) E) as Hw.
        rewrite app_length, rev_length. unfold weight in Hw. simpl in Hm. lia.
  Qed.

  Record inv_pop (roots used stack : list N) : Prop := mkinvq {
    iq_used : forall x, In x used -> reach roots x;
    iq_stack : forall x, In x stack -> reach roots x;
    iq_closed : forall x y, In x used -> In y (succ x) -> In y used \/ In y stack;
    iq_roots : forall x, In x roots -> In x used \/ In x stack }.

  Lemma wl_pop_inv : forall roots fuel used stack used',
      wl_pop fuel succ used stack = Some used' -> inv_pop roots used stack -> inv_pop roots used' [].
  Proof.
    intros roots. induction fuel as [|k IH]; intros used stack used' H I.
    - destruct stack; simpl in H; [|discriminate]. inversion H; subst. exact I.
    - destruct stack as [|x rest]; simpl in H; [inversion H; subst; exact I|].
      destruct I as [I1 I2 I3 I4]. destruct (memN x used) eqn:E.
      + apply IH in H; auto. apply memN_In in E. constructor; auto.
        * intros y Hy. apply I2. right. exact Hy.
        * intros a b Ha Hb. destruct (I3 a b Ha Hb) as [?|[<-|?]]; auto.
        * intros a Ha. destruct (I4 a Ha) as [?|[<-|?]]; auto.
      + apply IH in H; auto. constructor.
        * intros y [<-|Hy]; [apply I2; left; reflexivity | auto].
        * intros y Hy. apply in_app_or in Hy. destruct Hy as [Hy|Hy].
          -- apply in_rev in Hy. eapply reach_step; [apply I2; left; reflexivity | exact Hy].
          -- apply I2. right. exact Hy.
        * intros a b [<-|Ha] Hb.
          -- right. apply in_or_app. left. apply in_rev in Hb. exact Hb.
          -- destruct (I3 a b Ha Hb) as [?|[<-|?]].
             ++ left. right. assumption.
             ++ left. left. reflexivity.
             ++ right. apply in_or_app. right. assumption.
        * intros a Ha. destruct (I4 a Ha) as [?|[<-|?]].
          -- left. right. assumption.
          -- left. left. reflexivity.
          -- right. apply in_or_app. right. assumption.
  Qed.

  Theorem wl_pop_reach : forall stack fuel used',
      wl_pop fuel succ [] stack = Some used' -> forall x, In x used' <-> reach stack x.
  Proof.
    intros stack fuel used' H.
    assert (I : inv_pop stack [] stack).
    { constructor.
      - intros x [].
      - intros x Hx. apply reach_root. exact Hx.
      - intros x y [].
      - intros x Hx. right. exact Hx. }
    apply (wl_pop_inv stack) in H; auto. destruct H as [I1 I2 I3 I4].
    intros x. split; [apply I1|].
    apply (reach_closed stack (fun y => In y used')).
    - intros y Hy. destruct (I4 y Hy) as [?|[]]. assumption.
    - intros a b Ha Hb. destruct (I3 a b Ha Hb) as [?|[]]. assumption.
  Qed.
End Reach.

(* ---------------- the fuel computed by Elim.v suffices ---------------- *)
Lemma cnt_le_len : forall U used, cnt U used <= length U.
Proof.
  intros U used. unfold cnt. induction U as [|a U IH]; simpl; [lia|].
  destruct (negb (memN a used)); simpl; lia.
Qed.

Theorem push_fuel_enough : forall succ U used stack popped,
    (forall x y, In y (succ x) -> In y U) ->
    exists r, wl_push (push_fuel U stack) succ used stack popped = Some r.
Proof.
  intros succ U used stack popped HU. apply (wl_push_total succ U); auto.
  unfold push_fuel. pose proof (cnt_le_len U used). lia.
Qed.

Lemma filter_all_true : forall (A : Type) (l : list A), filter (fun _ => true) l = l.
Proof. induction l; simpl; congruence. Qed.

Lemma list_sum_weight : forall succ U,
    list_sum (map (weight succ) U) = length U + length (flat_map succ U).
Proof.
  intros succ U. induction U as [|a U IH]; simpl; [reflexivity|].
  rewrite app_length, IH. unfold weight. lia.
Qed.

Theorem pop_fuel_enough : forall succ U stack,
    (forall x, In x stack -> In x U) -> (forall x y, In y (succ x) -> In y U) ->
    exists r, wl_pop (pop_fuel succ U stack) succ [] stack = Some r.
Proof.
  intros succ U stack HS HU. apply (wl_pop_total succ U); auto.
  unfold pop_fuel, wsum. simpl. rewrite filter_all_true, list_sum_weight. lia.
Qed.
