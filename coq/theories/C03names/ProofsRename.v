(* C03names - a renaming of TYPES cannot change what a MIR program does: `sem` of the renamed program in a world w' is
   `sem` of the original program in the world that answers as w' does after renaming (`pull`), with the types in the
   trace renamed.  Generic over C01mir.Syntax; instantiated with the state of the deduplication pass. *)
From Coq Require Import ZArith NArith List Bool Lia.
Import ListNotations.
From SV Require Import Common.Int32 C01mir.Syntax C01mir.Sem C03names.Syntax C03names.Dedup C03names.Erase.

Section TyRename.
  Variable r : ty -> ty.

  Definition rt_expr (e : expr) : expr := match e with EVar x t => EVar x (r t) | _ => e end.
  Definition rt_prim (p : prim) : prim :=
    match p with PIdx t i => PIdx (r t) i | PIsPtr t => PIsPtr (r t) | PCast t => PCast (r t) end.
  Definition rt_callee (c : callee) : callee :=
    match c with CFn f ats rt => CFn f (map r ats) (r rt) | CVar x t => CVar x (r t) end.
  Definition rt_quad (q : quad) : quad := mkq (q_name q) (r (q_ty q)) (rt_expr (q_e1 q)) (rt_expr (q_e2 q)).
  Definition rt_bc (bc : option (name * ty)) : option (name * ty) :=
    match bc with Some (x, t) => Some (x, r t) | None => None end.

  Fixpoint rt_stmt (s : stmt) : stmt :=
    let fix go (ss : list stmt) : list stmt := match ss with [] => [] | s :: u => rt_stmt s :: go u end in
    match s with
    | SBin x op e1 e2 => SBin x op (rt_expr e1) (rt_expr e2)
    | SNot x e => SNot x (rt_expr e)
    | SPrim x p e => SPrim x (rt_prim p) (rt_expr e)
    | SCall c args rty ret => SCall (rt_callee c) (map rt_expr args) (r rty) ret
    | SIf c s1 s2 fas => SIf (rt_expr c) (go s1) (go s2) (map rt_quad fas)
    | SSIf c inv ss => SSIf (rt_expr c) inv (go ss)
    | SBreak e => SBreak (rt_expr e)
    | SWhile lvs ss bc => SWhile (map rt_quad lvs) (go ss) (rt_bc bc)
    | SDecl x t => SDecl x (r t)
    | SAssign x e => SAssign x (rt_expr e)
    | SStruct x t es => SStruct x (r t) (map rt_expr es)
    | SClosure x t f ft e => SClosure x (r t) f (r ft) (rt_expr e)
    end.
  Fixpoint rt_stmts (ss : list stmt) : list stmt :=
    match ss with [] => [] | s :: u => rt_stmt s :: rt_stmts u end.

  Definition rt_func (f : func) : func :=
    mkfunc (f_name f) (f_params f) (map r (f_atys f)) (r (f_rty f)) (rt_stmts (f_body f)) (rt_expr (f_ret f)).
  Definition rt_prog (P : program) : program := map rt_func P.

  Definition rt_evk (k : evk) : evk :=
    match k with KExt f => KExt f | KStruct t => KStruct (r t) | KClosure t f => KClosure (r t) f end.
  Definition rt_trace (tr : trace) : trace := map (fun e => (rt_evk (fst e), snd e)) tr.

  Definition rt_fail (o : fail) : fail :=
    match o with FTrap tr => FTrap (rt_trace tr) | FAbort tr => FAbort (rt_trace tr) | FStuck => FStuck | FOof => FOof end.
  Definition rt_res (x : res) : res :=
    match x with
    | RNext en tr => RNext en (rt_trace tr)
    | RBreak v en tr => RBreak v en (rt_trace tr)
    | RFail o => RFail (rt_fail o)
    end.
  Definition rt_cres (x : cres) : cres :=
    match x with CRet v tr => CRet v (rt_trace tr) | CFail o => CFail (rt_fail o) end.
  Definition rt_outcome (o : outcome) : outcome :=
    match o with
    | Done v tr => Done v (rt_trace tr)
    | Trap tr => Trap (rt_trace tr)
    | Abort tr => Abort (rt_trace tr)
    | Stuck => Stuck
    | OutOfFuel => OutOfFuel
    end.

  (* the world of the original program: it answers as w' answers once the types are renamed *)
  Definition pull (w' : world) : world :=
    mkworld (fun tr f vs => w_ext w' (rt_trace tr) f vs)
            (fun tr k vs => w_new w' (rt_trace tr) (rt_evk k) vs)
            (w_str w') (w_i31 w')
            (fun tr p v => w_prim w' (rt_trace tr) (rt_prim p) v)
            (fun tr v => w_clo w' (rt_trace tr) v).

  Variable w' : world.
  Let w := pull w'.

  Lemma eval_rt : forall en e, eval w' en (rt_expr e) = eval w en e.
  Proof. intros en []; reflexivity. Qed.

  Lemma map_eval_rt : forall en es, map (eval w' en) (map rt_expr es) = map (eval w en) es.
  Proof. intros en es. rewrite map_map. apply map_ext. intros e. apply eval_rt. Qed.

  Lemma bind_e1_rt : forall qs en, bind_e1 w' (map rt_quad qs) en = bind_e1 w qs en.
  Proof.
    intros qs en. unfold bind_e1. rewrite !map_map. simpl. f_equal. f_equal.
    apply map_ext. intros q. apply eval_rt.
  Qed.

  Lemma bind_e2_rt : forall qs en, bind_e2 w' (map rt_quad qs) en = bind_e2 w qs en.
  Proof.
    intros qs en. unfold bind_e2. rewrite !map_map. simpl. f_equal. f_equal.
    apply map_ext. intros q. apply eval_rt.
  Qed.

  Lemma bind_bc_rt : forall bc v en, bind_bc (rt_bc bc) v en = bind_bc bc v en.
  Proof. intros [[x t]|] v en; reflexivity. Qed.

  Section Exec.
    Variables c c' : callf_t.
    Variable lf : nat.
    Hypothesis Hc : forall f vs tr, c' f vs (rt_trace tr) = rt_cres (c f vs tr).

    Lemma loop_rt : forall (b b' : env -> trace -> res) (next next' : env -> env),
        (forall en tr, b' en (rt_trace tr) = rt_res (b en tr)) -> (forall en, next' en = next en) ->
        forall n en tr, loop b' next' n en (rt_trace tr) = rt_res (loop b next n en tr).
    Proof.
      intros b b' next next' Hb Hn. induction n as [|n IH]; intros en tr; simpl; [reflexivity|].
      rewrite Hb. destruct (b en tr) as [en1 tr1| |]; simpl; try reflexivity.
      rewrite Hn. apply IH.
    Qed.

    Lemma exec_rt_both :
      (forall s en tr, exec w' c' lf (rt_stmt s) en (rt_trace tr) = rt_res (exec w c lf s en tr)) /\
      (forall ss en tr, exec_list (exec w' c' lf) (rt_stmts ss) en (rt_trace tr) = rt_res (exec_list (exec w c lf) ss en tr)).
    Proof.
      apply stmt_stmts_ind2.
      - intros x op e1 e2 en tr. simpl. rewrite !eval_rt.
        destruct (rt_binop op (eval w en e1) (eval w en e2)); reflexivity.
      - intros x e en tr. simpl. rewrite eval_rt. reflexivity.
      - intros x p e en tr. simpl. rewrite eval_rt. reflexivity.
      - intros cl args rty ret en tr. destruct cl as [f ats frt | x t]; simpl; rewrite map_eval_rt.
        + rewrite Hc. destruct (c f (map (eval w en) args) tr); reflexivity.
        + destruct (w_clo w' (rt_trace tr) (wrap32 (lookup x en))) as [[f cx]|]; [|reflexivity].
          rewrite Hc. destruct (c f (cx :: map (eval w en) args) tr); reflexivity.
      - intros cnd s1 s2 fas IH1 IH2 en tr. simpl in *. rewrite eval_rt.
        destruct (cond (eval w en cnd)) as [[|]|]; [| |reflexivity].
        + rewrite IH1. destruct (exec_list (exec w c lf) s1 en tr); simpl; try reflexivity. rewrite bind_e1_rt. reflexivity.
        + rewrite IH2. destruct (exec_list (exec w c lf) s2 en tr); simpl; try reflexivity. rewrite bind_e2_rt. reflexivity.
      - intros cnd inv ss IH en tr. simpl in *. rewrite eval_rt.
        destruct (cond (eval w en cnd)) as [b|]; [|reflexivity].
        destruct (xorb b inv); [apply IH | reflexivity].
      - intros e en tr. simpl. rewrite eval_rt. reflexivity.
      - intros lvs ss bc IH en tr. simpl in *. rewrite bind_e1_rt.
        rewrite (loop_rt (exec_list (exec w c lf) ss) (exec_list (exec w' c' lf) (rt_stmts ss)) (bind_e2 w lvs)
                         (bind_e2 w' (map rt_quad lvs)) IH (bind_e2_rt lvs)).
        destruct (loop (exec_list (exec w c lf) ss) (bind_e2 w lvs) lf (bind_e1 w lvs en) tr); simpl; try reflexivity.
        rewrite bind_bc_rt. reflexivity.
      - intros x t en tr. reflexivity.
      - intros x e en tr. simpl. rewrite eval_rt. reflexivity.
      - intros x t es en tr. simpl. rewrite map_eval_rt. reflexivity.
      - intros x t f ft e en tr. simpl. rewrite eval_rt. reflexivity.
      - intros en tr. reflexivity.
      - intros s u IHs IHu en tr. simpl in *. rewrite IHs.
        destruct (exec w c lf s en tr); simpl; try reflexivity. apply IHu.
    Qed.

    Lemma run_body_rt : forall fn vs tr,
        run_body w' c' lf (rt_func fn) vs (rt_trace tr) = rt_cres (run_body w c lf fn vs tr).
    Proof.
      intros fn vs tr. unfold run_body, exec_block. simpl.
      destruct (negb (length vs =? length (f_params fn))%nat); [reflexivity|].
      change (init_env (rt_func fn) vs) with (init_env fn vs).
      rewrite (proj2 exec_rt_both). destruct (exec_list (exec w c lf) (f_body fn) (init_env fn vs) tr); simpl; try reflexivity.
      rewrite eval_rt. reflexivity.
    Qed.
  End Exec.

  Lemma find_func_rt : forall P f, find_func (rt_prog P) f = option_map rt_func (find_func P f).
  Proof.
    induction P as [|a P IH]; simpl; intros f; [reflexivity|].
    destruct (N.eqb (f_name a) f); [reflexivity | apply IH].
  Qed.

  Lemma call_ext_rt : forall f vs tr, call_ext w' f vs (rt_trace tr) = rt_cres (call_ext w f vs tr).
  Proof. intros f vs tr. unfold call_ext. simpl. destruct (w_ext w' (rt_trace tr) f vs); reflexivity. Qed.

  Theorem call_rt : forall P n f vs tr, call w' (rt_prog P) n f vs (rt_trace tr) = rt_cres (call w P n f vs tr).
  Proof.
    intros P. induction n as [|n IH]; intros f vs tr; [reflexivity|].
    change (call w' (rt_prog P) (S n) f vs (rt_trace tr)) with
      (match find_func (rt_prog P) f with None => call_ext w' f vs (rt_trace tr)
                                     | Some fn => run_body w' (call w' (rt_prog P) n) (S n) fn vs (rt_trace tr) end).
    change (call w P (S n) f vs tr) with
      (match find_func P f with None => call_ext w f vs tr | Some fn => run_body w (call w P n) (S n) fn vs tr end).
    rewrite find_func_rt. destruct (find_func P f) as [fn|]; simpl.
    - apply run_body_rt. exact IH.
    - apply call_ext_rt.
  Qed.

  Theorem sem_rt : forall P f args fuel, sem w' (rt_prog P) f args fuel = rt_outcome (sem w P f args fuel).
  Proof.
    intros P f args fuel. unfold sem. change (@nil event) with (rt_trace []) at 1. rewrite call_rt.
    destruct (call w P fuel f args []) as [v tr|[tr|tr| |]]; reflexivity.
  Qed.
End TyRename.

(* ---------------- the deduplication state as a renaming of encoded types ---------------- *)
Open Scope N_scope.

Definition enc_r (st : state) (t : ty) : ty := if t <? 2 then t else rn st (t - 2) + 2.

Lemma enc_id_rn : forall st n, enc_id (rn st n) = enc_r st (enc_id n).
Proof.
  intros st n. unfold enc_r, enc_id. assert (H : (n + 2 <? 2) = false) by (apply N.ltb_ge; lia).
  rewrite H. f_equal. f_equal. lia.
Qed.

Lemma enc_ty_rn : forall st t, enc_ty (rn_ty st t) = enc_r st (enc_ty t).
Proof. intros st [| |n]; simpl; [reflexivity | reflexivity | apply enc_id_rn]. Qed.

Lemma er_expr_rn : forall st e, er_expr (rn_expr st e) = rt_expr (enc_r st) (er_expr e).
Proof. intros st []; simpl; try reflexivity. rewrite enc_ty_rn. reflexivity. Qed.

Lemma er_exprs_rn : forall st es, map er_expr (map (rn_expr st) es) = map (rt_expr (enc_r st)) (map er_expr es).
Proof. intros st es. rewrite !map_map. apply map_ext. intros e. apply er_expr_rn. Qed.

Lemma er_quads_rn : forall st qs, map er_quad (map (rn_quad st) qs) = map (rt_quad (enc_r st)) (map er_quad qs).
Proof.
  intros st qs. rewrite !map_map. apply map_ext. intros q. unfold er_quad, rt_quad, rn_quad. simpl.
  rewrite enc_ty_rn, !er_expr_rn. reflexivity.
Qed.

Lemma map_enc_ty_rn : forall st ts, map enc_ty (map (rn_ty st) ts) = map (enc_r st) (map enc_ty ts).
Proof. intros st ts. rewrite !map_map. apply map_ext. intros t. apply enc_ty_rn. Qed.

Lemma er_stmt_rn : forall st,
  (forall s, er_stmt (rn_stmt st s) = rt_stmt (enc_r st) (er_stmt s)) /\
  (forall ss, er_stmts (map (rn_stmt st) ss) = rt_stmts (enc_r st) (er_stmts ss)).
Proof.
  intros st. apply mstmt_mstmts_ind2.
  - intros x pt e. simpl. rewrite er_expr_rn, enc_id_rn. reflexivity.
  - intros x e. simpl. rewrite er_expr_rn. reflexivity.
  - intros x op e1 e2. simpl. rewrite !er_expr_rn. reflexivity.
  - intros x t e i. simpl. rewrite er_expr_rn, enc_ty_rn. reflexivity.
  - intros c args rty ret. simpl. rewrite er_exprs_rn, enc_ty_rn. f_equal.
    destruct c as [f ft | y t]; simpl; [rewrite map_enc_ty_rn, enc_ty_rn | rewrite enc_ty_rn]; reflexivity.
  - intros c s1 s2 fas IH1 IH2.
    change (er_stmt (rn_stmt st (MIfElse c s1 s2 fas))) with
      (SIf (er_expr (rn_expr st c)) (er_stmts (map (rn_stmt st) s1)) (er_stmts (map (rn_stmt st) s2)) (map er_quad (map (rn_quad st) fas))).
    rewrite IH1, IH2, er_expr_rn, er_quads_rn. reflexivity.
  - intros c inv ss IH.
    change (er_stmt (rn_stmt st (MSingleIf c inv ss))) with (SSIf (er_expr (rn_expr st c)) inv (er_stmts (map (rn_stmt st) ss))).
    rewrite IH, er_expr_rn. reflexivity.
  - intros e. simpl. rewrite er_expr_rn. reflexivity.
  - intros lvs ss bc IH.
    change (er_stmt (rn_stmt st (MWhile lvs ss bc))) with
      (SWhile (map er_quad (map (rn_quad st) lvs)) (er_stmts (map (rn_stmt st) ss)) (er_bc (rn_bc st bc))).
    rewrite IH, er_quads_rn. simpl. f_equal. destruct bc as [[x t]|]; simpl; [rewrite enc_ty_rn|]; reflexivity.
  - intros x t e. simpl. rewrite er_expr_rn, enc_ty_rn. reflexivity.
  - intros x t. simpl. rewrite enc_ty_rn. reflexivity.
  - intros x e. simpl. rewrite er_expr_rn. reflexivity.
  - intros x tn es. simpl. rewrite er_exprs_rn, enc_id_rn. reflexivity.
  - intros x ctn f ft e. simpl. rewrite er_expr_rn, enc_id_rn. reflexivity.
  - reflexivity.
  - intros s u IHs IHu. simpl. rewrite IHs, IHu. reflexivity.
Qed.

Lemma er_func_rn : forall st f, er_func (rn_func st f) = rt_func (enc_r st) (er_func f).
Proof.
  intros st f. unfold er_func, rt_func, rn_func, rn_stmts. simpl.
  rewrite map_enc_ty_rn, enc_ty_rn, (proj2 (er_stmt_rn st)), er_expr_rn. reflexivity.
Qed.

Theorem dedup_sem : forall derive P Q w', dedup derive P = Some Q ->
    forall f args fuel,
      sem w' (erase Q) f args fuel
      = rt_outcome (enc_r (dedup_state derive P))
                   (sem (pull (enc_r (dedup_state derive P)) w') (erase P) f args fuel).
Proof.
  intros derive P Q w' H f args fuel. rewrite <- sem_rt. f_equal.
  unfold dedup in H. destruct (panics P); [discriminate|].
  unfold dedup_state. destruct (dedup_maps P) as [[cm tm] st2]. inversion H; subst.
  unfold erase, rt_prog. simpl. rewrite !map_map. apply map_ext. intros a. apply er_func_rn.
Qed.
