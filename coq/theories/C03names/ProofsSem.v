(* C03names - (c) deleting functions that nothing live refers to cannot change `sem` (C01mir.Sem): same outcome at the
   same fuel, for every world whose closure values come from the run's own ClosureInit statements. *)
From Coq Require Import ZArith NArith List Bool Lia.
Import ListNotations.
From SV Require Import Common.Int32 C01mir.Syntax C01mir.Sem C03names.Syntax C03names.Elim C03names.Spec C03names.Erase
  C03names.ProofsReach C03names.ProofsBase C03names.ProofsElimLir C03names.ProofsElimMir.

(* ---------------- generic: filtering a C01mir program by a set of names closed under references ---------------- *)
Lemma find_func_filter : forall (keep : N -> bool) Q x,
    find_func (filter (fun f => keep (f_name f)) Q) x = if keep x then find_func Q x else None.
Proof.
  intros keep Q x. induction Q as [|a Q IH]; simpl.
  - destruct (keep x); reflexivity.
  - destruct (keep (f_name a)) eqn:Ka; simpl.
    + destruct (N.eqb (f_name a) x) eqn:E.
      * apply N.eqb_eq in E. subst. rewrite Ka. reflexivity.
      * exact IH.
    + destruct (N.eqb (f_name a) x) eqn:E.
      * apply N.eqb_eq in E. subst. rewrite Ka in *. exact IH.
      * exact IH.
Qed.

Section Filter.
  Variable w : world.
  Variable P : program.
  Variable keep : N -> bool.
  Hypothesis Hw : honest w.

  Definition Pk : program := filter (fun f => keep (f_name f)) P.

  Definition okf (g : N) : Prop := keep g = true \/ find_func P g = None.
  Definition tr_ok (tr : trace) : Prop := forall t f vs, In (KClosure t f, vs) tr -> okf f.
  Definition res_ok (r : res) : Prop :=
    match r with RNext _ tr | RBreak _ _ tr => tr_ok tr | RFail _ => True end.
  Definition cres_ok (r : cres) : Prop := match r with CRet _ tr => tr_ok tr | CFail _ => True end.

  Hypothesis Hclosed : forall x fn, find_func P x = Some fn -> keep x = true ->
                                    forall g, In g (fn_refs_l (f_body fn)) -> okf g.

  Lemma find_func_name : forall Q x fn, find_func Q x = Some fn -> f_name fn = x.
  Proof.
    induction Q as [|a Q IH]; simpl; intros x fn H; [discriminate|].
    destruct (N.eqb (f_name a) x) eqn:E; [inversion H; subst; apply N.eqb_eq; exact E | apply IH; exact H].
  Qed.

  Lemma find_func_Pk : forall x, find_func Pk x = if keep x then find_func P x else None.
  Proof. intros x. apply find_func_filter. Qed.

  Lemma tr_ok_cons_other : forall k vs tr, (forall t f, k <> KClosure t f) -> tr_ok tr -> tr_ok ((k, vs) :: tr).
  Proof.
    intros k vs tr Hk H t f vs' [Heq|Hin]; [inversion Heq; subst; exfalso; eapply Hk; reflexivity | eapply H; exact Hin].
  Qed.

  Lemma tr_ok_cons_clo : forall t f vs tr, okf f -> tr_ok tr -> tr_ok ((KClosure t f, vs) :: tr).
  Proof.
    intros t f vs tr Hf H t' f' vs' [Heq|Hin]; [inversion Heq; subst; exact Hf | eapply H; exact Hin].
  Qed.

  Section Exec.
    Variables c1 c2 : callf_t.
    Variable lf : nat.
    Hypothesis Hc : forall g vs tr, okf g -> tr_ok tr -> c1 g vs tr = c2 g vs tr /\ cres_ok (c2 g vs tr).

    Lemma loop_agree : forall (b1 b2 : env -> trace -> res) next,
        (forall en tr, tr_ok tr -> b1 en tr = b2 en tr /\ res_ok (b2 en tr)) ->
        forall n en tr, tr_ok tr -> loop b1 next n en tr = loop b2 next n en tr /\ res_ok (loop b2 next n en tr).
    Proof.
      intros b1 b2 next Hb. induction n as [|n IH]; intros en tr Ht; simpl.
      - split; [reflexivity | exact I].
      - destruct (Hb en tr Ht) as [E R]. rewrite E. destruct (b2 en tr) as [en' tr'| |]; simpl in R.
        + apply IH. exact R.
        + split; [reflexivity | exact R].
        + split; [reflexivity | exact I].
    Qed.

    Lemma exec_agree_both :
      (forall s, (forall g, In g (fn_refs s) -> okf g) -> forall en tr, tr_ok tr ->
                 exec w c1 lf s en tr = exec w c2 lf s en tr /\ res_ok (exec w c2 lf s en tr)) /\
      (forall ss, (forall g, In g (fn_refs_l ss) -> okf g) -> forall en tr, tr_ok tr ->
                  exec_list (exec w c1 lf) ss en tr = exec_list (exec w c2 lf) ss en tr /\
                  res_ok (exec_list (exec w c2 lf) ss en tr)).
    Proof.
      apply stmt_stmts_ind2.
      - (* SBin *) intros x op e1 e2 _ en tr Ht. simpl. split; [reflexivity|].
        destruct (rt_binop op (eval w en e1) (eval w en e2)); simpl; auto.
      - intros x e _ en tr Ht. simpl. auto.
      - intros x p e _ en tr Ht. simpl. auto.
      - (* SCall *) intros cl args rty ret Hr en tr Ht. simpl. destruct cl as [f atys frty | x t].
        + destruct (Hc f (map (eval w en) args) tr) as [E R]; [apply Hr; simpl; auto | exact Ht |].
          rewrite E. split; [reflexivity|]. destruct (c2 f (map (eval w en) args) tr); simpl in *; auto.
        + destruct (w_clo w tr (wrap32 (lookup x en))) as [[f cx]|] eqn:Ec; [|split; [reflexivity | exact I]].
          destruct (Hw _ _ _ _ Ec) as [t0 [vs0 Hin]].
          destruct (Hc f (cx :: map (eval w en) args) tr) as [E R]; [eapply Ht; exact Hin | exact Ht |].
          rewrite E. split; [reflexivity|]. destruct (c2 f (cx :: map (eval w en) args) tr); simpl in *; auto.
      - (* SIf *) intros cnd s1 s2 fas IH1 IH2 Hr en tr Ht. simpl in *.
        destruct (cond (eval w en cnd)) as [[|]|]; [| |split; [reflexivity | exact I]].
        + destruct (IH1 (fun g Hg => Hr g (in_or_app _ _ _ (or_introl Hg))) en tr Ht) as [E R]. rewrite E.
          split; [reflexivity|]. destruct (exec_list (exec w c2 lf) s1 en tr); simpl in *; auto.
        + destruct (IH2 (fun g Hg => Hr g (in_or_app _ _ _ (or_intror Hg))) en tr Ht) as [E R]. rewrite E.
          split; [reflexivity|]. destruct (exec_list (exec w c2 lf) s2 en tr); simpl in *; auto.
      - (* SSIf *) intros cnd inv ss IH Hr en tr Ht. simpl in *.
        destruct (cond (eval w en cnd)) as [b|]; [|split; [reflexivity | exact I]].
        destruct (xorb b inv); [apply IH; auto | split; [reflexivity | exact Ht]].
      - intros e _ en tr Ht. simpl. auto.
      - (* SWhile *) intros lvs ss bc IH Hr en tr Ht. simpl in *.
        destruct (loop_agree (exec_list (exec w c1 lf) ss) (exec_list (exec w c2 lf) ss) (bind_e2 w lvs)
                             (fun en0 tr0 H0 => IH Hr en0 tr0 H0) lf (bind_e1 w lvs en) tr Ht) as [E R].
        rewrite E. split; [reflexivity|].
        destruct (loop (exec_list (exec w c2 lf) ss) (bind_e2 w lvs) lf (bind_e1 w lvs en) tr); simpl in *; auto.
      - intros x t _ en tr Ht. simpl. auto.
      - intros x e _ en tr Ht. simpl. auto.
      - (* SStruct *) intros x t es _ en tr Ht. simpl. split; [reflexivity|].
        apply tr_ok_cons_other; [intros; discriminate | exact Ht].
      - (* SClosure *) intros x t f ft e Hr en tr Ht. simpl. split; [reflexivity|].
        apply tr_ok_cons_clo; [apply Hr; simpl; auto | exact Ht].
      - intros _ en tr Ht. simpl. auto.
      - (* cons *) intros s r IHs IHr Hr en tr Ht. simpl in *.
        destruct (IHs (fun g Hg => Hr g (in_or_app _ _ _ (or_introl Hg))) en tr Ht) as [E R]. rewrite E.
        destruct (exec w c2 lf s en tr) as [en' tr'| |]; simpl in R.
        + apply IHr; [intros g Hg; apply Hr; apply in_or_app; right; exact Hg | exact R].
        + split; [reflexivity | exact R].
        + split; [reflexivity | exact I].
    Qed.

    Lemma run_body_agree : forall fn vs tr,
        (forall g, In g (fn_refs_l (f_body fn)) -> okf g) -> tr_ok tr ->
        run_body w c1 lf fn vs tr = run_body w c2 lf fn vs tr /\ cres_ok (run_body w c2 lf fn vs tr).
    Proof.
      intros fn vs tr Hr Ht. unfold run_body, exec_block.
      destruct (negb (length vs =? length (f_params fn))%nat); [split; [reflexivity | exact I]|].
      destruct (proj2 exec_agree_both (f_body fn) Hr (init_env fn vs) tr Ht) as [E R]. rewrite E.
      split; [reflexivity|]. destruct (exec_list (exec w c2 lf) (f_body fn) (init_env fn vs) tr); simpl in *; auto.
    Qed.
  End Exec.

  Lemma call_ext_ok : forall f vs tr, tr_ok tr -> cres_ok (call_ext w f vs tr).
  Proof.
    intros f vs tr Ht. unfold call_ext. destruct (w_ext w tr f vs); simpl; [|exact I].
    apply tr_ok_cons_other; [intros; discriminate | exact Ht].
  Qed.

  Theorem call_filter : forall n g vs tr, okf g -> tr_ok tr ->
      call w Pk n g vs tr = call w P n g vs tr /\ cres_ok (call w P n g vs tr).
  Proof.
    induction n as [|n IH]; intros g vs tr Hg Ht.
    - simpl. split; [reflexivity | exact I].
    - change (call w Pk (S n) g vs tr) with
        (match find_func Pk g with None => call_ext w g vs tr | Some fn => run_body w (call w Pk n) (S n) fn vs tr end).
      change (call w P (S n) g vs tr) with
        (match find_func P g with None => call_ext w g vs tr | Some fn => run_body w (call w P n) (S n) fn vs tr end).
      rewrite find_func_Pk. destruct Hg as [Hk|Hn].
      + rewrite Hk. destruct (find_func P g) as [fn|] eqn:Ef.
        * apply run_body_agree; [exact IH | eapply Hclosed; eauto | exact Ht].
        * split; [reflexivity | apply call_ext_ok; exact Ht].
      + rewrite Hn. destruct (keep g); split; try reflexivity; apply call_ext_ok; exact Ht.
  Qed.

  Theorem sem_filter : forall g args fuel, okf g -> sem w Pk g args fuel = sem w P g args fuel.
  Proof.
    intros g args fuel Hg. unfold sem. destruct (call_filter fuel g args [] Hg) as [E _].
    - intros t f vs [].
    - rewrite E. reflexivity.
  Qed.
End Filter.

(* ---------------- the MIR elimination ---------------- *)
Lemma fn_refs_er :
  (forall s, fn_refs (er_stmt s) = m_stmt_fns s) /\ (forall ss, fn_refs_l (er_stmts ss) = m_stmts_fns ss).
Proof.
  apply mstmt_mstmts_ind2; try (intros; reflexivity).
  - intros c args rty ret. destruct c; reflexivity.
  - intros c s1 s2 fas IH1 IH2. rewrite m_stmt_fns_if, <- IH1, <- IH2. reflexivity.
  - intros c inv ss IH. rewrite m_stmt_fns_sif, <- IH. reflexivity.
  - intros lvs ss bc IH. rewrite m_stmt_fns_while, <- IH. reflexivity.
  - intros s r IHs IHr. simpl. rewrite IHs, IHr. reflexivity.
Qed.

Lemma map_filter_comm : forall A B (f : A -> B) (p : A -> bool) (q : B -> bool) l,
    (forall a, q (f a) = p a) -> map f (filter p l) = filter q (map f l).
Proof.
  intros A B f p q l H. induction l as [|a l IH]; simpl; [reflexivity|].
  rewrite H. destruct (p a); simpl; rewrite IH; reflexivity.
Qed.

Lemma find_func_erase : forall fs x fn, find_func (map er_func fs) x = Some fn ->
    exists f, In f fs /\ fn = er_func f /\ fn_id (mfn_name f) = x.
Proof.
  induction fs as [|a fs IH]; simpl; intros x fn H; [discriminate|].
  destruct (N.eqb (fn_id (mfn_name a)) x) eqn:E.
  - inversion H; subst. apply N.eqb_eq in E. exists a. auto.
  - destruct (IH x fn H) as [f [H1 [H2 H3]]]. exists f. auto.
Qed.

Theorem mir_elim_call : forall P w, m_wf P -> honest w ->
    forall g args fuel, m_fn_live P g -> sem w (erase (mir_elim P)) g args fuel = sem w (erase P) g args fuel.
Proof.
  intros P w Hwf Hw g args fuel Hl.
  unfold mir_elim, m_kept. destruct (m_analyze P) as [[strs fns] tys] eqn:Hk. unfold erase. simpl.
  rewrite (map_filter_comm _ _ er_func _ (fun f => memN (f_name f) fns)); [|intros a; reflexivity].
  apply (sem_filter w (map er_func (ms_funcs P)) (fun x => memN x fns) Hw).
  - intros x fn Hf Hkx y Hy. left. apply memN_In. apply (m_kept_fns P Hwf strs fns tys Hk).
    apply find_func_erase in Hf. destruct Hf as [f [Hin [-> Hid]]]. simpl in Hy.
    rewrite (proj2 fn_refs_er) in Hy. apply (proj2 m_stmt_fns_sup) in Hy. apply in_map_iff in Hy.
    destruct Hy as [g' [<- Hg']]. apply (mfl_ref P f g' Hin); [|exact Hg'].
    rewrite Hid. apply (m_kept_fns P Hwf strs fns tys Hk). apply memN_In. exact Hkx.
  - left. apply memN_In. apply (m_kept_fns P Hwf strs fns tys Hk). exact Hl.
Qed.

Corollary mir_elim_sem : forall P w, m_wf P -> honest w ->
    forall f args fuel, In f (ms_mains P) ->
      sem w (erase (mir_elim P)) (fn_id f) args fuel = sem w (erase P) (fn_id f) args fuel.
Proof. intros P w Hwf Hw f args fuel Hf. apply mir_elim_call; auto. apply mfl_main. exact Hf. Qed.
