(* C03names - the statements of Props.v whose proofs combine several lemmas (Props.v itself only has `exact`). *)
From Coq Require Import ZArith NArith List Bool Lia.
Import ListNotations.
From SV Require Import Common.Int32 C01mir.Syntax C01mir.Sem.
From SV Require Import C03names.Syntax C03names.Elim C03names.Dedup C03names.Spec C03names.Erase C03names.Corr.
From SV Require Import C03names.ProofsReach C03names.ProofsBase C03names.ProofsElimLir C03names.ProofsElimMir
  C03names.ProofsSem C03names.ProofsDedup C03names.ProofsRename C03names.ProofsEqb C03names.ProofsWitness.

Lemma top_lir_entry_points_kept : forall P, l_wf P ->
    ls_mains (lir_elim VNow P) = ls_mains P /\
    forall f, In f (ls_mains P) -> In (fn_id f) (l_fn_names_def P) -> In (fn_id f) (l_fn_names_def (lir_elim VNow P)).
Proof.
  intros P Hwf. destruct (lir_elim_exact P Hwf) as [_ [_ [_ Em]]]. split; [exact Em|].
  intros f Hf Hd. apply (proj2 (proj2 (lir_elim_closed P Hwf))); [|exact Hd].
  apply in_or_app. right. apply in_or_app. right. rewrite Em. exact Hf.
Qed.

Lemma top_lir_seeded_c03_6_refuted :
  exists P, l_wf P /\ LirClosed P /\ LirClosed (lir_elim VNow P) /\ ~ LirClosed (lir_elim VSeedC036 P).
Proof.
  exists wit_c036. split; [exact wit_c036_wf|]. destruct wit_c036_now as [H1 H2].
  split; [apply lir_no_dangling_correct; exact H1|]. split; [apply lir_no_dangling_correct; exact H2|].
  intros H. apply lir_no_dangling_correct in H. rewrite wit_c036_seeded in H. discriminate.
Qed.

Lemma top_lir_pre_b69b06c_refuted :
  exists P, l_wf P /\ LirClosed P /\ LirClosed (lir_elim VNow P) /\ ~ LirClosed (lir_elim VPreB69 P).
Proof.
  exists wit_b69. split; [exact wit_b69_wf|]. destruct wit_b69_now as [H1 H2].
  split; [apply lir_no_dangling_correct; exact H1|]. split; [apply lir_no_dangling_correct; exact H2|].
  intros H. apply lir_no_dangling_correct in H. rewrite wit_b69_pre in H. discriminate.
Qed.

Lemma top_mir_elim_closed_full_refuted :
  (exists P, m_wf P /\ mir_no_dangling P = true /\ mir_no_dangling (mir_elim P) = false /\
             exists x t, mfn_body (hd (mkmfunc fmain [] (mkmfty [] MInt32) [] (MEInt 0)) (ms_funcs P)) = [MLateInitDeclaration x t]) /\
  (exists P, m_wf P /\ mir_no_dangling P = true /\ mir_no_dangling (mir_elim P) = false /\
             exists c a r o, mfn_body (hd (mkmfunc fmain [] (mkmfty [] MInt32) [] (MEInt 0)) (ms_funcs P)) = [MCall c a r o]) /\
  (exists P, m_wf P /\ mir_no_dangling P = true /\ mir_no_dangling (mir_elim P) = false /\ ms_subs P <> []).
Proof.
  destruct wit_mir_wf as [W1 [W2 W3]]. destruct wit_mir_dangling as [[A1 A2] [[B1 B2] [C1 C2]]].
  split; [|split].
  - exists wit_mir_decl. split; [exact W1|]. split; [exact A1|]. split; [exact A2|]. do 2 eexists. reflexivity.
  - exists wit_mir_fty. split; [exact W2|]. split; [exact B1|]. split; [exact B2|]. do 4 eexists. reflexivity.
  - exists wit_mir_parent. split; [exact W3|]. split; [exact C1|]. split; [exact C2|]. discriminate.
Qed.

Lemma top_mir_elim_sem_needs_honest_world_refuted :
  exists P w f args fuel, m_wf P /\ In f (ms_mains P) /\
    sem w (erase (mir_elim P)) (fn_id f) args fuel <> sem w (erase P) (fn_id f) args fuel.
Proof.
  exists sem_prog, liar, fmain, [], 5%nat. split; [|split].
  - split; simpl; repeat constructor; simpl; intuition discriminate.
  - left. reflexivity.
  - destruct sem_needs_honest as [H1 H2]. simpl fn_id. rewrite H1, H2. discriminate.
Qed.

Lemma top_dedup_origin : forall derive P Q, d_wf P -> dedup derive P = Some Q ->
    (forall d', In d' (ms_typedefs Q) ->
       exists d, In d (ms_typedefs P) /\ rn (dstate P) (td_name d) = td_name d /\
                 d' = mkmtd (td_name d) (rn_mappings (dstate P) (td_map d))) /\
    (forall d', In d' (ms_closures Q) ->
       exists d, In d (ms_closures P) /\ rn (dstate P) (cd_name d) = cd_name d /\
                 d' = mkmcd (cd_name d) (rn_fty (dstate P) (cd_fty d))).
Proof.
  intros derive P Q Hwf HQ. split; [exact (dedup_typedef_origin derive P Q Hwf HQ) | exact (dedup_closure_origin derive P Q Hwf HQ)].
Qed.

Lemma top_dedup_funcs_mentions : forall derive P Q, dedup derive P = Some Q ->
    ms_funcs Q = map (rn_func (dedup_state derive P)) (ms_funcs P) /\
    flat_map mm_func_tys (ms_funcs Q) = map (rn (dedup_state derive P)) (flat_map mm_func_tys (ms_funcs P)).
Proof.
  intros derive P Q H. split; [exact (proj1 (proj2 (proj2 (proj2 (dedup_output _ _ _ H))))) | exact (dedup_funcs_mentions _ _ _ H)].
Qed.

Lemma top_dedup_not_a_fixpoint_refuted :
  exists derive P Q, d_wf P /\ dedup derive P = Some Q /\
    exists d1 d2, In d1 (ms_typedefs Q) /\ In d2 (ms_typedefs Q) /\ td_name d1 <> td_name d2 /\ td_map d1 = td_map d2.
Proof.
  destruct wit_dedup_full as [Q [HQ Ht]].
  exists (fun _ _ => 0%N), wit_dedup, Q. split; [unfold d_wf; simpl; repeat constructor; simpl; intuition discriminate|].
  split; [exact HQ|]. rewrite Ht.
  exists (mkmtd 10 (MStruct [MId 12])), (mkmtd 11 (MStruct [MId 12])). simpl. repeat split; auto. discriminate.
Qed.

Lemma top_dedup_panics_iff : forall derive P, dedup derive P = None <-> panics P = true.
Proof.
  intros derive P. unfold dedup. destruct (panics P); [split; reflexivity|].
  destruct (dedup_maps P) as [[c t] s]. split; discriminate.
Qed.

Lemma top_eqb_sound :
  (forall a b, mfunc_eqb a b = true -> a = b) /\ (forall a b, mtypedef_eqb a b = true -> a = b) /\
  (forall a b, mclosuredef_eqb a b = true -> a = b).
Proof. exact (conj mfunc_eqb_sound (conj mtypedef_eqb_sound mclosuredef_eqb_sound)). Qed.

Lemma nodupN_sound : forall l, nodupN l = true -> NoDup l.
Proof.
  induction l as [|x r IH]; simpl; intros H; [constructor|].
  apply andb_true_iff in H. destruct H as [H1 H2]. constructor; [|apply IH; exact H2].
  apply negb_true_iff in H1. apply memN_false in H1. exact H1.
Qed.

Lemma top_wf_decidable :
  (forall P, m_wf_b P = true -> m_wf P /\ d_wf P) /\ (forall P, l_wf_b P = true -> l_wf P).
Proof.
  split; intros P H; unfold m_wf_b, l_wf_b in H; apply andb_true_iff in H; destruct H as [H1 H2];
    apply nodupN_sound in H1; apply nodupN_sound in H2.
  - split; [split; assumption | exact H2].
  - split; assumption.
Qed.

Lemma top_subs_undefined : forall P, m_subs_undefined P = true ->
    forall s, In s (map fst (ms_subs P)) -> ~ In s (m_ty_names_def P).
Proof.
  intros P H s Hs. unfold m_subs_undefined in H. rewrite forallb_forall in H.
  apply in_map_iff in Hs. destruct Hs as [e [<- He]]. specialize (H e He).
  apply negb_true_iff in H. apply memN_false in H. exact H.
Qed.

Lemma top_mir_no_dangling_ext_correct : forall ext_fn ext_ty P,
    mir_no_dangling_ext ext_fn ext_ty P = true <-> MirClosed ext_fn ext_ty P.
Proof.
  intros ext_fn ext_ty P. unfold mir_no_dangling_ext. repeat rewrite andb_true_iff. repeat rewrite forallb_forall. split.
  - intros [[[[H1 H2] H3] H4] H5]. constructor.
    + intros n Hn. specialize (H1 n Hn). apply orb_true_iff in H1. destruct H1 as [H1|H1]; [|auto].
      apply orb_true_iff in H1. destruct H1 as [H1|H1]; [left; apply memN_In; exact H1 | auto].
    + intros s Hs. apply memN_In. apply H2. exact Hs.
    + intros f Hf. apply memN_In. apply H3. exact Hf.
    + intros f Hf. specialize (H4 f Hf). apply orb_true_iff in H4. destruct H4 as [H4|H4]; [left; apply memN_In; exact H4 | auto].
    + intros f Hf. apply memN_In. apply H5. exact Hf.
  - intros [H1 H2 H3 H4 H5]. repeat split.
    + intros n Hn. destruct (H1 n Hn) as [H|[H|H]].
      * apply memN_In in H. rewrite H. reflexivity.
      * rewrite H, orb_true_r. reflexivity.
      * rewrite H, orb_true_r. reflexivity.
    + intros s Hs. apply memN_In. apply H2. exact Hs.
    + intros f Hf. apply memN_In. apply H3. exact Hf.
    + intros f Hf. apply orb_true_iff. destruct (H4 f Hf) as [H|H]; [left; apply memN_In; exact H | auto].
    + intros f Hf. apply memN_In. apply H5. exact Hf.
Qed.

Lemma top_mir_no_dangling_is_ext : forall P,
    mir_no_dangling P = mir_no_dangling_ext (fun f => builtin_cls (fn_cls f)) builtin_ty P.
Proof. reflexivity. Qed.
