(* C03names - refutations by computation (each witness is a closed term; vm_compute decides it) and the concrete programs
   used as non-vacuity examples in Props.v. *)
From Coq Require Import ZArith NArith List Bool Lia.
Import ListNotations.
From SV Require Import Common.Int32 C01mir.Syntax C01mir.Sem C03names.Syntax C03names.Elim C03names.Dedup C03names.Spec
  C03names.Erase C03names.ProofsReach C03names.ProofsBase C03names.ProofsElimLir C03names.ProofsElimMir.
Open Scope N_scope.

Definition fmain : fname := mkfn 1 100.

(* ---------------- LIR: seeded change C03-6 (IsPointer's type is not collected) ---------------- *)
(* main() { let x = ref.test $T10 (p : any) }  with  T10 = struct [int] *)
Definition wit_c036 : lsources :=
  mkls [] [mkltd 10 None false [LInt32]] [fmain]
       [mklfunc fmain [2] [LAny] LInt32 [LIsPointer 3 10 (LEVar 2 LAny)] (LEVar 3 LInt32)].

Lemma wit_c036_wf : l_wf wit_c036.
Proof. split; simpl; repeat constructor; simpl; tauto. Qed.

Lemma wit_c036_now : lir_no_dangling wit_c036 = true /\ lir_no_dangling (lir_elim VNow wit_c036) = true.
Proof. split; vm_compute; reflexivity. Qed.

Lemma wit_c036_seeded : lir_no_dangling (lir_elim VSeedC036 wit_c036) = false.
Proof. vm_compute. reflexivity. Qed.

(* ---------------- LIR: the tree before fix b69b06c (no closure under type definitions) ---------------- *)
(* main() { let s : T10 = [..] }  with  T10 = struct [T11], T11 = struct [int]: T11 is named only by T10's definition *)
Definition wit_b69 : lsources :=
  mkls [] [mkltd 10 None false [LId 11]; mkltd 11 None false [LInt32]] [fmain]
       [mklfunc fmain [] [] LInt32 [LStructInit 3 (LId 10) [LEI31 0]] (LEInt 0)].

Lemma wit_b69_wf : l_wf wit_b69.
Proof. split; simpl; repeat constructor; simpl; intuition discriminate. Qed.

Lemma wit_b69_now : lir_no_dangling wit_b69 = true /\ lir_no_dangling (lir_elim VNow wit_b69) = true.
Proof. split; vm_compute; reflexivity. Qed.

Lemma wit_b69_pre : lir_no_dangling (lir_elim VPreB69 wit_b69) = false.
Proof. vm_compute. reflexivity. Qed.

(* a parent type reached only through `parent_type` of a used sub-type definition (the other half of b69b06c) *)
Definition wit_b69_parent : lsources :=
  mkls [] [mkltd 20 None true [LInt32]; mkltd 21 (Some 20) false [LInt32; LInt32]] [fmain]
       [mklfunc fmain [] [] LInt32 [LStructInit 3 (LId 21) [LEInt 1; LEInt 2]] (LEInt 0)].

Lemma wit_b69_parent_pre :
  lir_no_dangling wit_b69_parent = true /\ lir_no_dangling (lir_elim VNow wit_b69_parent) = true
  /\ lir_no_dangling (lir_elim VPreB69 wit_b69_parent) = false.
Proof. repeat split; vm_compute; reflexivity. Qed.

(* ---------------- MIR: the three blind spots of the collectors ---------------- *)
Definition mk1 (tds : list mtypedef) (subs : list (tname * (tname * N))) (body : list mstmt) : msources :=
  mkms [] [] tds [fmain] [mkmfunc fmain [] (mkmfty [] MInt32) body (MEInt 0)] subs.

(* (i) the type of a LateInitDeclaration *)
Definition wit_mir_decl : msources := mk1 [mkmtd 10 (MStruct [MInt32])] [] [MLateInitDeclaration 3 (MId 10)].
(* (ii) the FunctionType attached to a function name (here of a runtime-library function: class 0) *)
Definition wit_mir_fty : msources :=
  mk1 [mkmtd 10 (MStruct [MInt32])] []
      [MCall (MCFn (mkfn 7 0) (mkmfty [MId 10] MInt32)) [MEInt 0] MInt32 None].
(* (iii) the parent rule: enum 20 is added because its sub-type 21 is used, the payload type 10 of its variant is not *)
Definition wit_mir_parent : msources :=
  mk1 [mkmtd 20 (MEnum [VBoxed [MInt32; MId 10]]); mkmtd 10 (MStruct [MInt32])] [(21, (20, 0))]
      [MStructInit 3 21 [MEInt 1; MEInt 0]].

Lemma wit_mir_wf : m_wf wit_mir_decl /\ m_wf wit_mir_fty /\ m_wf wit_mir_parent.
Proof. repeat split; simpl; repeat constructor; simpl; intuition discriminate. Qed.

Lemma wit_mir_dangling :
  (mir_no_dangling wit_mir_decl = true /\ mir_no_dangling (mir_elim wit_mir_decl) = false) /\
  (mir_no_dangling wit_mir_fty = true /\ mir_no_dangling (mir_elim wit_mir_fty) = false) /\
  (mir_no_dangling wit_mir_parent = true /\ mir_no_dangling (mir_elim wit_mir_parent) = false).
Proof. repeat split; vm_compute; reflexivity. Qed.

Lemma wit_mir_names_wf :
  m_names_wf wit_mir_decl = false /\ m_names_wf wit_mir_fty = false /\ m_names_wf wit_mir_parent = false.
Proof. repeat split; vm_compute; reflexivity. Qed.

(* ---------------- a program on which every hypothesis holds and every vector loses something ---------------- *)
(* main calls f2 and makes f3 a closure; f4 is dead; T10 used, T11 only through T10, T12 dead; closure type 30 used,
   31 dead; enum 20 with sub-type 21 used; strings 50 used, 51 dead *)
Definition f2 : fname := mkfn 2 100.
Definition f3 : fname := mkfn 3 100.
Definition f4 : fname := mkfn 4 100.
Definition ex_mir : msources :=
  mkms [50; 51]
       [mkmcd 30 (mkmfty [MInt32] MInt32); mkmcd 31 (mkmfty [] MInt32)]
       [mkmtd 10 (MStruct [MId 11]); mkmtd 11 (MStruct [MInt32]); mkmtd 12 (MStruct [MInt32]);
        mkmtd 20 (MEnum [VBoxed [MInt32; MInt32]; VInt31]); mkmtd 100 (MStruct [])]
       [fmain]
       [mkmfunc fmain [] (mkmfty [] MInt32)
                [MStructInit 5 10 [MEInt 0];
                 MCall (MCFn f2 (mkmfty [MId 10] MInt32)) [MEVar 5 (MId 10)] MInt32 (Some 6);
                 MClosureInit 7 30 f3 (mkmfty [MInt32; MInt32] MInt32) (MEInt 0);
                 MCall (MCVar 7 (MId 30)) [MEVar 6 MInt32] MInt32 (Some 8);
                 MStructInit 9 21 [MEInt 1; MEInt 2];
                 MCast 10 (MId 20) (MEVar 9 (MId 21))]
                (MEVar 8 MInt32);
        mkmfunc f2 [11] (mkmfty [MId 10] MInt32) [MCall (MCFn (mkfn 9 2) (mkmfty [MInt32; MId 1] MInt32)) [MEInt 0; MEStr 50] MInt32 None] (MEInt 1);
        mkmfunc f3 [12; 13] (mkmfty [MInt32; MInt32] MInt32) [MBinary 14 PLUS (MEVar 13 MInt32) (MEInt 1)] (MEVar 14 MInt32);
        mkmfunc f4 [] (mkmfty [] MInt32) [MStructInit 15 12 [MEInt 0]] (MEStr 51)]
       [(21, (20, 0))].

Lemma ex_mir_wf : m_wf ex_mir.
Proof. split; simpl; repeat constructor; simpl; intuition discriminate. Qed.

Lemma ex_mir_facts :
  m_names_wf ex_mir = true /\ mir_no_dangling ex_mir = true /\ mir_no_dangling (mir_elim ex_mir) = true /\
  (map (fun f => fn_id (mfn_name f)) (ms_funcs (mir_elim ex_mir)), map td_name (ms_typedefs (mir_elim ex_mir)),
   map cd_name (ms_closures (mir_elim ex_mir)), ms_globals (mir_elim ex_mir))
  = ([1; 2; 3], [10; 11; 20; 100], [30], [50]).
Proof. repeat split; vm_compute; reflexivity. Qed.

Definition ex_lir : lsources :=
  mkls [50; 51]
       [mkltd 10 None false [LId 11]; mkltd 11 None false [LInt32]; mkltd 12 None false [LInt32];
        mkltd 20 None true [LInt32]; mkltd 21 (Some 20) false [LInt32; LInt32]]
       [fmain]
       [mklfunc fmain [] [] LInt32
                [LStructInit 5 (LId 10) [LEI31 0];
                 LCall (LEFn f2 [LId 10] LInt32) [LEVar 5 (LId 10)] LInt32 (Some 6);
                 LCast 7 (LFn [LAny; LInt32] LInt32) (LEFn f3 [LAny; LInt32] LInt32);
                 LIsPointer 8 21 (LEVar 5 LAny)]
                (LEVar 6 LInt32);
        mklfunc f2 [11] [LId 10] LInt32 [LCall (LEFn (mkfn 9 2) [LAny; LId 1] LInt32) [LEI31 0; LEStr 50] LInt32 None] (LEInt 1);
        mklfunc f3 [12; 13] [LAny; LInt32] LInt32 [] (LEVar 13 LInt32);
        mklfunc f4 [] [] LInt32 [LStructInit 15 (LId 12) [LEInt 0]] (LEStr 51)].

Lemma ex_lir_wf : l_wf ex_lir.
Proof. split; simpl; repeat constructor; simpl; intuition discriminate. Qed.

Lemma ex_lir_facts :
  lir_no_dangling ex_lir = true /\ lir_no_dangling (lir_elim VNow ex_lir) = true /\
  (l_fn_names_def (lir_elim VNow ex_lir), l_ty_names_def (lir_elim VNow ex_lir), ls_globals (lir_elim VNow ex_lir))
  = ([1; 2; 3], [10; 11; 20; 21], [50]).
Proof. repeat split; vm_compute; reflexivity. Qed.

(* ---------------- (c) needs a world that does not invent closures ---------------- *)
(* main() = (cl : closure)() ; f4 is never referenced.  A world in which the value of the variable denotes f4. *)
Definition sem_prog : msources :=
  mkms [] [] [] [fmain]
       [mkmfunc fmain [] (mkmfty [] MInt32) [MCall (MCVar 5 (MId 30)) [] MInt32 (Some 6)] (MEVar 6 MInt32);
        mkmfunc f4 [7] (mkmfty [MInt32] MInt32) [] (MEInt 42)] [].

Definition liar : world :=
  mkworld (fun _ _ _ => Some 7%Z) (fun _ _ _ => 0%Z) (fun _ => 0%Z) (fun z => z) (fun _ _ v => v)
          (fun _ _ => Some (4, 0%Z)).

Lemma sem_needs_honest :
  sem liar (erase sem_prog) 1 [] 5 = Done 42 [] /\
  sem liar (erase (mir_elim sem_prog)) 1 [] 5 = Done 7 [(KExt 4, [0%Z])].
Proof. split; vm_compute; reflexivity. Qed.

(* ---------------- deduplication is one pass, not a fixpoint ---------------- *)
(* A = [C], B = [D], C = [int], D = [int]: D is merged into C, after which A and B are both [C] and both kept *)
Definition wit_dedup : msources :=
  mkms [] []
       [mkmtd 10 (MStruct [MId 12]); mkmtd 11 (MStruct [MId 13]); mkmtd 12 (MStruct [MInt32]); mkmtd 13 (MStruct [MInt32])]
       [fmain]
       [mkmfunc fmain [] (mkmfty [] MInt32)
                [MStructInit 5 13 [MEInt 0]; MStructInit 6 11 [MEVar 5 (MId 13)]; MStructInit 7 10 [MEVar 5 (MId 12)]] (MEInt 0)]
       [].

Lemma wit_dedup_result :
  option_map ms_typedefs (dedup (fun _ _ => 0) wit_dedup)
  = Some [mkmtd 10 (MStruct [MId 12]); mkmtd 11 (MStruct [MId 12]); mkmtd 12 (MStruct [MInt32])].
Proof. vm_compute. reflexivity. Qed.

Lemma wit_dedup_full : exists Q, dedup (fun _ _ => 0) wit_dedup = Some Q /\
  ms_typedefs Q = [mkmtd 10 (MStruct [MId 12]); mkmtd 11 (MStruct [MId 12]); mkmtd 12 (MStruct [MInt32])].
Proof. eexists. split; [vm_compute; reflexivity | reflexivity]. Qed.

(* merged enums: sub-types follow their parent.  E20 = E22 (same variants); 21 = E20$_Sub0, 23 = E22$_Sub0 *)
Definition ex_dedup : msources :=
  mkms [] [mkmcd 30 (mkmfty [MInt32] MInt32); mkmcd 31 (mkmfty [MInt32] MInt32)]
       [mkmtd 20 (MEnum [VBoxed [MInt32; MInt32]; VInt31]); mkmtd 22 (MEnum [VBoxed [MInt32; MInt32]; VInt31]);
        mkmtd 10 (MStruct [MId 22])]
       [fmain]
       [mkmfunc fmain [] (mkmfty [] MInt32)
                [MStructInit 5 23 [MEInt 1; MEInt 2]; MCast 6 (MId 22) (MEVar 5 (MId 23));
                 MClosureInit 7 31 f3 (mkmfty [MInt32; MId 22] MInt32) (MEInt 0);
                 MIsPointer 8 22 (MEVar 6 (MId 22))] (MEInt 0)]
       [(21, (20, 0)); (23, (22, 0))].

Definition ex_derive (p tag : N) : tname := if N.eqb p 20 then 21 + tag else if N.eqb p 22 then 23 + tag else 0.

Lemma ex_dedup_result :
  dedup ex_derive ex_dedup =
  Some (mkms [] [mkmcd 30 (mkmfty [MInt32] MInt32)]
             [mkmtd 10 (MStruct [MId 20]); mkmtd 20 (MEnum [VBoxed [MInt32; MInt32]; VInt31])]
             [fmain]
             [mkmfunc fmain [] (mkmfty [] MInt32)
                [MStructInit 5 21 [MEInt 1; MEInt 2]; MCast 6 (MId 20) (MEVar 5 (MId 21));
                 MClosureInit 7 30 f3 (mkmfty [MInt32; MId 20] MInt32) (MEInt 0);
                 MIsPointer 8 20 (MEVar 6 (MId 20))] (MEInt 0)]
             [(21, (20, 0)); (23, (20, 0)); (21, (20, 0))]).
Proof. vm_compute. reflexivity. Qed.
