(* C03names - property C03 ("accepted programs never go wrong"), slice on the passes that DELETE or MERGE definitions:
     samlang-optimization/src/unused_name_elimination.rs   (mir_elim)
     samlang-compiler/src/lir_unused_name_elimination.rs   (lir_elim VNow; VSeedC036 / VPreB69 are the seeded change
                                                            C03-6 and the tree before fix b69b06c)
     samlang-compiler/src/mir_type_deduplication.rs        (dedup)
   The models mirror the passes statement form by statement form and are tied to the code by output equality on every
   run (checks/c03_names.py, `vh names-dump`).  The validators lir_no_dangling / mir_no_dangling are evaluated on every
   real output; lir_no_dangling on the FINAL LIR of every generated program.

   (a) no dangling reference   C03names_lir_elim_closed, C03names_lir_elim_preserves_no_dangling, C03names_lir_entry_points_kept,
                               C03names_mir_elim_closed, C03names_mir_elim_preserves_no_dangling
       The FULL statement for MIR - forall P, m_wf P -> mir_no_dangling P = true -> mir_no_dangling (mir_elim P) = true - is
       FALSE of the faithful model (three blind spots of the collectors: C03names_mir_elim_closed_full_refuted); it holds
       under the decidable side condition m_names_wf, which is evaluated on every real input.
   (b) exactly the reachable set  C03names_lir_elim_exact, C03names_mir_elim_exact;  order of the hash tables irrelevant:
                               C03names_wl_push_reach, C03names_wl_pop_reach, C03names_push_fuel_enough, C03names_pop_fuel_enough
   (c) semantics               C03names_mir_elim_sem  (C01mir.Sem, same outcome at the same fuel);  the hypothesis on the
                               world is necessary: C03names_mir_elim_sem_needs_honest_world_refuted
   (d) deduplication           C03names_dedup_typedef_rep, C03names_dedup_closure_rep, C03names_dedup_origin, C03names_dedup_merge_iff,
                               C03names_dedup_idempotent, C03names_dedup_defs_mention_reps, C03names_dedup_funcs_mentions,
                               C03names_dedup_kept_distinct_as_written, C03names_dedup_defs_closed, C03names_dedup_funcs_closed,
                               C03names_dedup_sem;
                               "no two kept definitions are equal" AFTER renaming is not guaranteed by the code:
                               C03names_dedup_not_a_fixpoint_refuted (harmless: a missed merge)
   (e) seeded / earlier versions  C03names_lir_seeded_c03_6_refuted, C03names_lir_pre_b69b06c_refuted
   validators                  C03names_lir_no_dangling_correct;  comparisons of the tie: C03names_eqb_sound *)
From Coq Require Import ZArith NArith List Bool Lia.
Import ListNotations.
From SV Require Import Common.Int32 C01mir.Syntax C01mir.Sem.
From SV Require Import C03names.Syntax C03names.Elim C03names.Dedup C03names.Spec C03names.Erase C03names.Corr.
From SV Require Import C03names.ProofsReach C03names.ProofsBase C03names.ProofsElimLir C03names.ProofsElimMir
  C03names.ProofsSem C03names.ProofsDedup C03names.ProofsRename C03names.ProofsEqb C03names.ProofsWitness C03names.ProofsTop.

(* ------------------------------------------------------------------ work lists *)
Theorem C03names_wl_push_reach : forall succ roots stack fuel used' popped',
    (forall x, In x stack <-> In x roots) ->
    wl_push fuel succ roots stack [] = Some (used', popped') ->
    (forall x, In x used' <-> reach succ roots x) /\ (forall x, In x popped' <-> In x used').
Proof. exact wl_push_reach. Qed.

Theorem C03names_wl_pop_reach : forall succ stack fuel used',
    wl_pop fuel succ [] stack = Some used' -> forall x, In x used' <-> reach succ stack x.
Proof. exact wl_pop_reach. Qed.

Theorem C03names_push_fuel_enough : forall succ U used stack popped,
    (forall x y, In y (succ x) -> In y U) ->
    exists r, wl_push (push_fuel U stack) succ used stack popped = Some r.
Proof. exact push_fuel_enough. Qed.

Theorem C03names_pop_fuel_enough : forall succ U stack,
    (forall x, In x stack -> In x U) -> (forall x y, In y (succ x) -> In y U) ->
    exists r, wl_pop (pop_fuel succ U stack) succ [] stack = Some r.
Proof. exact pop_fuel_enough. Qed.

(* ------------------------------------------------------------------ LIR elimination *)
Theorem C03names_lir_elim_exact : forall P, l_wf P ->
    (forall f, In f (ls_funcs (lir_elim VNow P)) <-> In f (ls_funcs P) /\ l_fn_live P (fn_id (lfn_name f))) /\
    (forall d, In d (ls_typedefs (lir_elim VNow P)) <-> In d (ls_typedefs P) /\ l_ty_live P (ltd_name d)) /\
    (forall s, In s (ls_globals (lir_elim VNow P)) <-> In s (ls_globals P) /\ l_str_live P s) /\
    ls_mains (lir_elim VNow P) = ls_mains P.
Proof. exact lir_elim_exact. Qed.

Theorem C03names_lir_elim_closed : forall P, l_wf P ->
    (forall n, In n (lm_prog_tys (lir_elim VNow P)) -> In n (l_ty_names_def P) -> In n (l_ty_names_def (lir_elim VNow P))) /\
    (forall s, In s (lm_prog_strs (lir_elim VNow P)) -> In s (ls_globals P) -> In s (ls_globals (lir_elim VNow P))) /\
    (forall g, In g (lm_prog_fnvals (lir_elim VNow P) ++ lm_prog_callees (lir_elim VNow P) ++ ls_mains (lir_elim VNow P)) ->
               In (fn_id g) (l_fn_names_def P) -> In (fn_id g) (l_fn_names_def (lir_elim VNow P))).
Proof. exact lir_elim_closed. Qed.

Theorem C03names_lir_elim_preserves_no_dangling : forall P, l_wf P -> LirClosed P -> LirClosed (lir_elim VNow P).
Proof. exact lir_elim_preserves_closed. Qed.

Theorem C03names_lir_entry_points_kept : forall P, l_wf P ->
    ls_mains (lir_elim VNow P) = ls_mains P /\
    forall f, In f (ls_mains P) -> In (fn_id f) (l_fn_names_def P) -> In (fn_id f) (l_fn_names_def (lir_elim VNow P)).
Proof. exact top_lir_entry_points_kept. Qed.

Theorem C03names_lir_no_dangling_correct : forall P, lir_no_dangling P = true <-> LirClosed P.
Proof. exact lir_no_dangling_correct. Qed.

(* (e) the seeded change C03-6 and the tree before b69b06c leave a dangling type *)
Theorem C03names_lir_seeded_c03_6_refuted :
  exists P, l_wf P /\ LirClosed P /\ LirClosed (lir_elim VNow P) /\ ~ LirClosed (lir_elim VSeedC036 P).
Proof. exact top_lir_seeded_c03_6_refuted. Qed.

Theorem C03names_lir_pre_b69b06c_refuted :
  exists P, l_wf P /\ LirClosed P /\ LirClosed (lir_elim VNow P) /\ ~ LirClosed (lir_elim VPreB69 P).
Proof. exact top_lir_pre_b69b06c_refuted. Qed.

(* ------------------------------------------------------------------ MIR elimination *)
Theorem C03names_mir_elim_exact : forall P, m_wf P ->
    (forall f, In f (ms_funcs (mir_elim P)) <-> In f (ms_funcs P) /\ m_fn_live P (fn_id (mfn_name f))) /\
    (forall d, In d (ms_typedefs (mir_elim P)) <-> In d (ms_typedefs P) /\ m_ty_kept P (td_name d)) /\
    (forall d, In d (ms_closures (mir_elim P)) <-> In d (ms_closures P) /\ m_ty_kept P (cd_name d)) /\
    (forall s, In s (ms_globals (mir_elim P)) <-> In s (ms_globals P) /\ m_str_live P s) /\
    ms_mains (mir_elim P) = ms_mains P /\ ms_subs (mir_elim P) = ms_subs P.
Proof. exact mir_elim_exact. Qed.

Theorem C03names_mir_elim_closed : forall P, m_wf P -> m_names_wf P = true ->
    (forall n, In n (mm_prog_tys (mir_elim P)) -> m_ty_defined P n = true -> m_ty_defined (mir_elim P) n = true) /\
    (forall s, In s (mm_prog_strs (mir_elim P)) -> In s (ms_globals P) -> In s (ms_globals (mir_elim P))) /\
    (forall g, In g (mm_prog_fns (mir_elim P) ++ ms_mains (mir_elim P)) -> In (fn_id g) (m_fn_names_def P) ->
               In (fn_id g) (m_fn_names_def (mir_elim P))).
Proof. exact mir_elim_closed. Qed.

Theorem C03names_mir_elim_preserves_no_dangling : forall P, m_wf P -> m_names_wf P = true ->
    mir_no_dangling P = true -> mir_no_dangling (mir_elim P) = true.
Proof. exact mir_elim_preserves_no_dangling. Qed.

(* without the side condition: each of the three blind spots leaves a dangling type *)
Theorem C03names_mir_elim_closed_full_refuted :
  (exists P, m_wf P /\ mir_no_dangling P = true /\ mir_no_dangling (mir_elim P) = false /\
             exists x t, mfn_body (hd (mkmfunc fmain [] (mkmfty [] MInt32) [] (MEInt 0)) (ms_funcs P)) = [MLateInitDeclaration x t]) /\
  (exists P, m_wf P /\ mir_no_dangling P = true /\ mir_no_dangling (mir_elim P) = false /\
             exists c a r o, mfn_body (hd (mkmfunc fmain [] (mkmfty [] MInt32) [] (MEInt 0)) (ms_funcs P)) = [MCall c a r o]) /\
  (exists P, m_wf P /\ mir_no_dangling P = true /\ mir_no_dangling (mir_elim P) = false /\ ms_subs P <> []).
Proof. exact top_mir_elim_closed_full_refuted. Qed.

(* (c) *)
Theorem C03names_mir_elim_sem : forall P w, m_wf P -> honest w ->
    forall f args fuel, In f (ms_mains P) ->
      sem w (erase (mir_elim P)) (fn_id f) args fuel = sem w (erase P) (fn_id f) args fuel.
Proof. exact mir_elim_sem. Qed.

Theorem C03names_mir_elim_call : forall P w, m_wf P -> honest w ->
    forall g args fuel, m_fn_live P g -> sem w (erase (mir_elim P)) g args fuel = sem w (erase P) g args fuel.
Proof. exact mir_elim_call. Qed.

Theorem C03names_mir_elim_sem_needs_honest_world_refuted :
  exists P w f args fuel, m_wf P /\ In f (ms_mains P) /\
    sem w (erase (mir_elim P)) (fn_id f) args fuel <> sem w (erase P) (fn_id f) args fuel.
Proof. exact top_mir_elim_sem_needs_honest_world_refuted. Qed.

(* ------------------------------------------------------------------ deduplication *)
Theorem C03names_dedup_typedef_rep : forall derive P Q, d_wf P -> dedup derive P = Some Q ->
    forall d, In d (ms_typedefs P) ->
      In (mkmtd (rn (dstate P) (td_name d)) (rn_mappings (dstate P) (td_map d))) (ms_typedefs Q).
Proof. exact dedup_typedef_rep. Qed.

Theorem C03names_dedup_closure_rep : forall derive P Q, d_wf P -> dedup derive P = Some Q ->
    forall d, In d (ms_closures P) ->
      In (mkmcd (rn (dstate P) (cd_name d)) (rn_fty (dstate P) (cd_fty d))) (ms_closures Q).
Proof. exact dedup_closure_rep. Qed.

Theorem C03names_dedup_origin : forall derive P Q, d_wf P -> dedup derive P = Some Q ->
    (forall d', In d' (ms_typedefs Q) ->
       exists d, In d (ms_typedefs P) /\ rn (dstate P) (td_name d) = td_name d /\
                 d' = mkmtd (td_name d) (rn_mappings (dstate P) (td_map d))) /\
    (forall d', In d' (ms_closures Q) ->
       exists d, In d (ms_closures P) /\ rn (dstate P) (cd_name d) = cd_name d /\
                 d' = mkmcd (cd_name d) (rn_fty (dstate P) (cd_fty d))).
Proof. exact top_dedup_origin. Qed.

Theorem C03names_dedup_merge_iff : forall P, d_wf P -> forall d1 d2, In d1 (ms_typedefs P) -> In d2 (ms_typedefs P) ->
    (rn (dstate P) (td_name d1) = rn (dstate P) (td_name d2) <-> td_map d1 = td_map d2).
Proof. exact dedup_merge_iff. Qed.

Theorem C03names_dedup_idempotent : forall P, d_wf P -> forall n, rn (dstate P) (rn (dstate P) n) = rn (dstate P) n.
Proof. exact rn_idempotent. Qed.

Theorem C03names_dedup_defs_mention_reps : forall derive P Q, d_wf P -> dedup derive P = Some Q ->
    (forall d' n, In d' (ms_typedefs Q) -> In n (m_mappings_names (td_map d')) -> rn (dstate P) n = n) /\
    (forall d' n, In d' (ms_closures Q) -> In n (m_fty_names (cd_fty d')) -> rn (dstate P) n = n).
Proof. exact dedup_defs_mention_reps. Qed.

Theorem C03names_dedup_funcs_mentions : forall derive P Q, dedup derive P = Some Q ->
    ms_funcs Q = map (rn_func (dedup_state derive P)) (ms_funcs P) /\
    flat_map mm_func_tys (ms_funcs Q) = map (rn (dedup_state derive P)) (flat_map mm_func_tys (ms_funcs P)).
Proof. exact top_dedup_funcs_mentions. Qed.

(* no dangling reference to a DEFINITION after deduplication: a mention of a defined name becomes a mention of its
   representative, which is defined *)
Theorem C03names_dedup_defs_closed : forall derive P Q, d_wf P -> dedup derive P = Some Q ->
    (forall d' n, In d' (ms_typedefs Q) -> In n (m_mappings_names (td_map d')) ->
       exists d n0, In d (ms_typedefs P) /\ In n0 (m_mappings_names (td_map d)) /\ n = rn (dstate P) n0 /\
                    (In n0 (m_ty_names_def P) -> In n (m_ty_names_def Q))) /\
    (forall d' n, In d' (ms_closures Q) -> In n (m_fty_names (cd_fty d')) ->
       exists d n0, In d (ms_closures P) /\ In n0 (m_fty_names (cd_fty d)) /\ n = rn (dstate P) n0 /\
                    (In n0 (m_ty_names_def P) -> In n (m_ty_names_def Q))).
Proof. exact dedup_defs_closed. Qed.

Theorem C03names_dedup_funcs_closed : forall derive P Q, d_wf P -> dedup derive P = Some Q ->
    (forall s, In s (map fst (ms_subs P)) -> ~ In s (m_ty_names_def P)) ->
    forall n, In n (flat_map mm_func_tys (ms_funcs Q)) ->
      exists n0, In n0 (flat_map mm_func_tys (ms_funcs P)) /\ n = rn (dedup_state derive P) n0 /\
                 (In n0 (m_ty_names_def P) -> In n (m_ty_names_def Q)).
Proof. exact dedup_funcs_closed. Qed.

Theorem C03names_subs_undefined_decidable : forall P, m_subs_undefined P = true ->
    forall s, In s (map fst (ms_subs P)) -> ~ In s (m_ty_names_def P).
Proof. exact top_subs_undefined. Qed.

Theorem C03names_dedup_kept_distinct_as_written : forall P, NoDup (map fst (dcmap P)) /\ NoDup (map fst (dtmap P)).
Proof. exact kept_distinct_as_written. Qed.

(* FULL statement "no two kept definitions are equal": false after renaming *)
Theorem C03names_dedup_not_a_fixpoint_refuted :
  exists derive P Q, d_wf P /\ dedup derive P = Some Q /\
    exists d1 d2, In d1 (ms_typedefs Q) /\ In d2 (ms_typedefs Q) /\ td_name d1 <> td_name d2 /\ td_map d1 = td_map d2.
Proof. exact top_dedup_not_a_fixpoint_refuted. Qed.

Theorem C03names_dedup_sem : forall derive P Q w', dedup derive P = Some Q ->
    forall f args fuel,
      sem w' (erase Q) f args fuel
      = rt_outcome (enc_r (dedup_state derive P))
                   (sem (pull (enc_r (dedup_state derive P)) w') (erase P) f args fuel).
Proof. exact dedup_sem. Qed.

Theorem C03names_dedup_panics_iff : forall derive P, dedup derive P = None <-> panics P = true.
Proof. exact top_dedup_panics_iff. Qed.

Theorem C03names_eqb_sound :
  (forall a b, mfunc_eqb a b = true -> a = b) /\ (forall a b, mtypedef_eqb a b = true -> a = b) /\
  (forall a b, mclosuredef_eqb a b = true -> a = b).
Proof. exact top_eqb_sound. Qed.

(* the MIR validator with the externally defined names as parameters decides the declarative statement; the validator of
   the elimination theorems is its instance "built-in class / _Str, _Vec" *)
Theorem C03names_mir_no_dangling_ext_correct : forall ext_fn ext_ty P,
    mir_no_dangling_ext ext_fn ext_ty P = true <-> MirClosed ext_fn ext_ty P.
Proof. exact top_mir_no_dangling_ext_correct. Qed.

Theorem C03names_mir_no_dangling_is_ext : forall P,
    mir_no_dangling P = mir_no_dangling_ext (fun f => builtin_cls (fn_cls f)) builtin_ty P.
Proof. exact top_mir_no_dangling_is_ext. Qed.

(* the hypotheses m_wf / d_wf / l_wf are decidable; the tie evaluates them on every real input *)
Theorem C03names_wf_decidable :
  (forall P, m_wf_b P = true -> m_wf P /\ d_wf P) /\ (forall P, l_wf_b P = true -> l_wf P).
Proof. exact top_wf_decidable. Qed.

(* ------------------------------------------------------------------ non-vacuity *)
(* a MIR program on which every hypothesis of the MIR theorems holds and every vector loses a definition *)
Example ex_mir_hypotheses :
  m_wf ex_mir /\ m_names_wf ex_mir = true /\ mir_no_dangling ex_mir = true /\ mir_no_dangling (mir_elim ex_mir) = true /\
  (m_fn_names_def (mir_elim ex_mir), map td_name (ms_typedefs (mir_elim ex_mir)),
   map cd_name (ms_closures (mir_elim ex_mir)), ms_globals (mir_elim ex_mir)) = ([1; 2; 3], [10; 11; 20; 100], [30], [50])%N.
Proof. split; [exact ex_mir_wf | exact ex_mir_facts]. Qed.

Example ex_lir_hypotheses :
  l_wf ex_lir /\ LirClosed ex_lir /\
  (l_fn_names_def (lir_elim VNow ex_lir), l_ty_names_def (lir_elim VNow ex_lir), ls_globals (lir_elim VNow ex_lir))
  = ([1; 2; 3], [10; 11; 20; 21], [50])%N.
Proof.
  split; [exact ex_lir_wf|]. destruct ex_lir_facts as [H1 [_ H3]]. split; [apply lir_no_dangling_correct; exact H1 | exact H3].
Qed.

(* a deduplication that merges a closure type, an enum and - through the symbol table - its sub-type *)
Example ex_dedup_merges :
  d_wf ex_dedup /\
  option_map (fun Q => (map cd_name (ms_closures Q), map td_name (ms_typedefs Q))) (dedup ex_derive ex_dedup) = Some ([30], [10; 20])%N /\
  map (rn (dedup_state ex_derive ex_dedup)) [31; 22; 23; 20; 21; 10]%N = [30; 20; 21; 20; 21; 10]%N.
Proof.
  split; [unfold d_wf; simpl; repeat constructor; simpl; intuition discriminate|].
  split; [rewrite ex_dedup_result; reflexivity | vm_compute; reflexivity].
Qed.

(* an honest world exists (the hypothesis of C03names_mir_elim_sem is satisfiable) *)
Example ex_honest_world :
  honest (mkworld (fun _ _ _ => Some 0%Z) (fun _ _ _ => 0%Z) (fun _ => 0%Z) (fun z => z) (fun _ _ v => v) (fun _ _ => None)).
Proof. intros tr v f cx H. discriminate. Qed.

Print Assumptions C03names_wl_push_reach.
Print Assumptions C03names_wl_pop_reach.
Print Assumptions C03names_push_fuel_enough.
Print Assumptions C03names_pop_fuel_enough.
Print Assumptions C03names_lir_elim_exact.
Print Assumptions C03names_lir_elim_closed.
Print Assumptions C03names_lir_elim_preserves_no_dangling.
Print Assumptions C03names_lir_entry_points_kept.
Print Assumptions C03names_lir_no_dangling_correct.
Print Assumptions C03names_lir_seeded_c03_6_refuted.
Print Assumptions C03names_lir_pre_b69b06c_refuted.
Print Assumptions C03names_mir_elim_exact.
Print Assumptions C03names_mir_elim_closed.
Print Assumptions C03names_mir_elim_preserves_no_dangling.
Print Assumptions C03names_mir_elim_closed_full_refuted.
Print Assumptions C03names_mir_elim_sem.
Print Assumptions C03names_mir_elim_call.
Print Assumptions C03names_mir_elim_sem_needs_honest_world_refuted.
Print Assumptions C03names_dedup_typedef_rep.
Print Assumptions C03names_dedup_closure_rep.
Print Assumptions C03names_dedup_origin.
Print Assumptions C03names_dedup_merge_iff.
Print Assumptions C03names_dedup_idempotent.
Print Assumptions C03names_dedup_defs_mention_reps.
Print Assumptions C03names_dedup_funcs_mentions.
Print Assumptions C03names_dedup_kept_distinct_as_written.
Print Assumptions C03names_dedup_defs_closed.
Print Assumptions C03names_dedup_funcs_closed.
Print Assumptions C03names_subs_undefined_decidable.
Print Assumptions C03names_dedup_not_a_fixpoint_refuted.
Print Assumptions C03names_dedup_sem.
Print Assumptions C03names_dedup_panics_iff.
Print Assumptions C03names_eqb_sound.
Print Assumptions C03names_wf_decidable.
Print Assumptions C03names_mir_no_dangling_ext_correct.
Print Assumptions C03names_mir_no_dangling_is_ext.
