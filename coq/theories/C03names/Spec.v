(* C03names - what a program MENTIONS, what it DEFINES, and the decidable "no dangling reference" validators.
   Definitions only.

   These traversals are written independently of the collectors of Elim.v (which mirror the Rust code and its
   omissions): every position of every statement form, signature and type definition at which a type name, a string
   constant or a function name occurs.  The class inside a FunctionName is NOT a mention of a type (back ends only
   print it as part of the function's name).

   lir_no_dangling P = true   (evaluated on the real FINAL LIR of every generated program)
     every type named in a signature, statement, expression or type definition (fields and parent) is defined in
     ls_typedefs or is one of the two types libsam.wat defines (_Str = 1, _Vec = 3);
     every string constant is in ls_globals; every function name used as a VALUE is defined (wasm_lowering.rs looks it
     up in function_index_mapping and unwraps); every directly called function is defined or belongs to a built-in
     class (EMPTY 0, Str 1, Process 2, Vec 3: imported or defined by libsam.wat); every exported function is defined. *)
From Coq Require Import ZArith NArith List Bool.
Import ListNotations.
From SV Require Import Common.Int32 C03names.Syntax C03names.Elim.

Definition builtin_ty (n : tname) : bool := N.eqb n 1 || N.eqb n 3.
Definition builtin_cls (n : tname) : bool := N.leb n 3.

(* ------------------------------------------------------------------ LIR mentions *)
Definition lm_expr_tys (e : lexpr) : list tname :=
  match e with
  | LEVar _ t => l_ty_names t
  | LEFn _ args ret => l_tys_names args ++ l_ty_names ret
  | _ => []
  end.
Definition lm_expr_fns (e : lexpr) : list fname := match e with LEFn f _ _ => [f] | _ => [] end.
Definition lm_quad_tys (q : lquad) : list tname := l_ty_names (lq_ty q) ++ lm_expr_tys (lq_e1 q) ++ lm_expr_tys (lq_e2 q).
Definition lm_quad_fns (q : lquad) : list fname := lm_expr_fns (lq_e1 q) ++ lm_expr_fns (lq_e2 q).

Fixpoint lm_stmt_tys (s : lstmt) : list tname :=
  let fix go (ss : list lstmt) : list tname := match ss with [] => [] | s :: r => lm_stmt_tys s ++ go r end in
  match s with
  | LIsPointer _ pt e => pt :: lm_expr_tys e
  | LNot _ e | LBreak e | LLateInitAssignment _ e => lm_expr_tys e
  | LBinary _ _ e1 e2 => lm_expr_tys e1 ++ lm_expr_tys e2
  | LIndexedAccess _ t e _ | LCast _ t e => l_ty_names t ++ lm_expr_tys e
  | LCall c args rty _ => lm_expr_tys c ++ flat_map lm_expr_tys args ++ l_ty_names rty
  | LIfElse c s1 s2 fas => lm_expr_tys c ++ go s1 ++ go s2 ++ flat_map lm_quad_tys fas
  | LSingleIf c _ ss => lm_expr_tys c ++ go ss
  | LWhile lvs ss bc => flat_map lm_quad_tys lvs ++ go ss ++ l_bc_tys bc
  | LLateInitDeclaration _ t => l_ty_names t
  | LStructInit _ t es => l_ty_names t ++ flat_map lm_expr_tys es
  end.
Fixpoint lm_stmts_tys (ss : list lstmt) : list tname :=
  match ss with [] => [] | s :: r => lm_stmt_tys s ++ lm_stmts_tys r end.

(* function names in VALUE position: everywhere except the callee of a Call *)
Fixpoint lm_stmt_fnvals (s : lstmt) : list fname :=
  let fix go (ss : list lstmt) : list fname := match ss with [] => [] | s :: r => lm_stmt_fnvals s ++ go r end in
  match s with
  | LIsPointer _ _ e | LNot _ e | LIndexedAccess _ _ e _ | LBreak e | LCast _ _ e | LLateInitAssignment _ e => lm_expr_fns e
  | LBinary _ _ e1 e2 => lm_expr_fns e1 ++ lm_expr_fns e2
  | LCall _ args _ _ => flat_map lm_expr_fns args
  | LIfElse c s1 s2 fas => lm_expr_fns c ++ go s1 ++ go s2 ++ flat_map lm_quad_fns fas
  | LSingleIf c _ ss => lm_expr_fns c ++ go ss
  | LWhile lvs ss _ => flat_map lm_quad_fns lvs ++ go ss
  | LLateInitDeclaration _ _ => []
  | LStructInit _ _ es => flat_map lm_expr_fns es
  end.
Fixpoint lm_stmts_fnvals (ss : list lstmt) : list fname :=
  match ss with [] => [] | s :: r => lm_stmt_fnvals s ++ lm_stmts_fnvals r end.

(* directly called function names *)
Fixpoint lm_stmt_callees (s : lstmt) : list fname :=
  let fix go (ss : list lstmt) : list fname := match ss with [] => [] | s :: r => lm_stmt_callees s ++ go r end in
  match s with
  | LCall c _ _ _ => lm_expr_fns c
  | LIfElse _ s1 s2 _ => go s1 ++ go s2
  | LSingleIf _ _ ss | LWhile _ ss _ => go ss
  | _ => []
  end.
Fixpoint lm_stmts_callees (ss : list lstmt) : list fname :=
  match ss with [] => [] | s :: r => lm_stmt_callees s ++ lm_stmts_callees r end.

Definition lm_func_tys (f : lfunc) : list tname :=
  l_tys_names (lfn_args f) ++ l_ty_names (lfn_rty f) ++ lm_stmts_tys (lfn_body f) ++ lm_expr_tys (lfn_ret f).
Definition lm_func_strs (f : lfunc) : list sname := l_stmts_strs (lfn_body f) ++ l_expr_strs (lfn_ret f).
Definition lm_func_fnvals (f : lfunc) : list fname := lm_stmts_fnvals (lfn_body f) ++ lm_expr_fns (lfn_ret f).
Definition lm_func_callees (f : lfunc) : list fname := lm_stmts_callees (lfn_body f).
Definition lm_typedef_tys (d : ltypedef) : list tname := l_tys_names (ltd_map d) ++ opt_list (ltd_parent d).

Definition lm_prog_tys (P : lsources) : list tname :=
  flat_map lm_func_tys (ls_funcs P) ++ flat_map lm_typedef_tys (ls_typedefs P).
Definition lm_prog_strs (P : lsources) : list sname := flat_map lm_func_strs (ls_funcs P).
Definition lm_prog_fnvals (P : lsources) : list fname := flat_map lm_func_fnvals (ls_funcs P).
Definition lm_prog_callees (P : lsources) : list fname := flat_map lm_func_callees (ls_funcs P).

Definition l_ty_names_def (P : lsources) : list tname := map ltd_name (ls_typedefs P).
Definition l_fn_names_def (P : lsources) : list N := map (fun f => fn_id (lfn_name f)) (ls_funcs P).

Definition lir_no_dangling (P : lsources) : bool :=
  forallb (fun n => memN n (l_ty_names_def P) || builtin_ty n) (lm_prog_tys P)
  && forallb (fun s => memN s (ls_globals P)) (lm_prog_strs P)
  && forallb (fun f => memN (fn_id f) (l_fn_names_def P)) (lm_prog_fnvals P)
  && forallb (fun f => memN (fn_id f) (l_fn_names_def P) || builtin_cls (fn_cls f)) (lm_prog_callees P)
  && forallb (fun f => memN (fn_id f) (l_fn_names_def P)) (ls_mains P).

(* the declarative statement the validator decides *)
Record LirClosed (P : lsources) : Prop := mkLirClosed {
  lc_tys : forall n, In n (lm_prog_tys P) -> In n (l_ty_names_def P) \/ n = 1%N \/ n = 3%N;
  lc_strs : forall s, In s (lm_prog_strs P) -> In s (ls_globals P);
  lc_fnvals : forall f, In f (lm_prog_fnvals P) -> In (fn_id f) (l_fn_names_def P);
  lc_callees : forall f, In f (lm_prog_callees P) -> In (fn_id f) (l_fn_names_def P) \/ (fn_cls f <= 3)%N;
  lc_mains : forall f, In f (ls_mains P) -> In (fn_id f) (l_fn_names_def P) }.

(* the first dangling reference of each kind, for messages: (types, strings, function values, callees, mains) *)
Definition lir_dangling (P : lsources) : list tname * list sname * list N * list N * list N :=
  (filter (fun n => negb (memN n (l_ty_names_def P) || builtin_ty n)) (lm_prog_tys P),
   filter (fun s => negb (memN s (ls_globals P))) (lm_prog_strs P),
   map fn_id (filter (fun f => negb (memN (fn_id f) (l_fn_names_def P))) (lm_prog_fnvals P)),
   map fn_id (filter (fun f => negb (memN (fn_id f) (l_fn_names_def P) || builtin_cls (fn_cls f))) (lm_prog_callees P)),
   map fn_id (filter (fun f => negb (memN (fn_id f) (l_fn_names_def P))) (ls_mains P))).

(* ------------------------------------------------------------------ MIR mentions *)
Definition mm_callee_tys (c : mcallee) : list tname :=
  match c with MCFn _ ft => m_fty_names ft | MCVar _ t => m_ty_names t end.

Fixpoint mm_stmt_tys (s : mstmt) : list tname :=
  let fix go (ss : list mstmt) : list tname := match ss with [] => [] | s :: r => mm_stmt_tys s ++ go r end in
  match s with
  | MIsPointer _ pt e => pt :: m_expr_tys e
  | MNot _ e | MBreak e | MLateInitAssignment _ e => m_expr_tys e
  | MBinary _ _ e1 e2 => m_expr_tys e1 ++ m_expr_tys e2
  | MIndexedAccess _ t e _ | MCast _ t e => m_ty_names t ++ m_expr_tys e
  | MCall c args rty _ => mm_callee_tys c ++ flat_map m_expr_tys args ++ m_ty_names rty
  | MIfElse c s1 s2 fas => m_expr_tys c ++ go s1 ++ go s2 ++ flat_map m_quad_tys fas
  | MSingleIf c _ ss => m_expr_tys c ++ go ss
  | MWhile lvs ss bc => flat_map m_quad_tys lvs ++ go ss ++ m_bc_tys bc
  | MLateInitDeclaration _ t => m_ty_names t
  | MStructInit _ tn es => tn :: flat_map m_expr_tys es
  | MClosureInit _ ctn _ ft e => ctn :: m_fty_names ft ++ m_expr_tys e
  end.
Fixpoint mm_stmts_tys (ss : list mstmt) : list tname :=
  match ss with [] => [] | s :: r => mm_stmt_tys s ++ mm_stmts_tys r end.

Fixpoint mm_stmt_fns (s : mstmt) : list fname :=
  let fix go (ss : list mstmt) : list fname := match ss with [] => [] | s :: r => mm_stmt_fns s ++ go r end in
  match s with
  | MCall (MCFn f _) _ _ _ => [f]
  | MClosureInit _ _ f _ _ => [f]
  | MIfElse _ s1 s2 _ => go s1 ++ go s2
  | MSingleIf _ _ ss | MWhile _ ss _ => go ss
  | _ => []
  end.
Fixpoint mm_stmts_fns (ss : list mstmt) : list fname :=
  match ss with [] => [] | s :: r => mm_stmt_fns s ++ mm_stmts_fns r end.

(* function names that become VALUES (ClosureInit): these must be defined *)
Fixpoint mm_stmt_fnvals (s : mstmt) : list fname :=
  let fix go (ss : list mstmt) : list fname := match ss with [] => [] | s :: r => mm_stmt_fnvals s ++ go r end in
  match s with
  | MClosureInit _ _ f _ _ => [f]
  | MIfElse _ s1 s2 _ => go s1 ++ go s2
  | MSingleIf _ _ ss | MWhile _ ss _ => go ss
  | _ => []
  end.
Fixpoint mm_stmts_fnvals (ss : list mstmt) : list fname :=
  match ss with [] => [] | s :: r => mm_stmt_fnvals s ++ mm_stmts_fnvals r end.

Definition mm_func_tys (f : mfunc) : list tname :=
  m_fty_names (mfn_ty f) ++ mm_stmts_tys (mfn_body f) ++ m_expr_tys (mfn_ret f).
Definition mm_func_strs (f : mfunc) : list sname := m_stmts_strs (mfn_body f) ++ m_expr_strs (mfn_ret f).
Definition mm_func_fns (f : mfunc) : list fname := mm_stmts_fns (mfn_body f).

Definition mm_prog_tys (P : msources) : list tname :=
  flat_map mm_func_tys (ms_funcs P)
  ++ flat_map (fun d => m_mappings_names (td_map d)) (ms_typedefs P)
  ++ flat_map (fun d => m_fty_names (cd_fty d)) (ms_closures P).
Definition mm_prog_strs (P : msources) : list sname := flat_map mm_func_strs (ms_funcs P).
Definition mm_prog_fns (P : msources) : list fname := flat_map mm_func_fns (ms_funcs P).
Definition mm_prog_fnvals (P : msources) : list fname := flat_map (fun f => mm_stmts_fnvals (mfn_body f)) (ms_funcs P).

Definition m_ty_names_def (P : msources) : list tname :=
  map td_name (ms_typedefs P) ++ map cd_name (ms_closures P).
Definition m_fn_names_def (P : msources) : list N := map (fun f => fn_id (mfn_name f)) (ms_funcs P).

Fixpoint find_typedef (n : tname) (ds : list mtypedef) : option mtypedef :=
  match ds with [] => None | d :: r => if N.eqb (td_name d) n then Some d else find_typedef n r end.

(* a sub-type name `E$_Sub<tag>` has no definition of its own in MIR: LIR lowering makes one for every Boxed
   variant of a defined enum *)
Definition m_sub_defined (P : msources) (n : tname) : bool :=
  match get_first n (ms_subs P) with
  | Some (p, tag) =>
      match find_typedef p (ms_typedefs P) with
      | Some d => match td_map d with
                  | MEnum vs => match nth_error vs (N.to_nat tag) with Some (VBoxed _) => true | _ => false end
                  | MStruct _ => false
                  end
      | None => false
      end
  | None => false
  end.

Definition m_ty_defined (P : msources) (n : tname) : bool :=
  memN n (m_ty_names_def P) || builtin_ty n || m_sub_defined P n.

Definition mir_no_dangling (P : msources) : bool :=
  forallb (m_ty_defined P) (mm_prog_tys P)
  && forallb (fun s => memN s (ms_globals P)) (mm_prog_strs P)
  && forallb (fun f => memN (fn_id f) (m_fn_names_def P)) (mm_prog_fnvals P)
  && forallb (fun f => memN (fn_id f) (m_fn_names_def P) || builtin_cls (fn_cls f)) (mm_prog_fns P)
  && forallb (fun f => memN (fn_id f) (m_fn_names_def P)) (ms_mains P).

(* the same validator with the names that are defined OUTSIDE the program as explicit parameters: `ext_fn f` - the function
   is provided by the runtime library (libsam.wat / the TypeScript prolog), `ext_ty n` - the type is.  Used on the program
   right after generics specialisation (checks/c03_names.py, stage "spec") with ext_fn = the FunctionName constants of
   mir.rs (Process.println / panic, Str.*, Vec.*, the three memory built-ins) and ext_ty = _Str, _Vec. *)
Definition mir_no_dangling_ext (ext_fn : fname -> bool) (ext_ty : tname -> bool) (P : msources) : bool :=
  forallb (fun n => memN n (m_ty_names_def P) || ext_ty n || m_sub_defined P n) (mm_prog_tys P)
  && forallb (fun s => memN s (ms_globals P)) (mm_prog_strs P)
  && forallb (fun f => memN (fn_id f) (m_fn_names_def P)) (mm_prog_fnvals P)
  && forallb (fun f => memN (fn_id f) (m_fn_names_def P) || ext_fn f) (mm_prog_fns P)
  && forallb (fun f => memN (fn_id f) (m_fn_names_def P)) (ms_mains P).

Record MirClosed (ext_fn : fname -> bool) (ext_ty : tname -> bool) (P : msources) : Prop := mkMirClosed {
  mc_tys : forall n, In n (mm_prog_tys P) -> In n (m_ty_names_def P) \/ ext_ty n = true \/ m_sub_defined P n = true;
  mc_strs : forall s, In s (mm_prog_strs P) -> In s (ms_globals P);
  mc_fnvals : forall f, In f (mm_prog_fnvals P) -> In (fn_id f) (m_fn_names_def P);
  mc_fns : forall f, In f (mm_prog_fns P) -> In (fn_id f) (m_fn_names_def P) \/ ext_fn f = true;
  mc_mains : forall f, In f (ms_mains P) -> In (fn_id f) (m_fn_names_def P) }.

(* the dangling references of each kind, for messages: (types, strings, function values, callees, entry points) *)
Definition mir_dangling_ext (ext_fn : fname -> bool) (ext_ty : tname -> bool) (P : msources)
  : list tname * list sname * list N * list N * list N :=
  (filter (fun n => negb (memN n (m_ty_names_def P) || ext_ty n || m_sub_defined P n)) (mm_prog_tys P),
   filter (fun s => negb (memN s (ms_globals P))) (mm_prog_strs P),
   map fn_id (filter (fun f => negb (memN (fn_id f) (m_fn_names_def P))) (mm_prog_fnvals P)),
   map fn_id (filter (fun f => negb (memN (fn_id f) (m_fn_names_def P) || ext_fn f)) (mm_prog_fns P)),
   map fn_id (filter (fun f => negb (memN (fn_id f) (m_fn_names_def P))) (ms_mains P))).

Definition mir_dangling (P : msources) : list tname * list sname * list N * list N * list N :=
  (filter (fun n => negb (m_ty_defined P n)) (mm_prog_tys P),
   filter (fun s => negb (memN s (ms_globals P))) (mm_prog_strs P),
   map fn_id (filter (fun f => negb (memN (fn_id f) (m_fn_names_def P))) (mm_prog_fnvals P)),
   map fn_id (filter (fun f => negb (memN (fn_id f) (m_fn_names_def P) || builtin_cls (fn_cls f))) (mm_prog_fns P)),
   map fn_id (filter (fun f => negb (memN (fn_id f) (m_fn_names_def P))) (ms_mains P))).

(* what the MIR elimination does not look at (Elim.m_stmt_tys): the three places where a kept function can mention a
   type that the pass never sees, each with the function named at that place (if any).
   `m_gap_free M f` says every such type is a built-in, or is mentioned at a place of `f` the pass does see, or at such a
   place of the function named there (in particular in its signature: the attached FunctionType normally IS that
   signature). *)
Definition mg_tag (o : option N) (ns : list tname) : list (option N * tname) := map (fun n => (o, n)) ns.
Fixpoint mg_stmt_tys (s : mstmt) : list (option N * tname) :=
  let fix go (ss : list mstmt) : list (option N * tname) := match ss with [] => [] | s :: r => mg_stmt_tys s ++ go r end in
  match s with
  | MCall (MCFn f ft) _ _ _ => mg_tag (Some (fn_id f)) (m_fty_names ft)
  | MLateInitDeclaration _ t => mg_tag None (m_ty_names t)
  | MClosureInit _ _ f ft _ => mg_tag (Some (fn_id f)) (m_fty_names ft)
  | MIfElse _ s1 s2 _ => go s1 ++ go s2
  | MSingleIf _ _ ss | MWhile _ ss _ => go ss
  | _ => []
  end.
Fixpoint mg_stmts_tys (ss : list mstmt) : list (option N * tname) :=
  match ss with [] => [] | s :: r => mg_stmt_tys s ++ mg_stmts_tys r end.

Definition m_gap_free_func (M : list (N * used3)) (f : mfunc) : bool :=
  forallb (fun e => memN (snd e) (u_tys (m_fn_used f)) || builtin_ty (snd e)
                    || match fst e with Some g => memN (snd e) (tys_of M g) | None => false end)
          (mg_stmts_tys (mfn_body f)).

(* the parent rule adds an enum without looking at its variants: `m_parents_seen` says that whenever a function
   mentions a sub-type, its parent is mentioned by the same function *)
Definition m_parents_seen_func (subs : list (tname * (tname * N))) (f : mfunc) : bool :=
  forallb (fun n => match parent_of subs n with Some p => memN p (u_tys (m_fn_used f)) | None => true end)
          (u_tys (m_fn_used f)).

(* no type definition / closure type mentions a sub-type name *)
Definition m_defs_no_subs (P : msources) : bool :=
  forallb (fun n => match parent_of (ms_subs P) n with Some _ => false | None => true end)
          (flat_map (fun e => snd e) (m_typedef_map P)).

Definition m_names_wf (P : msources) : bool :=
  forallb (m_gap_free_func (m_used_map (ms_funcs P))) (ms_funcs P) && forallb (m_parents_seen_func (ms_subs P)) (ms_funcs P) && m_defs_no_subs P.
