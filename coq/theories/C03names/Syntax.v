(* C03names - syntax of whole MIR and LIR programs with NAMES that can be collected.  Definitions only (plus the
   induction principles of the nested types).

   The three passes studied here delete or merge DEFINITIONS of a whole program:
     crates/samlang-optimization/src/unused_name_elimination.rs   (MIR)
     crates/samlang-compiler/src/lir_unused_name_elimination.rs   (LIR)
     crates/samlang-compiler/src/mir_type_deduplication.rs        (MIR)
   They read every position at which a function, a type, a closure type or a string constant is NAMED.  C01mir.Syntax
   keeps types as opaque interned numbers (one number for `Id(n)`, another for a FunctionType that mentions n), which
   is what its stages need; here a type must show the name it mentions, so this file has its own syntax:
     * mir::Type = Int32 | Int31 | Id(TypeNameId)          -> mty  (the number IS the u32 inside TypeNameId)
     * lir::Type = Int32 | Int31 | AnyPointer | Id | Fn(..) -> lty  (nested)
     * FunctionName { type_name, fn_name }                   -> fname: a number for the pair (given by the harness,
       equal pairs <-> equal numbers) and the TypeNameId of its class (the passes put it into the type set)
     * PStr of a variable / of a string constant             -> numbers given by the harness per job
   one constructor per variant of mir::Statement (14) and of lir::Statement (13).
   `erase` (Erase.v) maps the MIR part onto C01mir.Syntax so that C01mir.Sem gives it a meaning. *)
From Coq Require Import ZArith NArith List Bool.
Import ListNotations.
From SV Require Import Common.Int32.

Definition tname := N.     (* TypeNameId *)
Definition sname := N.     (* string constant (GlobalString / StringName) *)
Definition vname := N.     (* variable *)
Record fname := mkfn { fn_id : N; fn_cls : tname }.

(* ------------------------------------------------------------------ MIR *)
Inductive mty := MInt32 | MInt31 | MId (n : tname).
Record mfty := mkmfty { mf_args : list mty; mf_ret : mty }.

Inductive mexpr :=
| MEInt (z : Z)
| MEI31 (z : Z)
| MEStr (s : sname)
| MEVar (x : vname) (t : mty).

Inductive mcallee :=
| MCFn (f : fname) (ft : mfty)          (* Callee::FunctionName(FunctionNameExpression { name, type_ }) *)
| MCVar (x : vname) (t : mty).          (* Callee::Variable(VariableName) *)

(* IfElseFinalAssignment { name, type_, e1, e2 } / GenenalLoopVariable { name, type_, initial_value, loop_value } *)
Record mquad := mkmq { mq_name : vname; mq_ty : mty; mq_e1 : mexpr; mq_e2 : mexpr }.

Inductive mstmt :=
| MIsPointer (x : vname) (pt : tname) (e : mexpr)
| MNot (x : vname) (e : mexpr)
| MBinary (x : vname) (op : binop) (e1 e2 : mexpr)
| MIndexedAccess (x : vname) (t : mty) (e : mexpr) (i : N)
| MCall (c : mcallee) (args : list mexpr) (rty : mty) (ret : option vname)
| MIfElse (c : mexpr) (s1 s2 : list mstmt) (fas : list mquad)
| MSingleIf (c : mexpr) (inv : bool) (ss : list mstmt)
| MBreak (e : mexpr)
| MWhile (lvs : list mquad) (ss : list mstmt) (bc : option (vname * mty))
| MCast (x : vname) (t : mty) (e : mexpr)
| MLateInitDeclaration (x : vname) (t : mty)
| MLateInitAssignment (x : vname) (e : mexpr)
| MStructInit (x : vname) (tn : tname) (es : list mexpr)
| MClosureInit (x : vname) (ctn : tname) (f : fname) (ft : mfty) (e : mexpr).

Record mfunc := mkmfunc {
  mfn_name : fname;
  mfn_params : list vname;
  mfn_ty : mfty;
  mfn_body : list mstmt;
  mfn_ret : mexpr }.

Inductive mvariant := VBoxed (ts : list mty) | VUnboxed (t : tname) | VInt31.
Inductive mmappings := MStruct (ts : list mty) | MEnum (vs : list mvariant).
Record mtypedef := mkmtd { td_name : tname; td_map : mmappings }.
Record mclosuredef := mkmcd { cd_name : tname; cd_fty : mfty }.

(* mir::Sources.  `ms_subs` is the part of the SymbolTable the passes read: for a name created by
   derived_type_name_with_subtype_tag its (parent, tag). *)
Record msources := mkms {
  ms_globals : list sname;
  ms_closures : list mclosuredef;
  ms_typedefs : list mtypedef;
  ms_mains : list fname;
  ms_funcs : list mfunc;
  ms_subs : list (tname * (tname * N)) }.

Section MStmtInd.
  Variable P : mstmt -> Prop.
  Variable Q : list mstmt -> Prop.
  Hypothesis H1 : forall x pt e, P (MIsPointer x pt e).
  Hypothesis H2 : forall x e, P (MNot x e).
  Hypothesis H3 : forall x op e1 e2, P (MBinary x op e1 e2).
  Hypothesis H4 : forall x t e i, P (MIndexedAccess x t e i).
  Hypothesis H5 : forall c args rty ret, P (MCall c args rty ret).
  Hypothesis H6 : forall c s1 s2 fas, Q s1 -> Q s2 -> P (MIfElse c s1 s2 fas).
  Hypothesis H7 : forall c inv ss, Q ss -> P (MSingleIf c inv ss).
  Hypothesis H8 : forall e, P (MBreak e).
  Hypothesis H9 : forall lvs ss bc, Q ss -> P (MWhile lvs ss bc).
  Hypothesis H10 : forall x t e, P (MCast x t e).
  Hypothesis H11 : forall x t, P (MLateInitDeclaration x t).
  Hypothesis H12 : forall x e, P (MLateInitAssignment x e).
  Hypothesis H13 : forall x tn es, P (MStructInit x tn es).
  Hypothesis H14 : forall x ctn f ft e, P (MClosureInit x ctn f ft e).
  Hypothesis HNil : Q [].
  Hypothesis HCons : forall s r, P s -> Q r -> Q (s :: r).

  Fixpoint mstmt_ind2 (s : mstmt) : P s :=
    let fix go (ss : list mstmt) : Q ss :=
      match ss with [] => HNil | s :: r => HCons s r (mstmt_ind2 s) (go r) end in
    match s with
    | MIsPointer x pt e => H1 x pt e
    | MNot x e => H2 x e
    | MBinary x op e1 e2 => H3 x op e1 e2
    | MIndexedAccess x t e i => H4 x t e i
    | MCall c args rty ret => H5 c args rty ret
    | MIfElse c s1 s2 fas => H6 c s1 s2 fas (go s1) (go s2)
    | MSingleIf c inv ss => H7 c inv ss (go ss)
    | MBreak e => H8 e
    | MWhile lvs ss bc => H9 lvs ss bc (go ss)
    | MCast x t e => H10 x t e
    | MLateInitDeclaration x t => H11 x t
    | MLateInitAssignment x e => H12 x e
    | MStructInit x tn es => H13 x tn es
    | MClosureInit x ctn f ft e => H14 x ctn f ft e
    end.

  Fixpoint mstmts_ind2 (ss : list mstmt) : Q ss :=
    match ss with [] => HNil | s :: r => HCons s r (mstmt_ind2 s) (mstmts_ind2 r) end.

  Lemma mstmt_mstmts_ind2 : (forall s, P s) /\ (forall ss, Q ss).
  Proof. split; [exact mstmt_ind2 | exact mstmts_ind2]. Qed.
End MStmtInd.

(* ------------------------------------------------------------------ LIR *)
Inductive lty :=
| LInt32 | LInt31 | LAny
| LId (n : tname)
| LFn (args : list lty) (ret : lty).

Section LtyInd.
  Variable P : lty -> Prop.
  Variable Q : list lty -> Prop.
  Hypothesis HI32 : P LInt32.
  Hypothesis HI31 : P LInt31.
  Hypothesis HAny : P LAny.
  Hypothesis HId : forall n, P (LId n).
  Hypothesis HFn : forall args ret, Q args -> P ret -> P (LFn args ret).
  Hypothesis HNil : Q [].
  Hypothesis HCons : forall t r, P t -> Q r -> Q (t :: r).

  Fixpoint lty_ind2 (t : lty) : P t :=
    let fix go (ts : list lty) : Q ts :=
      match ts with [] => HNil | t :: r => HCons t r (lty_ind2 t) (go r) end in
    match t with
    | LInt32 => HI32 | LInt31 => HI31 | LAny => HAny
    | LId n => HId n
    | LFn args ret => HFn args ret (go args) (lty_ind2 ret)
    end.

  Fixpoint ltys_ind2 (ts : list lty) : Q ts :=
    match ts with [] => HNil | t :: r => HCons t r (lty_ind2 t) (ltys_ind2 r) end.
End LtyInd.

Inductive lexpr :=
| LEInt (z : Z)
| LEI31 (z : Z)
| LEStr (s : sname)
| LEVar (x : vname) (t : lty)
| LEFn (f : fname) (args : list lty) (ret : lty).      (* FnName(FunctionName, FunctionType) *)

Record lquad := mklq { lq_name : vname; lq_ty : lty; lq_e1 : lexpr; lq_e2 : lexpr }.

Inductive lstmt :=
| LIsPointer (x : vname) (pt : tname) (e : lexpr)
| LNot (x : vname) (e : lexpr)
| LBinary (x : vname) (op : binop) (e1 e2 : lexpr)
| LIndexedAccess (x : vname) (t : lty) (e : lexpr) (i : N)
| LCall (c : lexpr) (args : list lexpr) (rty : lty) (ret : option vname)
| LIfElse (c : lexpr) (s1 s2 : list lstmt) (fas : list lquad)
| LSingleIf (c : lexpr) (inv : bool) (ss : list lstmt)
| LBreak (e : lexpr)
| LWhile (lvs : list lquad) (ss : list lstmt) (bc : option (vname * lty))
| LCast (x : vname) (t : lty) (e : lexpr)
| LLateInitDeclaration (x : vname) (t : lty)
| LLateInitAssignment (x : vname) (e : lexpr)
| LStructInit (x : vname) (t : lty) (es : list lexpr).

Record lfunc := mklfunc {
  lfn_name : fname;
  lfn_params : list vname;
  lfn_args : list lty;
  lfn_rty : lty;
  lfn_body : list lstmt;
  lfn_ret : lexpr }.

Record ltypedef := mkltd {
  ltd_name : tname;
  ltd_parent : option tname;
  ltd_ext : bool;
  ltd_map : list lty }.

Record lsources := mkls {
  ls_globals : list sname;
  ls_typedefs : list ltypedef;
  ls_mains : list fname;
  ls_funcs : list lfunc }.

Section LStmtInd.
  Variable P : lstmt -> Prop.
  Variable Q : list lstmt -> Prop.
  Hypothesis H1 : forall x pt e, P (LIsPointer x pt e).
  Hypothesis H2 : forall x e, P (LNot x e).
  Hypothesis H3 : forall x op e1 e2, P (LBinary x op e1 e2).
  Hypothesis H4 : forall x t e i, P (LIndexedAccess x t e i).
  Hypothesis H5 : forall c args rty ret, P (LCall c args rty ret).
  Hypothesis H6 : forall c s1 s2 fas, Q s1 -> Q s2 -> P (LIfElse c s1 s2 fas).
  Hypothesis H7 : forall c inv ss, Q ss -> P (LSingleIf c inv ss).
  Hypothesis H8 : forall e, P (LBreak e).
  Hypothesis H9 : forall lvs ss bc, Q ss -> P (LWhile lvs ss bc).
  Hypothesis H10 : forall x t e, P (LCast x t e).
  Hypothesis H11 : forall x t, P (LLateInitDeclaration x t).
  Hypothesis H12 : forall x e, P (LLateInitAssignment x e).
  Hypothesis H13 : forall x t es, P (LStructInit x t es).
  Hypothesis HNil : Q [].
  Hypothesis HCons : forall s r, P s -> Q r -> Q (s :: r).

  Fixpoint lstmt_ind2 (s : lstmt) : P s :=
    let fix go (ss : list lstmt) : Q ss :=
      match ss with [] => HNil | s :: r => HCons s r (lstmt_ind2 s) (go r) end in
    match s with
    | LIsPointer x pt e => H1 x pt e
    | LNot x e => H2 x e
    | LBinary x op e1 e2 => H3 x op e1 e2
    | LIndexedAccess x t e i => H4 x t e i
    | LCall c args rty ret => H5 c args rty ret
    | LIfElse c s1 s2 fas => H6 c s1 s2 fas (go s1) (go s2)
    | LSingleIf c inv ss => H7 c inv ss (go ss)
    | LBreak e => H8 e
    | LWhile lvs ss bc => H9 lvs ss bc (go ss)
    | LCast x t e => H10 x t e
    | LLateInitDeclaration x t => H11 x t
    | LLateInitAssignment x e => H12 x e
    | LStructInit x t es => H13 x t es
    end.

  Fixpoint lstmts_ind2 (ss : list lstmt) : Q ss :=
    match ss with [] => HNil | s :: r => HCons s r (lstmt_ind2 s) (lstmts_ind2 r) end.

  Lemma lstmt_lstmts_ind2 : (forall s, P s) /\ (forall ss, Q ss).
  Proof. split; [exact lstmt_ind2 | exact lstmts_ind2]. Qed.
End LStmtInd.

(* ------------------------------------------------------------------ sets as lists, maps as association lists *)
Definition memN (x : N) (l : list N) : bool := existsb (N.eqb x) l.

(* HashMap built by repeated `insert`: a later entry with the same key replaces an earlier one *)
Fixpoint get_last {A} (k : N) (l : list (N * A)) : option A :=
  match l with
  | [] => None
  | (k', v) :: r =>
      match get_last k r with
      | Some w => Some w
      | None => if N.eqb k k' then Some v else None
      end
  end.

(* HashMap filled with "insert unless present": the first entry with a key stays *)
Fixpoint get_first {A} (k : N) (l : list (N * A)) : option A :=
  match l with
  | [] => None
  | (k', v) :: r => if N.eqb k k' then Some v else get_first k r
  end.
