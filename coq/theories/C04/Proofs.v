(* C04 — proofs over the GENERATED operator tables. *)
From Coq Require Import ZArith Lia Bool String List.
From SV Require Import Common.Int32 C04.Sem.
From SVG Require Import OpsTable.
Open Scope Z_scope.

Lemma known_C04_div_spec op a b : known_C04_div op a b = true <-> Known_C04_div op a b.
Proof.
  unfold Known_C04_div. destruct op; cbn; try (split; [discriminate|intros [E _]; discriminate]).
  rewrite !andb_true_iff, !negb_true_iff, Z.eqb_neq, Z.eqb_neq. split.
  - intros [[H1 H2] H3]. repeat split; auto. intros E. rewrite E in H3. now rewrite eqb_reflx in H3.
  - intros [_ [H1 [H2 H3]]]. repeat split; auto. destruct (a <? 0), (b <? 0); cbn; auto; congruence.
Qed.

(* floor division and truncating division agree unless the quotient is negative and inexact *)
Lemma div_quot_agree a b : b <> 0 -> (Z.rem a b = 0 \/ (a <? 0) = (b <? 0)) -> Z.div a b = Z.quot a b.
Proof.
  intros Hb [H|H].
  - apply Z.rem_divide in H; auto. destruct H as [k ->].
    rewrite Z.div_mul, Z.quot_mul; auto.
  - destruct (Z.ltb_spec a 0), (Z.ltb_spec b 0); try discriminate.
    + rewrite <- (Z.opp_involutive a), <- (Z.opp_involutive b).
      rewrite Z.quot_opp_opp, Zdiv_opp_opp by lia. symmetry. apply Z.quot_div_nonneg; lia.
    + apply eq_sym, Z.quot_div_nonneg; lia.
Qed.
Lemma div_quot_differ a b : b <> 0 -> Z.rem a b <> 0 -> (a <? 0) <> (b <? 0) -> Z.div a b <> Z.quot a b.
Proof.
  intros Hb Hr Hs E.
  pose proof (Z.quot_rem' a b) as Q. pose proof (Z.div_mod a b Hb) as D. rewrite E in D.
  assert (Z.rem a b = a mod b) by lia.
  pose proof (Z.rem_bound_neg_pos a b). pose proof (Z.rem_bound_pos_pos a b).
  pose proof (Z.rem_bound_neg_neg a b). pose proof (Z.rem_bound_pos_neg a b).
  destruct (Z.ltb_spec a 0), (Z.ltb_spec b 0); try congruence.
  - pose proof (Z.mod_pos_bound a b). lia.
  - pose proof (Z.mod_neg_bound a b). lia.
Qed.

(* whenever the TypeScript result is a 32-bit value (no overflow), WebAssembly computes the same *)
Theorem backends_agree_binop op a b r :
  in32 a -> in32 b -> known_C04_div op a b = false ->
  ts_sem (emit_ts op) a b = Some r -> in32 r ->
  wasm_sem (emit_wasm op) a b = Some (Val r).
Proof.
  intros Ha Hb Hk Ht Hr.
  destruct op; cbn in Ht; cbn [emit_wasm wasm_sem String.eqb Ascii.eqb Bool.eqb]; cbn.
  - inversion Ht; subst. now rewrite wrap32_id.
  - (* DIV *) destruct (Z.eqb_spec b 0) as [Hb0|Hb0]; [discriminate|]. inversion Ht; subst r. clear Ht.
    assert (Hagree : Z.rem a b = 0 \/ (a <? 0) = (b <? 0)).
    { cbn in Hk. destruct (Z.eqb_spec b 0); [contradiction|]. cbn in Hk.
      destruct (Z.eqb_spec (Z.rem a b) 0); [auto|]. cbn in Hk. right.
      destruct (a <? 0), (b <? 0); cbn in Hk; auto; discriminate. }
    rewrite (div_quot_agree a b Hb0 Hagree) in *.
    destruct ((a =? MIN) && (b =? -1)) eqn:E; [|reflexivity].
    exfalso. apply andb_prop in E. destruct E as [E1 E2]. apply Z.eqb_eq in E1, E2. subst.
    unfold in32, MIN, MAX in Hr. cbn in Hr. lia.
  - (* MOD *) destruct (Z.eqb_spec b 0); [discriminate|]. now inversion Ht.
  - inversion Ht; subst. now rewrite wrap32_id.
  - inversion Ht; subst. now rewrite wrap32_id.
  - now inversion Ht.
  - now inversion Ht.
  - now inversion Ht.
  - inversion Ht; subst. now rewrite wrap32_id.
  - now inversion Ht.
  - now inversion Ht.
  - now inversion Ht.
  - now inversion Ht.
  - now inversion Ht.
  - now inversion Ht.
  - now inversion Ht.
Qed.

(* the trapping inputs are the same: both divide/remainder by zero are undefined (excluded runs) *)
Theorem div_by_zero_excluded op a : (op = DIV \/ op = MOD) -> ts_sem (emit_ts op) a 0 = None.
Proof. intros [-> | ->]; reflexivity. Qed.

(* the open finding: inside the class the two back ends compute different quotients *)
Theorem div_known_class_differs a b :
  Known_C04_div DIV a b -> in32 a -> in32 b ->
  exists r1 r2, ts_sem (emit_ts DIV) a b = Some r1 /\ wasm_sem (emit_wasm DIV) a b = Some (Val r2) /\ r1 <> r2.
Proof.
  intros [_ [Hb [Hr Hs]]] Ha Hbr. exists (Z.div a b), (Z.quot a b). cbn.
  destruct (Z.eqb_spec b 0); [contradiction|]. split; [reflexivity|]. split.
  - destruct ((a =? MIN) && (b =? -1)) eqn:E; [|reflexivity].
    exfalso. apply andb_prop in E. destruct E as [E1 E2]. apply Z.eqb_eq in E1, E2. subst. cbn in Hr. congruence.
  - now apply div_quot_differ.
Qed.
