(* C04 — property theorems about the regenerated operator tables. *)
From Coq Require Import ZArith Lia Bool String List.
From SV Require Import Common.Int32 C04.Sem C04.Proofs.
From SVG Require Import OpsTable.
Open Scope Z_scope.

(* for every operator and all 32-bit operands: if the emitted TypeScript yields a 32-bit value
   (the run does not overflow) the emitted WebAssembly instruction yields the same value,
   outside the listed finding (floor vs truncating division) *)
Theorem C04_backends_agree_binop : forall op a b r,
  in32 a -> in32 b -> known_C04_div op a b = false ->
  ts_sem (emit_ts op) a b = Some r -> in32 r ->
  wasm_sem (emit_wasm op) a b = Some (Val r).
Proof. exact backends_agree_binop. Qed.

Theorem C04_known_div_class_exact : forall op a b, known_C04_div op a b = true <-> Known_C04_div op a b.
Proof. exact known_C04_div_spec. Qed.

(* inside the listed class the back ends really differ: the finding is not vacuous *)
Theorem C04_div_known_class_differs : forall a b, Known_C04_div DIV a b -> in32 a -> in32 b ->
  exists r1 r2, ts_sem (emit_ts DIV) a b = Some r1 /\ wasm_sem (emit_wasm DIV) a b = Some (Val r2) /\ r1 <> r2.
Proof. exact div_known_class_differs. Qed.

Example C04_div_witness : ts_sem (emit_ts DIV) (-7) 2 = Some (-4) /\ wasm_sem (emit_wasm DIV) (-7) 2 = Some (Val (-3)).
Proof. vm_compute. split; reflexivity. Qed.
Example C04_nonvacuous : ts_sem (emit_ts DIV) 7 2 = Some 3 /\ known_C04_div DIV 7 2 = false /\
  ts_sem (emit_ts SHR) (-1) 1 = Some 2147483647 /\ ts_sem (emit_ts LT) (-5) 3 = Some 1.
Proof. vm_compute. repeat split. Qed.

Print Assumptions C04_backends_agree_binop.
Print Assumptions C04_known_div_class_exact.
Print Assumptions C04_div_known_class_differs.
