(* C04 — meaning of the operator code the two back ends emit.  The tables themselves
   (emit_ts, emit_wasm) are GENERATED from the real printers on every run (generated/OpsTable.v);
   this file gives the tiny expression languages they are written in and their semantics over
   32-bit operands.  Definitions only. *)
From Coq Require Import ZArith String Bool List.
From SV Require Import Common.Int32.
Open Scope string_scope.
Open Scope Z_scope.

(* what the LIR printer emits on the right-hand side of `let r = ...;` for `a OP b` *)
Inductive ts_expr :=
| TsInfix (op : string)                 (* a op b *)
| TsCall (f : string) (e : ts_expr)     (* f(e) *)
| TsUnknown (text : string).            (* a shape the translator does not know: no semantics *)

(* JavaScript semantics on operands that are 32-bit integers (JsNum fragment).  Results are exact
   integers; `+ - *` do NOT wrap in JavaScript.  `a / b` is only given meaning under Math.floor:
   for 32-bit operands the double quotient rounds to the same floor as the exact quotient
   (|quotient| * |divisor| < 2^32 fits the 53-bit mantissa) - recorded as an assumption and
   sampled against node by the check. *)
Definition js_infix (op : string) (a b : Z) : option Z :=
  if String.eqb op "+" then Some (a + b)
  else if String.eqb op "-" then Some (a - b)
  else if String.eqb op "*" then Some (a * b)
  else if String.eqb op "%" then (if b =? 0 then None else Some (Z.rem a b))
  else if String.eqb op "&" then Some (Z.land a b)
  else if String.eqb op "|" then Some (Z.lor a b)
  else if String.eqb op "^" then Some (Z.lxor a b)
  else if String.eqb op "<<" then Some (wrap32 (a * 2 ^ (b mod 32)))
  else if String.eqb op ">>>" then Some (unsigned a / 2 ^ (b mod 32))        (* ToUint32: non-negative *)
  else None.
Definition js_cmp (op : string) (a b : Z) : option bool :=
  if String.eqb op "<" then Some (a <? b)
  else if String.eqb op "<=" then Some (a <=? b)
  else if String.eqb op ">" then Some (b <? a)
  else if String.eqb op ">=" then Some (b <=? a)
  else if String.eqb op "==" then Some (a =? b)
  else if String.eqb op "===" then Some (a =? b)
  else if String.eqb op "!=" then Some (negb (a =? b))
  else if String.eqb op "!==" then Some (negb (a =? b))
  else None.

Definition ts_sem (e : ts_expr) (a b : Z) : option Z :=
  match e with
  | TsInfix op => js_infix op a b
  | TsCall f (TsInfix op) =>
      if String.eqb f "Math.floor" then (if String.eqb op "/" then (if b =? 0 then None else Some (Z.div a b)) else None)
      else if String.eqb f "Math.trunc" then (if String.eqb op "/" then (if b =? 0 then None else Some (Z.quot a b)) else None)
      else if String.eqb f "Number" then option_map b2z (js_cmp op a b)
      else None
  | _ => None
  end.

(* the WebAssembly instruction, by name *)
Definition wasm_sem (instr : string) (a b : Z) : option rt :=
  if String.eqb instr "i32.mul" then Some (rt_binop MUL a b)
  else if String.eqb instr "i32.div_s" then Some (rt_binop DIV a b)
  else if String.eqb instr "i32.rem_s" then Some (rt_binop MOD a b)
  else if String.eqb instr "i32.add" then Some (rt_binop PLUS a b)
  else if String.eqb instr "i32.sub" then Some (rt_binop MINUS a b)
  else if String.eqb instr "i32.and" then Some (rt_binop LAND a b)
  else if String.eqb instr "i32.or" then Some (rt_binop LOR a b)
  else if String.eqb instr "i32.shl" then Some (rt_binop SHL a b)
  else if String.eqb instr "i32.shr_u" then Some (rt_binop SHR a b)
  else if String.eqb instr "i32.xor" then Some (rt_binop XOR a b)
  else if String.eqb instr "i32.lt_s" then Some (rt_binop LT a b)
  else if String.eqb instr "i32.le_s" then Some (rt_binop LE a b)
  else if String.eqb instr "i32.gt_s" then Some (rt_binop GT a b)
  else if String.eqb instr "i32.ge_s" then Some (rt_binop GE a b)
  else if String.eqb instr "i32.eq" then Some (rt_binop EQ a b)
  else if String.eqb instr "i32.ne" then Some (rt_binop NE a b)
  else None.

(* the open finding: floor division vs truncating division on a negative inexact quotient *)
Definition Known_C04_div (op : binop) (a b : Z) : Prop :=
  op = DIV /\ b <> 0 /\ Z.rem a b <> 0 /\ ((a <? 0) <> (b <? 0)).
Definition known_C04_div (op : binop) (a b : Z) : bool :=
  match op with
  | DIV => negb (b =? 0) && negb (Z.rem a b =? 0) && negb (Bool.eqb (a <? 0) (b <? 0))
  | _ => false
  end.
