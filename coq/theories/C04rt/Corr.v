(* C04rt - evaluation of driver programs on the two models (used by checks/c04_rt.py with vm_compute).
   A driver is a list of statements; each statement is one call of a built-in whose result is printed (or not).
   `wasm_run` / `ts_run` give the transcript (printed lines, ending) the model predicts for the emitted WebAssembly /
   the emitted TypeScript; `fails` compares them with the transcripts observed on the real engines. *)
From Coq Require Import ZArith NArith List Bool.
From SV Require Import Common.Int32 C04rt.Model.
Import ListNotations.
Open Scope Z_scope.

Inductive vnew := VEmpty | VCap (c : Z) | VOf (x : Z).
Inductive stmt :=
| SFromInt (n : Z)                         (* Process.println(Str.fromInt(n)) *)
| SToInt (s : str)                         (* Process.println(Str.fromInt(s.toInt())) *)
| SRound (n : Z)                           (* Process.println(Str.fromInt(Str.fromInt(n).toInt())) *)
| SConcat (a b : str)                      (* Process.println(a :: b) *)
| SStrEq (same ne : bool) (a b : str)      (* show(a == b) / show(a != b): prints T or F *)
| SPrint (s : str)                         (* Process.println(s) *)
| SPanic (s : str)                         (* Process.panic(s) *)
| SVNew (slot : nat) (k : vnew)            (* let v = Vec.empty<int>() | Vec.withCapacity<int>(c) | Vec.of(x) *)
| SVPush (slot : nat) (x : Z)              (* v.push(x) *)
| SVPop (slot : nat)                       (* Process.println(Str.fromInt(v.pop())) *)
| SVGet (slot : nat) (i : Z)               (* Process.println(Str.fromInt(v.get(i))) *)
| SVSet (slot : nat) (i : Z) (x : Z)       (* v.set(i, x) *)
| SVLen (slot : nat)                       (* Process.println(Str.fromInt(v.length())) *)
| SVReserve (slot : nat) (n : Z)           (* v.reserve(n) *)
| SVEq (s1 s2 : nat).                      (* show(v1.eq(v2)) *)

Inductive ending := ERet | ETrap (t : trapkind) | EThrow (m : str) | EFuel | EBadDriver.

Definition show (b : Z) : str := if b =? 0 then [70]%N else [84]%N.
Definition setnth {A} (l : list (option A)) (i : nat) (x : A) : list (option A) :=
  upd (l ++ repeat None (S i - length l)) i (Some x).
Definition getslot {A} (l : list (option A)) (i : nat) : option A := nth i l None.

(* ---- the emitted WebAssembly: Vec<int> elements are boxed as i31 at the call site, strings leave through loader.js *)
Notation wstate := (list (option (wvec Z))).
Definition wasm_int_line (n : Z) : res (option str) := s <- wasm_fromInt n ;; Ok (Some (wasm_host_string s)).
Definition wexec (st : wstate) (s : stmt) : res (option str * wstate) + unit :=
  let ret (r : res (option str)) := inl (l <- r ;; Ok (l, st)) in
  let withv slot (k : wvec Z -> res (option str * wstate)) :=
    match getslot st slot with Some v => inl (k v) | None => inr tt end in
  match s with
  | SFromInt n => ret (wasm_int_line n)
  | SToInt s => ret (n <- wasm_toInt s ;; wasm_int_line n)
  | SRound n => ret (s <- wasm_fromInt n ;; m <- wasm_toInt s ;; wasm_int_line m)
  | SConcat a b => ret (s <- wasm_concat a b ;; Ok (Some (wasm_host_string s)))
  | SStrEq same ne a b => ret (r <- wasm_str_eq same a b ;; Ok (Some (show (if ne then Z.lxor r 1 else r))))
  | SPrint s => ret (Ok (Some (wasm_host_string s)))
  | SPanic s => ret (Throw (wasm_host_string s))
  | SVNew slot k =>
      inl (v <- match k with
                | VEmpty => wasm_vec_empty Z
                | VCap c => wasm_vec_withCapacity Z c
                | VOf x => wasm_vec_of Z (box31 x)
                end ;; Ok (None, setnth st slot v))
  | SVPush slot x => withv slot (fun v => '(_, v) <- wasm_vec_push Z v (box31 x) ;; Ok (None, setnth st slot v))
  | SVPop slot => withv slot (fun v => '(x, v) <- wasm_vec_pop Z v ;; l <- wasm_int_line (unbox31 x) ;; Ok (l, setnth st slot v))
  | SVGet slot i => withv slot (fun v => x <- wasm_vec_get Z v i ;; l <- wasm_int_line (unbox31 x) ;; Ok (l, st))
  | SVSet slot i x => withv slot (fun v => '(_, v) <- wasm_vec_set Z v i (box31 x) ;; Ok (None, setnth st slot v))
  | SVLen slot => withv slot (fun v => l <- wasm_int_line (wasm_vec_length Z v) ;; Ok (l, st))
  | SVReserve slot n => withv slot (fun v => '(_, v) <- wasm_vec_reserve Z v n ;; Ok (None, setnth st slot v))
  | SVEq s1 s2 =>
      match getslot st s1, getslot st s2 with
      | Some a, Some b => inl (r <- wasm_vec_eq Z Z.eqb (Nat.eqb s1 s2) a b ;; Ok (Some (show r), st))
      | _, _ => inr tt
      end
  end.

(* ---- the emitted TypeScript *)
Notation tstate := (list (option (tvec Z))).
Definition ts_int_line (n : Z) : option str := Some (ts_host_string (ts_fromInt (JInt n))).
Definition texec (st : tstate) (s : stmt) : res (option str * tstate) + unit :=
  let ret (r : res (option str)) := inl (l <- r ;; Ok (l, st)) in
  let withv slot (k : tvec Z -> res (option str * tstate)) :=
    match getslot st slot with Some v => inl (k v) | None => inr tt end in
  match s with
  | SFromInt n => ret (Ok (ts_int_line n))
  | SToInt s => ret (v <- ts_toInt s ;; Ok (Some (ts_host_string (ts_fromInt v))))
  | SRound n => ret (v <- ts_toInt (ts_fromInt (JInt n)) ;; Ok (Some (ts_host_string (ts_fromInt v))))
  | SConcat a b => ret (Ok (Some (ts_host_string (ts_concat a b))))
  | SStrEq same ne a b => ret (Ok (Some (show (if ne then b2z (negb (js_str_strict_eq a b)) else ts_str_eq a b))))
  | SPrint s => ret (Ok (Some (ts_host_string s)))
  | SPanic s => ret (Throw (ts_host_string s))
  | SVNew slot k =>
      inl (Ok (None, setnth st slot match k with
                                     | VEmpty => ts_vec_empty Z
                                     | VCap c => ts_vec_withCapacity Z c
                                     | VOf x => ts_vec_of Z x
                                     end))
  | SVPush slot x => withv slot (fun v => let '(_, v) := ts_vec_push Z v x in Ok (None, setnth st slot v))
  | SVPop slot => withv slot (fun v => '(x, v) <- ts_vec_pop Z v ;; Ok (ts_int_line x, setnth st slot v))
  | SVGet slot i => withv slot (fun v => x <- ts_vec_get Z v i ;; Ok (ts_int_line x, st))
  | SVSet slot i x => withv slot (fun v => '(_, v) <- ts_vec_set Z v i x ;; Ok (None, setnth st slot v))
  | SVLen slot => withv slot (fun v => Ok (ts_int_line (ts_vec_length Z v), st))
  | SVReserve slot n => withv slot (fun v => let '(_, v) := ts_vec_reserve Z v n in Ok (None, setnth st slot v))
  | SVEq s1 s2 =>
      match getslot st s1, getslot st s2 with
      | Some a, Some b => inl (r <- ts_vec_eq Z Z.eqb (Nat.eqb s1 s2) a b ;; Ok (Some (show r), st))
      | _, _ => inr tt
      end
  end.

Section Run.
  Context {S : Type} (exec : S -> stmt -> res (option str * S) + unit).
  Fixpoint run (st : S) (p : list stmt) (acc : list str) : list str * ending :=
    match p with
    | [] => (rev acc, ERet)
    | s :: p' =>
        match exec st s with
        | inr _ => (rev acc, EBadDriver)
        | inl (Ok (l, st')) => run st' p' (match l with Some x => x :: acc | None => acc end)
        | inl (Trap t) => (rev acc, ETrap t)
        | inl (Throw m) => (rev acc, EThrow m)
        | inl OutOfFuel => (rev acc, EFuel)
        end
    end.
End Run.
Definition wasm_run (p : list stmt) : list str * ending := run wexec [] p [].
Definition ts_run (p : list stmt) : list str * ending := run texec [] p [].

(* ---- comparison with observed transcripts *)
Fixpoint str_eqb (a b : str) : bool :=
  match a, b with [], [] => true | x :: a', y :: b' => N.eqb x y && str_eqb a' b' | _, _ => false end.
Definition trap_eqb (a b : trapkind) : bool :=
  match a, b with
  | TUnreachable, TUnreachable | TArrayOOB, TArrayOOB | TNullRef, TNullRef | TAllocTooLarge, TAllocTooLarge => true
  | _, _ => false
  end.
Definition ending_eqb (a b : ending) : bool :=
  match a, b with
  | ERet, ERet => true
  | ETrap x, ETrap y => trap_eqb x y
  | EThrow x, EThrow y => str_eqb x y
  | _, _ => false
  end.
Fixpoint line_mismatches (i : N) (model obs : list str) : list N :=
  match model, obs with
  | x :: m', y :: o' => (if str_eqb x y then [] else [i]) ++ line_mismatches (i + 1) m' o'
  | _, _ => []
  end.
(* (indices of differing lines, same number of lines and same ending) *)
Definition compare (model obs : list str * ending) : list N * bool :=
  (line_mismatches 0 (fst model) (fst obs),
   Nat.eqb (length (fst model)) (length (fst obs)) && ending_eqb (snd model) (snd obs)).
Definition clean (r : list N * bool) : bool := match r with ([], true) => true | _ => false end.

Record case := mkCase { prog : list stmt; obs_wasm : list str * ending; obs_ts : list str * ending }.
Definition check_case (c : case) : (list N * bool) * (list N * bool) :=
  (compare (wasm_run (prog c)) (obs_wasm c), compare (ts_run (prog c)) (obs_ts c)).
Fixpoint fails (i : N) (cs : list case) : list (N * ((list N * bool) * (list N * bool))) :=
  match cs with
  | [] => []
  | c :: r => let k := check_case c in
              (if clean (fst k) && clean (snd k) then [] else [(i, k)]) ++ fails (i + 1) r
  end.
(* the same, as one flat list of numbers (easy to read back):
   per failing case: index, #wasm lines, those line indices, wasm ok?, #ts lines, those line indices, ts ok? *)
Definition b2n (b : bool) : N := if b then 1%N else 0%N.
Definition flat_one (x : N * ((list N * bool) * (list N * bool))) : list N :=
  let '(i, ((lw, bw), (lt, bt))) := x in
  [i; N.of_nat (length lw)] ++ lw ++ [b2n bw; N.of_nat (length lt)] ++ lt ++ [b2n bt].
Definition flat_fails (cs : list case) : list N := flat_map flat_one (fails 0 cs).
(* the two predicted transcripts of a driver (for reports) *)
Definition predict (p : list stmt) := (wasm_run p, ts_run p).
