(* C04rt - the RUNTIME LIBRARY of the two back ends (C04, and the run-time half of C01).
   Every built-in function exists twice, written by hand:
     - in WebAssembly text: /repo/crates/samlang-compiler/src/libsam.wat
     - in the TypeScript prolog: /repo/crates/samlang-ast/src/lir.rs, fn ts_prolog
   (string equality on the TypeScript side is the operator the LIR printer emits, lir.rs Statement::Binary).
   For EACH built-in this file has
     wasm_<f>  : the .wat function, instruction by instruction, over Common/Int32 (i32 = Z in [MIN, MAX], wrap-around
                 arithmetic, packed i8 arrays as lists of bytes, loops as recursion on fuel: running out of fuel is the
                 result OutOfFuel, never a value);
     ts_<f>    : the prolog arrow function, statement by statement, over the small fragment of JavaScript it uses
                 (js_String, js_parseInt10, string +, ===, array length / push / pop / index) - those js_* functions are
                 written down from ECMA-262 and are TRUSTED (listed in the trusted base, sampled against node on every run);
     spec_<f>  : one specification.
   Definitions only: this file must keep running (vm_compute) when a proof breaks.
   The line numbers in the comments are those of libsam.wat at the time of writing; checks/c04_rt.py holds a hash of the
   text of every function modelled here and reports a stale model when the text changes. *)
From Coq Require Import ZArith NArith List Bool.
From SV Require Import Common.Int32.
From SV Require C17.Model.
Import ListNotations.
Open Scope Z_scope.

(* ------------------------------------------------------------------------------------------------------------------ *)
(* 0. values, results                                                                                                   *)
(* ------------------------------------------------------------------------------------------------------------------ *)

(* a string: WebAssembly side = the bytes of an (array (mut i8)); TypeScript side = the UTF-16 code units of a JS string.
   The two coincide on ASCII text, which is what reaches these functions outside the open finding C04-string-constants. *)
Notation str := (list N).

Inductive trapkind := TUnreachable | TArrayOOB | TNullRef | TAllocTooLarge.
Inductive res (A : Type) :=
| Ok (a : A)
| Trap (t : trapkind)          (* WebAssembly trap *)
| Throw (msg : str)            (* JavaScript `throw Error(msg)` *)
| OutOfFuel.
Arguments Ok {A} a. Arguments Trap {A} t. Arguments Throw {A} msg. Arguments OutOfFuel {A}.

Definition bind {A B} (r : res A) (k : A -> res B) : res B :=
  match r with Ok a => k a | Trap t => Trap t | Throw m => Throw m | OutOfFuel => OutOfFuel end.
Notation "x <- e ;; k" := (bind e (fun x => k)) (at level 61, e at next level, right associativity).
Notation "' p <- e ;; k" := (bind e (fun p => k)) (at level 61, p pattern, e at next level, right associativity).

(* ------------------------------------------------------------------------------------------------------------------ *)
(* 1. the WebAssembly instructions used by libsam.wat (i32 values are Z in [MIN, MAX])                                  *)
(* ------------------------------------------------------------------------------------------------------------------ *)
Definition i32_add (a b : Z) : Z := wrap32 (a + b).
Definition i32_sub (a b : Z) : Z := wrap32 (a - b).
Definition i32_mul (a b : Z) : Z := wrap32 (a * b).
Definition i32_div_u (a b : Z) : Z := wrap32 (unsigned a / unsigned b).     (* only used with divisors 10 and 2 *)
Definition i32_and (a b : Z) : Z := Z.land a b.
Definition i32_or (a b : Z) : Z := Z.lor a b.
Definition i32_shl (a b : Z) : Z := wrap32 (a * 2 ^ (b mod 32)).
Definition i32_eq (a b : Z) : Z := b2z (a =? b).
Definition i32_ne (a b : Z) : Z := b2z (negb (a =? b)).
Definition i32_eqz (a : Z) : Z := b2z (a =? 0).
Definition i32_lt_s (a b : Z) : Z := b2z (a <? b).
Definition i32_le_s (a b : Z) : Z := b2z (a <=? b).
Definition i32_gt_s (a b : Z) : Z := b2z (b <? a).
Definition i32_ge_s (a b : Z) : Z := b2z (b <=? a).
Definition i32_gt_u (a b : Z) : Z := b2z (unsigned b <? unsigned a).
Definition i32_ge_u (a b : Z) : Z := b2z (unsigned b <=? unsigned a).
Definition i32_select (v1 v2 c : Z) : Z := if c =? 0 then v2 else v1.
(* br_if / if: the condition is taken iff the operand is not zero *)
Definition nz (c : Z) : bool := negb (c =? 0).

(* packed i8 arrays: array.set keeps the low 8 bits, array.get_s sign-extends *)
Definition get_s (b : N) : Z := if (b <? 128)%N then Z.of_N b else Z.of_N b - 256.
Definition pack8 (v : Z) : N := Z.to_N (v mod 256).

Definition alen {A} (a : list A) : Z := Z.of_nat (length a).
(* an i32 index is compared UNSIGNED with the length: negative indices are out of bounds *)
Definition inb {A} (a : list A) (i : Z) : bool := (0 <=? i) && (i <? alen a).
Fixpoint upd {A} (l : list A) (i : nat) (x : A) : list A :=
  match l, i with
  | [], _ => []
  | _ :: t, O => x :: t
  | h :: t, S k => h :: upd t k x
  end.

Definition arr_new {A} (v : A) (n : Z) : res (list A) :=
  if 0 <=? n then Ok (repeat v (Z.to_nat n)) else Trap TAllocTooLarge.     (* n >= 2^31 unsigned: engine limit *)
Definition arr_get {A} (d : A) (a : list A) (i : Z) : res A :=
  if inb a i then Ok (nth (Z.to_nat i) a d) else Trap TArrayOOB.
Definition arr_set {A} (a : list A) (i : Z) (x : A) : res (list A) :=
  if inb a i then Ok (upd a (Z.to_nat i) x) else Trap TArrayOOB.
Definition arr_get_s (a : str) (i : Z) : res Z := b <- arr_get 0%N a i ;; Ok (get_s b).
Definition arr_set8 (a : str) (i : Z) (v : Z) : res str := arr_set a i (pack8 v).
(* array.copy dst d src s n *)
Definition arr_copy {A} (dst : list A) (d : Z) (src : list A) (s : Z) (n : Z) : res (list A) :=
  if (0 <=? d) && (0 <=? s) && (0 <=? n) && (s + n <=? alen src) && (d + n <=? alen dst)
  then Ok (firstn (Z.to_nat d) dst ++ firstn (Z.to_nat n) (skipn (Z.to_nat s) src) ++ skipn (Z.to_nat (d + n)) dst)
  else Trap TArrayOOB.

(* (data $d0 "0\00-2147483648Vec index out of boundspop from empty Vec") and array.new_data $_Str $d0 off size *)
Definition d0 : str := [48; 0; 45; 50; 49; 52; 55; 52; 56; 51; 54; 52; 56;
  86;101;99;32;105;110;100;101;120;32;111;117;116;32;111;102;32;98;111;117;110;100;115;
  112;111;112;32;102;114;111;109;32;101;109;112;116;121;32;86;101;99]%N.
Definition new_data (off size : Z) : res str :=
  if (0 <=? off) && (0 <=? size) && (off + size <=? alen d0)
  then Ok (firstn (Z.to_nat size) (skipn (Z.to_nat off) d0)) else Trap TArrayOOB.
(* (drop (call $__Process$panic this ($__$getBuiltinString off size))) (unreachable): the import throws Error(text) in
   loader.js, so the `unreachable` behind it is never executed *)
Definition wasm_panic_builtin {A} (off size : Z) : res A := m <- new_data off size ;; Throw m.

(* ------------------------------------------------------------------------------------------------------------------ *)
(* 2. Str.fromInt                                                                                                       *)
(* ------------------------------------------------------------------------------------------------------------------ *)

(* ---- specification: the decimal representation of a signed 32-bit integer (C17.Model.dec: digits of an N) *)
Definition spec_dec (n : Z) : str :=
  if n <? 0 then 45%N :: C17.Model.dec (Z.to_N (- n)) else C17.Model.dec (Z.to_N n).

(* ---- WebAssembly: $__Str$fromInt, libsam.wat 35-152 *)
(* $find_size_loop (67-78): locals temp, arr_size *)
Fixpoint fi_size_loop (fuel : nat) (temp arr_size : Z) : res (Z * Z) :=
  match fuel with
  | O => OutOfFuel
  | S f =>
      if nz (i32_lt_s temp 1) then Ok (temp, arr_size)                         (* br_if $find_size_block *)
      else fi_size_loop f (i32_div_u temp 10) (i32_add arr_size 1)
  end.
(* $set_characters_loop (85-108): locals conversion_result, len, p0, new_in *)
Fixpoint fi_digits_loop (fuel : nat) (arr : str) (len p0 new_in : Z) : res (str * Z * Z * Z) :=
  match fuel with
  | O => OutOfFuel
  | S f =>
      if nz (i32_lt_s p0 1) then Ok (arr, len, p0, new_in)                     (* br_if $set_characters_loop_block *)
      else
        let new_in := i32_div_u p0 10 in                                       (* local.tee $new_in *)
        arr <- arr_set8 arr len (i32_or (i32_sub p0 (i32_mul new_in 10)) 48) ;;
        fi_digits_loop f arr (i32_add len 1) new_in new_in
  end.
(* $reverse_block_loop (118-145): locals conversion_result, len, temp, rev_index; reads arr_half_point, arr_size, is_negative *)
Fixpoint fi_reverse_loop (fuel : nat) (arr : str) (len half arr_size is_negative : Z) : res str :=
  match fuel with
  | O => OutOfFuel
  | S f =>
      if nz (i32_ge_s len half) then Ok arr                                    (* br_if $B0 *)
      else
        temp <- arr_get_s arr len ;;
        let rev_index := i32_add (i32_sub (i32_sub arr_size len) 1) is_negative in
        x <- arr_get_s arr rev_index ;;
        arr <- arr_set8 arr len x ;;
        arr <- arr_set8 arr rev_index temp ;;
        fi_reverse_loop f arr (i32_add len 1) half arr_size is_negative
  end.
Definition FI_FUEL : nat := 16.
Definition wasm_fromInt (p0 : Z) : res str :=
  if nz (i32_eq p0 (-2147483648)) then new_data 2 11                           (* br_if $B1 ... 147-149 *)
  else if negb (nz p0) then new_data 0 1                                       (* 43-49 *)
  else
    let temp := p0 in
    let '(p0, is_negative, len, arr_size) :=
      if nz (i32_gt_s p0 (-1)) then (p0, 0, 0, 0) else (i32_sub 0 p0, 1, 1, 1) in           (* 54-61 *)
    let temp := if nz (i32_gt_s temp (-1)) then temp else i32_sub 0 temp in                 (* 63-66 *)
    '(temp, arr_size) <- fi_size_loop FI_FUEL temp arr_size ;;
    arr <- arr_new 0%N arr_size ;;                                                          (* 79 *)
    arr <- (if nz (i32_eqz is_negative) then Ok arr else arr_set8 arr 0 45) ;;              (* 81-84 *)
    '(arr, len, p0, new_in) <- fi_digits_loop FI_FUEL arr len p0 0 ;;
    let arr_half_point := i32_add (i32_div_u (i32_sub len is_negative) 2) is_negative in    (* 110-115 *)
    let len := is_negative in                                                               (* 117 *)
    fi_reverse_loop FI_FUEL arr len arr_half_point arr_size is_negative.

(* ---- TypeScript: (_, v) => [1, String(v)] *)
(* the numbers that reach the prolog: integers that a double holds exactly (|z| <= 2^53), -0 and NaN (both produced by
   parseInt), and JBig z: "the double nearest to an integer z beyond 2^53" - its value is NOT modelled (no theorem and no
   differential case says anything about it) *)
Inductive jsnum := JInt (z : Z) | JNegZero | JNaN | JBig (z : Z).
Definition JS_EXACT : Z := 9007199254740992.      (* 2^53 *)
(* Number::toString(x, 10) for an integer 0 <= k < 10^21: "the digits of the decimal representation of k" *)
Fixpoint js_digits (fuel : nat) (k : Z) : str :=
  match fuel with
  | O => []
  | S f => if k <? 10 then [Z.to_N (48 + k)] else js_digits f (k / 10) ++ [Z.to_N (48 + k mod 10)]
  end.
Definition js_String (v : jsnum) : str :=
  match v with
  | JNaN => [78; 97; 78]%N
  | JNegZero => [48]%N
  | JInt z => if z <? 0 then 45%N :: js_digits 40 (- z) else js_digits 40 z
  | JBig _ => []                                                               (* not modelled *)
  end.
Definition ts_fromInt (v : jsnum) : str := js_String v.

(* ------------------------------------------------------------------------------------------------------------------ *)
(* 3. Str.toInt                                                                                                         *)
(* ------------------------------------------------------------------------------------------------------------------ *)
Definition is_digit (c : N) : bool := ((48 <=? c) && (c <=? 57))%N.
Definition digits_value (ds : str) : Z := fold_left (fun a d => 10 * a + (Z.of_N d - 48)) ds 0.

(* ---- specification: an optional '-' followed by at least one digit; the value is not bounded here *)
Definition spec_parse (s : str) : option Z :=
  match s with
  | 45%N :: (_ :: _) as ds => if forallb is_digit ds then Some (- digits_value ds) else None
  | _ :: _ => if forallb is_digit s then Some (digits_value s) else None
  | [] => None
  end.

(* ---- WebAssembly: $__Str$toInt, libsam.wat 153-206 *)
(* loop $L2 (169-196): None = br_if $B0 taken (a character that is not a digit), Some num = left through $B1 *)
Fixpoint ti_loop (fuel : nat) (p0 : str) (len i num : Z) : res (option Z) :=
  match fuel with
  | O => OutOfFuel
  | S f =>
      if nz (i32_ge_s i len) then Ok (Some num)                                (* br_if $B1 *)
      else
        character <- arr_get_s p0 i ;;
        if nz (i32_gt_u (i32_and (i32_add character (-48)) 255) 9) then Ok None      (* br_if $B0 *)
        else ti_loop f p0 len (i32_add i 1) (i32_add (i32_add (i32_mul num 10) character) (-48))
  end.
(* everything after the empty-string check, 160-205 *)
Definition wasm_toInt_body (p0 : str) (len : Z) : res Z :=
  c0 <- arr_get_s p0 0 ;;                                                      (* 164 *)
  let neg := i32_eq 45 c0 in
  let num := 0 in
  let i := neg in
  r <- ti_loop (S (length p0)) p0 len i num ;;
  match r with
  | Some num => Ok (i32_select (i32_sub 0 num) num neg)                        (* 197-203 *)
  | None => Ok 0                                                               (* 205 *)
  end.
Definition wasm_toInt (p0 : str) : res Z :=
  let len := alen p0 in                                                        (* 156 *)
  if nz (i32_eqz len) then Ok 0                                                (* 159: (br_if $B0 (i32.eqz len)); 205 *)
  else wasm_toInt_body p0 len.
(* REGRESSION, before fix d2dae6b: line 159 was (block $B0 (br_if $B0 (local.get $len))) - the inner block was also
   called $B0, so the branch left only the inner block and both outcomes of the test continued: the empty array trapped
   at the array.get_s of line 164 *)
Definition wasm_toInt_old (p0 : str) : res Z :=
  let len := alen p0 in
  let _ := nz len in
  wasm_toInt_body p0 len.

(* ---- TypeScript (since fix 0289470):
   ([, v]) => { const s = v; for (let i = s[0] === '-' ? 1 : 0; i < s.length; i++) { const c = s.charCodeAt(i);
                if (c < 48 || c > 57) return 0; } return parseInt(s, 10) | 0; }
   parseInt(s, 10) is ECMA-262 19.2.5 with radix 10 *)
(* StrWhiteSpaceChar: WhiteSpace (TAB VT FF SP NBSP ZWNBSP USP) and LineTerminator (LF CR LS PS) *)
Definition js_is_ws (c : N) : bool :=
  existsb (N.eqb c) [9; 10; 11; 12; 13; 32; 160; 5760; 8232; 8233; 8239; 8287; 12288; 65279]%N
  || ((8192 <=? c) && (c <=? 8202))%N.
Fixpoint js_trim_start (s : str) : str :=
  match s with c :: r => if js_is_ws c then js_trim_start r else s | [] => [] end.
Fixpoint js_digit_prefix (s : str) : str :=
  match s with c :: r => if is_digit c then c :: js_digit_prefix r else [] | [] => [] end.
Definition js_parseInt10 (s : str) : jsnum :=
  let s1 := js_trim_start s in                                                 (* step 2 *)
  let '(sign, s2) := match s1 with                                             (* steps 3-5 *)
                     | 45%N :: r => (-1, r)
                     | 43%N :: r => (1, r)
                     | _ => (1, s1)
                     end in
  let z := js_digit_prefix s2 in                                               (* steps 11-12; radix 10: no 0x prefix *)
  match z with
  | [] => JNaN                                                                 (* step 13 *)
  | _ => let m := digits_value z in                                            (* step 14; a double is exact up to 2^53 *)
         if m =? 0 then (if sign =? -1 then JNegZero else JInt 0)
         else if m <=? JS_EXACT then JInt (sign * m) else JBig (sign * m)
  end.
(* x | 0 = ToInt32(x): NaN and -0 give 0, an exact integer is taken modulo 2^32 into [-2^31, 2^31) *)
Definition js_bitor0 (v : jsnum) : jsnum :=
  match v with JInt z => JInt (wrap32 z) | JNegZero => JInt 0 | JNaN => JInt 0 | JBig z => JBig z end.
(* the for loop: true = left through i < s.length, false = return 0 *)
Fixpoint tti_loop (fuel : nat) (s : str) (i : Z) : res bool :=
  match fuel with
  | O => OutOfFuel
  | S f =>
      if i <? alen s then
        match nth_error s (Z.to_nat i) with
        | Some c => if (c <? 48)%N || (57 <? c)%N then Ok false else tti_loop f s (i + 1)
        | None => tti_loop f s (i + 1)                                         (* NaN < 48, NaN > 57 are false; not reached *)
        end
      else Ok true
  end.
Definition ts_toInt (s : str) : res jsnum :=
  let i := match s with c :: _ => if (c =? 45)%N then 1 else 0 | [] => 0 end in    (* s[0] === '-' ? 1 : 0 *)
  r <- tti_loop (S (length s)) s i ;;
  if r then Ok (js_bitor0 (js_parseInt10 s)) else Ok (JInt 0).
(* REGRESSION, before fix 0289470: ([, v]) => parseInt(v, 10) *)
Definition ts_toInt_old (s : str) : jsnum := js_parseInt10 s.
(* one characterisation for both back ends: "" -> 0, optional '-' then digits only -> the value wrapped to 32 bits
   ("-" alone -> 0), anything else -> 0 *)
Definition toInt_digits (s : str) : str := match s with c :: r => if (c =? 45)%N then r else s | [] => [] end.
Definition toInt_spec (s : str) : Z :=
  match s with
  | [] => 0
  | c :: r => if forallb is_digit (toInt_digits s)
              then wrap32 ((if (c =? 45)%N then -1 else 1) * digits_value (toInt_digits s)) else 0
  end.
(* the 32-bit integer a JS number stands for, if any (-0 is 0 for every operation the emitted code applies to it except 1/x) *)
Definition js_int_of (v : jsnum) : option Z :=
  match v with JInt z => Some z | JNegZero => Some 0 | JNaN => None | JBig _ => None end.

(* ------------------------------------------------------------------------------------------------------------------ *)
(* 4. Str.concat (the :: operator)                                                                                      *)
(* ------------------------------------------------------------------------------------------------------------------ *)
Definition spec_concat (a b : str) : str := a ++ b.

(* ---- WebAssembly: $__Str$concat, libsam.wat 207-241 *)
(* both copy loops: dst[base + index] := src[index] for index < n *)
Fixpoint cc_copy_loop (fuel : nat) (dst src : str) (base n index : Z) : res (str * Z) :=
  match fuel with
  | O => OutOfFuel
  | S f =>
      if nz (i32_ge_s index n) then Ok (dst, index)
      else
        x <- arr_get_s src index ;;
        dst <- arr_set8 dst (i32_add base index) x ;;
        cc_copy_loop f dst src base n (i32_add index 1)
  end.
Definition wasm_concat (p0 p1 : str) : res str :=
  let len1 := alen p0 in
  let len2 := alen p1 in
  let total_len := i32_add len1 len2 in
  new_array <- arr_new 0%N total_len ;;
  let index := 0 in
  (* the first loop writes at `index`, the second at `len1 + index` *)
  '(new_array, index) <- cc_copy_loop (S (length p0)) new_array p0 0 len1 index ;;
  let index := 0 in
  '(new_array, index) <- cc_copy_loop (S (length p1)) new_array p1 len1 len2 index ;;
  Ok new_array.

(* ---- TypeScript: ([, a], [, b]) => [1, a + b]   (string +) *)
Definition ts_concat (a b : str) : str := a ++ b.

(* ------------------------------------------------------------------------------------------------------------------ *)
(* 5. string equality (== and != on Str)                                                                                *)
(* ------------------------------------------------------------------------------------------------------------------ *)
Fixpoint spec_str_eqb (a b : str) : bool :=
  match a, b with
  | [], [] => true
  | x :: a', y :: b' => N.eqb x y && spec_str_eqb a' b'
  | _, _ => false
  end.

(* ---- WebAssembly: $__Str$eq, libsam.wat 10-28.  `same` = the two operands are the same object (ref.eq) *)
Fixpoint se_loop (fuel : nat) (a b : str) (len i : Z) : res Z :=
  match fuel with
  | O => OutOfFuel
  | S f =>
      if nz (i32_ge_s i len) then Ok 1                                         (* br_if $done; falls to (i32.const 1) *)
      else
        x <- arr_get_s a i ;;
        y <- arr_get_s b i ;;
        if nz (i32_ne x y) then Ok 0
        else se_loop f a b len (i32_add i 1)
  end.
Definition wasm_str_eq (same : bool) (a b : str) : res Z :=
  if same then Ok 1
  else
    let len := alen a in
    if nz (i32_ne len (alen b)) then Ok 0
    else se_loop (S (length a)) a b len 0.

(* ---- TypeScript: Number(a[1] === b[1]) on two strings: equal iff same sequence of code units *)
Definition js_str_strict_eq (a b : str) : bool := spec_str_eqb a b.
Definition ts_str_eq (a b : str) : Z := b2z (js_str_strict_eq a b).

(* ------------------------------------------------------------------------------------------------------------------ *)
(* 6. Process.println / Process.panic                                                                                   *)
(* ------------------------------------------------------------------------------------------------------------------ *)
(* WebAssembly: imported; loader.js reads the array through the exports __strLen / __strGet (array.get_s) and builds
   String.fromCharCode(...codes) - since the loader fix of the long-string crash in chunks of 8192 codes that are
   concatenated, which is the same map over the codes: every code is taken modulo 2^16.  (The argument-count limit of one
   call, i.e. the crash on strings longer than ~10^5 bytes, was a property of the JavaScript engine, not of this model;
   the long-string witness corpus/C04/008 runs on the real engines.)  TypeScript: console.log(l) / throw Error(v). *)
Definition from_char_code (c : Z) : N := Z.to_N (c mod 65536).
Definition wasm_host_string (s : str) : str := map (fun b => from_char_code (get_s b)) s.
Definition ts_host_string (s : str) : str := s.
Definition ascii (s : str) : Prop := Forall (fun c => (c < 128)%N) s.
Definition asciib (s : str) : bool := forallb (fun c => (c <? 128)%N) s.
Definition bytes (s : str) : Prop := Forall (fun c => (c < 256)%N) s.
Definition bytesb (s : str) : bool := forallb (fun c => (c <? 256)%N) s.

(* ------------------------------------------------------------------------------------------------------------------ *)
(* 7. Vec                                                                                                               *)
(* ------------------------------------------------------------------------------------------------------------------ *)
(* the documented failures: pop on an empty Vec, get / set outside 0 .. length-1 *)
Inductive spec_res (A : Type) := SOk (a : A) | SBoundsPanic.
Arguments SOk {A} a. Arguments SBoundsPanic {A}.

(* Vec<int> elements are boxed as i31 at the call sites (wasm_lowering.rs: ref.i31 / $__$unwrapI31 = i31.get_s) *)
Definition box31 (n : Z) : Z := (n + 1073741824) mod 2147483648 - 1073741824.
Definition unbox31 (n : Z) : Z := n.
Definition in31 (n : Z) : Prop := -1073741824 <= n < 1073741824.
Definition in31b (n : Z) : bool := (-1073741824 <=? n) && (n <? 1073741824).

Definition msg_pop : str := [112;111;112;32;102;114;111;109;32;101;109;112;116;121;32;86;101;99]%N.   (* pop from empty Vec *)
Definition msg_oob : str := [86;101;99;32;105;110;100;101;120;32;111;117;116;32;111;102;32;98;111;117;110;100;115]%N.
                                                                                                       (* Vec index out of bounds *)

Section Vec.
  Variable A : Type.
  Variable aeqb : A -> A -> bool.        (* ref.eq on two non-null element references / === on two element values *)

  (* ---- specification: finite sequences *)
  Definition spec_vec := list A.
  Definition spec_vec_empty : spec_vec := [].
  Definition spec_vec_of (v : A) : spec_vec := [v].
  Definition spec_vec_length (l : spec_vec) : Z := alen l.
  Definition spec_vec_push (l : spec_vec) (v : A) : spec_vec := l ++ [v].
  Definition spec_vec_pop (l : spec_vec) : spec_res (A * spec_vec) :=
    match rev l with [] => SBoundsPanic | x :: r => SOk (x, rev r) end.
  Definition spec_vec_get (l : spec_vec) (i : Z) : spec_res A :=
    match (if inb l i then nth_error l (Z.to_nat i) else None) with Some x => SOk x | None => SBoundsPanic end.
  Definition spec_vec_set (l : spec_vec) (i : Z) (v : A) : spec_res spec_vec :=
    if inb l i then SOk (upd l (Z.to_nat i) v) else SBoundsPanic.
  Fixpoint spec_vec_eqb (a b : spec_vec) : bool :=
    match a, b with
    | [], [] => true
    | x :: a', y :: b' => aeqb x y && spec_vec_eqb a' b'
    | _, _ => false
    end.

  (* ---- WebAssembly: (struct $_Vec (field data (ref $_VecData)) (field length i32)), $_VecData = array of (ref null eq) *)
  Record wvec := mkW { wdata : list (option A); wlen : Z }.
  Definition ref_eq (x y : option A) : bool :=
    match x, y with None, None => true | Some a, Some b => aeqb a b | _, _ => false end.
  Definition as_non_null (x : option A) : res A := match x with Some a => Ok a | None => Trap TNullRef end.

  Definition wasm_vec_empty : res wvec := d <- arr_new None 0 ;; Ok (mkW d 0).                      (* 260-262 *)
  (* 264-271 (since fix 043a9a2): the size is (select cap 0 (i32.gt_s cap 0)) *)
  Definition wasm_vec_withCapacity (cap : Z) : res wvec :=
    d <- arr_new None (i32_select cap 0 (i32_gt_s cap 0)) ;; Ok (mkW d 0).
  (* REGRESSION, before fix 043a9a2: (array.new $_VecData (ref.null eq) (local.get $cap)) *)
  Definition wasm_vec_withCapacity_old (cap : Z) : res wvec := d <- arr_new None cap ;; Ok (mkW d 0).
  Definition wasm_vec_of (v : A) : res wvec := d <- arr_new (Some v) 1 ;; Ok (mkW d 1).             (* 268-272 *)
  Definition wasm_vec_length (this : wvec) : Z := wlen this.                                        (* 274-276 *)
  Definition wasm_vec_capacity (this : wvec) : Z := alen (wdata this).                              (* 278-280 *)
  (* $__Vec$reserve, 283-304 *)
  Definition wasm_vec_reserve (this : wvec) (min : Z) : res (Z * wvec) :=
    let old := wdata this in
    let cap := alen old in
    if nz (i32_le_s min cap) then Ok (0, this)                                 (* br_if $no_grow *)
    else
      let new_cap := i32_shl cap 1 in
      let new_cap := if nz (i32_lt_s new_cap min) then min else new_cap in
      let new_cap := if nz (i32_lt_s new_cap 4) then 4 else new_cap in
      new <- arr_new None new_cap ;;
      let len := wlen this in
      new <- arr_copy new 0 old 0 len ;;
      Ok (0, mkW new (wlen this)).
  (* $__Vec$push, 306-316 *)
  Definition wasm_vec_push (this : wvec) (v : A) : res (Z * wvec) :=
    let len := wlen this in
    '(_, this) <- wasm_vec_reserve this (i32_add len 1) ;;
    d <- arr_set (wdata this) len (Some v) ;;
    Ok (0, mkW d (i32_add len 1)).
  (* $__Vec$pop, 318-333 *)
  Definition wasm_vec_pop (this : wvec) : res (A * wvec) :=
    let len := wlen this in
    if nz (i32_eqz len) then wasm_panic_builtin 36 18
    else
      let len := i32_sub len 1 in
      v <- arr_get None (wdata this) len ;;
      d <- arr_set (wdata this) len None ;;
      let this := mkW d len in
      x <- as_non_null v ;;
      Ok (x, this).
  (* $__Vec$get, 335-340 *)
  Definition wasm_vec_get (this : wvec) (i : Z) : res A :=
    if nz (i32_ge_u i (wlen this)) then wasm_panic_builtin 13 23
    else v <- arr_get None (wdata this) i ;; as_non_null v.
  (* $__Vec$set, 342-350 *)
  Definition wasm_vec_set (this : wvec) (i : Z) (v : A) : res (Z * wvec) :=
    if nz (i32_ge_u i (wlen this)) then wasm_panic_builtin 13 23
    else d <- arr_set (wdata this) i (Some v) ;; Ok (0, mkW d (wlen this)).
  (* $__Vec$eq, 352-374 *)
  Fixpoint ve_loop (fuel : nat) (ad bd : list (option A)) (len i : Z) : res Z :=
    match fuel with
    | O => OutOfFuel
    | S f =>
        if nz (i32_ge_s i len) then Ok 1
        else
          x <- arr_get None ad i ;;
          y <- arr_get None bd i ;;
          if nz (i32_eqz (b2z (ref_eq x y))) then Ok 0
          else ve_loop f ad bd len (i32_add i 1)
    end.
  Definition wasm_vec_eq (same : bool) (a b : wvec) : res Z :=
    if same then Ok 1
    else
      let len := wlen a in
      if nz (i32_ne len (wlen b)) then Ok 0
      else ve_loop (S (Z.to_nat len)) (wdata a) (wdata b) len 0.

  (* ---- TypeScript: type _Vec = any[] *)
  Definition tvec := list A.
  Definition ts_vec_empty : tvec := [].                                        (* (_) => [] *)
  Definition ts_vec_withCapacity (n : Z) : tvec := [].                         (* (_, _n) => [] *)
  Definition ts_vec_of (v : A) : tvec := [v].                                  (* (_, v) => [v] *)
  Definition ts_vec_length (t : tvec) : Z := alen t.                           (* t.length *)
  Definition ts_vec_capacity (t : tvec) : Z := alen t.
  Definition ts_vec_reserve (t : tvec) (n : Z) : Z * tvec := (0, t).
  Definition ts_vec_push (t : tvec) (v : A) : Z * tvec := (0, t ++ [v]).       (* t.push(v); return 0 *)
  Definition ts_vec_pop (t : tvec) : res (A * tvec) :=
    if alen t =? 0 then Throw msg_pop                                          (* if (t.length === 0) throw *)
    else match rev t with x :: r => Ok (x, rev r) | [] => Throw msg_pop end.   (* return t.pop() *)
  Definition ts_vec_get (t : tvec) (i : Z) : res A :=
    if (i <? 0) || (alen t <=? i) then Throw msg_oob                           (* if (i < 0 || i >= t.length) throw *)
    else match nth_error t (Z.to_nat i) with Some x => Ok x | None => Throw msg_oob end.   (* return t[i] *)
  Definition ts_vec_set (t : tvec) (i : Z) (v : A) : res (Z * tvec) :=
    if (i <? 0) || (alen t <=? i) then Throw msg_oob
    else Ok (0, upd t (Z.to_nat i) v).                                         (* t[i] = v; return 0 *)
  (* for (let i = 0; i < a.length; i++) { const x = typeof a[i] === 'boolean' ? Number(a[i]) : a[i], y = (same for b[i]);
       if (x !== y) return 0; } return 1;
     (since f6d99ba: a JavaScript boolean - what `!e` is emitted as - is compared as the number it stands for; the model's
     elements are the VALUES, so aeqb is that comparison; the representation of booleans is tied by the run-time calls) *)
  Fixpoint tve_loop (fuel : nat) (a b : tvec) (i : Z) : res Z :=
    match fuel with
    | O => OutOfFuel
    | S f =>
        if i <? alen a then
          match nth_error a (Z.to_nat i), nth_error b (Z.to_nat i) with
          | Some x, Some y => if negb (aeqb x y) then Ok 0 else tve_loop f a b (i + 1)
          | _, _ => Ok 0                                                       (* undefined !== value; not reached *)
          end
        else Ok 1
    end.
  Definition ts_vec_eq (same : bool) (a b : tvec) : res Z :=
    if same then Ok 1                                                          (* if (a === b) return 1 *)
    else if negb (alen a =? alen b) then Ok 0                                  (* if (a.length !== b.length) return 0 *)
    else tve_loop (S (length a)) a b 0.

  (* ---- abstraction of a WebAssembly Vec to the sequence it stands for *)
  Fixpoint somes (l : list (option A)) : option (list A) :=
    match l with
    | [] => Some []
    | Some x :: r => match somes r with Some xs => Some (x :: xs) | None => None end
    | None :: _ => None
    end.
  Definition wabs (v : wvec) : option (list A) :=
    if (0 <=? wlen v) && (wlen v <=? alen (wdata v)) then somes (firstn (Z.to_nat (wlen v)) (wdata v)) else None.
  (* v stands for the sequence l; the bound keeps the doubling of the capacity inside 32 bits *)
  Definition wrep (v : wvec) (l : list A) : Prop := wabs v = Some l /\ alen (wdata v) < 1073741824.
End Vec.

Arguments mkW {A} wdata wlen. Arguments wdata {A} w. Arguments wlen {A} w.
