(* C04rt - basic lemmas: i32 instructions inside their no-overflow range, packed bytes, list indexing. *)
From Coq Require Import ZArith NArith List Bool Lia.
From SV Require Import Common.Int32 C04rt.Model.
Import ListNotations.
Open Scope Z_scope.

(* ---- the instruction meanings coincide with Common/Int32.rt_binop (the table C04 proves the operators against) *)
Lemma i32_add_rt a b : rt_binop PLUS a b = Val (i32_add a b). Proof. reflexivity. Qed.
Lemma i32_sub_rt a b : rt_binop MINUS a b = Val (i32_sub a b). Proof. reflexivity. Qed.
Lemma i32_mul_rt a b : rt_binop MUL a b = Val (i32_mul a b). Proof. reflexivity. Qed.
Lemma i32_and_rt a b : rt_binop LAND a b = Val (i32_and a b). Proof. reflexivity. Qed.
Lemma i32_or_rt a b : rt_binop LOR a b = Val (i32_or a b). Proof. reflexivity. Qed.
Lemma i32_shl_rt a b : rt_binop SHL a b = Val (i32_shl a b). Proof. reflexivity. Qed.
Lemma i32_lt_s_rt a b : rt_binop LT a b = Val (i32_lt_s a b). Proof. reflexivity. Qed.
Lemma i32_ge_s_rt a b : rt_binop GE a b = Val (i32_ge_s a b). Proof. reflexivity. Qed.
Lemma i32_eq_rt a b : rt_binop EQ a b = Val (i32_eq a b). Proof. reflexivity. Qed.
Lemma i32_ne_rt a b : rt_binop NE a b = Val (i32_ne a b). Proof. reflexivity. Qed.

Lemma in32_iff z : in32 z <-> -2147483648 <= z <= 2147483647.
Proof. unfold in32, MIN, MAX. tauto. Qed.
Lemma wrap_id z : -2147483648 <= z <= 2147483647 -> wrap32 z = z.
Proof. intros. apply wrap32_id. now apply in32_iff. Qed.

Lemma nz_b2z b : nz (b2z b) = b.
Proof. destruct b; reflexivity. Qed.

Lemma add_id a b : -2147483648 <= a + b <= 2147483647 -> i32_add a b = a + b.
Proof. apply wrap_id. Qed.
Lemma sub_id a b : -2147483648 <= a - b <= 2147483647 -> i32_sub a b = a - b.
Proof. apply wrap_id. Qed.
Lemma mul_id a b : -2147483648 <= a * b <= 2147483647 -> i32_mul a b = a * b.
Proof. apply wrap_id. Qed.
Lemma unsigned_nonneg a : 0 <= a <= 2147483647 -> unsigned a = a.
Proof. intros. unfold unsigned. apply Z.mod_small. lia. Qed.
Lemma unsigned_neg a : -2147483648 <= a < 0 -> unsigned a = a + 4294967296.
Proof.
  intros. unfold unsigned. replace a with ((a + 4294967296) + (-1) * 4294967296) at 1 by lia.
  rewrite Z.mod_add by lia. apply Z.mod_small. lia.
Qed.
Lemma div_u_id a b : 0 <= a <= 2147483647 -> 0 < b <= 2147483647 -> i32_div_u a b = a / b.
Proof.
  intros Ha Hb. unfold i32_div_u. rewrite !unsigned_nonneg by lia. apply wrap_id.
  assert (0 <= a / b) by (apply Z.div_pos; lia).
  assert (a / b <= a) by (apply Z.div_le_upper_bound; nia). lia.
Qed.
Lemma ge_u_spec i n : -2147483648 <= i <= 2147483647 -> 0 <= n <= 2147483647 ->
  nz (i32_ge_u i n) = negb ((0 <=? i) && (i <? n)).
Proof.
  intros Hi Hn. unfold i32_ge_u. rewrite nz_b2z, (unsigned_nonneg n) by lia.
  destruct (Z.leb_spec 0 i).
  - rewrite unsigned_nonneg by lia. cbn. destruct (Z.leb_spec n i), (Z.ltb_spec i n); try reflexivity; lia.
  - rewrite unsigned_neg by lia. cbn. destruct (Z.leb_spec n (i + 4294967296)); try reflexivity; lia.
Qed.

(* ---- bytes *)
Lemma pack_get_s b : (b < 256)%N -> pack8 (get_s b) = b.
Proof.
  intros H. unfold pack8, get_s. destruct (N.ltb_spec b 128).
  - rewrite Z.mod_small by lia. lia.
  - replace (Z.of_N b - 256) with (Z.of_N b + (-1) * 256) by lia. rewrite Z.mod_add, Z.mod_small by lia. lia.
Qed.
Lemma get_s_inj a b : (a < 256)%N -> (b < 256)%N -> get_s a = get_s b -> a = b.
Proof. intros Ha Hb E. rewrite <- (pack_get_s a Ha), <- (pack_get_s b Hb), E. reflexivity. Qed.
Lemma get_s_range b : (b < 256)%N -> -128 <= get_s b <= 127.
Proof. intros. unfold get_s. destruct (N.ltb_spec b 128); lia. Qed.
Lemma get_s_ascii b : (b < 128)%N -> get_s b = Z.of_N b.
Proof. intros H. unfold get_s. apply N.ltb_lt in H. now rewrite H. Qed.

Lemma bytes_app a b : bytes (a ++ b) <-> bytes a /\ bytes b.
Proof. apply Forall_app. Qed.
Lemma bytes_cons x a : bytes (x :: a) <-> (x < 256)%N /\ bytes a.
Proof. split; intros H; [inversion H; auto | destruct H; constructor; auto]. Qed.
Lemma bytes_rev a : bytes a -> bytes (rev a).
Proof. apply Forall_rev. Qed.
Lemma ascii_bytes s : ascii s -> bytes s.
Proof. apply Forall_impl. intros; lia. Qed.
Lemma bytesb_spec s : bytesb s = true <-> bytes s.
Proof.
  unfold bytesb, bytes. rewrite forallb_forall, Forall_forall. split; intros H x Hx; specialize (H x Hx).
  - now apply N.ltb_lt. - now apply N.ltb_lt.
Qed.
Lemma asciib_spec s : asciib s = true <-> ascii s.
Proof.
  unfold asciib, ascii. rewrite forallb_forall, Forall_forall. split; intros H x Hx; specialize (H x Hx).
  - now apply N.ltb_lt. - now apply N.ltb_lt.
Qed.

(* ---- lists as arrays *)
Lemma alen_app {A} (a b : list A) : alen (a ++ b) = alen a + alen b.
Proof. unfold alen. rewrite app_length. lia. Qed.
Lemma alen_cons {A} (x : A) a : alen (x :: a) = 1 + alen a.
Proof. unfold alen. cbn [length]. lia. Qed.
Lemma alen_nonneg {A} (a : list A) : 0 <= alen a.
Proof. unfold alen. lia. Qed.
Lemma alen_nil {A} : alen (@nil A) = 0. Proof. reflexivity. Qed.
Lemma alen_repeat {A} (x : A) n : alen (repeat x n) = Z.of_nat n.
Proof. unfold alen. now rewrite repeat_length. Qed.
Lemma alen_map {A B} (f : A -> B) l : alen (map f l) = alen l.
Proof. unfold alen. now rewrite map_length. Qed.
Lemma alen_rev {A} (l : list A) : alen (rev l) = alen l.
Proof. unfold alen. now rewrite rev_length. Qed.

Lemma nth_mid {A} (p : list A) x q d i : i = length p -> nth i (p ++ x :: q) d = x.
Proof. intros ->. rewrite app_nth2 by lia. now rewrite Nat.sub_diag. Qed.
Lemma nth_error_mid {A} (p : list A) x q i : i = length p -> nth_error (p ++ x :: q) i = Some x.
Proof. intros ->. rewrite nth_error_app2 by lia. now rewrite Nat.sub_diag. Qed.
Lemma upd_mid {A} (p : list A) x q y i : i = length p -> upd (p ++ x :: q) i y = p ++ y :: q.
Proof. intros ->. induction p as [|h p IH]; cbn; [reflexivity | now rewrite IH]. Qed.
Lemma upd_length {A} (l : list A) i y : length (upd l i y) = length l.
Proof. revert i. induction l as [|h l IH]; intros [|i]; cbn; auto. Qed.

Lemma arr_get_mid {A} (d : A) p x q i : i = alen p -> arr_get d (p ++ x :: q) i = Ok x.
Proof.
  intros ->. unfold arr_get, inb. rewrite alen_app, alen_cons.
  pose proof (alen_nonneg p). pose proof (alen_nonneg q).
  replace (0 <=? alen p) with true by (symmetry; apply Z.leb_le; lia).
  replace (alen p <? alen p + (1 + alen q)) with true by (symmetry; apply Z.ltb_lt; lia).
  cbn. f_equal. apply nth_mid. unfold alen. lia.
Qed.
Lemma arr_set_mid {A} (p : list A) x q y i : i = alen p -> arr_set (p ++ x :: q) i y = Ok (p ++ y :: q).
Proof.
  intros ->. unfold arr_set, inb. rewrite alen_app, alen_cons.
  pose proof (alen_nonneg p). pose proof (alen_nonneg q).
  replace (0 <=? alen p) with true by (symmetry; apply Z.leb_le; lia).
  replace (alen p <? alen p + (1 + alen q)) with true by (symmetry; apply Z.ltb_lt; lia).
  cbn. f_equal. apply upd_mid. unfold alen. lia.
Qed.
Lemma arr_get_s_mid p x q i : i = alen p -> arr_get_s (p ++ x :: q) i = Ok (get_s x).
Proof. intros H. unfold arr_get_s. now rewrite arr_get_mid. Qed.
Lemma arr_set8_mid p x q v i : i = alen p -> arr_set8 (p ++ x :: q) i v = Ok (p ++ pack8 v :: q).
Proof. intros H. unfold arr_set8. now apply arr_set_mid. Qed.
Lemma arr_get_oob {A} (d : A) a i : (i < 0 \/ alen a <= i) -> arr_get d a i = Trap TArrayOOB.
Proof.
  intros H. unfold arr_get, inb. destruct (Z.leb_spec 0 i), (Z.ltb_spec i (alen a)); cbn; try reflexivity; lia.
Qed.
Lemma arr_new_ok {A} (v : A) n : 0 <= n -> arr_new v n = Ok (repeat v (Z.to_nat n)).
Proof. intros H. unfold arr_new. apply Z.leb_le in H. now rewrite H. Qed.

(* a list of length >= 2 has a first and a last element *)
Lemma two_ends {A} (l : list A) : (2 <= length l)%nat -> exists a m b, l = a :: m ++ [b].
Proof.
  intros H. destruct l as [|a l]; [cbn in H; lia|].
  destruct (exists_last (l := l)) as [m [b ->]]; [intros ->; cbn in H; lia|]. now exists a, m, b.
Qed.
