(* C04rt - Str.fromInt: the WebAssembly function (size loop, digit loop, in-place reversal after the sign) and the
   TypeScript String(v) both produce the decimal representation spec_dec, for every 32-bit integer. *)
From Coq Require Import ZArith NArith List Bool Lia.
From SV Require Import Common.Int32 C04rt.Model C04rt.ProofsBase.
From SV Require C17.Model.
Import ListNotations.
Open Scope Z_scope.
Ltac Zify.zify_post_hook ::= Z.div_mod_to_equations.     (* lia: division and remainder by literals *)

(* the digits of m > 0, least significant first - what $set_characters_loop writes *)
Fixpoint lsd (fuel : nat) (m : Z) : list N :=
  match fuel with
  | O => []
  | S f => if m <? 1 then [] else Z.to_N (48 + m mod 10) :: lsd f (m / 10)
  end.

Lemma lsd_zero f m : m < 1 -> lsd f m = [].
Proof. intros H. destruct f; [reflexivity|]. cbn. apply Z.ltb_lt in H. now rewrite H. Qed.
Lemma pow10_succ f : 10 ^ Z.of_nat (S f) = 10 * 10 ^ Z.of_nat f.
Proof. rewrite Nat2Z.inj_succ, Z.pow_succ_r by lia. reflexivity. Qed.
Lemma div10_lt f m : 0 <= m < 10 ^ Z.of_nat (S f) -> 0 <= m / 10 < 10 ^ Z.of_nat f.
Proof.
  rewrite pow10_succ. intros H. split; [apply Z.div_pos; lia|]. apply Z.div_lt_upper_bound; lia.
Qed.
Lemma lsd_indep f : forall m f', 0 <= m < 10 ^ Z.of_nat f -> (f <= f')%nat -> lsd f' m = lsd f m.
Proof.
  induction f as [|f IH]; intros m f' Hm Hf.
  - cbn in Hm. rewrite lsd_zero by lia. reflexivity.
  - destruct f' as [|f']; [lia|]. cbn [lsd]. destruct (m <? 1); [reflexivity|].
    f_equal. apply IH; [now apply div10_lt | lia].
Qed.
Lemma lsd_length f : forall m, (length (lsd f m) <= f)%nat.
Proof.
  induction f as [|f IH]; intros m; cbn [lsd]; [cbn; lia|]. destruct (m <? 1); cbn [length]; [lia|].
  specialize (IH (m / 10)). lia.
Qed.
Lemma lsd_bytes f : forall m, bytes (lsd f m).
Proof.
  induction f as [|f IH]; intros m; cbn [lsd]; [constructor|]. destruct (m <? 1); [constructor|].
  constructor; [|apply IH]. pose proof (Z.mod_pos_bound m 10). lia.
Qed.
Lemma lsd_nonempty f m : 1 <= m -> lsd (S f) m <> [].
Proof. intros H. cbn [lsd]. destruct (Z.ltb_spec m 1); [lia|discriminate]. Qed.

(* ---- C17.Model.dec in terms of lsd *)
Lemma dec_digits_lsd fuel : forall (n : N) acc, (0 < n)%N -> Z.of_N n < 10 ^ Z.of_nat fuel ->
  C17.Model.dec_digits fuel n acc = rev (lsd fuel (Z.of_N n)) ++ acc.
Proof.
  induction fuel as [|f IH]; intros n acc Hn Hlt.
  - cbn in Hlt. lia.
  - cbn [C17.Model.dec_digits lsd]. destruct (Z.ltb_spec (Z.of_N n) 1); [lia|].
    assert (Hd : Z.to_N (48 + Z.of_N n mod 10) = (48 + n mod 10)%N).
    { change 10 with (Z.of_N 10). rewrite <- (N2Z.inj_mod n 10).
      rewrite Z2N.inj_add; [|discriminate|apply N2Z.is_nonneg]. rewrite N2Z.id. reflexivity. }
    rewrite Hd. destruct (N.ltb_spec n 10).
    + replace (Z.of_N n / 10) with 0 by (symmetry; apply Z.div_small; lia).
      rewrite lsd_zero by lia. reflexivity.
    + assert (Hq : Z.of_N (n / 10) = Z.of_N n / 10) by (apply N2Z.inj_div).
      rewrite IH.
      * rewrite Hq. cbn [rev]. now rewrite <- app_assoc.
      * apply N.div_str_pos. lia.
      * rewrite Hq. apply div10_lt. lia.
Qed.
Lemma dec_lsd m : 0 < m < 10 ^ 40 -> C17.Model.dec (Z.to_N m) = rev (lsd 40 m).
Proof.
  intros H. unfold C17.Model.dec. rewrite dec_digits_lsd; [|lia|].
  - rewrite Z2N.id by lia. apply app_nil_r.
  - rewrite Z2N.id by lia. change (Z.of_nat 40) with 40. lia.
Qed.

(* ---- the instruction tricks *)
Lemma lor48 d : 0 <= d <= 9 -> Z.lor d 48 = d + 48.
Proof.
  intros H. assert (d = 0 \/ d = 1 \/ d = 2 \/ d = 3 \/ d = 4 \/ d = 5 \/ d = 6 \/ d = 7 \/ d = 8 \/ d = 9) by lia.
  repeat (destruct H0 as [-> | H0]; [reflexivity|]). subst. reflexivity.
Qed.
Lemma digit_instr p0 : 1 <= p0 <= 2147483647 ->
  pack8 (i32_or (i32_sub p0 (i32_mul (i32_div_u p0 10) 10)) 48) = Z.to_N (48 + p0 mod 10).
Proof.
  intros H. rewrite div_u_id by lia.
  assert (0 <= p0 / 10 <= 214748364).
  { lia. }
  rewrite mul_id by lia.
  pose proof (Z.mod_pos_bound p0 10). pose proof (Z.div_mod p0 10).
  assert (E : p0 - p0 / 10 * 10 = p0 mod 10) by lia.
  rewrite sub_id by lia. rewrite E. unfold i32_or. rewrite lor48 by lia.
  unfold pack8. rewrite Z.mod_small by lia. f_equal. lia.
Qed.

(* ---- $find_size_loop *)
Lemma size_loop_unfold f temp s : fi_size_loop (S f) temp s =
  if nz (i32_lt_s temp 1) then Ok (temp, s) else fi_size_loop f (i32_div_u temp 10) (i32_add s 1).
Proof. reflexivity. Qed.
Lemma digits_loop_unfold f arr len p0 ni : fi_digits_loop (S f) arr len p0 ni =
  if nz (i32_lt_s p0 1) then Ok (arr, len, p0, ni)
  else let new_in := i32_div_u p0 10 in
       arr <- arr_set8 arr len (i32_or (i32_sub p0 (i32_mul new_in 10)) 48) ;;
       fi_digits_loop f arr (i32_add len 1) new_in new_in.
Proof. reflexivity. Qed.
Lemma size_loop_spec f : forall temp s, 0 <= temp <= 2147483647 -> temp < 10 ^ Z.of_nat f ->
  0 <= s -> s + Z.of_nat f <= 2147483647 ->
  fi_size_loop (S f) temp s = Ok (0, s + alen (lsd f temp)).
Proof.
  induction f as [|f IH]; intros temp s Ht Hlt Hs Hb.
  - cbn in Hlt. assert (temp = 0) by lia. subst. cbn. replace (s + 0) with s by lia. reflexivity.
  - rewrite size_loop_unfold. unfold i32_lt_s at 1. rewrite nz_b2z. cbn [lsd].
    destruct (Z.ltb_spec temp 1).
    + assert (temp = 0) by lia. subst. change (alen (@nil N)) with 0. replace (s + 0) with s by lia. reflexivity.
    + rewrite div_u_id, add_id by lia. rewrite IH.
      * rewrite alen_cons. f_equal. f_equal. lia.
      * split; [apply Z.div_pos; lia|]. apply Z.div_le_upper_bound; lia.
      * apply div10_lt. lia.
      * lia.
      * lia.
Qed.

(* ---- $set_characters_loop: writes lsd p0 over the slots mid *)
Lemma digits_loop_spec f : forall pre mid post p0 ni,
  0 <= p0 <= 2147483647 -> p0 < 10 ^ Z.of_nat f -> length mid = length (lsd f p0) ->
  alen pre + Z.of_nat f <= 2147483647 ->
  exists ni', fi_digits_loop (S f) (pre ++ mid ++ post) (alen pre) p0 ni
              = Ok (pre ++ lsd f p0 ++ post, alen pre + alen mid, 0, ni').
Proof.
  induction f as [|f IH]; intros pre mid post p0 ni Hp Hlt Hlen Hb.
  - cbn in Hlt. assert (p0 = 0) by lia. subst. cbn in Hlen. destruct mid; [|discriminate].
    exists ni. cbn. change (alen (@nil N)) with 0. repeat f_equal. lia.
  - rewrite digits_loop_unfold. unfold i32_lt_s at 1. rewrite nz_b2z. cbn [lsd] in *. cbv zeta.
    destruct (Z.ltb_spec p0 1).
    + assert (p0 = 0) by lia. subst. destruct mid; [|discriminate]. exists ni. change (alen (@nil N)) with 0. repeat f_equal. lia.
    + destruct mid as [|x mid]; [discriminate|]. cbn [length] in Hlen. injection Hlen as Hlen.
      cbn [app]. rewrite arr_set8_mid by reflexivity. cbn [bind].
      rewrite digit_instr by lia. rewrite div_u_id by lia.
      pose proof (alen_nonneg pre).
      rewrite add_id by lia.
      set (d := Z.to_N (48 + p0 mod 10)).
      replace (pre ++ d :: mid ++ post) with ((pre ++ [d]) ++ mid ++ post) by (now rewrite <- app_assoc).
      replace (alen pre + 1) with (alen (pre ++ [d])) by (rewrite alen_app; reflexivity).
      destruct (IH (pre ++ [d]) mid post (p0 / 10) (p0 / 10)) as [ni' E].
      * split; [apply Z.div_pos; lia|]. apply Z.div_le_upper_bound; lia.
      * apply div10_lt. lia.
      * exact Hlen.
      * rewrite alen_app. change (alen [d]) with 1. lia.
      * exists ni'. rewrite E. rewrite <- app_assoc. cbn [app]. rewrite alen_app, (alen_cons x mid). change (alen [d]) with 1.
        replace (alen pre + 1 + alen mid) with (alen pre + (1 + alen mid)) by lia. reflexivity.
Qed.

(* ---- $reverse_block_loop: the part between xs and ys is reversed in place *)
Lemma reverse_loop_spec fuel : forall pre xs mid ys,
  (length mid / 2 < fuel)%nat -> length xs = length ys -> bytes mid ->
  alen pre + alen xs + alen mid + alen ys <= 1073741823 ->
  fi_reverse_loop fuel (pre ++ xs ++ mid ++ ys) (alen pre + alen xs)
                  ((alen xs + alen mid + alen ys) / 2 + alen pre) (alen pre + (alen xs + alen mid + alen ys)) (alen pre)
  = Ok (pre ++ xs ++ rev mid ++ ys).
Proof.
  induction fuel as [|fuel IH]; intros pre xs mid ys Hf Hxy Hb Hsz; [lia|].
  cbn [fi_reverse_loop]. unfold i32_ge_s at 1. rewrite nz_b2z.
  assert (Hxy' : alen xs = alen ys) by (unfold alen; lia).
  pose proof (alen_nonneg pre). pose proof (alen_nonneg xs). pose proof (alen_nonneg mid).
  destruct (Nat.le_gt_cases (length mid) 1) as [Hsmall | Hbig].
  - (* nothing left to swap *)
    assert (Hrev : rev mid = mid).
    { destruct mid as [|a [|b mid]]; try reflexivity. cbn in Hsmall. lia. }
    assert (Hm : alen mid = 0 \/ alen mid = 1) by (unfold alen; lia).
    assert (Hh : (alen xs + alen mid + alen ys) / 2 = alen xs).
    { rewrite <- Hxy'. destruct Hm as [-> | ->].
      - replace (alen xs + 0 + alen xs) with (alen xs * 2) by lia. apply Z.div_mul. lia.
      - replace (alen xs + 1 + alen xs) with (1 + alen xs * 2) by lia. rewrite Z.div_add by lia. reflexivity. }
    rewrite Hh. replace (alen xs + alen pre <=? alen pre + alen xs) with true by (symmetry; apply Z.leb_le; lia).
    now rewrite Hrev.
  - destruct (two_ends mid) as [a [m [b ->]]]; [lia|].
    rewrite alen_cons, alen_app in *. change (alen [b]) with 1 in *. pose proof (alen_nonneg m).
    apply bytes_cons in Hb. destruct Hb as [Ha Hb]. apply bytes_app in Hb. destruct Hb as [Hm Hb].
    apply bytes_cons in Hb. destruct Hb as [Hb _].
    assert (Hh : alen xs + 1 <= (alen xs + (1 + (alen m + 1)) + alen ys) / 2).
    { rewrite <- Hxy'. apply Z.div_le_lower_bound; lia. }
    replace ((alen xs + (1 + (alen m + 1)) + alen ys) / 2 + alen pre <=? alen pre + alen xs) with false
      by (symmetry; apply Z.leb_gt; lia).
    (* temp = arr[len] *)
    replace (pre ++ xs ++ (a :: m ++ [b]) ++ ys) with ((pre ++ xs) ++ a :: (m ++ b :: ys))
      by (rewrite <- !app_assoc; cbn; rewrite <- !app_assoc; reflexivity).
    rewrite arr_get_s_mid by (rewrite alen_app; reflexivity). cbn [bind].
    (* rev_index *)
    rewrite (sub_id (alen pre + _)) by lia. rewrite sub_id by lia. rewrite add_id by lia.
    set (ri := alen pre + (alen xs + (1 + (alen m + 1)) + alen ys) - (alen pre + alen xs) - 1 + alen pre).
    assert (Hri : ri = alen (pre ++ xs ++ a :: m)).
    { unfold ri. rewrite !alen_app, alen_cons. lia. }
    replace ((pre ++ xs) ++ a :: m ++ b :: ys) with ((pre ++ xs ++ a :: m) ++ b :: ys)
      by (rewrite <- !app_assoc; cbn; reflexivity).
    rewrite arr_get_s_mid by exact Hri. cbn [bind].
    (* arr[len] := arr[rev_index] *)
    replace ((pre ++ xs ++ a :: m) ++ b :: ys) with ((pre ++ xs) ++ a :: (m ++ b :: ys))
      by (rewrite <- !app_assoc; cbn; reflexivity).
    rewrite arr_set8_mid by (rewrite alen_app; reflexivity). cbn [bind]. rewrite pack_get_s by assumption.
    (* arr[rev_index] := temp *)
    replace ((pre ++ xs) ++ b :: m ++ b :: ys) with ((pre ++ xs ++ b :: m) ++ b :: ys)
      by (rewrite <- !app_assoc; cbn; reflexivity).
    rewrite arr_set8_mid by (rewrite Hri, !alen_app, !alen_cons; reflexivity).
    cbn [bind]. rewrite pack_get_s by assumption.
    rewrite add_id by lia.
    (* the induction hypothesis with xs ++ [b], m, a :: ys *)
    specialize (IH pre (xs ++ [b]) m (a :: ys)).
    rewrite !alen_app in IH. change (alen [b]) with 1 in IH. rewrite (alen_cons a ys) in IH.
    replace ((pre ++ xs ++ b :: m) ++ a :: ys) with (pre ++ (xs ++ [b]) ++ m ++ a :: ys)
      by (rewrite <- !app_assoc; cbn; reflexivity).
    replace (alen pre + alen xs + 1) with (alen pre + (alen xs + 1)) by lia.
    replace (alen xs + (1 + (alen m + 1)) + alen ys) with (alen xs + 1 + alen m + (1 + alen ys)) by lia.
    rewrite IH.
    + f_equal. rewrite <- !app_assoc. cbn. rewrite rev_app_distr. cbn. rewrite <- !app_assoc. reflexivity.
    + cbn [length] in Hf. rewrite app_length in Hf. cbn [length] in Hf.
      replace (S (length m + 1)) with (length m + 1 * 2)%nat in Hf by lia.
      rewrite Nat.div_add in Hf by lia. lia.
    + rewrite app_length. cbn. lia.
    + exact Hm.
    + lia.
Qed.

(* ---- the whole function on a positive magnitude m: sign 0 (pre = []) or 1 (pre = [45]) *)
Lemma lsd15_len m : 1 <= m <= 2147483647 -> 1 <= alen (lsd 15 m) <= 15.
Proof.
  intros H. pose proof (lsd_length 15 m). unfold alen. split; [|lia].
  pose proof (lsd_nonempty 14 m (proj1 H)). destruct (lsd 15 m); [congruence|]. cbn. lia.
Qed.
Lemma pow15 : 2147483647 < 10 ^ Z.of_nat 15. Proof. reflexivity. Qed.

Lemma wasm_fromInt_pos n : 1 <= n <= 2147483647 -> wasm_fromInt n = Ok (rev (lsd 15 n)).
Proof.
  intros H. unfold wasm_fromInt, i32_eq, i32_gt_s. rewrite !nz_b2z.
  destruct (Z.eqb_spec n (-2147483648)); [lia|].
  unfold nz at 1. destruct (Z.eqb_spec n 0); [lia|]. cbn [negb].
  destruct (Z.ltb_spec (-1) n); [|lia].
  unfold FI_FUEL.
  assert (Es : fi_size_loop 16 n 0 = Ok (0, 0 + alen (lsd 15 n))).
  { apply size_loop_spec; try lia; try (pose proof pow15; lia); cbn; lia. }
  rewrite Es. cbn [bind].
  pose proof (lsd15_len n H) as Hl.
  rewrite arr_new_ok by lia. cbn [bind]. replace (0 + alen (lsd 15 n)) with (alen (lsd 15 n)) by lia.
  unfold i32_eqz. rewrite nz_b2z. cbn [Z.eqb bind].
  set (k := Z.to_nat (alen (lsd 15 n))).
  destruct (digits_loop_spec 15 [] (repeat 0%N k) [] n 0) as [ni E];
    [lia | pose proof pow15; lia | unfold k; rewrite repeat_length; unfold alen; lia | cbn; lia |].
  cbn [app] in E. rewrite app_nil_r in E. change (alen []) with 0 in E. rewrite E. cbn [bind].
  rewrite app_nil_r. rewrite alen_repeat.
  assert (Hk : Z.of_nat k = alen (lsd 15 n)) by (unfold k, alen; lia).
  rewrite Hk. rewrite sub_id by lia. rewrite div_u_id by lia. rewrite add_id.
  2:{ assert (0 <= (0 + alen (lsd 15 n) - 0) / 2 <= 15); [|lia]. split; [apply Z.div_pos; lia|].
      apply Z.div_le_upper_bound; lia. }
  pose proof (reverse_loop_spec 16 [] [] (lsd 15 n) []) as R. cbn [app] in R. rewrite !app_nil_r in R.
  change (alen []) with 0 in R.
  rewrite <- R; [f_equal; lia | | reflexivity | apply lsd_bytes | lia].
  pose proof (lsd_length 15 n). apply Nat.div_lt_upper_bound; lia.
Qed.

Lemma wasm_fromInt_neg n : -2147483647 <= n <= -1 -> wasm_fromInt n = Ok (45%N :: rev (lsd 15 (- n))).
Proof.
  intros H. unfold wasm_fromInt, i32_eq, i32_gt_s. rewrite !nz_b2z.
  destruct (Z.eqb_spec n (-2147483648)); [lia|].
  unfold nz at 1. destruct (Z.eqb_spec n 0); [lia|]. cbn [negb].
  destruct (Z.ltb_spec (-1) n); [lia|].
  rewrite sub_id by lia. replace (0 - n) with (- n) by lia.
  set (m := - n). assert (Hm : 1 <= m <= 2147483647) by (unfold m; lia).
  unfold FI_FUEL.
  assert (Es : fi_size_loop 16 m 1 = Ok (0, 1 + alen (lsd 15 m))).
  { apply size_loop_spec; try lia; try (pose proof pow15; lia); cbn; lia. }
  rewrite Es. cbn [bind].
  pose proof (lsd15_len m Hm) as Hl.
  rewrite arr_new_ok by lia. cbn [bind].
  unfold i32_eqz. rewrite nz_b2z. cbn [Z.eqb].
  set (k := Z.to_nat (alen (lsd 15 m))).
  assert (Hk : Z.of_nat k = alen (lsd 15 m)) by (unfold k, alen; lia).
  replace (Z.to_nat (1 + alen (lsd 15 m))) with (S k) by lia. cbn [repeat].
  change (0%N :: repeat 0%N k) with ([] ++ 0%N :: repeat 0%N k).
  rewrite arr_set8_mid by reflexivity. cbn [bind app]. change (pack8 45) with 45%N.
  destruct (digits_loop_spec 15 [45%N] (repeat 0%N k) [] m 0) as [ni E];
    [lia | pose proof pow15; lia | rewrite repeat_length; unfold k, alen; lia | cbn; lia |].
  cbn [app] in E. rewrite app_nil_r in E. change (alen [45%N]) with 1 in E. rewrite E. cbn [bind].
  rewrite app_nil_r, alen_repeat, Hk.
  rewrite sub_id by lia. rewrite div_u_id by lia. rewrite add_id.
  2:{ assert (0 <= (1 + alen (lsd 15 m) - 1) / 2 <= 15); [|lia]. split; [apply Z.div_pos; lia|].
      apply Z.div_le_upper_bound; lia. }
  pose proof (reverse_loop_spec 16 [45%N] [] (lsd 15 m) []) as R. cbn [app] in R. rewrite !app_nil_r in R.
  change (alen [45%N]) with 1 in R. change (alen []) with 0 in R.
  rewrite <- R; [f_equal; lia | | reflexivity | apply lsd_bytes | lia].
  pose proof (lsd_length 15 m). apply Nat.div_lt_upper_bound; lia.
Qed.

Lemma lsd15_40 m : 0 <= m <= 2147483647 -> lsd 40 m = lsd 15 m.
Proof. intros H. apply lsd_indep; [pose proof pow15; lia | lia]. Qed.

Theorem fromInt_wasm_correct : forall n, in32 n -> wasm_fromInt n = Ok (spec_dec n).
Proof.
  intros n Hn. unfold in32, MIN, MAX in Hn.
  destruct (Z.eq_dec n (-2147483648)) as [-> | Hmin]; [reflexivity|].
  destruct (Z.eq_dec n 0) as [-> | H0]; [reflexivity|].
  unfold spec_dec. destruct (Z.ltb_spec n 0).
  - rewrite wasm_fromInt_neg by lia. rewrite dec_lsd by (split; [lia | transitivity 2147483648; [lia | reflexivity]]).
    rewrite lsd15_40 by lia. reflexivity.
  - rewrite wasm_fromInt_pos by lia. rewrite dec_lsd by (split; [lia | transitivity 2147483648; [lia | reflexivity]]).
    rewrite lsd15_40 by lia. reflexivity.
Qed.

(* ---- TypeScript: String(v) *)
Lemma js_digits_lsd f : forall k, 1 <= k -> js_digits f k = rev (lsd f k).
Proof.
  induction f as [|f IH]; intros k Hk; [reflexivity|].
  cbn [js_digits lsd]. destruct (Z.ltb_spec k 1); [lia|].
  destruct (Z.ltb_spec k 10).
  - replace (k / 10) with 0 by (symmetry; apply Z.div_small; lia). rewrite lsd_zero by lia.
    rewrite Z.mod_small by lia. reflexivity.
  - rewrite IH. + reflexivity. + apply Z.div_le_lower_bound; lia.
Qed.
Theorem js_String_dec : forall n, - 10 ^ 40 < n < 10 ^ 40 -> js_String (JInt n) = spec_dec n.
Proof.
  intros n Hn. unfold js_String, spec_dec. destruct (Z.ltb_spec n 0).
  - rewrite js_digits_lsd by lia. rewrite dec_lsd by lia. reflexivity.
  - destruct (Z.eq_dec n 0) as [-> | H0]; [reflexivity|].
    rewrite js_digits_lsd by lia. rewrite dec_lsd by lia. reflexivity.
Qed.
Theorem fromInt_ts_correct : forall n, in32 n -> ts_fromInt (JInt n) = spec_dec n.
Proof.
  intros n Hn. unfold in32, MIN, MAX in Hn. apply js_String_dec.
  assert (2147483648 < 10 ^ 40) by reflexivity. lia.
Qed.
Theorem fromInt_backends_agree : forall n, in32 n -> wasm_fromInt n = Ok (ts_fromInt (JInt n)).
Proof. intros n Hn. now rewrite fromInt_wasm_correct, fromInt_ts_correct. Qed.

(* ---- facts about spec_dec used by toInt *)
Lemma lsd_digits f : forall m, Forall (fun c => (48 <= c <= 57)%N) (lsd f m).
Proof.
  induction f as [|f IH]; intros m; cbn [lsd]; [constructor|]. destruct (m <? 1); [constructor|].
  constructor; [|apply IH]. pose proof (Z.mod_pos_bound m 10). lia.
Qed.
Lemma digits_value_snoc l d : digits_value (l ++ [d]) = 10 * digits_value l + (Z.of_N d - 48).
Proof. unfold digits_value. now rewrite fold_left_app. Qed.
Lemma digits_value_lsd f : forall m, 0 <= m < 10 ^ Z.of_nat f -> digits_value (rev (lsd f m)) = m.
Proof.
  induction f as [|f IH]; intros m Hm.
  - cbn in Hm. cbn. lia.
  - cbn [lsd]. destruct (Z.ltb_spec m 1); [cbn; lia|].
    cbn [rev]. rewrite digits_value_snoc, IH by (apply div10_lt; lia).
    pose proof (Z.mod_pos_bound m 10). pose proof (Z.div_mod m 10). lia.
Qed.
