(* C04rt - Str.toInt, Str.concat, string equality, Process.println: both implementations against their specification. *)
From Coq Require Import ZArith NArith List Bool Lia.
From SV Require Import Common.Int32 C04rt.Model C04rt.ProofsBase C04rt.ProofsFromInt.
From SV Require C17.Model.
Import ListNotations.
Open Scope Z_scope.
Ltac Zify.zify_post_hook ::= Z.div_mod_to_equations.

(* ------------------------------------------------------------------------------------------------------------------ *)
(* toInt                                                                                                                *)
(* ------------------------------------------------------------------------------------------------------------------ *)

(* the digit test of the loop, (character - 48) & 255 > 9 unsigned, is exact on every byte: all 256 cases by computation *)
Definition digit_test (b : N) : bool := nz (i32_gt_u (i32_and (i32_add (get_s b) (-48)) 255) 9).
Lemma digit_test_all : forallb (fun b => Bool.eqb (digit_test b) (negb (is_digit b))) (map N.of_nat (seq 0 256)) = true.
Proof. vm_compute. reflexivity. Qed.
Lemma digit_test_spec b : (b < 256)%N -> digit_test b = negb (is_digit b).
Proof.
  intros H. pose proof digit_test_all as A. rewrite forallb_forall in A.
  specialize (A b). apply eqb_prop. apply A.
  apply in_map_iff. exists (N.to_nat b). split; [lia|]. apply in_seq. lia.
Qed.
Lemma is_digit_range c : is_digit c = true <-> (48 <= c <= 57)%N.
Proof. unfold is_digit. rewrite andb_true_iff, !N.leb_le. tauto. Qed.

(* the accumulation in 32 bits *)
Definition wstep (a : Z) (d : N) : Z := i32_add (i32_add (i32_mul a 10) (get_s d)) (-48).
Definition zstep (a : Z) (d : N) : Z := 10 * a + (Z.of_N d - 48).
Lemma wstep_wrap a d : is_digit d = true -> wstep (wrap32 a) d = wrap32 (zstep a d).
Proof.
  intros Hd. apply is_digit_range in Hd. unfold wstep, zstep, i32_add, i32_mul.
  rewrite get_s_ascii by lia. rewrite wrap32_add_l.
  replace (wrap32 (wrap32 a * 10) + Z.of_N d + -48) with (wrap32 (wrap32 a * 10) + (Z.of_N d - 48)) by lia.
  rewrite wrap32_add_l. rewrite <- (wrap32_add_l (wrap32 a * 10)), wrap32_mul_l, wrap32_add_l. f_equal. lia.
Qed.
Lemma fold_wstep ds : forall a, forallb is_digit ds = true ->
  fold_left wstep ds (wrap32 a) = wrap32 (fold_left zstep ds a).
Proof.
  induction ds as [|d ds IH]; intros a H; [reflexivity|].
  cbn [forallb] in H. apply andb_prop in H. destruct H as [Hd H]. cbn [fold_left].
  rewrite wstep_wrap by assumption. now apply IH.
Qed.

Lemma ti_loop_unfold f p0 len i num : ti_loop (S f) p0 len i num =
  if nz (i32_ge_s i len) then Ok (Some num)
  else character <- arr_get_s p0 i ;;
       if nz (i32_gt_u (i32_and (i32_add character (-48)) 255) 9) then Ok None
       else ti_loop f p0 len (i32_add i 1) (i32_add (i32_add (i32_mul num 10) character) (-48)).
Proof. reflexivity. Qed.

Lemma ti_loop_spec : forall rest pre num fuel, bytes rest -> (length rest < fuel)%nat ->
  alen pre + alen rest <= 2147483647 ->
  ti_loop fuel (pre ++ rest) (alen (pre ++ rest)) (alen pre) num
  = Ok (if forallb is_digit rest then Some (fold_left wstep rest num) else None).
Proof.
  induction rest as [|c rest IH]; intros pre num fuel Hb Hf Hsz; (destruct fuel as [|fuel]; [cbn in Hf; lia|]);
    rewrite ti_loop_unfold; unfold i32_ge_s at 1; rewrite nz_b2z.
  - rewrite app_nil_r. rewrite Z.leb_refl. reflexivity.
  - rewrite alen_app, alen_cons in *. pose proof (alen_nonneg rest). pose proof (alen_nonneg pre).
    replace (alen pre + (1 + alen rest) <=? alen pre) with false by (symmetry; apply Z.leb_gt; lia).
    rewrite arr_get_s_mid by reflexivity. cbn [bind].
    apply bytes_cons in Hb. destruct Hb as [Hc Hb].
    fold (digit_test c). rewrite digit_test_spec by assumption. cbn [forallb].
    destruct (is_digit c); cbn [negb andb]; [|reflexivity].
    rewrite add_id by lia.
    replace (pre ++ c :: rest) with ((pre ++ [c]) ++ rest) by (now rewrite <- app_assoc).
    replace (alen pre + 1) with (alen (pre ++ [c])) by (rewrite alen_app; reflexivity).
    replace (alen pre + (1 + alen rest)) with (alen ((pre ++ [c]) ++ rest))
      by (rewrite !alen_app; change (alen [c]) with 1; lia).
    rewrite IH.
    + reflexivity.
    + assumption.
    + cbn [length] in Hf. lia.
    + rewrite alen_app. change (alen [c]) with 1. lia.
Qed.

(* what BOTH implementations compute on every string: Model.toInt_spec *)
Lemma wrap32_neg v : i32_sub 0 (wrap32 v) = wrap32 (- v).
Proof.
  unfold i32_sub. replace (0 - wrap32 v) with (-1 * wrap32 v) by lia.
  rewrite wrap32_mul_r. f_equal; lia.
Qed.
Lemma wrap32_wrap32 v : wrap32 (wrap32 v) = wrap32 v.
Proof. apply wrap32_id, wrap32_in. Qed.

Lemma toInt_body_spec : forall c r, bytes (c :: r) -> alen (c :: r) <= 2147483647 ->
  wasm_toInt_body (c :: r) (alen (c :: r)) = Ok (toInt_spec (c :: r)).
Proof.
  intros c r Hb Hsz. unfold wasm_toInt_body, toInt_spec, toInt_digits.
  assert (G0 : arr_get_s (c :: r) 0 = Ok (get_s c)) by (apply (arr_get_s_mid [] c r 0); reflexivity).
  rewrite G0. cbn [bind].
  apply bytes_cons in Hb. destruct Hb as [Hc Hr].
  assert (Hneg : i32_eq 45 (get_s c) = b2z (c =? 45)%N).
  { unfold i32_eq. f_equal. destruct (N.eqb_spec c 45) as [-> | Hne]; [reflexivity|].
    apply Z.eqb_neq. intros E. apply Hne. apply get_s_inj; [assumption | lia | ]. rewrite <- E. reflexivity. }
  rewrite Hneg. rewrite alen_cons in Hsz. pose proof (alen_nonneg r).
  destruct (c =? 45)%N eqn:E45; cbn [b2z].
  - (* the scan starts after the sign *)
    pose proof (ti_loop_spec r [c] 0 (S (length (c :: r)))) as L. change ([c] ++ r) with (c :: r) in L.
    change (alen [c]) with 1 in L. rewrite L; [| assumption | cbn [length]; lia | lia ].
    cbn [bind]. destruct (forallb is_digit r) eqn:Ed; [|reflexivity].
    replace (fold_left wstep r 0) with (wrap32 (fold_left zstep r 0)) by (symmetry; exact (fold_wstep r 0 Ed)).
    unfold i32_select. cbn [Z.eqb]. rewrite wrap32_neg. unfold digits_value. f_equal; f_equal; fold zstep; lia.
  - pose proof (ti_loop_spec (c :: r) [] 0 (S (length (c :: r)))) as L. cbn [app] in L.
    change (alen (@nil N)) with 0 in L. rewrite L; [| now apply bytes_cons | cbn [length]; lia | rewrite alen_cons; lia ].
    cbn [bind]. destruct (forallb is_digit (c :: r)) eqn:Ed; [|reflexivity].
    replace (fold_left wstep (c :: r) 0) with (wrap32 (fold_left zstep (c :: r) 0))
      by (symmetry; exact (fold_wstep (c :: r) 0 Ed)).
    unfold i32_select. cbn [Z.eqb]. unfold digits_value. f_equal; f_equal; fold zstep; lia.
Qed.

Theorem toInt_wasm_total : forall s, bytes s -> alen s <= 2147483647 -> wasm_toInt s = Ok (toInt_spec s).
Proof.
  intros s Hb Hsz. destruct s as [|c r]; [reflexivity|].
  unfold wasm_toInt. unfold i32_eqz. rewrite nz_b2z.
  destruct (Z.eqb_spec (alen (c :: r)) 0) as [E | E].
  - rewrite alen_cons in E. pose proof (alen_nonneg r). lia.
  - now apply toInt_body_spec.
Qed.
(* REGRESSION (before d2dae6b): the same function except that the empty array trapped *)
Theorem toInt_wasm_total_old : forall s, bytes s -> alen s <= 2147483647 ->
  wasm_toInt_old s = match s with [] => Trap TArrayOOB | _ => Ok (toInt_spec s) end.
Proof.
  intros s Hb Hsz. destruct s as [|c r]; [reflexivity|]. unfold wasm_toInt_old. cbv zeta. now apply toInt_body_spec.
Qed.

Lemma spec_parse_inv s v : spec_parse s = Some v ->
  (exists ds, s = 45%N :: ds /\ ds <> [] /\ forallb is_digit ds = true /\ v = - digits_value ds) \/
  (s <> [] /\ forallb is_digit s = true /\ v = digits_value s).
Proof.
  unfold spec_parse. destruct s as [|c r]; [discriminate|].
  destruct (N.eq_dec c 45) as [-> | Hc].
  - destruct r as [|d r].
    + cbn. discriminate.
    + destruct (forallb is_digit (d :: r)) eqn:E; [|discriminate]. intros [= <-]. left.
      exists (d :: r). repeat split; auto. discriminate.
  - assert (H : (if forallb is_digit (c :: r) then Some (digits_value (c :: r)) else None) = Some v ->
                (c :: r) <> [] /\ forallb is_digit (c :: r) = true /\ v = digits_value (c :: r)).
    { destruct (forallb is_digit (c :: r)); [|discriminate]. intros [= <-]. repeat split; auto. discriminate. }
    intros E. right. apply H.
    destruct c as [|p]; [exact E|].
    do 6 (destruct p as [p|p|]; try exact E). all: try exact E.
    all: try (destruct r; exact E). all: try (exfalso; apply Hc; reflexivity).
Qed.

Lemma digits_value_nonneg ds : forallb is_digit ds = true -> 0 <= digits_value ds.
Proof.
  unfold digits_value. assert (G : forall ds a, 0 <= a -> forallb is_digit ds = true ->
    0 <= fold_left (fun a d => 10 * a + (Z.of_N d - 48)) ds a).
  { clear ds. induction ds as [|d ds IH]; intros a Ha H; [exact Ha|]. cbn [forallb] in H. apply andb_prop in H.
    destruct H as [Hd H]. apply is_digit_range in Hd. cbn [fold_left]. apply IH; [lia | assumption]. }
  intros H. apply G; [lia | assumption].
Qed.

(* on the literals of 32-bit integers the characterisation is the value *)
Lemma toInt_spec_lit s v : spec_parse s = Some v -> in32 v ->
  toInt_spec s = v /\ digits_value (toInt_digits s) <= 2147483648.
Proof.
  intros Hp Hv. apply spec_parse_inv in Hp. unfold in32, MIN, MAX in Hv.
  destruct Hp as [[ds [-> [Hne [Hd ->]]]] | [Hne [Hd ->]]].
  - unfold toInt_spec, toInt_digits. rewrite N.eqb_refl, Hd. split; [|lia].
    replace (-1 * digits_value ds) with (- digits_value ds) by lia. apply wrap32_id. unfold in32, MIN, MAX. lia.
  - destruct s as [|c r]; [congruence|]. unfold toInt_spec, toInt_digits.
    assert (Hc : (c =? 45)%N = false).
    { cbn [forallb] in Hd. apply andb_prop in Hd. destruct Hd as [Hc _]. apply is_digit_range in Hc.
      apply N.eqb_neq. lia. }
    rewrite Hc, Hd. split; [|lia].
    replace (1 * digits_value (c :: r)) with (digits_value (c :: r)) by lia. apply wrap32_id. unfold in32, MIN, MAX. lia.
Qed.
Lemma digits_bytes ds : forallb is_digit ds = true -> bytes ds.
Proof.
  intros H. unfold bytes. apply Forall_forall. intros x Hx. rewrite forallb_forall in H.
  specialize (H x Hx). apply is_digit_range in H. lia.
Qed.
Lemma spec_parse_bytes s v : spec_parse s = Some v -> bytes s.
Proof.
  intros Hp. apply spec_parse_inv in Hp. destruct Hp as [[ds [-> [_ [Hd _]]]] | [_ [Hd _]]].
  - apply bytes_cons. split; [lia | now apply digits_bytes].
  - now apply digits_bytes.
Qed.
Theorem toInt_wasm_correct : forall s v, spec_parse s = Some v -> in32 v -> alen s <= 2147483647 ->
  wasm_toInt s = Ok v.
Proof.
  intros s v Hp Hv Hsz. rewrite toInt_wasm_total; [| now apply (spec_parse_bytes s v) | assumption].
  f_equal. now apply toInt_spec_lit.
Qed.

(* ---- TypeScript: the scanning loop, then parseInt(s, 10) | 0 *)
Lemma digit_not_special c : is_digit c = true -> js_is_ws c = false /\ c <> 45%N /\ c <> 43%N.
Proof.
  intros H. apply is_digit_range in H.
  assert (E : (c = 48 \/ c = 49 \/ c = 50 \/ c = 51 \/ c = 52 \/ c = 53 \/ c = 54 \/ c = 55 \/ c = 56 \/ c = 57)%N) by lia.
  repeat (destruct E as [-> | E]; [repeat split; try reflexivity; discriminate|]).
  subst. repeat split; try reflexivity; discriminate.
Qed.
Lemma digit_prefix_all ds : forallb is_digit ds = true -> js_digit_prefix ds = ds.
Proof.
  induction ds as [|d ds IH]; intros H; [reflexivity|]. cbn [forallb] in H. apply andb_prop in H. destruct H as [Hd H].
  cbn [js_digit_prefix]. rewrite Hd. now rewrite IH.
Qed.

Lemma sign_split_digit c r : is_digit c = true ->
  match c :: r with 45%N :: r0 => (-1, r0) | 43%N :: r0 => (1, r0) | _ => (1, c :: r) end = (1, c :: r).
Proof.
  intros Hc. apply is_digit_range in Hc.
  assert (E : (c = 48 \/ c = 49 \/ c = 50 \/ c = 51 \/ c = 52 \/ c = 53 \/ c = 54 \/ c = 55 \/ c = 56 \/ c = 57)%N) by lia.
  repeat (destruct E as [-> | E]; [reflexivity|]). subst. reflexivity.
Qed.
Lemma ts_digit_test c : ((c <? 48) || (57 <? c))%N = negb (is_digit c).
Proof.
  unfold is_digit. destruct (N.ltb_spec c 48), (N.leb_spec 48 c), (N.ltb_spec 57 c), (N.leb_spec c 57); try lia; reflexivity.
Qed.
Lemma tti_loop_unfold f s i : tti_loop (S f) s i =
  if i <? alen s then
    match nth_error s (Z.to_nat i) with
    | Some c => if (c <? 48)%N || (57 <? c)%N then Ok false else tti_loop f s (i + 1)
    | None => tti_loop f s (i + 1)
    end
  else Ok true.
Proof. reflexivity. Qed.
Lemma tti_loop_spec : forall rest pre fuel, (length rest < fuel)%nat ->
  tti_loop fuel (pre ++ rest) (alen pre) = Ok (forallb is_digit rest).
Proof.
  induction rest as [|c rest IH]; intros pre fuel Hf; (destruct fuel as [|fuel]; [cbn in Hf; lia|]); rewrite tti_loop_unfold.
  - rewrite app_nil_r, Z.ltb_irrefl. reflexivity.
  - rewrite alen_app, alen_cons. pose proof (alen_nonneg rest).
    replace (alen pre <? alen pre + (1 + alen rest)) with true by (symmetry; apply Z.ltb_lt; lia).
    rewrite nth_error_mid by (unfold alen; lia). rewrite ts_digit_test. cbn [forallb].
    destruct (is_digit c); cbn [negb andb]; [|reflexivity].
    replace (pre ++ c :: rest) with ((pre ++ [c]) ++ rest) by (now rewrite <- app_assoc).
    replace (alen pre + 1) with (alen (pre ++ [c])) by (rewrite alen_app; reflexivity).
    apply IH. cbn [length] in Hf. lia.
Qed.

(* the value parseInt sees is exact in a double: the only hypothesis about the string *)
Definition toInt_exact (s : str) : Prop :=
  forallb is_digit (toInt_digits s) = true -> digits_value (toInt_digits s) <= JS_EXACT.

Theorem toInt_ts_total : forall s, toInt_exact s -> ts_toInt s = Ok (JInt (toInt_spec s)).
Proof.
  intros s Hex. destruct s as [|c r]; [reflexivity|].
  unfold toInt_exact in Hex. unfold ts_toInt, toInt_spec. unfold toInt_digits in *.
  destruct (c =? 45)%N eqn:E45.
  - apply N.eqb_eq in E45. subst c.
    pose proof (tti_loop_spec r [45%N] (S (length (45%N :: r)))) as L. change ([45%N] ++ r) with (45%N :: r) in L.
    change (alen [45%N]) with 1 in L. rewrite L by (cbn [length]; lia). cbn [bind].
    destruct (forallb is_digit r) eqn:Ed; [|reflexivity].
    specialize (Hex eq_refl). unfold js_parseInt10.
    assert (Ht : js_trim_start (45%N :: r) = 45%N :: r) by reflexivity. rewrite Ht. cbv iota beta zeta.
    rewrite digit_prefix_all by assumption. destruct r as [|d ds]; [reflexivity|].
    destruct (Z.eqb_spec (digits_value (d :: ds)) 0) as [E | E].
    + rewrite E. reflexivity.
    + destruct (Z.leb_spec (digits_value (d :: ds)) JS_EXACT); [reflexivity | lia].
  - pose proof (tti_loop_spec (c :: r) [] (S (length (c :: r)))) as L. cbn [app] in L.
    change (alen (@nil N)) with 0 in L. rewrite L by (cbn [length]; lia). cbn [bind].
    destruct (forallb is_digit (c :: r)) eqn:Ed; [|reflexivity].
    specialize (Hex eq_refl). unfold js_parseInt10.
    assert (Hc : is_digit c = true) by (cbn [forallb] in Ed; apply andb_prop in Ed; tauto).
    destruct (digit_not_special c Hc) as [Hws _]. cbn [js_trim_start]. rewrite Hws.
    rewrite sign_split_digit by assumption. cbv iota beta zeta. rewrite digit_prefix_all by assumption.
    destruct (Z.eqb_spec (digits_value (c :: r)) 0) as [E | E].
    + rewrite E. reflexivity.
    + destruct (Z.leb_spec (digits_value (c :: r)) JS_EXACT); [reflexivity | lia].
Qed.

(* EVERY byte string whose digit part is at most 2^53 (in particular every string of at most 15 characters): both back
   ends return toInt_spec.  Beyond 2^53 parseInt rounds to a double before `| 0`, WebAssembly wraps the exact value:
   not modelled (JBig), and a run that gets there has overflowed 32 bits long before. *)
Theorem toInt_backends_agree : forall s, bytes s -> alen s <= 2147483647 -> toInt_exact s ->
  wasm_toInt s = Ok (toInt_spec s) /\ ts_toInt s = Ok (JInt (toInt_spec s)).
Proof. intros s Hb Hsz Hex. split; [now apply toInt_wasm_total | now apply toInt_ts_total]. Qed.
Lemma short_exact s : (length s <= 15)%nat -> toInt_exact s.
Proof.
  intros Hl Hd. assert (G : forall ds a, 0 <= a -> forallb is_digit ds = true ->
    fold_left (fun a d => 10 * a + (Z.of_N d - 48)) ds a <= (a + 1) * 10 ^ Z.of_nat (length ds) - 1).
  { clear. induction ds as [|d ds IH]; intros a Ha H.
    - cbn. lia.
    - cbn [forallb] in H. apply andb_prop in H. destruct H as [Hd H]. apply is_digit_range in Hd.
      cbn [fold_left length]. rewrite pow10_succ. specialize (IH (10 * a + (Z.of_N d - 48))).
      assert (0 < 10 ^ Z.of_nat (length ds)) by (apply Z.pow_pos_nonneg; lia).
      etransitivity; [apply IH; [lia | assumption]|]. nia. }
  specialize (G (toInt_digits s) 0 (Z.le_refl 0) Hd). unfold digits_value.
  assert (Hl' : (length (toInt_digits s) <= 15)%nat).
  { unfold toInt_digits. destruct s as [|c r]; [cbn; lia|]. destruct (c =? 45)%N; cbn [length] in *; lia. }
  assert (10 ^ Z.of_nat (length (toInt_digits s)) <= 10 ^ 15) by (apply Z.pow_le_mono_r; lia).
  unfold JS_EXACT. change (10 ^ 15) with 1000000000000000 in *. lia.
Qed.

Theorem toInt_ts_correct : forall s v, spec_parse s = Some v -> in32 v -> ts_toInt s = Ok (JInt v).
Proof.
  intros s v Hp Hv. destruct (toInt_spec_lit s v Hp Hv) as [E Hb].
  rewrite toInt_ts_total; [now rewrite E|]. intros _. unfold JS_EXACT. lia.
Qed.
Theorem toInt_literals_agree : forall s v, spec_parse s = Some v -> in32 v -> alen s <= 2147483647 ->
  wasm_toInt s = Ok v /\ ts_toInt s = Ok (JInt v).
Proof. intros. split; [now apply toInt_wasm_correct | now apply toInt_ts_correct]. Qed.

(* REGRESSION (before 0289470 / d2dae6b): the witnesses of the three repaired differences, on the old functions *)
Lemma toInt_old_empty : wasm_toInt_old [] = Trap TArrayOOB /\ ts_toInt_old [] = JNaN.
Proof. split; reflexivity. Qed.
Lemma toInt_old_non_numeral :
  wasm_toInt_old [49; 50; 97; 98; 99]%N = Ok 0 /\ ts_toInt_old [49; 50; 97; 98; 99]%N = JInt 12 /\
  wasm_toInt_old [32; 52; 50]%N = Ok 0 /\ ts_toInt_old [32; 52; 50]%N = JInt 42 /\
  wasm_toInt_old [45]%N = Ok 0 /\ ts_toInt_old [45]%N = JNaN.
Proof. repeat split; reflexivity. Qed.

(* ---- toInt after fromInt *)
Lemma dec_digits_all m : 0 <= m < 10 ^ 40 -> forallb is_digit (C17.Model.dec (Z.to_N m)) = true /\
  C17.Model.dec (Z.to_N m) <> [] /\ digits_value (C17.Model.dec (Z.to_N m)) = m.
Proof.
  intros H. destruct (Z.eq_dec m 0) as [-> | H0]; [repeat split; discriminate|].
  rewrite dec_lsd by lia. repeat split.
  - apply forallb_forall. intros x Hx. apply in_rev in Hx. pose proof (lsd_digits 40 m) as D.
    rewrite Forall_forall in D. apply is_digit_range. now apply D.
  - intros E. apply (f_equal (@rev N)) in E. rewrite rev_involutive in E. revert E. apply lsd_nonempty. lia.
  - apply digits_value_lsd. change (Z.of_nat 40) with 40. lia.
Qed.
Theorem spec_parse_dec : forall n, - 10 ^ 40 < n < 10 ^ 40 -> spec_parse (spec_dec n) = Some n.
Proof.
  intros n Hn. unfold spec_dec. destruct (Z.ltb_spec n 0).
  - destruct (dec_digits_all (- n)) as [Hd [Hne Hv]]; [lia|].
    destruct (C17.Model.dec (Z.to_N (- n))) as [|d ds] eqn:E; [congruence|].
    unfold spec_parse. rewrite Hd, Hv. f_equal. lia.
  - destruct (dec_digits_all n) as [Hd [Hne Hv]]; [lia|].
    destruct (C17.Model.dec (Z.to_N n)) as [|d ds] eqn:E; [congruence|].
    assert (Hc : is_digit d = true) by (cbn [forallb] in Hd; apply andb_prop in Hd; tauto).
    destruct (digit_not_special d Hc) as [_ [H45 _]].
    assert (Hs : spec_parse (d :: ds) = if forallb is_digit (d :: ds) then Some (digits_value (d :: ds)) else None).
    { apply is_digit_range in Hc.
      assert (E' : (d = 48 \/ d = 49 \/ d = 50 \/ d = 51 \/ d = 52 \/ d = 53 \/ d = 54 \/ d = 55 \/ d = 56 \/ d = 57)%N) by lia.
      repeat (destruct E' as [-> | E']; [reflexivity|]). subst. reflexivity. }
    rewrite Hs, Hd, Hv. reflexivity.
Qed.
Theorem spec_dec_injective : forall a b, in32 a -> in32 b -> spec_dec a = spec_dec b -> a = b.
Proof.
  intros a b Ha Hb E. unfold in32, MIN, MAX in *. assert (2147483648 < 10 ^ 40) by reflexivity.
  assert (Some a = Some b); [|congruence].
  rewrite <- (spec_parse_dec a), <- (spec_parse_dec b) by lia. now rewrite E.
Qed.
Lemma spec_dec_len n : in32 n -> alen (spec_dec n) <= 2147483647.
Proof.
  intros Hn. unfold in32, MIN, MAX in Hn. unfold spec_dec.
  destruct (Z.ltb_spec n 0).
  - destruct (Z.eq_dec n (-2147483648)) as [-> | Hm]; [vm_compute; discriminate|].
    rewrite alen_cons. rewrite dec_lsd by (split; [lia | transitivity 2147483648; [lia | reflexivity]]).
    rewrite alen_rev. pose proof (lsd_length 40 (- n)). unfold alen. lia.
  - destruct (Z.eq_dec n 0) as [-> | H0]; [vm_compute; discriminate|].
    rewrite dec_lsd by (split; [lia | transitivity 2147483648; [lia | reflexivity]]).
    rewrite alen_rev. pose proof (lsd_length 40 n). unfold alen. lia.
Qed.
Theorem toInt_fromInt_wasm : forall n, in32 n -> (s <- wasm_fromInt n ;; wasm_toInt s) = Ok n.
Proof.
  intros n Hn. rewrite fromInt_wasm_correct by assumption. cbn [bind].
  apply toInt_wasm_correct; [| assumption | now apply spec_dec_len].
  apply spec_parse_dec. unfold in32, MIN, MAX in Hn. assert (2147483648 < 10 ^ 40) by reflexivity. lia.
Qed.
Theorem toInt_fromInt_ts : forall n, in32 n -> ts_toInt (ts_fromInt (JInt n)) = Ok (JInt n).
Proof.
  intros n Hn. rewrite fromInt_ts_correct by assumption. apply toInt_ts_correct; [|assumption].
  apply spec_parse_dec. unfold in32, MIN, MAX in Hn. assert (2147483648 < 10 ^ 40) by reflexivity. lia.
Qed.

(* ------------------------------------------------------------------------------------------------------------------ *)
(* concat                                                                                                               *)
(* ------------------------------------------------------------------------------------------------------------------ *)
Lemma cc_loop_unfold f dst src base n index : cc_copy_loop (S f) dst src base n index =
  if nz (i32_ge_s index n) then Ok (dst, index)
  else x <- arr_get_s src index ;;
       dst <- arr_set8 dst (i32_add base index) x ;;
       cc_copy_loop f dst src base n (i32_add index 1).
Proof. reflexivity. Qed.

Lemma cc_loop_spec : forall rest pre done done' todo post fuel,
  bytes rest -> length todo = length rest -> length done = length done' -> (length rest < fuel)%nat ->
  alen pre + alen done + alen rest <= 2147483647 ->
  cc_copy_loop fuel (pre ++ done ++ todo ++ post) (done' ++ rest) (alen pre) (alen (done' ++ rest)) (alen done')
  = Ok (pre ++ done ++ rest ++ post, alen (done' ++ rest)).
Proof.
  induction rest as [|c rest IH]; intros pre done done' todo post fuel Hb Ht Hd Hf Hsz;
    (destruct fuel as [|fuel]; [cbn in Hf; lia|]); rewrite cc_loop_unfold; unfold i32_ge_s at 1; rewrite nz_b2z.
  - destruct todo; [|discriminate]. rewrite app_nil_r, Z.leb_refl. reflexivity.
  - destruct todo as [|t todo]; [discriminate|]. cbn [length] in Ht. injection Ht as Ht.
    assert (Hd' : alen done = alen done') by (unfold alen; lia).
    rewrite alen_app, alen_cons in *. pose proof (alen_nonneg rest). pose proof (alen_nonneg pre). pose proof (alen_nonneg done).
    replace (alen done' + (1 + alen rest) <=? alen done') with false by (symmetry; apply Z.leb_gt; lia).
    rewrite arr_get_s_mid by reflexivity. cbn [bind].
    rewrite add_id by lia.
    replace (pre ++ done ++ (t :: todo) ++ post) with ((pre ++ done) ++ t :: (todo ++ post))
      by (rewrite <- !app_assoc; reflexivity).
    rewrite arr_set8_mid by (rewrite alen_app; lia). cbn [bind].
    apply bytes_cons in Hb. destruct Hb as [Hc Hb]. rewrite pack_get_s by assumption.
    rewrite add_id by lia.
    replace ((pre ++ done) ++ c :: todo ++ post) with (pre ++ (done ++ [c]) ++ todo ++ post)
      by (rewrite <- !app_assoc; reflexivity).
    replace (done' ++ c :: rest) with ((done' ++ [c]) ++ rest) by (now rewrite <- app_assoc).
    replace (alen done' + 1) with (alen (done' ++ [c])) by (rewrite alen_app; reflexivity).
    replace (alen done' + (1 + alen rest)) with (alen ((done' ++ [c]) ++ rest))
      by (rewrite !alen_app; change (alen [c]) with 1; lia).
    rewrite IH.
    + rewrite <- !app_assoc. reflexivity.
    + assumption.
    + assumption.
    + rewrite !app_length. cbn [length]. lia.
    + cbn [length] in Hf. lia.
    + rewrite alen_app. change (alen [c]) with 1. lia.
Qed.

Theorem concat_wasm_correct : forall a b, bytes a -> bytes b -> alen a + alen b <= 2147483647 ->
  wasm_concat a b = Ok (spec_concat a b).
Proof.
  intros a b Ha Hb Hsz. unfold wasm_concat, spec_concat.
  pose proof (alen_nonneg a). pose proof (alen_nonneg b).
  rewrite add_id by lia. rewrite arr_new_ok by lia. cbn [bind].
  replace (Z.to_nat (alen a + alen b)) with (length a + length b)%nat by (unfold alen; lia).
  rewrite repeat_app.
  pose proof (cc_loop_spec a [] [] [] (repeat 0%N (length a)) (repeat 0%N (length b)) (S (length a))) as L1.
  cbn [app] in L1. change (alen (@nil N)) with 0 in L1. rewrite L1;
    [| assumption | now rewrite repeat_length | reflexivity | lia | lia].
  cbn [bind].
  pose proof (cc_loop_spec b a [] [] (repeat 0%N (length b)) [] (S (length b))) as L2.
  cbn [app] in L2. rewrite !app_nil_r in L2. change (alen (@nil N)) with 0 in L2. rewrite L2;
    [| assumption | now rewrite repeat_length | reflexivity | lia | lia].
  reflexivity.
Qed.
Theorem concat_ts_correct : forall a b, ts_concat a b = spec_concat a b.
Proof. reflexivity. Qed.
Theorem concat_backends_agree : forall a b, bytes a -> bytes b -> alen a + alen b <= 2147483647 ->
  wasm_concat a b = Ok (ts_concat a b).
Proof. intros. now rewrite concat_wasm_correct. Qed.

(* ------------------------------------------------------------------------------------------------------------------ *)
(* string equality                                                                                                      *)
(* ------------------------------------------------------------------------------------------------------------------ *)
Lemma spec_str_eqb_eq a : forall b, spec_str_eqb a b = true <-> a = b.
Proof.
  induction a as [|x a IH]; intros [|y b]; cbn [spec_str_eqb]; try (split; [discriminate | congruence]).
  - tauto.
  - rewrite andb_true_iff, N.eqb_eq, IH. split; [intros [-> ->]; reflexivity | intros [= -> ->]; tauto].
Qed.
Lemma spec_str_eqb_refl a : spec_str_eqb a a = true.
Proof. now apply spec_str_eqb_eq. Qed.
Lemma spec_str_eqb_len a b : length a <> length b -> spec_str_eqb a b = false.
Proof.
  intros H. destruct (spec_str_eqb a b) eqn:E; [|reflexivity]. apply spec_str_eqb_eq in E. congruence.
Qed.

Lemma se_loop_unfold f a b len i : se_loop (S f) a b len i =
  if nz (i32_ge_s i len) then Ok 1
  else x <- arr_get_s a i ;; y <- arr_get_s b i ;;
       if nz (i32_ne x y) then Ok 0 else se_loop f a b len (i32_add i 1).
Proof. reflexivity. Qed.

Lemma se_loop_spec : forall ra rb pa pb fuel, bytes ra -> bytes rb -> length ra = length rb -> length pa = length pb ->
  (length ra < fuel)%nat -> alen pa + alen ra <= 2147483647 ->
  se_loop fuel (pa ++ ra) (pb ++ rb) (alen (pa ++ ra)) (alen pa) = Ok (b2z (spec_str_eqb ra rb)).
Proof.
  induction ra as [|x ra IH]; intros rb pa pb fuel Ha Hb Hl Hp Hf Hsz;
    (destruct fuel as [|fuel]; [cbn in Hf; lia|]); rewrite se_loop_unfold; unfold i32_ge_s at 1; rewrite nz_b2z.
  - destruct rb; [|discriminate]. rewrite app_nil_r, Z.leb_refl. reflexivity.
  - destruct rb as [|y rb]; [discriminate|]. cbn [length] in Hl. injection Hl as Hl.
    assert (Hp' : alen pa = alen pb) by (unfold alen; lia).
    rewrite alen_app, alen_cons in *. pose proof (alen_nonneg ra). pose proof (alen_nonneg pa).
    replace (alen pa + (1 + alen ra) <=? alen pa) with false by (symmetry; apply Z.leb_gt; lia).
    rewrite arr_get_s_mid by reflexivity. cbn [bind]. rewrite arr_get_s_mid by exact Hp'. cbn [bind].
    apply bytes_cons in Ha. destruct Ha as [Hx Ha]. apply bytes_cons in Hb. destruct Hb as [Hy Hb].
    unfold i32_ne. rewrite nz_b2z. cbn [spec_str_eqb].
    destruct (N.eqb_spec x y) as [-> | Hne].
    + rewrite Z.eqb_refl. cbn [negb andb]. rewrite add_id by lia.
      replace (pa ++ y :: ra) with ((pa ++ [y]) ++ ra) by (now rewrite <- app_assoc).
      replace (pb ++ y :: rb) with ((pb ++ [y]) ++ rb) by (now rewrite <- app_assoc).
      replace (alen pa + 1) with (alen (pa ++ [y])) by (rewrite alen_app; reflexivity).
      replace (alen pa + (1 + alen ra)) with (alen ((pa ++ [y]) ++ ra))
        by (rewrite !alen_app; change (alen [y]) with 1; lia).
      apply IH; try assumption.
      * rewrite !app_length. cbn [length]. lia.
      * cbn [length] in Hf. lia.
      * rewrite alen_app. change (alen [y]) with 1. lia.
    + replace (get_s x =? get_s y) with false; [reflexivity|].
      symmetry. apply Z.eqb_neq. intros E. apply Hne. now apply get_s_inj.
Qed.

Theorem str_eq_wasm_correct : forall same a b, bytes a -> bytes b -> alen a <= 2147483647 -> alen b <= 2147483647 ->
  (same = true -> a = b) -> wasm_str_eq same a b = Ok (b2z (spec_str_eqb a b)).
Proof.
  intros same a b Ha Hb Hsa Hsb Hsame. unfold wasm_str_eq. destruct same.
  - rewrite (Hsame eq_refl), spec_str_eqb_refl. reflexivity.
  - unfold i32_ne. rewrite nz_b2z. destruct (Z.eqb_spec (alen a) (alen b)) as [E | E]; cbn [negb].
    + pose proof (se_loop_spec a b [] [] (S (length a))) as L. cbn [app] in L. change (alen (@nil N)) with 0 in L.
      apply L; try assumption; try reflexivity; try lia. unfold alen in E. lia.
    + rewrite spec_str_eqb_len; [reflexivity|]. unfold alen in E. lia.
Qed.
Theorem str_eq_ts_correct : forall a b, ts_str_eq a b = b2z (spec_str_eqb a b).
Proof. reflexivity. Qed.
Theorem str_eq_backends_agree : forall same a b, bytes a -> bytes b -> alen a <= 2147483647 -> alen b <= 2147483647 ->
  (same = true -> a = b) -> wasm_str_eq same a b = Ok (ts_str_eq a b).
Proof. intros. now rewrite str_eq_wasm_correct. Qed.

(* ------------------------------------------------------------------------------------------------------------------ *)
(* what leaves through println / panic                                                                                  *)
(* ------------------------------------------------------------------------------------------------------------------ *)
Theorem host_string_ascii : forall s, ascii s -> wasm_host_string s = ts_host_string s.
Proof.
  intros s H. unfold wasm_host_string, ts_host_string. induction H as [|c s Hc H IH]; [reflexivity|].
  cbn [map]. rewrite IH. f_equal. rewrite get_s_ascii by assumption. unfold from_char_code.
  rewrite Z.mod_small by lia. lia.
Qed.
Theorem spec_dec_ascii : forall n, in32 n -> ascii (spec_dec n).
Proof.
  intros n Hn. unfold in32, MIN, MAX in Hn. assert (2147483648 < 10 ^ 40) by reflexivity.
  assert (D : forall m, 0 <= m < 10 ^ 40 -> ascii (C17.Model.dec (Z.to_N m))).
  { intros m Hm. destruct (dec_digits_all m Hm) as [Hd _]. apply Forall_forall. intros x Hx.
    rewrite forallb_forall in Hd. specialize (Hd x Hx). apply is_digit_range in Hd. lia. }
  unfold spec_dec. destruct (Z.ltb_spec n 0).
  - constructor; [lia|]. apply D. lia.
  - apply D. lia.
Qed.
