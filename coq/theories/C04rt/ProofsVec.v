(* C04rt - Vec: the WebAssembly struct {data, length} with a growable backing array and the TypeScript JS array both
   refine finite sequences, including the documented bounds panics. *)
From Coq Require Import ZArith NArith List Bool Lia.
From SV Require Import Common.Int32 C04rt.Model C04rt.ProofsBase.
Import ListNotations.
Open Scope Z_scope.
Ltac Zify.zify_post_hook ::= Z.div_mod_to_equations.

Lemma firstn_app_exact {A} (p q : list A) n : n = length p -> firstn n (p ++ q) = p.
Proof. intros ->. rewrite firstn_app, Nat.sub_diag, firstn_all. cbn. apply app_nil_r. Qed.
Lemma skipn_app_exact {A} (p q : list A) n : n = length p -> skipn n (p ++ q) = q.
Proof. intros ->. rewrite skipn_app, Nat.sub_diag, skipn_all. reflexivity. Qed.

(* Vec<int> elements: 31-bit boxing is the identity exactly on [-2^30, 2^30) *)
Theorem box31_roundtrip : forall n, in32 n -> (unbox31 (box31 n) = n <-> in31 n).
Proof. intros n Hn. unfold in32, MIN, MAX in Hn. unfold unbox31, box31, in31. split; intros H; lia. Qed.

Section VecProofs.
  Variable A : Type.

  Notation wvec := (wvec A).
  Notation wabs := (wabs A).
  Notation wrep := (wrep A).
  Notation somes := (somes A).

  (* ---- the abstraction *)
  Lemma somes_map l : somes (map Some l) = Some l.
  Proof. induction l as [|x l IH]; [reflexivity|]. cbn [map Model.somes]. now rewrite IH. Qed.
  Lemma somes_inv d : forall l, somes d = Some l -> d = map Some l.
  Proof.
    induction d as [|o d IH]; intros l H.
    - cbn in H. injection H as <-. reflexivity.
    - cbn [Model.somes] in H. destruct o as [x|]; [|discriminate]. destruct (somes d) as [xs|] eqn:E; [|discriminate].
      injection H as <-. cbn [map]. f_equal. now apply IH.
  Qed.
  Lemma wabs_inv v l : wabs v = Some l -> exists rest, wdata v = map Some l ++ rest /\ wlen v = alen l.
  Proof.
    unfold Model.wabs. destruct ((0 <=? wlen v) && (wlen v <=? alen (wdata v))) eqn:C; [|discriminate].
    apply andb_prop in C. destruct C as [C1 C2]. apply Z.leb_le in C1, C2. intros H. apply somes_inv in H.
    exists (skipn (Z.to_nat (wlen v)) (wdata v)). split.
    - rewrite <- H. symmetry. apply firstn_skipn.
    - apply (f_equal (@length _)) in H. rewrite firstn_length, map_length in H. unfold alen in *. lia.
  Qed.
  Lemma wabs_intro l rest : wabs (mkW (map Some l ++ rest) (alen l)) = Some l.
  Proof.
    unfold Model.wabs. cbn [wlen wdata]. rewrite alen_app, alen_map.
    pose proof (alen_nonneg l). pose proof (alen_nonneg rest).
    replace (0 <=? alen l) with true by (symmetry; apply Z.leb_le; lia).
    replace (alen l <=? alen l + alen rest) with true by (symmetry; apply Z.leb_le; lia).
    cbn [andb]. rewrite firstn_app_exact by (rewrite map_length; unfold alen; lia). apply somes_map.
  Qed.

  (* ---- constructors, length *)
  Theorem vec_empty_wasm : exists v, wasm_vec_empty A = Ok v /\ wrep v [].
  Proof. exists (mkW [] 0). split; [reflexivity|]. split; [reflexivity | cbn; lia]. Qed.
  (* every i32 capacity: a negative one is clamped to 0 by the select *)
  Theorem vec_withCapacity_wasm : forall c, in32 c ->
    exists v, wasm_vec_withCapacity A c = Ok v /\ wabs v = Some [] /\ wasm_vec_capacity A v = Z.max c 0 /\
              (c < 1073741824 -> wrep v []).
  Proof.
    intros c Hc. unfold in32, MIN, MAX in Hc. exists (mkW (repeat None (Z.to_nat (Z.max c 0))) 0).
    unfold wasm_vec_withCapacity, i32_select, i32_gt_s.
    assert (E : (if b2z (0 <? c) =? 0 then 0 else c) = Z.max c 0) by (destruct (Z.ltb_spec 0 c); cbn; lia).
    rewrite E. rewrite arr_new_ok by lia. split; [reflexivity|].
    assert (Ha : wabs (mkW (repeat None (Z.to_nat (Z.max c 0))) 0) = Some []) by exact (wabs_intro [] (repeat None (Z.to_nat (Z.max c 0)))).
    split; [exact Ha|]. split.
    - unfold wasm_vec_capacity. cbn [wdata]. rewrite alen_repeat. lia.
    - intros Hlt. split; [exact Ha|]. cbn [wdata]. rewrite alen_repeat. lia.
  Qed.
  Theorem vec_withCapacity_backends_agree : forall c, in32 c ->
    exists v, wasm_vec_withCapacity A c = Ok v /\ wabs v = Some (ts_vec_withCapacity A c).
  Proof. intros c Hc. destruct (vec_withCapacity_wasm c Hc) as [v [E [Ha _]]]. exists v. split; [exact E | exact Ha]. Qed.
  (* REGRESSION (before 043a9a2): a negative capacity trapped in WebAssembly only *)
  Lemma vec_withCapacity_old_negative : forall c, c < 0 ->
    wasm_vec_withCapacity_old A c = Trap TAllocTooLarge /\ ts_vec_withCapacity A c = [].
  Proof.
    intros c Hc. split; [|reflexivity]. unfold wasm_vec_withCapacity_old, arr_new.
    destruct (Z.leb_spec 0 c); [lia | reflexivity].
  Qed.
  Theorem vec_of_wasm : forall x, exists v, wasm_vec_of A x = Ok v /\ wrep v [x].
  Proof. intros x. exists (mkW [Some x] 1). split; [reflexivity|]. split; [exact (wabs_intro [x] []) | cbn; lia]. Qed.
  Theorem vec_length_wasm : forall v l, wrep v l -> wasm_vec_length A v = spec_vec_length A l.
  Proof. intros v l [H _]. apply wabs_inv in H. destruct H as [rest [_ H]]. exact H. Qed.

  (* ---- reserve / push *)
  Lemma reserve_spec v l min : wrep v l -> min <= 1073741824 ->
    exists v', wasm_vec_reserve A v min = Ok (0, v') /\ wabs v' = Some l /\ min <= alen (wdata v') /\
               alen (wdata v') <= Z.max (alen (wdata v)) (Z.max (2 * alen (wdata v)) (Z.max min 4)).
  Proof.
    intros [Habs Hcap] Hmin. destruct (wabs_inv v l Habs) as [rest [Hd Hl]].
    unfold wasm_vec_reserve. unfold i32_le_s at 1. rewrite nz_b2z.
    pose proof (alen_nonneg (wdata v)) as Hc0.
    destruct (Z.leb_spec min (alen (wdata v))).
    - exists v. repeat split; try assumption; lia.
    - assert (Eshl : i32_shl (alen (wdata v)) 1 = 2 * alen (wdata v)).
      { unfold i32_shl. change (1 mod 32) with 1. change (2 ^ 1) with 2. rewrite wrap_id by lia. lia. }
      rewrite Eshl. unfold i32_lt_s. rewrite !nz_b2z.
      set (nc1 := if 2 * alen (wdata v) <? min then min else 2 * alen (wdata v)).
      set (nc := if nc1 <? 4 then 4 else nc1).
      assert (Hnc : min <= nc /\ 4 <= nc /\ nc <= Z.max (2 * alen (wdata v)) (Z.max min 4)).
      { unfold nc, nc1. destruct (Z.ltb_spec (2 * alen (wdata v)) min);
          [destruct (Z.ltb_spec min 4) | destruct (Z.ltb_spec (2 * alen (wdata v)) 4)]; lia. }
      rewrite arr_new_ok by lia. cbn [bind].
      assert (Hlen : alen l <= alen (wdata v)).
      { rewrite Hd, alen_app, alen_map. pose proof (alen_nonneg rest). lia. }
      pose proof (alen_nonneg l) as Hl0.
      unfold arr_copy. rewrite alen_repeat, Hl.
      replace ((0 <=? 0) && (0 <=? 0) && (0 <=? alen l) && (0 + alen l <=? alen (wdata v)) &&
               (0 + alen l <=? Z.of_nat (Z.to_nat nc))) with true.
      2:{ symmetry. rewrite !andb_true_iff, !Z.leb_le. lia. }
      cbn [bind]. change (Z.to_nat 0) with 0%nat. cbn [firstn skipn app].
      rewrite Hd. rewrite firstn_app_exact by (rewrite map_length; unfold alen; lia).
      exists (mkW (map Some l ++ skipn (Z.to_nat (0 + alen l)) (repeat None (Z.to_nat nc))) (alen l)).
      split; [reflexivity|]. split; [apply wabs_intro|]. cbn [wdata].
      assert (Hs : alen (skipn (Z.to_nat (0 + alen l)) (repeat (@None A) (Z.to_nat nc))) = nc - alen l).
      { unfold alen. rewrite skipn_length, repeat_length. unfold alen in *. lia. }
      rewrite <- Hd. rewrite alen_app, alen_map, Hs. clearbody nc. lia.
  Qed.

  Theorem vec_push_wasm : forall v l x, wrep v l ->
    exists v', wasm_vec_push A v x = Ok (0, v') /\ wabs v' = Some (spec_vec_push A l x) /\
               alen (wdata v') <= Z.max (2 * alen (wdata v)) 4.
  Proof.
    intros v l x Hrep. pose proof Hrep as [Habs Hcap]. destruct (wabs_inv v l Habs) as [rest [Hd Hl]].
    assert (Hlen : 0 <= alen l <= alen (wdata v)).
    { rewrite Hd, alen_app, alen_map. pose proof (alen_nonneg rest). pose proof (alen_nonneg l). lia. }
    unfold wasm_vec_push. rewrite Hl. rewrite add_id by lia.
    destruct (reserve_spec v l (alen l + 1) Hrep) as [v' [E [Habs' [Hmin Hmax]]]]; [lia|].
    rewrite E. cbn [bind]. destruct (wabs_inv v' l Habs') as [rest' [Hd' Hl']].
    rewrite Hd' in *. rewrite alen_app, alen_map in Hmin.
    destruct rest' as [|r0 rest']; [change (alen (@nil (option A))) with 0 in Hmin; lia|].
    rewrite arr_set_mid by (now rewrite alen_map). cbn [bind].
    exists (mkW (map Some l ++ Some x :: rest') (alen l + 1)). split; [reflexivity|]. split.
    - unfold spec_vec_push.
      replace (map Some l ++ Some x :: rest') with (map Some (l ++ [x]) ++ rest')
        by (rewrite map_app, <- app_assoc; reflexivity).
      replace (alen l + 1) with (alen (l ++ [x])) by (rewrite alen_app; reflexivity).
      apply wabs_intro.
    - cbn [wdata]. rewrite !alen_app, !alen_cons in *. lia.
  Qed.

  (* ---- pop *)
  Theorem vec_pop_wasm : forall v l, wrep v l ->
    match spec_vec_pop A l with
    | SBoundsPanic => wasm_vec_pop A v = Throw msg_pop
    | SOk (x, l') => exists v', wasm_vec_pop A v = Ok (x, v') /\ wrep v' l'
    end.
  Proof.
    intros v l [Habs Hcap]. destruct (wabs_inv v l Habs) as [rest [Hd Hl]].
    unfold spec_vec_pop, wasm_vec_pop. rewrite Hl. unfold i32_eqz. rewrite nz_b2z.
    destruct (rev l) as [|x r] eqn:Er.
    - apply (f_equal (@rev A)) in Er. rewrite rev_involutive in Er. subst l. reflexivity.
    - apply (f_equal (@rev A)) in Er. rewrite rev_involutive in Er. cbn [rev] in Er. subst l.
      rewrite alen_app. change (alen [x]) with 1. pose proof (alen_nonneg (rev r)).
      destruct (Z.eqb_spec (alen (rev r) + 1) 0); [lia|].
      assert (Hbd : alen (rev r) + 1 <= alen (wdata v)).
      { rewrite Hd, alen_app, alen_map, alen_app. change (alen [x]) with 1. pose proof (alen_nonneg rest). lia. }
      rewrite sub_id by lia.
      replace (alen (rev r) + 1 - 1) with (alen (rev r)) by lia.
      rewrite Hd, map_app, <- app_assoc. cbn [map app].
      rewrite arr_get_mid by (now rewrite alen_map). cbn [bind].
      rewrite arr_set_mid by (now rewrite alen_map). cbn [bind as_non_null].
      exists (mkW (map Some (rev r) ++ None :: rest) (alen (rev r))). split; [reflexivity|]. split.
      + apply wabs_intro.
      + cbn [wdata]. rewrite Hd, map_app, <- app_assoc in Hcap. cbn [map app] in Hcap.
        rewrite !alen_app, !alen_cons in *. lia.
  Qed.

  (* ---- get / set *)
  Lemma split_at (l : list A) i x : nth_error l i = Some x -> exists l1 l2, l = l1 ++ x :: l2 /\ length l1 = i.
  Proof. apply nth_error_split. Qed.

  Theorem vec_get_wasm : forall v l i, wrep v l -> in32 i ->
    match spec_vec_get A l i with
    | SOk x => wasm_vec_get A v i = Ok x
    | SBoundsPanic => wasm_vec_get A v i = Throw msg_oob
    end.
  Proof.
    intros v l i [Habs Hcap] Hi. unfold in32, MIN, MAX in Hi. destruct (wabs_inv v l Habs) as [rest [Hd Hl]].
    assert (Hlen : 0 <= alen l <= alen (wdata v)).
    { rewrite Hd, alen_app, alen_map. pose proof (alen_nonneg rest). pose proof (alen_nonneg l). lia. }
    unfold spec_vec_get, wasm_vec_get. rewrite Hl, ge_u_spec by lia. unfold inb.
    destruct ((0 <=? i) && (i <? alen l)) eqn:C; cbn [negb]; [|reflexivity].
    apply andb_prop in C. destruct C as [C1 C2]. apply Z.leb_le in C1. apply Z.ltb_lt in C2.
    destruct (nth_error l (Z.to_nat i)) as [x|] eqn:En.
    - destruct (split_at l _ x En) as [l1 [l2 [-> Hl1]]].
      rewrite Hd, map_app, <- app_assoc. cbn [map app].
      rewrite arr_get_mid by (rewrite alen_map; unfold alen; lia). reflexivity.
    - apply nth_error_None in En. unfold alen in C2. lia.
  Qed.

  Theorem vec_set_wasm : forall v l i x, wrep v l -> in32 i ->
    match spec_vec_set A l i x with
    | SOk l' => exists v', wasm_vec_set A v i x = Ok (0, v') /\ wrep v' l'
    | SBoundsPanic => wasm_vec_set A v i x = Throw msg_oob
    end.
  Proof.
    intros v l i x [Habs Hcap] Hi. unfold in32, MIN, MAX in Hi. destruct (wabs_inv v l Habs) as [rest [Hd Hl]].
    assert (Hlen : 0 <= alen l <= alen (wdata v)).
    { rewrite Hd, alen_app, alen_map. pose proof (alen_nonneg rest). pose proof (alen_nonneg l). lia. }
    unfold spec_vec_set, wasm_vec_set. rewrite Hl, ge_u_spec by lia. unfold inb.
    destruct ((0 <=? i) && (i <? alen l)) eqn:C; cbn [negb]; [|reflexivity].
    apply andb_prop in C. destruct C as [C1 C2]. apply Z.leb_le in C1. apply Z.ltb_lt in C2.
    destruct (nth_error l (Z.to_nat i)) as [y|] eqn:En.
    - destruct (split_at l _ y En) as [l1 [l2 [-> Hl1]]].
      rewrite Hd, map_app, <- app_assoc. cbn [map app].
      rewrite arr_set_mid by (rewrite alen_map; unfold alen; lia). cbn [bind].
      rewrite upd_mid by lia.
      exists (mkW (map Some l1 ++ Some x :: map Some l2 ++ rest) (alen (l1 ++ y :: l2))). split; [reflexivity|]. split.
      + replace (map Some l1 ++ Some x :: map Some l2 ++ rest) with (map Some (l1 ++ x :: l2) ++ rest)
          by (rewrite map_app, <- app_assoc; reflexivity).
        replace (alen (l1 ++ y :: l2)) with (alen (l1 ++ x :: l2)) by (rewrite !alen_app, !alen_cons; reflexivity).
        apply wabs_intro.
      + cbn [wdata]. rewrite Hd, map_app, <- app_assoc in Hcap. cbn [map app] in Hcap.
        rewrite !alen_app, !alen_cons in *. lia.
    - apply nth_error_None in En. unfold alen in C2. lia.
  Qed.

  (* ---- TypeScript *)
  Theorem vec_pop_ts : forall t,
    match spec_vec_pop A t with
    | SBoundsPanic => ts_vec_pop A t = Throw msg_pop
    | SOk p => ts_vec_pop A t = Ok p
    end.
  Proof.
    intros t. unfold spec_vec_pop, ts_vec_pop. destruct (rev t) as [|x r] eqn:Er.
    - apply (f_equal (@rev A)) in Er. rewrite rev_involutive in Er. subst t. reflexivity.
    - assert (alen t <> 0).
      { apply (f_equal (@length A)) in Er. rewrite rev_length in Er. cbn in Er. unfold alen. lia. }
      destruct (Z.eqb_spec (alen t) 0); [lia | reflexivity].
  Qed.
  Theorem vec_get_ts : forall t i,
    match spec_vec_get A t i with
    | SOk x => ts_vec_get A t i = Ok x
    | SBoundsPanic => ts_vec_get A t i = Throw msg_oob
    end.
  Proof.
    intros t i. unfold spec_vec_get, ts_vec_get, inb.
    destruct (Z.leb_spec 0 i), (Z.ltb_spec i (alen t)), (Z.ltb_spec i 0), (Z.leb_spec (alen t) i); try lia;
      cbn [andb orb]; try reflexivity.
    destruct (nth_error t (Z.to_nat i)); reflexivity.
  Qed.
  Theorem vec_set_ts : forall t i x,
    match spec_vec_set A t i x with
    | SOk l' => ts_vec_set A t i x = Ok (0, l')
    | SBoundsPanic => ts_vec_set A t i x = Throw msg_oob
    end.
  Proof.
    intros t i x. unfold spec_vec_set, ts_vec_set, inb.
    destruct (Z.leb_spec 0 i), (Z.ltb_spec i (alen t)), (Z.ltb_spec i 0), (Z.leb_spec (alen t) i); try lia;
      cbn [andb orb]; reflexivity.
  Qed.

  (* ---- the two back ends against each other: related states, same call -> same result, related states again;
          both signal the documented bounds failures (both: Error with the same fixed message) *)
  Theorem vec_push_backends_agree : forall v l x, wrep v l ->
    exists v', wasm_vec_push A v x = Ok (0, v') /\ wabs v' = Some (snd (ts_vec_push A l x)).
  Proof. intros v l x H. destruct (vec_push_wasm v l x H) as [v' [E [Ha _]]]. exists v'. split; [exact E | exact Ha]. Qed.
  Theorem vec_pop_backends_agree : forall v l, wrep v l ->
    (exists x v' l', wasm_vec_pop A v = Ok (x, v') /\ ts_vec_pop A l = Ok (x, l') /\ wrep v' l') \/
    (wasm_vec_pop A v = Throw msg_pop /\ ts_vec_pop A l = Throw msg_pop).
  Proof.
    intros v l H. pose proof (vec_pop_wasm v l H) as W. pose proof (vec_pop_ts l) as T.
    destruct (spec_vec_pop A l) as [[x l']|].
    - left. destruct W as [v' [E R]]. exists x, v', l'. split; [exact E | split; [exact T | exact R]].
    - right. split; assumption.
  Qed.
  Theorem vec_get_backends_agree : forall v l i, wrep v l -> in32 i ->
    (exists x, wasm_vec_get A v i = Ok x /\ ts_vec_get A l i = Ok x) \/
    (wasm_vec_get A v i = Throw msg_oob /\ ts_vec_get A l i = Throw msg_oob).
  Proof.
    intros v l i H Hi. pose proof (vec_get_wasm v l i H Hi) as W. pose proof (vec_get_ts l i) as T.
    destruct (spec_vec_get A l i) as [x|]; [left; exists x | right]; split; assumption.
  Qed.
  Theorem vec_set_backends_agree : forall v l i x, wrep v l -> in32 i ->
    (exists v' l', wasm_vec_set A v i x = Ok (0, v') /\ ts_vec_set A l i x = Ok (0, l') /\ wrep v' l') \/
    (wasm_vec_set A v i x = Throw msg_oob /\ ts_vec_set A l i x = Throw msg_oob).
  Proof.
    intros v l i x H Hi. pose proof (vec_set_wasm v l i x H Hi) as W. pose proof (vec_set_ts l i x) as T.
    destruct (spec_vec_set A l i x) as [l'|].
    - left. destruct W as [v' [E R]]. exists v', l'. split; [exact E | split; [exact T | exact R]].
    - right. split; assumption.
  Qed.
End VecProofs.

Section VecEq.
  Variable A : Type.
  Variable aeqb : A -> A -> bool.        (* ref.eq on element references / === on element values *)
  Hypothesis aeqb_spec : forall x y, aeqb x y = true <-> x = y.
  Notation wrep := (wrep A).

  Lemma aeqb_refl x : aeqb x x = true.
  Proof. now apply aeqb_spec. Qed.

  (* ---- list equality *)
  Lemma spec_vec_eqb_eq a : forall b, spec_vec_eqb A aeqb a b = true <-> a = b.
  Proof.
    induction a as [|x a IH]; intros [|y b]; cbn [spec_vec_eqb]; try (split; [discriminate | congruence]).
    - tauto.
    - rewrite andb_true_iff, aeqb_spec, IH. split; [intros [-> ->]; reflexivity | intros [= -> ->]; tauto].
  Qed.
  Lemma spec_vec_eqb_len a b : length a <> length b -> spec_vec_eqb A aeqb a b = false.
  Proof.
    intros H. destruct (spec_vec_eqb A aeqb a b) eqn:E; [|reflexivity]. apply spec_vec_eqb_eq in E. congruence.
  Qed.

  (* ---- eq *)
  Lemma ve_loop_unfold f ad bd len i : ve_loop A aeqb (S f) ad bd len i =
    if nz (i32_ge_s i len) then Ok 1
    else x <- arr_get None ad i ;; y <- arr_get None bd i ;;
         if nz (i32_eqz (b2z (ref_eq A aeqb x y))) then Ok 0 else ve_loop A aeqb f ad bd len (i32_add i 1).
  Proof. reflexivity. Qed.

  Lemma ve_loop_spec : forall ra rb pa pb resta restb fuel, length ra = length rb -> length pa = length pb ->
    (length ra < fuel)%nat -> alen pa + alen ra <= 2147483646 ->
    ve_loop A aeqb fuel (map Some pa ++ map Some ra ++ resta) (map Some pb ++ map Some rb ++ restb) (alen pa + alen ra) (alen pa)
    = Ok (b2z (spec_vec_eqb A aeqb ra rb)).
  Proof.
    induction ra as [|x ra IH]; intros rb pa pb resta restb fuel Hl Hp Hf Hsz;
      (destruct fuel as [|fuel]; [cbn in Hf; lia|]); rewrite ve_loop_unfold; unfold i32_ge_s at 1; rewrite nz_b2z.
    - destruct rb; [|discriminate]. change (alen (@nil A)) with 0.
      replace (alen pa + 0 <=? alen pa) with true by (symmetry; apply Z.leb_le; lia). reflexivity.
    - destruct rb as [|y rb]; [discriminate|]. cbn [length] in Hl. injection Hl as Hl.
      assert (Hp' : alen pa = alen pb) by (unfold alen; lia).
      rewrite alen_cons in *. pose proof (alen_nonneg ra). pose proof (alen_nonneg pa).
      replace (alen pa + (1 + alen ra) <=? alen pa) with false by (symmetry; apply Z.leb_gt; lia).
      cbn [map app]. rewrite arr_get_mid by (now rewrite alen_map). cbn [bind].
      rewrite arr_get_mid by (now rewrite alen_map). cbn [bind ref_eq spec_vec_eqb].
      unfold i32_eqz. rewrite nz_b2z.
      destruct (aeqb x y); cbn [b2z Z.eqb andb]; [|reflexivity].
      rewrite add_id by lia.
      replace (map Some pa ++ Some x :: map Some ra ++ resta) with (map Some (pa ++ [x]) ++ map Some ra ++ resta)
        by (rewrite map_app, <- app_assoc; reflexivity).
      replace (map Some pb ++ Some y :: map Some rb ++ restb) with (map Some (pb ++ [y]) ++ map Some rb ++ restb)
        by (rewrite map_app, <- app_assoc; reflexivity).
      replace (alen pa + 1) with (alen (pa ++ [x])) by (rewrite alen_app; reflexivity).
      replace (alen pa + (1 + alen ra)) with (alen (pa ++ [x]) + alen ra) by (rewrite alen_app; change (alen [x]) with 1; lia).
      apply IH.
      + assumption.
      + rewrite !app_length. cbn [length]. lia.
      + cbn [length] in Hf. lia.
      + rewrite alen_app. change (alen [x]) with 1. lia.
  Qed.

  Theorem vec_eq_wasm : forall same a b la lb, wrep a la -> wrep b lb -> (same = true -> la = lb) ->
    wasm_vec_eq A aeqb same a b = Ok (b2z (spec_vec_eqb A aeqb la lb)).
  Proof.
    intros same a b la lb [Ha Hca] [Hb Hcb] Hsame. unfold wasm_vec_eq. destruct same.
    - rewrite (Hsame eq_refl). replace (spec_vec_eqb A aeqb lb lb) with true; [reflexivity|].
      symmetry. now apply spec_vec_eqb_eq.
    - destruct (wabs_inv A a la Ha) as [resta [Hda Hla]]. destruct (wabs_inv A b lb Hb) as [restb [Hdb Hlb]].
      unfold i32_ne. rewrite nz_b2z, Hla, Hlb.
      destruct (Z.eqb_spec (alen la) (alen lb)) as [E | E]; cbn [negb].
      + pose proof (ve_loop_spec la lb [] [] resta restb (S (Z.to_nat (alen la)))) as L.
        cbn [map app] in L. change (alen (@nil A)) with 0 in L. rewrite Hda, Hdb.
        replace (alen la) with (0 + alen la) at 2 by lia. apply L.
        * unfold alen in E. lia.
        * reflexivity.
        * unfold alen. lia.
        * rewrite Hda, alen_app, alen_map in Hca. pose proof (alen_nonneg resta). lia.
      + rewrite spec_vec_eqb_len; [reflexivity|]. unfold alen in E. lia.
  Qed.

  Lemma tve_loop_unfold f a b i : tve_loop A aeqb (S f) a b i =
    if i <? alen a then
      match nth_error a (Z.to_nat i), nth_error b (Z.to_nat i) with
      | Some x, Some y => if negb (aeqb x y) then Ok 0 else tve_loop A aeqb f a b (i + 1)
      | _, _ => Ok 0
      end
    else Ok 1.
  Proof. reflexivity. Qed.
  Lemma tve_loop_spec : forall ra rb pa pb fuel, length ra = length rb -> length pa = length pb -> (length ra < fuel)%nat ->
    tve_loop A aeqb fuel (pa ++ ra) (pb ++ rb) (alen pa) = Ok (b2z (spec_vec_eqb A aeqb ra rb)).
  Proof.
    induction ra as [|x ra IH]; intros rb pa pb fuel Hl Hp Hf; (destruct fuel as [|fuel]; [cbn in Hf; lia|]);
      rewrite tve_loop_unfold.
    - destruct rb; [|discriminate]. rewrite app_nil_r, Z.ltb_irrefl. reflexivity.
    - destruct rb as [|y rb]; [discriminate|]. cbn [length] in Hl. injection Hl as Hl.
      rewrite alen_app, alen_cons. pose proof (alen_nonneg ra).
      replace (alen pa <? alen pa + (1 + alen ra)) with true by (symmetry; apply Z.ltb_lt; lia).
      rewrite !nth_error_mid by (unfold alen; lia). cbn [spec_vec_eqb].
      destruct (aeqb x y); cbn [negb andb]; [|reflexivity].
      replace (pa ++ x :: ra) with ((pa ++ [x]) ++ ra) by (now rewrite <- app_assoc).
      replace (pb ++ y :: rb) with ((pb ++ [y]) ++ rb) by (now rewrite <- app_assoc).
      replace (alen pa + 1) with (alen (pa ++ [x])) by (rewrite alen_app; reflexivity).
      apply IH.
      + assumption.
      + rewrite !app_length. cbn [length]. lia.
      + cbn [length] in Hf. lia.
  Qed.
  Theorem vec_eq_ts : forall same a b, (same = true -> a = b) ->
    ts_vec_eq A aeqb same a b = Ok (b2z (spec_vec_eqb A aeqb a b)).
  Proof.
    intros same a b Hsame. unfold ts_vec_eq. destruct same.
    - rewrite (Hsame eq_refl). replace (spec_vec_eqb A aeqb b b) with true; [reflexivity|].
      symmetry. now apply spec_vec_eqb_eq.
    - destruct (Z.eqb_spec (alen a) (alen b)) as [E | E]; cbn [negb].
      + apply (tve_loop_spec a b [] [] (S (length a))); [unfold alen in E; lia | reflexivity | lia].
      + rewrite spec_vec_eqb_len; [reflexivity|]. unfold alen in E. lia.
  Qed.

  Theorem vec_eq_backends_agree : forall same a b la lb, wrep a la -> wrep b lb -> (same = true -> la = lb) ->
    wasm_vec_eq A aeqb same a b = ts_vec_eq A aeqb same la lb.
  Proof. intros. rewrite (vec_eq_wasm same a b la lb), vec_eq_ts; auto. Qed.
End VecEq.
