(* C04rt - property theorems about the RUNTIME LIBRARY of the two back ends (C04; run-time half of C01).
   Subject: coq/theories/C04rt/Model.v - wasm_<f> mirrors libsam.wat instruction by instruction, ts_<f> mirrors the
   TypeScript prolog statement by statement, spec_<f> is the specification.  Tie to the code: checks/c04_rt.py. *)
From Coq Require Import ZArith NArith List Bool Lia.
From SV Require Import Common.Int32 C04rt.Model C04rt.ProofsBase C04rt.ProofsFromInt C04rt.ProofsStr C04rt.ProofsVec.
From SV Require C17.Model.
Import ListNotations.
Open Scope Z_scope.

(* ------------------------------------------------------------------------------------------------------------------ *)
(* Str.fromInt: ALL 2^32 values, by proof                                                                               *)
(* ------------------------------------------------------------------------------------------------------------------ *)
(* size loop, digit loop (div_u, the `| 48` trick), in-place reversal of the part after the sign up to the computed
   midpoint, the INT_MIN and 0 special cases: the decimal representation, no trap, fuel never exhausted *)
Theorem C04rt_fromInt_wasm_correct : forall n, in32 n -> wasm_fromInt n = Ok (spec_dec n).
Proof. exact fromInt_wasm_correct. Qed.
Theorem C04rt_fromInt_ts_correct : forall n, in32 n -> ts_fromInt (JInt n) = spec_dec n.
Proof. exact fromInt_ts_correct. Qed.
Theorem C04rt_fromInt_backends_agree : forall n, in32 n -> wasm_fromInt n = Ok (ts_fromInt (JInt n)).
Proof. exact fromInt_backends_agree. Qed.
(* the representation is injective, so comparing printed integers loses nothing *)
Theorem C04rt_spec_dec_injective : forall a b, in32 a -> in32 b -> spec_dec a = spec_dec b -> a = b.
Proof. exact spec_dec_injective. Qed.
(* the reversal loop alone, for every length: with xs and ys already in place it reverses exactly the middle part *)
Theorem C04rt_reverse_loop_correct : forall fuel pre xs mid ys,
  (length mid / 2 < fuel)%nat -> length xs = length ys -> bytes mid ->
  alen pre + alen xs + alen mid + alen ys <= 1073741823 ->
  fi_reverse_loop fuel (pre ++ xs ++ mid ++ ys) (alen pre + alen xs)
                  ((alen xs + alen mid + alen ys) / 2 + alen pre) (alen pre + (alen xs + alen mid + alen ys)) (alen pre)
  = Ok (pre ++ xs ++ rev mid ++ ys).
Proof. exact reverse_loop_spec. Qed.

(* ------------------------------------------------------------------------------------------------------------------ *)
(* Str.toInt  (after the fixes d2dae6b and 0289470 both back ends implement ONE contract)                                *)
(* ------------------------------------------------------------------------------------------------------------------ *)
(* Model.toInt_spec: "" -> 0; an optional '-' followed by digits only -> the value wrapped to 32 bits ("-" alone -> 0);
   anything else -> 0.  WebAssembly computes it on EVERY array of bytes: *)
Theorem C04rt_toInt_wasm_total : forall s, bytes s -> alen s <= 2147483647 -> wasm_toInt s = Ok (toInt_spec s).
Proof. exact toInt_wasm_total. Qed.
(* TypeScript computes it on every string whose digit part has a value of at most 2^53 (toInt_exact): up to there
   parseInt(s, 10) is exact and `| 0` is the same wrap-around.  Beyond 2^53 parseInt rounds to the nearest double BEFORE
   `| 0` while WebAssembly wraps the exact value - the model does not give that double a value (JBig) and no theorem
   speaks about it ("9007199254740993".toInt(): WebAssembly 1, TypeScript 0 on the real engines; 32-bit overflow, which
   the property excludes). *)
Theorem C04rt_toInt_ts_total : forall s, toInt_exact s -> ts_toInt s = Ok (JInt (toInt_spec s)).
Proof. exact toInt_ts_total. Qed.
Theorem C04rt_toInt_backends_agree : forall s, bytes s -> alen s <= 2147483647 -> toInt_exact s ->
  wasm_toInt s = Ok (toInt_spec s) /\ ts_toInt s = Ok (JInt (toInt_spec s)).
Proof. exact toInt_backends_agree. Qed.
(* every string of at most 15 characters is in the domain, whatever it contains *)
Theorem C04rt_toInt_short_strings_exact : forall s, (length s <= 15)%nat -> toInt_exact s.
Proof. exact short_exact. Qed.
(* on every  -?[0-9]+  whose value is a 32-bit integer (leading zeros, "-0" included) the result is that integer *)
Theorem C04rt_toInt_wasm_correct : forall s v, spec_parse s = Some v -> in32 v -> alen s <= 2147483647 ->
  wasm_toInt s = Ok v.
Proof. exact toInt_wasm_correct. Qed.
Theorem C04rt_toInt_ts_correct : forall s v, spec_parse s = Some v -> in32 v -> ts_toInt s = Ok (JInt v).
Proof. exact toInt_ts_correct. Qed.
Theorem C04rt_toInt_literals_agree : forall s v, spec_parse s = Some v -> in32 v -> alen s <= 2147483647 ->
  wasm_toInt s = Ok v /\ ts_toInt s = Ok (JInt v).
Proof. exact toInt_literals_agree. Qed.
Theorem C04rt_toInt_fromInt_wasm : forall n, in32 n -> (s <- wasm_fromInt n ;; wasm_toInt s) = Ok n.
Proof. exact toInt_fromInt_wasm. Qed.
Theorem C04rt_toInt_fromInt_ts : forall n, in32 n -> ts_toInt (ts_fromInt (JInt n)) = Ok (JInt n).
Proof. exact toInt_fromInt_ts. Qed.
Theorem C04rt_spec_parse_dec : forall n, - 10 ^ 40 < n < 10 ^ 40 -> spec_parse (spec_dec n) = Some n.
Proof. exact spec_parse_dec. Qed.

(* REGRESSION: the behaviour before the fixes (wasm_toInt_old: the empty-string check was a no-op; ts_toInt_old: bare
   parseInt) - kept so that a revert of either fix is recognisable *)
Theorem C04rt_toInt_wasm_total_old : forall s, bytes s -> alen s <= 2147483647 ->
  wasm_toInt_old s = match s with [] => Trap TArrayOOB | _ => Ok (toInt_spec s) end.
Proof. exact toInt_wasm_total_old. Qed.
Theorem C04rt_toInt_old_empty : wasm_toInt_old [] = Trap TArrayOOB /\ ts_toInt_old [] = JNaN.
Proof. exact toInt_old_empty. Qed.
Theorem C04rt_toInt_old_non_numeral :
  wasm_toInt_old [49; 50; 97; 98; 99]%N = Ok 0 /\ ts_toInt_old [49; 50; 97; 98; 99]%N = JInt 12 /\
  wasm_toInt_old [32; 52; 50]%N = Ok 0 /\ ts_toInt_old [32; 52; 50]%N = JInt 42 /\
  wasm_toInt_old [45]%N = Ok 0 /\ ts_toInt_old [45]%N = JNaN.
Proof. exact toInt_old_non_numeral. Qed.

(* ------------------------------------------------------------------------------------------------------------------ *)
(* Str.concat, string equality, strings leaving through println / panic                                                 *)
(* ------------------------------------------------------------------------------------------------------------------ *)
Theorem C04rt_concat_wasm_correct : forall a b, bytes a -> bytes b -> alen a + alen b <= 2147483647 ->
  wasm_concat a b = Ok (spec_concat a b).
Proof. exact concat_wasm_correct. Qed.
Theorem C04rt_concat_ts_correct : forall a b, ts_concat a b = spec_concat a b.
Proof. exact concat_ts_correct. Qed.
Theorem C04rt_concat_backends_agree : forall a b, bytes a -> bytes b -> alen a + alen b <= 2147483647 ->
  wasm_concat a b = Ok (ts_concat a b).
Proof. exact concat_backends_agree. Qed.

Theorem C04rt_spec_str_eqb_eq : forall a b, spec_str_eqb a b = true <-> a = b.
Proof. exact spec_str_eqb_eq. Qed.
(* same = the operands are one object (the ref.eq shortcut); then they have the same contents *)
Theorem C04rt_str_eq_wasm_correct : forall same a b, bytes a -> bytes b -> alen a <= 2147483647 -> alen b <= 2147483647 ->
  (same = true -> a = b) -> wasm_str_eq same a b = Ok (b2z (spec_str_eqb a b)).
Proof. exact str_eq_wasm_correct. Qed.
Theorem C04rt_str_eq_ts_correct : forall a b, ts_str_eq a b = b2z (spec_str_eqb a b).
Proof. exact str_eq_ts_correct. Qed.
Theorem C04rt_str_eq_backends_agree : forall same a b, bytes a -> bytes b -> alen a <= 2147483647 -> alen b <= 2147483647 ->
  (same = true -> a = b) -> wasm_str_eq same a b = Ok (ts_str_eq a b).
Proof. exact str_eq_backends_agree. Qed.

(* Process.println / panic: loader.js decodes with array.get_s + String.fromCharCode; identity on ASCII.
   FULL STATEMENT (false): forall s, bytes s -> wasm_host_string s = ts_host_string s; the witness lies in the open
   finding C04-string-constants (bytes >= 128 are sign-extended) *)
Theorem C04rt_host_string_ascii : forall s, ascii s -> wasm_host_string s = ts_host_string s.
Proof. exact host_string_ascii. Qed.
Theorem C04rt_host_string_bytes_refuted : exists s, bytes s /\ wasm_host_string s <> ts_host_string s.
Proof. exists [200%N]. split; [repeat constructor | discriminate]. Qed.
Theorem C04rt_spec_dec_ascii : forall n, in32 n -> ascii (spec_dec n).
Proof. exact spec_dec_ascii. Qed.

(* ------------------------------------------------------------------------------------------------------------------ *)
(* Vec: {data array, length} with geometric growth (WebAssembly) and a JS array (TypeScript) refine finite sequences    *)
(* ------------------------------------------------------------------------------------------------------------------ *)
Theorem C04rt_vec_empty_wasm : forall A, exists v, wasm_vec_empty A = Ok v /\ wrep A v [].
Proof. exact vec_empty_wasm. Qed.
(* EVERY i32 capacity (a negative one is clamped to 0); engine allocation limits are not modelled *)
Theorem C04rt_vec_withCapacity_wasm : forall A c, in32 c ->
  exists v, wasm_vec_withCapacity A c = Ok v /\ wabs A v = Some [] /\ wasm_vec_capacity A v = Z.max c 0 /\
            (c < 1073741824 -> wrep A v []).
Proof. exact vec_withCapacity_wasm. Qed.
Theorem C04rt_vec_withCapacity_backends_agree : forall A c, in32 c ->
  exists v, wasm_vec_withCapacity A c = Ok v /\ wabs A v = Some (ts_vec_withCapacity A c).
Proof. exact vec_withCapacity_backends_agree. Qed.
(* REGRESSION (before 043a9a2) *)
Theorem C04rt_vec_withCapacity_old_negative : forall A c, c < 0 ->
  wasm_vec_withCapacity_old A c = Trap TAllocTooLarge /\ ts_vec_withCapacity A c = [].
Proof. exact vec_withCapacity_old_negative. Qed.
Theorem C04rt_vec_of_wasm : forall A (x : A), exists v, wasm_vec_of A x = Ok v /\ wrep A v [x].
Proof. exact vec_of_wasm. Qed.
Theorem C04rt_vec_length_wasm : forall A v l, wrep A v l -> wasm_vec_length A v = spec_vec_length A l.
Proof. exact vec_length_wasm. Qed.
Theorem C04rt_vec_push_wasm : forall A v l (x : A), wrep A v l ->
  exists v', wasm_vec_push A v x = Ok (0, v') /\ wabs A v' = Some (spec_vec_push A l x) /\
             alen (wdata v') <= Z.max (2 * alen (wdata v)) 4.
Proof. exact vec_push_wasm. Qed.
Theorem C04rt_vec_pop_wasm : forall A v l, wrep A v l ->
  match spec_vec_pop A l with
  | SBoundsPanic => wasm_vec_pop A v = Throw msg_pop
  | SOk (x, l') => exists v', wasm_vec_pop A v = Ok (x, v') /\ wrep A v' l'
  end.
Proof. exact vec_pop_wasm. Qed.
Theorem C04rt_vec_get_wasm : forall A v l i, wrep A v l -> in32 i ->
  match spec_vec_get A l i with
  | SOk x => wasm_vec_get A v i = Ok x
  | SBoundsPanic => wasm_vec_get A v i = Throw msg_oob
  end.
Proof. exact vec_get_wasm. Qed.
Theorem C04rt_vec_set_wasm : forall A v l i (x : A), wrep A v l -> in32 i ->
  match spec_vec_set A l i x with
  | SOk l' => exists v', wasm_vec_set A v i x = Ok (0, v') /\ wrep A v' l'
  | SBoundsPanic => wasm_vec_set A v i x = Throw msg_oob
  end.
Proof. exact vec_set_wasm. Qed.
(* Vec.eq = equality of the two sequences, lengths included (aeqb: ref.eq / === on elements decides equality) *)
Theorem C04rt_spec_vec_eqb_eq : forall A aeqb, (forall x y : A, aeqb x y = true <-> x = y) ->
  forall a b, spec_vec_eqb A aeqb a b = true <-> a = b.
Proof. exact spec_vec_eqb_eq. Qed.
Theorem C04rt_vec_eq_wasm : forall A aeqb, (forall x y : A, aeqb x y = true <-> x = y) ->
  forall same a b la lb, wrep A a la -> wrep A b lb -> (same = true -> la = lb) ->
  wasm_vec_eq A aeqb same a b = Ok (b2z (spec_vec_eqb A aeqb la lb)).
Proof. exact vec_eq_wasm. Qed.

Theorem C04rt_vec_pop_ts : forall A t,
  match spec_vec_pop A t with
  | SBoundsPanic => ts_vec_pop A t = Throw msg_pop
  | SOk p => ts_vec_pop A t = Ok p
  end.
Proof. exact vec_pop_ts. Qed.
Theorem C04rt_vec_get_ts : forall A t i,
  match spec_vec_get A t i with
  | SOk x => ts_vec_get A t i = Ok x
  | SBoundsPanic => ts_vec_get A t i = Throw msg_oob
  end.
Proof. exact vec_get_ts. Qed.
Theorem C04rt_vec_set_ts : forall A t i (x : A),
  match spec_vec_set A t i x with
  | SOk l' => ts_vec_set A t i x = Ok (0, l')
  | SBoundsPanic => ts_vec_set A t i x = Throw msg_oob
  end.
Proof. exact vec_set_ts. Qed.
Theorem C04rt_vec_eq_ts : forall A aeqb, (forall x y : A, aeqb x y = true <-> x = y) ->
  forall same a b, (same = true -> a = b) -> ts_vec_eq A aeqb same a b = Ok (b2z (spec_vec_eqb A aeqb a b)).
Proof. exact vec_eq_ts. Qed.

(* the two back ends against each other from related states (wrep v l: the WebAssembly struct v stands for the JS array l) *)
Theorem C04rt_vec_push_backends_agree : forall A v l (x : A), wrep A v l ->
  exists v', wasm_vec_push A v x = Ok (0, v') /\ wabs A v' = Some (snd (ts_vec_push A l x)).
Proof. exact vec_push_backends_agree. Qed.
Theorem C04rt_vec_pop_backends_agree : forall A v l, wrep A v l ->
  (exists x v' l', wasm_vec_pop A v = Ok (x, v') /\ ts_vec_pop A l = Ok (x, l') /\ wrep A v' l') \/
  (wasm_vec_pop A v = Throw msg_pop /\ ts_vec_pop A l = Throw msg_pop).
Proof. exact vec_pop_backends_agree. Qed.
Theorem C04rt_vec_get_backends_agree : forall A v l i, wrep A v l -> in32 i ->
  (exists x, wasm_vec_get A v i = Ok x /\ ts_vec_get A l i = Ok x) \/
  (wasm_vec_get A v i = Throw msg_oob /\ ts_vec_get A l i = Throw msg_oob).
Proof. exact vec_get_backends_agree. Qed.
Theorem C04rt_vec_set_backends_agree : forall A v l i (x : A), wrep A v l -> in32 i ->
  (exists v' l', wasm_vec_set A v i x = Ok (0, v') /\ ts_vec_set A l i x = Ok (0, l') /\ wrep A v' l') \/
  (wasm_vec_set A v i x = Throw msg_oob /\ ts_vec_set A l i x = Throw msg_oob).
Proof. exact vec_set_backends_agree. Qed.
Theorem C04rt_vec_eq_backends_agree : forall A aeqb, (forall x y : A, aeqb x y = true <-> x = y) ->
  forall same a b la lb, wrep A a la -> wrep A b lb -> (same = true -> la = lb) ->
  wasm_vec_eq A aeqb same a b = ts_vec_eq A aeqb same la lb.
Proof. exact vec_eq_backends_agree. Qed.

(* Vec<int>: the call sites box elements as i31.  FULL STATEMENT (false): forall n, in32 n -> unbox31 (box31 n) = n;
   the witness is the open finding C04-vec-int-i31 *)
Theorem C04rt_box31_roundtrip : forall n, in32 n -> (unbox31 (box31 n) = n <-> in31 n).
Proof. exact box31_roundtrip. Qed.
Theorem C04rt_box31_all_ints_refuted : exists n, in32 n /\ unbox31 (box31 n) <> n.
Proof. exists 1073741824. split; [unfold in32, MIN, MAX; lia | discriminate]. Qed.

(* ------------------------------------------------------------------------------------------------------------------ *)
(* non-vacuity: the hypotheses are satisfiable and the models compute the expected values                               *)
(* ------------------------------------------------------------------------------------------------------------------ *)
Example C04rt_ex_fromInt :
  wasm_fromInt (-1234) = Ok [45; 49; 50; 51; 52]%N /\ ts_fromInt (JInt (-1234)) = [45; 49; 50; 51; 52]%N /\
  wasm_fromInt (-2147483648) = Ok (spec_dec (-2147483648)) /\ wasm_fromInt 2147483647 = Ok [50;49;52;55;52;56;51;54;52;55]%N /\
  wasm_fromInt (-12) = Ok [45; 49; 50]%N /\ in32 (-1234).
Proof. vm_compute. repeat split; discriminate. Qed.
Example C04rt_ex_toInt :
  spec_parse [45; 48; 48; 55]%N = Some (-7) /\ wasm_toInt [45; 48; 48; 55]%N = Ok (-7) /\
  ts_toInt [45; 48; 48; 55]%N = Ok (JInt (-7)) /\ ts_toInt [45; 48]%N = Ok (JInt 0) /\
  wasm_toInt [32; 52; 50]%N = Ok 0 /\ ts_toInt [32; 52; 50]%N = Ok (JInt 0) /\
  wasm_toInt [] = Ok 0 /\ ts_toInt [] = Ok (JInt 0) /\ wasm_toInt [45]%N = Ok 0 /\ ts_toInt [45]%N = Ok (JInt 0) /\
  wasm_toInt [49; 50; 97]%N = Ok 0 /\ ts_toInt [49; 50; 97]%N = Ok (JInt 0) /\
  wasm_toInt [57;57;57;57;57;57;57;57;57;57;57]%N = Ok 1215752191 /\
  ts_toInt [57;57;57;57;57;57;57;57;57;57;57]%N = Ok (JInt 1215752191) /\
  toInt_exact [57;57;57;57;57;57;57;57;57;57;57]%N /\
  ts_toInt [57;48;48;55;49;57;57;50;53;52;55;52;48;57;57;51]%N = Ok (JBig 9007199254740993).
Proof. repeat split; try reflexivity. intros _. vm_compute. discriminate. Qed.
Example C04rt_ex_vec :
  let run :=
    v <- wasm_vec_empty Z ;;
    '(_, v) <- wasm_vec_push Z v 10 ;; '(_, v) <- wasm_vec_push Z v 11 ;; '(_, v) <- wasm_vec_push Z v 12 ;;
    '(_, v) <- wasm_vec_push Z v 13 ;; '(_, v) <- wasm_vec_push Z v 14 ;;
    '(x, v) <- wasm_vec_pop Z v ;; y <- wasm_vec_get Z v 3 ;; '(_, v) <- wasm_vec_set Z v 0 7 ;;
    Ok (x, y, wabs Z v, wasm_vec_capacity Z v, wasm_vec_get Z v 4, wasm_vec_get Z v (-1)) in
  run = Ok (14, 13, Some [7; 11; 12; 13], 8, Throw msg_oob, Throw msg_oob) /\
  wrep Z (mkW [Some 1; Some 2; None; None] 2) [1; 2] /\
  wasm_vec_eq Z Z.eqb false (mkW [Some 1; Some 2; None; None] 2) (mkW [Some 1; Some 2; Some 3] 3) = Ok 0 /\
  ts_vec_eq Z Z.eqb false [1; 2] [1; 2; 3] = Ok 0 /\ ts_vec_eq Z Z.eqb false [1; 2] [1; 2] = Ok 1.
Proof. vm_compute. repeat split; discriminate. Qed.
Example C04rt_ex_strings :
  wasm_concat [97; 98]%N [99]%N = Ok [97; 98; 99]%N /\ wasm_str_eq false [97; 98]%N [97; 98]%N = Ok 1 /\
  wasm_str_eq false [97; 98]%N [97; 99]%N = Ok 0 /\ wasm_str_eq false [97]%N [97; 98]%N = Ok 0 /\ bytes [97; 98]%N /\ ascii [97; 98]%N.
Proof. repeat split; repeat constructor. Qed.

Print Assumptions C04rt_fromInt_wasm_correct.
Print Assumptions C04rt_fromInt_ts_correct.
Print Assumptions C04rt_fromInt_backends_agree.
Print Assumptions C04rt_spec_dec_injective.
Print Assumptions C04rt_reverse_loop_correct.
Print Assumptions C04rt_toInt_wasm_total.
Print Assumptions C04rt_toInt_ts_total.
Print Assumptions C04rt_toInt_backends_agree.
Print Assumptions C04rt_toInt_short_strings_exact.
Print Assumptions C04rt_toInt_wasm_correct.
Print Assumptions C04rt_toInt_ts_correct.
Print Assumptions C04rt_toInt_literals_agree.
Print Assumptions C04rt_toInt_fromInt_wasm.
Print Assumptions C04rt_toInt_fromInt_ts.
Print Assumptions C04rt_spec_parse_dec.
Print Assumptions C04rt_toInt_wasm_total_old.
Print Assumptions C04rt_toInt_old_empty.
Print Assumptions C04rt_toInt_old_non_numeral.
Print Assumptions C04rt_concat_wasm_correct.
Print Assumptions C04rt_concat_ts_correct.
Print Assumptions C04rt_concat_backends_agree.
Print Assumptions C04rt_spec_str_eqb_eq.
Print Assumptions C04rt_str_eq_wasm_correct.
Print Assumptions C04rt_str_eq_ts_correct.
Print Assumptions C04rt_str_eq_backends_agree.
Print Assumptions C04rt_host_string_ascii.
Print Assumptions C04rt_host_string_bytes_refuted.
Print Assumptions C04rt_spec_dec_ascii.
Print Assumptions C04rt_vec_empty_wasm.
Print Assumptions C04rt_vec_withCapacity_wasm.
Print Assumptions C04rt_vec_withCapacity_backends_agree.
Print Assumptions C04rt_vec_withCapacity_old_negative.
Print Assumptions C04rt_vec_of_wasm.
Print Assumptions C04rt_vec_length_wasm.
Print Assumptions C04rt_vec_push_wasm.
Print Assumptions C04rt_vec_pop_wasm.
Print Assumptions C04rt_vec_get_wasm.
Print Assumptions C04rt_vec_set_wasm.
Print Assumptions C04rt_spec_vec_eqb_eq.
Print Assumptions C04rt_vec_eq_wasm.
Print Assumptions C04rt_vec_pop_ts.
Print Assumptions C04rt_vec_get_ts.
Print Assumptions C04rt_vec_set_ts.
Print Assumptions C04rt_vec_eq_ts.
Print Assumptions C04rt_vec_push_backends_agree.
Print Assumptions C04rt_vec_pop_backends_agree.
Print Assumptions C04rt_vec_get_backends_agree.
Print Assumptions C04rt_vec_set_backends_agree.
Print Assumptions C04rt_vec_eq_backends_agree.
Print Assumptions C04rt_box31_roundtrip.
Print Assumptions C04rt_box31_all_ints_refuted.
