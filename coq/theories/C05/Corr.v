(* C05 — glue for the correspondence check (checks/c05.py): compares the model's token stream
   and lexer diagnostics with what `vh lex-run lex` recorded from the real lexer.
   Definitions only. *)
From Coq Require Import List NArith Arith Bool String Ascii.
Import ListNotations.
From SV Require Import C05.Model.

(* byte strings arrive hex-encoded in a string literal (coqc parses those far faster than lists
   of numerals) *)
Definition hexval (c : ascii) : N :=
  let n := N_of_ascii c in if (n <? 58)%N then (n - 48)%N else (n - 87)%N.
Fixpoint hx (s : string) : list N :=
  match s with
  | String a (String b r) => (16 * hexval a + hexval b)%N :: hx r
  | _ => []
  end.

Definition kind_code (k : kind) : N :=
  match k with
  | KKeyword => 0 | KOperator => 1 | KUpperId => 2 | KLowerId => 3 | KString => 4 | KInt => 5
  | KLineComment => 6 | KBlockComment => 7 | KDocComment => 8 | KError => 9
  end.

(* what the harness reports for a token: kind, start line/column, end line/column, and the bytes:
   the token text (strings, identifiers, keywords, operators, integers, error tokens without the
   "ERROR: " prefix) or, for comments, the slice of the input at the reported location *)
Definition view : Type := (N * (N * N * N * N) * list N)%type.

Definition tok_view (t : tok) : view :=
  (kind_code (t_kind t),
   (N.of_nat (fst (t_start t)), N.of_nat (snd (t_start t)),
    N.of_nat (fst (t_end t)), N.of_nat (snd (t_end t))),
   t_raw t).

Definition loc4_eqb (a b : N * N * N * N) : bool :=
  let '(a1, a2, a3, a4) := a in
  let '(b1, b2, b3, b4) := b in
  (a1 =? b1)%N && (a2 =? b2)%N && (a3 =? b3)%N && (a4 =? b4)%N.

Definition view_eqb (a b : view) : bool :=
  let '(ka, la, ra) := a in
  let '(kb, lb, rb) := b in
  (ka =? kb)%N && loc4_eqb la lb && bytes_eqb ra rb.

Fixpoint first_diff (i : N) (a b : list view) : option N :=
  match a, b with
  | [], [] => None
  | x :: a', y :: b' => if view_eqb x y then first_diff (i + 1) a' b' else Some i
  | _, _ => Some i
  end.

(* diagnostics: code 0 = invalid escape, 1 = invalid token, 2 = not a 32-bit integer *)
Definition errview : Type := (N * (N * N * N * N))%type.
Definition p4 (s e : pos) : N * N * N * N :=
  (N.of_nat (fst s), N.of_nat (snd s), N.of_nat (fst e), N.of_nat (snd e)).
Definition err_view (e : lexerr) : errview :=
  match e with
  | EInvalidEscape s e => (0%N, p4 s e)
  | EInvalidToken s e => (1%N, p4 s e)
  | ENotInt32 s e => (2%N, p4 s e)
  end.
Definition errview_eqb (a b : errview) : bool :=
  (fst a =? fst b)%N && loc4_eqb (snd a) (snd b).
Definition subset (a b : list errview) : bool :=
  forallb (fun x => existsb (errview_eqb x) b) a.

(* result of one case: 0 = agree; 1 = model Oob; 2 = model Fuel; 3 = tokens differ (index);
   4 = diagnostics differ *)
Definition check_case (c : list N * list view * list errview) : N * N :=
  let '(s, toks, errs) := c in
  match lex s with
  | Oob => (1, 0)
  | Fuel => (2, 0)
  | Ok (ts, es) =>
    match first_diff 0 (map tok_view ts) toks with
    | Some i => (3, i)
    | None =>
      let me := map err_view es in
      if subset me errs && subset errs me then (0, 0) else (4, 0)
    end
  end%N.

Fixpoint fails (i : N) (cs : list (list N * list view * list errview)) : list (N * (N * N)) :=
  match cs with
  | [] => []
  | c :: cs' =>
    match check_case c with
    | (0, _)%N => fails (i + 1) cs'
    | r => (i, r) :: fails (i + 1) cs'
    end
  end.

(* the model's own view, for reports *)
Definition model_view (s : list N) : option (list view * list errview) :=
  match lex s with
  | Ok (ts, es) => Some (map tok_view ts, map err_view es)
  | _ => None
  end.
