(* C05 — model of the hand-written part of crates/samlang-parser/src/lexer.rs.  Definitions only.

   What is modelled, line by line against the Rust code:
     - WrappedLogosLexer::skip_whitespace, lex_str_lit_opt, lex_line_comment_opt,
       lex_block_comment_opt, next_n_column, next_line_or_column, loc_of_advance,
       the error-token arm of next_token (skip to the next ASCII white space),
       string_has_valid_escape, and TokenProducer (pending token, the 32-bit gate for integer
       literals and the merge of `-` `2147483648`).
     - every `remainder_bytes[i]` is [get s i] and every `remainder_bytes[a..b]` is [slice s a b];
       both return None when Rust would panic; the scanners then return [Oob].  Loops that
       Rust writes as `loop {}` carry a fuel and return [Fuel] when it runs out.  The theorems of
       Proofs.v show that neither outcome is reachable.
   What is NOT modelled: the DFA that the `logos` derive macro generates for keywords, operators,
   identifiers and integer literals.  [lex_simple] below is a *specification* of that DFA
   (maximal munch over the token table of `enum LogosToken`, `token` beats `regex` on ties); it is
   tied to the generated code by differential execution only (checks/c05.py), never by proof.
   Also not modelled: u32 wrap-around of line/column counters (inputs < 4 GiB), the text
   post-processing of comments (trim / from_utf8_lossy), heap interning.

   Bytes are [N]; the scanners only compare them with ASCII constants.  Columns are BYTE columns:
   every position update in the Rust code adds a byte count. *)
From Coq Require Import List NArith Arith Bool Lia.
Import ListNotations.

Definition byte := N.

Definition QUOTE : N := 34.
Definition BACKSLASH : N := 92.
Definition NL : N := 10.
Definition SLASH : N := 47.
Definition STAR : N := 42.

(* u8::is_ascii_whitespace: U+0020 SPACE, U+0009 TAB, U+000A LF, U+000C FF, U+000D CR *)
Definition is_ws (c : N) : bool :=
  (c =? 32)%N || (c =? 9)%N || (c =? 10)%N || (c =? 12)%N || (c =? 13)%N.

(* ---------------------------------------------------------------- checked accesses *)

Inductive res (A : Type) : Type :=
| Ok (a : A)
| Oob          (* Rust: index / slice out of bounds, i.e. a panic *)
| Fuel.        (* the model's loop budget ran out: would be a hang *)
Arguments Ok {A} a.
Arguments Oob {A}.
Arguments Fuel {A}.

Definition get (s : list N) (i : nat) : option N := nth_error s i.

(* s[a..b] *)
Definition slice (s : list N) (a b : nat) : option (list N) :=
  if (a <=? b) && (b <=? length s) then Some (firstn (b - a) (skipn a s)) else None.

(* s[a..] *)
Definition slice_from (s : list N) (a : nat) : option (list N) := slice s a (length s).

Definition starts_with1 (s : list N) (c : N) : bool :=
  match s with x :: _ => (x =? c)%N | [] => false end.
Definition starts_with2 (s : list N) (c d : N) : bool :=
  match s with x :: y :: _ => (x =? c)%N && (y =? d)%N | _ => false end.

(* ---------------------------------------------------------------- positions *)

Definition pos := (nat * nat)%type.     (* Position(line, column), both 0-based *)

(* (the small operand comes first so that the extracted unary addition shares the large one) *)
Definition next_n_column (p : pos) (n : nat) : pos := (fst p, n + snd p).
Definition next_line_or_column (p : pos) (c : N) : pos :=
  if (c =? NL)%N then (S (fst p), 0) else (fst p, S (snd p)).

(* ---------------------------------------------------------------- skip_whitespace
   for c in remainder.as_bytes() { if ws { next_line_or_column(c); n += 1 } else break }; bump(n) *)
Fixpoint skip_ws (s : list N) (p : pos) : nat * pos :=
  match s with
  | c :: s' => if is_ws c then let '(n, p') := skip_ws s' (next_line_or_column p c) in (S n, p')
               else (0, p)
  | [] => (0, p)
  end.

(* ---------------------------------------------------------------- lex_str_lit_opt *)

(* for i in (1..pos).rev() { if bytes[i] != '\\' { break } ; escape_count += 1 }
   [esc_back s k acc] visits the indices k, k-1, ..., 1. *)
Fixpoint esc_back (s : list N) (k acc : nat) : res nat :=
  match k with
  | 0 => Ok acc
  | S k' => match get s (S k') with
            | None => Oob
            | Some c => if (c =? BACKSLASH)%N then esc_back s k' (S acc) else Ok acc
            end
  end.
Definition escape_count (s : list N) (p : nat) : res nat := esc_back s (p - 1) 0.

(* the `loop` of lex_str_lit_opt, at index [p]; result: Some n = accepted, n bytes consumed *)
Fixpoint str_loop (s : list N) (fuel p : nat) : res (option nat) :=
  match fuel with
  | 0 => Fuel
  | S f =>
    if length s <=? p then Ok None
    else match get s p with
         | None => Oob
         | Some c =>
           (* (the continuation `if c == '\n' { return None } pos += 1` is written out twice: a
              let-bound continuation would be evaluated eagerly by vm_compute and OCaml) *)
           if (c =? QUOTE)%N then
             match escape_count s p with
             | Ok k =>
               if Nat.even k then
                 match slice s 0 (p + 1) with      (* remainder_bytes[..(pos + 1)] *)
                 | Some _ => Ok (Some (p + 1))
                 | None => Oob
                 end
               else if (c =? NL)%N then Ok None else str_loop s f (S p)
             | Oob => Oob
             | Fuel => Fuel
             end
           else if (c =? NL)%N then Ok None else str_loop s f (S p)
         end
  end.

Definition lex_str (s : list N) : res (option nat) :=
  if starts_with1 s QUOTE then str_loop s (length s) 1 else Ok None.

(* ---------------------------------------------------------------- lex_line_comment_opt
   for c in &bytes[2..] { if c == '\n' break; n += 1 } ; bytes[2..n] *)
Fixpoint count_to_nl (s : list N) : nat :=
  match s with
  | c :: s' => if (c =? NL)%N then 0 else S (count_to_nl s')
  | [] => 0
  end.

Definition lex_line_comment (s : list N) : res (option nat) :=
  if starts_with2 s SLASH SLASH then
    match slice_from s 2 with
    | None => Oob
    | Some rest =>
      let n := 2 + count_to_nl rest in
      match slice s 2 n with
      | Some _ => Ok (Some n)
      | None => Oob
      end
    end
  else Ok None.

(* ---------------------------------------------------------------- lex_block_comment_opt
   state: comment_length [cl] and self.position [p]; Some (n, p') = closed after n bytes *)
Fixpoint block_loop (s : list N) (fuel cl : nat) (p : pos) : res (option (nat * pos)) :=
  match fuel with
  | 0 => Fuel
  | S f =>
    if length s <? cl + 2 then Ok None          (* the caller restores saved_position *)
    else match get s cl with
         | None => Oob
         | Some c =>
           if (c =? STAR)%N then
             match get s (cl + 1) with
             | None => Oob
             | Some d =>
               if (d =? SLASH)%N then Ok (Some (cl + 2, next_n_column p 2))
               else block_loop s f (S cl) (next_line_or_column p c)
             end
           else block_loop s f (S cl) (next_line_or_column p c)
         end
  end.

(* result: Some (is_doc, n, end position) *)
Definition lex_block_comment (s : list N) (p : pos) : res (option (bool * nat * pos)) :=
  if starts_with2 s SLASH STAR then
    match block_loop s (length s) 2 (next_n_column p 2) with
    | Ok None => Ok None
    | Ok (Some (n, p')) =>
      match slice s 0 n with                     (* chars = &remainder_bytes[..comment_length] *)
      | None => Oob
      | Some chars =>
        (* if chars.len() > 4 && chars[2] == b'*'  (the guard is the repair of the `/**/` panic) *)
        if 4 <? length chars then
          match get chars 2 with
          | None => Oob
          | Some c =>
            if (c =? STAR)%N then
              match slice chars 3 (length chars - 2) with
              | Some _ => Ok (Some (true, n, p'))
              | None => Oob
              end
            else
              match slice chars 2 (length chars - 2) with
              | Some _ => Ok (Some (false, n, p'))
              | None => Oob
              end
          end
        else
          match slice chars 2 (length chars - 2) with
          | Some _ => Ok (Some (false, n, p'))
          | None => Oob
          end
      end
    | Oob => Oob
    | Fuel => Fuel
    end
  else Ok None.

(* the pinned code before the repair: `if chars[2] == b'*'` without the length guard *)
Definition lex_block_comment_unguarded (s : list N) (p : pos) : res (option (bool * nat * pos)) :=
  if starts_with2 s SLASH STAR then
    match block_loop s (length s) 2 (next_n_column p 2) with
    | Ok None => Ok None
    | Ok (Some (n, p')) =>
      match slice s 0 n with
      | None => Oob
      | Some chars =>
        match get chars 2 with
        | None => Oob
        | Some c =>
          if (c =? STAR)%N then
            match slice chars 3 (length chars - 2) with
            | Some _ => Ok (Some (true, n, p'))
            | None => Oob
            end
          else
            match slice chars 2 (length chars - 2) with
            | Some _ => Ok (Some (false, n, p'))
            | None => Oob
            end
        end
      end
    | Oob => Oob
    | Fuel => Fuel
    end
  else Ok None.

(* ---------------------------------------------------------------- the logos part (specification) *)

Inductive kind : Type :=
| KKeyword | KOperator | KUpperId | KLowerId | KString | KInt
| KLineComment | KBlockComment | KDocComment | KError.

Definition is_upper (c : N) : bool := (65 <=? c)%N && (c <=? 90)%N.
Definition is_lower (c : N) : bool := (97 <=? c)%N && (c <=? 122)%N.
Definition is_digit (c : N) : bool := (48 <=? c)%N && (c <=? 57)%N.
Definition is_alnum (c : N) : bool := is_upper c || is_lower c || is_digit c.

Fixpoint span (f : N -> bool) (s : list N) : nat :=
  match s with
  | c :: s' => if f c then S (span f s') else 0
  | [] => 0
  end.

Fixpoint bytes_eqb (a b : list N) : bool :=
  match a, b with
  | [], [] => true
  | x :: a', y :: b' => (x =? y)%N && bytes_eqb a' b'
  | _, _ => false
  end.

(* the 35 keywords of `enum LogosToken`, as ASCII *)
Definition keywords : list (list N) :=
  [ [105;109;112;111;114;116]; [102;114;111;109]; [99;108;97;115;115];
    [105;110;116;101;114;102;97;99;101]; [118;97;108]; [102;117;110;99;116;105;111;110];
    [109;101;116;104;111;100]; [97;115]; [112;114;105;118;97;116;101];
    [112;114;111;116;101;99;116;101;100]; [105;110;116;101;114;110;97;108];
    [112;117;98;108;105;99]; [105;102]; [116;104;101;110]; [101;108;115;101];
    [109;97;116;99;104]; [114;101;116;117;114;110]; [105;110;116]; [115;116;114;105;110;103];
    [98;111;111;108]; [117;110;105;116]; [116;114;117;101]; [102;97;108;115;101];
    [116;104;105;115]; [115;101;108;102]; [99;111;110;115;116]; [108;101;116]; [118;97;114];
    [116;121;112;101]; [99;111;110;115;116;114;117;99;116;111;114];
    [100;101;115;116;114;117;99;116;111;114]; [101;120;116;101;110;100;115];
    [105;109;112;108;101;109;101;110;116;115]; [101;120;112;111;114;116;115];
    [97;115;115;101;114;116] ]%N.

Definition is_keyword (w : list N) : bool := existsb (bytes_eqb w) keywords.

(* the 31 operators of `enum LogosToken`, as ASCII *)
Definition operators : list (list N) :=
  [ [95]; [40]; [41]; [123]; [125]; [91]; [93]; [63]; [59]; [58]; [58;58]; [44]; [46]; [124];
    [45;62]; [61]; [33]; [42]; [47]; [37]; [43]; [45]; [60]; [60;61]; [62]; [62;61]; [61;61];
    [33;61]; [38;38]; [124;124]; [46;46;46] ]%N.

Fixpoint is_prefix (o s : list N) : bool :=
  match o, s with
  | [], _ => true
  | x :: o', y :: s' => (x =? y)%N && is_prefix o' s'
  | _ :: _, [] => false
  end.

(* operators: length of the longest operator of the table that is a prefix of s (0 = none) *)
Definition op_len (s : list N) : nat :=
  fold_left (fun acc o => if is_prefix o s then Nat.max acc (length o) else acc) operators 0.

(* Some (kind, n): the DFA accepts n >= 1 bytes; None: the DFA reports an error *)
Definition lex_simple (s : list N) : option (kind * nat) :=
  match s with
  | [] => None
  | c :: s' =>
    if is_upper c then Some (KUpperId, S (span is_alnum s'))
    else if is_lower c then
      let n := S (span is_alnum s') in
      Some (if is_keyword (firstn n s) then KKeyword else KLowerId, n)
    else if (c =? 48)%N then Some (KInt, 1)
    else if is_digit c then Some (KInt, S (span is_digit s'))
    else match op_len s with
         | 0 => None
         | n => Some (KOperator, n)
         end
  end.

(* error arm of next_token: the DFA's error span is the first character; then every byte up to
   the next ASCII white space is appended.  The first byte is not white space (skip_whitespace
   ran) and UTF-8 continuation bytes are not ASCII, so the token is the maximal white-space-free
   prefix, at least one byte. *)
Definition err_len (s : list N) : nat :=
  match s with
  | [] => 0
  | _ :: s' => S (span (fun c => negb (is_ws c)) s')
  end.

(* ---------------------------------------------------------------- raw tokens *)

Record tok : Type := mkTok {
  t_kind : kind;
  t_start : pos;
  t_end : pos;
  t_off : nat;            (* byte offset of the first byte (not in the Rust token; for C14) *)
  t_raw : list N;         (* the bytes consumed for this token *)
}.

Inductive lexerr : Type :=
| EInvalidEscape (s e : pos)      (* "Invalid escape in string." *)
| EInvalidToken (s e : pos)       (* "Invalid token." *)
| ENotInt32 (s e : pos).          (* "Not a 32-bit integer." *)

(* string_has_valid_escape, over bytes (a non-ASCII character never equals an ASCII one, so the
   char loop and the byte loop take the same branches) *)
Fixpoint valid_escape (s : list N) (pending : bool) : bool :=
  match s with
  | [] => true
  | c :: s' =>
    if (c =? BACKSLASH)%N then valid_escape s' (negb pending)
    else if pending then
      if existsb (N.eqb c) [116;118;48;98;102;110;114;34]%N     (* t v 0 b f n r and the double quote *)
      then valid_escape s' false else false
    else valid_escape s' false
  end.

(* one call of WrappedLogosLexer::next_token on remainder [s] at position [p], offset [off]:
   Ok None = end of input; Ok (Some (token, errors, consumed, position after)) *)
Definition next_raw (s : list N) (p : pos) (off : nat)
  : res (option (tok * list lexerr * nat * pos)) :=
  let '(w, p1) := skip_ws s p in
  let r := skipn w s in
  let o := w + off in
  match lex_str r with
  | Oob => Oob | Fuel => Fuel
  | Ok (Some n) =>
    let p2 := next_n_column p1 n in
    let raw := firstn n r in
    Ok (Some (mkTok KString p1 p2 o raw,
              if valid_escape raw false then [] else [EInvalidEscape p1 p2], w + n, p2))
  | Ok None =>
    match lex_line_comment r with
    | Oob => Oob | Fuel => Fuel
    | Ok (Some n) =>
      let p2 := next_n_column p1 n in
      Ok (Some (mkTok KLineComment p1 p2 o (firstn n r), [], w + n, p2))
    | Ok None =>
      match lex_block_comment r p1 with
      | Oob => Oob | Fuel => Fuel
      | Ok (Some (is_doc, n, p2)) =>
        Ok (Some (mkTok (if is_doc then KDocComment else KBlockComment) p1 p2 o (firstn n r),
                  [], w + n, p2))
      | Ok None =>
        match r with
        | [] => Ok None                        (* self.lexer.next()? at end of input *)
        | _ =>
          match lex_simple r with
          | Some (k, n) =>
            let p2 := next_n_column p1 n in
            Ok (Some (mkTok k p1 p2 o (firstn n r), [], w + n, p2))
          | None =>
            let n := err_len r in
            let p2 := next_n_column p1 n in
            Ok (Some (mkTok KError p1 p2 o (firstn n r), [EInvalidToken p1 p2], w + n, p2))
          end
        end
      end
    end
  end.

(* the raw token stream *)
Fixpoint raw_loop (fuel : nat) (s : list N) (p : pos) (off : nat)
  : res (list tok * list lexerr) :=
  match fuel with
  | 0 => Fuel
  | S f =>
    match next_raw s p off with
    | Oob => Oob | Fuel => Fuel
    | Ok None => Ok ([], [])
    | Ok (Some (t, es, n, p')) =>
      match raw_loop f (skipn n s) p' (n + off) with
      | Ok (ts, es') => Ok (t :: ts, es ++ es')
      | Oob => Oob | Fuel => Fuel
      end
    end
  end.

Definition lex_raw (s : list N) : res (list tok * list lexerr) :=
  raw_loop (S (length s)) s (0, 0) 0.

(* ---------------------------------------------------------------- TokenProducer *)

Fixpoint dec_value (ds : list N) (acc : N) : N :=
  match ds with
  | [] => acc
  | d :: ds' => dec_value ds' (acc * 10 + (d - 48))%N
  end.

Definition MAXI32_PLUS1 : N := 2147483648.

Definition is_minus (t : tok) : bool :=
  match t_kind t with KOperator => bytes_eqb (t_raw t) [45]%N | _ => false end.

Definition pos_ltb (a b : pos) : bool :=
  (fst a <? fst b) || ((fst a =? fst b) && (snd a <? snd b)).

(* Location::union on the two positions (same module) *)
Definition union_start (a b : pos) : pos := if pos_ltb a b then a else b.
Definition union_end (a b : pos) : pos := if pos_ltb b a then a else b.

Definition pending_is_minus (pending : option tok) : bool :=
  match pending with Some q => is_minus q | None => false end.

(* process_raw_token + the pending slot of next_token; [out] is reversed.
     if i64 > MAX+1 || (i64 == MAX+1 && !matches!(pending, Some(Operator(Minus)))) { report }
     else if i64 == MAX+1 && let Some(Token(prev_loc, Operator(Minus))) = &pending { merge; return None }
   (s.parse::<i64>() fails exactly when the value exceeds i64::MAX, which is reported with the
   same message, so the model compares the unbounded value) *)
Fixpoint produce (ts : list tok) (pending : option tok) (out : list tok) (errs : list lexerr)
  : list tok * list lexerr :=
  match ts with
  | [] => (rev (match pending with Some t => t :: out | None => out end), errs)
  | t :: ts' =>
    let out' := match pending with Some q => q :: out | None => out end in
    match t_kind t with
    | KInt =>
      let v := dec_value (t_raw t) 0 in
      if (MAXI32_PLUS1 <? v)%N || ((v =? MAXI32_PLUS1)%N && negb (pending_is_minus pending))
      then produce ts' (Some t) out' (errs ++ [ENotInt32 (t_start t) (t_end t)])
      else if (v =? MAXI32_PLUS1)%N then
        match pending with
        | Some q =>
          (* merge `-` and 2147483648: pending := IntLiteral(-2147483648) at the union *)
          produce ts'
            (Some (mkTok KInt (union_start (t_start q) (t_start t)) (union_end (t_end q) (t_end t))
                         (t_off q) (45%N :: t_raw t)))
            out errs
        | None => produce ts' (Some t) out' errs        (* unreachable: pending is a minus here *)
        end
      else produce ts' (Some t) out' errs
    | _ => produce ts' (Some t) out' errs
    end
  end.

(* the token stream the parser sees (verif::lex), with the diagnostics of the lexer *)
Definition lex (s : list N) : res (list tok * list lexerr) :=
  match lex_raw s with
  | Ok (ts, es) => Ok (produce ts None [] es)
  | Oob => Oob
  | Fuel => Fuel
  end.

(* ---------------------------------------------------------------- specifications used by the theorems *)

(* length of the run of backslashes that ends just before index p *)
Fixpoint run_len (s : list N) : nat :=
  match s with
  | c :: s' => if (c =? BACKSLASH)%N then S (run_len s') else 0
  | [] => 0
  end.
Definition backslashes_before (s : list N) (p : nat) : nat := run_len (rev (firstn p s)).

(* p is a closing position for the string that opens at index 0: a quote preceded by an even
   number of backslashes *)
Definition closes (s : list N) (p : nat) : Prop :=
  get s p = Some QUOTE /\ Nat.even (backslashes_before s p) = true.

(* the left-to-right reference: scan with an "escaped" flag; index of the first unescaped quote,
   None if a line feed or the end comes first *)
Fixpoint scan_ref (s : list N) (escaped : bool) (i : nat) : option nat :=
  match s with
  | [] => None
  | c :: s' =>
    if escaped then (if (c =? NL)%N then None else scan_ref s' false (S i))
    else if (c =? QUOTE)%N then Some i
    else if (c =? NL)%N then None
    else scan_ref s' (c =? BACKSLASH)%N (S i)
  end.

(* has the 4-byte substring `/**/` (the class of the repaired finding C05-empty-doc-comment-panic) *)
Fixpoint has_empty_doc (s : list N) : bool :=
  match s with
  | [] => false
  | c :: s' =>
    (match s with
     | 47 :: 42 :: 42 :: 47 :: _ => true
     | _ => false
     end)%N || has_empty_doc s'
  end.
