(* C05 — lemmas about the scanner model (Model.v). *)
From Coq Require Import List NArith Arith Bool Lia.
Import ListNotations.
From SV Require Import C05.Model.

(* ---------------------------------------------------------------- accesses *)

Lemma get_some : forall s i, i < length s -> exists c, get s i = Some c.
Proof.
  intros s i H. unfold get. destruct (nth_error s i) eqn:E; eauto.
  apply nth_error_None in E. lia.
Qed.

Lemma get_lt : forall s i c, get s i = Some c -> i < length s.
Proof. intros s i c H. unfold get in H. apply nth_error_Some. congruence. Qed.

Lemma slice_some : forall s a b, a <= b -> b <= length s ->
  slice s a b = Some (firstn (b - a) (skipn a s)).
Proof.
  intros s a b H1 H2. unfold slice.
  destruct (a <=? b) eqn:E1; [|apply Nat.leb_gt in E1; lia].
  destruct (b <=? length s) eqn:E2; [|apply Nat.leb_gt in E2; lia]. reflexivity.
Qed.

Lemma slice_none : forall s a b, b < a -> slice s a b = None.
Proof.
  intros s a b H. unfold slice.
  destruct (a <=? b) eqn:E1; [apply Nat.leb_le in E1; lia|]. reflexivity.
Qed.

Lemma firstn_S_snoc : forall (l : list N) n c,
  nth_error l n = Some c -> firstn (S n) l = firstn n l ++ [c].
Proof.
  induction l as [|x l IH]; intros n c H.
  - destruct n; discriminate.
  - destruct n as [|n]; simpl in *.
    + inversion H; subst. reflexivity.
    + f_equal. apply IH. exact H.
Qed.

Lemma starts_with1_cons : forall s c, starts_with1 s c = true -> exists s', s = c :: s'.
Proof.
  intros [|x s] c H; simpl in H; [discriminate|].
  apply N.eqb_eq in H. subst. eauto.
Qed.

Lemma starts_with2_cons : forall s c d, starts_with2 s c d = true -> exists s', s = c :: d :: s'.
Proof.
  intros [|x [|y s]] c d H; simpl in H; try discriminate.
  apply andb_true_iff in H. destruct H as [H1 H2].
  apply N.eqb_eq in H1. apply N.eqb_eq in H2. subst. eauto.
Qed.

(* ---------------------------------------------------------------- skip_whitespace *)

Lemma skip_ws_le : forall s p n p', skip_ws s p = (n, p') -> n <= length s.
Proof.
  induction s as [|c s IH]; intros p n p' H; simpl in H.
  - inversion H; simpl; lia.
  - destruct (is_ws c).
    + destruct (skip_ws s (next_line_or_column p c)) as [m q] eqn:E.
      inversion H; subst. apply IH in E. simpl. lia.
    + inversion H; simpl; lia.
Qed.

(* what is skipped is white space, what follows is not *)
Lemma skip_ws_spec : forall s p n p', skip_ws s p = (n, p') ->
  Forall (fun c => is_ws c = true) (firstn n s) /\
  match skipn n s with c :: _ => is_ws c = false | [] => True end.
Proof.
  induction s as [|c s IH]; intros p n p' H; simpl in H.
  - inversion H; subst. simpl. auto.
  - destruct (is_ws c) eqn:W.
    + destruct (skip_ws s (next_line_or_column p c)) as [m q] eqn:E.
      inversion H; subst. apply IH in E. destruct E as [E1 E2].
      simpl. split; [constructor; assumption | exact E2].
    + inversion H; subst. simpl. split; [constructor | exact W].
Qed.

(* ---------------------------------------------------------------- escape counting *)

Lemma run_len_snoc : forall l x, x <> BACKSLASH -> run_len (l ++ [x]) = run_len l.
Proof.
  induction l as [|c l IH]; intros x H; simpl.
  - destruct (x =? BACKSLASH)%N eqn:E; [apply N.eqb_eq in E; contradiction | reflexivity].
  - destruct (c =? BACKSLASH)%N; [rewrite IH by assumption|]; reflexivity.
Qed.

(* esc_back visits s[k], ..., s[1], i.e. (tl s)[k-1], ..., (tl s)[0] *)
Lemma esc_back_spec : forall s k acc, k < length s ->
  esc_back s k acc = Ok (acc + run_len (rev (firstn k (tl s)))).
Proof.
  intros s k. induction k as [|k IH]; intros acc H; cbn [esc_back].
  - simpl. f_equal. lia.
  - destruct (get_some s (S k) H) as [c Hc]. rewrite Hc.
    assert (Hb : nth_error (tl s) k = Some c).
    { destruct s; simpl in *; [destruct k; discriminate | exact Hc]. }
    rewrite (firstn_S_snoc _ _ _ Hb). rewrite rev_app_distr. simpl.
    destruct (c =? BACKSLASH)%N.
    + rewrite IH by lia. f_equal. lia.
    + f_equal. lia.
Qed.

Lemma escape_count_spec : forall body p, 1 <= p -> p <= length body ->
  escape_count (QUOTE :: body) p = Ok (backslashes_before (QUOTE :: body) p).
Proof.
  intros body p H1 H2. unfold escape_count, backslashes_before.
  rewrite esc_back_spec by (simpl; lia). simpl tl.
  destruct p as [|p]; [lia|]. simpl. rewrite Nat.sub_0_r.
  rewrite run_len_snoc by (unfold QUOTE, BACKSLASH; discriminate). reflexivity.
Qed.

(* ---------------------------------------------------------------- lex_str_lit_opt *)

(* q is the first closing position at or after p, with no line feed on the way *)
Definition first_close (s : list N) (p q : nat) : Prop :=
  p <= q /\ closes s q /\
  forall j, p <= j -> j < q -> ~ closes s j /\ get s j <> Some NL.

Lemma first_close_unique : forall s p q q', first_close s p q -> first_close s p q' -> q = q'.
Proof.
  intros s p q q' [H1 [H2 H3]] [H1' [H2' H3']].
  destruct (Nat.lt_trichotomy q q') as [L|[E|L]]; [|exact E|].
  - destruct (H3' q H1 L) as [C _]. contradiction.
  - destruct (H3 q' H1' L) as [C _]. contradiction.
Qed.

Lemma closes_dec_at : forall body p c, 1 <= p -> get (QUOTE :: body) p = Some c ->
  (closes (QUOTE :: body) p <->
   (c = QUOTE /\ Nat.even (backslashes_before (QUOTE :: body) p) = true)).
Proof.
  intros body p c H1 Hc. unfold closes. rewrite Hc. split.
  - intros [E Ev]. inversion E. auto.
  - intros [E Ev]. subst. auto.
Qed.

Lemma escape_count_spec' : forall s body p, s = QUOTE :: body -> 1 <= p -> p < length s ->
  escape_count s p = Ok (backslashes_before s p).
Proof. intros s body p -> H1 H2. apply escape_count_spec; simpl in *; lia. Qed.

(* the loop: total, in bounds, and it stops exactly at the first closing position *)
Lemma str_loop_spec : forall s body, s = QUOTE :: body -> forall f p,
  1 <= p -> p <= length s -> length s - p < f ->
  (exists q, str_loop s f p = Ok (Some (q + 1)) /\ first_close s p q /\ q < length s) \/
  (str_loop s f p = Ok None /\ forall q, ~ first_close s p q).
Proof.
  intros s body Hs f. induction f as [|f IH]; intros p H1 H2 H3; [lia|].
  cbn [str_loop].
  destruct (length s <=? p) eqn:E.
  - (* end of input *)
    apply Nat.leb_le in E. right. split; [reflexivity|].
    intros q [Hq [[Hg _] _]]. apply get_lt in Hg. lia.
  - apply Nat.leb_gt in E.
    destruct (get_some s p E) as [c Hc]. rewrite Hc.
    (* the continuation: line feed rejects, otherwise go on *)
    assert (Hcont : ~ closes s p ->
      (exists q, (if (c =? NL)%N then Ok None else str_loop s f (S p)) = Ok (Some (q + 1))
                 /\ first_close s p q /\ q < length s) \/
      ((if (c =? NL)%N then Ok None else str_loop s f (S p)) = Ok None
       /\ forall q, ~ first_close s p q)).
    { intros Hncl. destruct (c =? NL)%N eqn:En.
      - apply N.eqb_eq in En. subst c. right. split; [reflexivity|].
        intros q [Hq [Hcl Hbefore]].
        destruct (Nat.eq_dec q p) as [->|Hne]; [contradiction|].
        destruct (Hbefore p (le_n _)) as [_ Hnl]; [lia|]. contradiction.
      - apply N.eqb_neq in En.
        destruct (IH (S p)) as [[q [R [FC Hlt]]]|[R FC]]; try lia.
        + left. exists q. split; [exact R|]. split; [|exact Hlt].
          destruct FC as [Hq [Hcl Hbefore]]. split; [lia|]. split; [exact Hcl|].
          intros j Hj1 Hj2. destruct (Nat.eq_dec j p) as [->|Hne].
          * split; [exact Hncl|]. rewrite Hc. intros X; inversion X; contradiction.
          * apply Hbefore; lia.
        + right. split; [exact R|]. intros q [Hq [Hcl Hbefore]].
          destruct (Nat.eq_dec q p) as [->|Hne]; [contradiction|].
          apply (FC q). split; [lia|]. split; [exact Hcl|].
          intros j Hj1 Hj2. apply Hbefore; lia. }
    destruct (c =? QUOTE)%N eqn:Eq.
    + apply N.eqb_eq in Eq. subst c.
      rewrite (escape_count_spec' s body p Hs H1 E).
      destruct (Nat.even (backslashes_before s p)) eqn:Ev.
      * rewrite slice_some by lia.
        left. exists p. split; [reflexivity|]. split; [|exact E].
        split; [lia|]. split; [split; assumption|]. intros; lia.
      * apply Hcont. intros [_ Hev]. congruence.
    + apply Hcont. intros [Hg _]. rewrite Hc in Hg. inversion Hg; subst.
      rewrite N.eqb_refl in Eq. discriminate.
Qed.

Lemma lex_str_spec : forall s,
  (starts_with1 s QUOTE = false /\ lex_str s = Ok None) \/
  (starts_with1 s QUOTE = true /\
   ((exists q, lex_str s = Ok (Some (q + 1)) /\ first_close s 1 q /\ q < length s) \/
    (lex_str s = Ok None /\ forall q, ~ first_close s 1 q))).
Proof.
  intros s. unfold lex_str. destruct (starts_with1 s QUOTE) eqn:E; [|left; auto].
  right. split; [reflexivity|].
  destruct (starts_with1_cons _ _ E) as [body Hs].
  apply (str_loop_spec s body Hs); subst; simpl; lia.
Qed.

(* in bounds, terminating, and progressing *)
Lemma lex_str_total : forall s, exists r, lex_str s = Ok r.
Proof.
  intros s. destruct (lex_str_spec s) as [[_ R]|[_ [[q [R _]]|[R _]]]]; eauto.
Qed.

Lemma lex_str_progress : forall s n, lex_str s = Ok (Some n) -> 2 <= n /\ n <= length s.
Proof.
  intros s n H. destruct (lex_str_spec s) as [[_ R]|[_ [[q [R [[Hq _] Hlt]]]|[R _]]]];
    rewrite R in H; inversion H; subst. lia.
Qed.

(* the escape rule, both directions *)
Lemma lex_str_accept_iff : forall s n,
  lex_str s = Ok (Some n) <->
  (starts_with1 s QUOTE = true /\ exists q, n = q + 1 /\ first_close s 1 q).
Proof.
  intros s n. split.
  - intros H. destruct (lex_str_spec s) as [[_ R]|[E [[q [R [FC _]]]|[R _]]]];
      rewrite R in H; inversion H; subst. split; [exact E|]. exists q. auto.
  - intros [E [q [-> FC]]].
    destruct (lex_str_spec s) as [[E' _]|[_ [[q' [R [FC' _]]]|[R NFC]]]].
    + congruence.
    + rewrite (first_close_unique _ _ _ _ FC FC'). exact R.
    + exfalso. exact (NFC q FC).
Qed.

Lemma lex_str_reject_iff : forall s,
  lex_str s = Ok None <->
  (starts_with1 s QUOTE = false \/ forall q, ~ first_close s 1 q).
Proof.
  intros s. split.
  - intros H. destruct (lex_str_spec s) as [[E _]|[E [[q [R _]]|[_ NFC]]]]; auto.
    rewrite R in H. discriminate.
  - intros [E|NFC]; destruct (lex_str_spec s) as [[E' R]|[E' [[q [R [FC _]]]|[R _]]]]; auto.
    + congruence.
    + exfalso. exact (NFC q FC).
Qed.

(* ---------------------------------------------------------------- lex_line_comment_opt *)

Lemma count_to_nl_le : forall s, count_to_nl s <= length s.
Proof. induction s as [|c s IH]; simpl; [lia|]. destruct (c =? NL)%N; lia. Qed.

Lemma count_to_nl_spec : forall s,
  Forall (fun c => c <> NL) (firstn (count_to_nl s) s) /\
  match skipn (count_to_nl s) s with c :: _ => c = NL | [] => True end.
Proof.
  induction s as [|c s [IH1 IH2]]; simpl; [auto|].
  destruct (c =? NL)%N eqn:E.
  - apply N.eqb_eq in E. simpl. auto.
  - apply N.eqb_neq in E. simpl. split; [constructor; assumption | exact IH2].
Qed.

Lemma lex_line_comment_spec : forall s,
  (starts_with2 s SLASH SLASH = false /\ lex_line_comment s = Ok None) \/
  (exists rest, s = SLASH :: SLASH :: rest /\
                lex_line_comment s = Ok (Some (2 + count_to_nl rest))).
Proof.
  intros s. unfold lex_line_comment. destruct (starts_with2 s SLASH SLASH) eqn:E; [|left; auto].
  right. destruct (starts_with2_cons _ _ _ E) as [rest ->]. exists rest. split; [reflexivity|].
  unfold slice_from. rewrite slice_some by (simpl; lia).
  replace (length (SLASH :: SLASH :: rest) - 2) with (length rest) by (simpl; lia).
  simpl skipn. rewrite firstn_all.
  pose proof (count_to_nl_le rest).
  rewrite slice_some by (simpl; lia). reflexivity.
Qed.

Lemma lex_line_comment_total : forall s, exists r, lex_line_comment s = Ok r.
Proof. intros s. destruct (lex_line_comment_spec s) as [[_ R]|[rest [_ R]]]; eauto. Qed.

Lemma lex_line_comment_progress : forall s n,
  lex_line_comment s = Ok (Some n) -> 2 <= n /\ n <= length s.
Proof.
  intros s n H. destruct (lex_line_comment_spec s) as [[_ R]|[rest [-> R]]];
    rewrite R in H; inversion H; subst.
  pose proof (count_to_nl_le rest). simpl. lia.
Qed.

(* ---------------------------------------------------------------- lex_block_comment_opt *)

Lemma block_loop_total : forall s f cl p, 1 <= f -> length s <= cl + f ->
  (block_loop s f cl p = Ok None) \/
  (exists n p', block_loop s f cl p = Ok (Some (n, p')) /\ cl + 2 <= n /\ n <= length s).
Proof.
  intros s f. induction f as [|f IH]; intros cl p H1 H2; [lia|].
  simpl. destruct (length s <? cl + 2) eqn:E; [left; reflexivity|].
  apply Nat.ltb_ge in E.
  destruct (get_some s cl) as [c Hc]; [lia|]. rewrite Hc.
  assert (Hrec : (block_loop s f (S cl) (next_line_or_column p c) = Ok None) \/
    (exists n p', block_loop s f (S cl) (next_line_or_column p c) = Ok (Some (n, p'))
                  /\ cl + 2 <= n /\ n <= length s)).
  { destruct (IH (S cl) (next_line_or_column p c)) as [R|[n [p' [R [Hn1 Hn2]]]]]; try lia.
    - left. exact R.
    - right. exists n, p'. split; [exact R|]. lia. }
  destruct (c =? STAR)%N.
  - destruct (get_some s (cl + 1)) as [d Hd]; [lia|]. rewrite Hd.
    destruct (d =? SLASH)%N.
    + right. exists (cl + 2), (next_n_column p 2). split; [reflexivity|]. lia.
    + exact Hrec.
  - exact Hrec.
Qed.

Lemma firstn_length_le : forall (s : list N) n, n <= length s -> length (firstn n s) = n.
Proof. intros. rewrite firstn_length. lia. Qed.

Lemma lex_block_comment_total : forall s p, exists r, lex_block_comment s p = Ok r.
Proof.
  intros s p. unfold lex_block_comment.
  destruct (starts_with2 s SLASH STAR) eqn:E; [|eauto].
  destruct (starts_with2_cons _ _ _ E) as [rest Hs].
  assert (Hlen : 2 <= length s) by (subst; simpl; lia).
  destruct (block_loop_total s (length s) 2 (next_n_column p 2)) as [R|[n [p' [R [Hn1 Hn2]]]]];
    try lia; rewrite R; [eauto|].
  rewrite slice_some by lia. rewrite Nat.sub_0_r. simpl skipn.
  rewrite firstn_length_le by exact Hn2.
  destruct (4 <? n) eqn:E4.
  - apply Nat.ltb_lt in E4.
    destruct (get_some (firstn n s) 2) as [c Hc]; [rewrite firstn_length_le; lia|]. rewrite Hc.
    destruct (c =? STAR)%N; rewrite slice_some by (try rewrite firstn_length_le; lia); eauto.
  - rewrite slice_some by (try rewrite firstn_length_le; lia). eauto.
Qed.

Lemma lex_block_comment_progress : forall s p d n p',
  lex_block_comment s p = Ok (Some (d, n, p')) -> 4 <= n /\ n <= length s.
Proof.
  intros s p d n p' H. unfold lex_block_comment in H.
  destruct (starts_with2 s SLASH STAR) eqn:E; [|discriminate].
  destruct (starts_with2_cons _ _ _ E) as [rest Hs].
  assert (Hlen : 2 <= length s) by (subst; simpl; lia).
  destruct (block_loop_total s (length s) 2 (next_n_column p 2)) as [R|[m [q [R [Hn1 Hn2]]]]];
    try lia; rewrite R in H; [discriminate|].
  destruct (slice s 0 m); [|discriminate].
  destruct (4 <? length l).
  - destruct (get l 2); [|discriminate].
    destruct (n0 =? STAR)%N;
      match type of H with context [slice ?a ?b ?c] => destruct (slice a b c) end;
      inversion H; subst; lia.
  - match type of H with context [slice ?a ?b ?c] => destruct (slice a b c) end;
      inversion H; subst; lia.
Qed.

(* the code before the repair: `/**/` makes the unguarded slice [3..2] *)
Lemma lex_block_comment_unguarded_oob :
  lex_block_comment_unguarded [47; 42; 42; 47]%N (0, 0) = Oob.
Proof. vm_compute. reflexivity. Qed.

(* ---------------------------------------------------------------- the logos specification *)

Lemma span_le : forall f s, span f s <= length s.
Proof. induction s as [|c s IH]; simpl; [lia|]. destruct (f c); lia. Qed.

Lemma is_prefix_length : forall o s, is_prefix o s = true -> length o <= length s.
Proof.
  induction o as [|x o IH]; intros [|y s] H; simpl in *; try lia; try discriminate.
  apply andb_true_iff in H. destruct H as [_ H]. apply IH in H. lia.
Qed.

Lemma is_prefix_firstn : forall o s, is_prefix o s = true -> firstn (length o) s = o.
Proof.
  induction o as [|x o IH]; intros [|y s] H; simpl in *; try reflexivity; try discriminate.
  apply andb_true_iff in H. destruct H as [E H]. apply N.eqb_eq in E. subst. f_equal. auto.
Qed.

(* the longest-match fold returns its seed or the length of a matching table entry *)
Lemma op_fold_spec : forall s table acc,
  let n := fold_left (fun acc o => if is_prefix o s then Nat.max acc (length o) else acc) table acc in
  n = acc \/ exists o, In o table /\ is_prefix o s = true /\ length o = n.
Proof.
  intros s. induction table as [|o table IH]; intros acc; simpl; [left; reflexivity|].
  destruct (is_prefix o s) eqn:E.
  - destruct (IH (Nat.max acc (length o))) as [H|[o' [H1 [H2 H3]]]].
    + rewrite H. destruct (Nat.max_spec acc (length o)) as [[_ M]|[_ M]]; rewrite M.
      * right. exists o. auto.
      * left. reflexivity.
    + right. exists o'. auto.
  - destruct (IH acc) as [H|[o' [H1 [H2 H3]]]]; [left; exact H|].
    right. exists o'. auto.
Qed.

Lemma op_len_spec : forall s,
  op_len s = 0 \/ exists o, In o operators /\ is_prefix o s = true /\ length o = op_len s.
Proof. intros s. exact (op_fold_spec s operators 0). Qed.

Lemma op_len_le : forall s, op_len s <= length s.
Proof.
  intros s. destruct (op_len_spec s) as [H|[o [_ [H2 H3]]]]; [lia|].
  rewrite <- H3. apply is_prefix_length. exact H2.
Qed.

Lemma lex_simple_progress : forall s k n, lex_simple s = Some (k, n) -> 1 <= n /\ n <= length s.
Proof.
  intros [|c s] k n H; [discriminate|]. unfold lex_simple in H.
  pose proof (span_le is_alnum s). pose proof (span_le is_digit s).
  destruct (is_upper c); [inversion H; subst; simpl; lia|].
  destruct (is_lower c); [inversion H; subst; simpl; lia|].
  destruct (c =? 48)%N; [inversion H; subst; simpl; lia|].
  destruct (is_digit c); [inversion H; subst; simpl; lia|].
  pose proof (op_len_le (c :: s)).
  destruct (op_len (c :: s)) eqn:E; [discriminate|]. inversion H; subst. simpl in *. lia.
Qed.

Lemma err_len_progress : forall s, s <> [] -> 1 <= err_len s /\ err_len s <= length s.
Proof.
  intros [|c s] H; [contradiction|]. simpl.
  pose proof (span_le (fun c => negb (is_ws c)) s). lia.
Qed.

(* ---------------------------------------------------------------- one token *)

Lemma next_raw_total : forall s p off,
  next_raw s p off = Ok None \/
  exists t es n p', next_raw s p off = Ok (Some (t, es, n, p')) /\ 1 <= n /\ n <= length s.
Proof.
  intros s p off. unfold next_raw.
  destruct (skip_ws s p) as [w p1] eqn:W.
  pose proof (skip_ws_le _ _ _ _ W) as Hw.
  assert (Hr : length (skipn w s) = length s - w) by apply skipn_length.
  set (r := skipn w s) in *.
  destruct (lex_str_total r) as [[n|] R]; rewrite R.
  { right. apply lex_str_progress in R. do 4 eexists. split; [reflexivity|]. lia. }
  destruct (lex_line_comment_total r) as [[n|] R2]; rewrite R2.
  { right. apply lex_line_comment_progress in R2. do 4 eexists. split; [reflexivity|]. lia. }
  destruct (lex_block_comment_total r p1) as [[[[d n] p2]|] R3]; rewrite R3.
  { right. apply lex_block_comment_progress in R3. do 4 eexists. split; [reflexivity|]. lia. }
  destruct r as [|c r'] eqn:Er; [left; reflexivity|].
  right. destruct (lex_simple (c :: r')) as [[k n]|] eqn:L.
  - apply lex_simple_progress in L. do 4 eexists. split; [reflexivity|]. lia.
  - destruct (err_len_progress (c :: r')) as [H1 H2]; [discriminate|].
    do 4 eexists. split; [reflexivity|]. lia.
Qed.

(* ---------------------------------------------------------------- the token loop *)

Lemma raw_loop_total : forall f s p off, length s < f -> exists r, raw_loop f s p off = Ok r.
Proof.
  induction f as [|f IH]; intros s p off H; [lia|].
  simpl. destruct (next_raw_total s p off) as [R|[t [es [n [p' [R [H1 H2]]]]]]]; rewrite R.
  - eauto.
  - destruct (IH (skipn n s) p' (n + off)) as [[ts es'] R'].
    + rewrite skipn_length. lia.
    + rewrite R'. eauto.
Qed.

(* more fuel never changes the answer *)
Lemma raw_loop_mono : forall f s p off r, raw_loop f s p off = Ok r ->
  forall f', f <= f' -> raw_loop f' s p off = Ok r.
Proof.
  induction f as [|f IH]; intros s p off r H f' Hf; [discriminate|].
  destruct f' as [|f']; [lia|]. simpl in *.
  destruct (next_raw s p off) as [[[[[t es] n] p']|]| |]; try discriminate; [|exact H].
  destruct (raw_loop f (skipn n s) p' (n + off)) as [[ts es']| |] eqn:R; try discriminate.
  rewrite (IH _ _ _ _ R f') by lia. exact H.
Qed.

Lemma lex_raw_total : forall s, exists r, lex_raw s = Ok r.
Proof. intros s. unfold lex_raw. apply raw_loop_total. lia. Qed.

Lemma lex_raw_fuel_irrelevant : forall s f, length s < f ->
  raw_loop f s (0, 0) 0 = lex_raw s.
Proof.
  intros s f H. destruct (lex_raw_total s) as [r R]. rewrite R.
  unfold lex_raw in R. apply (raw_loop_mono _ _ _ _ _ R). lia.
Qed.

Lemma lex_total : forall s, exists ts es, lex s = Ok (ts, es).
Proof.
  intros s. unfold lex. destruct (lex_raw_total s) as [[ts es] R]. rewrite R.
  destruct (produce ts None [] es) as [a b]. eauto.
Qed.

(* tokens of the raw stream are non-empty and consecutive pieces of the input *)
Lemma raw_loop_progress : forall f s p off ts es, raw_loop f s p off = Ok (ts, es) ->
  Forall (fun t => 1 <= length (t_raw t)) ts.
Proof.
  induction f as [|f IH]; intros s p off ts es H; [discriminate|].
  simpl in H. destruct (next_raw s p off) as [[[[[t e1] n] p']|]| |] eqn:R; try discriminate.
  - destruct (raw_loop f (skipn n s) p' (n + off)) as [[ts' es']| |] eqn:R'; try discriminate.
    inversion H; subst. constructor; [|eapply IH; eassumption].
    clear - R. unfold next_raw in R.
    destruct (skip_ws s p) as [w p1].
    set (r := skipn w s) in *.
    destruct (lex_str r) as [[m|]| |] eqn:L1; try discriminate.
    { inversion R; subst. simpl. apply lex_str_progress in L1.
      rewrite firstn_length. lia. }
    destruct (lex_line_comment r) as [[m|]| |] eqn:L2; try discriminate.
    { inversion R; subst. simpl. apply lex_line_comment_progress in L2.
      rewrite firstn_length. lia. }
    destruct (lex_block_comment r p1) as [[[[d m] p2]|]| |] eqn:L3; try discriminate.
    { inversion R; subst. simpl. apply lex_block_comment_progress in L3.
      rewrite firstn_length. lia. }
    destruct r as [|c r'] eqn:Er; [discriminate|].
    destruct (lex_simple (c :: r')) as [[k m]|] eqn:L4.
    + inversion R; subst. apply lex_simple_progress in L4.
      cbn [t_raw]. rewrite firstn_length. lia.
    + inversion R; subst. simpl. lia.
  - inversion H; subst. constructor.
Qed.

(* ---------------------------------------------------------------- the reference scanner *)

Lemma get_after_prefix : forall pre c rest,
  get (QUOTE :: pre ++ c :: rest) (S (length pre)) = Some c.
Proof.
  intros. unfold get. simpl. rewrite nth_error_app2 by lia. rewrite Nat.sub_diag. reflexivity.
Qed.

Lemma backslashes_after_prefix : forall pre rest,
  backslashes_before (QUOTE :: pre ++ rest) (S (length pre)) = run_len (rev pre).
Proof.
  intros. unfold backslashes_before. simpl firstn.
  rewrite firstn_app, Nat.sub_diag, firstn_all. simpl. rewrite app_nil_r.
  apply run_len_snoc. unfold QUOTE, BACKSLASH. discriminate.
Qed.

(* the "escaped" flag of the left-to-right scan is the parity of the backslash run, and the scan
   stops exactly at the first closing position *)
Lemma scan_ref_spec : forall body pre,
  (forall j, 1 <= j -> j < S (length pre) ->
     ~ closes (QUOTE :: pre ++ body) j /\ get (QUOTE :: pre ++ body) j <> Some NL) ->
  match scan_ref body (Nat.odd (run_len (rev pre))) (length pre) with
  | Some q => first_close (QUOTE :: pre ++ body) 1 (S q)
  | None => forall q, ~ first_close (QUOTE :: pre ++ body) 1 q
  end.
Proof.
  induction body as [|c body IH]; intros pre Hpre.
  - simpl. intros q [Hq [[Hg Hev] Hb]].
    pose proof (get_lt _ _ _ Hg) as Hlt. simpl in Hlt. rewrite app_nil_r in Hlt.
    destruct (Hpre q Hq) as [Hc _]; [lia|]. apply Hc. split; assumption.
  - set (s := QUOTE :: pre ++ c :: body) in *.
    set (i := length pre) in *.
    assert (Hgc : get s (S i) = Some c) by apply get_after_prefix.
    assert (Hbs : backslashes_before s (S i) = run_len (rev pre)) by apply backslashes_after_prefix.
    assert (Hs' : s = QUOTE :: (pre ++ [c]) ++ body) by (unfold s; rewrite <- app_assoc; reflexivity).
    assert (Hlen' : length (pre ++ [c]) = S i) by (rewrite app_length; simpl; unfold i; lia).
    (* a line feed at position S i ends every candidate *)
    assert (Hnl : c = NL -> forall q, ~ first_close s 1 q).
    { intros -> q [Hq [[Hg Hev] Hb]].
      destruct (Nat.lt_trichotomy q (S i)) as [L|[E|L]].
      - destruct (Hpre q Hq L) as [Hc _]. apply Hc. split; assumption.
      - subst q. rewrite Hgc in Hg. inversion Hg.
      - destruct (Hb (S i)) as [_ Hn]; [lia|lia|]. contradiction. }
    (* going on: the invariant for the longer prefix *)
    assert (Hstep : ~ closes s (S i) -> c <> NL ->
      forall j, 1 <= j -> j < S (length (pre ++ [c])) ->
        ~ closes (QUOTE :: (pre ++ [c]) ++ body) j /\ get (QUOTE :: (pre ++ [c]) ++ body) j <> Some NL).
    { intros Hncl Hnnl j Hj1 Hj2. rewrite <- Hs'. rewrite Hlen' in Hj2.
      destruct (Nat.eq_dec j (S i)) as [->|Hne].
      - split; [exact Hncl|]. rewrite Hgc. intros X. inversion X. contradiction.
      - apply Hpre; [exact Hj1 | lia]. }
    assert (Hrun : run_len (rev (pre ++ [c])) =
                   if (c =? BACKSLASH)%N then S (run_len (rev pre)) else 0).
    { rewrite rev_app_distr. reflexivity. }
    simpl scan_ref. fold i.
    destruct (Nat.odd (run_len (rev pre))) eqn:Eodd.
    + (* escaped *)
      destruct (c =? NL)%N eqn:En; [apply N.eqb_eq in En; exact (Hnl En)|].
      apply N.eqb_neq in En.
      assert (Hncl : ~ closes s (S i)).
      { intros [_ Hev]. rewrite Hbs in Hev. rewrite <- Nat.negb_odd in Hev.
        rewrite Eodd in Hev. discriminate. }
      specialize (IH (pre ++ [c]) (Hstep Hncl En)).
      rewrite Hlen' in IH. rewrite Hrun in IH. rewrite <- Hs' in IH.
      replace (Nat.odd (if (c =? BACKSLASH)%N then S (run_len (rev pre)) else 0)) with false in IH.
      * exact IH.
      * destruct (c =? BACKSLASH)%N; [|reflexivity].
        rewrite Nat.odd_succ, <- Nat.negb_odd, Eodd. reflexivity.
    + destruct (c =? QUOTE)%N eqn:Eq.
      * apply N.eqb_eq in Eq. subst c.
        split; [lia|]. split.
        -- split; [exact Hgc|]. rewrite Hbs, <- Nat.negb_odd, Eodd. reflexivity.
        -- intros j Hj1 Hj2. apply Hpre; assumption.
      * apply N.eqb_neq in Eq.
        destruct (c =? NL)%N eqn:En; [apply N.eqb_eq in En; exact (Hnl En)|].
        apply N.eqb_neq in En.
        assert (Hncl : ~ closes s (S i)).
        { intros [Hg _]. rewrite Hgc in Hg. inversion Hg. contradiction. }
        specialize (IH (pre ++ [c]) (Hstep Hncl En)).
        rewrite Hlen' in IH. rewrite Hrun in IH. rewrite <- Hs' in IH.
        replace (Nat.odd (if (c =? BACKSLASH)%N then S (run_len (rev pre)) else 0))
          with (c =? BACKSLASH)%N in IH.
        -- exact IH.
        -- destruct (c =? BACKSLASH)%N; [|reflexivity].
           rewrite Nat.odd_succ, <- Nat.negb_odd, Eodd. reflexivity.
Qed.

(* lex_str_lit_opt agrees with the left-to-right scanner on every input *)
Lemma lex_str_ref : forall body,
  lex_str (QUOTE :: body) = Ok (option_map (fun q => q + 2) (scan_ref body false 0)).
Proof.
  intros body.
  pose proof (scan_ref_spec body []) as H. simpl in H. change (Nat.odd 0) with false in H.
  assert (Hpre : forall j, 1 <= j -> j < 1 ->
            ~ closes (QUOTE :: body) j /\ get (QUOTE :: body) j <> Some NL) by (intros; lia).
  specialize (H Hpre).
  destruct (scan_ref body false 0) as [q|]; simpl.
  - replace (q + 2) with (S q + 1) by lia.
    apply lex_str_accept_iff. split; [reflexivity|]. exists (S q). auto.
  - apply lex_str_reject_iff. right. exact H.
Qed.

(* ---------------------------------------------------------------- the 32-bit gate of TokenProducer *)

(* diagnostics are only ever appended *)
Lemma produce_errs_incl : forall ts pending out errs e,
  In e errs -> In e (snd (produce ts pending out errs)).
Proof.
  induction ts as [|t ts IH]; intros pending out errs e H; simpl; [exact H|].
  destruct (t_kind t); try (apply IH; exact H).
  destruct ((MAXI32_PLUS1 <? dec_value (t_raw t) 0)%N
            || (dec_value (t_raw t) 0 =? MAXI32_PLUS1)%N && negb (pending_is_minus pending)).
  - apply IH. apply in_or_app. left. exact H.
  - destruct (dec_value (t_raw t) 0 =? MAXI32_PLUS1)%N; [|apply IH; exact H].
    destruct pending as [q|]; apply IH; exact H.
Qed.

(* the gate, as the code takes it for the token at the head: a literal above 2^31, or equal to
   2^31 and not directly after a minus operator, gets "Not a 32-bit integer." *)
Lemma produce_reports_head : forall t ts pending out errs,
  t_kind t = KInt ->
  ((MAXI32_PLUS1 < dec_value (t_raw t) 0)%N \/
   (dec_value (t_raw t) 0 = MAXI32_PLUS1 /\ pending_is_minus pending = false)) ->
  In (ENotInt32 (t_start t) (t_end t)) (snd (produce (t :: ts) pending out errs)).
Proof.
  intros t ts pending out errs Hk Hv. simpl. rewrite Hk.
  assert (C : ((MAXI32_PLUS1 <? dec_value (t_raw t) 0)%N
               || (dec_value (t_raw t) 0 =? MAXI32_PLUS1)%N && negb (pending_is_minus pending)) = true).
  { destruct Hv as [Hv|[Hv Hp]].
    - apply N.ltb_lt in Hv. rewrite Hv. reflexivity.
    - rewrite Hv, N.eqb_refl, Hp. apply orb_true_r. }
  rewrite C. apply produce_errs_incl. apply in_or_app. right. left. reflexivity.
Qed.

(* every integer token above 2^31, wherever it stands, gets the diagnostic *)
Lemma produce_reports_big : forall ts pending out errs t,
  In t ts -> t_kind t = KInt -> (MAXI32_PLUS1 < dec_value (t_raw t) 0)%N ->
  In (ENotInt32 (t_start t) (t_end t)) (snd (produce ts pending out errs)).
Proof.
  induction ts as [|t0 ts IH]; intros pending out errs t Hin Hk Hv; [contradiction|].
  destruct Hin as [->|Hin].
  - apply produce_reports_head; auto.
  - simpl. destruct (t_kind t0); try (apply IH; assumption).
    destruct ((MAXI32_PLUS1 <? dec_value (t_raw t0) 0)%N
              || (dec_value (t_raw t0) 0 =? MAXI32_PLUS1)%N && negb (pending_is_minus pending));
      [apply IH; assumption|].
    destruct (dec_value (t_raw t0) 0 =? MAXI32_PLUS1)%N; [|apply IH; assumption].
    destruct pending as [q|]; apply IH; assumption.
Qed.

(* `x 2147483648` (the witness of DESIGN section 7 #10 on the pinned tree) is now reported, and
   `-2147483648` is merged without a diagnostic *)
Lemma int_gate_examples :
  (exists ts, lex [120; 32; 50; 49; 52; 55; 52; 56; 51; 54; 52; 56]%N
              = Ok (ts, [ENotInt32 (0, 2) (0, 12)])) /\
  (exists t, lex [45; 50; 49; 52; 55; 52; 56; 51; 54; 52; 56]%N = Ok ([t], []) /\
             t_raw t = [45; 50; 49; 52; 55; 52; 56; 51; 54; 52; 56]%N).
Proof.
  split.
  - eexists. vm_compute. reflexivity.
  - eexists. split; vm_compute; reflexivity.
Qed.

(* the class of the repaired finding: inputs without `/**/` never reached the unguarded slice *)
Lemma has_empty_doc_witness : has_empty_doc [120; 47; 42; 42; 47]%N = true.
Proof. reflexivity. Qed.
