(* C05 — the property theorems about the lexer's hand-written scanners.  Nothing but statements
   closed by `exact`, non-vacuity examples and Print Assumptions.  Parsed by /verif/check.

   Reading guide.  [Ok r] = the Rust function returns r; [Oob] = an index or slice is out of
   bounds (a panic); [Fuel] = the loop did not finish within the model's budget (a hang).
   Total below therefore means: no out-of-bounds access and termination, for EVERY byte list.
   Parser, checker, printer and compiler totality are NOT theorems (monitored by checks/c05.py). *)
From Coq Require Import List NArith Arith Bool Lia.
Import ListNotations.
From SV Require Import C05.Model C05.Proofs.

(* 1. no access of the three scanners is out of bounds, for every input (and they terminate) *)
Theorem C05_scanners_in_bounds : forall s p,
  (exists r, lex_str s = Ok r) /\
  (exists r, lex_line_comment s = Ok r) /\
  (exists r, lex_block_comment s p = Ok r).
Proof.
  intros s p.
  exact (conj (lex_str_total s) (conj (lex_line_comment_total s) (lex_block_comment_total s p))).
Qed.

(* 2. each scanner either rejects (the caller's state is untouched: the model threads the
      position through and [lex_block_comment] hands back no position on reject, mirroring the
      restore of saved_position) or consumes at least one and at most all remaining bytes *)
Theorem C05_scanners_progress : forall s p,
  (forall n, lex_str s = Ok (Some n) -> 2 <= n /\ n <= length s) /\
  (forall n, lex_line_comment s = Ok (Some n) -> 2 <= n /\ n <= length s) /\
  (forall d n p', lex_block_comment s p = Ok (Some (d, n, p')) -> 4 <= n /\ n <= length s) /\
  (forall n p', skip_ws s p = (n, p') -> n <= length s) /\
  (forall k n, lex_simple s = Some (k, n) -> 1 <= n /\ n <= length s) /\
  (s <> [] -> 1 <= err_len s /\ err_len s <= length s).
Proof.
  intros s p.
  exact (conj (lex_str_progress s)
        (conj (lex_line_comment_progress s)
        (conj (lex_block_comment_progress s p)
        (conj (fun n p' => skip_ws_le s p n p')
        (conj (lex_simple_progress s) (err_len_progress s)))))).
Qed.

(* 3. one call of next_token: end of input, or a token that consumed >= 1 byte *)
Theorem C05_next_token_total : forall s p off,
  next_raw s p off = Ok None \/
  exists t es n p', next_raw s p off = Ok (Some (t, es, n, p')) /\ 1 <= n /\ n <= length s.
Proof. exact next_raw_total. Qed.

(* 4. the token loop terminates: fuel [S (length input)] suffices, and any larger budget gives
      the same token stream *)
Theorem C05_token_loop_fuel_sufficient : forall s,
  (exists r, lex_raw s = Ok r) /\
  (forall f, length s < f -> raw_loop f s (0, 0) 0 = lex_raw s).
Proof. intros s. exact (conj (lex_raw_total s) (lex_raw_fuel_irrelevant s)). Qed.

(* 5. the whole lexer (scanners + logos specification + TokenProducer) is total on every input *)
Theorem C05_lexer_total : forall s, exists ts es, lex s = Ok (ts, es).
Proof. exact lex_total. Qed.

(* ... and every raw token is non-empty *)
Theorem C05_tokens_nonempty : forall s ts es, lex_raw s = Ok (ts, es) ->
  Forall (fun t => 1 <= length (t_raw t)) ts.
Proof. intros s ts es. exact (raw_loop_progress (S (length s)) s (0, 0) 0 ts es). Qed.

(* 6. the escape rule.  [closes s q]: s[q] is a quote and the maximal run of backslashes that
      ends at q-1 has even length.  lex_str_lit_opt accepts n bytes iff the text starts with a
      quote and n-1 is the FIRST index >= 1 that closes with no line feed before it. *)
Theorem C05_string_close_iff_even_backslashes : forall s n,
  lex_str s = Ok (Some n) <->
  (starts_with1 s QUOTE = true /\
   exists q, n = q + 1 /\
     1 <= q /\ closes s q /\
     forall j, 1 <= j -> j < q -> ~ closes s j /\ get s j <> Some NL).
Proof. exact lex_str_accept_iff. Qed.

Theorem C05_string_reject_iff : forall s,
  lex_str s = Ok None <->
  (starts_with1 s QUOTE = false \/
   forall q, ~ (1 <= q /\ closes s q /\
                forall j, 1 <= j -> j < q -> ~ closes s j /\ get s j <> Some NL)).
Proof. exact lex_str_reject_iff. Qed.

(* 7. the backward escape count of the Rust code agrees, on every input, with the textbook
      left-to-right scan that carries an escaped flag *)
Theorem C05_string_scanner_matches_reference : forall body,
  lex_str (QUOTE :: body) = Ok (option_map (fun q => q + 2) (scan_ref body false 0)).
Proof. exact lex_str_ref. Qed.

(* 8. the 32-bit gate of TokenProducer, as written (repaired code: DESIGN section 7 #10 is
      closed): a literal above 2^31 is reported wherever it stands; a literal equal to 2^31 is
      reported unless the token directly before it is the minus operator (then the two are merged
      into -2147483648).  The range theorem proper (value in [MIN, MAX] iff accepted) is C06's. *)
Theorem C05_int_gate_reports_above_2p31 : forall ts pending out errs t,
  In t ts -> t_kind t = KInt -> (MAXI32_PLUS1 < dec_value (t_raw t) 0)%N ->
  In (ENotInt32 (t_start t) (t_end t)) (snd (produce ts pending out errs)).
Proof. exact produce_reports_big. Qed.

Theorem C05_int_gate_2p31_needs_minus : forall t ts pending out errs,
  t_kind t = KInt ->
  ((MAXI32_PLUS1 < dec_value (t_raw t) 0)%N \/
   (dec_value (t_raw t) 0 = MAXI32_PLUS1 /\ pending_is_minus pending = false)) ->
  In (ENotInt32 (t_start t) (t_end t)) (snd (produce (t :: ts) pending out errs)).
Proof. exact produce_reports_head. Qed.

Theorem C05_int_gate_examples :
  (exists ts, lex [120; 32; 50; 49; 52; 55; 52; 56; 51; 54; 52; 56]%N
              = Ok (ts, [ENotInt32 (0, 2) (0, 12)])) /\
  (exists t, lex [45; 50; 49; 52; 55; 52; 56; 51; 54; 52; 56]%N = Ok ([t], []) /\
             t_raw t = [45; 50; 49; 52; 55; 52; 56; 51; 54; 52; 56]%N).
Proof. exact int_gate_examples. Qed.

(* 9. regression statement for the repaired finding C05-empty-doc-comment-panic: without the
      length guard the doc-comment slice [3 .. len-2] of `/**/` is out of bounds *)
Theorem C05_unguarded_block_comment_out_of_bounds :
  lex_block_comment_unguarded [47; 42; 42; 47]%N (0, 0) = Oob.
Proof. exact lex_block_comment_unguarded_oob. Qed.

(* ---------------------------------------------------------------- non-vacuity *)

(* a string with an escaped quote, an empty block comment, a doc comment, a line comment, LF, x *)
Example C05_example_tokens :
  option_map (fun r => map (fun t => (t_kind t, t_start t, t_end t)) (fst r))
    (match lex [34;97;92;34;98;34;32;47;42;42;47;32;47;42;42;32;100;32;42;47;32;47;47;32;99;10;120]%N
     with Ok r => Some r | _ => None end)
  = Some [(KString, (0, 0), (0, 6)); (KBlockComment, (0, 7), (0, 11));
          (KDocComment, (0, 12), (0, 20)); (KLineComment, (0, 21), (0, 25)); (KLowerId, (1, 0), (1, 1))].
Proof. vm_compute. reflexivity. Qed.

(* quote + three backslashes + quote is not closed (odd run); with four backslashes it is *)
Example C05_example_escape :
  lex_str [34;92;92;92;34]%N = Ok None /\ lex_str [34;92;92;92;92;34]%N = Ok (Some 6).
Proof. split; vm_compute; reflexivity. Qed.

(* - 2147483648 is merged, 2147483649 is reported *)
Example C05_example_gate :
  match lex [45;32;50;49;52;55;52;56;51;54;52;56;32;50;49;52;55;52;56;51;54;52;57]%N with
  | Ok (ts, es) => (map t_raw ts, es)
  | _ => ([], [])
  end = ([[45;50;49;52;55;52;56;51;54;52;56]; [50;49;52;55;52;56;51;54;52;57]]%N,
         [ENotInt32 (0, 13) (0, 23)]).
Proof. vm_compute. reflexivity. Qed.

Print Assumptions C05_scanners_in_bounds.
Print Assumptions C05_scanners_progress.
Print Assumptions C05_next_token_total.
Print Assumptions C05_token_loop_fuel_sufficient.
Print Assumptions C05_lexer_total.
Print Assumptions C05_tokens_nonempty.
Print Assumptions C05_string_close_iff_even_backslashes.
Print Assumptions C05_string_reject_iff.
Print Assumptions C05_string_scanner_matches_reference.
Print Assumptions C05_int_gate_reports_above_2p31.
Print Assumptions C05_int_gate_2p31_needs_minus.
Print Assumptions C05_int_gate_examples.
Print Assumptions C05_unguarded_block_comment_out_of_bounds.
