(* C06 — evaluation of harness observations of the literal gate against the two models
   (vm_compute inside coqc, driven by checks/c06.py). *)
From Coq Require Import List ZArith Bool NArith.
Import ListNotations.
From SV Require Import C06.Model.
Open Scope Z_scope.

(* one observation of the implementation:
   the token before the literal, the literal's digits, "Not a 32-bit integer." reported?,
   `-` and the literal merged into one token?, the value stored in the AST (None when the text
   was only lexed, not parsed) *)
Record lcase := mkL { l_prev : prev; l_digits : list Z; l_err : bool; l_merged : bool; l_value : option Z }.

Definition agrees (f : prev -> list Z -> outcome) (c : lcase) : bool :=
  let o := f (l_prev c) (l_digits c) in
  Bool.eqb (o_error o) (l_err c) && Bool.eqb (o_merged o) (l_merged c) &&
  match l_value c with
  | None => true
  | Some v => v =? lit_value_of f (l_prev c) (l_digits c)
  end.

Fixpoint bad_from (f : prev -> list Z -> outcome) (cs : list lcase) (i : N) : list N :=
  match cs with
  | [] => []
  | c :: r => if agrees f c then bad_from f r (i + 1)%N else i :: bad_from f r (i + 1)%N
  end.

(* indices of the observations that disagree with the pinned model / with the patched model,
   and indices of the observations in the known class *)
Definition lbad (cs : list lcase) : list N * list N * list N :=
  (bad_from process_raw cs 0%N, bad_from process_raw_patched cs 0%N,
   (fix known (cs : list lcase) (i : N) : list N :=
      match cs with
      | [] => []
      | c :: r => if Known_C06_lit (l_prev c) (l_digits c) then i :: known r (i + 1)%N else known r (i + 1)%N
      end) cs 0%N).

(* the model's full answer for one input (for the disagreement report) *)
Definition lmodel (p : prev) (ds : list Z) :=
  (process_raw p ds, lit_value p ds, process_raw_patched p ds, lit_value_patched p ds).
