(* C06 — evaluation of harness observations of the literal gate against the model
   (vm_compute inside coqc, driven by checks/c06.py). *)
From Coq Require Import List ZArith Bool NArith.
Import ListNotations.
From SV Require Import C06.Model.
Open Scope Z_scope.

(* one observation of the implementation:
   the token before the literal, the literal's digits, "Not a 32-bit integer." reported?,
   `-` and the literal merged into one token?, the value stored in the AST (None when the text
   was only lexed, not parsed) *)
Record lcase := mkL { l_prev : prev; l_digits : list Z; l_err : bool; l_merged : bool; l_value : option Z }.

Definition agrees (c : lcase) : bool :=
  let o := process_raw (l_prev c) (l_digits c) in
  Bool.eqb (o_error o) (l_err c) && Bool.eqb (o_merged o) (l_merged c) &&
  match l_value c with
  | None => true
  | Some v => v =? lit_value (l_prev c) (l_digits c)
  end.

(* indices of the observations that disagree with the model *)
Fixpoint bad_from (cs : list lcase) (i : N) : list N :=
  match cs with
  | [] => []
  | c :: r => if agrees c then bad_from r (i + 1)%N else i :: bad_from r (i + 1)%N
  end.
Definition lbad (cs : list lcase) : list N := bad_from cs 0%N.

(* the model's full answer for one input (for the disagreement report):
   outcome, value, and whether the OLD gate would have answered the same *)
Definition lmodel (p : prev) (ds : list Z) :=
  (process_raw p ds, lit_value p ds, negb (Known_C06_lit p ds)).
