(* C06 — a program with a static error is rejected and never compiled.
   Definitions only (DESIGN.md section 4, C06).  Two mechanisms are modelled here; the other
   clauses of the property rest on the shared kernels (theories/TypeKernel, theories/C07).

   (i)  the integer-literal gate
        crates/samlang-parser/src/lexer.rs       TokenProducer::{next_token, process_raw_token}
        crates/samlang-parser/src/source_parser.rs   `Literal::Int(text.parse::<i32>().unwrap_or(0))`
        Logos rule for the raw token: a single 0, or a non-zero digit followed by digits
        (no sign; a preceding `-` is its own token)
   (ii) the gate of crates/samlang-compiler/src/lib.rs  compile_sources.

   [process_raw] is process_raw_token of the tree in /repo (after the repair 9eaf9b5: the range test
   asks "is the pending token a `-`?").  [process_raw_old] is the code as it was before that repair
   ("is there a pending token?"); it is kept only for the historical refutation and for the theorem
   that the repair changed the gate exactly on the class Known_C06_lit.  checks/c06.py compares the
   real lexer with [process_raw] only. *)
From Coq Require Import List ZArith Bool Lia.
Import ListNotations.
Open Scope Z_scope.

(* ------------------------------------------------------------------ numbers *)

Definition I32_MAX : Z := 2147483647.
Definition I32_MIN : Z := -2147483648.
Definition I64_MAX : Z := 9223372036854775807.
Definition MAXI32_PLUS1 : Z := I32_MAX + 1.          (* (i32::MAX as i64) + 1 *)

(* a literal is its list of decimal digits, most significant first *)
Definition digit (d : Z) : Prop := 0 <= d <= 9.
Definition digits (ds : list Z) : Prop := ds <> [] /\ Forall digit ds.
Definition digitb (d : Z) : bool := (0 <=? d) && (d <=? 9).
Definition digitsb (ds : list Z) : bool :=
  match ds with [] => false | _ => forallb digitb ds end.

(* the integer a digit string denotes (mathematics, unbounded) *)
Fixpoint dec_acc (ds : list Z) (acc : Z) : Z :=
  match ds with
  | [] => acc
  | d :: r => dec_acc r (acc * 10 + d)
  end.
Definition dec (ds : list Z) : Z := dec_acc ds 0.

(* core::num::<impl FromStr>: for a non-negative number every step is
   result.checked_mul(10)?.checked_add(d)?   against the type's maximum ... *)
Fixpoint parse_pos (max : Z) (ds : list Z) (acc : Z) : option Z :=
  match ds with
  | [] => Some acc
  | d :: r =>
    let m := acc * 10 in
    if max <? m then None
    else let a := m + d in
         if max <? a then None else parse_pos max r a
  end.

(* ... and for a number written with a leading `-` every step is
   result.checked_mul(10)?.checked_sub(d)?   against the type's minimum *)
Fixpoint parse_neg (min : Z) (ds : list Z) (acc : Z) : option Z :=
  match ds with
  | [] => Some acc
  | d :: r =>
    let m := acc * 10 in
    if m <? min then None
    else let a := m - d in
         if a <? min then None else parse_neg min r a
  end.

(* "<digits>".parse::<i64>()   (an empty digit string is Err(Empty)) *)
Definition parse_i64 (ds : list Z) : option Z :=
  match ds with [] => None | _ => parse_pos I64_MAX ds 0 end.

(* "<digits>".parse::<i32>() / "-<digits>".parse::<i32>() *)
Definition parse_i32 (neg : bool) (ds : list Z) : option Z :=
  match ds with
  | [] => None
  | _ => if neg then parse_neg I32_MIN ds 0 else parse_pos I32_MAX ds 0
  end.

(* ------------------------------------------------------------------ the token producer's gate *)

(* what TokenProducer.pending holds when the raw IntLiteral arrives: nothing (the literal is the
   first token of the file), the operator `-`, or any other token (comments included: they are
   tokens of this stream) *)
Inductive prev := PNone | PMinus | POther.

Definition is_none (p : prev) : bool := match p with PNone => true | _ => false end.
Definition is_minus (p : prev) : bool := match p with PMinus => true | _ => false end.
Definition is_other (p : prev) : bool := match p with POther => true | _ => false end.

(* result of process_raw_token on an IntLiteral: was "Not a 32-bit integer." reported, and was the
   literal merged with the pending `-` into the single token "-<digits>" *)
Record outcome := mkOut { o_error : bool; o_merged : bool }.

(* lexer.rs, TokenProducer::process_raw_token, IntLiteral arm, line by line:
     Err(_)  => report
     Ok(v)   => if v > M || (v == M && !matches!(pending, Some(Token(_, Operator(Minus))))) { report }
                else if v == M && pending is `-` { merge; return None }
   with M = (i32::MAX as i64) + 1 *)
Definition process_raw (p : prev) (ds : list Z) : outcome :=
  match parse_i64 ds with
  | None => mkOut true false
  | Some v =>
    if (MAXI32_PLUS1 <? v) || ((v =? MAXI32_PLUS1) && negb (is_minus p)) then mkOut true false
    else if (v =? MAXI32_PLUS1) && is_minus p then mkOut false true
    else mkOut false false
  end.

(* HISTORICAL: the same function before the repair (`v == M && self.pending.is_none()`) *)
Definition process_raw_old (p : prev) (ds : list Z) : outcome :=
  match parse_i64 ds with
  | None => mkOut true false
  | Some v =>
    if (MAXI32_PLUS1 <? v) || ((v =? MAXI32_PLUS1) && is_none p) then mkOut true false
    else if (v =? MAXI32_PLUS1) && is_minus p then mkOut false true
    else mkOut false false
  end.

(* the gate: no diagnostic *)
Definition lit_ok_of (f : prev -> list Z -> outcome) (p : prev) (ds : list Z) : bool :=
  negb (o_error (f p ds)).

(* source_parser.rs: the value stored in the AST for the token that reaches the parser
   ("-<digits>" when merged, "<digits>" otherwise):  text.parse::<i32>().unwrap_or(0) *)
Definition lit_value_of (f : prev -> list Z -> outcome) (p : prev) (ds : list Z) : Z :=
  match parse_i32 (o_merged (f p ds)) ds with
  | Some v => v
  | None => 0
  end.

Definition lit_ok := lit_ok_of process_raw.
Definition lit_value := lit_value_of process_raw.
Definition lit_ok_old := lit_ok_of process_raw_old.          (* historical *)
Definition lit_value_old := lit_value_of process_raw_old.    (* historical *)

(* ------------------------------------------------------------------ specification *)

(* spec.md "Integer Literals": values range from -2147483648 to 2147483647; `-2147483648`
   (a `-` token directly followed by 2147483648) is recognised as the minimum value. *)
Definition min_form (p : prev) (ds : list Z) : bool := is_minus p && (dec ds =? MAXI32_PLUS1).

Definition in_range (p : prev) (ds : list Z) : Prop :=
  dec ds <= I32_MAX \/ (p = PMinus /\ dec ds = MAXI32_PLUS1).

(* the integer the token handed to the parser stands for *)
Definition denoted (p : prev) (ds : list Z) : Z :=
  if min_form p ds then - dec ds else dec ds.

(* the precise class in which the OLD gate was wrong: 2147483648 after a token that is not `-` *)
Definition Known_C06_lit (p : prev) (ds : list Z) : bool := is_other p && (dec ds =? MAXI32_PLUS1).

(* ------------------------------------------------------------------ compile_sources *)

(* crates/samlang-compiler/src/lib.rs 36-118: parse every module, fail on an unknown entry point,
   type check, then `if error_set.has_errors() { return Err(errors) }`, then the back end.
   The front end and the back end are abstract; the gate is what is modelled. *)
Section CompileGate.
  Context {Src Diag Code : Type}.
  Context (entries_exist : Src -> bool).        (* every entry module is among the sources *)
  Context (front : Src -> list Diag).           (* parser + type_check_sources: the error set *)
  Context (backend : Src -> Code).              (* MIR, optimizer, LIR, TS text, wasm *)

  Inductive compiled := CErr (diags : list Diag) | COk (code : Code).

  Definition has_errors (es : list Diag) : bool := negb (match es with [] => true | _ => false end).

  Definition compile_sources (s : Src) : compiled :=
    if negb (entries_exist s) then CErr []
    else
      let es := front s in
      if has_errors es then CErr es else COk (backend s).
End CompileGate.
