(* C06 — lemmas about the integer-literal gate and the compile gate. *)
From Coq Require Import List ZArith Bool Lia.
Import ListNotations.
From SV Require Import C06.Model.
Open Scope Z_scope.

(* ------------------------------------------------------------------ digit strings *)

Lemma digitb_ok : forall d, digitb d = true <-> digit d.
Proof. intros d. unfold digitb, digit. rewrite andb_true_iff, !Z.leb_le. tauto. Qed.

Lemma digitsb_ok : forall ds, digitsb ds = true <-> digits ds.
Proof.
  intros ds. unfold digitsb, digits. destruct ds as [|d r].
  - split; [discriminate | intros [H _]; congruence].
  - rewrite forallb_forall, Forall_forall. split.
    + intros H. split; [discriminate|]. intros x Hx. apply digitb_ok. auto.
    + intros [_ H] x Hx. apply digitb_ok. auto.
Qed.

Lemma dec_acc_ge : forall ds acc, Forall digit ds -> 0 <= acc -> acc <= dec_acc ds acc.
Proof.
  induction ds as [|d r IH]; intros acc Hd Ha; simpl; [lia|].
  inversion Hd as [|? ? Hd1 Hd2]; subst. unfold digit in Hd1.
  specialize (IH (acc * 10 + d) Hd2). lia.
Qed.

Lemma dec_acc_mono : forall ds a b, a <= b -> dec_acc ds a <= dec_acc ds b.
Proof. induction ds as [|d r IH]; intros a b H; simpl; [lia|]. apply IH. lia. Qed.

Lemma dec_nonneg : forall ds, Forall digit ds -> 0 <= dec ds.
Proof. intros ds H. unfold dec. apply (dec_acc_ge ds 0 H). lia. Qed.

(* ------------------------------------------------------------------ the two std parsers, closed forms *)

Lemma parse_pos_spec : forall max ds acc, Forall digit ds -> 0 <= acc <= max ->
  parse_pos max ds acc = if dec_acc ds acc <=? max then Some (dec_acc ds acc) else None.
Proof.
  intros max. induction ds as [|d r IH]; intros acc Hd Ha; simpl.
  - destruct (Z.leb_spec acc max); [reflexivity | lia].
  - inversion Hd as [|? ? Hd1 Hd2]; subst. unfold digit in Hd1.
    destruct (Z.ltb_spec max (acc * 10)) as [Hm|Hm].
    + assert (acc * 10 + d <= dec_acc r (acc * 10 + d)) by (apply dec_acc_ge; [assumption|lia]).
      destruct (Z.leb_spec (dec_acc r (acc * 10 + d)) max); [lia | reflexivity].
    + destruct (Z.ltb_spec max (acc * 10 + d)) as [Ha2|Ha2].
      * assert (acc * 10 + d <= dec_acc r (acc * 10 + d)) by (apply dec_acc_ge; [assumption|lia]).
        destruct (Z.leb_spec (dec_acc r (acc * 10 + d)) max); [lia | reflexivity].
      * apply IH; [assumption | lia].
Qed.

Lemma parse_neg_spec : forall min ds acc, Forall digit ds -> min <= acc <= 0 ->
  parse_neg min ds acc =
  if min <=? - dec_acc ds (- acc) then Some (- dec_acc ds (- acc)) else None.
Proof.
  intros min. induction ds as [|d r IH]; intros acc Hd Ha; simpl.
  - replace (- - acc) with acc by lia. destruct (Z.leb_spec min acc); [reflexivity | lia].
  - inversion Hd as [|? ? Hd1 Hd2]; subst. unfold digit in Hd1.
    replace (- acc * 10 + d) with (- (acc * 10 - d)) by lia.
    assert (Hge : - (acc * 10 - d) <= dec_acc r (- (acc * 10 - d)))
      by (apply dec_acc_ge; [assumption|lia]).
    destruct (Z.ltb_spec (acc * 10) min) as [Hm|Hm].
    + destruct (Z.leb_spec min (- dec_acc r (- (acc * 10 - d)))); [lia | reflexivity].
    + destruct (Z.ltb_spec (acc * 10 - d) min) as [Ha2|Ha2].
      * destruct (Z.leb_spec min (- dec_acc r (- (acc * 10 - d)))); [lia | reflexivity].
      * apply IH; [assumption | lia].
Qed.

Lemma parse_i64_spec : forall ds, digits ds ->
  parse_i64 ds = if dec ds <=? I64_MAX then Some (dec ds) else None.
Proof.
  intros ds [Hne Hd]. unfold parse_i64, dec. destruct ds as [|d r]; [congruence|].
  apply parse_pos_spec; [assumption | unfold I64_MAX; lia].
Qed.

Lemma parse_i32_pos_spec : forall ds, digits ds ->
  parse_i32 false ds = if dec ds <=? I32_MAX then Some (dec ds) else None.
Proof.
  intros ds [Hne Hd]. unfold parse_i32, dec. destruct ds as [|d r]; [congruence|].
  apply parse_pos_spec; [assumption | unfold I32_MAX; lia].
Qed.

Lemma parse_i32_neg_spec : forall ds, digits ds ->
  parse_i32 true ds = if I32_MIN <=? - dec ds then Some (- dec ds) else None.
Proof.
  intros ds [Hne Hd]. unfold parse_i32, dec. destruct ds as [|d r]; [congruence|].
  rewrite parse_neg_spec; [reflexivity | assumption | unfold I32_MIN; lia].
Qed.

(* ------------------------------------------------------------------ process_raw_token, closed forms *)

Lemma process_raw_old_spec : forall p ds, digits ds ->
  process_raw_old p ds =
  if (MAXI32_PLUS1 <? dec ds) || ((dec ds =? MAXI32_PLUS1) && is_none p) then mkOut true false
  else if (dec ds =? MAXI32_PLUS1) && is_minus p then mkOut false true
  else mkOut false false.
Proof.
  intros p ds Hd. unfold process_raw_old. rewrite (parse_i64_spec ds Hd).
  destruct (Z.leb_spec (dec ds) I64_MAX) as [H|H]; [reflexivity|].
  assert (Hlt : MAXI32_PLUS1 <? dec ds = true)
    by (apply Z.ltb_lt; unfold MAXI32_PLUS1, I32_MAX, I64_MAX in *; lia).
  rewrite Hlt. reflexivity.
Qed.

Lemma process_raw_spec : forall p ds, digits ds ->
  process_raw p ds =
  if (MAXI32_PLUS1 <? dec ds) || ((dec ds =? MAXI32_PLUS1) && negb (is_minus p)) then mkOut true false
  else if (dec ds =? MAXI32_PLUS1) && is_minus p then mkOut false true
  else mkOut false false.
Proof.
  intros p ds Hd. unfold process_raw. rewrite (parse_i64_spec ds Hd).
  destruct (Z.leb_spec (dec ds) I64_MAX) as [H|H]; [reflexivity|].
  assert (Hlt : MAXI32_PLUS1 <? dec ds = true)
    by (apply Z.ltb_lt; unfold MAXI32_PLUS1, I32_MAX, I64_MAX in *; lia).
  rewrite Hlt. reflexivity.
Qed.

Ltac cmp_cases :=
  repeat match goal with
  | |- context [?a <? ?b] => destruct (Z.ltb_spec a b)
  | |- context [?a =? ?b] => destruct (Z.eqb_spec a b)
  | |- context [?a <=? ?b] => destruct (Z.leb_spec a b)
  | H : context [?a <? ?b] |- _ => destruct (Z.ltb_spec a b)
  | H : context [?a =? ?b] |- _ => destruct (Z.eqb_spec a b)
  | H : context [?a <=? ?b] |- _ => destruct (Z.leb_spec a b)
  end.

(* ------------------------------------------------------------------ the gate of the current lexer is exact *)

Lemma lit_gate : forall p ds, digits ds ->
  (lit_ok p ds = true <-> in_range p ds).
Proof.
  intros p ds Hd. unfold lit_ok, lit_ok_of, in_range.
  rewrite (process_raw_spec p ds Hd).
  unfold MAXI32_PLUS1, I32_MAX. destruct p; simpl; cmp_cases; simpl; split; intros H';
    try discriminate; try reflexivity; try lia;
    try (destruct H' as [H'|[H' H'']]; try discriminate; lia);
    try (right; split; [reflexivity|lia]).
Qed.

Lemma lit_value_exact : forall p ds, digits ds -> lit_ok p ds = true ->
  lit_value p ds = denoted p ds /\ I32_MIN <= lit_value p ds <= I32_MAX.
Proof.
  intros p ds Hd. pose proof (dec_nonneg ds (proj2 Hd)) as Hnn.
  unfold lit_ok, lit_value, lit_ok_of, lit_value_of, denoted, min_form.
  rewrite (process_raw_spec p ds Hd).
  unfold MAXI32_PLUS1, I32_MAX, I32_MIN in *.
  destruct p; simpl; cmp_cases; simpl; intros H'; try discriminate;
    try (rewrite (parse_i32_pos_spec ds Hd)); try (rewrite (parse_i32_neg_spec ds Hd));
    unfold I32_MAX, I32_MIN; cmp_cases; try lia.
Qed.

(* the clause of the property: a literal outside the 32-bit range is diagnosed, wherever it stands *)
Lemma lit_out_of_range_rejected : forall p ds, digits ds -> ~ in_range p ds ->
  o_error (process_raw p ds) = true.
Proof.
  intros p ds Hd Hn. destruct (o_error (process_raw p ds)) eqn:E; [reflexivity|].
  exfalso. apply Hn. apply (lit_gate p ds Hd). unfold lit_ok, lit_ok_of. rewrite E. reflexivity.
Qed.

(* ------------------------------------------------------------------ HISTORICAL: the gate before the repair *)

(* outside the known class the pinned gate is exact as well *)
Lemma old_lit_gate_outside_known : forall p ds, digits ds -> Known_C06_lit p ds = false ->
  (lit_ok_old p ds = true <-> in_range p ds).
Proof.
  intros p ds Hd. unfold lit_ok_old, lit_ok_of, in_range, Known_C06_lit.
  rewrite (process_raw_old_spec p ds Hd).
  unfold MAXI32_PLUS1, I32_MAX. destruct p; simpl; cmp_cases; simpl; intros HK; split; intros H';
    try discriminate; try reflexivity; try lia;
    try (destruct H' as [H'|[H' H'']]; try discriminate; lia);
    try (right; split; [reflexivity|lia]).
Qed.

Lemma old_lit_value_outside_known : forall p ds, digits ds -> Known_C06_lit p ds = false ->
  lit_ok_old p ds = true ->
  lit_value_old p ds = denoted p ds /\ I32_MIN <= lit_value_old p ds <= I32_MAX.
Proof.
  intros p ds Hd. pose proof (dec_nonneg ds (proj2 Hd)) as Hnn.
  unfold lit_ok_old, lit_value_old, lit_ok_of, lit_value_of, denoted, min_form, Known_C06_lit.
  rewrite (process_raw_old_spec p ds Hd).
  unfold MAXI32_PLUS1, I32_MAX, I32_MIN in *.
  destruct p; simpl; cmp_cases; simpl; intros HK H'; try discriminate;
    try (rewrite (parse_i32_pos_spec ds Hd)); try (rewrite (parse_i32_neg_spec ds Hd));
    unfold I32_MAX, I32_MIN; cmp_cases; try lia.
Qed.

(* the gate never rejects a literal that is in range (no exclusion needed for this direction) *)
Lemma old_lit_gate_no_false_alarm : forall p ds, digits ds -> in_range p ds -> lit_ok_old p ds = true.
Proof.
  intros p ds Hd. unfold lit_ok_old, lit_ok_of, in_range.
  rewrite (process_raw_old_spec p ds Hd).
  unfold MAXI32_PLUS1, I32_MAX. intros [H|[-> H]]; simpl; cmp_cases; simpl; try reflexivity; try lia.
Qed.

(* inside the class the pinned gate is always wrong, and the value read is 0 *)
Lemma old_lit_gate_wrong_in_known : forall p ds, digits ds -> Known_C06_lit p ds = true ->
  lit_ok_old p ds = true /\ ~ in_range p ds /\ lit_value_old p ds = 0 /\ denoted p ds = 2147483648.
Proof.
  intros p ds Hd. unfold Known_C06_lit. destruct p; simpl; try discriminate.
  destruct (Z.eqb_spec (dec ds) MAXI32_PLUS1) as [E|]; [|discriminate]. intros _.
  unfold lit_ok_old, lit_value_old, lit_ok_of, lit_value_of, in_range, denoted, min_form.
  rewrite (process_raw_old_spec POther ds Hd). rewrite E. simpl.
  rewrite (parse_i32_pos_spec ds Hd). rewrite E. simpl.
  repeat split. intros [H|[H _]]; [unfold MAXI32_PLUS1, I32_MAX in H; lia | discriminate].
Qed.

Definition W2147483648 : list Z := [2;1;4;7;4;8;3;6;4;8].

Lemma old_lit_gate_refuted : exists p ds,
  digits ds /\ lit_ok_old p ds = true /\ ~ in_range p ds /\ lit_value_old p ds = 0 /\ denoted p ds = 2147483648.
Proof.
  exists POther, W2147483648.
  assert (Hd : digits W2147483648) by (apply digitsb_ok; vm_compute; reflexivity).
  split; [exact Hd|]. apply old_lit_gate_wrong_in_known; [exact Hd | vm_compute; reflexivity].
Qed.

(* the patch changes the gate exactly on the known class *)
Lemma repair_differs_only_in_known : forall p ds, digits ds ->
  (process_raw p ds = process_raw_old p ds <-> Known_C06_lit p ds = false).
Proof.
  intros p ds Hd. rewrite (process_raw_old_spec p ds Hd), (process_raw_spec p ds Hd).
  unfold Known_C06_lit. destruct p; simpl; cmp_cases; simpl; split; intros H';
    try reflexivity; try discriminate; try lia.
Qed.

(* ------------------------------------------------------------------ compile_sources *)

Section CompileGate.
  Context {Src Diag Code : Type}.
  Context (entries_exist : Src -> bool) (front : Src -> list Diag) (backend : Src -> Code).

  Lemma errors_no_code : forall s,
    front s <> [] -> forall c, compile_sources entries_exist front backend s <> COk c.
  Proof.
    intros s H c. unfold compile_sources. destruct (entries_exist s); simpl; [|discriminate].
    destruct (front s) as [|e es]; [congruence|]. simpl. discriminate.
  Qed.

  Lemma code_only_without_errors : forall s c,
    compile_sources entries_exist front backend s = COk c ->
    front s = [] /\ entries_exist s = true /\ c = backend s.
  Proof.
    intros s c. unfold compile_sources. destruct (entries_exist s); simpl; [|discriminate].
    destruct (front s) as [|e es]; simpl; [|discriminate].
    intros H. inversion H. auto.
  Qed.

  Lemma errors_reported_back : forall s, entries_exist s = true -> front s <> [] ->
    compile_sources entries_exist front backend s = CErr (front s).
  Proof.
    intros s He H. unfold compile_sources. rewrite He. simpl.
    destruct (front s) as [|e es]; [congruence|]. reflexivity.
  Qed.
End CompileGate.
