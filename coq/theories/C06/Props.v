(* C06 — the property theorems.  Nothing but statements closed by `exact`, their
   Print Assumptions, and non-vacuity examples.  Parsed by /verif/check.

   The clauses of C06 about operand/argument types rest on TypeKernel.Props (TK_assignable_identity,
   TK_mismatch_rejected), the clause about matches on C07.Props (C07_match_exhaustive_exact); both are
   re-checked by checks/c06.py.  Here: the integer-literal gate and the gate of compile_sources.

   FULL STATEMENT of the literal gate (what the property needs):

     forall p ds, digits ds -> (lit_ok p ds = true <-> in_range p ds)
     forall p ds, digits ds -> lit_ok p ds = true ->
        lit_value p ds = denoted p ds /\ I32_MIN <= lit_value p ds <= I32_MAX

   It is FALSE of the faithful model of the pinned lexer (C06_lit_gate_refuted: the literal 2147483648
   after any token other than `-` passes the gate and is read as 0).  It is proved (a) for the pinned
   model outside the precise class Known_C06_lit, which is shown to be exactly the set of inputs on
   which the pinned gate is wrong, and (b) at full strength for the model of the repaired lexer
   (process_raw_patched).  checks/c06.py establishes on every run which of the two models the code in
   /repo agrees with. *)
From Coq Require Import List ZArith Bool Lia.
Import ListNotations.
From SV Require Import C06.Model C06.Proofs.
Open Scope Z_scope.

(* ---- the pinned lexer ---- *)

Theorem C06_lit_gate_refuted : exists p ds,
  digits ds /\ lit_ok p ds = true /\ ~ in_range p ds /\ lit_value p ds = 0 /\ denoted p ds = 2147483648.
Proof. exact lit_gate_refuted. Qed.

Theorem C06_lit_gate_outside_known : forall p ds, digits ds -> Known_C06_lit p ds = false ->
  (lit_ok p ds = true <-> in_range p ds).
Proof. exact lit_gate_outside_known. Qed.

Theorem C06_lit_value_outside_known : forall p ds, digits ds -> Known_C06_lit p ds = false ->
  lit_ok p ds = true ->
  lit_value p ds = denoted p ds /\ I32_MIN <= lit_value p ds <= I32_MAX.
Proof. exact lit_value_outside_known. Qed.

(* the class is precise: on every member the pinned gate accepts an out-of-range literal and reads 0 *)
Theorem C06_lit_known_class_exact : forall p ds, digits ds -> Known_C06_lit p ds = true ->
  lit_ok p ds = true /\ ~ in_range p ds /\ lit_value p ds = 0 /\ denoted p ds = 2147483648.
Proof. exact lit_gate_wrong_in_known. Qed.

(* the gate never rejects a literal that is in range *)
Theorem C06_lit_gate_no_false_alarm : forall p ds, digits ds -> in_range p ds -> lit_ok p ds = true.
Proof. exact lit_gate_no_false_alarm. Qed.

(* ---- the repaired lexer: the full statement ---- *)

Theorem C06_lit_gate_patched : forall p ds, digits ds ->
  (lit_ok_patched p ds = true <-> in_range p ds).
Proof. exact lit_gate_patched. Qed.

Theorem C06_lit_value_patched : forall p ds, digits ds -> lit_ok_patched p ds = true ->
  lit_value_patched p ds = denoted p ds /\ I32_MIN <= lit_value_patched p ds <= I32_MAX.
Proof. exact lit_value_patched_exact. Qed.

Theorem C06_patch_changes_only_known : forall p ds, digits ds ->
  (process_raw_patched p ds = process_raw p ds <-> Known_C06_lit p ds = false).
Proof. exact patched_differs_only_in_known. Qed.

(* ---- the step-by-step checked parsers of the Rust standard library have the expected closed forms ---- *)

Theorem C06_parse_i64_exact : forall ds, digits ds ->
  parse_i64 ds = if dec ds <=? I64_MAX then Some (dec ds) else None.
Proof. exact parse_i64_spec. Qed.

Theorem C06_parse_i32_exact : forall ds, digits ds ->
  parse_i32 false ds = (if dec ds <=? I32_MAX then Some (dec ds) else None) /\
  parse_i32 true ds = (if I32_MIN <=? - dec ds then Some (- dec ds) else None).
Proof. intros ds H. exact (conj (parse_i32_pos_spec ds H) (parse_i32_neg_spec ds H)). Qed.

(* ---- compile_sources: a non-empty error set means no code ---- *)

Theorem C06_errors_no_code : forall (Src Diag Code : Type)
  (entries_exist : Src -> bool) (front : Src -> list Diag) (backend : Src -> Code) (s : Src),
  front s <> [] -> forall c, compile_sources entries_exist front backend s <> COk c.
Proof. exact (@errors_no_code). Qed.

Theorem C06_code_only_without_errors : forall (Src Diag Code : Type)
  (entries_exist : Src -> bool) (front : Src -> list Diag) (backend : Src -> Code) (s : Src) (c : Code),
  compile_sources entries_exist front backend s = COk c ->
  front s = [] /\ entries_exist s = true /\ c = backend s.
Proof. exact (@code_only_without_errors). Qed.

Theorem C06_errors_reported_back : forall (Src Diag Code : Type)
  (entries_exist : Src -> bool) (front : Src -> list Diag) (backend : Src -> Code) (s : Src),
  entries_exist s = true -> front s <> [] ->
  compile_sources entries_exist front backend s = CErr (front s).
Proof. exact (@errors_reported_back). Qed.

(* ---- non-vacuity ---- *)

Definition D (n : Z) : list Z :=        (* decimal digits of a small literal, for the examples *)
  match n with
  | 2147483647 => [2;1;4;7;4;8;3;6;4;7]
  | 2147483648 => [2;1;4;7;4;8;3;6;4;8]
  | 2147483649 => [2;1;4;7;4;8;3;6;4;9]
  | 99999999999 => [9;9;9;9;9;9;9;9;9;9;9]
  | _ => [0]
  end.

Example C06_lit_nonvacuous :
  (* 2147483647 anywhere: accepted, read exactly *)
  lit_ok POther (D 2147483647) = true /\ lit_value POther (D 2147483647) = 2147483647 /\
  (* -2147483648: merged, read as the minimum *)
  lit_ok PMinus (D 2147483648) = true /\ lit_value PMinus (D 2147483648) = -2147483648 /\
  o_merged (process_raw PMinus (D 2147483648)) = true /\
  (* 2147483648 as the first token of a file, 2147483649 and 99999999999 anywhere: rejected *)
  lit_ok PNone (D 2147483648) = false /\ lit_ok PMinus (D 2147483649) = false /\
  lit_ok POther (D 99999999999) = false /\
  (* more than 19 digits: the i64 parse already fails *)
  parse_i64 (repeat 9 20) = None /\ lit_ok POther (repeat 9 20) = false /\
  (* the repaired gate rejects the witness of the pinned one *)
  lit_ok_patched POther (D 2147483648) = false /\ lit_ok_patched PMinus (D 2147483648) = true.
Proof. vm_compute. repeat split; reflexivity. Qed.

Example C06_compile_gate_nonvacuous :
  compile_sources (fun _ : nat => true) (fun n => if Nat.eqb n 0 then [] else [n]) (fun n => n) 0%nat = COk 0%nat /\
  compile_sources (fun _ : nat => true) (fun n => if Nat.eqb n 0 then [] else [n]) (fun n => n) 3%nat = CErr [3%nat] /\
  compile_sources (fun _ : nat => false) (fun n => @nil nat) (fun n => n) 0%nat = CErr [].
Proof. vm_compute. repeat split; reflexivity. Qed.

Print Assumptions C06_lit_gate_refuted.
Print Assumptions C06_lit_gate_outside_known.
Print Assumptions C06_lit_value_outside_known.
Print Assumptions C06_lit_known_class_exact.
Print Assumptions C06_lit_gate_no_false_alarm.
Print Assumptions C06_lit_gate_patched.
Print Assumptions C06_lit_value_patched.
Print Assumptions C06_patch_changes_only_known.
Print Assumptions C06_parse_i64_exact.
Print Assumptions C06_parse_i32_exact.
Print Assumptions C06_errors_no_code.
Print Assumptions C06_code_only_without_errors.
Print Assumptions C06_errors_reported_back.
