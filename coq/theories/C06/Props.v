(* C06 — the property theorems.  Nothing but statements closed by `exact`, their
   Print Assumptions, and non-vacuity examples.  Parsed by /verif/check.

   The clauses of C06 about operand/argument types rest on TypeKernel.Props (TK_assignable_identity,
   TK_mismatch_rejected), the clause about matches on C07.Props (C07_match_exhaustive_exact), the clause
   about unbound names on C15.Props (C15_lookup_unbound); all are re-checked by checks/c06.py.
   Here: the integer-literal gate of the lexer and the gate of compile_sources.

   The literal gate is stated at full strength about the model of the code that is in /repo
   (process_raw; lexer.rs after the repair 9eaf9b5).  The gate as it was before the repair
   (process_raw_old) is kept as a historical record: it is refuted, shown exact outside the precise
   class Known_C06_lit, and the repair is shown to change it on that class only. *)
From Coq Require Import List ZArith Bool Lia.
Import ListNotations.
From SV Require Import C06.Model C06.Proofs.
Open Scope Z_scope.

(* ---- the integer-literal gate: full statement ---- *)

(* a literal passes the lexer without a diagnostic exactly when it is a 32-bit value:
   at most 2147483647, or 2147483648 directly after a `-` token *)
Theorem C06_lit_gate : forall p ds, digits ds -> (lit_ok p ds = true <-> in_range p ds).
Proof. exact lit_gate. Qed.

(* ... and then the value the parser stores is the value the text denotes, within the 32-bit range
   (in particular the `unwrap_or(0)` fallback of source_parser.rs is never taken silently) *)
Theorem C06_lit_value : forall p ds, digits ds -> lit_ok p ds = true ->
  lit_value p ds = denoted p ds /\ I32_MIN <= lit_value p ds <= I32_MAX.
Proof. exact lit_value_exact. Qed.

(* the clause of the property, contrapositive form: out of range -> "Not a 32-bit integer." *)
Theorem C06_lit_out_of_range_rejected : forall p ds, digits ds -> ~ in_range p ds ->
  o_error (process_raw p ds) = true.
Proof. exact lit_out_of_range_rejected. Qed.

(* ---- the step-by-step checked parsers of the Rust standard library have the expected closed forms ---- *)

Theorem C06_parse_i64_exact : forall ds, digits ds ->
  parse_i64 ds = if dec ds <=? I64_MAX then Some (dec ds) else None.
Proof. exact parse_i64_spec. Qed.

Theorem C06_parse_i32_exact : forall ds, digits ds ->
  parse_i32 false ds = (if dec ds <=? I32_MAX then Some (dec ds) else None) /\
  parse_i32 true ds = (if I32_MIN <=? - dec ds then Some (- dec ds) else None).
Proof. intros ds H. exact (conj (parse_i32_pos_spec ds H) (parse_i32_neg_spec ds H)). Qed.

(* ---- historical: the gate before the repair (finding C06-int-literal-gate, fixed) ---- *)

Theorem C06_old_lit_gate_refuted : exists p ds,
  digits ds /\ lit_ok_old p ds = true /\ ~ in_range p ds /\ lit_value_old p ds = 0 /\ denoted p ds = 2147483648.
Proof. exact old_lit_gate_refuted. Qed.

Theorem C06_old_lit_known_class_exact : forall p ds, digits ds -> Known_C06_lit p ds = true ->
  lit_ok_old p ds = true /\ ~ in_range p ds /\ lit_value_old p ds = 0 /\ denoted p ds = 2147483648.
Proof. exact old_lit_gate_wrong_in_known. Qed.

Theorem C06_old_lit_gate_outside_known : forall p ds, digits ds -> Known_C06_lit p ds = false ->
  (lit_ok_old p ds = true <-> in_range p ds).
Proof. exact old_lit_gate_outside_known. Qed.

(* the repair changed the function exactly on the known class *)
Theorem C06_patch_changes_only_known : forall p ds, digits ds ->
  (process_raw p ds = process_raw_old p ds <-> Known_C06_lit p ds = false).
Proof. exact repair_differs_only_in_known. Qed.

(* ---- compile_sources: a non-empty error set means no code ---- *)

Theorem C06_errors_no_code : forall (Src Diag Code : Type)
  (entries_exist : Src -> bool) (front : Src -> list Diag) (backend : Src -> Code) (s : Src),
  front s <> [] -> forall c, compile_sources entries_exist front backend s <> COk c.
Proof. exact (@errors_no_code). Qed.

Theorem C06_code_only_without_errors : forall (Src Diag Code : Type)
  (entries_exist : Src -> bool) (front : Src -> list Diag) (backend : Src -> Code) (s : Src) (c : Code),
  compile_sources entries_exist front backend s = COk c ->
  front s = [] /\ entries_exist s = true /\ c = backend s.
Proof. exact (@code_only_without_errors). Qed.

Theorem C06_errors_reported_back : forall (Src Diag Code : Type)
  (entries_exist : Src -> bool) (front : Src -> list Diag) (backend : Src -> Code) (s : Src),
  entries_exist s = true -> front s <> [] ->
  compile_sources entries_exist front backend s = CErr (front s).
Proof. exact (@errors_reported_back). Qed.

(* ---- non-vacuity ---- *)

Definition D (n : Z) : list Z :=        (* decimal digits of a few literals, for the examples *)
  match n with
  | 2147483647 => [2;1;4;7;4;8;3;6;4;7]
  | 2147483648 => [2;1;4;7;4;8;3;6;4;8]
  | 2147483649 => [2;1;4;7;4;8;3;6;4;9]
  | 99999999999 => [9;9;9;9;9;9;9;9;9;9;9]
  | _ => [0]
  end.

Example C06_lit_nonvacuous :
  (* 2147483647 anywhere: accepted, read exactly *)
  lit_ok POther (D 2147483647) = true /\ lit_value POther (D 2147483647) = 2147483647 /\
  (* -2147483648: merged, read as the minimum *)
  lit_ok PMinus (D 2147483648) = true /\ lit_value PMinus (D 2147483648) = -2147483648 /\
  o_merged (process_raw PMinus (D 2147483648)) = true /\
  (* 2147483648 not after `-` (first token of the file, or after any other token): rejected *)
  lit_ok PNone (D 2147483648) = false /\ lit_ok POther (D 2147483648) = false /\
  (* 2147483649 and 99999999999 anywhere: rejected *)
  lit_ok PMinus (D 2147483649) = false /\ lit_ok POther (D 99999999999) = false /\
  (* more than 19 digits: the i64 parse already fails *)
  parse_i64 (repeat 9 20) = None /\ lit_ok POther (repeat 9 20) = false /\
  (* the old gate let the witness through *)
  lit_ok_old POther (D 2147483648) = true /\ lit_value_old POther (D 2147483648) = 0.
Proof. vm_compute. repeat split; reflexivity. Qed.

Example C06_compile_gate_nonvacuous :
  compile_sources (fun _ : nat => true) (fun n => if Nat.eqb n 0 then [] else [n]) (fun n => n) 0%nat = COk 0%nat /\
  compile_sources (fun _ : nat => true) (fun n => if Nat.eqb n 0 then [] else [n]) (fun n => n) 3%nat = CErr [3%nat] /\
  compile_sources (fun _ : nat => false) (fun n => @nil nat) (fun n => n) 0%nat = CErr [].
Proof. vm_compute. repeat split; reflexivity. Qed.

Print Assumptions C06_lit_gate.
Print Assumptions C06_lit_value.
Print Assumptions C06_lit_out_of_range_rejected.
Print Assumptions C06_parse_i64_exact.
Print Assumptions C06_parse_i32_exact.
Print Assumptions C06_old_lit_gate_refuted.
Print Assumptions C06_old_lit_known_class_exact.
Print Assumptions C06_old_lit_gate_outside_known.
Print Assumptions C06_patch_changes_only_known.
Print Assumptions C06_errors_no_code.
Print Assumptions C06_code_only_without_errors.
Print Assumptions C06_errors_reported_back.
