(* C07 — glue for the correspondence check: concrete type environments, boolean versions
   of the theorems' hypotheses, and the verdicts the model predicts for the three
   entry points of the checker (match, destructuring let, if-let).  Definitions only. *)
From Coq Require Import List Arith Bool NArith.
Import ListNotations.
From SV Require Import C07.Pat C07.PatFuel C07.PatCex.

Definition tenv := list (tshape nat).
Definition shape_of (e : tenv) (t : nat) : tshape nat := nth t e (SOpaque nat).

(* cls -> (variant id, arity), read off the environment: H_variants holds by construction *)
Fixpoint variants_in (e : tenv) (cls : nat) : list (nat * nat) :=
  match e with
  | [] => []
  | SEnum _ c vs :: e' =>
      if Nat.eqb c cls then map (fun '(v, tys) => (v, length tys)) vs else variants_in e' cls
  | _ :: e' => variants_in e' cls
  end.

(* boolean H_variants: every enum shape of the environment agrees with variants_in *)
Fixpoint list_eqb {A} (f : A -> A -> bool) (a b : list A) : bool :=
  match a, b with
  | [], [] => true
  | x :: a', y :: b' => f x y && list_eqb f a' b'
  | _, _ => false
  end.
Definition pair_eqb (a b : nat * nat) : bool := Nat.eqb (fst a) (fst b) && Nat.eqb (snd a) (snd b).
Definition variants_okb (e : tenv) : bool :=
  forallb (fun s => match s with
                    | SEnum _ c vs => list_eqb pair_eqb (variants_in e c) (map (fun '(v, tys) => (v, length tys)) vs)
                    | _ => true
                    end) e.

(* boolean pat_ok *)
Fixpoint lookup_sig (v : nat) (vs : list (nat * list nat)) : option (list nat) :=
  match vs with [] => None | (v', tys) :: r => if Nat.eqb v v' then Some tys else lookup_sig v r end.
Definition ctor_sigb (e : tenv) (t : nat) (c : ctor) : option (list nat) :=
  match shape_of e t, c with
  | SEnum _ cls vs, Some (cls', v) => if Nat.eqb cls cls' then lookup_sig v vs else None
  | SStruct _ fs, None => Some fs
  | _, _ => None
  end.
Fixpoint pat_okb (e : tenv) (p : pat) (t : nat) {struct p} : bool :=
  match p with
  | PWild => true
  | PCtor c ps =>
      match ctor_sigb e t c with
      | Some tys =>
          (fix go (ps : list pat) (tys : list nat) : bool :=
             match ps, tys with
             | [], [] => true
             | p :: ps', ty :: tys' => pat_okb e p ty && go ps' tys'
             | _, _ => false
             end) ps tys
      | None => false
      end
  | POr ps => forallb (fun p => pat_okb e p t) ps
  end.

Inductive kind := KMatch | KLet | KIfLet.

Record case := mkCase {
  c_env : tenv; c_ty : nat; c_kind : kind; c_pats : list pat;
  c_flagged : bool   (* implementation: NonExhaustiveMatch (match/let) or UselessPattern (if-let) reported *)
}.

Definition fuel_for (P : matrix) (q : row) : nat := 50 + 4 * Phi P q.

(* Some true = the checker must report; None = model could not decide (out of fuel) *)
Definition predict (c : case) : option bool :=
  let vof := variants_in (c_env c) in
  let P := map (fun p => [p]) (c_pats c) in
  match c_kind c with
  | KIfLet =>
      match useful vof (fuel_for P [PWild]) P [PWild] with
      | Some b => Some (negb b)
      | None => None
      end
  | _ =>
      match cex vof (fuel_for P [PWild]) P 1 with
      | Some (Some _) => Some true
      | Some None => Some false
      | None => None
      end
  end.

(* the model's own second opinion for match/let: usefulness of a wildcard row *)
Definition predict_by_useful (c : case) : option bool :=
  let vof := variants_in (c_env c) in
  let P := map (fun p => [p]) (c_pats c) in
  useful vof (fuel_for P [PWild]) P [PWild].

Definition hyps_ok (c : case) : bool :=
  variants_okb (c_env c) && forallb (fun p => pat_okb (c_env c) p (c_ty c)) (c_pats c).

(* 0 = agree; 1 = disagree; 2 = model out of fuel; 3 = hypotheses of the theorems not met;
   4 = cex and useful disagree inside the model *)
Definition verdict (c : case) : N :=
  if negb (hyps_ok c) then 3%N else
  match predict c with
  | None => 2%N
  | Some b =>
      if negb (Bool.eqb b (c_flagged c)) then 1%N
      else match c_kind c, predict_by_useful c with
           | KIfLet, _ => 0%N
           | _, Some u => if Bool.eqb u b then 0%N else 4%N
           | _, None => 2%N
           end
  end.

Fixpoint bad (i : N) (cs : list case) : list (N * N) :=
  match cs with
  | [] => []
  | c :: cs' => match verdict c with
                | 0%N => bad (i + 1) cs'
                | k => (i, k) :: bad (i + 1) cs'
                end
  end.
