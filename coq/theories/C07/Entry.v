(* C07 — the checker's entry points (single-column matrices), as corollaries of the
   matrix theorems: match / destructuring let exhaustiveness and if-let irrefutability. *)
From Coq Require Import List Arith Bool Lia.
Import ListNotations.
From SV Require Import C07.Pat C07.PatFuel C07.PatCex C07.PatCexFuel C07.PatCexComplete C07.PatInhabited C07.Corr.

Section Entry.
  Variable ty : Type.
  Variable shape : ty -> tshape ty.
  Variable variants_of : nat -> list (nat * nat).
  Hypothesis H_variants : forall t cls vs, shape t = SEnum ty cls vs ->
    variants_of cls = map (fun '(v, tys) => (v, length tys)) vs.
  Hypothesis H_inhabited : forall t, exists v, val_ok ty shape v t.

  Definition column (ps : list pat) : matrix := map (fun p => [p]) ps.
  Definition covers (ps : list pat) (v : val) : bool := existsb (fun p => matches p v) ps.

  Lemma any_row_column ps v : any_row (column ps) [v] = covers ps v.
  Proof.
    unfold any_row, column, covers. induction ps as [|p ps IH]; cbn; auto.
    rewrite IH. now rewrite andb_true_r.
  Qed.

  Lemma column_ok ps t : Forall (fun p => pat_ok ty shape p t) ps -> Forall (row_ok ty shape [t]) (column ps).
  Proof.
    intros H. unfold column. apply Forall_forall. intros r Hr. apply in_map_iff in Hr.
    destruct Hr as [p [<- Hp]]. rewrite Forall_forall in H. cbn. auto.
  Qed.

  (* match / let: the arms are exhaustive iff a further wildcard arm would be useless *)
  Theorem match_exhaustive_exact : forall fuel ps t b,
    useful variants_of fuel (column ps) [PWild] = Some b ->
    Forall (fun p => pat_ok ty shape p t) ps ->
    (b = false <-> forall v, val_ok ty shape v t -> covers ps v = true).
  Proof.
    intros fuel ps t b Hu Hok.
    pose proof (useful_exact ty shape variants_of H_variants H_inhabited fuel (column ps) [PWild] [t] b Hu
                  (column_ok ps t Hok)) as E.
    assert (Hq : row_ok ty shape [t] [PWild]) by (cbn; auto).
    assert (Hne : allP no_empty_or [PWild]) by (cbn; auto).
    specialize (E Hq Hne). split.
    - intros -> v Hv. destruct (covers ps v) eqn:C; auto. exfalso.
      assert (W : witness ty shape [t] (column ps) [PWild]).
      { exists [v]. split; [cbn; auto|]. split; [reflexivity|]. now rewrite any_row_column. }
      apply E in W. discriminate.
    - intros H. destruct b; auto. exfalso. destruct (proj1 E eq_refl) as [vs [Hvs [_ Hn]]].
      destruct vs as [|v [|v' vs]]; cbn in Hvs; try tauto. destruct Hvs as [Hv _].
      rewrite any_row_column in Hn. rewrite (H v Hv) in Hn. discriminate.
  Qed.

  (* if-let: flagged as irrefutable exactly when the pattern matches every value *)
  Theorem iflet_useless_exact : forall fuel p t b,
    useful variants_of fuel [[p]] [PWild] = Some b -> pat_ok ty shape p t ->
    (b = false <-> forall v, val_ok ty shape v t -> matches p v = true).
  Proof.
    intros fuel p t b Hu Hok.
    assert (F : Forall (fun p => pat_ok ty shape p t) [p]) by (constructor; auto).
    pose proof (match_exhaustive_exact fuel [p] t b Hu F) as E.
    unfold covers in E. cbn in E. split.
    - intros Hb v Hv. pose proof (proj1 E Hb v Hv) as C. now rewrite orb_false_r in C.
    - intros H. apply E. intros v Hv. now rewrite orb_false_r, H.
  Qed.

  (* the reported counterexample: every well-typed instance of it is matched by no arm *)
  Theorem match_cex_valid : forall fuel ps t c,
    cex variants_of fuel (column ps) 1 = Some (Some [c]) ->
    Forall (fun p => pat_ok ty shape p t) ps ->
    forall v, val_ok ty shape v t -> matches c v = true -> covers ps v = false.
  Proof.
    intros fuel ps t c Hc Hok v Hv Hm.
    pose proof (cex_valid ty shape variants_of fuel (column ps) 1 [t] [c] Hc (column_ok ps t Hok) eq_refl [v]) as V.
    rewrite any_row_column in V. apply V; [cbn; auto|]. cbn. now rewrite Hm.
  Qed.

  (* the usefulness recursion terminates within an explicit bound *)
  Theorem match_fuel_sufficient : forall fuel ps t,
    Forall (fun p => pat_ok ty shape p t) ps -> Phi (column ps) [PWild] < fuel ->
    useful variants_of fuel (column ps) [PWild] <> None.
  Proof.
    intros fuel ps t Hok Hlt. eapply (fuel_sufficient ty shape variants_of fuel (column ps) [PWild] [t]); auto.
    - now apply column_ok.
    - cbn; auto.
  Qed.
End Entry.

(* ------------------------------------------------------------------ *)
(* The counterexample entry point (incomplete_counterexample: one column): completeness, explicit fuel,
   and what survives without the inhabitation hypothesis. *)
Section EntryCex.
  Variable ty : Type.
  Variable shape : ty -> tshape ty.
  Variable variants_of : nat -> list (nat * nat).
  Hypothesis H_variants : forall t cls vs, shape t = SEnum ty cls vs ->
    variants_of cls = map (fun '(v, tys) => (v, length tys)) vs.

  Lemma covers_all_iff ps t :
    (forall vs, vals_ok ty shape [t] vs -> any_row (column ps) vs = true) <->
    (forall v, val_ok ty shape v t -> covers ps v = true).
  Proof.
    split.
    - intros H v Hv. rewrite <- any_row_column. apply H. cbn; auto.
    - intros H vs Hvs. destruct vs as [|v [|v' vs]]; cbn in Hvs; try tauto.
      rewrite any_row_column. apply H. tauto.
  Qed.

  (* the fuel bound, entry point form: any two sufficient fuels give the same, defined, answer *)
  Theorem match_cex_fuel_sufficient : forall f1 f2 ps t,
    Forall (fun p => pat_ok ty shape p t) ps ->
    cex_fuel (column ps) 1 <= f1 -> cex_fuel (column ps) 1 <= f2 ->
    cex variants_of f1 (column ps) 1 = cex variants_of f2 (column ps) 1 /\
    cex variants_of f1 (column ps) 1 <> None.
  Proof.
    intros f1 f2 ps t Hok H1 H2.
    exact (cex_fuel_stable ty shape variants_of (column ps) [t] f1 f2 (column_ok ty shape ps t Hok) H1 H2).
  Qed.

  (* acceptance is sound for EVERY type environment (no inhabitation hypothesis) *)
  Theorem match_accept_sound_any : forall fuel ps t,
    cex variants_of fuel (column ps) 1 = Some None ->
    Forall (fun p => pat_ok ty shape p t) ps ->
    forall v, val_ok ty shape v t -> covers ps v = true.
  Proof.
    intros fuel ps t Hc Hok. apply covers_all_iff.
    exact (cex_none_exhaustive ty shape variants_of H_variants fuel (column ps) [t] Hc (column_ok ty shape ps t Hok)).
  Qed.

  Hypothesis H_inhabited : forall t, exists v, val_ok ty shape v t.

  (* completeness + soundness of the reported counterexample, with the explicit fuel *)
  Theorem match_cex_complete : forall fuel ps t,
    Forall (fun p => pat_ok ty shape p t) ps -> cex_fuel (column ps) 1 <= fuel ->
    exists r, cex variants_of fuel (column ps) 1 = Some r /\
      (r = None <-> useful variants_of fuel (column ps) [PWild] = Some false) /\
      (r = None <-> forall v, val_ok ty shape v t -> covers ps v = true) /\
      (forall pv, r = Some pv -> exists c, pv = [c] /\ pat_ok ty shape c t /\
         (exists v, val_ok ty shape v t /\ matches c v = true) /\
         (forall v, val_ok ty shape v t -> matches c v = true -> covers ps v = false)).
  Proof.
    intros fuel ps t Hok Hle.
    destruct (cex_complete ty shape variants_of H_variants H_inhabited fuel (column ps) [t]
                (column_ok ty shape ps t Hok) Hle) as [r [Hr [Hu [Hex Hpv]]]].
    exists r. split; [exact Hr|]. split; [exact Hu|]. split; [rewrite Hex; apply covers_all_iff|].
    intros pv ->. destruct (Hpv pv eq_refl) as [Hty [[vs [Hvs Hm]] Hval]].
    destruct pv as [|c [|c' pv]]; cbn in Hty; try tauto. destruct Hty as [Hc _].
    exists c. split; [reflexivity|]. split; [exact Hc|]. split.
    - destruct vs as [|v [|v' vs]]; cbn in Hvs; try tauto. exists v. split; [tauto|].
      cbn in Hm. now rewrite andb_true_r in Hm.
    - intros v Hv Hmv. rewrite <- any_row_column. apply Hval; [cbn; auto|]. cbn. now rewrite Hmv.
  Qed.
End EntryCex.

(* ------------------------------------------------------------------ *)
(* The functions the correspondence check evaluates (Corr.predict, Corr.predict_by_useful, Corr.hyps_ok) *)

Lemma lookup_sig_eq v vs : lookup_sig v vs = lookup v vs.
Proof. induction vs as [|[v' tys] vs IH]; cbn; auto. now rewrite IH. Qed.

Lemma ctor_sigb_eq e t c : ctor_sigb e t c = ctor_sig nat (shape_of e) t c.
Proof.
  unfold ctor_sigb, ctor_sig. destruct (shape_of e t); auto.
  destruct c as [[cls' v]|]; auto. destruct (Nat.eqb cls cls'); auto. apply lookup_sig_eq.
Qed.

Lemma pat_okb_sound e p : forall t, pat_okb e p t = true -> pat_ok nat (shape_of e) p t.
Proof.
  induction p as [|c ps IH|ps IH] using pat_ind'; intros t H; cbn [pat_okb pat_ok] in *; auto.
  - rewrite ctor_sigb_eq in H. destruct (ctor_sig nat (shape_of e) t c) as [tys|]; [|discriminate].
    exists tys. split; auto. revert tys H.
    induction ps as [|p ps IHps]; intros [|t' tys] H; cbn; try discriminate; auto.
    inversion IH as [|? ? Hp Hps]; subst. apply andb_prop in H. destruct H as [H1 H2]. split; auto.
  - apply allP_Forall. rewrite Forall_forall in *. intros p Hin.
    rewrite forallb_forall in H. auto.
Qed.

Lemma list_eqb_pair_eq a : forall b, list_eqb pair_eqb a b = true -> a = b.
Proof.
  induction a as [|[x1 x2] a IH]; intros [|[y1 y2] b] H; cbn in H; try discriminate; auto.
  apply andb_prop in H. destruct H as [H1 H2]. unfold pair_eqb in H1. cbn in H1.
  apply andb_prop in H1. destruct H1 as [E1 E2]. apply Nat.eqb_eq in E1, E2. subst.
  f_equal. auto.
Qed.

Lemma variants_okb_sound e : variants_okb e = true ->
  forall t cls vs, shape_of e t = SEnum nat cls vs ->
    variants_in e cls = map (fun '(v, tys) => (v, length tys)) vs.
Proof.
  intros H t cls vs Hs. unfold variants_okb in H. rewrite forallb_forall in H.
  unfold shape_of in Hs. destruct (nth_in_or_default t e (SOpaque nat)) as [Hin|Hd]; [|congruence].
  rewrite Hs in Hin. specialize (H _ Hin). cbn in H. now apply list_eqb_pair_eq.
Qed.

Lemma fuel_for_enough P : cex_fuel P 1 <= fuel_for P [PWild].
Proof. unfold cex_fuel, fuel_for, Phi. cbn [Ssum sz]. lia. Qed.

(* the fuel is kept abstract in the two auxiliary lemmas so that no proof term ever computes on it *)
Lemma verdict_of_cex_agree vo f1 f2 P r u :
  cex vo f1 P 1 = Some r -> useful vo f2 P [PWild] = Some u ->
  (match r with Some _ => true | None => false end) = u.
Proof.
  intros E Hu. pose proof (cex_useful_agree vo f1 f2 P 1 r u E Hu) as [A1 A2].
  destruct r, u; auto; [specialize (A2 eq_refl)|specialize (A1 eq_refl)]; discriminate.
Qed.

Definition verdict_of (r : option (option row)) : option bool :=
  match r with Some (Some _) => Some true | Some None => Some false | None => None end.

Lemma predict_unfold c :
  predict c = match c_kind c with
              | KIfLet => match predict_by_useful c with Some b => Some (negb b) | None => None end
              | _ => verdict_of (cex (variants_in (c_env c)) (fuel_for (column (c_pats c)) [PWild]) (column (c_pats c)) 1)
              end.
Proof. unfold predict, predict_by_useful, verdict_of, column. destruct (c_kind c); reflexivity. Qed.

Lemma predict_by_useful_unfold c :
  predict_by_useful c = useful (variants_in (c_env c)) (fuel_for (column (c_pats c)) [PWild]) (column (c_pats c)) [PWild].
Proof. reflexivity. Qed.

(* inside the model, the two verdict functions of the correspondence check can never disagree (verdict 4 of
   Corr.verdict is impossible) - no hypothesis at all *)
Theorem predict_agree : forall c b u, c_kind c <> KIfLet ->
  predict c = Some b -> predict_by_useful c = Some u -> u = b.
Proof.
  intros c b u Hk Hp Hu. rewrite predict_unfold in Hp. rewrite predict_by_useful_unfold in Hu.
  revert Hp Hu. generalize (fuel_for (column (c_pats c)) [PWild]) as f. generalize (column (c_pats c)) as P.
  intros P f Hp Hu.
  assert (Hc : verdict_of (cex (variants_in (c_env c)) f P 1) = Some b)
    by (destruct (c_kind c); [exact Hp|exact Hp|congruence]).
  unfold verdict_of in Hc.
  destruct (cex (variants_in (c_env c)) f P 1) as [r|] eqn:E; [|discriminate].
  rewrite <- (verdict_of_cex_agree _ _ _ _ _ _ E Hu).
  destruct r; inversion Hc; reflexivity.
Qed.

Lemma predict_match_exact_aux : forall e t ps f, variants_okb e = true ->
  Forall (fun p => pat_ok nat (shape_of e) p t) ps ->
  (forall t, exists v, val_ok nat (shape_of e) v t) ->
  cex_fuel (column ps) 1 <= f ->
  exists b, verdict_of (cex (variants_in e) f (column ps) 1) = Some b /\
    useful (variants_in e) f (column ps) [PWild] = Some b /\
    (b = false <-> forall v, val_ok nat (shape_of e) v t -> covers ps v = true).
Proof.
  intros e t ps f Hv Hok Hinh Hle.
  destruct (match_cex_complete nat (shape_of e) (variants_in e) (variants_okb_sound _ Hv) Hinh f ps t Hok Hle)
    as [r [Hr [Hu [Hex _]]]].
  destruct (useful (variants_in e) f (column ps) [PWild]) as [u|] eqn:Eu.
  - pose proof (verdict_of_cex_agree _ _ _ _ _ _ Hr Eu) as A.
    exists u. rewrite Hr. split; [destruct r; cbn in *; congruence|]. split; [reflexivity|].
    rewrite <- Hex. subst u. destruct r; split; intros; try discriminate; auto.
  - exfalso. eapply (fuel_sufficient nat (shape_of e) (variants_in e) f (column ps) [PWild] [t]);
      [apply (column_ok nat (shape_of e) _ _ Hok)|cbn; auto| |exact Eu].
    rewrite cex_fuel_Phi in Hle. cbn [repeat] in Hle. lia.
Qed.

(* for match / let cases that pass the boolean hypothesis check, over inhabited types: the model always answers at
   the fuel the check uses (verdict 2 is impossible), both verdict functions give the same answer, and the answer
   is "flagged" iff some value of the scrutinee type is matched by no arm *)
Theorem predict_match_exact : forall c, c_kind c <> KIfLet -> hyps_ok c = true ->
  (forall t, exists v, val_ok nat (shape_of (c_env c)) v t) ->
  exists b, predict c = Some b /\ predict_by_useful c = Some b /\
    (b = false <-> forall v, val_ok nat (shape_of (c_env c)) v (c_ty c) -> covers (c_pats c) v = true).
Proof.
  intros c Hk Hh Hinh. unfold hyps_ok in Hh. apply andb_prop in Hh. destruct Hh as [Hv Hp].
  assert (Hok : Forall (fun p => pat_ok nat (shape_of (c_env c)) p (c_ty c)) (c_pats c)).
  { apply Forall_forall. intros p Hin. rewrite forallb_forall in Hp. apply pat_okb_sound. auto. }
  destruct (predict_match_exact_aux (c_env c) (c_ty c) (c_pats c) _ Hv Hok Hinh (fuel_for_enough (column (c_pats c))))
    as [b [H1 [H2 H3]]].
  exists b. rewrite predict_unfold, predict_by_useful_unfold.
  split; [|split; [exact H2|exact H3]].
  destruct (c_kind c); [exact H1|exact H1|congruence].
Qed.
