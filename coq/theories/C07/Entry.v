(* C07 — the checker's entry points (single-column matrices), as corollaries of the
   matrix theorems: match / destructuring let exhaustiveness and if-let irrefutability. *)
From Coq Require Import List Arith Bool Lia.
Import ListNotations.
From SV Require Import C07.Pat C07.PatFuel C07.PatCex.

Section Entry.
  Variable ty : Type.
  Variable shape : ty -> tshape ty.
  Variable variants_of : nat -> list (nat * nat).
  Hypothesis H_variants : forall t cls vs, shape t = SEnum ty cls vs ->
    variants_of cls = map (fun '(v, tys) => (v, length tys)) vs.
  Hypothesis H_inhabited : forall t, exists v, val_ok ty shape v t.

  Definition column (ps : list pat) : matrix := map (fun p => [p]) ps.
  Definition covers (ps : list pat) (v : val) : bool := existsb (fun p => matches p v) ps.

  Lemma any_row_column ps v : any_row (column ps) [v] = covers ps v.
  Proof.
    unfold any_row, column, covers. induction ps as [|p ps IH]; cbn; auto.
    rewrite IH. now rewrite andb_true_r.
  Qed.

  Lemma column_ok ps t : Forall (fun p => pat_ok ty shape p t) ps -> Forall (row_ok ty shape [t]) (column ps).
  Proof.
    intros H. unfold column. apply Forall_forall. intros r Hr. apply in_map_iff in Hr.
    destruct Hr as [p [<- Hp]]. rewrite Forall_forall in H. cbn. auto.
  Qed.

  (* match / let: the arms are exhaustive iff a further wildcard arm would be useless *)
  Theorem match_exhaustive_exact : forall fuel ps t b,
    useful variants_of fuel (column ps) [PWild] = Some b ->
    Forall (fun p => pat_ok ty shape p t) ps ->
    (b = false <-> forall v, val_ok ty shape v t -> covers ps v = true).
  Proof.
    intros fuel ps t b Hu Hok.
    pose proof (useful_exact ty shape variants_of H_variants H_inhabited fuel (column ps) [PWild] [t] b Hu
                  (column_ok ps t Hok)) as E.
    assert (Hq : row_ok ty shape [t] [PWild]) by (cbn; auto).
    assert (Hne : allP no_empty_or [PWild]) by (cbn; auto).
    specialize (E Hq Hne). split.
    - intros -> v Hv. destruct (covers ps v) eqn:C; auto. exfalso.
      assert (W : witness ty shape [t] (column ps) [PWild]).
      { exists [v]. split; [cbn; auto|]. split; [reflexivity|]. now rewrite any_row_column. }
      apply E in W. discriminate.
    - intros H. destruct b; auto. exfalso. destruct (proj1 E eq_refl) as [vs [Hvs [_ Hn]]].
      destruct vs as [|v [|v' vs]]; cbn in Hvs; try tauto. destruct Hvs as [Hv _].
      rewrite any_row_column in Hn. rewrite (H v Hv) in Hn. discriminate.
  Qed.

  (* if-let: flagged as irrefutable exactly when the pattern matches every value *)
  Theorem iflet_useless_exact : forall fuel p t b,
    useful variants_of fuel [[p]] [PWild] = Some b -> pat_ok ty shape p t ->
    (b = false <-> forall v, val_ok ty shape v t -> matches p v = true).
  Proof.
    intros fuel p t b Hu Hok.
    assert (F : Forall (fun p => pat_ok ty shape p t) [p]) by (constructor; auto).
    pose proof (match_exhaustive_exact fuel [p] t b Hu F) as E.
    unfold covers in E. cbn in E. split.
    - intros Hb v Hv. pose proof (proj1 E Hb v Hv) as C. now rewrite orb_false_r in C.
    - intros H. apply E. intros v Hv. now rewrite orb_false_r, H.
  Qed.

  (* the reported counterexample: every well-typed instance of it is matched by no arm *)
  Theorem match_cex_valid : forall fuel ps t c,
    cex variants_of fuel (column ps) 1 = Some (Some [c]) ->
    Forall (fun p => pat_ok ty shape p t) ps ->
    forall v, val_ok ty shape v t -> matches c v = true -> covers ps v = false.
  Proof.
    intros fuel ps t c Hc Hok v Hv Hm.
    pose proof (cex_valid ty shape variants_of fuel (column ps) 1 [t] [c] Hc (column_ok ps t Hok) eq_refl [v]) as V.
    rewrite any_row_column in V. apply V; [cbn; auto|]. cbn. now rewrite Hm.
  Qed.

  (* the usefulness recursion terminates within an explicit bound *)
  Theorem match_fuel_sufficient : forall fuel ps t,
    Forall (fun p => pat_ok ty shape p t) ps -> Phi (column ps) [PWild] < fuel ->
    useful variants_of fuel (column ps) [PWild] <> None.
  Proof.
    intros fuel ps t Hok Hlt. eapply (fuel_sufficient ty shape variants_of fuel (column ps) [PWild] [t]); auto.
    - now apply column_ok.
    - cbn; auto.
  Qed.
End Entry.
