(* C07 — model and proofs (from the design-round prototype): Maranget usefulness as implemented in
   crates/samlang-checker/src/pattern_matching.rs, partial correctness by
   induction on fuel. *)
From Coq Require Import List Arith Bool Lia.
Import ListNotations.

Definition vctor := (nat * nat)%type. (* class id, variant id *)
Definition ctor := option vctor.

Definition vctor_eqb (a b : vctor) : bool :=
  Nat.eqb (fst a) (fst b) && Nat.eqb (snd a) (snd b).

Lemma vctor_eqb_spec a b : reflect (a = b) (vctor_eqb a b).
Proof.
  destruct a as [a1 a2], b as [b1 b2]; unfold vctor_eqb; cbn.
  destruct (Nat.eqb_spec a1 b1), (Nat.eqb_spec a2 b2); cbn; constructor; congruence.
Qed.

Definition ctor_eqb (a b : ctor) : bool :=
  match a, b with
  | Some x, Some y => vctor_eqb x y
  | None, None => true
  | _, _ => false
  end.

Lemma ctor_eqb_spec a b : reflect (a = b) (ctor_eqb a b).
Proof.
  destruct a, b; cbn; try (constructor; congruence).
  destruct (vctor_eqb_spec v v0); constructor; congruence.
Qed.

(* the test the Rust code performs when specialising a row *)
Definition ctor_skip (row_c q_c : ctor) : bool :=
  match row_c, q_c with
  | Some a, Some b => negb (vctor_eqb a b)
  | _, _ => false
  end.

Inductive pat :=
| PWild
| PCtor (c : ctor) (ps : list pat)
| POr (ps : list pat).

Inductive val :=
| VCtor (c : ctor) (vs : list val)
| VOpaque (n : nat).

Section PatInd.
  Variable P : pat -> Prop.
  Hypothesis HW : P PWild.
  Hypothesis HC : forall c ps, Forall P ps -> P (PCtor c ps).
  Hypothesis HO : forall ps, Forall P ps -> P (POr ps).
  Fixpoint pat_ind' (p : pat) : P p :=
    match p with
    | PWild => HW
    | PCtor c ps => HC c ps ((fix go l : Forall P l := match l with [] => Forall_nil _ | x :: xs => Forall_cons _ (pat_ind' x) (go xs) end) ps)
    | POr ps => HO ps ((fix go l : Forall P l := match l with [] => Forall_nil _ | x :: xs => Forall_cons _ (pat_ind' x) (go xs) end) ps)
    end.
End PatInd.

Fixpoint matches (p : pat) (v : val) {struct p} : bool :=
  match p with
  | PWild => true
  | PCtor c ps =>
      match v with
      | VCtor c' vs =>
          ctor_eqb c c' &&
          (fix go (ps : list pat) (vs : list val) : bool :=
             match ps, vs with
             | [], [] => true
             | p :: ps', v :: vs' => matches p v && go ps' vs'
             | _, _ => false
             end) ps vs
      | VOpaque _ => false
      end
  | POr ps => existsb (fun p => matches p v) ps
  end.

Fixpoint matches_vec (ps : list pat) (vs : list val) : bool :=
  match ps, vs with
  | [], [] => true
  | p :: ps', v :: vs' => matches p v && matches_vec ps' vs'
  | _, _ => false
  end.

Lemma matches_ctor c ps c' vs :
  matches (PCtor c ps) (VCtor c' vs) = ctor_eqb c c' && matches_vec ps vs.
Proof.
  cbn. destruct (ctor_eqb c c'); cbn; auto.
Qed.

Lemma matches_vec_app ps1 ps2 vs1 vs2 :
  length ps1 = length vs1 ->
  matches_vec (ps1 ++ ps2) (vs1 ++ vs2) = matches_vec ps1 vs1 && matches_vec ps2 vs2.
Proof.
  revert vs1. induction ps1 as [|p ps1 IH]; intros [|v vs1] H; cbn in *; try discriminate; auto.
  rewrite IH by lia. now rewrite andb_assoc.
Qed.

Lemma matches_vec_wilds n vs : length vs = n -> matches_vec (repeat PWild n) vs = true.
Proof. revert vs; induction n; intros [|v vs] H; cbn in *; try discriminate; auto. Qed.


(* ------------------------------------------------------------------ *)
(* The algorithm (pattern_matching.rs 137-325)                         *)

Definition row := list pat.
Definition matrix := list row.

(* convert_into_specialized_matrix_row, by structural recursion on the head *)
Fixpoint spec_pat (p : pat) (rest : row) (c : ctor) (n : nat) {struct p} : list row :=
  match p with
  | PWild => [repeat PWild n ++ rest]
  | PCtor c' rs => if ctor_skip c' c then [] else [rs ++ rest]
  | POr ps => flat_map (fun p => spec_pat p rest c n) ps
  end.

(* None = the Rust code would panic on `first().unwrap()` *)
Definition spec_row (r : row) (c : ctor) (n : nat) : option (list row) :=
  match r with [] => None | p :: rest => Some (spec_pat p rest c n) end.

Fixpoint specialize (P : matrix) (c : ctor) (n : nat) : option matrix :=
  match P with
  | [] => Some []
  | r :: P' => match spec_row r c n, specialize P' c n with
               | Some a, Some b => Some (a ++ b) | _, _ => None end
  end.

Fixpoint default_pat (p : pat) (rest : row) {struct p} : list row :=
  match p with
  | PWild => [rest]
  | PCtor _ _ => []
  | POr ps => flat_map (fun p => default_pat p rest) ps
  end.

Definition default_row (r : row) : option (list row) :=
  match r with [] => None | p :: rest => Some (default_pat p rest) end.

Fixpoint default_matrix (P : matrix) : option matrix :=
  match P with
  | [] => Some []
  | r :: P' => match default_row r, default_matrix P' with
               | Some a, Some b => Some (a ++ b) | _, _ => None end
  end.

Fixpoint roots_pat (p : pat) : list (ctor * nat) :=
  match p with
  | PWild => []
  | PCtor c rs => [(c, length rs)]
  | POr ps => flat_map roots_pat ps
  end.

Definition roots (P : matrix) : list (ctor * nat) :=
  flat_map (fun r => match r with [] => [] | p :: _ => roots_pat p end) P.

Fixpoint first_true {A} (f : A -> option bool) (l : list A) : option bool :=
  match l with
  | [] => Some false
  | x :: xs => match f x with None => None | Some true => Some true | Some false => first_true f xs end
  end.

Lemma first_true_spec {A} (f : A -> option bool) l : forall b, first_true f l = Some b ->
  (b = true -> exists x, In x l /\ f x = Some true) /\
  (b = false -> forall x, In x l -> f x = Some false).
Proof.
  induction l as [|x xs IH]; intros b H; cbn in H.
  - inversion H; subst. split; [discriminate|]. intros _ x [].
  - destruct (f x) as [[|]|] eqn:E; [| |discriminate].
    + inversion H; subst. split; [intros _; exists x; cbn; auto|discriminate].
    + destruct (IH b H) as [H1 H2]. split.
      * intros Hb. destruct (H1 Hb) as [y [Hy1 Hy2]]. exists y; cbn; auto.
      * intros Hb y [<-|Hy]; auto.
Qed.

Section Algo.
  (* cls -> list of (variant id, arity) *)
  Variable variants_of : nat -> list (nat * nat).

  Definition has_none (rs : list (ctor * nat)) : bool :=
    existsb (fun '(c, _) => match c with None => true | Some _ => false end) rs.

  Definition root_names (rs : list (ctor * nat)) : list nat :=
    flat_map (fun '(c, _) => match c with Some (_, v) => [v] | None => [] end) rs.

  Definition root_class (rs : list (ctor * nat)) : option nat :=
    match rs with
    | (Some (cls, _), _) :: _ => Some cls
    | _ => None
    end.

  Definition missing_of (cls : nat) (rs : list (ctor * nat)) : list (nat * nat) :=
    filter (fun '(v, _) => negb (existsb (Nat.eqb v) (root_names rs))) (variants_of cls).

  (* signature_incomplete_names: None = complete *)
  Definition incomplete_names (rs : list (ctor * nat)) : option (list (vctor * nat)) :=
    if has_none rs then None
    else match root_class rs with
         | None => Some []
         | Some cls =>
             match missing_of cls rs with
             | [] => None
             | m => Some (map (fun '(v, a) => ((cls, v), a)) m)
             end
         end.

  Fixpoint useful (fuel : nat) (P : matrix) (q : row) : option bool :=
    match fuel with
    | O => None
    | S fuel' =>
        match P with
        | [] => Some true
        | _ =>
            match q with
            | [] => Some false
            | PCtor c rs :: q_rest =>
                match specialize P c (length rs) with
                | Some P' => useful fuel' P' (rs ++ q_rest)
                | None => None
                end
            | PWild :: q_rest =>
                match incomplete_names (roots P) with
                | None =>
                    first_true (fun '(c, n) =>
                       match specialize P c n with
                       | None => None
                       | Some P' => useful fuel' P' (repeat PWild n ++ q_rest)
                       end) (roots P)
                | Some _ =>
                    match default_matrix P with
                    | Some P' => useful fuel' P' q_rest
                    | None => None
                    end
                end
            | POr ps :: q_rest =>
                first_true (fun p => useful fuel' P (p :: q_rest)) ps
            end
        end
    end.
End Algo.

(* ------------------------------------------------------------------ *)
(* Semantic lemmas, independent of typing                              *)

Definition allP {A} (P : A -> Prop) : list A -> Prop :=
  fix go (l : list A) : Prop := match l with [] => True | x :: xs => P x /\ go xs end.

Lemma allP_Forall {A} (P : A -> Prop) l : allP P l <-> Forall P l.
Proof. induction l; cbn; split; intros H; auto; [destruct H; constructor; tauto | inversion H; tauto]. Qed.

Lemma existsb_flat_map {A B} (f : A -> list B) (g : B -> bool) l :
  existsb g (flat_map f l) = existsb (fun a => existsb g (f a)) l.
Proof. induction l; cbn; auto. now rewrite existsb_app, IHl. Qed.

Fixpoint head_ok (p : pat) (cv : ctor) (n : nat) {struct p} : Prop :=
  match p with
  | PWild => True
  | PCtor c' rs => ctor_skip c' cv = negb (ctor_eqb c' cv) /\ (ctor_eqb c' cv = true -> length rs = n)
  | POr ps => allP (fun p => head_ok p cv n) ps
  end.

Definition any_row (rows : list row) (vs : list val) : bool :=
  existsb (fun r => matches_vec r vs) rows.

Lemma spec_pat_sem p : forall rest cv n vs vrest,
  length vs = n -> head_ok p cv n ->
  any_row (spec_pat p rest cv n) (vs ++ vrest) = matches p (VCtor cv vs) && matches_vec rest vrest.
Proof.
  unfold any_row.
  induction p as [|c' rs IH|ps IH] using pat_ind'; intros rest cv n vs vrest Hlen Hok.
  - cbn [spec_pat existsb matches]. rewrite matches_vec_app by (rewrite repeat_length; lia).
    rewrite matches_vec_wilds by auto. cbn. now rewrite orb_false_r.
  - cbn [spec_pat head_ok] in *. destruct Hok as [Hskip Hlen'].
    rewrite matches_ctor, Hskip.
    destruct (ctor_eqb c' cv) eqn:E; cbn; auto.
    rewrite matches_vec_app by (rewrite Hlen'; auto). now rewrite orb_false_r.
  - cbn [spec_pat head_ok matches] in *. rewrite existsb_flat_map.
    apply allP_Forall in Hok.
    induction ps as [|p ps IHps]; cbn; auto.
    inversion IH as [|? ? Hp Hps]; inversion Hok as [|? ? Hq Hqs]; subst.
    rewrite (Hp rest cv (length vs) vs vrest eq_refl Hq). rewrite IHps by auto.
    now rewrite andb_orb_distrib_l.
Qed.

(* head value whose constructor is not among the roots of p *)
Fixpoint no_root (p : pat) (cv : ctor) : Prop :=
  match p with
  | PWild => True
  | PCtor c' _ => ctor_eqb c' cv = false
  | POr ps => allP (fun p => no_root p cv) ps
  end.

Lemma default_pat_sem p : forall rest v vrest,
  (match v with VCtor cv _ => no_root p cv | VOpaque _ => True end) ->
  any_row (default_pat p rest) vrest = matches p v && matches_vec rest vrest.
Proof.
  unfold any_row.
  induction p as [|c' rs IH|ps IH] using pat_ind'; intros rest v vrest Hnr.
  - cbn. now rewrite orb_false_r.
  - destruct v as [cv vs|k]; cbn [default_pat existsb].
    + rewrite matches_ctor. cbn in Hnr. now rewrite Hnr.
    + reflexivity.
  - cbn [default_pat matches]. rewrite existsb_flat_map.
    assert (Hnr' : Forall (fun p => match v with VCtor cv _ => no_root p cv | VOpaque _ => True end) ps).
    { destruct v; cbn in Hnr; [now apply allP_Forall|]. apply Forall_forall; auto. }
    clear Hnr. induction ps as [|p ps IHps]; cbn; auto.
    inversion IH as [|? ? Hp Hps]; inversion Hnr' as [|? ? Hq Hqs]; subst.
    rewrite (Hp rest v vrest Hq). rewrite IHps by auto. now rewrite andb_orb_distrib_l.
Qed.

Lemma any_row_app a b vs : any_row (a ++ b) vs = any_row a vs || any_row b vs.
Proof. apply existsb_app. Qed.

Lemma any_row_cons r P vs : any_row (r :: P) vs = matches_vec r vs || any_row P vs.
Proof. reflexivity. Qed.

Lemma matches_vec_cons p rest v vrest : matches_vec (p :: rest) (v :: vrest) = matches p v && matches_vec rest vrest.
Proof. reflexivity. Qed.

Lemma specialize_sem P : forall cv vs vrest P',
  specialize P cv (length vs) = Some P' ->
  Forall (fun r => match r with [] => True | p :: _ => head_ok p cv (length vs) end) P ->
  any_row P' (vs ++ vrest) = any_row P (VCtor cv vs :: vrest).
Proof.
  induction P as [|r P IH]; intros cv vs vrest P' Hs Hok; cbn [specialize] in Hs.
  - now inversion Hs.
  - destruct r as [|p rest]; cbn [spec_row] in Hs; [discriminate|].
    destruct (specialize P cv (length vs)) as [b|] eqn:E; [|discriminate].
    inversion Hs; subst; clear Hs. inversion Hok as [|? ? Hp HP]; subst.
    rewrite any_row_app, any_row_cons, matches_vec_cons.
    rewrite (IH cv vs vrest b E HP).
    f_equal. now apply spec_pat_sem.
Qed.

Definition no_root_v (p : pat) (v : val) : Prop :=
  match v with VCtor cv _ => no_root p cv | VOpaque _ => True end.

Lemma default_sem P : forall v vrest P',
  default_matrix P = Some P' ->
  Forall (fun r => match r with [] => True | p :: _ => no_root_v p v end) P ->
  any_row P' vrest = any_row P (v :: vrest).
Proof.
  induction P as [|r P IH]; intros v vrest P' Hs Hok; cbn [default_matrix] in Hs.
  - now inversion Hs.
  - destruct r as [|p rest]; cbn [default_row] in Hs; [discriminate|].
    destruct (default_matrix P) as [b|] eqn:E; [|discriminate].
    inversion Hs; subst; clear Hs. inversion Hok as [|? ? Hp HP]; subst.
    rewrite any_row_app, any_row_cons, matches_vec_cons.
    rewrite (IH v vrest b eq_refl HP).
    f_equal. now apply default_pat_sem.
Qed.

(* ------------------------------------------------------------------ *)
(* Typing                                                              *)

Definition all2P {A B} (R : A -> B -> Prop) : list A -> list B -> Prop :=
  fix go (l1 : list A) (l2 : list B) : Prop :=
    match l1, l2 with
    | [], [] => True
    | a :: l1', b :: l2' => R a b /\ go l1' l2'
    | _, _ => False
    end.

Lemma all2P_length {A B} (R : A -> B -> Prop) l1 : forall l2, all2P R l1 l2 -> length l1 = length l2.
Proof. induction l1; intros [|b l2]; cbn; intros H; try tauto. destruct H. f_equal; auto. Qed.

Lemma all2P_app {A B} (R : A -> B -> Prop) l1 : forall l2 m1 m2,
  all2P R l1 l2 -> all2P R m1 m2 -> all2P R (l1 ++ m1) (l2 ++ m2).
Proof. induction l1; intros [|b l2] m1 m2; cbn; intros H1 H2; try tauto. destruct H1; split; auto. Qed.

Lemma all2P_app_inv {A B} (R : A -> B -> Prop) l1 : forall l2 m1 m2,
  length l1 = length l2 -> all2P R (l1 ++ m1) (l2 ++ m2) -> all2P R l1 l2 /\ all2P R m1 m2.
Proof.
  induction l1; intros [|b l2] m1 m2; cbn; intros HL H; try discriminate; auto.
  destruct H as [H1 H2]. apply IHl1 in H2; [tauto|lia].
Qed.

Section ValInd.
  Variable P : val -> Prop.
  Hypothesis HC : forall c vs, Forall P vs -> P (VCtor c vs).
  Hypothesis HO : forall n, P (VOpaque n).
  Fixpoint val_ind' (v : val) : P v :=
    match v with
    | VCtor c vs => HC c vs ((fix go l : Forall P l := match l with [] => Forall_nil _ | x :: xs => Forall_cons _ (val_ind' x) (go xs) end) vs)
    | VOpaque n => HO n
    end.
End ValInd.

Fixpoint lookup {A} (v : nat) (l : list (nat * A)) : option A :=
  match l with
  | [] => None
  | (v', a) :: l' => if Nat.eqb v v' then Some a else lookup v l'
  end.

Section Typing.
  Variable ty : Type.
  Inductive tshape := SOpaque | SEnum (cls : nat) (vs : list (nat * list ty)) | SStruct (fs : list ty).
  Variable shape : ty -> tshape.
  Variable variants_of : nat -> list (nat * nat).

  Definition ctor_sig (t : ty) (c : ctor) : option (list ty) :=
    match shape t, c with
    | SEnum cls vs, Some (cls', v) => if Nat.eqb cls cls' then lookup v vs else None
    | SStruct fs, None => Some fs
    | _, _ => None
    end.

  Fixpoint pat_ok (p : pat) (t : ty) {struct p} : Prop :=
    match p with
    | PWild => True
    | PCtor c ps => exists tys, ctor_sig t c = Some tys /\ all2P pat_ok ps tys
    | POr ps => allP (fun p => pat_ok p t) ps
    end.

  Fixpoint val_ok (v : val) (t : ty) {struct v} : Prop :=
    match v with
    | VCtor c vs => exists tys, ctor_sig t c = Some tys /\ all2P val_ok vs tys
    | VOpaque _ => shape t = SOpaque
    end.

  Fixpoint no_empty_or (p : pat) : Prop :=
    match p with
    | PWild => True
    | PCtor _ ps => allP no_empty_or ps
    | POr ps => ps <> [] /\ allP no_empty_or ps
    end.

  Hypothesis H_variants : forall t cls vs, shape t = SEnum cls vs ->
    variants_of cls = map (fun '(v, tys) => (v, length tys)) vs.
  Hypothesis H_inhabited : forall t, exists v, val_ok v t.

  Definition row_ok (ts : list ty) (r : row) : Prop := all2P pat_ok r ts.
  Definition vals_ok (ts : list ty) (vs : list val) : Prop := all2P val_ok vs ts.

  Lemma inhabited_vec ts : exists vs, vals_ok ts vs.
  Proof.
    induction ts as [|t ts [vs IH]]; [exists []; exact I|].
    destruct (H_inhabited t) as [v Hv]. exists (v :: vs). split; auto.
  Qed.

  (* every well-typed pattern without empty alternatives has a matching value *)
  Lemma pat_inhabited p : forall t, pat_ok p t -> no_empty_or p -> exists v, val_ok v t /\ matches p v = true.
  Proof.
    induction p as [|c ps IH|ps IH] using pat_ind'; intros t Hok Hne.
    - destruct (H_inhabited t) as [v Hv]. exists v; auto.
    - cbn [pat_ok no_empty_or] in *. destruct Hok as [tys [Hsig Hps]].
      assert (exists vs, all2P val_ok vs tys /\ matches_vec ps vs = true) as [vs [Hvs Hm]].
      { clear Hsig. revert tys Hps. apply allP_Forall in Hne.
        induction ps as [|p ps IHps]; intros [|t' tys] Hps; cbn in Hps; try tauto.
        - exists []; split; [exact I|reflexivity].
        - inversion IH as [|? ? Hp Hrest]; inversion Hne as [|? ? Hn Hnrest]; subst.
          destruct Hps as [Hp1 Hps1].
          destruct (Hp t' Hp1 Hn) as [v [Hv Hmv]].
          destruct (IHps Hrest Hnrest tys Hps1) as [vs [Hvs Hmvs]].
          exists (v :: vs). split; [split; auto|]. cbn. now rewrite Hmv, Hmvs. }
      exists (VCtor c vs). split.
      + cbn. exists tys; auto.
      + rewrite matches_ctor, Hm. destruct (ctor_eqb_spec c c); auto.
    - cbn [pat_ok no_empty_or] in *. destruct Hne as [Hne1 Hne2].
      destruct ps as [|p ps]; [congruence|].
      inversion IH as [|? ? Hp _]; subst. cbn in Hok, Hne2.
      destruct (Hp t (proj1 Hok) (proj1 Hne2)) as [v [Hv Hm]].
      exists v; split; auto. cbn. now rewrite Hm.
  Qed.

  Lemma vec_inhabited q : forall ts, row_ok ts q -> allP no_empty_or q ->
    exists vs, vals_ok ts vs /\ matches_vec q vs = true.
  Proof.
    induction q as [|p q IH]; intros [|t ts] Hok Hne; cbn in Hok; try tauto.
    - exists []; split; [exact I|reflexivity].
    - destruct Hok as [Hp Hq]. cbn in Hne. destruct Hne as [Hn Hnq].
      destruct (pat_inhabited p t Hp Hn) as [v [Hv Hm]].
      destruct (IH ts Hq Hnq) as [vs [Hvs Hms]].
      exists (v :: vs). split; [split; auto|]. cbn. now rewrite Hm, Hms.
  Qed.

  Lemma matches_vec_length ps : forall vs, matches_vec ps vs = true -> length ps = length vs.
  Proof. induction ps; intros [|v vs]; cbn; intros H; try discriminate; auto. apply andb_prop in H. f_equal; apply IHps; tauto. Qed.

  (* (a): typing gives the side conditions of spec_pat_sem *)
  Lemma typed_head_ok p : forall t cv vs, pat_ok p t -> val_ok (VCtor cv vs) t -> head_ok p cv (length vs).
  Proof.
    induction p as [|c ps IH|ps IH] using pat_ind'; intros t cv vs Hp Hv; cbn [head_ok]; auto.
    - cbn [pat_ok val_ok] in *. destruct Hp as [tys [Hs Hps]], Hv as [tys' [Hs' Hvs]].
      unfold ctor_sig in *. destruct (shape t) as [|cls vars|fs].
      + destruct c; discriminate.
      + destruct c as [[c1 c2]|], cv as [[d1 d2]|]; try discriminate.
        destruct (Nat.eqb_spec cls c1), (Nat.eqb_spec cls d1); try discriminate; subst.
        split; [reflexivity|]. cbn. intros E. destruct (vctor_eqb_spec (d1, c2) (d1, d2)) as [E'|]; [|discriminate].
        inversion E'; subst. rewrite Hs in Hs'. inversion Hs'; subst.
        rewrite (all2P_length _ _ _ Hps), (all2P_length _ _ _ Hvs). reflexivity.
      + destruct c, cv; try discriminate. split; [reflexivity|]. intros _.
        inversion Hs; inversion Hs'; subst.
        rewrite (all2P_length _ _ _ Hps), (all2P_length _ _ _ Hvs). reflexivity.
    - cbn [pat_ok] in Hp. apply allP_Forall. apply allP_Forall in Hp.
      rewrite Forall_forall in *. intros p Hin. eapply IH; eauto.
  Qed.

  (* ---------------- typing is preserved by the matrix operations ------------- *)

  Lemma all2P_wilds tys : all2P pat_ok (repeat PWild (length tys)) tys.
  Proof. induction tys; cbn; auto. Qed.

  Lemma ctor_sig_compat t c c' tys tys' :
    ctor_sig t c = Some tys -> ctor_sig t c' = Some tys' -> ctor_skip c' c = false -> c' = c /\ tys' = tys.
  Proof.
    unfold ctor_sig. destruct (shape t) as [|cls vars|fs]; intros H1 H2 H3.
    - destruct c; discriminate.
    - destruct c as [[c1 c2]|], c' as [[d1 d2]|]; try discriminate.
      destruct (Nat.eqb_spec cls c1), (Nat.eqb_spec cls d1); try discriminate; subst.
      cbn in H3. destruct (vctor_eqb_spec (d1, d2) (d1, c2)) as [E|]; [|discriminate].
      inversion E; subst. rewrite H1 in H2. inversion H2; auto.
    - destruct c, c'; try discriminate. inversion H1; inversion H2; subst; auto.
  Qed.

  Lemma spec_pat_typed p : forall t ts rest c tys,
    pat_ok p t -> row_ok ts rest -> ctor_sig t c = Some tys ->
    Forall (row_ok (tys ++ ts)) (spec_pat p rest c (length tys)).
  Proof.
    induction p as [|c' ps IH|ps IH] using pat_ind'; intros t ts rest c tys Hp Hr Hs; cbn [spec_pat].
    - constructor; [|constructor]. apply all2P_app; auto. apply all2P_wilds.
    - destruct (ctor_skip c' c) eqn:E; [constructor|].
      cbn [pat_ok] in Hp. destruct Hp as [tys' [Hs' Hps]].
      destruct (ctor_sig_compat _ _ _ _ _ Hs Hs' E) as [-> ->].
      constructor; [|constructor]. apply all2P_app; auto.
    - cbn [pat_ok] in Hp. apply allP_Forall in Hp. rewrite Forall_forall in *.
      intros r Hin. apply in_flat_map in Hin. destruct Hin as [p [Hin1 Hin2]].
      specialize (IH p Hin1 t ts rest c tys (Hp p Hin1) Hr Hs). rewrite Forall_forall in IH. auto.
  Qed.

  Lemma specialize_typed P : forall t ts c tys P',
    Forall (row_ok (t :: ts)) P -> ctor_sig t c = Some tys ->
    specialize P c (length tys) = Some P' -> Forall (row_ok (tys ++ ts)) P'.
  Proof.
    induction P as [|r P IH]; intros t ts c tys P' HP Hs Hsp; cbn [specialize] in Hsp.
    - inversion Hsp; constructor.
    - destruct r as [|p rest]; cbn [spec_row] in Hsp; [discriminate|].
      destruct (specialize P c (length tys)) as [b|] eqn:E; [|discriminate].
      inversion Hsp; subst; clear Hsp. inversion HP as [|? ? Hr HP']; subst.
      apply Forall_app; split.
      + destruct Hr as [Hp Hrest]. eapply spec_pat_typed; eauto.
      + eapply IH; eauto.
  Qed.

  Lemma specialize_defined P : forall t ts c n, Forall (row_ok (t :: ts)) P -> exists P', specialize P c n = Some P'.
  Proof.
    induction P as [|r P IH]; intros t ts c n HP; cbn [specialize]; [eauto|].
    inversion HP as [|? ? Hr HP']; subst. destruct r as [|p rest]; [destruct Hr|].
    cbn [spec_row]. destruct (IH t ts c n HP') as [b ->]. eauto.
  Qed.

  Lemma default_pat_typed p : forall t ts rest, pat_ok p t -> row_ok ts rest -> Forall (row_ok ts) (default_pat p rest).
  Proof.
    induction p as [|c' ps IH|ps IH] using pat_ind'; intros t ts rest Hp Hr; cbn [default_pat].
    - constructor; auto.
    - constructor.
    - cbn [pat_ok] in Hp. apply allP_Forall in Hp. rewrite Forall_forall in *.
      intros r Hin. apply in_flat_map in Hin. destruct Hin as [p [Hin1 Hin2]].
      specialize (IH p Hin1 t ts rest (Hp p Hin1) Hr). rewrite Forall_forall in IH. auto.
  Qed.

  Lemma default_typed P : forall t ts, Forall (row_ok (t :: ts)) P ->
    exists P', default_matrix P = Some P' /\ Forall (row_ok ts) P'.
  Proof.
    induction P as [|r P IH]; intros t ts HP; cbn [default_matrix]; [exists []; split; auto|].
    inversion HP as [|? ? Hr HP']; subst. destruct r as [|p rest]; [destruct Hr|].
    cbn [default_row]. destruct (IH t ts HP') as [b [-> Hb]].
    eexists; split; [reflexivity|]. apply Forall_app; split; auto.
    destruct Hr. eapply default_pat_typed; eauto.
  Qed.

  (* defaulting never lets a row match more *)
  Lemma default_pat_le p : forall rest v vrest,
    any_row (default_pat p rest) vrest = true -> matches p v && matches_vec rest vrest = true.
  Proof.
    unfold any_row.
    induction p as [|c' ps IH|ps IH] using pat_ind'; intros rest v vrest H; cbn [default_pat] in H.
    - cbn in H. rewrite orb_false_r in H. now cbn.
    - discriminate.
    - rewrite existsb_flat_map in H. apply existsb_exists in H. destruct H as [p [Hin H]].
      rewrite Forall_forall in IH. specialize (IH p Hin rest v vrest H).
      apply andb_prop in IH. destruct IH as [H1 H2]. rewrite H2, andb_true_r.
      cbn. apply existsb_exists. eauto.
  Qed.

  Lemma default_le P : forall P' v vrest, default_matrix P = Some P' ->
    any_row P' vrest = true -> any_row P (v :: vrest) = true.
  Proof.
    induction P as [|r P IH]; intros P' v vrest Hd H; cbn [default_matrix] in Hd.
    - inversion Hd; subst. discriminate.
    - destruct r as [|p rest]; cbn [default_row] in Hd; [discriminate|].
      destruct (default_matrix P) as [b|] eqn:E; [|discriminate]. inversion Hd; subst; clear Hd.
      rewrite any_row_app in H. rewrite any_row_cons, matches_vec_cons.
      apply orb_prop in H. destruct H as [H|H].
      + rewrite (default_pat_le _ _ v _ H). reflexivity.
      + rewrite (IH b v vrest eq_refl H). apply orb_true_r.
  Qed.

  (* ---------------- root constructors ---------------------------------------- *)

  Lemma roots_pat_typed p : forall t c n, pat_ok p t -> In (c, n) (roots_pat p) ->
    exists tys, ctor_sig t c = Some tys /\ n = length tys.
  Proof.
    induction p as [|c' ps IH|ps IH] using pat_ind'; intros t c n Hp Hin; cbn [roots_pat] in Hin.
    - destruct Hin.
    - destruct Hin as [E|[]]. inversion E; subst. cbn [pat_ok] in Hp. destruct Hp as [tys [Hs Hps]].
      exists tys; split; auto. eapply all2P_length; eauto.
    - apply in_flat_map in Hin. destruct Hin as [p [Hin1 Hin2]].
      cbn [pat_ok] in Hp. apply allP_Forall in Hp. rewrite Forall_forall in *. eauto.
  Qed.

  Lemma roots_typed P : forall t ts c n, Forall (row_ok (t :: ts)) P -> In (c, n) (roots P) ->
    exists tys, ctor_sig t c = Some tys /\ n = length tys.
  Proof.
    intros t ts c n HP Hin. unfold roots in Hin. apply in_flat_map in Hin.
    destruct Hin as [r [Hr Hin]]. rewrite Forall_forall in HP. specialize (HP r Hr).
    destruct r as [|p rest]; [destruct Hin|]. destruct HP as [Hp _]. eapply roots_pat_typed; eauto.
  Qed.

  Lemma no_root_of_roots p : forall cv, (forall c n, In (c, n) (roots_pat p) -> ctor_eqb c cv = false) -> no_root p cv.
  Proof.
    induction p as [|c' ps IH|ps IH] using pat_ind'; intros cv H; cbn [no_root roots_pat] in *; auto.
    - apply (H c' (length ps)). now left.
    - apply allP_Forall. rewrite Forall_forall in *. intros p Hin. apply IH; auto.
      intros c n Hc. apply (H c n). apply in_flat_map. eauto.
  Qed.

  Lemma heads_no_root P v :
    (match v with VCtor cv _ => forall c n, In (c, n) (roots P) -> ctor_eqb c cv = false | VOpaque _ => True end) ->
    Forall (fun r => match r with [] => True | p :: _ => no_root_v p v end) P.
  Proof.
    intros H. apply Forall_forall. intros r Hr. destruct r as [|p rest]; auto.
    destruct v as [cv vs|k]; cbn; auto. apply no_root_of_roots. intros c n Hc. apply (H c n).
    unfold roots. apply in_flat_map. exists (p :: rest); auto.
  Qed.

  Lemma lookup_in {A} v (l : list (nat * A)) a : lookup v l = Some a -> In (v, a) l.
  Proof.
    induction l as [|[v' a'] l IH]; cbn; [discriminate|].
    destruct (Nat.eqb_spec v v'); [intros E; inversion E; subst; auto|auto].
  Qed.

  Lemma in_lookup {A} v (l : list (nat * A)) a : In (v, a) l -> exists a', lookup v l = Some a'.
  Proof.
    induction l as [|[v' a'] l IH]; cbn; [tauto|].
    intros [E|H]; destruct (Nat.eqb_spec v v'); eauto. inversion E; congruence.
  Qed.

  Lemma has_none_spec rs : has_none rs = true -> exists n, In (None, n) rs.
  Proof.
    unfold has_none. intros H. apply existsb_exists in H. destruct H as [[c n] [Hin H]].
    destruct c; [discriminate|]. eauto.
  Qed.

  Lemma has_none_false rs c n : has_none rs = false -> In (c, n) rs -> exists vc, c = Some vc.
  Proof.
    unfold has_none. intros H Hin. destruct c; eauto.
    assert (existsb (fun '(c, _) => match c with None => true | Some _ => false end) rs = true).
    { apply existsb_exists. exists (None, n); auto. }
    congruence.
  Qed.

  Lemma root_names_in rs cls v n : In (Some (cls, v), n) rs -> In v (root_names rs).
  Proof. intros H. unfold root_names. apply in_flat_map. exists (Some (cls, v), n). cbn; auto. Qed.

  Lemma in_root_names rs v : In v (root_names rs) -> exists cls n, In (Some (cls, v), n) rs.
  Proof.
    unfold root_names. intros H. apply in_flat_map in H. destruct H as [[c n] [Hin H]].
    destruct c as [[cls v']|]; [|destruct H]. destruct H as [<-|[]]. eauto.
  Qed.

  Lemma existsb_eqb v l : existsb (Nat.eqb v) l = true <-> In v l.
  Proof.
    rewrite existsb_exists. split; [intros [x [H1 H2]]; apply Nat.eqb_eq in H2; congruence|].
    intros H. exists v; split; auto. apply Nat.eqb_refl.
  Qed.

  (* (b) complete signature: the head constructor of every well-typed value is a root *)
  Lemma complete_covers P t ts v :
    Forall (row_ok (t :: ts)) P -> incomplete_names variants_of (roots P) = None -> val_ok v t ->
    exists cv vs, v = VCtor cv vs /\ In (cv, length vs) (roots P).
  Proof.
    intros HP Hc Hv. unfold incomplete_names in Hc.
    destruct (has_none (roots P)) eqn:Hn.
    - apply has_none_spec in Hn. destruct Hn as [n Hin].
      destruct (roots_typed _ _ _ _ _ HP Hin) as [tys [Hs ->]].
      unfold ctor_sig in Hs. destruct (shape t) as [|cls vars|fs] eqn:Hsh; try discriminate.
      inversion Hs; subst.
      destruct v as [cv vs|k]; cbn [val_ok] in Hv.
      + destruct Hv as [tys' [Hs' Hvs]]. unfold ctor_sig in Hs'. rewrite Hsh in Hs'.
        destruct cv; [discriminate|]. inversion Hs'; subst.
        exists None, vs; split; auto. rewrite (all2P_length _ _ _ Hvs). assumption.
      + congruence.
    - destruct (root_class (roots P)) as [cls|] eqn:Hrc; [|discriminate].
      destruct (missing_of variants_of cls (roots P)) as [|m ms] eqn:Hm; [|discriminate].
      (* the first root is a variant of class cls, typed against t *)
      assert (exists v0 n0, In (Some (cls, v0), n0) (roots P)) as [v0 [n0 Hin0]].
      { unfold root_class in Hrc. destruct (roots P) as [|[[[c1 c2]|] n] rs]; try discriminate.
        inversion Hrc; subst. exists c2, n; cbn; auto. }
      destruct (roots_typed _ _ _ _ _ HP Hin0) as [tys0 [Hs0 _]].
      unfold ctor_sig in Hs0. destruct (shape t) as [|cls' vars|fs] eqn:Hsh; try discriminate.
      destruct (Nat.eqb_spec cls' cls); [subst cls'|discriminate].
      destruct v as [cv vs|k]; cbn [val_ok] in Hv; [|congruence].
      destruct Hv as [tys [Hs Hvs]]. unfold ctor_sig in Hs. rewrite Hsh in Hs.
      destruct cv as [[d1 d2]|]; [|discriminate].
      destruct (Nat.eqb_spec cls d1); [subst d1|discriminate].
      (* d2 is a declared variant, hence not missing, hence a root name *)
      assert (Hroot : In d2 (root_names (roots P))).
      { pose proof (lookup_in _ _ _ Hs) as Hin.
        assert (Hv' : In (d2, length tys) (variants_of cls)).
        { rewrite (H_variants _ _ _ Hsh). apply in_map_iff. exists (d2, tys); auto. }
        destruct (existsb (Nat.eqb d2) (root_names (roots P))) eqn:E; [now apply existsb_eqb|].
        assert (In (d2, length tys) (missing_of variants_of cls (roots P))).
        { unfold missing_of. apply filter_In. split; auto. now rewrite E. }
        rewrite Hm in H. destruct H. }
      apply in_root_names in Hroot. destruct Hroot as [cls'' [n'' Hin'']].
      destruct (roots_typed _ _ _ _ _ HP Hin'') as [tys'' [Hs'' ->]].
      unfold ctor_sig in Hs''. rewrite Hsh in Hs''.
      destruct (Nat.eqb_spec cls cls''); [subst cls''|discriminate].
      rewrite Hs in Hs''. inversion Hs''; subst.
      exists (Some (cls, d2)), vs; split; auto. rewrite (all2P_length _ _ _ Hvs). assumption.
  Qed.

  (* (c) incomplete signature: some well-typed head value has a non-root constructor *)
  Lemma incomplete_escapes P t ts l :
    Forall (row_ok (t :: ts)) P -> incomplete_names variants_of (roots P) = Some l ->
    exists v, val_ok v t /\ Forall (fun r => match r with [] => True | p :: _ => no_root_v p v end) P.
  Proof.
    intros HP Hc. unfold incomplete_names in Hc.
    destruct (has_none (roots P)) eqn:Hn; [discriminate|].
    destruct (root_class (roots P)) as [cls|] eqn:Hrc.
    - destruct (missing_of variants_of cls (roots P)) as [|[mv ma] ms] eqn:Hm; [discriminate|].
      assert (exists v0 n0, In (Some (cls, v0), n0) (roots P)) as [v0 [n0 Hin0]].
      { unfold root_class in Hrc. destruct (roots P) as [|[[[c1 c2]|] n] rs]; try discriminate.
        inversion Hrc; subst. exists c2, n; cbn; auto. }
      destruct (roots_typed _ _ _ _ _ HP Hin0) as [tys0 [Hs0 _]].
      unfold ctor_sig in Hs0. destruct (shape t) as [|cls' vars|fs] eqn:Hsh; try discriminate.
      destruct (Nat.eqb_spec cls' cls); [subst cls'|discriminate].
      assert (Hmiss : In (mv, ma) (missing_of variants_of cls (roots P))) by (rewrite Hm; cbn; auto).
      unfold missing_of in Hmiss. apply filter_In in Hmiss. destruct Hmiss as [Hdecl Hnot].
      rewrite (H_variants _ _ _ Hsh) in Hdecl. apply in_map_iff in Hdecl.
      destruct Hdecl as [[mv' mtys] [E Hin]]. inversion E; subst.
      destruct (in_lookup _ _ _ Hin) as [tys Hl].
      destruct (inhabited_vec tys) as [vs Hvs].
      exists (VCtor (Some (cls, mv)) vs). split.
      + cbn. exists tys. split; auto. unfold ctor_sig. rewrite Hsh, Nat.eqb_refl. assumption.
      + apply heads_no_root. intros c n Hc'.
        destruct (has_none_false _ _ _ Hn Hc') as [[c1 c2] ->]. cbn.
        destruct (vctor_eqb_spec (c1, c2) (cls, mv)) as [E'|]; auto. inversion E'; subst.
        apply root_names_in in Hc'. apply existsb_eqb in Hc'. rewrite Hc' in Hnot. discriminate.
    - (* no root constructor at all *)
      assert (Hnil : roots P = []).
      { unfold root_class in Hrc. destruct (roots P) as [|[[[c1 c2]|] n] rs] eqn:E; auto; [discriminate|].
        exfalso. destruct (has_none_false _ (None) n Hn) as [vc Hvc]; [cbn; auto|discriminate]. }
      destruct (H_inhabited t) as [v Hv]. exists v; split; auto.
      apply heads_no_root. destruct v as [cv0 vs0|k0]; auto. rewrite Hnil. intros c0 n0 [].
  Qed.

  (* ---------------- main theorem: partial correctness of `useful` ------------- *)

  Definition witness (ts : list ty) (P : matrix) (q : row) : Prop :=
    exists vs, vals_ok ts vs /\ matches_vec q vs = true /\ any_row P vs = false.

  Lemma heads_ok_of_typed P t ts cv vs :
    Forall (row_ok (t :: ts)) P -> val_ok (VCtor cv vs) t ->
    Forall (fun r => match r with [] => True | p :: _ => head_ok p cv (length vs) end) P.
  Proof.
    intros HP Hv. rewrite Forall_forall in *. intros r Hr. specialize (HP r Hr).
    destruct r as [|p rest]; auto. destruct HP as [Hp _]. eapply typed_head_ok; eauto.
  Qed.

  Lemma split_vals (tys ts : list ty) vs : vals_ok (tys ++ ts) vs ->
    exists vs1 vs2, vs = vs1 ++ vs2 /\ vals_ok tys vs1 /\ vals_ok ts vs2.
  Proof.
    revert vs. induction tys as [|t tys IH]; intros vs H.
    - exists [], vs. split; [reflexivity|]. split; [exact I|assumption].
    - destruct vs as [|v vs]; [destruct H|]. destruct H as [Hv Hvs].
      destruct (IH vs Hvs) as [vs1 [vs2 [-> [H1 H2]]]].
      exists (v :: vs1), vs2. split; [reflexivity|]. split; [split; assumption|assumption].
  Qed.

  Theorem useful_exact : forall fuel P q ts b,
    useful variants_of fuel P q = Some b ->
    Forall (row_ok ts) P -> row_ok ts q -> allP no_empty_or q ->
    (b = true <-> witness ts P q).
  Proof.
    induction fuel as [|fuel IH]; intros P q ts b Hu HP Hq Hne; [discriminate|].
    cbn [useful] in Hu.
    destruct P as [|r0 P0].
    { (* no rows: anything matching q is a witness *)
      inversion Hu; subst. split; auto. intros _.
      destruct (vec_inhabited q ts Hq Hne) as [vs [Hvs Hm]]. exists vs; auto. }
    remember (r0 :: P0) as P eqn:EP.
    destruct q as [|qh q_rest].
    { (* rows but no columns: the first (empty) row matches *)
      inversion Hu; subst b. split; [discriminate|]. intros [vs [Hvs [_ Hn]]].
      destruct ts; [|destruct Hq]. destruct vs; [|destruct Hvs].
      subst P. inversion HP as [|? ? Hr _]; subst. destruct r0; [|destruct Hr]. discriminate. }
    destruct ts as [|t ts]; [destruct Hq|]. destruct Hq as [Hqh Hqr].
    cbn in Hne. destruct Hne as [Hneh Hner].
    destruct qh as [|c rs|ps].
    - (* wildcard *)
      destruct (incomplete_names variants_of (roots P)) as [l|] eqn:Hinc.
      + (* incomplete signature: default matrix *)
        destruct (default_typed P t ts HP) as [P' [HdP HP']]. rewrite HdP in Hu.
        specialize (IH P' q_rest ts b Hu HP' Hqr Hner).
        rewrite IH. split.
        * intros [vs [Hvs [Hm Hn]]].
          destruct (incomplete_escapes P t ts l HP Hinc) as [v0 [Hv0 Hnr]].
          exists (v0 :: vs). split; [split; auto|]. split; [cbn; auto|].
          rewrite <- (default_sem P v0 vs P' HdP Hnr). assumption.
        * intros [vs [Hvs [Hm Hn]]]. destruct vs as [|v vs]; [destruct Hvs|]. destruct Hvs as [Hv Hvs].
          exists vs. split; auto. split; [cbn in Hm; auto|].
          destruct (any_row P' vs) eqn:E; auto.
          rewrite (default_le P P' v vs HdP E) in Hn. discriminate.
      + (* complete signature: try every root constructor *)
        apply first_true_spec in Hu. destruct Hu as [Ht Hf]. split.
        * intros ->. destruct (Ht eq_refl) as [[c n] [Hin Hc]].
          destruct (roots_typed P t ts c n HP Hin) as [tys [Hs ->]].
          destruct (specialize P c (length tys)) as [P'|] eqn:Hsp; [|discriminate].
          pose proof (specialize_typed P t ts c tys P' HP Hs Hsp) as HP'.
          assert (Hq' : row_ok (tys ++ ts) (repeat PWild (length tys) ++ q_rest)).
          { apply all2P_app; auto. apply all2P_wilds. }
          assert (Hne' : allP no_empty_or (repeat PWild (length tys) ++ q_rest)).
          { apply allP_Forall. apply Forall_app. split; [|now apply allP_Forall].
            apply Forall_forall. intros x Hx. apply repeat_spec in Hx. subst; exact I. }
          destruct (proj1 (IH _ _ _ _ Hc HP' Hq' Hne') eq_refl) as [vs [Hvs [Hm Hn]]].
          destruct (split_vals tys ts vs Hvs) as [vs1 [vs2 [-> [H1 H2]]]].
          assert (Hl : length vs1 = length tys) by (eapply all2P_length; eauto).
          exists (VCtor c vs1 :: vs2).
          assert (Hv : val_ok (VCtor c vs1) t) by (cbn; exists tys; auto).
          split; [split; auto|]. split.
          -- cbn. rewrite matches_vec_app in Hm by (rewrite repeat_length; lia).
             apply andb_prop in Hm. tauto.
          -- rewrite <- Hl in Hsp.
             rewrite <- (specialize_sem P c vs1 vs2 P' Hsp (heads_ok_of_typed P t ts c vs1 HP Hv)). assumption.
        * intros [vs [Hvs [Hm Hn]]]. destruct vs as [|v vs]; [destruct Hvs|]. destruct Hvs as [Hv Hvs].
          destruct (complete_covers P t ts v HP Hinc Hv) as [cv [vs1 [-> Hin]]].
          destruct b; auto. specialize (Hf eq_refl _ Hin). cbn beta iota in Hf.
          pose proof Hv as Hv'. cbn [val_ok] in Hv'. destruct Hv' as [tys [Hs Hvs1]].
          assert (Hl : length vs1 = length tys) by (eapply all2P_length; eauto).
          destruct (specialize P cv (length vs1)) as [P'|] eqn:Hsp; [|discriminate].
          rewrite Hl in Hsp.
          pose proof (specialize_typed P t ts cv tys P' HP Hs Hsp) as HP'.
          assert (Hq' : row_ok (tys ++ ts) (repeat PWild (length tys) ++ q_rest)).
          { apply all2P_app; auto. apply all2P_wilds. }
          assert (Hne' : allP no_empty_or (repeat PWild (length tys) ++ q_rest)).
          { apply allP_Forall. apply Forall_app. split; [|now apply allP_Forall].
            apply Forall_forall. intros x Hx. apply repeat_spec in Hx. subst; exact I. }
          rewrite Hl in Hf.
          apply (IH _ _ _ _ Hf HP' Hq' Hne'). exists (vs1 ++ vs). split; [apply all2P_app; auto|]. split.
          -- rewrite matches_vec_app by (rewrite repeat_length; lia).
             rewrite matches_vec_wilds by lia. cbn in Hm. assumption.
          -- rewrite <- Hl in Hsp.
             rewrite (specialize_sem P cv vs1 vs P' Hsp (heads_ok_of_typed P t ts cv vs1 HP Hv)). assumption.
    - (* constructor *)
      cbn [pat_ok] in Hqh. destruct Hqh as [tys [Hs Hrs]].
      assert (Hl : length rs = length tys) by (eapply all2P_length; eauto).
      destruct (specialize P c (length rs)) as [P'|] eqn:Hsp; [|discriminate].
      rewrite Hl in Hsp.
      pose proof (specialize_typed P t ts c tys P' HP Hs Hsp) as HP'.
      assert (Hq' : row_ok (tys ++ ts) (rs ++ q_rest)) by (apply all2P_app; auto).
      assert (Hne' : allP no_empty_or (rs ++ q_rest)).
      { cbn [no_empty_or] in Hneh. apply allP_Forall. apply Forall_app. split; now apply allP_Forall. }
      rewrite (IH _ _ _ _ Hu HP' Hq' Hne'). split.
      + intros [vs [Hvs [Hm Hn]]].
        destruct (split_vals tys ts vs Hvs) as [vs1 [vs2 [-> [H1 H2]]]].
        assert (Hl1 : length vs1 = length tys) by (eapply all2P_length; eauto).
        assert (Hv : val_ok (VCtor c vs1) t) by (cbn; exists tys; auto).
        exists (VCtor c vs1 :: vs2). split; [split; auto|]. split.
        * rewrite matches_vec_app in Hm by lia. apply andb_prop in Hm.
          rewrite matches_vec_cons, matches_ctor. destruct (ctor_eqb_spec c c); [|congruence].
          cbn. destruct Hm as [-> ->]. reflexivity.
        * rewrite <- Hl1 in Hsp.
          rewrite <- (specialize_sem P c vs1 vs2 P' Hsp (heads_ok_of_typed P t ts c vs1 HP Hv)). assumption.
      + intros [vs [Hvs [Hm Hn]]]. destruct vs as [|v vs]; [destruct Hvs|]. destruct Hvs as [Hv Hvs].
        rewrite matches_vec_cons in Hm. apply andb_prop in Hm. destruct Hm as [Hm1 Hm2].
        destruct v as [cv vs1|k]; [|discriminate].
        rewrite matches_ctor in Hm1. apply andb_prop in Hm1. destruct Hm1 as [Hc Hm1].
        destruct (ctor_eqb_spec c cv); [subst cv|discriminate].
        pose proof (matches_vec_length _ _ Hm1) as Hl1.
        pose proof Hv as Hv'. cbn [val_ok] in Hv'. destruct Hv' as [tys' [Hs' Hvs1]].
        rewrite Hs in Hs'. inversion Hs'; subst tys'.
        exists (vs1 ++ vs). split; [apply all2P_app; auto|]. split.
        * rewrite matches_vec_app by lia. now rewrite Hm1, Hm2.
        * assert (Hsp' : specialize P c (length vs1) = Some P') by (rewrite <- Hl1, Hl; exact Hsp).
          rewrite (specialize_sem P c vs1 vs P' Hsp' (heads_ok_of_typed P t ts c vs1 HP Hv)). assumption.
    - (* or-pattern in q *)
      cbn [pat_ok] in Hqh. apply allP_Forall in Hqh. cbn [no_empty_or] in Hneh. destruct Hneh as [_ Hneps].
      apply allP_Forall in Hneps.
      apply first_true_spec in Hu. destruct Hu as [Ht Hf]. split.
      + intros ->. destruct (Ht eq_refl) as [p [Hin Hp]].
        rewrite Forall_forall in Hqh, Hneps.
        assert (Hq' : row_ok (t :: ts) (p :: q_rest)) by (split; auto).
        assert (Hne' : allP no_empty_or (p :: q_rest)) by (split; auto).
        destruct (proj1 (IH _ _ _ _ Hp HP Hq' Hne') eq_refl) as [vs [Hvs [Hm Hn]]].
        exists vs. split; auto. split; auto.
        destruct vs as [|v vs]; [destruct Hvs|]. rewrite matches_vec_cons in *.
        apply andb_prop in Hm. destruct Hm as [Hm1 Hm2]. rewrite Hm2, andb_true_r.
        cbn. apply existsb_exists. eauto.
      + intros [vs [Hvs [Hm Hn]]]. destruct b; auto. specialize (Hf eq_refl).
        destruct vs as [|v vs]; [destruct Hvs|]. rewrite matches_vec_cons in Hm.
        apply andb_prop in Hm. destruct Hm as [Hm1 Hm2]. cbn in Hm1. apply existsb_exists in Hm1.
        destruct Hm1 as [p [Hin Hmp]]. specialize (Hf p Hin).
        rewrite Forall_forall in Hqh, Hneps.
        assert (Hq' : row_ok (t :: ts) (p :: q_rest)) by (split; auto).
        assert (Hne' : allP no_empty_or (p :: q_rest)) by (split; auto).
        apply (IH _ _ _ _ Hf HP Hq' Hne'). exists (v :: vs). split; auto. split; auto.
        rewrite matches_vec_cons, Hmp, Hm2. reflexivity.
  Qed.
End Typing.

