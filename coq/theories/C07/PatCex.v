(* C07 prototype, part 3: the counterexample function (pattern_matching.rs 330-377).
   Validity: every well-typed value vector that is an instance of the returned
   pattern vector is matched by no row. *)
From Coq Require Import List Arith Bool Lia.
Import ListNotations.
From SV Require Import C07.Pat.

Fixpoint first_some {A B} (f : A -> option (option B)) (l : list A) : option (option B) :=
  match l with
  | [] => Some None
  | x :: xs => match f x with None => None | Some (Some b) => Some (Some b) | Some None => first_some f xs end
  end.

Lemma first_some_spec {A B} (f : A -> option (option B)) l b :
  first_some f l = Some (Some b) -> exists x, In x l /\ f x = Some (Some b).
Proof.
  induction l as [|x xs IH]; cbn; [discriminate|].
  destruct (f x) as [[b'|]|] eqn:E; [|auto|discriminate].
  - intros H. inversion H; subst. exists x; auto.
  - intros H. destruct (IH H) as [y [Hy1 Hy2]]. exists y; auto.
Qed.

Lemma ctor_eqb_true a b : ctor_eqb a b = true -> a = b.
Proof. destruct (ctor_eqb_spec a b); [auto|discriminate]. Qed.

Section Cex.
  Variable variants_of : nat -> list (nat * nat).

  (* outer None: out of fuel / the Rust code would panic; inner None: exhaustive *)
  Fixpoint cex (fuel : nat) (P : matrix) (n : nat) : option (option row) :=
    match fuel with
    | O => None
    | S f =>
        match n with
        | O => Some (match P with [] => Some [] | _ => None end)
        | S n' =>
            match incomplete_names variants_of (roots P) with
            | Some names =>
                match default_matrix P with
                | None => None
                | Some P' =>
                    match cex f P' n' with
                    | None => None
                    | Some None => Some None
                    | Some (Some v) =>
                        let head := match names with
                                    | (c, a) :: _ => PCtor (Some c) (repeat PWild a)
                                    | [] => PWild
                                    end in
                        Some (Some (head :: v))
                    end
                end
            | None =>
                first_some (fun '(c, a) =>
                  match specialize P c a with
                  | None => None
                  | Some P' =>
                      match cex f P' (a + n') with
                      | None => None
                      | Some None => Some None
                      | Some (Some v) => Some (Some (PCtor c (firstn a v) :: skipn a v))
                      end
                  end) (roots P)
            end
        end
    end.
End Cex.

Section Valid.
  Variable ty : Type.
  Variable shape : ty -> tshape ty.
  Variable variants_of : nat -> list (nat * nat).
  Hypothesis H_variants : forall t cls vs, shape t = SEnum ty cls vs ->
    variants_of cls = map (fun '(v, tys) => (v, length tys)) vs.
  Notation row_ok := (row_ok ty shape).
  Notation vals_ok := (vals_ok ty shape).
  Notation val_ok := (val_ok ty shape).

  Lemma matches_vec_firstn_skipn a v vs1 vs2 : length vs1 = a -> a <= length v ->
    matches_vec (firstn a v) vs1 && matches_vec (skipn a v) vs2 = matches_vec v (vs1 ++ vs2).
  Proof.
    intros H1 H2. rewrite <- (firstn_skipn a v) at 3. rewrite matches_vec_app; [reflexivity|].
    rewrite firstn_length. lia.
  Qed.

  (* the length of a counterexample is the number of columns *)
  Lemma cex_length : forall fuel P n v, cex variants_of fuel P n = Some (Some v) -> length v = n.
  Proof.
    induction fuel as [|fuel IH]; intros P n v H; [discriminate|]. cbn [cex] in H.
    destruct n as [|n'].
    - destruct P; inversion H; reflexivity.
    - destruct (incomplete_names variants_of (roots P)) as [names|].
      + destruct (default_matrix P) as [P'|]; [|discriminate].
        destruct (cex variants_of fuel P' n') as [[v'|]|] eqn:E; try discriminate.
        inversion H; subst. cbn. f_equal. eapply IH; eauto.
      + apply first_some_spec in H. destruct H as [[c a] [_ H]].
        destruct (specialize P c a) as [P'|]; [|discriminate].
        destruct (cex variants_of fuel P' (a + n')) as [[v'|]|] eqn:E; try discriminate.
        inversion H; subst. cbn. apply IH in E. rewrite skipn_length. lia.
  Qed.

  Theorem cex_valid : forall fuel P n ts pv,
    cex variants_of fuel P n = Some (Some pv) -> Forall (row_ok ts) P -> length ts = n ->
    forall vs, vals_ok ts vs -> matches_vec pv vs = true -> any_row P vs = false.
  Proof.
    induction fuel as [|fuel IH]; intros P n ts pv H HP Hn vs Hvs Hm; [discriminate|].
    cbn [cex] in H. destruct n as [|n'].
    - destruct P; [reflexivity|discriminate].
    - destruct ts as [|t ts]; [discriminate|]. cbn in Hn. injection Hn as Hn.
      destruct (incomplete_names variants_of (roots P)) as [names|] eqn:Hinc.
      + (* incomplete signature *)
        destruct (default_typed ty shape P t ts HP) as [P' [HdP HP']]. rewrite HdP in H.
        destruct (cex variants_of fuel P' n') as [[v|]|] eqn:E; try discriminate.
        inversion H; subst pv; clear H.
        destruct vs as [|v0 vs']; [discriminate|]. destruct Hvs as [Hv0 Hvs'].
        rewrite matches_vec_cons in Hm. apply andb_prop in Hm. destruct Hm as [Hm0 Hmv].
        specialize (IH P' n' ts v E HP' Hn vs' Hvs' Hmv).
        rewrite <- (default_sem P v0 vs' P' HdP); [exact IH|].
        apply heads_no_root.
        destruct v0 as [cv args|k]; [|exact I]. intros c n Hin.
        unfold incomplete_names in Hinc.
        destruct (has_none (roots P)) eqn:Hnone; [discriminate|].
        destruct (has_none_false _ _ _ Hnone Hin) as [[c1 c2] ->].
        destruct (root_class (roots P)) as [cls|] eqn:Hrc.
        * destruct (missing_of variants_of cls (roots P)) as [|[mv ma] ms] eqn:Hmiss; [discriminate|].
          inversion Hinc; subst names; clear Hinc. cbn -[matches] in Hm0.
          rewrite matches_ctor in Hm0. apply andb_prop in Hm0. destruct Hm0 as [Hc _].
          apply ctor_eqb_true in Hc. subst cv.
          cbn. destruct (vctor_eqb_spec (c1, c2) (cls, mv)) as [E'|]; auto. inversion E'; subst.
          exfalso.
          assert (Hin' : In (mv, ma) (missing_of variants_of cls (roots P))) by (rewrite Hmiss; cbn; auto).
          unfold missing_of in Hin'. apply filter_In in Hin'. destruct Hin' as [_ Hnot].
          apply root_names_in in Hin. apply (existsb_eqb mv) in Hin. rewrite Hin in Hnot. discriminate.
        * (* no root constructor at all *)
          exfalso. unfold root_class in Hrc.
          destruct (roots P) as [|[[[d1 d2]|] k] rs] eqn:Er; [destruct Hin|discriminate|].
          destruct (has_none_false _ None k Hnone) as [vc Hvc]; [cbn; auto|discriminate].
      + (* complete signature *)
        apply first_some_spec in H. destruct H as [[c a] [Hin H]].
        destruct (roots_typed ty shape P t ts c a HP Hin) as [tys [Hs ->]].
        destruct (specialize P c (length tys)) as [P'|] eqn:Hsp; [|discriminate].
        destruct (cex variants_of fuel P' (length tys + n')) as [[v|]|] eqn:E; try discriminate.
        inversion H; subst pv; clear H.
        pose proof (specialize_typed ty shape P t ts c tys P' HP Hs Hsp) as HP'.
        pose proof (cex_length _ _ _ _ E) as Hlen.
        destruct vs as [|v0 vs']; [discriminate|]. destruct Hvs as [Hv0 Hvs'].
        rewrite matches_vec_cons in Hm. apply andb_prop in Hm. destruct Hm as [Hm0 Hmv].
        destruct v0 as [cv args|k]; [|discriminate].
        rewrite matches_ctor in Hm0. apply andb_prop in Hm0. destruct Hm0 as [Hc Hma].
        apply ctor_eqb_true in Hc. subst cv.
        pose proof Hv0 as Hv0'. cbn [Pat.val_ok] in Hv0'. destruct Hv0' as [tys' [Hs' Hargs]].
        rewrite Hs in Hs'. inversion Hs'; subst tys'.
        assert (Hla : length args = length tys) by (eapply all2P_length; eauto).
        assert (Hall : matches_vec v (args ++ vs') = true).
        { rewrite <- (matches_vec_firstn_skipn (length tys) v args vs') by lia. now rewrite Hma, Hmv. }
        assert (Hts : length (tys ++ ts) = length tys + n') by (rewrite app_length; lia).
        pose proof (IH P' (length tys + n') (tys ++ ts) v E HP' Hts (args ++ vs')
                      (all2P_app _ _ _ _ _ Hargs Hvs') Hall) as Hno.
        rewrite <- Hla in Hsp.
        rewrite <- (specialize_sem P c args vs' P' Hsp (heads_ok_of_typed ty shape P t ts c args HP Hv0)). exact Hno.
  Qed.
End Valid.

