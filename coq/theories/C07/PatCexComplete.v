(* C07, part 5: completeness of the counterexample function relative to usefulness.

   1. cex_useful_agree (no typing, no inhabitation, any two fuels): whenever both functions answer,
        cex P n = None   <->   useful P (_ ... _) = false.
      cex walks the matrix exactly as `useful` does on a row of n wildcards.
   2. cex_typed: a returned counterexample is a well-typed pattern vector without empty alternatives,
      so (over inhabited types) it denotes at least one value vector.
   3. cex_complete: with the explicit fuel of PatCexFuel.v, for well-typed matrices over inhabited types
        cex P n = None  <->  useful P (_ ... _) = false  <->  every value vector is matched by some row
      and a returned counterexample is well typed, has an instance, and none of its instances is matched. *)
From Coq Require Import List Arith Bool Lia.
Import ListNotations.
From SV Require Import C07.Pat C07.PatFuel C07.PatCex C07.PatCexFuel.

Lemma first_some_true_agree {A B} (F : A -> option (option B)) (G : A -> option bool) l :
  (forall x rx bx, In x l -> F x = Some rx -> G x = Some bx -> (rx = None <-> bx = false)) ->
  forall r b, first_some F l = Some r -> first_true G l = Some b -> (r = None <-> b = false).
Proof.
  induction l as [|x l IH]; intros H r b Hr Hb; cbn [first_some first_true] in *.
  - inversion Hr; inversion Hb; subst. tauto.
  - destruct (F x) as [[v|]|] eqn:EF; [| |discriminate];
    (destruct (G x) as [[|]|] eqn:EG; [| |discriminate]).
    + inversion Hr; inversion Hb; subst. split; discriminate.
    + exfalso. destruct (H x (Some v) false (or_introl eq_refl) EF EG) as [_ H2]. specialize (H2 eq_refl). discriminate.
    + exfalso. destruct (H x None true (or_introl eq_refl) EF EG) as [H1 _]. specialize (H1 eq_refl). discriminate.
    + apply IH; auto. intros y ry byy Hy. apply H. now right.
Qed.

Lemma repeat_wild_app a n : repeat PWild a ++ repeat PWild n = repeat PWild (a + n).
Proof. induction a; cbn; congruence. Qed.

Section Agree.
  Variable variants_of : nat -> list (nat * nat).

  Lemma cex_nil : forall f n r, cex variants_of f [] n = Some r -> r <> None.
  Proof.
    induction f as [|f IH]; intros n r H; [discriminate|]. cbn in H.
    destruct n as [|n']; [inversion H; discriminate|].
    destruct (cex variants_of f [] n') as [[v|]|] eqn:E; try discriminate.
    - inversion H; discriminate.
    - exfalso. apply (IH _ _ E). reflexivity.
  Qed.

  (* the counterexample function and the usefulness function agree; purely structural *)
  Theorem cex_useful_agree : forall f1 f2 P n r b,
    cex variants_of f1 P n = Some r -> useful variants_of f2 P (repeat PWild n) = Some b ->
    (r = None <-> b = false).
  Proof.
    induction f1 as [|f1 IH]; intros f2 P n r b H1 H2; [discriminate|].
    destruct f2 as [|f2]; [discriminate|].
    destruct P as [|r0 P0].
    { (* no rows *)
      cbn [useful] in H2. inversion H2; subst b. pose proof (cex_nil _ _ _ H1). split; [tauto|discriminate]. }
    remember (r0 :: P0) as P eqn:EP.
    cbn [cex] in H1. cbn [useful] in H2. rewrite EP in H2 at 1.
    destruct n as [|n']; cbn [repeat] in H2.
    { rewrite EP in H1 at 1. inversion H1; inversion H2; subst. tauto. }
    destruct (incomplete_names variants_of (roots P)) as [names|].
    - destruct (default_matrix P) as [P'|]; [|discriminate].
      destruct (cex variants_of f1 P' n') as [[v|]|] eqn:E; try discriminate.
      + inversion H1; subst r. pose proof (IH f2 P' n' (Some v) b E H2) as A.
        split; [discriminate|]. intros Hb. apply A in Hb. discriminate.
      + inversion H1; subst r. exact (IH f2 P' n' None b E H2).
    - eapply first_some_true_agree; [|exact H1|exact H2].
      intros [c a] rx bx _ Hx Hy. cbn beta iota in Hx, Hy.
      destruct (specialize P c a) as [P'|]; [|discriminate].
      rewrite repeat_wild_app in Hy.
      destruct (cex variants_of f1 P' (a + n')) as [[v|]|] eqn:E; try discriminate.
      + inversion Hx; subst rx. pose proof (IH f2 P' (a + n') (Some v) bx E Hy) as A.
        split; [discriminate|]. intros Hb. apply A in Hb. discriminate.
      + inversion Hx; subst rx. exact (IH f2 P' (a + n') None bx E Hy).
  Qed.
End Agree.

(* the first missing variant is the one `lookup` finds: no hypothesis on duplicate variant names is needed *)
Lemma filter_head_lookup {T} (pred : nat -> bool) : forall (vars : list (nat * list T)) mv ma ms,
  filter (fun '(v, _) => pred v) (map (fun '(v, tys) => (v, length tys)) vars) = (mv, ma) :: ms ->
  exists tys, lookup mv vars = Some tys /\ length tys = ma.
Proof.
  induction vars as [|[v tys] vars IH]; intros mv ma ms H; cbn in H; [discriminate|].
  destruct (pred v) eqn:Ev.
  - inversion H; subst. exists tys. cbn. now rewrite Nat.eqb_refl.
  - destruct (IH mv ma ms H) as [tys' [Hl Hlen]]. exists tys'. split; auto.
    cbn. destruct (Nat.eqb_spec mv v) as [->|]; auto.
    assert (Hin : In (v, ma) (filter (fun '(v, _) => pred v) (map (fun '(v, tys) => (v, length tys)) vars)))
      by (rewrite H; cbn; auto).
    apply filter_In in Hin. destruct Hin as [_ Hp]. congruence.
Qed.

Lemma allP_repeat_wild n : allP no_empty_or (repeat PWild n).
Proof. induction n; cbn; auto. Qed.

Lemma allP_firstn {A} (Q : A -> Prop) a l : allP Q l -> allP Q (firstn a l).
Proof. revert a; induction l as [|x l IH]; intros [|a]; cbn; auto. intros [H1 H2]; auto. Qed.

Lemma allP_skipn {A} (Q : A -> Prop) a l : allP Q l -> allP Q (skipn a l).
Proof. revert a; induction l as [|x l IH]; intros [|a]; cbn; auto. intros [H1 H2]; auto. Qed.

Section Complete.
  Variable ty : Type.
  Variable shape : ty -> tshape ty.
  Variable variants_of : nat -> list (nat * nat).
  Hypothesis H_variants : forall t cls vs, shape t = SEnum ty cls vs ->
    variants_of cls = map (fun '(v, tys) => (v, length tys)) vs.
  Notation row_ok := (row_ok ty shape).
  Notation vals_ok := (vals_ok ty shape).
  Notation val_ok := (val_ok ty shape).
  Notation pat_ok := (pat_ok ty shape).

  (* the head invented for an incomplete signature is a pattern of the column type *)
  Lemma missing_head_typed P t ts c a names :
    Forall (row_ok (t :: ts)) P -> incomplete_names variants_of (roots P) = Some ((c, a) :: names) ->
    pat_ok (PCtor (Some c) (repeat PWild a)) t.
  Proof.
    intros HP Hinc. unfold incomplete_names in Hinc.
    destruct (has_none (roots P)) eqn:Hn; [discriminate|].
    destruct (root_class (roots P)) as [cls|] eqn:Hrc; [|discriminate].
    destruct (missing_of variants_of cls (roots P)) as [|[mv ma] ms] eqn:Hm; [discriminate|].
    inversion Hinc; subst c a names; clear Hinc.
    assert (exists v0 n0, In (Some (cls, v0), n0) (roots P)) as [v0 [n0 Hin0]].
    { unfold root_class in Hrc. destruct (roots P) as [|[[[c1 c2]|] n] rs]; try discriminate.
      inversion Hrc; subst. exists c2, n; cbn; auto. }
    destruct (roots_typed ty shape _ _ _ _ _ HP Hin0) as [tys0 [Hs0 _]].
    unfold ctor_sig in Hs0. destruct (shape t) as [|cls' vars|fs] eqn:Hsh; try discriminate.
    destruct (Nat.eqb_spec cls' cls); [subst cls'|discriminate].
    unfold missing_of in Hm. rewrite (H_variants _ _ _ Hsh) in Hm.
    destruct (filter_head_lookup _ _ _ _ _ Hm) as [tys [Hl Hlen]].
    cbn [Pat.pat_ok]. exists tys. split.
    - unfold ctor_sig. rewrite Hsh, Nat.eqb_refl. exact Hl.
    - rewrite <- Hlen. apply all2P_wilds.
  Qed.

  (* a returned counterexample is a well-typed pattern vector without empty alternatives *)
  Theorem cex_typed : forall fuel P ts pv,
    cex variants_of fuel P (length ts) = Some (Some pv) -> Forall (row_ok ts) P ->
    row_ok ts pv /\ allP no_empty_or pv.
  Proof.
    induction fuel as [|fuel IH]; intros P ts pv H HP; [discriminate|].
    cbn [cex] in H. destruct ts as [|t ts]; cbn [length] in H.
    - destruct P; inversion H; subst. split; exact I.
    - destruct (incomplete_names variants_of (roots P)) as [names|] eqn:Hinc.
      + destruct (default_typed ty shape P t ts HP) as [P' [HdP HP']]. rewrite HdP in H.
        destruct (cex variants_of fuel P' (length ts)) as [[v|]|] eqn:E; try discriminate.
        inversion H; subst pv; clear H.
        destruct (IH P' ts v E HP') as [Hv Hne].
        destruct names as [|[c a] names].
        * split; [split; [exact I|exact Hv]|split; [exact I|exact Hne]].
        * split; [split; [eapply missing_head_typed; eauto|exact Hv]|].
          split; [cbn [no_empty_or]; apply allP_repeat_wild|exact Hne].
      + apply first_some_spec in H. destruct H as [[c a] [Hin H]].
        destruct (roots_typed ty shape P t ts c a HP Hin) as [tys [Hs ->]].
        destruct (specialize P c (length tys)) as [P'|] eqn:Hsp; [|discriminate].
        destruct (cex variants_of fuel P' (length tys + length ts)) as [[v|]|] eqn:E; try discriminate.
        inversion H; subst pv; clear H.
        pose proof (specialize_typed ty shape P t ts c tys P' HP Hs Hsp) as HP'.
        rewrite <- app_length in E.
        destruct (IH P' (tys ++ ts) v E HP') as [Hv Hne].
        pose proof (all2P_length _ _ _ Hv) as Hlen. rewrite app_length in Hlen.
        assert (Hfl : length (firstn (length tys) v) = length tys) by (rewrite firstn_length; lia).
        unfold Pat.row_ok in Hv. rewrite <- (firstn_skipn (length tys) v) in Hv.
        destruct (all2P_app_inv _ _ _ _ _ Hfl Hv) as [Hv1 Hv2].
        split.
        * split; [|exact Hv2]. cbn [Pat.pat_ok]. exists tys; split; auto.
        * split; [cbn [no_empty_or]; now apply allP_firstn|now apply allP_skipn].
  Qed.

  Hypothesis H_inhabited : forall t, exists v, val_ok v t.

  (* ... hence it denotes at least one value vector, and (cex_valid) none of them is matched *)
  Theorem cex_inhabited : forall fuel P ts pv,
    cex variants_of fuel P (length ts) = Some (Some pv) -> Forall (row_ok ts) P ->
    exists vs, vals_ok ts vs /\ matches_vec pv vs = true /\ any_row P vs = false.
  Proof.
    intros fuel P ts pv H HP. destruct (cex_typed fuel P ts pv H HP) as [Hv Hne].
    destruct (vec_inhabited ty shape H_inhabited pv ts Hv Hne) as [vs [Hvs Hm]].
    exists vs. split; auto. split; auto.
    eapply (cex_valid ty shape variants_of fuel P (length ts) ts pv); eauto.
  Qed.

  Lemma wild_row_ok ts : row_ok ts (repeat PWild (length ts)).
  Proof. apply all2P_wilds. Qed.

  Lemma no_witness_iff_exhaustive P ts :
    ~ witness ty shape ts P (repeat PWild (length ts)) <-> (forall vs, vals_ok ts vs -> any_row P vs = true).
  Proof.
    split.
    - intros H vs Hvs. destruct (any_row P vs) eqn:E; auto. exfalso. apply H.
      exists vs. split; auto. split; auto. apply matches_vec_wilds.
      unfold Pat.vals_ok in Hvs. now apply all2P_length in Hvs.
    - intros H [vs [Hvs [_ Hn]]]. rewrite (H vs Hvs) in Hn. discriminate.
  Qed.

  (* the main theorem: with the explicit fuel, the counterexample function is complete and exact *)
  Theorem cex_complete : forall fuel P ts,
    Forall (row_ok ts) P -> cex_fuel P (length ts) <= fuel ->
    exists r, cex variants_of fuel P (length ts) = Some r /\
      (r = None <-> useful variants_of fuel P (repeat PWild (length ts)) = Some false) /\
      (r = None <-> forall vs, vals_ok ts vs -> any_row P vs = true) /\
      (forall pv, r = Some pv ->
         row_ok ts pv /\
         (exists vs, vals_ok ts vs /\ matches_vec pv vs = true) /\
         (forall vs, vals_ok ts vs -> matches_vec pv vs = true -> any_row P vs = false)).
  Proof.
    intros fuel P ts HP Hle.
    destruct (cex variants_of fuel P (length ts)) as [r|] eqn:Ec;
      [|exfalso; eapply cex_fuel_sufficient; eauto].
    assert (Hphi : Phi P (repeat PWild (length ts)) < fuel) by (rewrite cex_fuel_Phi in Hle; lia).
    destruct (useful variants_of fuel P (repeat PWild (length ts))) as [b|] eqn:Eu;
      [|exfalso; eapply (fuel_sufficient ty shape variants_of fuel P _ ts); eauto using wild_row_ok].
    pose proof (cex_useful_agree variants_of fuel fuel P (length ts) r b Ec Eu) as A.
    pose proof (useful_exact ty shape variants_of H_variants H_inhabited fuel P _ ts b Eu HP
                  (wild_row_ok ts) (allP_repeat_wild _)) as U.
    exists r. split; [reflexivity|]. split; [|split].
    - rewrite A. split; [intros ->; reflexivity|intros E; inversion E; reflexivity].
    - rewrite A, <- no_witness_iff_exhaustive. rewrite <- U. destruct b; split; intros; try discriminate; auto.
      exfalso; auto.
    - intros pv ->. destruct (cex_typed fuel P ts pv Ec HP) as [Hv Hne]. split; [exact Hv|]. split.
      + destruct (cex_inhabited fuel P ts pv Ec HP) as [vs [H1 [H2 _]]]. eauto.
      + intros vs Hvs Hm. eapply (cex_valid ty shape variants_of fuel P (length ts) ts pv); eauto.
  Qed.
End Complete.
