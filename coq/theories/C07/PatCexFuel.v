(* C07, part 4: the recursion of the counterexample function `cex`
   (incomplete_counterexample_internal, pattern_matching.rs 332-379) terminates within an explicit
   bound, and above that bound its result does not depend on the fuel.

   Measure: the one of PatFuel.v with the column count n in place of the size of q
   (cex P n walks the matrix exactly as `useful P (repeat PWild n)` does):
     - incomplete signature: default matrix (weight and arity do not grow), n - 1 columns;
     - complete signature:   specialisation by a ROOT constructor (the weight strictly decreases because some
       row starts with a constructor), a + n - 1 columns with a <= the largest arity in the matrix.
   The real function has no other recursive call, so it cannot revisit a matrix: no non-termination. *)
From Coq Require Import List Arith Bool Lia.
Import ListNotations.
From SV Require Import C07.Pat C07.PatFuel C07.PatCex.

Definition cex_fuel (P : matrix) (n : nat) : nat := S (Msum P * S (Amax P) + n).

Lemma cex_fuel_Phi P n : cex_fuel P n = S (Phi P (repeat PWild n)).
Proof. unfold cex_fuel, Phi. now rewrite Ssum_wilds. Qed.

Lemma first_some_mono {A B} (f g : A -> option (option B)) l :
  (forall x r, In x l -> f x = Some r -> g x = Some r) ->
  forall r, first_some f l = Some r -> first_some g l = Some r.
Proof.
  induction l as [|x l IH]; intros H r Hr; cbn [first_some] in *; [exact Hr|].
  destruct (f x) as [[b|]|] eqn:E; [| |discriminate].
  - rewrite (H x (Some b) (or_introl eq_refl) E). exact Hr.
  - rewrite (H x None (or_introl eq_refl) E). apply IH; auto. intros y ry Hy. apply H. now right.
Qed.

Lemma first_some_defined {A B} (f : A -> option (option B)) l :
  (forall x, In x l -> f x <> None) -> first_some f l <> None.
Proof.
  induction l as [|x l IH]; intros H; cbn [first_some]; [discriminate|].
  destruct (f x) as [[b|]|] eqn:E; [discriminate| |exfalso; apply (H x); cbn; auto].
  apply IH. intros y Hy. apply H. now right.
Qed.

Section CexFuel.
  Variable ty : Type.
  Variable shape : ty -> tshape ty.
  Variable variants_of : nat -> list (nat * nat).
  Notation row_ok := (row_ok ty shape).

  (* more fuel never changes an answer *)
  Lemma cex_mono : forall f P n r, cex variants_of f P n = Some r ->
    forall f', f <= f' -> cex variants_of f' P n = Some r.
  Proof.
    induction f as [|f IH]; intros P n r H f' Hle; [discriminate|].
    destruct f' as [|f']; [lia|]. assert (Hle' : f <= f') by lia.
    cbn [cex] in *. destruct n as [|n']; [exact H|].
    destruct (incomplete_names variants_of (roots P)) as [names|].
    - destruct (default_matrix P) as [P'|]; [|discriminate].
      destruct (cex variants_of f P' n') as [o|] eqn:E; [|discriminate].
      rewrite (IH _ _ _ E f' Hle'). exact H.
    - revert H. apply first_some_mono. intros [c a] rx _ Hx.
      destruct (specialize P c a) as [P'|]; [|discriminate].
      destruct (cex variants_of f P' (a + n')) as [o|] eqn:E; [|discriminate].
      rewrite (IH _ _ _ E f' Hle'). exact Hx.
  Qed.

  (* the explicit bound is enough: the out-of-fuel value is never returned *)
  Theorem cex_fuel_sufficient : forall fuel P ts,
    Forall (row_ok ts) P -> cex_fuel P (length ts) <= fuel -> cex variants_of fuel P (length ts) <> None.
  Proof.
    induction fuel as [|fuel IH]; intros P ts HP Hle; [unfold cex_fuel in Hle; lia|].
    cbn [cex]. destruct ts as [|t ts]; cbn [length]; [discriminate|].
    unfold cex_fuel in Hle. cbn [length] in Hle.
    destruct (incomplete_names variants_of (roots P)) as [names|] eqn:Hinc.
    - destruct (default_typed ty shape P t ts HP) as [P' [HdP HP']]. rewrite HdP.
      assert (Hb : cex_fuel P' (length ts) <= fuel).
      { pose proof (default_weight P P' HdP). pose proof (default_ar P P' HdP). unfold cex_fuel. nia. }
      specialize (IH P' ts HP' Hb).
      destruct (cex variants_of fuel P' (length ts)) as [[v|]|]; congruence.
    - apply first_some_defined. intros [c a] Hin.
      destruct (roots_typed ty shape P t ts c a HP Hin) as [tys [Hs ->]].
      destruct (specialize P c (length tys)) as [P'|] eqn:Hsp;
        [|destruct (specialize_defined ty shape P t ts c (length tys) HP) as [x Hx]; congruence].
      pose proof (specialize_typed ty shape P t ts c tys P' HP Hs Hsp) as HP'.
      assert (Hb : cex_fuel P' (length (tys ++ ts)) <= fuel).
      { assert (Hne : roots P <> []) by (intros E; rewrite E in Hin; destruct Hin).
        pose proof (specialize_weight_strict P c (length tys) P' Hsp Hne).
        pose proof (specialize_ar P c (length tys) P' Hsp).
        pose proof (roots_arity P c (length tys) Hin).
        unfold cex_fuel. rewrite app_length. nia. }
      specialize (IH P' (tys ++ ts) HP' Hb). rewrite app_length in IH.
      destruct (cex variants_of fuel P' (length tys + length ts)) as [[v|]|]; congruence.
  Qed.

  (* above the bound the answer is one and the same *)
  Theorem cex_fuel_independent : forall P ts, Forall (row_ok ts) P ->
    exists r, forall fuel, cex_fuel P (length ts) <= fuel -> cex variants_of fuel P (length ts) = Some r.
  Proof.
    intros P ts HP.
    destruct (cex variants_of (cex_fuel P (length ts)) P (length ts)) as [r|] eqn:E.
    - exists r. intros fuel Hle. eapply cex_mono; eauto.
    - exfalso. eapply cex_fuel_sufficient; eauto.
  Qed.

  Corollary cex_fuel_stable : forall P ts f1 f2, Forall (row_ok ts) P ->
    cex_fuel P (length ts) <= f1 -> cex_fuel P (length ts) <= f2 ->
    cex variants_of f1 P (length ts) = cex variants_of f2 P (length ts) /\
    cex variants_of f1 P (length ts) <> None.
  Proof.
    intros P ts f1 f2 HP H1 H2. destruct (cex_fuel_independent P ts HP) as [r Hr].
    rewrite (Hr f1 H1), (Hr f2 H2). split; [reflexivity|discriminate].
  Qed.
End CexFuel.

(* ---- the same monotonicity for `useful`: with fuel_sufficient, its answer is fuel independent too ---- *)
Lemma first_true_mono {A} (f g : A -> option bool) l :
  (forall x b, In x l -> f x = Some b -> g x = Some b) ->
  forall b, first_true f l = Some b -> first_true g l = Some b.
Proof.
  induction l as [|x l IH]; intros H b Hb; cbn [first_true] in *; [exact Hb|].
  destruct (f x) as [[|]|] eqn:E; [| |discriminate].
  - rewrite (H x true (or_introl eq_refl) E). exact Hb.
  - rewrite (H x false (or_introl eq_refl) E). apply IH; auto. intros y ry Hy. apply H. now right.
Qed.

Lemma useful_mono variants_of : forall f P q b, useful variants_of f P q = Some b ->
  forall f', f <= f' -> useful variants_of f' P q = Some b.
Proof.
  induction f as [|f IH]; intros P q b H f' Hle; [discriminate|].
  destruct f' as [|f']; [lia|]. assert (Hle' : f <= f') by lia.
  cbn [useful] in *. destruct P as [|r0 P0]; [exact H|].
  remember (r0 :: P0) as P eqn:EP.
  destruct q as [|[|c rs|ps] q_rest]; [exact H| | |].
  - destruct (incomplete_names variants_of (roots P)) as [names|].
    + destruct (default_matrix P) as [P'|]; [|discriminate]. apply (IH _ _ _ H f' Hle').
    + revert H. apply first_true_mono. intros [c a] bx _ Hx.
      destruct (specialize P c a) as [P'|]; [|discriminate]. apply (IH _ _ _ Hx f' Hle').
  - destruct (specialize P c (length rs)) as [P'|]; [|discriminate]. apply (IH _ _ _ H f' Hle').
  - revert H. apply first_true_mono. intros p bx _ Hx. apply (IH _ _ _ Hx f' Hle').
Qed.
