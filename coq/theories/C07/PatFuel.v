(* C07 prototype, part 2: the fuel given to `useful` is never exhausted.
   Measure: rows weigh the product of their pattern weights (so that expanding an
   or-pattern or peeling a constructor strictly decreases the weight of the row),
   combined with the size of q and a bound on constructor arities. *)
From Coq Require Import List Arith Bool Lia.
Import ListNotations.
From SV Require Import C07.Pat.

Fixpoint w (p : pat) : nat :=
  match p with
  | PWild => 1
  | PCtor _ ps => 1 + (fix go (l : list pat) : nat := match l with [] => 1 | q :: l' => w q * go l' end) ps
  | POr ps => 1 + (fix go (l : list pat) : nat := match l with [] => 0 | q :: l' => w q + go l' end) ps
  end.
Fixpoint W (r : row) : nat := match r with [] => 1 | p :: r' => w p * W r' end.
Fixpoint Wsum (r : list pat) : nat := match r with [] => 0 | p :: r' => w p + Wsum r' end.
Fixpoint Msum (P : matrix) : nat := match P with [] => 0 | r :: P' => W r + Msum P' end.
Lemma w_ctor c ps : w (PCtor c ps) = 1 + W ps. Proof. reflexivity. Qed.
Lemma w_or ps : w (POr ps) = 1 + Wsum ps. Proof. reflexivity. Qed.

Fixpoint sz (p : pat) : nat :=
  match p with
  | PWild => 1
  | PCtor _ ps => 1 + (fix go (l : list pat) : nat := match l with [] => 0 | q :: l' => sz q + go l' end) ps
  | POr ps => 1 + (fix go (l : list pat) : nat := match l with [] => 0 | q :: l' => sz q + go l' end) ps
  end.
Fixpoint Ssum (r : row) : nat := match r with [] => 0 | p :: r' => sz p + Ssum r' end.
Lemma sz_ctor c ps : sz (PCtor c ps) = 1 + Ssum ps. Proof. reflexivity. Qed.
Lemma sz_or ps : sz (POr ps) = 1 + Ssum ps. Proof. reflexivity. Qed.

Fixpoint ar (p : pat) : nat :=
  match p with
  | PWild => 0
  | PCtor _ ps => Nat.max (length ps) ((fix go (l : list pat) : nat := match l with [] => 0 | q :: l' => Nat.max (ar q) (go l') end) ps)
  | POr ps => (fix go (l : list pat) : nat := match l with [] => 0 | q :: l' => Nat.max (ar q) (go l') end) ps
  end.
Fixpoint Ar (r : row) : nat := match r with [] => 0 | p :: r' => Nat.max (ar p) (Ar r') end.
Fixpoint Amax (P : matrix) : nat := match P with [] => 0 | r :: P' => Nat.max (Ar r) (Amax P') end.
Lemma ar_ctor c ps : ar (PCtor c ps) = Nat.max (length ps) (Ar ps). Proof. reflexivity. Qed.
Lemma ar_or ps : ar (POr ps) = Ar ps. Proof. reflexivity. Qed.

Lemma w_pos p : 1 <= w p. Proof. destruct p; [cbn; lia|rewrite w_ctor; lia|rewrite w_or; lia]. Qed.
Lemma W_pos r : 1 <= W r.
Proof. induction r as [|p r IH]; cbn [W]; [lia|]. pose proof (w_pos p). nia. Qed.
Lemma W_app a b : W (a ++ b) = W a * W b.
Proof. induction a as [|p a IH]; cbn [W app]; [lia|]. rewrite IH. lia. Qed.
Lemma W_wilds n : W (repeat PWild n) = 1.
Proof. induction n; cbn [W repeat w]; auto. rewrite IHn. reflexivity. Qed.
Lemma Msum_app a b : Msum (a ++ b) = Msum a + Msum b.
Proof. induction a as [|r a IH]; cbn [Msum app]; [lia|]. rewrite IH. lia. Qed.
Lemma Ssum_app a b : Ssum (a ++ b) = Ssum a + Ssum b.
Proof. induction a as [|p a IH]; cbn [Ssum app]; [lia|]. rewrite IH. lia. Qed.
Lemma Ssum_wilds n : Ssum (repeat PWild n) = n.
Proof. induction n; cbn [Ssum repeat sz]; auto. Qed.
Lemma Ar_app a b : Ar (a ++ b) = Nat.max (Ar a) (Ar b).
Proof. induction a as [|p a IH]; cbn [Ar app]; [lia|]. rewrite IH. lia. Qed.
Lemma Ar_wilds n : Ar (repeat PWild n) = 0.
Proof. induction n; cbn [Ar repeat]; auto. Qed.
Lemma Amax_app a b : Amax (a ++ b) = Nat.max (Amax a) (Amax b).
Proof. induction a as [|r a IH]; cbn [Amax app]; [lia|]. rewrite IH. lia. Qed.

(* one head pattern: total weight of the rows it expands to *)
Lemma spec_pat_weight p : forall rest c n,
  Msum (spec_pat p rest c n) <= w p * W rest /\ (p <> PWild -> Msum (spec_pat p rest c n) < w p * W rest).
Proof.
  induction p as [|c' ps IH|ps IH] using pat_ind'; intros rest c n; pose proof (W_pos rest) as Hr.
  - cbn [spec_pat Msum w]. rewrite W_app, W_wilds. split; [lia|congruence].
  - cbn [spec_pat]. rewrite w_ctor. pose proof (W_pos ps). destruct (ctor_skip c' c); cbn [Msum].
    + split; [nia|intros _; nia].
    + rewrite W_app. split; [nia|intros _; nia].
  - cbn [spec_pat]. rewrite w_or.
    assert (H : Msum (flat_map (fun p => spec_pat p rest c n) ps) <= Wsum ps * W rest).
    { induction ps as [|p ps IHps]; cbn [flat_map Wsum Msum]; [lia|].
      inversion IH as [|? ? Hp Hps]; subst. rewrite Msum_app.
      destruct (Hp rest c n) as [H1 _]. specialize (IHps Hps). nia. }
    split; [nia|intros _; nia].
Qed.

Lemma default_pat_weight p : forall rest, Msum (default_pat p rest) <= w p * W rest.
Proof.
  induction p as [|c' ps IH|ps IH] using pat_ind'; intros rest; pose proof (W_pos rest) as Hr.
  - cbn [default_pat Msum w]. lia.
  - cbn [default_pat Msum]. lia.
  - cbn [default_pat]. rewrite w_or.
    assert (H : Msum (flat_map (fun p => default_pat p rest) ps) <= Wsum ps * W rest).
    { induction ps as [|p ps IHps]; cbn [flat_map Wsum Msum]; [lia|].
      inversion IH as [|? ? Hp Hps]; subst. rewrite Msum_app. specialize (Hp rest). specialize (IHps Hps). nia. }
    nia.
Qed.

Lemma specialize_weight P : forall c n P', specialize P c n = Some P' -> Msum P' <= Msum P.
Proof.
  induction P as [|r P IH]; intros c n P' H; cbn [specialize] in H.
  - inversion H; subst; cbn; lia.
  - destruct r as [|p rest]; cbn [spec_row] in H; [discriminate|].
    destruct (specialize P c n) as [b|] eqn:E; [|discriminate]. inversion H; subst; clear H.
    rewrite Msum_app. cbn [Msum W].
    destruct (spec_pat_weight p rest c n) as [H1 _]. specialize (IH c n b E). lia.
Qed.

Lemma default_weight P : forall P', default_matrix P = Some P' -> Msum P' <= Msum P.
Proof.
  induction P as [|r P IH]; intros P' H; cbn [default_matrix] in H.
  - inversion H; subst; cbn; lia.
  - destruct r as [|p rest]; cbn [default_row] in H; [discriminate|].
    destruct (default_matrix P) as [b|] eqn:E; [|discriminate]. inversion H; subst; clear H.
    rewrite Msum_app. cbn [Msum W].
    pose proof (default_pat_weight p rest). specialize (IH b eq_refl). lia.
Qed.

Lemma roots_pat_nil_wild p : roots_pat p = [] -> forall rest c n, Msum (spec_pat p rest c n) <= w p * W rest.
Proof. intros _ rest c n. apply spec_pat_weight. Qed.

Lemma roots_pat_nonwild p : roots_pat p <> [] -> p <> PWild.
Proof. intros H E. subst. cbn in H. congruence. Qed.

(* if some row has a constructor at its head (possibly under `Or`), specialising
   strictly decreases the weight *)
Lemma specialize_weight_strict P : forall c n P', specialize P c n = Some P' -> roots P <> [] -> Msum P' < Msum P.
Proof.
  induction P as [|r P IH]; intros c n P' H Hr; cbn [specialize] in H.
  - cbn in Hr. congruence.
  - destruct r as [|p rest]; cbn [spec_row] in H; [discriminate|].
    destruct (specialize P c n) as [b|] eqn:E; [|discriminate]. inversion H; subst; clear H.
    rewrite Msum_app. cbn [Msum W].
    destruct (spec_pat_weight p rest c n) as [H1 H2].
    pose proof (specialize_weight P c n b E) as Hle.
    unfold roots in Hr. cbn [flat_map] in Hr.
    destruct (roots_pat p) eqn:Erp.
    + cbn [app] in Hr. specialize (IH c n b E Hr). lia.
    + assert (p <> PWild) by (apply roots_pat_nonwild; congruence). specialize (H2 H). lia.
Qed.

(* ---------------- arities ---------------- *)
Lemma Ar_in p r : In p r -> ar p <= Ar r.
Proof. induction r as [|q r IH]; cbn [Ar In]; [tauto|]. intros [->|H]; [lia|specialize (IH H); lia]. Qed.

Lemma roots_pat_arity p : forall c n, In (c, n) (roots_pat p) -> n <= ar p.
Proof.
  induction p as [|c' ps IH|ps IH] using pat_ind'; intros c n H; cbn [roots_pat] in H.
  - destruct H.
  - destruct H as [E|[]]. inversion E; subst. rewrite ar_ctor. lia.
  - rewrite ar_or. apply in_flat_map in H. destruct H as [p [Hp H]].
    rewrite Forall_forall in IH. specialize (IH p Hp c n H). pose proof (Ar_in p ps Hp). lia.
Qed.

Lemma Amax_in r P : In r P -> Ar r <= Amax P.
Proof. induction P as [|q P IH]; cbn [Amax In]; [tauto|]. intros [->|H]; [lia|specialize (IH H); lia]. Qed.

Lemma roots_arity P c n : In (c, n) (roots P) -> n <= Amax P.
Proof.
  unfold roots. intros H. apply in_flat_map in H. destruct H as [r [Hr H]].
  destruct r as [|p rest]; [destruct H|]. pose proof (roots_pat_arity p c n H). pose proof (Amax_in _ _ Hr).
  cbn [Ar] in *. lia.
Qed.

Lemma spec_pat_ar p : forall rest c n, Amax (spec_pat p rest c n) <= Nat.max (ar p) (Ar rest).
Proof.
  induction p as [|c' ps IH|ps IH] using pat_ind'; intros rest c n.
  - cbn [spec_pat Amax]. rewrite Ar_app, Ar_wilds. lia.
  - cbn [spec_pat]. rewrite ar_ctor. destruct (ctor_skip c' c); cbn [Amax]; [lia|]. rewrite Ar_app. lia.
  - cbn [spec_pat]. rewrite ar_or.
    induction ps as [|p ps IHps]; cbn [flat_map Amax Ar]; [lia|].
    inversion IH as [|? ? Hp Hps]; subst. rewrite Amax_app. specialize (Hp rest c n). specialize (IHps Hps). lia.
Qed.

Lemma default_pat_ar p : forall rest, Amax (default_pat p rest) <= Nat.max (ar p) (Ar rest).
Proof.
  induction p as [|c' ps IH|ps IH] using pat_ind'; intros rest.
  - cbn [default_pat Amax]. lia.
  - cbn [default_pat Amax]. lia.
  - cbn [default_pat]. rewrite ar_or.
    induction ps as [|p ps IHps]; cbn [flat_map Amax Ar]; [lia|].
    inversion IH as [|? ? Hp Hps]; subst. rewrite Amax_app. specialize (Hp rest). specialize (IHps Hps). lia.
Qed.

Lemma specialize_ar P : forall c n P', specialize P c n = Some P' -> Amax P' <= Amax P.
Proof.
  induction P as [|r P IH]; intros c n P' H; cbn [specialize] in H.
  - inversion H; subst; cbn; lia.
  - destruct r as [|p rest]; cbn [spec_row] in H; [discriminate|].
    destruct (specialize P c n) as [b|] eqn:E; [|discriminate]. inversion H; subst; clear H.
    rewrite Amax_app. cbn [Amax Ar]. pose proof (spec_pat_ar p rest c n). specialize (IH c n b E). lia.
Qed.

Lemma default_ar P : forall P', default_matrix P = Some P' -> Amax P' <= Amax P.
Proof.
  induction P as [|r P IH]; intros P' H; cbn [default_matrix] in H.
  - inversion H; subst; cbn; lia.
  - destruct r as [|p rest]; cbn [default_row] in H; [discriminate|].
    destruct (default_matrix P) as [b|] eqn:E; [|discriminate]. inversion H; subst; clear H.
    rewrite Amax_app. cbn [Amax Ar]. pose proof (default_pat_ar p rest). specialize (IH b eq_refl). lia.
Qed.

Lemma first_true_some {A} (f : A -> option bool) l : (forall x, In x l -> f x <> None) -> first_true f l <> None.
Proof.
  induction l as [|x l IH]; intros H; cbn [first_true]; [discriminate|].
  destruct (f x) as [[|]|] eqn:E; [discriminate| |exfalso; apply (H x); cbn; auto].
  apply IH. intros y Hy. apply H. cbn; auto.
Qed.

Lemma sz_in p ps : In p ps -> sz p <= Ssum ps.
Proof. induction ps as [|q ps IH]; cbn [Ssum In]; [tauto|]. intros [->|H]; [lia|specialize (IH H); lia]. Qed.

(* ---------------- the measure and the theorem ---------------- *)
Definition Phi (P : matrix) (q : row) : nat := Msum P * S (Amax P) + Ssum q.

Section Fuel.
  Variable ty : Type.
  Variable shape : ty -> tshape ty.
  Variable variants_of : nat -> list (nat * nat).
  Notation row_ok := (row_ok ty shape).

  Theorem fuel_sufficient : forall fuel P q ts,
    Forall (row_ok ts) P -> row_ok ts q -> Phi P q < fuel -> useful variants_of fuel P q <> None.
  Proof.
    induction fuel as [|fuel IH]; intros P q ts HP Hq Hlt; [lia|].
    cbn [useful]. destruct P as [|r0 P0]; [discriminate|].
    remember (r0 :: P0) as P eqn:EP.
    destruct q as [|qh q_rest]; [discriminate|].
    destruct ts as [|t ts]; [destruct Hq|]. destruct Hq as [Hqh Hqr].
    unfold Phi in Hlt. cbn [Ssum] in Hlt.
    destruct qh as [|c rs|ps].
    - (* wildcard *)
      cbn [sz] in Hlt.
      destruct (incomplete_names variants_of (roots P)) as [l|] eqn:Hinc.
      + destruct (default_typed ty shape P t ts HP) as [P' [HdP HP']]. rewrite HdP.
        apply (IH P' q_rest ts HP' Hqr).
        pose proof (default_weight P P' HdP). pose proof (default_ar P P' HdP). unfold Phi. nia.
      + apply first_true_some. intros [c n] Hin.
        destruct (roots_typed ty shape P t ts c n HP Hin) as [tys [Hs ->]].
        destruct (specialize P c (length tys)) as [P'|] eqn:Hsp;
          [|destruct (specialize_defined ty shape P t ts c (length tys) HP) as [x Hx]; congruence].
        pose proof (specialize_typed ty shape P t ts c tys P' HP Hs Hsp) as HP'.
        apply (IH P' _ (tys ++ ts) HP').
        * apply all2P_app; auto. apply all2P_wilds.
        * assert (Hne : roots P <> []) by (intros E; rewrite E in Hin; destruct Hin).
          pose proof (specialize_weight_strict P c (length tys) P' Hsp Hne).
          pose proof (specialize_ar P c (length tys) P' Hsp).
          pose proof (roots_arity P c (length tys) Hin).
          unfold Phi. rewrite Ssum_app, Ssum_wilds. nia.
    - (* constructor *)
      rewrite sz_ctor in Hlt.
      cbn [pat_ok] in Hqh. destruct Hqh as [tys [Hs Hrs]].
      assert (Hl : length rs = length tys) by (eapply all2P_length; eauto).
      destruct (specialize P c (length rs)) as [P'|] eqn:Hsp;
        [|destruct (specialize_defined ty shape P t ts c (length rs) HP) as [x Hx]; congruence].
      pose proof Hsp as Hsp'. rewrite Hl in Hsp'.
      pose proof (specialize_typed ty shape P t ts c tys P' HP Hs Hsp') as HP'.
      apply (IH P' _ (tys ++ ts) HP').
      * apply all2P_app; auto.
      * pose proof (specialize_weight P c (length rs) P' Hsp). pose proof (specialize_ar P c (length rs) P' Hsp).
        unfold Phi. rewrite Ssum_app. nia.
    - (* or *)
      rewrite sz_or in Hlt. cbn [pat_ok] in Hqh. apply allP_Forall in Hqh. rewrite Forall_forall in Hqh.
      apply first_true_some. intros p Hin.
      apply (IH P (p :: q_rest) (t :: ts) HP); [split; auto|].
      pose proof (sz_in p ps Hin). unfold Phi. cbn [Ssum]. lia.
  Qed.
End Fuel.

