(* C07, part 6: what the inhabitation hypothesis (H_inhabited) is needed for, and what it is not.

   The real checker has no inhabitation analysis: `class Never(N(Never)) {}` is an accepted declaration and the
   algorithm treats every declared variant as if it had values.

   NOT needed (this file, first half): the safety direction.  For EVERY type environment,
     useful P q = false  ->  every well-typed value vector matching q is matched by some row of P
   hence a match the checker accepts (cex = None) is exhaustive, whatever the payload types are.
   (Counterexample validity - cex_valid - and the fuel bounds do not use inhabitation either.)

   Needed (second half, vm_compute witness): the other direction.  With
     class Never(N(Never)) {}    class E(A, B(Never)) {}     match (e: E) { A -> ... }
   the algorithm reports the match as non-exhaustive with counterexample B(_), although A is the only value of E:
   the reported counterexample denotes no value. *)
From Coq Require Import List Arith Bool Lia.
Import ListNotations.
From SV Require Import C07.Pat C07.PatFuel C07.PatCex C07.PatCexFuel C07.PatCexComplete C07.Corr.

Section AnyTypes.
  Variable ty : Type.
  Variable shape : ty -> tshape ty.
  Variable variants_of : nat -> list (nat * nat).
  Hypothesis H_variants : forall t cls vs, shape t = SEnum ty cls vs ->
    variants_of cls = map (fun '(v, tys) => (v, length tys)) vs.
  Notation row_ok := (row_ok ty shape).
  Notation vals_ok := (vals_ok ty shape).
  Notation val_ok := (val_ok ty shape).
  Notation pat_ok := (pat_ok ty shape).

  (* no inhabitation hypothesis, and no restriction on empty or-patterns in q *)
  Theorem useful_false_covered : forall fuel P q ts,
    useful variants_of fuel P q = Some false ->
    Forall (row_ok ts) P -> row_ok ts q ->
    forall vs, vals_ok ts vs -> matches_vec q vs = true -> any_row P vs = true.
  Proof.
    induction fuel as [|fuel IH]; intros P q ts Hu HP Hq vs Hvs Hm; [discriminate|].
    cbn [useful] in Hu.
    destruct P as [|r0 P0]; [discriminate|].
    remember (r0 :: P0) as P eqn:EP.
    destruct q as [|qh q_rest].
    { destruct ts; [|destruct Hq]. destruct vs; [|destruct Hvs].
      subst P. inversion HP as [|? ? Hr _]; subst. destruct r0; [|destruct Hr]. reflexivity. }
    destruct ts as [|t ts]; [destruct Hq|]. destruct Hq as [Hqh Hqr].
    destruct vs as [|v vs]; [destruct Hvs|]. destruct Hvs as [Hv Hvs].
    rewrite matches_vec_cons in Hm. apply andb_prop in Hm. destruct Hm as [Hm1 Hm2].
    destruct qh as [|c rs|ps].
    - destruct (incomplete_names variants_of (roots P)) as [l|] eqn:Hinc.
      + destruct (default_typed ty shape P t ts HP) as [P' [HdP HP']]. rewrite HdP in Hu.
        apply (default_le P P' v vs HdP). eapply IH; eauto.
      + apply first_true_spec in Hu. destruct Hu as [_ Hf]. specialize (Hf eq_refl).
        destruct (complete_covers ty shape variants_of H_variants P t ts v HP Hinc Hv) as [cv [vs1 [-> Hin]]].
        specialize (Hf _ Hin). cbn beta iota in Hf.
        pose proof Hv as Hv'. cbn [Pat.val_ok] in Hv'. destruct Hv' as [tys [Hs Hvs1]].
        assert (Hl : length vs1 = length tys) by (eapply all2P_length; eauto).
        destruct (specialize P cv (length vs1)) as [P'|] eqn:Hsp; [|discriminate].
        pose proof Hsp as Hsp'. rewrite Hl in Hsp'.
        pose proof (specialize_typed ty shape P t ts cv tys P' HP Hs Hsp') as HP'.
        rewrite <- (specialize_sem P cv vs1 vs P' Hsp (heads_ok_of_typed ty shape P t ts cv vs1 HP Hv)).
        rewrite Hl in Hf.
        eapply (IH P' _ (tys ++ ts) Hf HP').
        * apply all2P_app; auto. apply all2P_wilds.
        * apply all2P_app; auto.
        * rewrite matches_vec_app by (rewrite repeat_length; lia).
          rewrite matches_vec_wilds by lia. exact Hm2.
    - destruct v as [cv vs1|k]; [|discriminate].
      rewrite matches_ctor in Hm1. apply andb_prop in Hm1. destruct Hm1 as [Hc Hm1].
      apply ctor_eqb_true in Hc. subst cv.
      cbn [Pat.pat_ok] in Hqh. destruct Hqh as [tys [Hs Hrs]].
      pose proof (matches_vec_length _ _ Hm1) as Hl1.
      assert (Hl : length rs = length tys) by (eapply all2P_length; eauto).
      pose proof Hv as Hv'. cbn [Pat.val_ok] in Hv'. destruct Hv' as [tys' [Hs' Hvs1]].
      rewrite Hs in Hs'. inversion Hs'; subst tys'.
      destruct (specialize P c (length rs)) as [P'|] eqn:Hsp; [|discriminate].
      pose proof Hsp as Hsp'. rewrite Hl in Hsp'.
      pose proof (specialize_typed ty shape P t ts c tys P' HP Hs Hsp') as HP'.
      rewrite Hl1 in Hsp.
      rewrite <- (specialize_sem P c vs1 vs P' Hsp (heads_ok_of_typed ty shape P t ts c vs1 HP Hv)).
      eapply (IH P' _ (tys ++ ts) Hu HP').
      * apply all2P_app; auto.
      * apply all2P_app; auto.
      * rewrite matches_vec_app by lia. now rewrite Hm1, Hm2.
    - apply first_true_spec in Hu. destruct Hu as [_ Hf]. specialize (Hf eq_refl).
      cbn in Hm1. apply existsb_exists in Hm1. destruct Hm1 as [p [Hin Hmp]].
      cbn [Pat.pat_ok] in Hqh. apply allP_Forall in Hqh. rewrite Forall_forall in Hqh.
      eapply (IH P (p :: q_rest) (t :: ts) (Hf p Hin) HP).
      * split; auto.
      * split; [exact Hv|exact Hvs].
      * rewrite matches_vec_cons, Hmp, Hm2. reflexivity.
  Qed.

  (* the same for the counterexample function: "no counterexample" means exhaustive, for every type environment
     and every fuel at which the function answered *)
  Theorem cex_none_exhaustive : forall fuel P ts,
    cex variants_of fuel P (length ts) = Some None -> Forall (row_ok ts) P ->
    forall vs, vals_ok ts vs -> any_row P vs = true.
  Proof.
    intros fuel P ts Hc HP vs Hvs.
    pose (f2 := S (Phi P (repeat PWild (length ts)))).
    assert (Hq : row_ok ts (repeat PWild (length ts))) by apply all2P_wilds.
    destruct (useful variants_of f2 P (repeat PWild (length ts))) as [b|] eqn:Eu;
      [|exfalso; eapply (fuel_sufficient ty shape variants_of f2 P _ ts); eauto; unfold f2; lia].
    pose proof (cex_useful_agree variants_of fuel f2 P (length ts) None b Hc Eu) as A.
    assert (b = false) by (apply A; reflexivity). subst b.
    eapply useful_false_covered; eauto.
    apply matches_vec_wilds. unfold Pat.vals_ok in Hvs. now apply all2P_length in Hvs.
  Qed.
End AnyTypes.

(* ------------------------------------------------------------------ *)
(* The witness: type 0 = Never (class 0, single variant N(Never)); type 1 = E (class 1: A, B(Never)) *)

Definition never_env : tenv := [SEnum nat 0 [(0, [0])]; SEnum nat 1 [(0, []); (1, [0])]].
Definition pat_A : pat := PCtor (Some (1, 0)) [].
Definition pat_B_wild : pat := PCtor (Some (1, 1)) [PWild].
Definition never_case : case := mkCase never_env 1 KMatch [pat_A] true.

Lemma never_empty : forall v, ~ val_ok nat (shape_of never_env) v 0.
Proof.
  induction v as [c vs IH|k] using val_ind'; intros H; cbn [val_ok] in H.
  - destruct H as [tys [Hs Hvs]]. unfold ctor_sig in Hs. cbn in Hs.
    destruct c as [[cls v]|]; [|discriminate].
    destruct cls; cbn in Hs; [|discriminate].
    destruct v; cbn in Hs; [|discriminate]. inversion Hs; subst tys.
    destruct vs as [|v0 vs]; [destruct Hvs|]. destruct Hvs as [Hv0 _].
    inversion IH as [|? ? H0 _]; subst. exact (H0 Hv0).
  - cbn in H. discriminate.
Qed.

(* every value of E is A *)
Lemma E_values : forall v, val_ok nat (shape_of never_env) v 1 -> v = VCtor (Some (1, 0)) [].
Proof.
  intros [c vs|k] H; cbn [val_ok] in H; [|cbn in H; discriminate].
  destruct H as [tys [Hs Hvs]]. unfold ctor_sig in Hs. cbn in Hs.
  destruct c as [[cls v]|]; [|discriminate].
  destruct cls as [|[|cls]]; cbn in Hs; try discriminate.
  destruct v as [|[|v]]; cbn in Hs; try discriminate; inversion Hs; subst tys.
  - destruct vs; [reflexivity|destruct Hvs].
  - destruct vs as [|v0 vs]; [destruct Hvs|]. destruct Hvs as [Hv0 _]. destruct (never_empty v0 Hv0).
Qed.

(* all the hypotheses of the theorems except H_inhabited hold, every value of the scrutinee type is matched by the
   single arm `A`, and yet: `useful` says a further wildcard arm is useful, `cex` (at the fuel the correspondence
   check uses and at every larger one) returns the counterexample B(_), the model predicts "flagged" - and B(_)
   is a well-typed pattern that denotes no value. *)
Theorem uninhabited_refuted :
  exists (e : tenv) (t : nat) (ps : list pat) (c : pat),
    variants_okb e = true /\ forallb (fun p => pat_okb e p t) ps = true /\ pat_okb e c t = true /\
    (forall v, val_ok nat (shape_of e) v t -> existsb (fun p => matches p v) ps = true) /\
    (exists v, val_ok nat (shape_of e) v t) /\
    (forall fuel, cex_fuel (map (fun p => [p]) ps) 1 <= fuel ->
       cex (variants_in e) fuel (map (fun p => [p]) ps) 1 = Some (Some [c])) /\
    useful (variants_in e) (fuel_for (map (fun p => [p]) ps) [PWild]) (map (fun p => [p]) ps) [PWild] = Some true /\
    predict (mkCase e t KMatch ps true) = Some true /\
    (forall v, val_ok nat (shape_of e) v t -> matches c v = false) /\
    ~ (forall t', exists v, val_ok nat (shape_of e) v t').
Proof.
  exists never_env, 1, [pat_A], pat_B_wild.
  split; [vm_compute; reflexivity|]. split; [vm_compute; reflexivity|]. split; [vm_compute; reflexivity|].
  split; [intros v Hv; rewrite (E_values v Hv); vm_compute; reflexivity|].
  split; [exists (VCtor (Some (1, 0)) []); cbn; exists []; split; [reflexivity|exact I]|].
  split.
  { intros fuel Hle.
    apply (cex_mono (variants_in never_env) (cex_fuel (map (fun p => [p]) [pat_A]) 1)); [|exact Hle].
    vm_compute. reflexivity. }
  split; [vm_compute; reflexivity|]. split; [vm_compute; reflexivity|].
  split; [intros v Hv; rewrite (E_values v Hv); vm_compute; reflexivity|].
  intros H. destruct (H 0) as [v Hv]. exact (never_empty v Hv).
Qed.
