(* C07 — property theorems (statements closed by `exact`, Print Assumptions, non-vacuity). *)
From Coq Require Import List Arith Bool Lia NArith.
Import ListNotations.
From SV Require Import C07.Pat C07.PatFuel C07.PatCex C07.PatCexFuel C07.PatCexComplete C07.PatInhabited C07.Entry C07.Corr.

Definition H_variants_of (ty : Type) (shape : ty -> tshape ty) (variants_of : nat -> list (nat * nat)) : Prop :=
  forall t cls vs, shape t = SEnum ty cls vs -> variants_of cls = map (fun '(v, tys) => (v, length tys)) vs.
Definition H_inhabited_of (ty : Type) (shape : ty -> tshape ty) : Prop :=
  forall t, exists v, val_ok ty shape v t.

(* Maranget's U, as implemented (or-patterns in rows and in q): exact for well-typed matrices *)
Theorem C07_useful_exact : forall ty shape variants_of,
  H_variants_of ty shape variants_of -> H_inhabited_of ty shape ->
  forall fuel P q ts b, useful variants_of fuel P q = Some b ->
  Forall (row_ok ty shape ts) P -> row_ok ty shape ts q -> allP no_empty_or q ->
  (b = true <-> witness ty shape ts P q).
Proof. exact useful_exact. Qed.

(* a match / destructuring let is accepted iff every value of the scrutinee type is matched *)
Theorem C07_match_exhaustive_exact : forall ty shape variants_of,
  H_variants_of ty shape variants_of -> H_inhabited_of ty shape ->
  forall fuel ps t b, useful variants_of fuel (column ps) [PWild] = Some b ->
  Forall (fun p => pat_ok ty shape p t) ps ->
  (b = false <-> forall v, val_ok ty shape v t -> covers ps v = true).
Proof. exact match_exhaustive_exact. Qed.

(* an if-let pattern is flagged exactly when it matches every value *)
Theorem C07_iflet_useless_exact : forall ty shape variants_of,
  H_variants_of ty shape variants_of -> H_inhabited_of ty shape ->
  forall fuel p t b, useful variants_of fuel [[p]] [PWild] = Some b -> pat_ok ty shape p t ->
  (b = false <-> forall v, val_ok ty shape v t -> matches p v = true).
Proof. exact iflet_useless_exact. Qed.

(* the reported counterexample denotes only values that no arm matches *)
Theorem C07_counterexample_valid : forall ty shape variants_of,
  forall fuel ps t c, cex variants_of fuel (column ps) 1 = Some (Some [c]) ->
  Forall (fun p => pat_ok ty shape p t) ps ->
  forall v, val_ok ty shape v t -> matches c v = true -> covers ps v = false.
Proof. exact match_cex_valid. Qed.

(* the recursion of `useful` terminates: an explicit measure bounds it *)
Theorem C07_fuel_sufficient : forall ty shape variants_of fuel P q ts,
  Forall (row_ok ty shape ts) P -> row_ok ty shape ts q -> Phi P q < fuel ->
  useful variants_of fuel P q <> None.
Proof. exact fuel_sufficient. Qed.

(* ------------------------------------------------------------------------------------------------ *)
(* Completeness of the counterexample function, its explicit fuel, and the role of inhabitation      *)

(* cex and useful agree whenever both answer: no typing, no inhabitation, any two fuels *)
Theorem C07_cex_useful_agree : forall variants_of f1 f2 P n r b,
  cex variants_of f1 P n = Some r -> useful variants_of f2 P (repeat PWild n) = Some b ->
  (r = None <-> b = false).
Proof. exact cex_useful_agree. Qed.

(* matrix form: with fuel >= cex_fuel P n the counterexample function answers; it answers "none" iff a further
   all-wildcard row is useless iff every well-typed value vector is matched by some row; a returned
   counterexample is a well-typed pattern vector, denotes at least one value vector, and none of its instances is
   matched *)
Theorem C07_cex_complete_matrix : forall ty shape variants_of,
  H_variants_of ty shape variants_of -> H_inhabited_of ty shape ->
  forall fuel P ts, Forall (row_ok ty shape ts) P -> cex_fuel P (length ts) <= fuel ->
  exists r, cex variants_of fuel P (length ts) = Some r /\
    (r = None <-> useful variants_of fuel P (repeat PWild (length ts)) = Some false) /\
    (r = None <-> forall vs, vals_ok ty shape ts vs -> any_row P vs = true) /\
    (forall pv, r = Some pv ->
       row_ok ty shape ts pv /\
       (exists vs, vals_ok ty shape ts vs /\ matches_vec pv vs = true) /\
       (forall vs, vals_ok ty shape ts vs -> matches_vec pv vs = true -> any_row P vs = false)).
Proof. exact cex_complete. Qed.

(* entry point form (incomplete_counterexample on the arms of a match / the pattern of a let): a counterexample
   is produced iff the match is not exhaustive, and it is a pattern of the scrutinee type that denotes at least
   one value and only values that no arm matches *)
Theorem C07_cex_complete : forall ty shape variants_of,
  H_variants_of ty shape variants_of -> H_inhabited_of ty shape ->
  forall fuel ps t, Forall (fun p => pat_ok ty shape p t) ps -> cex_fuel (column ps) 1 <= fuel ->
  exists r, cex variants_of fuel (column ps) 1 = Some r /\
    (r = None <-> useful variants_of fuel (column ps) [PWild] = Some false) /\
    (r = None <-> forall v, val_ok ty shape v t -> covers ps v = true) /\
    (forall pv, r = Some pv -> exists c, pv = [c] /\ pat_ok ty shape c t /\
       (exists v, val_ok ty shape v t /\ matches c v = true) /\
       (forall v, val_ok ty shape v t -> matches c v = true -> covers ps v = false)).
Proof. exact match_cex_complete. Qed.

(* explicit fuel: cex_fuel P n = 1 + (sum over rows of the product of pattern weights) * (1 + largest arity) + n;
   at or above it the answer is not the out-of-fuel value and does not depend on the fuel.  The recursion only
   descends into the default matrix or into the specialisation by a root constructor, both strictly smaller in
   this measure: the real function cannot revisit a matrix. *)
Theorem C07_cex_fuel_sufficient : forall ty shape variants_of P ts f1 f2,
  Forall (row_ok ty shape ts) P -> cex_fuel P (length ts) <= f1 -> cex_fuel P (length ts) <= f2 ->
  cex variants_of f1 P (length ts) = cex variants_of f2 P (length ts) /\
  cex variants_of f1 P (length ts) <> None.
Proof. exact cex_fuel_stable. Qed.

Theorem C07_match_cex_fuel_sufficient : forall ty shape variants_of f1 f2 ps t,
  Forall (fun p => pat_ok ty shape p t) ps ->
  cex_fuel (column ps) 1 <= f1 -> cex_fuel (column ps) 1 <= f2 ->
  cex variants_of f1 (column ps) 1 = cex variants_of f2 (column ps) 1 /\
  cex variants_of f1 (column ps) 1 <> None.
Proof. exact match_cex_fuel_sufficient. Qed.

(* more fuel never changes an answer of either function *)
Theorem C07_cex_fuel_monotone : forall variants_of f P n r, cex variants_of f P n = Some r ->
  forall f', f <= f' -> cex variants_of f' P n = Some r.
Proof. exact cex_mono. Qed.

Theorem C07_useful_fuel_monotone : forall variants_of f P q b, useful variants_of f P q = Some b ->
  forall f', f <= f' -> useful variants_of f' P q = Some b.
Proof. exact useful_mono. Qed.

(* inhabitation is NOT needed for the safety direction: for every type environment (uninhabited payloads
   included), what the algorithm declares covered is covered, and a match for which no counterexample is produced
   is exhaustive *)
Theorem C07_useful_false_covered_any_types : forall ty shape variants_of,
  H_variants_of ty shape variants_of ->
  forall fuel P q ts, useful variants_of fuel P q = Some false ->
  Forall (row_ok ty shape ts) P -> row_ok ty shape ts q ->
  forall vs, vals_ok ty shape ts vs -> matches_vec q vs = true -> any_row P vs = true.
Proof. exact useful_false_covered. Qed.

Theorem C07_accept_sound_any_types : forall ty shape variants_of,
  H_variants_of ty shape variants_of ->
  forall fuel ps t, cex variants_of fuel (column ps) 1 = Some None ->
  Forall (fun p => pat_ok ty shape p t) ps ->
  forall v, val_ok ty shape v t -> covers ps v = true.
Proof. exact match_accept_sound_any. Qed.

(* inhabitation IS needed for the other direction.  Full statement without it (FALSE of the model):
     forall e t ps, variants_okb e = true -> forallb (fun p => pat_okb e p t) ps = true ->
       (cex (variants_in e) fuel (column ps) 1 = Some None <-> forall v, val_ok nat (shape_of e) v t -> covers ps v = true)
   Witness: class Never(N(Never)) {}  class E(A, B(Never)) {}  match (e : E) { A -> .. }: every value of E is
   matched, yet the model (like the real checker) reports B(_), a well-typed pattern that denotes no value. *)
Theorem C07_uninhabited_refuted :
  exists (e : tenv) (t : nat) (ps : list pat) (c : pat),
    variants_okb e = true /\ forallb (fun p => pat_okb e p t) ps = true /\ pat_okb e c t = true /\
    (forall v, val_ok nat (shape_of e) v t -> existsb (fun p => matches p v) ps = true) /\
    (exists v, val_ok nat (shape_of e) v t) /\
    (forall fuel, cex_fuel (map (fun p => [p]) ps) 1 <= fuel ->
       cex (variants_in e) fuel (map (fun p => [p]) ps) 1 = Some (Some [c])) /\
    useful (variants_in e) (fuel_for (map (fun p => [p]) ps) [PWild]) (map (fun p => [p]) ps) [PWild] = Some true /\
    predict (mkCase e t KMatch ps true) = Some true /\
    (forall v, val_ok nat (shape_of e) v t -> matches c v = false) /\
    ~ (forall t', exists v, val_ok nat (shape_of e) v t').
Proof. exact uninhabited_refuted. Qed.

(* the functions the correspondence check evaluates (Corr.predict / predict_by_useful / hyps_ok): the model's two
   verdicts never disagree (Corr.verdict = 4 cannot occur) ... *)
Theorem C07_predict_agree : forall c b u, c_kind c <> KIfLet ->
  predict c = Some b -> predict_by_useful c = Some u -> u = b.
Proof. exact predict_agree. Qed.

(* ... and on match / let cases that pass hyps_ok, over inhabited types, the model answers at the fuel the check
   uses (Corr.verdict = 2 cannot occur) and predicts "flagged" iff some value is matched by no arm *)
Theorem C07_predict_match_exact : forall c, c_kind c <> KIfLet -> hyps_ok c = true ->
  (forall t, exists v, val_ok nat (shape_of (c_env c)) v t) ->
  exists b, predict c = Some b /\ predict_by_useful c = Some b /\
    (b = false <-> forall v, val_ok nat (shape_of (c_env c)) v (c_ty c) -> covers (c_pats c) v = true).
Proof. exact predict_match_exact. Qed.

(* ---- non-vacuity: Option-like enum with a recursive payload, one missing arm ---- *)
Definition demo_env : tenv := [SOpaque nat; SEnum nat 0 [(0, []); (1, [0; 1])]].
Example C07_nonvacuous :
  variants_okb demo_env = true /\
  pat_okb demo_env (PCtor (Some (0, 1)) [PWild; PCtor (Some (0, 0)) []]) 1 = true /\
  useful (variants_in demo_env) 30 (column [PCtor (Some (0, 1)) [PWild; PCtor (Some (0, 0)) []]; PCtor (Some (0, 0)) []]) [PWild] = Some true /\
  useful (variants_in demo_env) 30 (column [PCtor (Some (0, 1)) [PWild; PWild]; PCtor (Some (0, 0)) []]) [PWild] = Some false.
Proof. vm_compute. auto. Qed.

(* ---- non-vacuity of the new theorems: the demo environment satisfies every hypothesis ---- *)
Example C07_demo_variants : H_variants_of nat (shape_of demo_env) (variants_in demo_env).
Proof. exact (variants_okb_sound demo_env eq_refl). Qed.

Example C07_demo_inhabited : H_inhabited_of nat (shape_of demo_env).
Proof.
  intros [|[|t]].
  - exists (VOpaque 0). reflexivity.
  - exists (VCtor (Some (0, 0)) []). cbn. exists []. split; [reflexivity|exact I].
  - exists (VOpaque 0). cbn. destruct t; reflexivity.
Qed.

Definition demo_missing : list pat := [PCtor (Some (0, 1)) [PWild; PCtor (Some (0, 0)) []]; PCtor (Some (0, 0)) []].
Definition demo_full : list pat := [PCtor (Some (0, 1)) [PWild; PWild]; PCtor (Some (0, 0)) []].

Example C07_demo_typed :
  Forall (fun p => pat_ok nat (shape_of demo_env) p 1) demo_missing /\
  Forall (fun p => pat_ok nat (shape_of demo_env) p 1) demo_full.
Proof. split; apply Forall_forall; intros p Hp; apply pat_okb_sound; cbn in Hp; intuition (subst; vm_compute; reflexivity). Qed.

(* both outcomes of C07_cex_complete occur at the explicit fuel: a counterexample  Some(_, Some(_, _))  for the
   matrix with a missing arm, none for the complete one; the bound is a small concrete number; and below it the
   out-of-fuel value does occur, so the bound is not trivially satisfied *)
Example C07_cex_complete_nonvacuous :
  cex_fuel (column demo_missing) 1 = 17 /\
  cex (variants_in demo_env) (cex_fuel (column demo_missing) 1) (column demo_missing) 1
    = Some (Some [PCtor (Some (0, 1)) [PWild; PCtor (Some (0, 1)) [PWild; PWild]]]) /\
  useful (variants_in demo_env) (cex_fuel (column demo_missing) 1) (column demo_missing) [PWild] = Some true /\
  cex (variants_in demo_env) (cex_fuel (column demo_full) 1) (column demo_full) 1 = Some None /\
  useful (variants_in demo_env) (cex_fuel (column demo_full) 1) (column demo_full) [PWild] = Some false /\
  cex (variants_in demo_env) 3 (column demo_missing) 1 = None /\
  cex (variants_in demo_env) 4 (column demo_missing) 1 <> None.
Proof. vm_compute. repeat split; discriminate. Qed.

(* the conclusion of C07_cex_complete, instantiated: its hypotheses are jointly satisfiable *)
Example C07_cex_complete_instance :
  exists c, cex (variants_in demo_env) 17 (column demo_missing) 1 = Some (Some [c]) /\
    (exists v, val_ok nat (shape_of demo_env) v 1 /\ matches c v = true) /\
    (forall v, val_ok nat (shape_of demo_env) v 1 -> matches c v = true -> covers demo_missing v = false).
Proof.
  destruct (C07_cex_complete nat (shape_of demo_env) (variants_in demo_env) C07_demo_variants C07_demo_inhabited
              17 demo_missing 1 (proj1 C07_demo_typed)) as [r [Hr [_ [_ Hpv]]]]; [vm_compute; repeat constructor|].
  destruct r as [pv|]; [|vm_compute in Hr; discriminate].
  destruct (Hpv pv eq_refl) as [c [-> [_ [Hex Hall]]]]. exists c. auto.
Qed.

(* C07_predict_match_exact applies to a concrete case of the shape the check generates *)
Example C07_predict_nonvacuous :
  hyps_ok (mkCase demo_env 1 KMatch demo_missing true) = true /\
  predict (mkCase demo_env 1 KMatch demo_missing true) = Some true /\
  predict (mkCase demo_env 1 KLet demo_full false) = Some false /\
  verdict (mkCase demo_env 1 KMatch demo_missing true) = 0%N.
Proof. vm_compute. auto. Qed.

(* the uninhabited witness, concretely (class Never(N(Never)), class E(A, B(Never)), arms [A]) *)
Example C07_uninhabited_concrete :
  hyps_ok never_case = true /\ predict never_case = Some true /\
  cex (variants_in never_env) (fuel_for (column [pat_A]) [PWild]) (column [pat_A]) 1 = Some (Some [pat_B_wild]) /\
  (forall v, val_ok nat (shape_of never_env) v 1 -> covers [pat_A] v = true).
Proof.
  split; [vm_compute; reflexivity|]. split; [vm_compute; reflexivity|]. split; [vm_compute; reflexivity|].
  intros v Hv. rewrite (E_values v Hv). vm_compute. reflexivity.
Qed.

Print Assumptions C07_useful_exact.
Print Assumptions C07_match_exhaustive_exact.
Print Assumptions C07_iflet_useless_exact.
Print Assumptions C07_counterexample_valid.
Print Assumptions C07_fuel_sufficient.
Print Assumptions C07_cex_useful_agree.
Print Assumptions C07_cex_complete_matrix.
Print Assumptions C07_cex_complete.
Print Assumptions C07_cex_fuel_sufficient.
Print Assumptions C07_match_cex_fuel_sufficient.
Print Assumptions C07_cex_fuel_monotone.
Print Assumptions C07_useful_fuel_monotone.
Print Assumptions C07_useful_false_covered_any_types.
Print Assumptions C07_accept_sound_any_types.
Print Assumptions C07_uninhabited_refuted.
Print Assumptions C07_predict_agree.
Print Assumptions C07_predict_match_exact.
