(* C07 — property theorems (statements closed by `exact`, Print Assumptions, non-vacuity). *)
From Coq Require Import List Arith Bool Lia.
Import ListNotations.
From SV Require Import C07.Pat C07.PatFuel C07.PatCex C07.Entry C07.Corr.

Definition H_variants_of (ty : Type) (shape : ty -> tshape ty) (variants_of : nat -> list (nat * nat)) : Prop :=
  forall t cls vs, shape t = SEnum ty cls vs -> variants_of cls = map (fun '(v, tys) => (v, length tys)) vs.
Definition H_inhabited_of (ty : Type) (shape : ty -> tshape ty) : Prop :=
  forall t, exists v, val_ok ty shape v t.

(* Maranget's U, as implemented (or-patterns in rows and in q): exact for well-typed matrices *)
Theorem C07_useful_exact : forall ty shape variants_of,
  H_variants_of ty shape variants_of -> H_inhabited_of ty shape ->
  forall fuel P q ts b, useful variants_of fuel P q = Some b ->
  Forall (row_ok ty shape ts) P -> row_ok ty shape ts q -> allP no_empty_or q ->
  (b = true <-> witness ty shape ts P q).
Proof. exact useful_exact. Qed.

(* a match / destructuring let is accepted iff every value of the scrutinee type is matched *)
Theorem C07_match_exhaustive_exact : forall ty shape variants_of,
  H_variants_of ty shape variants_of -> H_inhabited_of ty shape ->
  forall fuel ps t b, useful variants_of fuel (column ps) [PWild] = Some b ->
  Forall (fun p => pat_ok ty shape p t) ps ->
  (b = false <-> forall v, val_ok ty shape v t -> covers ps v = true).
Proof. exact match_exhaustive_exact. Qed.

(* an if-let pattern is flagged exactly when it matches every value *)
Theorem C07_iflet_useless_exact : forall ty shape variants_of,
  H_variants_of ty shape variants_of -> H_inhabited_of ty shape ->
  forall fuel p t b, useful variants_of fuel [[p]] [PWild] = Some b -> pat_ok ty shape p t ->
  (b = false <-> forall v, val_ok ty shape v t -> matches p v = true).
Proof. exact iflet_useless_exact. Qed.

(* the reported counterexample denotes only values that no arm matches *)
Theorem C07_counterexample_valid : forall ty shape variants_of,
  forall fuel ps t c, cex variants_of fuel (column ps) 1 = Some (Some [c]) ->
  Forall (fun p => pat_ok ty shape p t) ps ->
  forall v, val_ok ty shape v t -> matches c v = true -> covers ps v = false.
Proof. exact match_cex_valid. Qed.

(* the recursion of `useful` terminates: an explicit measure bounds it *)
Theorem C07_fuel_sufficient : forall ty shape variants_of fuel P q ts,
  Forall (row_ok ty shape ts) P -> row_ok ty shape ts q -> Phi P q < fuel ->
  useful variants_of fuel P q <> None.
Proof. exact fuel_sufficient. Qed.

(* ---- non-vacuity: Option-like enum with a recursive payload, one missing arm ---- *)
Definition demo_env : tenv := [SOpaque nat; SEnum nat 0 [(0, []); (1, [0; 1])]].
Example C07_nonvacuous :
  variants_okb demo_env = true /\
  pat_okb demo_env (PCtor (Some (0, 1)) [PWild; PCtor (Some (0, 0)) []]) 1 = true /\
  useful (variants_in demo_env) 30 (column [PCtor (Some (0, 1)) [PWild; PCtor (Some (0, 0)) []]; PCtor (Some (0, 0)) []]) [PWild] = Some true /\
  useful (variants_in demo_env) 30 (column [PCtor (Some (0, 1)) [PWild; PWild]; PCtor (Some (0, 0)) []]) [PWild] = Some false.
Proof. vm_compute. auto. Qed.

Print Assumptions C07_useful_exact.
Print Assumptions C07_match_exhaustive_exact.
Print Assumptions C07_iflet_useless_exact.
Print Assumptions C07_counterexample_valid.
Print Assumptions C07_fuel_sufficient.
