(* C08 — glue for the correspondence checks (evaluated with vm_compute on harness observations).
   Definitions only. *)
From Coq Require Import List Arith Bool NArith.
Import ListNotations.
From SV Require Import C08.Syntax C08.Model C08.Layout C08.Lit.

Fixpoint str_eqb (a b : str) : bool :=
  match a, b with
  | [], [] => true
  | x :: a', y :: b' => (x =? y)%N && str_eqb a' b'
  | _, _ => false
  end.

Definition tok_eqb (a b : tok) : bool :=
  match a, b with
  | TId n, TId m | TLit n, TLit m | TFld n, TFld m | TPat n, TPat m => Nat.eqb n m
  | TOp o, TOp o' => bop_eqb o o'
  | TBang, TBang | LP, LP | RP, RP | LB, LB | RB, RB | TDot, TDot | TComma, TComma | TArrow, TArrow
  | TIf, TIf | TElse, TElse | TMatch, TMatch => true
  | _, _ => false
  end.
Fixpoint toks_eqb (a b : list tok) : bool :=
  match a, b with
  | [], [] => true
  | x :: a', y :: b' => tok_eqb x y && toks_eqb a' b'
  | _, _ => false
  end.

Fixpoint collect {A} (f : A -> N) (i : N) (cs : list A) : list (N * N) :=
  match cs with
  | [] => []
  | c :: cs' => let r := f c in
                if (r =? 0)%N then collect f (i + 1) cs' else (i, r) :: collect f (i + 1) cs'
  end.

(* ---- layout: the model's render against samlang_printer::verif::pretty_print, per width *)
Definition doc_case := (doc * list (nat * str))%type.
Definition doc_check (c : doc_case) : N :=
  if forallb (fun p => str_eqb (render (fst p) (fst c)) (snd p)) (snd c) then 0%N else 1%N.
Definition doc_fails (cs : list doc_case) : list (N * N) := collect doc_check 0 cs.
(* and the theorem's hypothesis / conclusion evaluated on the same documents *)
Definition doc_content_check (c : doc_case) : N :=
  if wfb (fst c) then
    (if forallb (fun p => str_eqb (visible (snd p)) (content (fst c))) (snd c) then 0%N else 2%N)
  else 0%N.
Definition doc_content_fails (cs : list doc_case) : list (N * N) := collect doc_content_check 0 cs.
Definition count_wf (cs : list doc_case) : nat := length (filter (fun c => wfb (fst c)) cs).

(* ---- expressions: (tree, tokens of the real printer's output, tree the real parser reads back, known flag computed in Python) *)
Definition expr_case := (expr * option (list tok) * option expr * bool)%type.
Definition fuel_for (ts : list tok) : nat := 15 * (length ts + 2).
Definition oexpr_eqb (a b : option expr) : bool :=
  match a, b with Some x, Some y => expr_eqb x y | None, None => true | _, _ => false end.
Definition expr_check (c : expr_case) : N :=
  let '(e, toks, back, kn) := c in
  match toks with
  | None => 4%N
  | Some ts =>
      if negb (toks_eqb (impl e) ts) then 1%N
      else if negb (oexpr_eqb (parse_expr (fuel_for ts) ts) back) then 2%N
      else if negb (Bool.eqb (known_C08 e) kn) then 3%N
      else if negb (Bool.eqb (safe e) (negb kn)) then 5%N
      else if safe e && negb (oexpr_eqb back (Some e)) then 6%N
      else 0%N
  end.
Definition expr_fails (cs : list expr_case) : list (N * N) := collect expr_check 0 cs.
Definition count_known (cs : list expr_case) : nat := length (filter (fun c => known_C08 (fst (fst (fst c)))) cs).
(* unsafe trees whose output does re-parse to the same tree (the class would be too wide) *)
Definition known_but_fine (cs : list expr_case) : nat :=
  length (filter (fun c => let '(e, _, back, _) := c in known_C08 e && oexpr_eqb back (Some e)) cs).

(* ---- literals *)
Definition str_case := (str * option (str * str))%type.   (* value, (interior the lexer found, rest) *)
Definition ostr2_eqb (a b : option (str * str)) : bool :=
  match a, b with
  | Some (x, y), Some (x', y') => str_eqb x x' && str_eqb y y'
  | None, None => true
  | _, _ => false
  end.
Definition str_check (c : str_case) : N :=
  if ostr2_eqb (lex_str (print_str (fst c))) (snd c) then 0%N else 1%N.
Definition str_fails (cs : list str_case) : list (N * N) := collect str_check 0 cs.
