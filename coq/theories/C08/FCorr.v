(* C08 — full model: glue for the correspondence checks (evaluated with vm_compute on harness
   observations).  Definitions only. *)
From Coq Require Import List Arith Bool NArith ZArith.
Import ListNotations.
From SV Require Import C08.Syntax C08.Model C08.FSyntax C08.FModelTypes C08.FModelExpr C08.Corr.

Definition ofexpr_eqb (a b : option fexpr) : bool := opt_eqb fexpr_eqb a b.

(* (type parameters in scope, tree, tokens of the real printer's output, tree the real parser reads back from
   that output, known flag computed in Python) *)
Definition fexpr_case := (list nat * fexpr * option (list tok) * option fexpr * bool)%type.
Definition fexpr_check (c : fexpr_case) : N :=
  let '(tps, e, toks, back, kn) := c in
  match toks with
  | None => 4%N
  | Some ts =>
      if negb (ftoks_eqb (fimpl e) ts) then 1%N
      else if negb (ofexpr_eqb (parse_fexpr tps ts) back) then 2%N
      else if negb (Bool.eqb (fknown e) kn) then 3%N
      else if negb (Bool.eqb (fsafe e) (negb kn)) then 5%N
      else if fsafe e && fwf tps e && negb (ofexpr_eqb back (Some e)) then 6%N
      else 0%N
  end.
Definition fexpr_fails (cs : list fexpr_case) : list (N * N) := collect fexpr_check 0 cs.
Definition count_fknown (cs : list fexpr_case) : nat :=
  length (filter (fun c => let '(_, e, _, _, _) := c in fknown e) cs).
Definition count_fwf (cs : list fexpr_case) : nat :=
  length (filter (fun c => let '(tps, e, _, _, _) := c in fwf tps e) cs).

(* parser only: (type parameters, tokens of a source text, tree the real parser reads - None = syntax errors) *)
Definition fparse_case := (list nat * list tok * option fexpr)%type.
Definition fparse_check (c : fparse_case) : N :=
  let '(tps, ts, back) := c in
  if ofexpr_eqb (parse_fexpr tps ts) back then 0%N else 1%N.
Definition fparse_fails (cs : list fparse_case) : list (N * N) := collect fparse_check 0 cs.
Definition count_accepted (cs : list fparse_case) : nat :=
  length (filter (fun c => match snd c with Some _ => true | None => false end) cs).
