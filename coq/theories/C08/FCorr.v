(* C08 — full model: glue for the correspondence checks (evaluated with vm_compute on harness
   observations).  Definitions only. *)
From Coq Require Import List Arith Bool NArith ZArith.
Import ListNotations.
From SV Require Import C08.Syntax C08.Model C08.FSyntax C08.FModelTypes C08.FModelExpr C08.FModelDecl C08.Corr.

Definition ofexpr_eqb (a b : option fexpr) : bool := opt_eqb fexpr_eqb a b.

(* (type parameters in scope, tree, tokens of the real printer's output, tree the real parser reads back from
   that output, known flag computed in Python) *)
Definition fexpr_case := (list nat * fexpr * option (list tok) * option fexpr * bool)%type.
Definition fexpr_check (c : fexpr_case) : N :=
  let '(tps, e, toks, back, kn) := c in
  match toks with
  | None => 4%N
  | Some ts =>
      if negb (ftoks_eqb (fimpl e) ts) then 1%N
      else if negb (ofexpr_eqb (parse_fexpr tps ts) back) then 2%N
      else if negb (Bool.eqb (fknown e) kn) then 3%N
      else if negb (Bool.eqb (fsafe e) (negb kn)) then 5%N
      else if fsafe e && fwf tps e && negb (ofexpr_eqb back (Some e)) then 6%N
      else 0%N
  end.
Definition fexpr_fails (cs : list fexpr_case) : list (N * N) := collect fexpr_check 0 cs.
Definition count_fknown (cs : list fexpr_case) : nat :=
  length (filter (fun c => let '(_, e, _, _, _) := c in fknown e) cs).
Definition count_fwf (cs : list fexpr_case) : nat :=
  length (filter (fun c => let '(tps, e, _, _, _) := c in fwf tps e) cs).

(* parser only: (type parameters, tokens of a source text, tree the real parser reads - None = syntax errors) *)
Definition fparse_case := (list nat * list tok * option fexpr)%type.
Definition fparse_check (c : fparse_case) : N :=
  let '(tps, ts, back) := c in
  if negb (ofexpr_eqb (parse_fexpr tps ts) back) then 1%N
  else match parse_fexpr tps ts with
       | Some e => if fwf tps e then 0%N else 2%N      (* every tree the parser produces is in the theorems' domain *)
       | None => 0%N
       end.
Definition fparse_fails (cs : list fparse_case) : list (N * N) := collect fparse_check 0 cs.
Definition count_accepted (cs : list fparse_case) : nat :=
  length (filter (fun c => match snd c with Some _ => true | None => false end) cs).

(* ---- modules: (tokens of a source text, module the real parser reads (None = syntax errors), tokens of the
   formatted text, module read back from it, flags computed in Python: some body in Known_C08, import conflict) *)
Definition omodule_eqb (a b : option module) : bool := opt_eqb module_eqb a b.
Definition omodname_eqb (a b : option modname) : bool := opt_eqb modname_eqb a b.
Definition fmodule_case := (list tok * option module * option (list tok) * option module * bool * bool)%type.
Definition fmodule_check (c : fmodule_case) : N :=
  let '(ts, parsed, ptoks, back, kn, conflict) := c in
  if negb (omodule_eqb (parse_module ts) parsed) then 1%N
  else match parsed with
       | None => 0%N
       | Some m =>
           match ptoks with
           | None => 9%N
           | Some pts =>
               if negb (ftoks_eqb (fimpl_module m) pts) then 2%N
               else if negb (omodule_eqb (parse_module pts) back) then 3%N
               else if negb (module_ok m) then 4%N
               else if negb (Bool.eqb (module_known m) kn) then 6%N
               else if negb (module_known m) && negb (omodule_eqb back (Some (organise (fst m), snd m))) then 5%N
               else if negb (Bool.eqb (import_conflict (fst m)) conflict) then 7%N
               else if negb conflict
                       && negb (forallb (fun i => forallb (fun n => omodname_eqb (resolve (organise (fst m)) n) (resolve (fst m) n)) (fst i)) (fst m))
                    then 8%N
               else 0%N
           end
       end.
Definition fmodule_fails (cs : list fmodule_case) : list (N * N) := collect fmodule_check 0 cs.
