(* C08 — full model, part 3: declarations and modules.  Parser (no recursion of its own: loops over the
   input, expressions through FModelExpr.parse_expression), printer, the import normalisation of the
   printer, and what an import list means for name resolution.  Definitions only.

   Code mirrored (crates/samlang-parser/src/source_parser.rs): parse_module (imports, then toplevels),
   toplevel_parser::{parse_toplevel, parse_private_interface_or_class_keyword, parse_class, parse_interface,
   parse_extends_or_implements_nodes, parse_type_definition_inner, parse_field_definition,
   parse_variant_definition, parse_class_member_definition, parse_class_member_declaration_common},
   type_parser::{parse_type_parameters, parse_type_parameter, fix_tparams_with_generic_annot,
   parse_annotated_id, parse_identifier_annot}, utils::resolve_class - including the way
   `available_tparams` is threaded (reset per class and per `function`, extended after each type
   parameter list, bounds parsed before the extension and fixed afterwards).
   (crates/samlang-printer/src/source_printer.rs): source_module_to_document (import organisation:
   merge per module, sort modules by name, sort members by name), import_to_document, interface_to_doc,
   class_to_doc, create_doc_for_interface_member, type_parameters_to_doc, extends_or_implements_node_to_doc.
   Names are numbered in the order of their spelling (n <= m iff the name n sorts before the name m), upper-case
   module path parts before lower-case ones: that is the only thing the sort order of the printer depends on. *)
From Coq Require Import List Arith Bool NArith ZArith.
Import ListNotations.
From SV Require Import C08.Syntax C08.Model C08.FSyntax C08.FModelTypes C08.FModelExpr.

Definition upper_id (ts : list tok) : presult nat := match ts with TUp n :: r => Some (n, r) | _ => None end.
Definition lower_id (ts : list tok) : presult nat := match ts with TLow n :: r => Some (n, r) | _ => None end.
Definition ident (ts : list tok) : presult (bool * nat) :=
  match ts with TLow n :: r => Some ((false, n), r) | TUp n :: r => Some ((true, n), r) | _ => None end.
Definition is_lt_tok (t : tok) : bool := match t with TOp Lt => true | _ => false end.
Definition is_up (t : tok) : bool := match t with TUp _ => true | _ => false end.

(* ------------------------------------------------------------------ imports *)
Fixpoint mod_parts (n : nat) (ts : list tok) : presult (list (bool * nat)) :=
  match n with
  | O => None
  | S n' =>
      if hd_is (is_p Dot) ts then
        do r0 <- expect Dot ts;
        do (p, r1) <- ident r0;
        do (ps, r2) <- mod_parts n' r1;
        Some (p :: ps, r2)
      else Some ([], ts)
  end.

Definition import_one (ts : list tok) : presult import :=
  do r0 <- expect_kw KImport ts;
  do r1 <- expect LBrace r0;
  do (ms, r2) <- seplist upper_id (is_p RBrace) (S (length r1)) r1;
  do r3 <- expect RBrace r2;
  do r4 <- expect_kw KFrom r3;
  do (p, r5) <- ident r4;
  do (ps, r6) <- mod_parts (S (length r5)) r5;
  if hd_is (is_p Semi) r6 then do r7 <- expect Semi r6; Some ((ms, p :: ps), r7)
  else Some ((ms, p :: ps), r6).

Fixpoint imports_loop (n : nat) (ts : list tok) : presult (list import) :=
  match n with
  | O => None
  | S n' =>
      if hd_is (is_kw KImport) ts then
        do (i, r) <- import_one ts;
        do (l, r') <- imports_loop n' r;
        Some (i :: l, r')
      else Some ([], ts)
  end.

(* ------------------------------------------------------------------ type parameters, supertypes *)
Definition tparam_elem (avail : list nat) (ts : list tok) : presult tparam :=
  do (n, r) <- upper_id ts;
  if hd_is (is_p Colon) r then
    do r0 <- expect Colon r;
    do (b, r1) <- upper_id r0;
    do (tas, r2) <- targs_opt (parse_annot avail) r1;
    Some ((n, Some (b, tas)), r2)
  else Some ((n, None), r).

Definition fix_tparam (avail' : list nat) (tp : tparam) : tparam :=
  (fst tp, match snd tp with Some (b, tas) => Some (b, map (fix_annot avail') tas) | None => None end).

(* -> (type parameters, available_tparams afterwards) *)
Definition tparams_opt (avail : list nat) (ts : list tok) : presult (list tparam * list nat) :=
  if hd_is is_lt_tok ts then
    do r0 <- expect_op Lt ts;
    do (ps, r1) <- seplist (tparam_elem avail) is_gt (S (length r0)) r0;
    do r2 <- expect_op Gt r1;
    Some ((map (fix_tparam (avail ++ map fst ps)) ps, avail ++ map fst ps), r2)
  else Some (([], avail), ts).

Definition super_elem (avail : list nat) (ts : list tok) : presult superty :=
  do (n, r) <- upper_id ts;
  do (tas, r') <- targs_opt (parse_annot avail) r;
  Some ((n, tas), r').

Fixpoint supers_rest (avail : list nat) (n : nat) (ts : list tok) : presult (list superty) :=
  match n with
  | O => None
  | S n' =>
      if hd_is (is_p Comma) ts then
        do r0 <- expect Comma ts;
        do (s, r1) <- super_elem avail r0;
        do (l, r2) <- supers_rest avail n' r1;
        Some (s :: l, r2)
      else Some ([], ts)
  end.

Definition supers_opt (avail : list nat) (ts : list tok) : presult (list superty) :=
  if hd_is (is_p Colon) ts then
    do r0 <- expect Colon ts;
    do (s, r1) <- super_elem avail r0;
    do (l, r2) <- supers_rest avail (S (length r1)) r1;
    Some (s :: l, r2)
  else Some ([], ts).

(* ------------------------------------------------------------------ members *)
Definition annotated_id (avail : list nat) (ts : list tok) : presult (nat * annot) :=
  do (x, r) <- lower_id ts;
  do r0 <- expect Colon r;
  do (a, r1) <- parse_annot avail r0;
  Some ((x, a), r1).

(* parse_class_member_declaration_common -> (declaration, available_tparams for the body); member_sig is the part
   after the `private` / `function` / `method` keywords *)
Definition member_sig (pub is_method : bool) (avail0 : list nat) (r1 : list tok) : presult (member * list nat) :=
  do (tpa, r2) <- tparams_opt avail0 r1;
  do (name, r3) <- lower_id r2;
  do r4 <- expect LParen r3;
  do (params, r5) <- (if hd_is (is_p RParen) r4 then Some ([], r4)
                      else seplist (annotated_id (snd tpa)) (is_p RParen) (S (length r4)) r4);
  do r6 <- expect RParen r5;
  do r7 <- expect Colon r6;
  do (ret, r8) <- parse_annot (snd tpa) r7;
  Some (({| m_public := pub; m_method := is_method; m_name := name; m_tparams := fst tpa; m_params := params; m_ret := ret |},
         snd tpa), r8).

Definition member_decl (allow_private : bool) (class_avail : list nat) (ts : list tok) : presult (member * list nat) :=
  do (pub, r0) <- (if hd_is (is_kw KPrivate) ts then
                     if allow_private then do r <- expect_kw KPrivate ts; Some (false, r) else None
                   else Some (true, ts));
  do (is_method, r1) <- (if hd_is (is_kw KFunction) r0 then do r <- expect_kw KFunction r0; Some (false, r)
                         else do r <- expect_kw KMethod r0; Some (true, r));
  member_sig pub is_method (if is_method then class_avail else []) r1.

Definition member_def (class_avail : list nat) (ts : list tok) : presult (member * fexpr) :=
  do (ma, r) <- member_decl true class_avail ts;
  do r0 <- expect Assign r;
  do (body, r1) <- parse_expression (snd ma) r0;
  Some ((fst ma, body), r1).

Definition starts_member (t : tok) : bool :=
  match t with TK KFunction | TK KMethod | TK KPrivate => true | _ => false end.

Fixpoint members_loop {A} (elem : list tok -> presult A) (n : nat) (ts : list tok) : presult (list A) :=
  match n with
  | O => None
  | S n' =>
      if hd_is starts_member ts then
        do (m, r) <- elem ts;
        do (l, r') <- members_loop elem n' r;
        Some (m :: l, r')
      else Some ([], ts)
  end.

(* ------------------------------------------------------------------ type definitions *)
Definition field_def (avail : list nat) (ts : list tok) : presult (bool * nat * annot) :=
  do (pub, r0) <- (if hd_is (is_kw KPrivate) ts then do r <- expect_kw KPrivate ts; Some (false, r) else Some (true, ts));
  do r1 <- expect_kw KVal r0;
  do (x, r2) <- lower_id r1;
  do r3 <- expect Colon r2;
  do (a, r4) <- parse_annot avail r3;
  Some ((pub, x, a), r4).

Definition variant_def (avail : list nat) (ts : list tok) : presult (nat * list annot) :=
  do (n, r) <- upper_id ts;
  if hd_is (is_p LParen) r then
    do r0 <- expect LParen r;
    do (tys, r1) <- seplist (parse_annot avail) (is_p RParen) (S (length r0)) r0;
    do r2 <- expect RParen r1;
    Some ((n, tys), r2)
  else Some ((n, []), r).

Definition typedef_inner (avail : list nat) (ts : list tok) : presult typedef :=
  do r0 <- expect LParen ts;
  if hd_is is_up r0 then
    do (vs, r1) <- seplist (variant_def avail) (is_p RParen) (S (length r0)) r0;
    do r2 <- expect RParen r1;
    Some (TDEnum vs, r2)
  else
    do (fs, r1) <- seplist (field_def avail) (is_p RParen) (S (length r0)) r0;
    if MAX_STRUCT_SIZE <? length fs then None
    else do r2 <- expect RParen r1; Some (TDStruct fs, r2).

(* ------------------------------------------------------------------ toplevels, module *)
Definition class_rest (priv : bool) (ts : list tok) : presult toplevel :=
  do (name, r0) <- upper_id ts;
  do (tpa, r1) <- tparams_opt [] r0;
  do (td, r2) <- (if hd_is (is_p LBrace) r1 || hd_is (is_p Colon) r1 then Some (TDNone, r1) else typedef_inner (snd tpa) r1);
  do (sup, r3) <- supers_opt (snd tpa) r2;
  do r4 <- expect LBrace r3;
  do (ms, r5) <- members_loop (member_def (snd tpa)) (S (length r4)) r4;
  do r6 <- expect RBrace r5;
  Some (TClass priv name (fst tpa) td sup ms, r6).

Definition interface_rest (priv : bool) (ts : list tok) : presult toplevel :=
  do (name, r0) <- upper_id ts;
  do (tpa, r1) <- tparams_opt [] r0;
  do (sup, r3) <- supers_opt (snd tpa) r1;
  do r4 <- expect LBrace r3;
  do (ms, r5) <- members_loop (fun ts' => do (ma, r) <- member_decl false (snd tpa) ts'; Some (fst ma, r)) (S (length r4)) r4;
  do r6 <- expect RBrace r5;
  Some (TInterface priv name (fst tpa) sup ms, r6).

Definition toplevel_one (ts : list tok) : presult toplevel :=
  if hd_is (is_kw KPrivate) ts then
    do r0 <- expect_kw KPrivate ts;
    if hd_is (is_kw KInterface) r0 then do r1 <- expect_kw KInterface r0; interface_rest true r1
    else do r1 <- expect_kw KClass r0; class_rest true r1
  else if hd_is (is_kw KInterface) ts then do r1 <- expect_kw KInterface ts; interface_rest false r1
  else do r1 <- expect_kw KClass ts; class_rest false r1.

Definition starts_toplevel (t : tok) : bool :=
  match t with TK KClass | TK KInterface | TK KPrivate => true | _ => false end.

Fixpoint toplevels_loop (n : nat) (ts : list tok) : option (list toplevel) :=
  match n with
  | O => None
  | S n' =>
      match ts with
      | [] => Some []
      | _ =>
          if hd_is starts_toplevel ts then
            match toplevel_one ts with
            | Some (t, r) => match toplevels_loop n' r with Some l => Some (t :: l) | None => None end
            | None => None
            end
          else None            (* "Unexpected token among the classes and interfaces" *)
      end
  end.

Definition parse_module (ts : list tok) : option module :=
  match imports_loop (S (length ts)) ts with
  | Some (imps, r) => match toplevels_loop (S (length r)) r with Some tops => Some (imps, tops) | None => None end
  | None => None
  end.

(* ------------------------------------------------------------------ the printer's import organisation *)
Definition part_leb (a b : bool * nat) : bool :=
  match a, b with
  | (true, _), (false, _) => true
  | (false, _), (true, _) => false
  | (_, n), (_, m) => n <=? m
  end.
Definition part_eqb (a b : bool * nat) : bool := Bool.eqb (fst a) (fst b) && Nat.eqb (snd a) (snd b).
(* order of the dotted spellings ('.' sorts before every identifier character) *)
Fixpoint mod_leb (a b : modname) : bool :=
  match a, b with
  | [], _ => true
  | _ :: _, [] => false
  | x :: a', y :: b' => if part_eqb x y then mod_leb a' b' else part_leb x y
  end.

Fixpoint insert_by {A} (leb : A -> A -> bool) (x : A) (l : list A) : list A :=
  match l with
  | [] => [x]
  | y :: l' => if leb y x then y :: insert_by leb x l' else x :: l
  end.
(* a stable sort (elements that compare equal keep their order) *)
Definition sort_by {A} (leb : A -> A -> bool) (l : list A) : list A := fold_left (fun acc x => insert_by leb x acc) l [].

(* organized_imports: one entry per module, members appended in order of appearance *)
Fixpoint add_import (i : import) (acc : list import) : list import :=
  match acc with
  | [] => [i]
  | (ms, m) :: acc' => if modname_eqb m (snd i) then (ms ++ fst i, m) :: acc' else (ms, m) :: add_import i acc'
  end.
Definition merge_imports (imps : list import) : list import := fold_left (fun acc i => add_import i acc) imps [].
Definition organise (imps : list import) : list import :=
  map (fun i => (sort_by Nat.leb (fst i), snd i)) (sort_by (fun a b => mod_leb (snd a) (snd b)) (merge_imports imps)).

(* class_source_map after the imports: the LAST import line that mentions the name wins *)
Fixpoint resolve (imps : list import) (n : nat) : option modname :=
  match imps with
  | [] => None
  | (ms, m) :: rest => match resolve rest n with Some m' => Some m' | None => if memb n ms then Some m else None end
  end.
(* K7: a name imported from two different modules *)
Fixpoint import_conflict (imps : list import) : bool :=
  match imps with
  | [] => false
  | (ms, m) :: rest =>
      existsb (fun n => match resolve rest n with Some m' => negb (modname_eqb m m') | None => false end) ms
      || import_conflict rest
  end.

(* ------------------------------------------------------------------ printer *)
Definition pr_part (p : bool * nat) : tok := if fst p then TUp (snd p) else TLow (snd p).
Fixpoint dots (ps : list (bool * nat)) : list tok :=
  match ps with
  | [] => []
  | [p] => [pr_part p]
  | p :: ps' => pr_part p :: TP Dot :: dots ps'
  end.
Definition pr_import (i : import) : list tok :=
  TK KImport :: TP LBrace :: commas (map (fun n => [TUp n]) (fst i)) ++ TP RBrace :: TK KFrom :: dots (snd i) ++ [TP Semi].

Definition pr_tparam (tp : tparam) : list tok :=
  match tp with
  | (n, None) => [TUp n]
  | (n, Some (b, tas)) => TUp n :: TP Colon :: TUp b :: pr_targs tas
  end.
Definition pr_tparams (tps : list tparam) : list tok :=
  match tps with [] => [] | _ => TOp Lt :: commas (map pr_tparam tps) ++ [TOp Gt] end.
Definition pr_super (s : superty) : list tok := TUp (fst s) :: pr_targs (snd s).
Definition pr_supers (sup : list superty) : list tok :=
  match sup with [] => [] | _ => TP Colon :: commas (map pr_super sup) end.
Definition pr_mparam (p : nat * annot) : list tok := TLow (fst p) :: TP Colon :: pr_annot (snd p).
Definition pr_member_decl (m : member) : list tok :=
  (if m_public m then [] else [TK KPrivate]) ++ TK (if m_method m then KMethod else KFunction) :: pr_tparams (m_tparams m)
    ++ TLow (m_name m) :: TP LParen :: commas (map pr_mparam (m_params m)) ++ TP RParen :: TP Colon :: pr_annot (m_ret m).
Definition pr_member_def (dec : fexpr -> side -> bool) (mb : member * fexpr) : list tok :=
  pr_member_decl (fst mb) ++ TP Assign :: fpr dec (snd mb).
Definition pr_field (f : bool * nat * annot) : list tok :=
  (if fst (fst f) then [] else [TK KPrivate]) ++ TK KVal :: TLow (snd (fst f)) :: TP Colon :: pr_annot (snd f).
Definition pr_variant (v : nat * list annot) : list tok :=
  match snd v with [] => [TUp (fst v)] | tys => TUp (fst v) :: TP LParen :: commas (map pr_annot tys) ++ [TP RParen] end.
Definition pr_typedef (td : typedef) : list tok :=
  match td with
  | TDNone => []
  | TDStruct fs => TP LParen :: commas (map pr_field fs) ++ [TP RParen]
  | TDEnum vs => TP LParen :: commas (map pr_variant vs) ++ [TP RParen]
  end.
Definition pr_toplevel (dec : fexpr -> side -> bool) (t : toplevel) : list tok :=
  match t with
  | TInterface priv name tps sup ms =>
      (if priv then [TK KPrivate] else []) ++ TK KInterface :: TUp name :: pr_tparams tps ++ pr_supers sup
        ++ TP LBrace :: flat_map pr_member_decl ms ++ [TP RBrace]
  | TClass priv name tps td sup ms =>
      (if priv then [TK KPrivate] else []) ++ TK KClass :: TUp name :: pr_tparams tps ++ pr_typedef td ++ pr_supers sup
        ++ TP LBrace :: flat_map (pr_member_def dec) ms ++ [TP RBrace]
  end.
Definition pr_module (dec : fexpr -> side -> bool) (m : module) : list tok :=
  flat_map pr_import (organise (fst m)) ++ flat_map (pr_toplevel dec) (snd m).
Definition fimpl_module (m : module) : list tok := pr_module fdec_impl m.

(* ------------------------------------------------------------------ modules the parser can produce *)
Definition canon_tparam (avail avail' : list nat) (tp : tparam) : tparam :=
  (fst tp, match snd tp with Some (b, tas) => Some (b, map (fun a => fix_annot avail' (canon avail a)) tas) | None => None end).
Definition tparams_ok (avail : list nat) (tps : list tparam) : bool :=
  list_eqb tparam_eqb (map (canon_tparam avail (avail ++ map fst tps)) tps) tps.
Definition annots_ok (avail : list nat) (l : list annot) : bool := forallb (annot_ok avail) l.
Definition supers_ok (avail : list nat) (sup : list superty) : bool := forallb (fun s => annots_ok avail (snd s)) sup.

Definition member_avail (class_avail : list nat) (m : member) : list nat :=
  (if m_method m then class_avail else []) ++ map fst (m_tparams m).
Definition member_ok (class_avail : list nat) (m : member) : bool :=
  tparams_ok (if m_method m then class_avail else []) (m_tparams m)
  && forallb (fun p => annot_ok (member_avail class_avail m) (snd p)) (m_params m)
  && annot_ok (member_avail class_avail m) (m_ret m).

Definition typedef_ok (avail : list nat) (td : typedef) : bool :=
  match td with
  | TDNone => true
  | TDStruct fs => negb (match fs with [] => true | _ => false end) && (length fs <=? MAX_STRUCT_SIZE)
                   && forallb (fun f => annot_ok avail (snd f)) fs
  | TDEnum vs => negb (match vs with [] => true | _ => false end) && forallb (fun v => annots_ok avail (snd v)) vs
  end.

Definition toplevel_ok (t : toplevel) : bool :=
  match t with
  | TInterface _ _ tps sup ms =>
      tparams_ok [] tps && supers_ok (map fst tps) sup
      && forallb (fun m => m_public m && member_ok (map fst tps) m) ms
  | TClass _ _ tps td sup ms =>
      tparams_ok [] tps && typedef_ok (map fst tps) td && supers_ok (map fst tps) sup
      && forallb (fun mb => member_ok (map fst tps) (fst mb) && fwf (member_avail (map fst tps) (fst mb)) (snd mb)) ms
  end.

Definition import_ok (i : import) : bool :=
  negb (match fst i with [] => true | _ => false end) && negb (match snd i with [] => true | _ => false end).
Definition module_ok (m : module) : bool := forallb import_ok (fst m) && forallb toplevel_ok (snd m).

Definition toplevel_bodies (t : toplevel) : list fexpr :=
  match t with TInterface _ _ _ _ _ => [] | TClass _ _ _ _ _ ms => map snd ms end.
Definition module_known (m : module) : bool := existsb fknown (flat_map toplevel_bodies (snd m)).
Definition module_suff (dec : fexpr -> side -> bool) (m : module) : bool :=
  forallb (fsuff dec) (flat_map toplevel_bodies (snd m)).
